(** Model/Cache.v — the registry with every memo made explicit (property C13).

    State = the DECLARATIVE part (what a freshly built registry is built from: the definitions
    — a [reg] of Model/Registry.v —, the systems, the contexts, the default system name, the
    active context names, the units of the one tracked quantity object) PLUS the live tables
    and memos of pint:

      [c_base], [c_ctx_units]              the unit table [_units] (a ChainMap): base layer with
                                           the lazily registered prefixed units ([get_name], via
                                           the same construction as [Registry.register]) and the
                                           per-context overlays
      [c_dim]        [_cache.dimensionality]           (shared by all context overlays)
      [c_parse]      [_cache.parse_unit]               (shared; consulted only when the string is
                                                        a key of the unit table, as coded)
      [c_dimeq]      [_cache.dimensional_equivalents]  (shared; built at start-up only)
      [c_cache0]     [_caches[()]]: [root_units], [conversion_factor] keyed by (src, dst)
      [c_caches]     [_caches[key]]: the overlay caches, one per combination of active contexts
      [c_bcache]     [_base_units_cache] (keyed by the units only)
      [c_obj]        the tracked quantity: units and its [_dimensionality] memo
      [tk]           the process-wide [ParserHelper.from_string] table: a pure function

    [step] mirrors pint/facets/plain/registry.py ([_get_dimensionality], [_get_root_units],
    [_get_conversion_factor], [_parse_units_as_container], [get_name], [_get_compatible_units],
    [_build_cache], [define]), system/registry.py ([_get_base_units], [default_system] setter),
    context/registry.py ([_switch_context_cache_and_units], [_redefine]) and
    plain/quantity.py ([dimensionality], [_imul_div]).  [pure_answer] answers the same
    questions with the cache-free functions on the declarative state.

    Every deviation of pint from C13 sits behind a boolean of [quirks] ([faithful] = pint as it
    is, [repaired] = all off):
      F3   [q_lazy_visible]       lazily built prefix+unit definitions are stored in the table that
                                  name parsing reads
      F7   [q_bcache_ctx_blind]   [_base_units_cache] survives context switches
      F100 [q_bcache_sysarg]      [_base_units_cache] is filled by a query with an explicit
                                  [system=] argument (the entry is then served for the default system)
      F102 [q_bcache_none_keeps]  [default_system = None] does not clear [_base_units_cache]
      F9   [q_dimeq_static]       [dimensional_equivalents] / default-group membership are only
                                  computed at start-up: later [define]s never reach them
      F101 [q_objdim_stale]       in-place [*=] on an ndarray quantity keeps [_dimensionality]
      F103 [q_define_in_overlay]  [define] while a redefining context is active writes into the
                                  context overlay, which the next switch drops
    Definitions only; proofs live in Proofs/CacheProofs.v. *)
From Coq Require Import Ascii String.
From stdpp Require Import gmap strings list.
From PintV Require Import Model.UC Model.Eval Model.Registry.
Open Scope string_scope.

Record quirks := QK {
  q_lazy_visible : bool;
  q_bcache_ctx_blind : bool;
  q_bcache_sysarg : bool;
  q_bcache_none_keeps : bool;
  q_dimeq_static : bool;
  q_objdim_stale : bool;
  q_define_in_overlay : bool }.
Definition faithful : quirks := QK true true true true true true true.
Definition repaired : quirks := QK false false false false false false false.

(** * Association lists (keys: containers, pairs of containers, strings, context chains) *)
Section assoc.
  Context {K V : Type} `{EqDecision K}.
  Fixpoint alookup (k : K) (l : list (K * V)) : option V :=
    match l with
    | [] => None
    | (k', v) :: r => if decide (k = k') then Some v else alookup k r
    end.
  Definition adelete (k : K) (l : list (K * V)) : list (K * V) :=
    List.filter (λ kv, negb (bool_decide (k = kv.1))) l.
  Definition ainsert (k : K) (v : V) (l : list (K * V)) : list (K * V) := (k, v) :: adelete k l.
End assoc.

(** * Declarative data *)
Notation utable := (gmap string udef).
(** a factor as the API shows it: exact rational, float (a non-integer power was taken), or
    [None] (non-multiplicative root unit) *)
Inductive fac := FExact (q : Qc) | FFloat | FNone.
Global Instance fac_eq_dec : EqDecision fac.
Proof. solve_decision. Defined.

(** a system: its base-unit table (root unit ↦ replacement), its members, and whether it uses the
    default group (the one units defined outside any group are copied to at start-up) *)
Record sysdef := SysDef { sy_base : gmap string uc; sy_members : list string; sy_orphans : bool }.
(** a context, reduced to its unit redefinitions [name = scale * ref] *)
Record redef := RD { rd_name : string; rd_scale : Qc; rd_ref : uc }.

Record decl := Decl {
  d_reg : reg;
  d_systems : gmap string sysdef;
  d_contexts : gmap string (list redef);
  d_default : option string;
  d_active : list string;          (* newest first *)
  d_obj : option uc }.             (* units of the tracked quantity *)

Definition ctx_redefs (d : decl) (c : string) : list redef := default [] (d_contexts d !! c).
Definition has_redefs (d : decl) : bool :=
  existsb (λ c, match ctx_redefs d c with [] => false | _ => true end) (d_active d).
(** "for ctx in reversed(contexts): for definition in ctx.redefinitions" *)
Definition active_redefs (d : decl) : list redef := concat (map (ctx_redefs d) (rev (d_active d))).

Definition with_units (r : reg) (m : utable) : reg :=
  Reg m (r_unit_names r) (r_prefixes r) (r_prefix_keys r) (r_dims r) (r_base_units r).

(** * Error classes and answers *)
Inductive ekind := KDim | KUndef | KOffset | KValue | KOther.
Global Instance ekind_eq_dec : EqDecision ekind.
Proof. solve_decision. Defined.
Definition ekind_of (e : err) : ekind :=
  match e with
  | EDim => KDim | EUndefined _ => KUndef | EOffset => KOffset | EValue => KValue | _ => KOther
  end.
Inductive answer :=
| AUnit (u : uc)                 (* parse_units *)
| ANum (f : fac)                 (* convert(1, src, dst) *)
| AFac (f : fac) (u : uc)        (* get_root_units / get_base_units *)
| ADim (u : uc)                  (* get_dimensionality / quantity.dimensionality *)
| ANames (l : list string)       (* get_compatible_units *)
| ADone
| AErr (e : ekind).
Global Instance answer_eq_dec : EqDecision answer.
Proof. solve_decision. Defined.

(** * The cache-free functions on a registry view *)
Definition fac_of (f : option Qc) (ex : bool) : fac :=
  match f, ex with Some q, true => FExact q | _, _ => FFloat end.
Definition fac_mul (a b : fac) : res fac :=
  match a, b with
  | FNone, _ | _, FNone => Err EType
  | FExact x, FExact y => Ok (FExact (x * y)%Qc)
  | _, _ => Ok FFloat
  end.
(** [_get_root_units] with [check_nonmult=True] *)
Definition root_ans (r : reg) (u : uc) : res (fac * uc) :=
  x ←r root_of r u;
  Ok (if nonmult_in r x.1.2 then FNone else fac_of x.1.1 x.2, x.1.2).
(** [_get_conversion_factor] *)
Definition conv_ans (r : reg) (src dst : uc) : res fac :=
  ds ←r dim_of r src; dd ←r dim_of r dst;
  if negb (uc_eqb ds dd) then Err EDim
  else x ←r root_ans r (uc_div src dst); Ok x.1.
(** [convert(value, src, dst)] on a number: equal units short-cut, else the factor *)
Definition convert_ans (r : reg) (f : fac) (src dst : uc) : res fac :=
  if uc_eqb src dst then Ok f else c ←r conv_ans r src dst; fac_mul f c.

(** [get_name] without its side effect *)
Definition name_ans (r : reg) (name : string) : res string :=
  if String.eqb name "dimensionless" then Ok "" else d ←r resolve r name; Ok (u_name d).
Definition is_mult (r : reg) (cname : string) : bool :=
  match r_units r !! cname with Some d => u_multiplicative d | None => true end.
Definition delta_name (r : reg) (many : bool) (cname : string) (v : Qc) : string :=
  if (many || negb (bool_decide (v = 1%Qc))) && negb (is_mult r cname) then "delta_" ++ cname else cname.
Fixpoint pu_pure (r : reg) (many : bool) (l : list (string * Qc)) (acc : uc) : res uc :=
  match l with
  | [] => Ok acc
  | (n, v) :: l' =>
      cname ←r name_ans r n;
      if String.eqb cname "" then pu_pure r many l' acc
      else pu_pure r many l' (uc_add acc (delta_name r many cname v) v)
  end.
(** [_parse_units_as_container(text, as_delta=True)] without the cache; [tk] = [ParserHelper.from_string] *)
Definition parse_pure (tk : string → option (list (string * Qc))) (r : reg) (text : string) : res uc :=
  if String.eqb text "" then Ok ∅ else
  match tk text with
  | None => Err ESyntax
  | Some names => pu_pure r (Nat.ltb 1 (length names)) names ∅
  end.
(** [to_units_container(text)] without a registry: the names as written *)
Definition raw_of (tk : string → option (list (string * Qc))) (text : string) : res uc :=
  match tk text with None => Err ESyntax | Some names => Ok (list_to_map names) end.

(** [_get_base_units] without the memo *)
Definition sys_dest (sd : sysdef) (b : uc) : uc :=
  fold_right (λ (kv : string * Qc) acc,
    uc_mul acc (uc_pow (default {[ kv.1 := 1%Qc ]} (sy_base sd !! kv.1)) kv.2)) (∅ : uc) (map_to_list b).
Definition base_ans (systems : gmap string sysdef) (r : reg) (system : option string) (u : uc) : res (fac * uc) :=
  rt ←r root_ans r u;
  match system with
  | None => Ok rt
  | Some name =>
      match systems !! name with
      | None => Err EValue
      | Some sd =>
          let dest := sys_dest sd rt.2 in
          bf ←r convert_ans r rt.1 rt.2 dest; Ok (bf, dest)
      end
  end.

(** [_build_cache]: the table of dimensional equivalents *)
Definition dimeq_add (di : uc) (n : string) (l : list (uc * list string)) : list (uc * list string) :=
  match alookup di l with
  | Some ns => if bool_decide (n ∈ ns) then l else ainsert di (app ns [n]) l
  | None => app l [(di, [n])]
  end.
Definition dimeq_key (r : reg) (acc : list (uc * list string)) (k : string) : list (uc * list string) :=
  let pb := match parse_unit_name r k with pb :: _ => pb | [] => ("", k) end in
  if String.eqb pb.1 "" then
    match root_of r {[ pb.2 := 1%Qc ]}, dim_of r {[ pb.2 := 1%Qc ]}, r_units r !! pb.2 with
    | Ok _, Ok di, Some d => dimeq_add di (u_name d) acc
    | _, _, _ => acc
    end
  else acc.
Definition dimeq_build (r : reg) : list (uc * list string) :=
  fold_left (dimeq_key r) (map fst (map_to_list (r_units r))) [].
Definition compat_pure (r : reg) (dm : uc) : list string := default [] (alookup dm (dimeq_build r)).
Definition sys_filter (systems : gmap string sysdef) (system : option string) (l : list string) : res (list string) :=
  match system with
  | None => Ok l
  | Some name =>
      match systems !! name with
      | Some sd => Ok (List.filter (λ n, bool_decide (n ∈ sy_members sd)) l)
      | None => Err EValue
      end
  end.

(** [_redefine], cache-free: the overlay entry for one redefinition *)
Definition redef_target (r : reg) (rd : redef) : res udef :=
  match parse_unit_name r (rd_name rd) with
  | [] => Err (EUndefined (rd_name rd))
  | cands =>
      match List.filter (λ c : string * string, String.eqb c.1 "") cands with
      | [] => Err EValue
      | [c] => match r_units r !! c.2 with Some bd => Ok bd | None => Err (EUndefined c.2) end
      | _ => Err EAssert
      end
  end.
Definition redef_def (bd : udef) (rd : redef) : udef :=
  UDef (u_name bd) (Some (u_symbol bd)) (u_aliases bd) (rd_scale rd) false CScale (rd_ref rd) false.
Definition apply_redef (r : reg) (rd : redef) : res reg :=
  bd ←r redef_target r rd;
  if u_base bd then Err EValue else
  a ←r dim_of r (u_ref bd); b ←r dim_of r (rd_ref rd);
  if negb (uc_eqb a b) then Err EValue
  else Ok (with_units r (add_def_keys (redef_def bd rd) (r_units r))).
(** the unit table a fresh registry shows once the active contexts are enabled *)
Definition pview (d : decl) : reg :=
  fold_left (λ r rd, match apply_redef r rd with Ok r' => r' | Err _ => r end) (active_redefs d) (d_reg d).

(** * Operations *)
Inductive uarg := UStr (s : string) | UCont (u : uc).
Inductive op :=
| OConvert (a b : uarg)                       (* ureg.convert(1, a, b) *)
| OParse (s : string)                         (* ureg.parse_units(s) *)
| ORoot (a : uarg)                            (* ureg.get_root_units(a) *)
| ODim (a : uarg)                             (* ureg.get_dimensionality(a) *)
| OBase (a : uarg) (system : option string)   (* ureg.get_base_units(a, system=...) *)
| OCompat (a : uarg)                          (* ureg.get_compatible_units(a) *)
| ODefine (d : udef)                          (* ureg.define("name = scale * ref = symbol = aliases") *)
| OEnable (c : string)                        (* ureg.enable_contexts(c) *)
| ODisable                                    (* ureg.disable_contexts(1) *)
| OSetSystem (s : option string)              (* ureg.default_system = s *)
| OQNew (a : uarg)                            (* q = Quantity(ndarray, a) *)
| OQImul (a : uarg)                           (* q *= Quantity(1, a) *)
| OQDim                                       (* q.dimensionality *)
| OOther                                      (* something happens to ANOTHER registry *)
| ODefinePrefix (p : pdef).                   (* ureg.define("name- = value = symbol-") *)

(** how the string/container arguments reach the core functions *)
Definition arg_parsed_pure tk (r : reg) (a : uarg) : res uc :=
  match a with UStr s => parse_pure tk r s | UCont u => Ok u end.
Definition arg_raw tk (a : uarg) : res uc :=
  match a with UStr s => raw_of tk s | UCont u => Ok u end.

Definition ans_of {A} (f : A → answer) (x : res A) : answer :=
  match x with Ok a => f a | Err e => AErr (ekind_of e) end.

Definition eff_system (d : decl) (system : option string) : option string :=
  match system with Some x => Some x | None => d_default d end.

(** the declarative effect of an operation *)
Definition define_members (systems : gmap string sysdef) (n : string) : gmap string sysdef :=
  fmap (λ sd, if sy_orphans sd && negb (bool_decide (n ∈ sy_members sd))
              then SysDef (sy_base sd) (app (sy_members sd) [n]) true else sd) systems.
(** in-place [*=]: the other operand is built first; then [_imul_div] looks at the definition of every
    unit of the quantity ([_get_unit_definition]: an entry of the unit table, else the name is
    parsed again) — a unit that no longer resolves (it was defined inside a context overlay that is
    gone) makes the operation fail *)
Definition obj_units_ok (r : reg) (u : uc) : res unit :=
  foldM (λ (_ : unit) (kv : string * Qc),
           match r_units r !! kv.1 with
           | Some _ => Ok tt
           | None => match resolve r kv.1 with Ok _ => Ok tt | Err e => Err e end
           end) (map_to_list u) tt.
Definition imul_arg_pure tk (r : reg) (u : uc) (a : uarg) : res uc :=
  v ←r arg_parsed_pure tk r a; _ ←r obj_units_ok r u; Ok v.

(** [_add_prefix]: the definition under its name, symbol and aliases (as [Registry.elab1]) *)
Definition add_prefix (r : reg) (p : pdef) : reg :=
  let r1 := add_prefix_key (p_name p) p r in
  let r2 := match p_sym p with
            | Some s => if String.eqb s "" then r1 else add_prefix_key s p r1
            | None => r1
            end in
  fold_left (λ r a, add_prefix_key a p r) (p_aliases p) r2.
Definition decl_step tk (d : decl) (o : op) : decl :=
  match o with
  | ODefine ud => Decl (add_unit_def (d_reg d) ud) (define_members (d_systems d) (u_name ud))
                       (d_contexts d) (d_default d) (d_active d) (d_obj d)
  | ODefinePrefix p => Decl (add_prefix (d_reg d) p) (d_systems d) (d_contexts d) (d_default d) (d_active d) (d_obj d)
  | OEnable c =>
      match d_contexts d !! c with
      | Some _ => Decl (d_reg d) (d_systems d) (d_contexts d) (d_default d) (c :: d_active d) (d_obj d)
      | None => d
      end
  | ODisable => Decl (d_reg d) (d_systems d) (d_contexts d) (d_default d) (tail (d_active d)) (d_obj d)
  | OSetSystem s =>
      match s with
      | Some n => match d_systems d !! n with
                  | Some _ => Decl (d_reg d) (d_systems d) (d_contexts d) s (d_active d) (d_obj d)
                  | None => d
                  end
      | None => Decl (d_reg d) (d_systems d) (d_contexts d) None (d_active d) (d_obj d)
      end
  | OQNew a =>
      match arg_parsed_pure tk (pview d) a with
      | Ok u => Decl (d_reg d) (d_systems d) (d_contexts d) (d_default d) (d_active d) (Some u)
      | Err _ => d
      end
  | OQImul a =>
      match d_obj d with
      | Some u =>
          match imul_arg_pure tk (pview d) u a with
          | Ok v => Decl (d_reg d) (d_systems d) (d_contexts d) (d_default d) (d_active d) (Some (uc_mul u v))
          | Err _ => d
          end
      | None => d
      end
  | _ => d
  end.

(** * The property's oracle: the answer of a freshly built registry in declarative state [d] *)
Definition pure_answer tk (d : decl) (o : op) : answer :=
  let r := pview d in
  match o with
  | OConvert a b =>
      ans_of ANum (x ←r arg_parsed_pure tk r a; y ←r arg_parsed_pure tk r b; convert_ans r (FExact 1) x y)
  | OParse s => ans_of AUnit (parse_pure tk r s)
  | ORoot a => ans_of (λ fu : fac * uc, AFac fu.1 fu.2) (x ←r arg_parsed_pure tk r a; root_ans r x)
  | ODim a => ans_of ADim (x ←r arg_raw tk a; dim_of r x)
  | OBase a system =>
      ans_of (λ fu : fac * uc, AFac fu.1 fu.2)
             (x ←r arg_raw tk a; base_ans (d_systems d) r (eff_system d system) x)
  | OCompat a =>
      ans_of ANames (x ←r arg_raw tk a; dm ←r dim_of r x;
                     sys_filter (d_systems d) (d_default d)
                                (if bool_decide (x = ∅) then [] else compat_pure r dm))
  | ODefine _ => ADone
  | OEnable c => match d_contexts d !! c with Some _ => ADone | None => AErr KOther end
  | ODisable => ADone
  | OSetSystem s =>
      match s with
      | Some n => match d_systems d !! n with Some _ => ADone | None => AErr KValue end
      | None => ADone
      end
  | OQNew a => ans_of (λ _, ADone) (arg_parsed_pure tk r a)
  | OQImul a =>
      match d_obj d with
      | Some u => ans_of (λ _, ADone) (imul_arg_pure tk r u a)
      | None => AErr KOther
      end
  | OQDim => match d_obj d with Some u => ans_of ADim (dim_of r u) | None => AErr KOther end
  | OOther => ADone
  | ODefinePrefix _ => ADone
  end.

(** * The live registry *)
Record cache := Cache { k_root : list (uc * (fac * uc)); k_conv : list ((uc * uc) * fac) }.
Definition cache_empty : cache := Cache [] [].

Record cstate := CS {
  c_decl : decl;
  c_base : reg;                              (* [_units.maps[-1]] and the registry-level tables *)
  c_ctx_units : list (list string * utable); (* [_context_units]: one overlay per combination *)
  c_systems : gmap string sysdef;            (* live systems (memberships as pint computes them) *)
  c_cache0 : cache;
  c_caches : list (list string * cache);     (* [_caches] besides [()] *)
  c_dim : list (uc * uc);
  c_parse : list (string * uc);
  c_dimeq : list (uc * list string);
  c_bcache : list (uc * (fac * uc));
  c_obj : option (uc * option uc) }.

Definition set_decl f s := CS (f (c_decl s)) (c_base s) (c_ctx_units s) (c_systems s) (c_cache0 s) (c_caches s) (c_dim s) (c_parse s) (c_dimeq s) (c_bcache s) (c_obj s).
Definition set_base f s := CS (c_decl s) (f (c_base s)) (c_ctx_units s) (c_systems s) (c_cache0 s) (c_caches s) (c_dim s) (c_parse s) (c_dimeq s) (c_bcache s) (c_obj s).
Definition set_ctx_units f s := CS (c_decl s) (c_base s) (f (c_ctx_units s)) (c_systems s) (c_cache0 s) (c_caches s) (c_dim s) (c_parse s) (c_dimeq s) (c_bcache s) (c_obj s).
Definition set_systems f s := CS (c_decl s) (c_base s) (c_ctx_units s) (f (c_systems s)) (c_cache0 s) (c_caches s) (c_dim s) (c_parse s) (c_dimeq s) (c_bcache s) (c_obj s).
Definition set_cache0 f s := CS (c_decl s) (c_base s) (c_ctx_units s) (c_systems s) (f (c_cache0 s)) (c_caches s) (c_dim s) (c_parse s) (c_dimeq s) (c_bcache s) (c_obj s).
Definition set_caches f s := CS (c_decl s) (c_base s) (c_ctx_units s) (c_systems s) (c_cache0 s) (f (c_caches s)) (c_dim s) (c_parse s) (c_dimeq s) (c_bcache s) (c_obj s).
Definition set_dim f s := CS (c_decl s) (c_base s) (c_ctx_units s) (c_systems s) (c_cache0 s) (c_caches s) (f (c_dim s)) (c_parse s) (c_dimeq s) (c_bcache s) (c_obj s).
Definition set_parse f s := CS (c_decl s) (c_base s) (c_ctx_units s) (c_systems s) (c_cache0 s) (c_caches s) (c_dim s) (f (c_parse s)) (c_dimeq s) (c_bcache s) (c_obj s).
Definition set_dimeq f s := CS (c_decl s) (c_base s) (c_ctx_units s) (c_systems s) (c_cache0 s) (c_caches s) (c_dim s) (c_parse s) (f (c_dimeq s)) (c_bcache s) (c_obj s).
Definition set_bcache f s := CS (c_decl s) (c_base s) (c_ctx_units s) (c_systems s) (c_cache0 s) (c_caches s) (c_dim s) (c_parse s) (c_dimeq s) (f (c_bcache s)) (c_obj s).
Definition set_obj f s := CS (c_decl s) (c_base s) (c_ctx_units s) (c_systems s) (c_cache0 s) (c_caches s) (c_dim s) (c_parse s) (c_dimeq s) (c_bcache s) (f (c_obj s)).

(** a freshly built registry: no memo but the start-up table of dimensional equivalents *)
Definition init_with (d : decl) (dq : list (uc * list string)) : cstate :=
  CS d (d_reg d) [] (d_systems d) cache_empty [] [] [] dq [] None.
Definition init (d : decl) : cstate := init_with d (dimeq_build (d_reg d)).

(** the ChainMap: the top overlay is the dict stored in [_context_units] under the active key *)
Definition top_overlay (s : cstate) : utable :=
  default ∅ (alookup (d_active (c_decl s)) (c_ctx_units s)).
Definition layers (s : cstate) : list utable :=
  if has_redefs (c_decl s) then [top_overlay s] else [].
Definition view (s : cstate) : reg :=
  match layers s with
  | [] => c_base s
  | ls => with_units (c_base s) (fold_right (∪) (r_units (c_base s)) ls)
  end.

(** writing a key into [_units] (= into [maps[0]]) *)
Definition put_unit (k : string) (d : udef) (s : cstate) : cstate :=
  if has_redefs (c_decl s)
  then set_ctx_units (ainsert (d_active (c_decl s)) (<[k := d]> (top_overlay s))) s
  else set_base (λ r, with_units r (<[k := d]> (r_units r))) s.

(** what [get_name s] stores: the same entry as [Registry.register] *)
Definition lazy_entry (r : reg) (s : string) : option (string * udef) :=
  match r_units r !! s with
  | Some _ => None
  | None =>
      match parse_unit_name r s with
      | (p, u) :: _ =>
          if String.eqb p "" then None else
          match prefixed_def r p u with Ok d => Some (p ++ u, d) | Err _ => None end
      | [] => None
      end
  end.
Definition touch1 (qk : quirks) (s : cstate) (name : string) : cstate :=
  if q_lazy_visible qk then
    match lazy_entry (view s) name with Some kd => put_unit kd.1 kd.2 s | None => s end
  else s.
Definition touch (qk : quirks) (s : cstate) (u : uc) : cstate :=
  fold_left (touch1 qk) (map fst (map_to_list u)) s.

(** state-and-error monad *)
Definition M (A : Type) : Type := cstate → cstate * res A.
Definition mret {A} (a : A) : M A := λ s, (s, Ok a).
Definition mlift {A} (x : res A) : M A := λ s, (s, x).
Definition mbind {A B} (m : M A) (f : A → M B) : M B :=
  λ s, let sr := m s in match sr.2 with Ok a => f a sr.1 | Err e => (sr.1, Err e) end.
Notation "x ←m y ; z" := (mbind y (λ x, z)) (at level 20, y at level 100, z at level 200, right associativity).

Definition overlay_cache (s : cstate) : cache := default cache_empty (alookup (d_active (c_decl s)) (c_caches s)).
Definition cur_cache (s : cstate) : cache := if has_redefs (c_decl s) then overlay_cache s else c_cache0 s.
Definition upd_cache (f : cache → cache) (s : cstate) : cstate :=
  if has_redefs (c_decl s) then set_caches (ainsert (d_active (c_decl s)) (f (overlay_cache s))) s
  else set_cache0 f s.

(** [_get_dimensionality] *)
Definition get_dim (qk : quirks) (u : uc) : M uc := λ s,
  if bool_decide (u = ∅) then (s, Ok ∅) else
  match alookup u (c_dim s) with
  | Some d => (s, Ok d)
  | None =>
      let r := dim_of (view s) u in
      let s1 := touch qk s u in
      match r with
      | Ok d => (set_dim (cons (u, d)) s1, Ok d)
      | Err e => (s1, Err e)
      end
  end.
(** [_get_root_units] *)
Definition get_root (qk : quirks) (u : uc) : M (fac * uc) := λ s,
  match alookup u (k_root (cur_cache s)) with
  | Some fu => (s, Ok fu)
  | None =>
      let r := root_ans (view s) u in
      let s1 := touch qk s u in
      match r with
      | Ok fu => (upd_cache (λ c, Cache ((u, fu) :: k_root c) (k_conv c)) s1, Ok fu)
      | Err e => (s1, Err e)
      end
  end.
(** [_get_conversion_factor]: a DimensionalityError is returned, not stored *)
Definition get_conv (qk : quirks) (src dst : uc) : M fac := λ s,
  match alookup (src, dst) (k_conv (cur_cache s)) with
  | Some f => (s, Ok f)
  | None =>
      (ds ←m get_dim qk src; dd ←m get_dim qk dst;
       if negb (uc_eqb ds dd) then mlift (Err EDim)
       else x ←m get_root qk (uc_div src dst);
            λ s', (upd_cache (λ c, Cache (k_root c) (((src, dst), x.1) :: k_conv c)) s', Ok x.1)) s
  end.
(** [convert(value, src, dst)].  ([ContextRegistry._convert] looks for a rule path only when
    [bool(_active_ctx)], i.e. when some active context has transformation rules; the contexts of
    this model carry redefinitions only.) *)
Definition do_convert (qk : quirks) (f : fac) (src dst : uc) : M fac :=
  if uc_eqb src dst then mret f else c ←m get_conv qk src dst; mlift (fac_mul f c).

(** [get_name] *)
Definition get_name_st (qk : quirks) (name : string) : M string := λ s,
  if String.eqb name "dimensionless" then (s, Ok "") else
  let r := resolve (view s) name in
  (touch1 qk s name, match r with Ok d => Ok (u_name d) | Err e => Err e end).
Fixpoint pu_fold (qk : quirks) (many : bool) (l : list (string * Qc)) (acc : uc) : M uc :=
  match l with
  | [] => mret acc
  | (n, v) :: l' =>
      cname ←m get_name_st qk n;
      if String.eqb cname "" then pu_fold qk many l' acc
      else λ s, pu_fold qk many l' (uc_add acc (delta_name (view s) many cname v) v) s
  end.
(** [_parse_units_as_container(text)]: the cache is used only when [text] is a key of [_units] *)
Definition parse_str (qk : quirks) tk (text : string) : M uc := λ s,
  match alookup text (c_parse s), r_units (view s) !! text with
  | Some u, Some _ => (s, Ok u)
  | _, _ =>
      if String.eqb text "" then (s, Ok ∅) else
      match tk text with
      | None => (s, Err ESyntax)
      | Some names =>
          (u ←m pu_fold qk (Nat.ltb 1 (length names)) names ∅;
           λ s', (set_parse (ainsert text u) s', Ok u)) s
      end
  end.
Definition arg_parsed (qk : quirks) tk (a : uarg) : M uc :=
  match a with UStr s => parse_str qk tk s | UCont u => mret u end.

(** [_get_base_units] *)
Definition get_base (qk : quirks) (u : uc) (sysarg : option string) : M (fac * uc) := λ s,
  let dflt := d_default (c_decl s) in
  let system := eff_system (c_decl s) sysarg in
  match (if bool_decide (system = dflt) then alookup u (c_bcache s) else None) with
  | Some fu => (s, Ok fu)
  | None =>
      (rt ←m get_root qk u;
       match system with
       | None => mret rt
       | Some name =>
           λ s1,
             match c_systems s1 !! name with
             | None => (s1, Err EValue)
             | Some sd =>
                 let dest := sys_dest sd rt.2 in
                 (bf ←m do_convert qk rt.1 rt.2 dest;
                  λ s2, ((if q_bcache_sysarg qk || bool_decide (system = dflt)
                          then set_bcache (ainsert u (bf, dest)) s2 else s2), Ok (bf, dest))) s1
             end
       end) s
  end.

(** [_get_compatible_units]: [setdefault] stores an empty set for an unseen dimensionality *)
Definition get_compat (qk : quirks) (u : uc) : M (list string) :=
  dm ←m get_dim qk u;
  λ s,
    let l := if bool_decide (u = ∅) then (s, []) else
             match alookup dm (c_dimeq s) with
             | Some l => (s, l)
             | None => (set_dimeq (cons (dm, [])) s, [])
             end in
    (l.1, sys_filter (c_systems s) (d_default (c_decl s)) l.2).

(** [_redefine] / [_switch_context_cache_and_units] *)
Definition put_def (d : udef) (s : cstate) : cstate :=
  set_ctx_units (ainsert (d_active (c_decl s)) (add_def_keys d (top_overlay s))) s.
Definition redefine1 (qk : quirks) (rd : redef) : M unit := λ s,
  match redef_target (view s) rd with
  | Err e => (s, Err e)
  | Ok bd =>
      if u_base bd then (s, Err EValue) else
      (a ←m get_dim qk (u_ref bd); b ←m get_dim qk (rd_ref rd);
       if negb (uc_eqb a b) then mlift (Err EValue)
       else λ s', (put_def (redef_def bd rd) s', Ok tt)) s
  end.
Fixpoint redefine_all (qk : quirks) (rds : list redef) : M unit :=
  match rds with
  | [] => mret tt
  | rd :: r => _ ←m redefine1 qk rd; redefine_all qk r
  end.
(** a known combination of contexts reuses its overlay and its cache; a new one builds them *)
Definition switch (qk : quirks) : M unit := λ s,
  let s0 := if q_bcache_ctx_blind qk then s else set_bcache (λ _, []) s in
  if negb (has_redefs (c_decl s0)) then (s0, Ok tt)
  else
    let key := d_active (c_decl s0) in
    match alookup key (c_ctx_units s0) with
    | Some _ => (s0, Ok tt)
    | None =>
        redefine_all qk (active_redefs (c_decl s0))
          (set_caches (ainsert key cache_empty) (set_ctx_units (ainsert key ∅) s0))
    end.

(** [define] of a unit under keys that are new *)
Definition do_define (qk : quirks) (ud : udef) : M unit := λ s,
  let s1 :=
    if has_redefs (c_decl s) && q_define_in_overlay qk then
      (* the keys go to the overlay; dimensions and the base-unit list are registry-level *)
      set_base (λ r, let r' := add_unit_def r ud in with_units r' (r_units r)) (put_def ud s)
    else set_base (λ r, add_unit_def r ud) s in
  let s2 :=
    if q_dimeq_static qk then s1
    else
      set_systems (λ m, define_members m (u_name ud))
        (match dim_of (view s1) {[ u_name ud := 1%Qc ]} with
         | Ok di => set_dimeq (dimeq_add di (u_name ud)) s1
         | Err _ => s1
         end) in
  (s2, Ok tt).

(** the tracked quantity *)
Definition imul_arg (qk : quirks) tk (u : uc) (a : uarg) : M uc :=
  v ←m arg_parsed qk tk a; λ s, (s, (_ ←r obj_units_ok (view s) u; Ok v)).
Definition obj_dim (qk : quirks) : M uc := λ s,
  match c_obj s with
  | None => (s, Err EOther)
  | Some (u, Some d) => (s, Ok d)
  | Some (u, None) =>
      (d ←m get_dim qk u; λ s', (set_obj (λ _, Some (u, Some d)) s', Ok d)) s
  end.

(** * One operation: the declarative part is updated by [decl_step], the live part by pint's code *)
Definition fin {A} (f : A → answer) (sr : cstate * res A) : cstate * answer := (sr.1, ans_of f sr.2).
Definition live (qk : quirks) tk (o : op) : cstate → cstate * answer := λ s,
  match o with
  | OConvert a b =>
      fin ANum ((x ←m arg_parsed qk tk a; y ←m arg_parsed qk tk b; do_convert qk (FExact 1) x y) s)
  | OParse t => fin AUnit (parse_str qk tk t s)
  | ORoot a => fin (λ fu : fac * uc, AFac fu.1 fu.2) ((x ←m arg_parsed qk tk a; get_root qk x) s)
  | ODim a => fin ADim ((x ←m mlift (arg_raw tk a); get_dim qk x) s)
  | OBase a system =>
      fin (λ fu : fac * uc, AFac fu.1 fu.2) ((x ←m mlift (arg_raw tk a); get_base qk x system) s)
  | OCompat a => fin ANames ((x ←m mlift (arg_raw tk a); get_compat qk x) s)
  | ODefine ud => fin (λ _ : unit, ADone) (do_define qk ud s)
  | OEnable c =>
      match d_contexts (c_decl s) !! c with
      | Some _ => fin (λ _ : unit, ADone) (switch qk s)
      | None => (s, AErr KOther)
      end
  | ODisable => fin (λ _ : unit, ADone) (switch qk s)
  | OSetSystem sy =>
      match sy with
      | Some n =>
          match c_systems s !! n with
          | Some _ => (set_bcache (λ _, []) s, ADone)
          | None => (s, AErr KValue)
          end
      | None => ((if q_bcache_none_keeps qk then s else set_bcache (λ _, []) s), ADone)
      end
  | OQNew a =>
      fin (λ _ : unit, ADone)
          ((u ←m arg_parsed qk tk a; λ s', (set_obj (λ _, Some (u, None)) s', Ok tt)) s)
  | OQImul a =>
      match c_obj s with
      | None => (s, AErr KOther)
      | Some um =>
          fin (λ _ : unit, ADone)
              ((v ←m imul_arg qk tk um.1 a;
                λ s', (set_obj (λ ob, match ob with
                                      | Some (u, m) => Some (uc_mul u v, if q_objdim_stale qk then m else None)
                                      | None => None
                                      end) s', Ok tt)) s)
      end
  | OQDim => fin ADim (obj_dim qk s)
  | OOther => (s, ADone)
  | ODefinePrefix p => (set_base (λ r, add_prefix r p) s, ADone)      (* prefixes are registry-level, not layered *)
  end.

Definition step (qk : quirks) tk (s : cstate) (o : op) : cstate * answer :=
  live qk tk o (set_decl (λ d, decl_step tk d o) s).
Definition stepS qk tk (s : cstate) (o : op) : cstate := (step qk tk s o).1.
Definition run qk tk (s : cstate) (ops : list op) : cstate := fold_left (stepS qk tk) ops s.
Fixpoint outs qk tk (s : cstate) (ops : list op) : list answer :=
  match ops with
  | [] => []
  | o :: r => (step qk tk s o).2 :: outs qk tk (stepS qk tk s o) r
  end.
(** the fresh registry's answers along the same history *)
Fixpoint pure_outs tk (d : decl) (ops : list op) : list answer :=
  match ops with
  | [] => []
  | o :: r => pure_answer tk d o :: pure_outs tk (decl_step tk d o) r
  end.

(** * Two registries *)
Record world := W { w_r1 : cstate; w_r2 : cstate }.
Definition wstep qk tk (w : world) (io : bool * op) : world * answer :=
  if io.1 then let sa := step qk tk (w_r2 w) io.2 in (W (w_r1 w) sa.1, sa.2)
  else let sa := step qk tk (w_r1 w) io.2 in (W sa.1 (w_r2 w), sa.2).
Definition wrun qk tk (w : world) (ops : list (bool * op)) : world :=
  fold_left (λ w io, (wstep qk tk w io).1) ops w.
Fixpoint wouts qk tk (w : world) (ops : list (bool * op)) : list answer :=
  match ops with
  | [] => []
  | io :: r => (wstep qk tk w io).2 :: wouts qk tk (wstep qk tk w io).1 r
  end.
(** the operations one registry sees *)
Definition project (which : bool) (ops : list (bool * op)) : list op :=
  map snd (List.filter (λ io : bool * op, eqb io.1 which) ops).

(** the sub-alphabet of the invariant theorem: no [define], only contexts without redefinitions *)
Definition op_plain (d : decl) (o : op) : bool :=
  match o with
  | ODefine _ | ODefinePrefix _ => false
  | OEnable c => match ctx_redefs d c with [] => true | _ => false end
  | _ => true
  end.
