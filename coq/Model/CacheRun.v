(** Model/CacheRun.v — correspondence cases for C13.  A case is a forest of operation trees over a
    world of two registries (built from the regenerated default registry); every node carries
    the operation, which registry it is applied to, and the implementation's observed answer
    ([None] = not compared: the question involves something the model does not carry, e.g. a
    context with transformation rules).  [c13_ok] replays the forest on the model ([Cache.step])
    and is true when every compared answer agrees. *)
From PintV Require Import Model.UC Model.Eval Model.Registry Model.Cache Gen.DefaultDefs Gen.DefaultReg.
Open Scope string_scope.

Record setup := SU {
  su_qk : quirks;
  su_tk : list (string * list (string * Qc));     (* ParserHelper.from_string, as a table *)
  su_decl : decl;
  su_dimeq : list (uc * list string) }.            (* [dimeq_build (d_reg su_decl)], computed once *)

Inductive tree :=
| Node (io : bool * op) (expected : option answer) (kids : list tree)
| Fresh2 (kids : list tree).       (* a second registry is created: registry 2 starts afresh *)
Inductive c13case := HRun (su : setup) (ts : list tree).

Definition tk_of (l : list (string * list (string * Qc))) (s : string) : option (list (string * Qc)) :=
  assoc s l.

(** sets of names are compared as sets *)
Definition names_eqb (a b : list string) : bool :=
  forallb (λ x, bool_decide (x ∈ b)) a && forallb (λ x, bool_decide (x ∈ a)) b.
Definition answer_eqb (a b : answer) : bool :=
  match a, b with
  | ANames x, ANames y => names_eqb x y
  | _, _ => bool_decide (a = b)
  end.

Definition world0 (su : setup) : world :=
  W (init_with (su_decl su) (su_dimeq su)) (init_with (su_decl su) (su_dimeq su)).

Fixpoint check_tree (su : setup) (w : world) (t : tree) {struct t} : bool :=
  match t with
  | Node io e kids =>
      let wa := wstep (su_qk su) (tk_of (su_tk su)) w io in
      match e with Some x => answer_eqb wa.2 x | None => true end
      && forallb (check_tree su wa.1) kids
  | Fresh2 kids => forallb (check_tree su (W (w_r1 w) (w_r2 (world0 su)))) kids
  end.
Definition c13_ok (c : c13case) : bool :=
  match c with HRun su ts => forallb (check_tree su (world0 su)) ts end.

(** diagnostics (replay files only): the path of the first disagreeing node and the model's answer *)
Inductive pans :=
| PUnit (u : list (string * Z * positive))
| PNum (n : Z) (d : positive) | PFloat | PNone
| PFac (f : pans) (u : list (string * Z * positive))
| PDim (u : list (string * Z * positive))
| PNames (l : list string) | PDone | PErr (e : ekind).
Definition show_uc (u : uc) : list (string * Z * positive) :=
  map (λ kv : string * Qc, (kv.1, Qnum (this kv.2), Qden (this kv.2))) (map_to_list u).
Definition show_fac (f : fac) : pans :=
  match f with FExact q => PNum (Qnum (this q)) (Qden (this q)) | FFloat => PFloat | FNone => PNone end.
Definition show_answer (a : answer) : pans :=
  match a with
  | AUnit u => PUnit (show_uc u)
  | ANum f => show_fac f
  | AFac f u => PFac (show_fac f) (show_uc u)
  | ADim u => PDim (show_uc u)
  | ANames l => PNames l
  | ADone => PDone
  | AErr e => PErr e
  end.
Fixpoint bad_tree (su : setup) (w : world) (t : tree) {struct t} : option (list nat * pans) :=
  match t with
  | Node io e kids =>
      let wa := wstep (su_qk su) (tk_of (su_tk su)) w io in
      if match e with Some x => answer_eqb wa.2 x | None => true end then
        (fix go (ks : list tree) (i : nat) : option (list nat * pans) :=
           match ks with
           | [] => None
           | k :: r =>
               match bad_tree su wa.1 k with
               | Some (p, x) => Some (i :: p, x)
               | None => go r (S i)
               end
           end) kids O
      else Some ([], show_answer wa.2)
  | Fresh2 kids =>
      (fix go (ks : list tree) (i : nat) : option (list nat * pans) :=
         match ks with
         | [] => None
         | k :: r =>
             match bad_tree su (W (w_r1 w) (w_r2 (world0 su))) k with
             | Some (p, x) => Some (i :: p, x)
             | None => go r (S i)
             end
         end) kids O
  end.
Definition c13_bad (c : c13case) : option (list nat * pans) :=
  match c with
  | HRun su ts =>
      (fix go (ks : list tree) (i : nat) : option (list nat * pans) :=
         match ks with
         | [] => None
         | k :: r =>
             match bad_tree su (world0 su) k with
             | Some (p, x) => Some (i :: p, x)
             | None => go r (S i)
             end
         end) ts O
  end.

(** the start-up table of dimensional equivalents of the regenerated default registry *)
Definition default_dimeq_raw : list (list (string * Z * positive) * list string) :=
  Eval vm_compute in map (λ p : uc * list string, (show_uc p.1, p.2)) (dimeq_build default_reg).
Definition default_dimeq : list (uc * list string) :=
  map (λ p : list (string * Z * positive) * list string,
         (mkuc (map (λ x : string * Z * positive, (x.1.1, mkq x.1.2 x.2)) p.1), p.2)) default_dimeq_raw.

(** short literals written by the harness *)
Definition mkum (l : list (string * uc)) : gmap string uc := list_to_map l.
Definition mksys (base : list (string * uc)) (members : list string) (orphans : bool) : sysdef :=
  SysDef (mkum base) members orphans.
Definition mksystems (l : list (string * sysdef)) : gmap string sysdef := list_to_map l.
Definition mkctxs (l : list (string * list redef)) : gmap string (list redef) := list_to_map l.
Definition mkrd (name : string) (n : Z) (d : positive) (ref : list (string * Qc)) : redef :=
  RD name (mkq n d) (mkuc ref).
(** a plain multiplicative definition [name = n/d * ref = sym = aliases]; [base] for [name = [dim]] *)
Definition mkud (name : string) (sym : option string) (aliases : list string) (n : Z) (d : positive)
    (ref : list (string * Qc)) (base : bool) : udef :=
  UDef name sym aliases (mkq n d) false CScale (mkuc ref) base.
Definition mkdecl (systems : gmap string sysdef) (ctxs : gmap string (list redef)) (dflt : option string) : decl :=
  Decl default_reg systems ctxs dflt [] None.
Definition ex (n : Z) (d : positive) : fac := FExact (mkq n d).
Definition us (s : string) : uarg := UStr s.
Definition ucn (l : list (string * Qc)) : uarg := UCont (mkuc l).

(** * A small declarative state on the default registry, for the theorems' witnesses *)
Definition demo_systems : gmap string sysdef :=
  mksystems [
    ("mks", mksys [("meter", {[ "meter" := 1%Qc ]}); ("gram", {[ "kilogram" := 1%Qc ]}); ("second", {[ "second" := 1%Qc ]})]
                  ["meter"; "angstrom"; "micron"; "gram"; "second"] true);
    ("imperial", mksys [("meter", {[ "yard" := 1%Qc ]}); ("gram", {[ "pound" := 1%Qc ]})]
                       ["yard"; "foot"; "inch"; "mile"; "pound"] false)].
Definition demo_contexts : gmap string (list redef) :=
  mkctxs [("ra", [mkrd "foot" 3 10 [("meter", 1%Qc)]]);
          ("rb", [mkrd "yard" 1 1 [("meter", 1%Qc)]]);
          ("rn", [])].
Definition demo_decl : decl := mkdecl demo_systems demo_contexts (Some "mks").
Definition demo_tk (s : string) : option (list (string * Qc)) := Some [(s, 1%Qc)].
Definition smoot : udef := mkud "smoot" (Some "smt") [] 67 1 [("inch", 1%Qc)] false.
Definition bronto : pdef := PDef "bronto" (Some "Br") [] (mkq (10 ^ 33)%Z 1).
Definition mkpd (name : string) (sym : option string) (n : Z) (d : positive) : pdef := PDef name sym [] (mkq n d).
Definition am : udef := mkud "am" None [] 5 1 [("second", 1%Qc)] false.
Definition answers_eqb (a b : list answer) : bool :=
  Nat.eqb (length a) (length b) && forallb (λ xy : answer * answer, answer_eqb xy.1 xy.2) (zip a b).

(** the names in play of a registry: every key of the unit table, every name a definition or a
    derived dimension refers to, every canonical name, plus the names of a query pool *)
Definition names_in_play (r : reg) (extra : list string) : gmap string () :=
  list_to_map (map (λ k : string, (k, tt))
    (app extra
      (app (flat_map (λ kd : string * udef, kd.1 :: u_name kd.2 :: map fst (map_to_list (u_ref kd.2)))
                     (map_to_list (r_units r)))
           (flat_map (λ kx : string * ddef,
                        kx.1 :: match kx.2 with DBase => [] | DDerived ref => map fst (map_to_list ref) end)
                     (map_to_list (r_dims r)))))).
Definition demo_names : gmap string () :=
  names_in_play default_reg ["kiloinch"; "km"; "millimile"; "kilometer"; "mile"; "hour"; "kph"; "cm"].
