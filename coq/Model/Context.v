(** Model/Context.v — executable model of what a conversion returns while a chain of
    contexts is active (pint/facets/context/{objects,registry,definitions}.py,
    pint/util.py [find_shortest_path], pint/delegates/txt_defparser/context.py).
    Definitions only; proofs live in Proofs/ContextProofs.v.

    The one deviation of pint from property C11 sits behind the boolean [q_oldest] (finding F5):
      true  = pint as it is: a newly enabled context inherits parameters from
              [ContextChain.defaults], i.e. from the context owning the FIRST key in ChainMap
              iteration order — the first rule of the OLDEST active context that has rules;
      false = repaired: it inherits from the innermost (newest) active context. *)
From stdpp Require Import gmap strings list.
From PintV Require Import Model.UC Model.Eval Model.Registry.
Close Scope string_scope.

(** * 1. Path search: [find_shortest_path]

    [graph[node] - visited] is a Python set: its iteration order depends on hashes (and on the
    set that was subtracted).  The order is therefore a PARAMETER: [pick node visited] is the
    sequence in which the elements of that set are met.  Every theorem is proved for every
    [pick] that enumerates that set. *)
Section BFS.
  Context {N : Type} `{EqDecision N}.

  Inductive bres := BFound (p : list N) | BNone | BFuel.

  Variable pick : N → list N → list N.

  (** the deque of [(node, path)] pairs and the [visited] set *)
  Definition bstate : Type := list (N * list N) * list N.

  (** the inner [for adjascent_node in graph[node] - visited]: returns at the target
      (a set holds it at most once), otherwise every element is appended to the deque *)
  Definition scan (dst : N) (path : list N) (ns : list N) : list N + list (N * list N) :=
    if bool_decide (dst ∈ ns) then inl (path ++ [dst])
    else inr (map (λ a, (a, path ++ [a])) ns).

  (** one iteration of [while fifo]: popleft, [visited.add(node)], scan *)
  Definition bfs_step (dst : N) (st : bstate) : bstate + bres :=
    match st.1 with
    | [] => inr BNone
    | (node, path) :: rest =>
        let visited := node :: st.2 in
        match scan dst path (pick node visited) with
        | inl p => inr (BFound p)
        | inr new => inl (rest ++ new, visited)
        end
    end.

  Fixpoint bfs_loop (fuel : nat) (dst : N) (st : bstate) : bres :=
    match fuel with
    | O => BFuel
    | S f => match bfs_step dst st with inl st' => bfs_loop f dst st' | inr r => r end
    end.

  Definition bfs_init (src : N) : bstate := ([(src, [src])], []).

  (** [find_shortest_path(graph, start, end)] with [fuel] loop iterations *)
  Definition bfs_run (fuel : nat) (src dst : N) : bres :=
    if decide (src = dst) then BFound [src] else bfs_loop fuel dst (bfs_init src).
  Definition bfs (fuel : nat) (src dst : N) : option (list N) :=
    match bfs_run fuel src dst with BFound p => Some p | _ => None end.

  (** The same loop with [2^k] iterations of fuel that is never materialised (a node can be
      enqueued many times, so the sufficient fuel is exponential in the worst case):
      [bfs_loop2 k] runs [bfs_loop (2^k)] — Proofs.bfs_loop2_spec. *)
  Fixpoint bfs_loop2 (k : nat) (dst : N) (st : bstate) : bstate + bres :=
    match k with
    | O => bfs_step dst st
    | S k' => match bfs_loop2 k' dst st with
              | inl st' => bfs_loop2 k' dst st'
              | inr r => inr r
              end
    end.
  Definition bfs_run2 (k : nat) (src dst : N) : bres :=
    if decide (src = dst) then BFound [src]
    else match bfs_loop2 k dst (bfs_init src) with inr r => r | inl _ => BFuel end.

  (** explicit fuel bounds for a graph with at most [n] nodes *)
  Fixpoint geo (n k : nat) : nat := match k with O => 1 | S k' => 1 + n * geo n k' end.
  Definition bfs_bound (n : nat) : nat := S (geo n n).
  Definition bfs_logfuel (n : nat) : nat := S (n * n).

  (** ** all shortest paths (reference for "one of the shortest chains") *)
  Variable adj : N → list N.
  Definition pick_adj (v : N) (vis : list N) : list N := filter (λ x, x ∉ vis) (adj v).

  (** one more edge on every simple path of the frontier *)
  Definition extend (frontier : list (list N)) : list (list N) :=
    flat_map (λ p, match last p with
                   | Some v => map (λ w, p ++ [w]) (filter (λ w, w ∉ p) (adj v))
                   | None => []
                   end) frontier.
  Definition hits (dst : N) (frontier : list (list N)) : list (list N) :=
    filter (λ p, last p = Some dst) frontier.
  Fixpoint shortest_from (dst : N) (frontier : list (list N)) (fuel : nat) : list (list N) :=
    match hits dst frontier with
    | [] => match fuel with O => [] | S f => shortest_from dst (extend frontier) f end
    | h => h
    end.
  (** every shortest path from [src] to [dst] of at most [n] edges *)
  Definition all_shortest (n : nat) (src dst : N) : list (list N) := shortest_from dst [[src]] n.
End BFS.
Arguments bres : clear implicits.
Arguments BFound {N} p.
Arguments BNone {N}.
Arguments BFuel {N}.

Open Scope string_scope.

(** * 2. Contexts *)
(** parameter environments: [Context.defaults] / keyword arguments; a value is what
    [Quantity(values[name])] builds (a plain number becomes a dimensionless quantity) *)
Notation env := (gmap string pval).
Notation edgek := (uc * uc)%type.

(** [dict(a, b)] (keyword update): [b] overrides *)
Definition env_over (b a : env) : env := b ∪ a.

Section Ctx.
  (** [E] = equations.  [apply_eq r eq env q] is
      [ureg.parse_expression(eq, value=q, env...)] in registry [r]. *)
  Context {E : Type}.
  Variable apply_eq : reg → E → env → pval → res pval.

  (** ** rule dictionaries ([Context.funcs]: insertion ordered, keyed by (src, dst)) *)
  Notation rules := (list (edgek * E)).
  Fixpoint rl_lookup (k : edgek) (l : rules) : option E :=
    match l with
    | [] => None
    | (k', v) :: l' => if decide (k = k') then Some v else rl_lookup k l'
    end.
  (** [d[k] = v]: replaces in place, or appends *)
  Fixpoint rl_insert (k : edgek) (v : E) (l : rules) : rules :=
    match l with
    | [] => [(k, v)]
    | (k', v') :: l' => if decide (k = k') then (k, v) :: l' else (k', v') :: rl_insert k v l'
    end.
  Definition rl_remove (k : edgek) (l : rules) : rules :=
    filter (λ kv, kv.1 ≠ k) l.

  (** a redefinition line [name = rhs] (right-hand side as tokens) *)
  Record redef := Redef { rd_name : string; rd_rhs : list tok }.

  Record ctx := Ctx {
    cx_name : string;
    cx_aliases : list string;
    cx_defaults : env;
    cx_rules : rules;
    cx_redefs : list redef }.

  (** a declared relation: [src -> dst : eq] or [src <-> dst : eq] *)
  Record rel := Rel { rel_bidir : bool; rel_src : uc; rel_dst : uc; rel_eq : E }.

  (** [Context.from_definition(cd, to_base_func)]: relations are added in order; a
      bidirectional one adds the reverse edge with the same equation.  [to_base] is
      [registry.get_dimensionality] for contexts loaded by a registry, nothing for
      [Context.from_lines(lines)] without a registry. *)
  Definition add_rel (to_base : option (uc → res uc)) (l : rules) (x : rel) : res rules :=
    let nb (d : uc) : res uc := match to_base with Some f => f d | None => Ok d end in
    s ←r nb (rel_src x); d ←r nb (rel_dst x);
    let l1 := rl_insert (s, d) (rel_eq x) l in
    Ok (if rel_bidir x then rl_insert (d, s) (rel_eq x) l1 else l1).
  Definition ctx_of_rels (to_base : option (uc → res uc)) (name : string) (aliases : list string)
      (defaults : env) (rels : list rel) (redefs : list redef) : res ctx :=
    rs ←r foldM (add_rel to_base) rels [];
    Ok (Ctx name aliases defaults rs redefs).

  (** [enable_contexts], first use of a context ([checked] is false): every rule whose endpoints
      are not base dimensionalities is removed and re-added under the base dimensionalities
      (so it moves to the end of [funcs], or overwrites a rule already there).  The loop runs
      over a copy of [funcs] taken before. *)
  Definition normalise_rules (r : reg) (l : rules) : res rules :=
    foldM (λ acc kv,
      let '((s, d), f) := kv in
      s' ←r dim_of r s; d' ←r dim_of r d;
      if bool_decide (s = s') && bool_decide (d = d') then Ok acc
      else Ok (rl_insert (s', d') f (rl_remove (s, d) acc))) l l.
  Definition normalise (r : reg) (c : ctx) : res ctx :=
    rs ←r normalise_rules r (cx_rules c);
    Ok (Ctx (cx_name c) (cx_aliases c) (cx_defaults c) rs (cx_redefs c)).

  (** ** the active chain *)
  (** [Context.from_context] with keyword arguments [kw]: shares rules and redefinitions; the parameters are the
      declared defaults overridden by [kw] (the same object when [kw] is empty) *)
  Record pctx := PCtx { pc_ctx : ctx; pc_env : env }.
  Definition from_context (c : ctx) (kw : env) : pctx := PCtx c (env_over kw (cx_defaults c)).
  Notation chain := (list pctx).      (* [ContextChain.contexts] / [.maps]: newest first *)

  Definition pc_rules (pc : pctx) : rules := cx_rules (pc_ctx pc).

  (** [ChainMap.__getitem__]: the first map (newest context) owning the key *)
  Fixpoint lookup_rule (c : chain) (e : edgek) : option (pctx * E) :=
    match c with
    | [] => None
    | pc :: c' => match rl_lookup e (pc_rules pc) with
                  | Some f => Some (pc, f)
                  | None => lookup_rule c' e
                  end
    end.

  (** [ChainMap.__iter__] walks the maps from the last (oldest) to the first; the first key met
      is the first rule of the oldest context that has rules *)
  Definition first_key (c : chain) : option edgek :=
    head (flat_map (λ pc, map fst (pc_rules pc)) (reverse c)).
  (** [ContextChain.defaults]: [for ctx in self.values(): return ctx.defaults] *)
  Definition chain_defaults (c : chain) : env :=
    match first_key c with
    | Some e => match lookup_rule c e with Some (pc, _) => pc_env pc | None => ∅ end
    | None => ∅
    end.
  (** the repaired reading: the innermost (newest) active context *)
  Definition newest_defaults (c : chain) : env :=
    match c with pc :: _ => pc_env pc | [] => ∅ end.
  Definition inherited (q_oldest : bool) (c : chain) : env :=
    if q_oldest then chain_defaults c else newest_defaults c.

  (** [insert_contexts] of several contexts: reversed, in front *)
  Definition insert_contexts (cs : list pctx) (c : chain) : chain := app (reverse cs) c.

  (** [enable_contexts] with keyword arguments [kw] on an already resolved list of context objects *)
  Definition enable (q_oldest : bool) (r : reg) (cs : list ctx) (kw : env) (c : chain) : res chain :=
    let kw' := env_over kw (inherited q_oldest c) in
    cs' ←r foldM (λ acc x, x' ←r normalise r x; Ok (app acc [x'])) cs [];
    Ok (insert_contexts (map (λ x, from_context x kw') cs') c).

  (** [ContextChain.graph] *)
  Definition chain_edges (c : chain) : list edgek := flat_map (λ pc, map fst (pc_rules pc)) c.
  Definition chain_adj (c : chain) (v : uc) : list uc :=
    remove_dups (map snd (filter (λ e, e.1 = v) (chain_edges c))).
  Definition chain_nodes (c : chain) (src : uc) : list uc :=
    remove_dups (src :: flat_map (λ e, [e.1; e.2]) (chain_edges c)).
  (** [bool(ChainMap)]: some map is non-empty *)
  Definition chain_active (c : chain) : bool :=
    existsb (λ pc, match pc_rules pc with [] => false | _ => true end) c.

  (** ** redefinitions: [_switch_context_cache_and_units] + [_redefine] *)
  Definition with_units (r : reg) (u : gmap string udef) : reg :=
    Reg u (r_unit_names r) (r_prefixes r) (r_prefix_keys r) (r_dims r) (r_base_units r).
  Definition redefine (r : reg) (d : redef) : res reg :=
    let cands := parse_unit_name r (rd_name d) in
    match cands with
    | [] => Err (EUndefined (rd_name d))
    | _ =>
      match filter (λ c : string * string, bool_decide (c.1 = "")) cands with
      | [] => Err EValue                   (* "Can't redefine a unit with a prefix" *)
      | (_, name) :: _ =>
        match r_units r !! name with
        | None => Err (EUndefined name)
        | Some base =>
          if u_base base then Err EValue   (* "Can't redefine a plain unit to a derived one" *)
          else
            ' (p, fl) ←r ph_from_tokens (rd_rhs d);
            d_old ←r dim_of r (u_ref base);
            d_new ←r dim_of r (ph_d p);
            if negb (uc_eqb d_old d_new) then Err EValue
            else Ok (with_units r (add_def_keys
                       (UDef (u_name base) (Some (u_symbol base)) (u_aliases base)
                             (ph_scale p) fl CScale (ph_d p) false) (r_units r)))
        end
      end
    end.
  (** oldest context first, so that the newest redefinition of a unit wins *)
  Definition overlay (r : reg) (c : chain) : res reg :=
    foldM (λ r pc, foldM redefine (cx_redefs (pc_ctx pc)) r) (reverse c) r.

  (** ** conversion *)
  (** [ContextChain.transform]: the newest context owning the edge, its equation, its parameters *)
  Definition transform (r : reg) (c : chain) (a b : uc) (q : pval) : res pval :=
    match lookup_rule c (a, b) with
    | Some (pc, f) => apply_eq r f (pc_env pc) q
    | None => Err EKey
    end.
  (** [for a, b in zip(path[:-1], path[1:]): src = transform(a, b, src)] *)
  Fixpoint along (r : reg) (c : chain) (p : list uc) (q : pval) : res pval :=
    match p with
    | a :: ((b :: _) as p') => q' ←r transform r c a b q; along r c p' q'
    | _ => Ok q
    end.
  (** the plain [_convert] on the transformed quantity (multiplicative units): the result is an
      exact number, or a float ([None]) *)
  Definition finish (r : reg) (q : pval) (dst : uc) : res (option Qc) :=
    match q with
    | PPh p fl =>
        ' (f, ex) ←r conv_factor r (ph_d p) dst;
        Ok (match f with
            | Some f => if ex && negb fl then Some (ph_scale p * f)%Qc else None
            | None => None
            end)
    | PNum _ _ => Err EOther           (* the equation did not produce a quantity *)
    end.
  Definition quantity (x : Qc) (u : uc) : pval := PPh (PH x u) false.

  (** [ContextRegistry._convert] once the path is known *)
  Definition convert_via (r : reg) (c : chain) (path : option (list uc)) (x : Qc) (src dst : uc)
    : res (option Qc) :=
    match path with
    | Some p => q ←r along r c p (quantity x src); finish r q dst
    | None => finish r (quantity x src) dst
    end.

  (** [registry.convert(x, src, dst)] while [c] is active, path search with neighbour order [pick] *)
  Definition ctx_convert_with (pick : uc → list uc → list uc) (r0 : reg) (c : chain)
      (x : Qc) (src dst : uc) : res (option Qc) :=
    if uc_eqb src dst then Ok (Some x) else
    r ←r overlay r0 c;
    if chain_active c then
      sd ←r dim_of r src; dd ←r dim_of r dst;
      match bfs_run2 pick (bfs_logfuel (length (chain_nodes c sd))) sd dd with
      | BFound p => convert_via r c (Some p) x src dst
      | BNone => convert_via r c None x src dst
      | BFuel => Err EFuel
      end
    else convert_via r c None x src dst.
  Definition ctx_convert := λ r0 c, ctx_convert_with (pick_adj (chain_adj c)) r0 c.

  (** the results along EVERY shortest path (what the implementation may return, whatever
      its set order is) *)
  Definition ctx_convert_all (r0 : reg) (c : chain) (x : Qc) (src dst : uc)
    : list (res (option Qc)) :=
    if uc_eqb src dst then [Ok (Some x)] else
    match overlay r0 c with
    | Err e => [Err e]
    | Ok r =>
      if chain_active c then
        match dim_of r src, dim_of r dst with
        | Ok sd, Ok dd =>
            match all_shortest (chain_adj c) (length (chain_nodes c sd)) sd dd with
            | [] => [convert_via r c None x src dst]
            | ps => map (λ p, convert_via r c (Some p) x src dst) ps
            end
        | Err e, _ | _, Err e => [Err e]
        end
      else [convert_via r c None x src dst]
    end.
End Ctx.
Arguments ctx : clear implicits.
Arguments pctx : clear implicits.
Arguments rel : clear implicits.

(** * 3. Equations given as text: [Relation.transformation] *)
(** [_eval_token] with [values = {value: q} + env] *)
Definition eq_leaf (r : reg) (e : env) (q : pval) (t : tok) : res pval :=
  match t with
  | TNum s => match parse_number s with Some x => Ok (PNum x false) | None => Err ESyntax end
  | TName s =>
      if String.eqb s "value" then Ok q
      else match e !! s with
           | Some v => Ok v
           | None => n ←r get_name r s;
                     Ok (PPh (if String.eqb n "" then PH 1 ∅ else ph_of_word n) false)
           end
  | _ => Err EOther
  end.
(** [ureg.parse_expression(eq, value=q, env...)]; the monomial class
    [c · value^{±1} · Π param^k] (numbers, unit names, parameters, product, quotient, power) is exact *)
Definition eval_eq (r : reg) (eq : list tok) (e : env) (q : pval) : res pval :=
  t ←r build op_priority eq;
  v ←r evaluate (eq_leaf r e q) pv_binop pv_unop t;
  match v with PPh _ _ => Ok v | PNum _ _ => Err EOther end.

(** ** context blocks as the definition reader hands them over *)
Record rawrel := RawRel { rr_bidir : bool; rr_src : list tok; rr_dst : list tok; rr_eq : list tok }.
Record rawctx := RawCtx {
  rc_name : string; rc_aliases : list string;
  rc_defaults : list (string * list tok);
  rc_rels : list rawrel;
  rc_redefs : list (string * list tok) }.

Definition number_param (x : Qc) : pval := PPh (PH x ∅) false.
Definition dim_container (toks : list tok) : res uc :=
  ' (p, _) ←r ph_from_tokens toks; Ok (ph_d p).
(** [to_base = true]: the context is loaded by the registry ([add_context] of a definition),
    endpoints are brought to base dimensionalities at once *)
Definition elab_ctx (r : reg) (to_base : bool) (c : rawctx) : res (ctx (list tok)) :=
  dfl ←r foldM (λ (m : env) kv, v ←r num_from_tokens kv.2; Ok (<[kv.1 := number_param v]> m))
               (rc_defaults c) ∅;
  rels ←r foldM (λ acc x, s ←r dim_container (rr_src x); d ←r dim_container (rr_dst x);
                          Ok (app acc [Rel (rr_bidir x) s d (rr_eq x)])) (rc_rels c) [];
  ctx_of_rels (if to_base then Some (dim_of r) else None) (rc_name c) (rc_aliases c) dfl rels
              (map (λ nr, Redef nr.1 nr.2) (rc_redefs c)).
