(** Model/ContextRun.v — correspondence cases for C11: every case carries the result observed on
    the implementation; [c11_ok] says whether the model agrees.  Where several shortest chains
    exist the implementation may follow any of them (Python set order): the observed value must
    be the model's value along ONE of the shortest chains. *)
From PintV Require Import Model.UC Model.Eval Model.Registry Model.Context.
Open Scope string_scope.

(** how a conversion ended in the implementation *)
Inductive coutcome :=
| CExact (q : Qc) | CFloat | CDimErr | CZeroDiv | CUndefined | CKeyErr | CValueErr | COther.

Definition coutcome_of (x : res (option Qc)) : coutcome :=
  match x with
  | Ok (Some q) => CExact q
  | Ok None => CFloat
  | Err EDim => CDimErr
  | Err EZeroDiv => CZeroDiv
  | Err (EUndefined _) => CUndefined
  | Err EKey => CKeyErr
  | Err EValue => CValueErr
  | Err _ => COther
  end.
Definition coutcome_eqb (a b : coutcome) : bool :=
  match a, b with
  | CExact x, CExact y => bool_decide (x = y)
  | CFloat, CFloat | CDimErr, CDimErr | CZeroDiv, CZeroDiv | CUndefined, CUndefined
  | CKeyErr, CKeyErr | CValueErr, CValueErr | COther, COther => true
  | _, _ => false
  end.

(** the model claims a value only when it is rational: against an inexact model result any
    number is accepted (in a Fraction registry pint turns a float factor into [Fraction(str(f))]) *)
Definition coutcome_match (model obs : coutcome) : bool :=
  match model, obs with
  | CFloat, CExact _ => true
  | _, _ => coutcome_eqb model obs
  end.

Definition pval_eqb (a b : pval) : bool :=
  match a, b with
  | PNum x f, PNum y g => bool_decide (x = y) && eqb f g
  | PPh p f, PPh q g => bool_decide (ph_scale p = ph_scale q) && uc_eqb (ph_d p) (ph_d q) && eqb f g
  | _, _ => false
  end.
Definition env_eqb (a : env) (b : list (string * pval)) : bool :=
  let la := map_to_list a in
  Nat.eqb (length la) (length b) &&
  forallb (λ kv : string * pval, match a !! kv.1 with Some v => pval_eqb v kv.2 | None => false end) b.

(** ** the world: a registry, a pool of context objects, the registry's name table *)
Notation tctx := (ctx (list tok)).
Record world := World {
  w_reg : reg;
  w_objs : list tctx;
  w_names : list (string * nat) }.      (* [_contexts]: most recent registration first *)

(** [registered]: [ureg.add_context]; [to_base]: the context came through the registry's
    definition parser (endpoints already base dimensionalities) *)
Record ctxspec := CtxSpec { cs_registered : bool; cs_to_base : bool; cs_raw : rawctx }.

Definition mk_world (r : reg) (specs : list ctxspec) : res world :=
  foldM (λ w s,
    c ←r elab_ctx r (cs_to_base s) (cs_raw s);
    let i := length (w_objs w) in
    let names := if cs_registered s
                 then app (rev (map (λ a, (a, i)) (cx_name c :: cx_aliases c))) (w_names w)
                 else w_names w in
    Ok (World r (app (w_objs w) [c]) names)) specs (World r [] []).
Definition world_or_empty (x : res world) : world :=
  match x with Ok w => w | Err _ => World empty_reg [] [] end.

Inductive cref := CByName (s : string) | CByObj (i : nat).
Record frame := Frame { f_refs : list cref; f_kw : list (string * pval) }.

Definition resolve_ref (w : world) (c : cref) : res tctx :=
  match c with
  | CByName s => match assoc s (w_names w) with
                 | Some i => match nth_error (w_objs w) i with Some x => Ok x | None => Err EKey end
                 | None => Err EKey
                 end
  | CByObj i => match nth_error (w_objs w) i with Some x => Ok x | None => Err EKey end
  end.

(** [enable_contexts] of several references with keyword arguments; names are looked up before anything changes *)
Definition enable_frame (q_oldest : bool) (w : world) (ch : list (pctx (list tok))) (f : frame)
  : res (list (pctx (list tok))) :=
  cs ←r foldM (λ acc c, x ←r resolve_ref w c; Ok (app acc [x])) (f_refs f) [];
  enable q_oldest (w_reg w) cs (list_to_map (f_kw f)) ch.
Definition run_frames (q_oldest : bool) (w : world) (fs : list frame) : res (list (pctx (list tok))) :=
  foldM (enable_frame q_oldest w) fs [].

(** graphs over natural numbers for the stand-alone [find_shortest_path] cases *)
Definition nat_adj (g : list (nat * list nat)) (v : nat) : list nat :=
  match find (λ kv : nat * list nat, Nat.eqb kv.1 v) g with Some kv => kv.2 | None => [] end.

Inductive c11case :=
(** stack of activations (outermost first), then [Quantity(x, src).to(dst)] *)
| KConv (frames : list frame) (x : Qc) (src dst : uc) (obs : coutcome)
(** [_active_ctx.contexts[i].defaults], newest first, after the activations *)
| KParams (frames : list frame) (obs : option (list (list (string * pval))))
(** [find_shortest_path(_active_ctx.graph, src_dim, dst_dim)] after the activations *)
| KPath (frames : list frame) (src dst : uc) (obs : option (list uc))
(** [pint.util.find_shortest_path] on a graph of integers *)
| KBfs (g : list (nat * list nat)) (n : nat) (src dst : nat) (obs : option (list nat)).

Definition path_ok {N} `{EqDecision N} (all : list (list N)) (obs : option (list N)) : bool :=
  match obs with
  | None => match all with [] => true | _ => false end
  | Some p => bool_decide (p ∈ all)
  end.

Definition c11_ok (q_oldest : bool) (w : world) (c : c11case) : bool :=
  match c with
  | KConv fs x src dst obs =>
      match run_frames q_oldest w fs with
      | Ok ch => existsb (λ r, coutcome_match (coutcome_of r) obs)
                         (ctx_convert_all eval_eq (w_reg w) ch x src dst)
      | Err e => coutcome_eqb (coutcome_of (Err e)) obs
      end
  | KParams fs obs =>
      match run_frames q_oldest w fs, obs with
      | Ok ch, Some l =>
          Nat.eqb (length ch) (length l) &&
          forallb (λ pe : pctx (list tok) * list (string * pval), env_eqb (pc_env pe.1) pe.2) (zip ch l)
      | Err _, None => true
      | _, _ => false
      end
  | KPath fs src dst obs =>
      match run_frames q_oldest w fs with
      | Ok ch =>
          if uc_eqb src dst then path_ok [[src]] obs
          else path_ok (all_shortest (chain_adj ch) (length (chain_nodes ch src)) src dst) obs
      | Err _ => false
      end
  | KBfs g n src dst obs =>
      if Nat.eqb src dst then path_ok [[src]] obs
      else path_ok (all_shortest (nat_adj g) n src dst) obs
  end.

(** how many shortest chains the model sees (evidence only) *)
Definition n_shortest (q_oldest : bool) (w : world) (fs : list frame) (src dst : uc) : nat :=
  match run_frames q_oldest w fs with
  | Ok ch => match dim_of (w_reg w) src, dim_of (w_reg w) dst with
             | Ok sd, Ok dd => length (all_shortest (chain_adj ch) (length (chain_nodes ch sd)) sd dd)
             | _, _ => 0
             end
  | Err _ => 0
  end.
