(** Model/CtxState.v — executable state machine for context activation
    (pint/facets/context/registry.py: [enable_contexts], [disable_contexts], [context()],
    [_switch_context_cache_and_units], [_redefine]; objects.py: [ContextChain],
    [Context.from_context]; system/registry.py: [_get_base_units] and its [_base_units_cache]).
    Definitions only; proofs live in Proofs/CtxStateProofs.v.

    Every deviation of pint from property C12 sits behind a boolean of [quirks]:
      F6  [q_partial_activation]   a failed activation leaves the contexts active + a partial overlay
      F7  [q_base_cache_ctx_blind] [_base_units_cache] is consulted whatever the active contexts
      F8  [q_rewrite_shared]       first activation rewrites the shared Context's rule endpoints, sets [checked]
      F110 [q_rebuild_on_hit]       no early return after a cache hit: the overlay is rebuilt on top of the
                                   previous one, so units defined inside an overlay come and go
      F5  [q_outermost_defaults]   a context enabled without kwargs inherits the parameters of the context
                                   owning the first rule of the OLDEST active context with rules (ChainMap
                                   iteration order) instead of those of the innermost enclosing context
    [faithful] = pint as it is, [repaired] = all deviations off. *)
From Coq Require Import Ascii.
From stdpp Require Import gmap strings list.
From PintV Require Import Model.UC.

Record quirks := QK {
  q_partial_activation : bool;
  q_base_cache_ctx_blind : bool;
  q_rewrite_shared : bool;
  q_rebuild_on_hit : bool;
  q_outermost_defaults : bool }.
Definition faithful : quirks := QK true true true true true.
Definition repaired : quirks := QK false false false false false.

(** * Static data *)
(** a unit definition, abstractly: multiplicative scale and reference container.  The reference
    is kept as the association list of the container (distinct names, non-zero exponents) because
    the model only ever iterates over it; [ud_refc] is the container it denotes. *)
Notation ucl := (list (string * Qc)).
Record udefv := UD { ud_scale : Qc; ud_ref : ucl }.
Definition ud_refc (d : udefv) : uc := list_to_map (ud_ref d).
Notation utable := (gmap string udefv).
Notation params := (gmap string Qc).

Global Instance udefv_eq_dec : EqDecision udefv.
Proof. solve_decision. Defined.

Inductive err := EDim | EUndef | EValue | EKey | ERedef | EZero | EAssert | EOther.
Global Instance err_eq_dec : EqDecision err.
Proof. solve_decision. Defined.
Definition res (A : Type) : Type := (err + A)%type.

(** the registry's fixed part: derived dimensions ([[speed] = [length]/[time]]) and the default
    system's base-unit replacements (root unit name ↦ container of system units) *)
Record regcfg := RC { rc_dims : gmap string ucl; rc_sys : gmap string uc }.

(** a context rule  [src -> dst : value * (coef * par^(±1) * units)] *)
Record rule := RL {
  r_src : uc; r_dst : uc;
  r_coef : Qc;
  r_par : option (string * bool);      (* parameter name, true = multiply / false = divide *)
  r_units : uc }.
Global Instance rule_eq_dec : EqDecision rule.
Proof. solve_decision. Defined.

(** a Context object (possibly shared between registries) *)
Record ctxobj := CO {
  co_defaults : params;
  co_rules : list rule;                (* [funcs], in dict order *)
  co_redefs : list (string * udefv);
  co_checked : bool }.
Global Instance ctxobj_eq_dec : EqDecision ctxobj.
Proof. solve_decision. Defined.
Notation objs := (gmap string ctxobj).

(** an entry of the active chain: the (parameterised) context as [from_context] built it *)
Record centry := CE {
  ce_name : string;
  ce_defaults : params;
  ce_rules : list rule;
  ce_redefs : list (string * udefv) }.
Global Instance centry_eq_dec : EqDecision centry.
Proof. solve_decision. Defined.

(** [ContextChain.hashable()]: per context its identity and its defaults *)
Notation ckey := (list (string * params)).
Definition key_of (chain : list centry) : ckey := map (λ e, (ce_name e, ce_defaults e)) chain.

(** association lists keyed by [ckey] / by containers *)
Section assoc.
  Context {K V : Type} `{EqDecision K}.
  Fixpoint alookup (k : K) (l : list (K * V)) : option V :=
    match l with
    | [] => None
    | (k', v) :: r => if decide (k = k') then Some v else alookup k r
    end.
  Definition adelete (k : K) (l : list (K * V)) : list (K * V) :=
    List.filter (λ kv, negb (bool_decide (k = kv.1))) l.
  Definition ainsert (k : K) (v : V) (l : list (K * V)) : list (K * V) := (k, v) :: adelete k l.
End assoc.
Definition kadd (k : ckey) (l : list ckey) : list ckey := if bool_decide (k ∈ l) then l else k :: l.
Definition kdel (k : ckey) (l : list ckey) : list ckey := List.filter (λ x, negb (bool_decide (k = x))) l.

(** * Registry state *)
Record rstate := RS {
  rs_active : list centry;                 (* [_active_ctx.contexts], newest first *)
  rs_frames : list nat;                    (* open [with] blocks: [len(names)], innermost first *)
  rs_caches : list ckey;                   (* keys of [_caches] besides [()] (memo contents not modelled) *)
  rs_ctx_units : list (ckey * utable);     (* [_context_units] *)
  rs_below : list utable;                  (* detached overlays lying between the top overlay and the base *)
  rs_base : utable;                        (* [_units.maps[-1]] *)
  rs_bcache : list (uc * (Qc * uc)) }.     (* [_base_units_cache] *)

Definition set_active f s := RS (f (rs_active s)) (rs_frames s) (rs_caches s) (rs_ctx_units s) (rs_below s) (rs_base s) (rs_bcache s).
Definition set_frames f s := RS (rs_active s) (f (rs_frames s)) (rs_caches s) (rs_ctx_units s) (rs_below s) (rs_base s) (rs_bcache s).
Definition set_caches f s := RS (rs_active s) (rs_frames s) (f (rs_caches s)) (rs_ctx_units s) (rs_below s) (rs_base s) (rs_bcache s).
Definition set_ctx_units f s := RS (rs_active s) (rs_frames s) (rs_caches s) (f (rs_ctx_units s)) (rs_below s) (rs_base s) (rs_bcache s).
Definition set_below f s := RS (rs_active s) (rs_frames s) (rs_caches s) (rs_ctx_units s) (f (rs_below s)) (rs_base s) (rs_bcache s).
Definition set_base f s := RS (rs_active s) (rs_frames s) (rs_caches s) (rs_ctx_units s) (rs_below s) (f (rs_base s)) (rs_bcache s).
Definition set_bcache f s := RS (rs_active s) (rs_frames s) (rs_caches s) (rs_ctx_units s) (rs_below s) (rs_base s) (f (rs_bcache s)).

Definition init_state (base : utable) : rstate := RS [] [] [] [] [] base [].

Definition has_redefs (chain : list centry) : bool :=
  existsb (λ e, match ce_redefs e with [] => false | _ => true end) chain.

(** the unit-table layers, top first, without the base: the top overlay is the dict stored in
    [_context_units] under the active key (the same object, hence always in sync) *)
Definition top_overlay (s : rstate) : utable :=
  default ∅ (alookup (key_of (rs_active s)) (rs_ctx_units s)).
Definition layers (s : rstate) : list utable :=
  if has_redefs (rs_active s) then top_overlay s :: rs_below s else [].
Definition n_layers (s : rstate) : nat := S (length (layers s)).
Definition n_caches (s : rstate) : nat := S (length (rs_caches s)).

Fixpoint lookup_layers (ls : list utable) (base : utable) (k : string) : option udefv :=
  match ls with
  | [] => base !! k
  | l :: r => match l !! k with Some d => Some d | None => lookup_layers r base k end
  end.

(** * Dimensionality, root units, conversion — over an abstract table [tbl] *)
Definition FUEL : nat := 12.

Definition is_dimname (s : string) : bool :=
  match s with String "["%char _ => true | _ => false end.
(** [UnitDefinition.is_base]: no dimension key → derived; all dimension keys → base *)
Definition ud_is_base (d : udefv) : bool :=
  let ks := map fst (ud_ref d) in existsb is_dimname ks && forallb is_dimname ks.

(** [_get_dimensionality_recurse] *)
Fixpoint dim_go (fuel : nat) (dims : gmap string ucl) (tbl : string → option udefv)
    (ref : ucl) (exp : Qc) (acc : uc) : res uc :=
  match fuel with
  | O => inl EOther
  | S f =>
      foldr (λ (kv : string * Qc) (racc : res uc),
        match racc with
        | inl e => inl e
        | inr a =>
            let e2 := (exp * kv.2)%Qc in
            if is_dimname kv.1 then
              match dims !! kv.1 with
              | Some dref => dim_go f dims tbl dref e2 a
              | None => inr (uc_add a kv.1 e2)
              end
            else
              match tbl kv.1 with
              | None => inl EUndef
              | Some d => dim_go f dims tbl (ud_ref d) e2 a
              end
        end) (inr acc) ref
  end.
Definition dim_ofl (cfg : regcfg) (tbl : string → option udefv) (u : ucl) : res uc :=
  match dim_go FUEL (rc_dims cfg) tbl u 1 ∅ with
  | inl e => inl e
  | inr d => inr (delete "[]" d)
  end.
Definition dim_of (cfg : regcfg) (tbl : string → option udefv) (u : uc) : res uc :=
  dim_ofl cfg tbl (map_to_list u).

(** [scale ** exp] for integer exponents (others are outside the modelled domain).  Products are
    accumulated in [Q] and canonicalised once at the end (the value is the same; it only avoids a
    gcd per factor when the model is run). *)
Definition qpow (q : Q) (e : Qc) : res Q :=
  if Pos.eqb (Qden (this e)) 1 then inr (Qpower q (Qnum (this e))) else inl EOther.

(** [_get_root_units_recurse] *)
Fixpoint root_go (fuel : nat) (tbl : string → option udefv)
    (ref : ucl) (exp : Qc) (acc : Q * uc) : res (Q * uc) :=
  match fuel with
  | O => inl EOther
  | S f =>
      foldr (λ (kv : string * Qc) (racc : res (Q * uc)),
        match racc with
        | inl e => inl e
        | inr a =>
            let e2 := (exp * kv.2)%Qc in
            match tbl kv.1 with
            | None => inl EUndef
            | Some d =>
                if ud_is_base d then inr (a.1, uc_add a.2 kv.1 e2)
                else match qpow (this (ud_scale d)) e2 with
                     | inl e => inl e
                     | inr sc => root_go f tbl (ud_ref d) e2 ((a.1 * sc)%Q, a.2)
                     end
            end
        end) (inr acc) ref
  end.
Definition root_of (tbl : string → option udefv) (u : uc) : res (Qc * uc) :=
  match root_go FUEL tbl (map_to_list u) 1 (1%Q, ∅) with
  | inl e => inl e
  | inr fu => inr (Q2Qc fu.1, fu.2)
  end.

Definition all_defined (tbl : string → option udefv) (u : uc) : bool :=
  forallb (λ kv : string * Qc, match tbl kv.1 with Some _ => true | None => false end) (map_to_list u).

(** plain [_convert] / [_get_conversion_factor], given the two dimensionalities *)
Definition convert_dims (tbl : string → option udefv) (v : Qc * uc) (dst : uc) (sd dd : uc) : res Qc :=
  if bool_decide (sd = dd) then
    match root_of tbl (uc_div v.2 dst) with
    | inl e => inl e
    | inr fu => inr (v.1 * fu.1)%Qc
    end
  else inl EDim.
Definition convert_plain (cfg : regcfg) (tbl : string → option udefv) (v : Qc * uc) (dst : uc) : res Qc :=
  if bool_decide (v.2 = dst) then inr v.1 else
  match dim_of cfg tbl v.2, dim_of cfg tbl dst with
  | inl e, _ => inl e
  | _, inl e => inl e
  | inr sd, inr dd => convert_dims tbl v dst sd dd
  end.

(** * The chain as a rule graph *)
Definition rule_key (r : rule) : uc * uc := (r_src r, r_dst r).
Definition chain_edges (chain : list centry) : list (uc * uc) :=
  concat (map (λ e, map rule_key (ce_rules e)) chain).

(** [find_shortest_path]: FIFO of (node, path), [visited] added on pop, target test on discovery *)
Fixpoint bfs (fuel : nat) (edges : list (uc * uc)) (queue : list (uc * list uc))
    (visited : list uc) (target : uc) : option (list uc) :=
  match fuel with
  | O => None
  | S f =>
      match queue with
      | [] => None
      | (node, path) :: rest =>
          let visited' := node :: visited in
          let adj := List.filter (λ a, negb (bool_decide (a ∈ visited')))
                       (remove_dups (map snd (List.filter (λ e : uc * uc, bool_decide (e.1 = node)) edges))) in
          if bool_decide (target ∈ adj) then Some (path ++ [target])
          else bfs f edges (rest ++ map (λ a, (a, path ++ [a])) adj) visited' target
      end
  end.
Definition find_path (edges : list (uc * uc)) (s t : uc) : option (list uc) :=
  if bool_decide (s = t) then Some [s] else bfs 64 edges [(s, [s])] [] t.

(** [ContextChain.__getitem__]: the newest context owning the edge *)
Fixpoint find_rule (chain : list centry) (k : uc * uc) : option (rule * params) :=
  match chain with
  | [] => None
  | e :: r =>
      match List.find (λ x, bool_decide (rule_key x = k)) (ce_rules e) with
      | Some x => Some (x, ce_defaults e)
      | None => find_rule r k
      end
  end.
Definition apply_rule (r : rule) (ps : params) (v : Qc * uc) : res (Qc * uc) :=
  match r_par r with
  | None => inr ((v.1 * r_coef r)%Qc, uc_mul v.2 (r_units r))
  | Some (p, mul) =>
      match ps !! p with
      | None => inl EOther
      | Some x =>
          if mul then inr ((v.1 * r_coef r * x)%Qc, uc_mul v.2 (r_units r))
          else if qz x then inl EZero
          else inr ((v.1 * r_coef r / x)%Qc, uc_mul v.2 (r_units r))
      end
  end.
Fixpoint walk (chain : list centry) (path : list uc) (v : Qc * uc) : res (Qc * uc) :=
  match path with
  | a :: ((b :: _) as tl) =>
      match find_rule chain (a, b) with
      | None => inl EOther
      | Some (r, ps) =>
          match apply_rule r ps v with
          | inl e => inl e
          | inr v' => walk chain tl v'
          end
      end
  | _ => inr v
  end.

(** [ContextChain.defaults].  Repaired (F5): the defaults of the innermost (newest) active
    context.  Before: [for ctx in self.values(): return ctx.defaults] — the defaults of the newest
    context owning the first edge (ChainMap iteration order) of the oldest context that has rules. *)
Definition chain_defaults (qk : quirks) (chain : list centry) : params :=
  if q_outermost_defaults qk then
    match List.find (λ e, match ce_rules e with [] => false | _ => true end) (rev chain) with
    | None => ∅
    | Some e0 =>
        match ce_rules e0 with
        | [] => ∅
        | r0 :: _ => match find_rule chain (rule_key r0) with Some (_, ps) => ps | None => ∅ end
        end
    end
  else match chain with e :: _ => ce_defaults e | [] => ∅ end.

(** * Probes *)
Inductive probe :=
| PConv (m : Qc) (src dst : uc)      (* Quantity(m, src).to(dst) *)
| PRoot (u : uc)                     (* get_root_units *)
| PBase (u : uc)                     (* get_base_units (default system) *)
| PParse (name : string).            (* parse_units of a single name *)
Inductive answer :=
| AQ (m : Qc) | AFU (f : Qc) (u : uc) | AU (u : uc) | AErr (e : err).
Global Instance answer_eq_dec : EqDecision answer.
Proof. solve_decision. Defined.

Definition ans_conv (cfg : regcfg) (chain : list centry) (tbl : string → option udefv)
    (m : Qc) (src dst : uc) : answer :=
  if negb (all_defined tbl src && all_defined tbl dst) then AErr EUndef else
  if bool_decide (src = dst) then AQ m else
  match dim_of cfg tbl src, dim_of cfg tbl dst with
  | inl e, _ => AErr e
  | _, inl e => AErr e
  | inr sd, inr dd =>
      let edges := chain_edges chain in
      (* [if self._active_ctx:] some active context has rules; then follow the shortest path *)
      let moved : res (Qc * uc * uc) :=
        match edges with
        | [] => inr (m, src, sd)
        | _ =>
            match find_path edges sd dd with
            | Some ((_ :: _ :: _) as p) =>
                match walk chain p (m, src) with
                | inl e => inl e
                | inr v' => match dim_of cfg tbl v'.2 with inl e => inl e | inr sd' => inr (v', sd') end
                end
            | _ => inr (m, src, sd)
            end
        end in
      match moved with
      | inl e => AErr e
      | inr (v', sd') => match convert_dims tbl v' dst sd' dd with inl e => AErr e | inr x => AQ x end
      end
  end.

Definition ans_root (tbl : string → option udefv) (u : uc) : answer :=
  if negb (all_defined tbl u) then AErr EUndef else
  match root_of tbl u with inl e => AErr e | inr fu => AFU fu.1 fu.2 end.

(** [_get_base_units] without the memo *)
Definition base_compute (cfg : regcfg) (tbl : string → option udefv) (u : uc) : res (Qc * uc) :=
  match root_of tbl u with
  | inl e => inl e
  | inr fu =>
      let dest := foldr (λ (kv : string * Qc) acc,
                    uc_mul acc (uc_pow (default {[ kv.1 := 1%Qc ]} (rc_sys cfg !! kv.1)) kv.2))
                    (∅ : uc) (map_to_list fu.2) in
      match convert_plain cfg tbl (fu.1, fu.2) dest with
      | inl e => inl e
      | inr f => inr (f, dest)
      end
  end.

(** the answer to a probe in a given environment (active chain, layered table, memo) *)
Definition answer_env (qk : quirks) (cfg : regcfg) (chain : list centry) (ls : list utable)
    (base : utable) (bcache : list (uc * (Qc * uc))) (q : probe) : answer :=
  let tbl := lookup_layers ls base in
  match q with
  | PConv m src dst => ans_conv cfg chain tbl m src dst
  | PRoot u => ans_root tbl u
  | PBase u =>
      match (if q_base_cache_ctx_blind qk then alookup u bcache else None) with
      | Some fu => AFU fu.1 fu.2
      | None => match base_compute cfg tbl u with inl e => AErr e | inr fu => AFU fu.1 fu.2 end
      end
  | PParse name => match tbl name with Some _ => AU {[ name := 1%Qc ]} | None => AErr EUndef end
  end.
Definition answer_of (qk : quirks) (cfg : regcfg) (s : rstate) (q : probe) : answer :=
  answer_env qk cfg (rs_active s) (layers s) (rs_base s) (rs_bcache s) q.

(** asking [get_base_units] fills the (context-blind) memo *)
Definition probe_effect (qk : quirks) (cfg : regcfg) (s : rstate) (q : probe) : rstate :=
  match q with
  | PBase u =>
      if q_base_cache_ctx_blind qk then
        match alookup u (rs_bcache s) with
        | Some _ => s
        | None =>
            match base_compute cfg (lookup_layers (layers s) (rs_base s)) u with
            | inr fu => set_bcache (λ l, l ++ [(u, fu)]) s
            | inl _ => s
            end
        end
      else s
  | _ => s
  end.

(** * [_redefine] and [_switch_context_cache_and_units] *)
(** [parse_unit_name] restricted to what the generated registries contain (no prefixes): the
    name itself, and — plural suffix — the name without a trailing "s" (stems of one letter are
    skipped).  [_redefine] asserts that exactly one reading exists. *)
Fixpoint plural_stem (s : string) : option string :=
  match s with
  | EmptyString => None
  | String c EmptyString => if Ascii.eqb c "s"%char then Some EmptyString else None
  | String c r => match plural_stem r with Some t => Some (String c t) | None => None end
  end.
Definition redefine_target (tbl : string → option udefv) (name : string) : res string :=
  let direct := match tbl name with Some _ => true | None => false end in
  let stem := match plural_stem name with
              | Some t => if Nat.eqb (String.length t) 1 then None
                          else match tbl t with Some _ => Some t | None => None end
              | None => None
              end in
  match direct, stem with
  | true, Some _ => inl EAssert          (* two readings: [assert len(candidates_no_prefix) == 1] *)
  | true, None => inr name
  | false, Some t => inr t
  | false, None => inl EUndef
  end.

Definition redefine1 (cfg : regcfg) (below : string → option udefv) (ov : utable)
    (rd : string * udefv) : res utable :=
  let tbl := λ k, match ov !! k with Some d => Some d | None => below k end in
  match redefine_target tbl rd.1 with
  | inl e => inl e
  | inr name =>
      match tbl name with
      | None => inl EUndef
      | Some bd =>
          if ud_is_base bd then inl EValue else
          match dim_ofl cfg tbl (ud_ref bd), dim_ofl cfg tbl (ud_ref rd.2) with
          | inl e, _ => inl e
          | _, inl e => inl e
          | inr a, inr b => if bool_decide (a = b) then inr (<[name := rd.2]> ov) else inl EValue
          end
      end
  end.
Fixpoint redefine_all (cfg : regcfg) (below : string → option udefv) (ov : utable)
    (rds : list (string * udefv)) : utable * option err :=
  match rds with
  | [] => (ov, None)
  | rd :: r =>
      match redefine1 cfg below ov rd with
      | inl e => (ov, Some e)
      | inr ov' => redefine_all cfg below ov' r
      end
  end.

Definition switch (qk : quirks) (cfg : regcfg) (s : rstate) : rstate * option err :=
  let chain := rs_active s in
  if negb (has_redefs chain) then (set_below (λ _, []) s, None)
  else
    let key := key_of chain in
    let hit := alookup key (rs_ctx_units s) in
    match hit, q_rebuild_on_hit qk with
    | Some _, false => (set_below (λ _, []) s, None)          (* early return: reuse *)
    | _, _ =>
        let below := match hit with Some ov => [ov] | None => [] end in
        let r := redefine_all cfg (lookup_layers below (rs_base s)) ∅
                   (concat (map ce_redefs (rev chain))) in
        (set_below (λ _, below)
           (set_ctx_units (ainsert key r.1) (set_caches (kadd key) s)), r.2)
    end.

(** * Operations *)
Inductive op :=
| OEnable (cs : list string) (kw : params)
| ODisable (n : option nat)
| OWithEnter (cs : list string) (kw : params)
| OWithExit
| ORaise                       (* exception raised inside the innermost [with] body *)
| OProbe (q : probe)
| ODefine (name : string) (d : udefv).
(** [enable_failing] of the property text is [OEnable]/[OWithEnter] of a context whose
    redefinitions are invalid in this registry; failure is decided by the model. *)

Inductive out :=
| ODone
| OFailed (e : err)            (* the operation raised *)
| OExc                         (* the injected exception propagated out of the [with] block *)
| OInvalid                     (* [with_exit] / [raise_inside] without an open block: nothing done *)
| OAns (a : answer).
Global Instance out_eq_dec : EqDecision out.
Proof. solve_decision. Defined.

(** F8: the normalisation of rule endpoints to base dimensions *)
Definition norm_dim (cfg : regcfg) (d : uc) : uc :=
  match dim_of cfg (λ _, None) d with inr r => r | inl _ => d end.
Definition set_endpoints (r : rule) (s d : uc) : rule := RL s d (r_coef r) (r_par r) (r_units r).
Fixpoint upsert_rule (r : rule) (l : list rule) : list rule :=
  match l with
  | [] => [r]
  | x :: t => if bool_decide (rule_key x = rule_key r) then r :: t else x :: upsert_rule r t
  end.
Definition rewrite_rules (cfg : regcfg) (rules : list rule) : list rule :=
  foldl (λ cur r,
    let s' := norm_dim cfg (r_src r) in
    let d' := norm_dim cfg (r_dst r) in
    if bool_decide (s' = r_src r) && bool_decide (d' = r_dst r) then cur
    else upsert_rule (set_endpoints r s' d')
           (List.filter (λ x, negb (bool_decide (rule_key x = rule_key r))) cur)) rules rules.
Definition check_obj (cfg : regcfg) (o : ctxobj) : ctxobj :=
  if co_checked o then o
  else CO (co_defaults o) (rewrite_rules cfg (co_rules o)) (co_redefs o) true.

Definition mk_entry (qk : quirks) (cfg : regcfg) (kw : params) (name : string) (o : ctxobj) : centry :=
  CE name
     (if bool_decide (kw = ∅) then co_defaults o else kw ∪ co_defaults o)
     (if q_rewrite_shared qk then co_rules o else rewrite_rules cfg (co_rules o))
     (co_redefs o).

Definition dummy_obj : ctxobj := CO ∅ [] [] false.   (* never used: [resolve] succeeded *)
Definition resolve (os : objs) (cs : list string) : option (list (string * ctxobj)) :=
  mapM (λ c, o ← os !! c; Some (c, o)) cs.

(** [disable_contexts(n)] *)
Definition do_disable (qk : quirks) (cfg : regcfg) (s : rstate) (n : option nat) : rstate * option err :=
  switch qk cfg (set_active (λ a, match n with None => [] | Some k => drop k a end) s).

(** the repair of F6 proposed for [enable_contexts]: on failure forget the half-built overlay,
    remove the contexts again and switch back *)
Definition rollback (qk : quirks) (cfg : regcfg) (s : rstate) (k : nat) : rstate :=
  let key := key_of (rs_active s) in
  (switch qk cfg
     (set_active (drop k) (set_ctx_units (adelete key) (set_caches (kdel key) s)))).1.

Definition do_enable (qk : quirks) (cfg : regcfg) (os : objs) (s : rstate)
    (cs : list string) (kw : params) : objs * rstate * option err :=
  let inh := chain_defaults qk (rs_active s) in
  let kw' := if bool_decide (inh = ∅) then kw else kw ∪ inh in
  match resolve os cs with
  | None => (os, s, Some EKey)
  | Some _ =>
      let os' := if q_rewrite_shared qk
                 then foldl (λ m c, match m !! c with Some o => <[c := check_obj cfg o]> m | None => m end) os cs
                 else os in
      let entries := map (λ c, mk_entry qk cfg kw' c (default dummy_obj (os' !! c))) cs in
      let s1 := set_active (λ a, rev entries ++ a) s in
      match switch qk cfg s1 with
      | (s2, None) => (os', s2, None)
      | (s2, Some e) =>
          if q_partial_activation qk then (os', s2, Some e)
          else (os', rollback qk cfg s2 (length entries), Some e)
      end
  end.

Definition step (qk : quirks) (cfg : regcfg) (st : objs * rstate) (o : op) : objs * rstate * out :=
  let '(os, s) := st in
  match o with
  | OEnable cs kw =>
      match do_enable qk cfg os s cs kw with
      | (os', s', None) => (os', s', ODone)
      | (os', s', Some e) => (os', s', OFailed e)
      end
  | ODisable n =>
      match do_disable qk cfg s n with
      | (s', None) => (os, s', ODone)
      | (s', Some e) => (os, s', OFailed e)
      end
  | OWithEnter cs kw =>
      match do_enable qk cfg os s cs kw with
      | (os', s', None) => (os', set_frames (cons (length cs)) s', ODone)
      | (os', s', Some e) => (os', s', OFailed e)
      end
  | OWithExit | ORaise =>
      match rs_frames s with
      | [] => (os, s, OInvalid)
      | n :: fr =>
          match do_disable qk cfg (set_frames (λ _, fr) s) (Some n) with
          | (s', None) => (os, s', match o with ORaise => OExc | _ => ODone end)
          | (s', Some e) => (os, s', OFailed e)
          end
      end
  | OProbe q => (os, probe_effect qk cfg s q, OAns (answer_of qk cfg s q))
  | ODefine name d =>
      match lookup_layers (layers s) (rs_base s) name with
      | Some _ => (os, s, OFailed ERedef)
      | None =>
          if has_redefs (rs_active s)
          then (os, set_ctx_units (ainsert (key_of (rs_active s)) (<[name := d]> (top_overlay s))) s, ODone)
          else (os, set_base (<[name := d]>) s, ODone)
      end
  end.

Definition stepS qk cfg (st : objs * rstate) (o : op) : objs * rstate := (step qk cfg st o).1.
Definition run qk cfg (st : objs * rstate) (ops : list op) : objs * rstate :=
  fold_left (stepS qk cfg) ops st.
Fixpoint outs qk cfg (st : objs * rstate) (ops : list op) : list out :=
  match ops with
  | [] => []
  | o :: r => (step qk cfg st o).2 :: outs qk cfg (stepS qk cfg st o) r
  end.
Definition is_failed (o : out) : bool := match o with OFailed _ => true | _ => false end.
(** "no activation (or any other operation) fails" *)
Definition run_ok qk cfg st ops : bool := forallb (λ o, negb (is_failed o)) (outs qk cfg st ops).

(** * Two registries sharing the Context objects *)
Record world := W { w_objs : objs; w_r1 : rstate; w_r2 : rstate }.
Definition wstep (qk : quirks) (cfgs : regcfg * regcfg) (w : world) (io : bool * op) : world * out :=
  if io.1 then
    let '(os, s, r) := step qk cfgs.2 (w_objs w, w_r2 w) io.2 in (W os (w_r1 w) s, r)
  else
    let '(os, s, r) := step qk cfgs.1 (w_objs w, w_r1 w) io.2 in (W os s (w_r2 w), r).
Definition wrun qk cfgs (w : world) (ops : list (bool * op)) : world :=
  fold_left (λ w io, (wstep qk cfgs w io).1) ops w.

(** * The reference stack of the property ("the stack those operations imply") *)
Definition spec_step (st : list string * list nat) (o : op) : list string * list nat :=
  match o with
  | OEnable cs _ => (rev cs ++ st.1, st.2)
  | ODisable None => ([], st.2)
  | ODisable (Some n) => (drop n st.1, st.2)
  | OWithEnter cs _ => (rev cs ++ st.1, length cs :: st.2)
  | OWithExit | ORaise =>
      match st.2 with
      | [] => st
      | n :: fr => (drop n st.1, fr)
      end
  | OProbe _ | ODefine _ _ => st
  end.
Definition spec_run (st : list string * list nat) (ops : list op) : list string * list nat :=
  fold_left spec_step ops st.
Definition active_names (s : rstate) : list string := map ce_name (rs_active s).
