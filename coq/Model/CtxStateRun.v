(** Model/CtxStateRun.v — correspondence cases for C12.  A case is a forest of operation trees
    over a world of two registries sharing Context objects; every node carries the operation,
    the implementation's observed outcome and its observations after the step.  [c12_ok] replays
    the forest on the model and is true when every outcome and observation agrees. *)
From PintV Require Import Model.UC Model.CtxState.

Record setup := SU {
  su_qk : quirks;
  su_cfgs : regcfg * regcfg;
  su_bases : utable * utable;
  su_objs : objs;
  su_probes : list probe }.          (* the probe table swept by [ObAns] *)

Inductive obsitem :=
| ObActive (r : bool) (names : list string)        (* active context names, newest first *)
| ObLayers (r : bool) (n : nat)                    (* len(ureg._units.maps) *)
| ObCaches (r : bool) (n : nat)                    (* len(ureg._caches) *)
| ObFrames (r : bool) (n : nat)                    (* open with-blocks *)
| ObAns (r : bool) (answers : list answer)         (* answers to every probe of the table *)
| ObCtx (name : string) (keys : list (uc * uc)) (defaults : params) (checked : bool).

Inductive tree := Node (io : bool * op) (o : out) (obs : list obsitem) (kids : list tree).
Inductive c12case := KRun (su : setup) (ts : list tree).

Definition world0 (su : setup) : world :=
  W (su_objs su) (init_state (su_bases su).1) (init_state (su_bases su).2).
Definition wreg (w : world) (r : bool) : rstate := if r then w_r2 w else w_r1 w.
Definition wcfg (su : setup) (r : bool) : regcfg := if r then (su_cfgs su).2 else (su_cfgs su).1.

Definition check_item (su : setup) (w : world) (it : obsitem) : bool :=
  match it with
  | ObActive r names => bool_decide (active_names (wreg w r) = names)
  | ObLayers r n => Nat.eqb (n_layers (wreg w r)) n
  | ObCaches r n => Nat.eqb (n_caches (wreg w r)) n
  | ObFrames r n => Nat.eqb (length (rs_frames (wreg w r))) n
  | ObAns r answers =>
      bool_decide (map (answer_of (su_qk su) (wcfg su r) (wreg w r)) (su_probes su) = answers)
  | ObCtx name keys defaults checked =>
      match w_objs w !! name with
      | None => false
      | Some o => bool_decide (map rule_key (co_rules o) = keys)
                  && bool_decide (co_defaults o = defaults) && eqb (co_checked o) checked
      end
  end.

Fixpoint check_tree (su : setup) (w : world) (t : tree) {struct t} : bool :=
  match t with
  | Node io o obs kids =>
      let wo := wstep (su_qk su) (su_cfgs su) w io in
      bool_decide (wo.2 = o) && forallb (check_item su wo.1) obs && forallb (check_tree su wo.1) kids
  end.

Definition c12_ok (c : c12case) : bool :=
  match c with KRun su ts => forallb (check_tree su (world0 su)) ts end.

(** diagnostics for replay files: path (child indices) of the first disagreeing node and what
    disagreed there (0 = outcome, k = k-th observation) together with the model's outcome *)
Fixpoint first_false {A} (f : A → bool) (l : list A) (i : nat) : option nat :=
  match l with [] => None | x :: r => if f x then first_false f r (S i) else Some i end.
Fixpoint bad_tree (su : setup) (w : world) (t : tree) {struct t} : option (list nat * nat * out) :=
  match t with
  | Node io o obs kids =>
      let wo := wstep (su_qk su) (su_cfgs su) w io in
      if negb (bool_decide (wo.2 = o)) then Some ([], O, wo.2) else
      match first_false (check_item su wo.1) obs 1%nat with
      | Some i => Some ([], i, wo.2)
      | None =>
          (fix go (ks : list tree) (i : nat) : option (list nat * nat * out) :=
             match ks with
             | [] => None
             | k :: r =>
                 match bad_tree su wo.1 k with
                 | Some (p, m, x) => Some (i :: p, m, x)
                 | None => go r (S i)
                 end
             end) kids O
      end
  end.
Definition c12_bad (c : c12case) : option (list nat * nat * out) :=
  match c with
  | KRun su ts =>
      (fix go (ks : list tree) (i : nat) : option (list nat * nat * out) :=
         match ks with
         | [] => None
         | k :: r =>
             match bad_tree su (world0 su) k with
             | Some (p, m, x) => Some (i :: p, m, x)
             | None => go r (S i)
             end
         end) ts O
  end.
(** what the model observes (printable; for replay files only) *)
Inductive pans :=
| PQ (n : Z) (d : positive) | PFU (n : Z) (d : positive) (u : list (string * Z * positive))
| PU (u : list (string * Z * positive)) | PE (e : err).
Definition show_uc (u : uc) : list (string * Z * positive) :=
  map (λ kv : string * Qc, (kv.1, Qnum (this kv.2), Qden (this kv.2))) (map_to_list u).
Definition show_answer (a : answer) : pans :=
  match a with
  | AQ m => PQ (Qnum (this m)) (Qden (this m))
  | AFU f u => PFU (Qnum (this f)) (Qden (this f)) (show_uc u)
  | AU u => PU (show_uc u)
  | AErr e => PE e
  end.
Definition model_obs (su : setup) (ops : list (bool * op)) (r : bool)
  : list string * nat * nat * list pans :=
  let w := wrun (su_qk su) (su_cfgs su) (world0 su) ops in
  (active_names (wreg w r), n_layers (wreg w r), n_caches (wreg w r),
   map (λ q, show_answer (answer_of (su_qk su) (wcfg su r) (wreg w r) q)) (su_probes su)).

(** short literals written by the harness *)
Definition mkud (n : Z) (d : positive) (ref : list (string * Qc)) : udefv := UD (mkq n d) ref.
Definition mkut (l : list (string * udefv)) : utable := list_to_map l.
Definition mkps (l : list (string * Qc)) : params := list_to_map l.
Definition mkum (l : list (string * uc)) : gmap string uc := list_to_map l.
Definition mkdm (l : list (string * list (string * Qc))) : gmap string (list (string * Qc)) := list_to_map l.
Definition mkobjs (l : list (string * ctxobj)) : objs := list_to_map l.
Definition aq (n : Z) (d : positive) : answer := AQ (mkq n d).
Definition af (n : Z) (d : positive) (u : list (string * Qc)) : answer := AFU (mkq n d) (mkuc u).
Definition au (u : list (string * Qc)) : answer := AU (mkuc u).
