(** Model/DefFile.v — definition files, line by line, ON STRINGS (property C10).

    Mirrors pint/delegates/txt_defparser/plain.py (the [from_string…] classifiers), the
    [__post_init__] validations of pint/facets/plain/definitions.py with the name predicates of
    pint/errors.py, and feeds [Registry.elab1].  Definitions only; proofs in
    Proofs/DefFileProofs.v.

    What is done here, in Coq: comment stripping, splitting at "=", whitespace stripping,
    classification of a line, ";"-separated [key: value] modifiers, the "_" placeholder, name
    validity, tokenisation of right-hand sides ([lex]), elaboration, and the printers
    [print_dec] / [print_def].
    What stays in the Python half of the reader (trusted, harness/t1_defs.py and
    harness/c10.py [def_lines]): resolving [@import], recognising block directives and [@end],
    i.e. which lines are definition lines.  T1's own tokeniser is compared with [lex] on every
    right-hand side by the correspondence (CLex cases).

    A Coq [string] is the UTF-8 byte sequence of the Python [str]; every byte >= 128 is treated
    as an identifier character (see [is_ident_char]) — exact on ASCII text; whitespace is ASCII
    whitespace (space, \t \n \v \f \r). *)
From Coq Require Import Ascii String.
From PintV Require Import Model.UC Model.Eval Model.Registry.
Open Scope string_scope.

(** * Characters and whitespace ([str.strip]) *)
Definition is_space (a : ascii) : bool :=
  let n := Ascii.N_of_ascii a in (N.eqb n 32 || ((9 <=? n) && (n <=? 13)))%N.
Definition is_digit (a : ascii) : bool :=
  let n := Ascii.N_of_ascii a in ((48 <=? n) && (n <=? 57))%N.
Definition is_letter (a : ascii) : bool :=
  let n := Ascii.N_of_ascii a in
  (((65 <=? n) && (n <=? 90)) || ((97 <=? n) && (n <=? 122)) || N.eqb n 95 || (128 <=? n))%N.
Definition is_ident_char (a : ascii) : bool := is_letter a || is_digit a.

Fixpoint lstrip (s : string) : string :=
  match s with
  | String a s' => if is_space a then lstrip s' else s
  | EmptyString => EmptyString
  end.
Fixpoint rstrip (s : string) : string :=
  match s with
  | String a s' =>
      let r := rstrip s' in
      if is_space a && String.eqb r "" then "" else String a r
  | EmptyString => EmptyString
  end.
Definition strip (s : string) : string := rstrip (lstrip s).

Fixpoint spaces (n : nat) : string :=
  match n with O => "" | S n' => String " "%char (spaces n') end.

Fixpoint contains (c : ascii) (s : string) : bool :=
  match s with
  | String a s' => Ascii.eqb a c || contains c s'
  | EmptyString => false
  end.
(** text before the first [c] (everything when [c] does not occur) *)
Fixpoint cut_at (c : ascii) (s : string) : string :=
  match s with
  | String a s' => if Ascii.eqb a c then "" else String a (cut_at c s')
  | EmptyString => EmptyString
  end.
(** text after the first [c] ([""] when [c] does not occur) *)
Fixpoint after (c : ascii) (s : string) : string :=
  match s with
  | String a s' => if Ascii.eqb a c then s' else after c s'
  | EmptyString => EmptyString
  end.
(** Python [s.split(c)]: always at least one piece *)
Fixpoint split_on (c : ascii) (s : string) : list string :=
  match s with
  | String a s' =>
      if Ascii.eqb a c then "" :: split_on c s'
      else match split_on c s' with
           | x :: l => String a x :: l
           | [] => [String a ""]
           end
  | EmptyString => [""]
  end.
Fixpoint str_forall (p : ascii → bool) (s : string) : bool :=
  match s with String a s' => p a && str_forall p s' | EmptyString => true end.

(** * Name validity: pint/errors.py *)
(** [str.isidentifier] (exact on ASCII; bytes >= 128 count as letters) *)
Definition is_identifier (s : string) : bool :=
  match s with
  | String a s' => is_letter a && str_forall is_ident_char s'
  | EmptyString => false
  end.
(** [_no_space]: [name.strip() == name and " " not in name] *)
Definition no_space (s : string) : bool := String.eqb (strip s) s && negb (contains " "%char s).
Definition is_valid_unit_name := is_identifier.
Definition is_valid_prefix_name (s : string) : bool := is_identifier s || String.eqb s "".
Definition is_valid_dimension_name (s : string) : bool :=
  String.eqb s "[]" ||
  (Nat.ltb 1 (String.length s) && is_dim s && is_identifier (substring 1 (String.length s - 2) s)).

(** * Definition records: the fields of one definition line, as text *)
Inductive defrec :=
| DefPrefix (name value : string) (sym : option string) (aliases : list string)
| DefUnit (name rhs : string) (mods : list (string * string)) (sym : option string) (aliases : list string)
| DefDim (name : string)
| DefDerived (name rhs : string)
| DefAlias (name : string) (aliases : list string).

Inductive pline :=
| LnBlank                        (* empty or comment-only line *)
| LnDef (d : defrec)
| LnDirective (s : string).      (* any other line starting with "@": block headers, @end, @import *)

(** symbol / alias fields after name and value: ["_"] = no symbol; empty and ["_"] aliases dropped
    (identical to [Registry.split_sym_aliases], restated here because the proofs unfold it) *)
Definition sym_aliases (l : list string) : option string * list string :=
  match l with
  | [] => (None, [])
  | s :: rest =>
      let clean := List.filter (λ a, negb (String.eqb a "" || String.eqb a "_")) in
      if String.eqb s "_" then (None, clean rest) else (Some s, clean rest)
  end.

(** [";"]-separated [key: value] modifiers of a unit line *)
Fixpoint parse_mods (parts : list string) : res (list (string * string)) :=
  match parts with
  | [] => Ok []
  | p :: ps =>
      match split_on ":"%char p with
      | [k; v] => l ←r parse_mods ps; Ok ((strip k, strip v) :: l)
      | _ => Err EValue       (* "for key, value in …" fails to unpack *)
      end
  end.
Definition split_value (value : string) : res (string * list (string * string)) :=
  if contains ";"%char value then
    ms ←r parse_mods (split_on ";"%char (after ";"%char value));
    Ok (strip (cut_at ";"%char value), ms)
  else Ok (value, []).

Definition strip_comment (s : string) : string := cut_at "#"%char s.

(** one physical line -> what it is.  Order of the tests = order of the classes in
    [PintRootBlock]: comment, (directives), alias, derived dimension, dimension, prefix, unit. *)
Definition eq_fields (s : string) : list string := map strip (split_on "="%char s).
Definition parse_line (line : string) : res pline :=
  let s := strip (strip_comment line) in
  if String.eqb s "" then Ok LnBlank
  else if String.prefix "@alias " s then
    match eq_fields (str_drop 7 s) with
    | name :: aliases => Ok (LnDef (DefAlias name aliases))
    | [] => Err ESyntax
    end
  else if String.prefix "@" s then Ok (LnDirective s)
  else if String.prefix "[" s then
    if contains "="%char s then
      match eq_fields s with
      | [name; value] => Ok (LnDef (DefDerived name value))
      | _ => Err ESyntax                       (* "Derived dimensions cannot have aliases." *)
      end
    else Ok (LnDef (DefDim s))
  else if contains "="%char s then
    match eq_fields s with
    | name :: value :: rest =>
        if ends_with "-" name then
          let '(sym, aliases) := sym_aliases (map strip_dash rest) in
          Ok (LnDef (DefPrefix (strip_dash name) value sym aliases))
        else
          ' (rhs, mods) ←r split_value value;
          let '(sym, aliases) := sym_aliases rest in
          Ok (LnDef (DefUnit name rhs mods sym aliases))
    | _ => Err ESyntax
    end
  else Err ESyntax.                             (* UnknownStatement *)

(** * A small lexer for right-hand sides (numbers, names, [dims], operators).
    Mirrors harness/t1_defs.py [lex] (K compares the two on every right-hand side);
    [^] is [**], the word [per] is [/]. *)
Fixpoint span (p : ascii → bool) (s : string) : string * string :=
  match s with
  | String a s' => if p a then let '(x, r) := span p s' in (String a x, r) else ("", s)
  | EmptyString => ("", "")
  end.
Definition is_digit_us (a : ascii) : bool := is_digit a || Ascii.eqb a "_"%char.
Definition starts_digit (s : string) : bool :=
  match s with String a _ => is_digit a | EmptyString => false end.
(** (\d[\d_]*\.?\d*|\.\d+)([eE][+-]?\d+)? — the caller guarantees the first alternative or ".\d" *)
Definition read_num (s : string) : string * string :=
  let '(ip, r1) := span is_digit_us s in
  let '(fp, r2) := match r1 with
                   | String "."%char r => let '(f, r') := span is_digit r in (String "."%char f, r')
                   | _ => ("", r1)
                   end in
  let '(ex, r3) :=
    match r2 with
    | String e r =>
        if Ascii.eqb e "e"%char || Ascii.eqb e "E"%char then
          let '(sg, r') := match r with
                           | String "-"%char x => ("-", x)
                           | String "+"%char x => ("+", x)
                           | _ => ("", r)
                           end in
          let '(d, r'') := span is_digit r' in
          if String.eqb d "" then ("", r2) else (String e (sg ++ d), r'')
        else ("", r2)
    | EmptyString => ("", r2)
    end in
  (ip ++ fp ++ ex, r3).

Fixpoint lex_go (fuel : nat) (s : string) : res (list tok) :=
  match fuel with
  | O => Err EFuel
  | S f =>
      match s with
      | EmptyString => Ok [TEnd]
      | String a s' =>
          if is_space a then lex_go f s'
          else if is_digit a || (Ascii.eqb a "."%char && starts_digit s') then
            let '(n, r) := read_num s in l ←r lex_go f r; Ok (TNum n :: l)
          else if is_letter a then
            let '(w, r) := span is_ident_char s in
            l ←r lex_go f r;
            Ok ((if String.eqb w "per" then TOp "/" else TName w) :: l)
          else if Ascii.eqb a "["%char then
            let '(w, r) := span (λ c, negb (Ascii.eqb c "]"%char || is_space c)) s' in
            match r with
            | String "]"%char r' => l ←r lex_go f r'; Ok (TName ("[" ++ w ++ "]") :: l)
            | _ => Err ESyntax
            end
          else if Ascii.eqb a "*"%char then
            match s' with
            | String "*"%char r => l ←r lex_go f r; Ok (TOp "**" :: l)
            | _ => l ←r lex_go f s'; Ok (TOp "*" :: l)
            end
          else if Ascii.eqb a "/"%char then
            match s' with
            | String "/"%char r => l ←r lex_go f r; Ok (TOp "//" :: l)
            | _ => l ←r lex_go f s'; Ok (TOp "/" :: l)
            end
          else if Ascii.eqb a "^"%char then l ←r lex_go f s'; Ok (TOp "**" :: l)
          else if Ascii.eqb a "+"%char || Ascii.eqb a "-"%char || Ascii.eqb a "("%char
                  || Ascii.eqb a ")"%char || Ascii.eqb a "%"%char then
            l ←r lex_go f s'; Ok (TOp (String a "") :: l)
          else Err ESyntax
      end
  end.
Definition lex (s : string) : res (list tok) := lex_go (S (String.length s)) s.

(** * Validation and elaboration of one definition record *)
(** Deviations of pint from its own rules, switchable (DESIGN §2.6).
    [q_symbol_unchecked]: [UnitDefinition.__post_init__] and [PrefixDefinition.__post_init__]
    test [is_valid_*_symbol(self.name)] instead of the symbol, so any symbol is accepted (F56). *)
Record quirks := Quirks { q_symbol_unchecked : bool }.
Definition pint_quirks : quirks := Quirks true.
Definition repaired : quirks := Quirks false.

Definition ensure (b : bool) (e : err) : res unit := if b then Ok tt else Err e.
Definition has_symbol (sym : option string) : option string :=
  match sym with Some s => if String.eqb s "" then None else Some s | None => None end.
Definition check_symbol (q : quirks) (name : string) (sym : option string) : res unit :=
  match has_symbol sym with
  | Some s => ensure (no_space (if q_symbol_unchecked q then name else s)) EValue
  | None => Ok tt
  end.

(** the record as [Registry.elab1] wants it; an empty unit right-hand side is the number 1
    ([ParserHelper.from_string("")]) *)
Definition sym_field (sym : option string) : string := match sym with Some s => s | None => "_" end.
Definition lex_mods (mods : list (string * string)) : res (list (string * list tok)) :=
  foldM (λ acc kv, t ←r lex kv.2; Ok (app acc [(kv.1, t)])) mods (@nil (string * list tok)).
(** a repeated modifier key keeps its last value (dict comprehension) *)
Fixpoint dedup_mods {A} (l : list (string * A)) : list (string * A) :=
  match l with
  | [] => []
  | (k, v) :: l' =>
      if existsb (λ kv, String.eqb kv.1 k) l' then dedup_mods l' else (k, v) :: dedup_mods l'
  end.
Definition to_raw (d : defrec) : res rawdef :=
  match d with
  | DefPrefix name value sym aliases =>
      t ←r lex value; Ok (RPrefix (name :: sym_field sym :: aliases) t)
  | DefUnit name rhs mods sym aliases =>
      t ←r (if String.eqb rhs "" then Ok [TNum "1"; TEnd] else lex rhs);
      ms ←r lex_mods (dedup_mods mods);
      Ok (RUnit (name :: sym_field sym :: aliases) t ms)
  | DefDim name => Ok (RDim name)
  | DefDerived name rhs => t ←r lex rhs; Ok (RDerivedDim name t)
  | DefAlias name aliases => Ok (RAlias name aliases)
  end.

Definition ref_keys (p : ph) : list string := map fst (map_to_list (ph_d p)).

(** the [__post_init__] checks (and [ParserConfig.to_dimension_container]) *)
Definition check_def (q : quirks) (d : defrec) (rd : rawdef) : res unit :=
  match d, rd with
  | DefPrefix name _ sym aliases, _ =>
      _ ←r ensure (is_valid_prefix_name name) EValue;
      _ ←r check_symbol q name sym;
      ensure (forallb no_space aliases) EValue
  | DefUnit name _ _ sym aliases, RUnit _ toks _ =>
      ' (p, _) ←r ph_from_tokens toks;
      _ ←r ensure (is_valid_unit_name name) EValue;
      let keys := ref_keys p in
      _ ←r (if negb (existsb is_dim keys) then ensure (forallb is_valid_unit_name keys) EValue
            else if forallb is_dim keys then
              _ ←r ensure (forallb is_valid_dimension_name keys) EValue;
              (* "Base unit definitions cannot have a scale different to 1" is RETURNED, not
                 raised; [_is_base] stays unset and [_add_unit] dies with AttributeError *)
              ensure (bool_decide (ph_scale p = 1%Qc)) EOther
            else Err ESyntax);
      _ ←r check_symbol q name sym;
      ensure (forallb no_space aliases) EValue
  | DefDim name, _ => ensure (is_valid_dimension_name name) EValue
  | DefDerived name _, RDerivedDim _ toks =>
      ' (p, fl) ←r ph_from_tokens toks;
      _ ←r ensure (bool_decide (ph_scale p = 1%Qc) && negb fl) EValue;   (* UnexpectedScaleInContainer *)
      _ ←r ensure (forallb is_valid_dimension_name (ref_keys p)) ESyntax;
      ensure (is_valid_dimension_name name) EValue
  | DefAlias name aliases, _ =>
      _ ←r ensure (is_valid_unit_name name) EValue;
      ensure (forallb no_space aliases) EValue
  | _, _ => Err EOther
  end.

Definition elab_def (q : quirks) (r : reg) (d : defrec) : res reg :=
  rd ←r to_raw d; _ ←r check_def q d rd; elab1 r rd.

(** one text line; blank lines and comments change nothing; a directive is not a definition *)
Definition elab_line (q : quirks) (r : reg) (line : string) : res reg :=
  pl ←r parse_line line;
  match pl with
  | LnBlank => Ok r
  | LnDef d => elab_def q r d
  | LnDirective _ => Err ESyntax
  end.
Definition elab_lines (q : quirks) (lines : list string) : res reg := foldM (elab_line q) lines empty_reg.
Definition load_lines (q : quirks) (lines : list string) : res reg :=
  r ←r elab_lines q lines; Ok (build_cache r).

(** * Meaning of a name: exact factor to root units, root units, dimensionality *)
Definition meaning (r : reg) (n : string) : res (option Qc * uc * uc) :=
  ' (f, b, _) ←r root_of r {[ n := 1%Qc ]};
  d ←r dim_of r {[ n := 1%Qc ]};
  Ok (f, b, d).

(** * [elab1] factored: what a unit / prefix / dimension definition does is computed without
    looking at the registry ([pre]), then applied ([act]).  [@alias] needs the registry. *)
Inductive action :=
| APrefix (keys : list string) (p : pdef)
| AUnits (ds : list udef)
| ADim (name : string)
| ADerived (name : string) (ref : uc).

Definition implicit_dims (ks : list string) (m : gmap string ddef) : gmap string ddef :=
  fold_left (λ m k, match m !! k with Some _ => m | None => <[k := DBase]> m end) ks m.
Definition set_dims (r : reg) (m : gmap string ddef) : reg :=
  Reg (r_units r) (r_unit_names r) (r_prefixes r) (r_prefix_keys r) m (r_base_units r).
Definition act (a : action) (r : reg) : reg :=
  match a with
  | APrefix keys p => fold_left (λ r k, add_prefix_key k p r) keys r
  | AUnits ds => fold_left add_unit_def ds r
  | ADim n => set_dims r (<[n := DBase]> (r_dims r))
  | ADerived n ref => set_dims r (<[n := DDerived ref]> (implicit_dims (map fst (map_to_list ref)) (r_dims r)))
  end.
Fixpoint mapR {A B} (f : A → res B) (l : list A) : res (list B) :=
  match l with
  | [] => Ok []
  | x :: l' => y ←r f x; ys ←r mapR f l'; Ok (y :: ys)
  end.
Definition run_acts (acts : list action) (r : reg) : reg := fold_left (λ r a, act a r) acts r.
(** which converter a set of evaluated modifiers selects ([Converter.from_arguments]): the same
    text as inside [Registry.elab1] *)
Definition conv_of_mods (ms : list (string * Qc)) : res conv :=
  match ms with
  | [] => Ok CScale
  | [("offset", o)] => Ok (if qz o then CScale else COffset o)
  | _ => match assoc "logbase" ms, assoc "logfactor" ms with
         | Some b, Some f => if Nat.eqb (length ms) 2 then Ok (CLog b f) else Err EValue
         | _, _ => Err EValue
         end
  end.
Definition plain (d : rawdef) : bool := match d with RAlias _ _ => false | _ => true end.
Definition pre (d : rawdef) : res action :=
  match d with
  | RPrefix fields value =>
      match fields with
      | name :: rest =>
          v ←r num_from_tokens value;
          let '(sym, aliases) := split_sym_aliases (map strip_dash rest) in
          let p := PDef (strip_dash name) sym aliases v in
          Ok (APrefix (p_name p :: match sym with Some s => if String.eqb s "" then [] else [s] | None => [] end
                              ++ aliases) p)
      | [] => Err ESyntax
      end
  | RUnit fields rhs mods =>
      match fields with
      | name :: rest =>
          ' (p, pfl) ←r ph_from_tokens rhs;
          let '(sym, aliases) := split_sym_aliases rest in
          ms ←r foldM (λ acc km, v ←r num_from_tokens km.2; Ok (app acc [(km.1, v)])) mods (@nil (string * Qc));
          cv ←r conv_of_mods ms;
          let keys := map fst (map_to_list (ph_d p)) in
          let nd := length (filter is_dim keys) in
          if negb (Nat.eqb nd 0) && negb (Nat.eqb nd (length keys)) then Err ESyntax else
          let base := negb (Nat.eqb (length keys) 0) && Nat.eqb nd (length keys) in
          let d := UDef name sym aliases (ph_scale p) pfl cv (ph_d p) base in
          match cv with
          | COffset _ =>
              let dsym := match sym with Some s => if String.eqb s "" then Some ("Δ" ++ name) else Some ("Δ" ++ s) | None => Some ("Δ" ++ name) end in
              let dal := app (map (λ a, "Δ" ++ a) aliases) (map (λ a, "delta_" ++ a) aliases) in
              Ok (AUnits [d; UDef ("delta_" ++ name) dsym dal (ph_scale p) pfl CScale (ph_d p) base])
          | _ => Ok (AUnits [d])
          end
      | [] => Err ESyntax
      end
  | RDim name => Ok (ADim name)
  | RDerivedDim name rhs => ' (p, _) ←r ph_from_tokens rhs; Ok (ADerived name (ph_d p))
  | RAlias _ _ => Err EOther
  end.

(** the keys a definition writes *)
Definition udef_keys (d : udef) : list string :=
  u_name d :: match u_sym d with Some s => if String.eqb s "" then [] else [s] | None => [] end ++ u_aliases d.
Definition unit_bindings (a : action) : list (string * udef) :=
  match a with AUnits ds => flat_map (λ d, map (λ k, (k, d)) (udef_keys d)) ds | _ => [] end.
Definition prefix_bindings (a : action) : list (string * pdef) :=
  match a with APrefix keys p => map (λ k, (k, p)) keys | _ => [] end.
Definition dim_bindings (a : action) : list (string * ddef) :=
  match a with ADim n => [(n, DBase)] | ADerived n ref => [(n, DDerived ref)] | _ => [] end.
(** dimensions that come into existence merely by being mentioned *)
Definition dim_mentions (a : action) : list string :=
  match a with
  | AUnits ds => flat_map (λ d, if u_base d then map fst (map_to_list (u_ref d)) else []) ds
  | ADerived _ ref => map fst (map_to_list ref)
  | _ => []
  end.
(** "no redefinition": every unit spelling, prefix spelling and dimension name is written once *)
Definition no_redefinition (acts : list action) : Prop :=
  NoDup (flat_map unit_bindings acts).*1 ∧
  NoDup ("" :: (flat_map prefix_bindings acts).*1) ∧
  NoDup (flat_map dim_bindings acts).*1.

Definition no_redefinition_b (acts : list action) : bool :=
  bool_decide (NoDup (flat_map unit_bindings acts).*1)
  && bool_decide (NoDup ("" :: (flat_map prefix_bindings acts).*1))
  && bool_decide (NoDup (flat_map dim_bindings acts).*1).

(** * Unambiguous references.  [r_prefix_keys] is an ORDERED list and [triplets] walks it, so a
    string with several (prefix, unit) readings resolves to the first in definition order; a
    string with at most one reading does not see the order. *)
(** all (prefix, unit) readings of [s] are the same pair *)
Definition unamb1 (r : reg) (s : string) : bool :=
  match triplets r s with [] => true | c :: l => forallb (pair_eqb c) l end.
(** … and so are those of the canonical spelling a prefixed reading is registered under *)
Definition unamb_b (r : reg) (s : string) : bool :=
  match r_units r !! s with
  | Some _ => true
  | None => unamb1 r s &&
            match triplets r s with
            | (p, u) :: _ => if String.eqb p "" then true else unamb1 r (p ++ u)
            | [] => true
            end
  end.
(** [l] is closed under references; every non-dimension name in it, and the canonical name it
    resolves to, has one reading *)
Definition closed_b (r : reg) (l : list string) : bool :=
  forallb (λ s,
    (if is_dim s then
       match r_dims r !! s with
       | Some (DDerived ref) => forallb (λ kv : string * Qc, bool_decide (kv.1 ∈ l)) (map_to_list ref)
       | _ => true
       end
     else true) &&
    (unamb_b r s &&
     match resolve r s with
     | Ok d => unamb_b r (u_name d) && forallb (λ kv : string * Qc, bool_decide (kv.1 ∈ l)) (map_to_list (u_ref d))
     | Err _ => true
     end)) l.

(** the names reachable from [l] (for building closed lists) *)
Definition refs_of (r : reg) (s : string) : list string :=
  (if is_dim s then match r_dims r !! s with Some (DDerived ref) => map fst (map_to_list ref) | _ => [] end else [])
  ++ match resolve r s with Ok d => map fst (map_to_list (u_ref d)) | Err _ => [] end.
Fixpoint close_refs (fuel : nat) (r : reg) (l : list string) : list string :=
  match fuel with
  | O => l
  | S f => close_refs f r (remove_dups (l ++ flat_map (refs_of r) l))
  end.

(** * Decimal printer.  [print_dec q] for q >= 0 whose denominator divides a power of ten is
    the shortest plain decimal; anything else is printed as a quotient of two integers
    in parentheses (not a literal). *)
Definition digit_char (d : Z) : ascii :=
  match d with
  | 0 => "0" | 1 => "1" | 2 => "2" | 3 => "3" | 4 => "4"
  | 5 => "5" | 6 => "6" | 7 => "7" | 8 => "8" | _ => "9"
  end%Z%char.
(** exactly [k] digits of [n] (the low ones), most significant first, in front of [acc] *)
Fixpoint pad_digits (k : nat) (n : Z) (acc : string) : string :=
  match k with
  | O => acc
  | S k' => pad_digits k' (n / 10)%Z (String (digit_char (n mod 10)%Z) acc)
  end.
Fixpoint ndigits (fuel : nat) (n : Z) : nat :=
  match fuel with
  | O => 1
  | S f => if (n <? 10)%Z then 1 else S (ndigits f (n / 10)%Z)
  end.
Definition print_nat (n : Z) : string :=
  pad_digits (ndigits (S (Z.to_nat (Z.log2 n))) n) n "".
(** least k with d | 10^k, by dividing out gcd(d,10) *)
Fixpoint dec_places (fuel : nat) (d : Z) : option nat :=
  match fuel with
  | O => None
  | S f =>
      if (d =? 1)%Z then Some O
      else let g := Z.gcd d 10 in
           if (g =? 1)%Z then None else option_map S (dec_places f (d / g)%Z)
  end.
Definition print_dec (q : Qc) : string :=
  let n := Qnum (this q) in let d := Zpos (Qden (this q)) in
  match (if (0 <=? n)%Z then dec_places (S (Z.to_nat (Z.log2 d))) d else None) with
  | Some O => print_nat n
  | Some k =>
      let m := (n * 10 ^ Z.of_nat k / d)%Z in
      print_nat (m / 10 ^ Z.of_nat k) ++ "." ++ pad_digits k m ""
  | None => "(" ++ (if (n <? 0)%Z then "-" ++ print_nat (- n) else print_nat n) ++ "/" ++ print_nat d ++ ")"
  end.

(** * Printer of definition records, with layout variants *)
Record layout := Layout {
  l_indent : nat;              (* spaces before the line *)
  l_pre : nat; l_post : nat;   (* spaces before / after every "=" *)
  l_trail : nat;               (* spaces after the last field *)
  l_comment : option string;   (* trailing "# …" comment *)
  l_placeholder : bool;        (* write the "_" placeholder even when no alias follows *)
  l_dash : bool }.             (* prefix symbol / aliases written with their trailing "-" *)

Definition eq_sep (v : layout) : string := spaces (l_pre v) ++ "=" ++ spaces (l_post v).
Fixpoint join (sep : string) (l : list string) : string :=
  match l with
  | [] => ""
  | [x] => x
  | x :: l' => x ++ sep ++ join sep l'
  end.
Definition tail_fields (v : layout) (f : string → string) (sym : option string) (aliases : list string) : list string :=
  match sym, aliases with
  | None, [] => if l_placeholder v then ["_"] else []
  | None, _ => "_" :: map f aliases
  | Some s, _ => f s :: map f aliases
  end.
Definition mod_part (kv : string * string) : string := " " ++ kv.1 ++ ": " ++ kv.2.
Fixpoint print_mods (mods : list (string * string)) : string :=
  match mods with
  | [] => ""
  | kv :: l => String ";"%char (mod_part kv ++ print_mods l)
  end.
Definition def_fields (v : layout) (d : defrec) : list string :=
  match d with
  | DefPrefix name value sym aliases =>
      (name ++ "-") :: value :: tail_fields v (λ s, if l_dash v then s ++ "-" else s) sym aliases
  | DefUnit name rhs mods sym aliases => name :: (rhs ++ print_mods mods) :: tail_fields v id sym aliases
  | DefDim name => [name]
  | DefDerived name rhs => [name; rhs]
  | DefAlias name aliases => ("@alias " ++ name) :: aliases
  end.
Definition print_def (v : layout) (d : defrec) : string :=
  spaces (l_indent v) ++ join (eq_sep v) (def_fields v d) ++ spaces (l_trail v) ++
  match l_comment v with Some c => "#" ++ c | None => "" end.


(** well-formed records: what [print_def] can print so that it reads back *)
Definition nochar (c : ascii) (s : string) : bool := negb (contains c s).
Definition stripped (s : string) : bool := String.eqb (lstrip s) s && String.eqb (rstrip s) s.
Definition field_ok (s : string) : bool :=
  negb (String.eqb s "") && stripped s && nochar "="%char s && nochar "#"%char s && nochar "010"%char s.
Definition alias_ok (s : string) : bool := field_ok s && negb (String.eqb s "_").
Definition first_not (cs : list ascii) (s : string) : bool :=
  match s with String a _ => forallb (λ c, negb (Ascii.eqb a c)) cs | EmptyString => false end.
Definition mod_ok (kv : string * string) : bool :=
  field_ok kv.1 && field_ok kv.2 && nochar ";"%char kv.1 && nochar ":"%char kv.1
  && nochar ";"%char kv.2 && nochar ":"%char kv.2.
Definition wf_defrec (d : defrec) : bool :=
  match d with
  | DefUnit name rhs mods sym aliases =>
      field_ok name && first_not ["@"; "["]%char name && negb (ends_with "-" name)
      && field_ok rhs && nochar ";"%char rhs && forallb mod_ok mods
      && match sym with Some s => alias_ok s | None => true end && forallb alias_ok aliases
  | DefPrefix name value sym aliases =>
      field_ok name && first_not ["@"; "["]%char name && negb (ends_with "-" name)
      && field_ok value
      && match sym with Some s => alias_ok s && negb (ends_with "-" s) | None => true end
      && forallb (λ a, alias_ok a && negb (ends_with "-" a)) aliases
  | DefDim name => field_ok name && String.prefix "[" name
  | DefDerived name rhs => field_ok name && String.prefix "[" name && field_ok rhs
  | DefAlias name aliases => field_ok name && forallb field_ok aliases
  end.
(** the comment of a layout is one line *)
Definition wf_layout (v : layout) : bool :=
  match l_comment v with Some c => nochar "010"%char c | None => true end.

(** * Numeric kinds: which Python type a literal gets ([ParserHelper.eval_token]) *)
Inductive kind := KFloat | KDecimal | KFraction.
Inductive litkind := LInt | LFloat | LDecimal | LFraction.
(** [int(text)] succeeds: digits and underscores only *)
Definition int_literal (s : string) : bool := negb (String.eqb s "") && str_forall is_digit_us s.
Definition literal_kind (k : kind) (s : string) : litkind :=
  match k with
  | KFloat => if int_literal s then LInt else LFloat
  | KDecimal => LDecimal
  | KFraction => LFraction
  end.
Definition kind_of (k : kind) : litkind :=
  match k with KFloat => LFloat | KDecimal => LDecimal | KFraction => LFraction end.

(** * Groups: members = own units and the members of the used groups ([Group.members]) *)
Definition gdef := (string * list string * list string)%type.   (* name, using, units *)
Fixpoint gmembers (fuel : nat) (gs : list gdef) (g : string) : list string :=
  match fuel with
  | O => []
  | S f =>
      flat_map (λ gd : gdef, if String.eqb gd.1.1 g
                             then app gd.2 (flat_map (gmembers f gs) gd.1.2) else []) gs
  end.
