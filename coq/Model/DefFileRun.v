(** Model/DefFileRun.v — correspondence cases for property C10 (definition files).
    Every case carries what pint was observed to do; [c10_ok] is true when the model agrees.
    A file is given twice: as the raw definitions T1 (harness/t1_defs.py) read from it, and as
    its definition lines for the Coq line reader of Model/DefFile.v — both must satisfy the same
    observations and build the same tables. *)
From Coq Require Import Ascii String.
From PintV Require Import Model.UC Model.Eval Model.Registry Model.UCRun Model.RegistryRun Model.DefFile.
From PintV Require Import Gen.DefaultDefs Gen.DefaultReg.
Open Scope string_scope.

Definition conv_eqb (a b : conv) : bool :=
  match a, b with
  | CScale, CScale => true
  | COffset x, COffset y => bool_decide (x = y)
  | CLog x1 x2, CLog y1 y2 => bool_decide (x1 = y1) && bool_decide (x2 = y2)
  | _, _ => false
  end.
Definition udef_eqb (a b : udef) : bool :=
  String.eqb (u_name a) (u_name b) && bool_decide (u_sym a = u_sym b) && bool_decide (u_aliases a = u_aliases b)
  && bool_decide (u_scale a = u_scale b) && eqb (u_float a) (u_float b) && conv_eqb (u_conv a) (u_conv b)
  && uc_eqb (u_ref a) (u_ref b) && eqb (u_base a) (u_base b).
Definition pdef_eqb (a b : pdef) : bool :=
  String.eqb (p_name a) (p_name b) && bool_decide (p_sym a = p_sym b) && bool_decide (p_aliases a = p_aliases b)
  && bool_decide (p_val a = p_val b).
Definition ddef_eqb (a b : ddef) : bool :=
  match a, b with DBase, DBase => true | DDerived x, DDerived y => uc_eqb x y | _, _ => false end.
Definition map_eqb {A} (f : A → A → bool) (m1 m2 : gmap string A) : bool :=
  let l1 := map_to_list m1 in let l2 := map_to_list m2 in
  Nat.eqb (length l1) (length l2) &&
  forallb (λ kv : string * A, match m2 !! kv.1 with Some y => f kv.2 y | None => false end) l1.
Definition tables_eqb (r1 r2 : reg) : bool :=
  map_eqb udef_eqb (r_units r1) (r_units r2) && map_eqb pdef_eqb (r_prefixes r1) (r_prefixes r2)
  && map_eqb ddef_eqb (r_dims r1) (r_dims r2)
  && bool_decide (r_unit_names r1 = r_unit_names r2) && bool_decide (r_prefix_keys r1 = r_prefix_keys r2)
  && bool_decide (r_base_units r1 = r_base_units r2).

(** converter as pint shows it: 0 = scale only, 1 = offset, 2 = logarithmic *)
Inductive convobs := OScale | OOffset (o : Qc) | OLog (logbase logfactor : Qc).

Inductive check :=
| KReg (c : regcase)                               (* root units, dimensionality, name, symbol *)
| KConv (n : string) (scale : outcome) (c : convobs)
| KPrefix (spelling : string) (val : option Qc) (name : string)
| KDim (n : string) (present : bool) (derived : option uc)
| KUnitNames (names : list string).                (* canonical names, in definition order *)

Definition check_ok (r : reg) (c : check) : bool :=
  match c with
  | KReg c => reg_ok r c
  | KConv n s c =>
      match r_units r !! n with
      | Some d =>
          outcome_eqb (if u_float d then OFloat else OExact (u_scale d)) s &&
          match u_conv d, c with
          | CScale, OScale => true
          | COffset o, OOffset o' => bool_decide (o = o')
          | CLog b f, OLog b' f' => bool_decide (b = b') && bool_decide (f = f')
          | _, _ => false
          end
      | None => false
      end
  | KPrefix s v name =>
      match r_prefixes r !! s, v with
      | Some p, Some v' => bool_decide (p_val p = v') && String.eqb (p_name p) name
      | None, None => true
      | _, _ => false
      end
  | KDim n present derived =>
      match r_dims r !! n, present, derived with
      | Some DBase, true, None => true
      | Some (DDerived ref), true, Some ref' => uc_eqb ref ref'
      | None, false, _ => true
      | _, _, _ => false
      end
  | KUnitNames names => bool_decide (r_unit_names r = names)
  end.

Definition q_of (b : bool) : quirks := if b then pint_quirks else repaired.
Definition is_err {A} (x : res A) : bool := match x with Err _ => true | Ok _ => false end.
Definition opt_eqb' {A} (f : A → A → bool) (x y : option A) : bool :=
  match x, y with Some a, Some b => f a b | None, None => true | _, _ => false end.
Definition defrec_eqb (a b : defrec) : bool :=
  match a, b with
  | DefPrefix n v s al, DefPrefix n' v' s' al' =>
      String.eqb n n' && String.eqb v v' && bool_decide (s = s') && bool_decide (al = al')
  | DefUnit n rh m s al, DefUnit n' rh' m' s' al' =>
      String.eqb n n' && String.eqb rh rh' && bool_decide (m = m') && bool_decide (s = s') && bool_decide (al = al')
  | DefDim n, DefDim n' => String.eqb n n'
  | DefDerived n rh, DefDerived n' rh' => String.eqb n n' && String.eqb rh rh'
  | DefAlias n al, DefAlias n' al' => String.eqb n n' && bool_decide (al = al')
  | _, _ => false
  end.
Definition set_eqb (a b : list string) : bool :=
  bool_decide ((list_to_set a : gset string) = list_to_set b).

Inductive c10case :=
(** a well-formed file: T1's reading, the definition lines, which quirks pint shows, observations *)
| CFile (raw : list rawdef) (lines : list string) (quirk : bool) (checks : list check)
(** the same lines in another order / layout: the observations are those of the reference file *)
| CVariant (lines : list string) (quirk : bool) (checks : list check)
(** a file with one seeded fault: did pint raise (at load, or on first use of [target])? *)
| CFault (lines : list string) (quirk : bool) (target : string) (raised : bool)
| CLine (line : string) (expected : option defrec)      (* [parse_line]; None = not a definition / error *)
| CLex (s : string) (toks : option (list tok))
| CIdent (s : string) (isid nospace validdim : bool)
| CDec (q : Qc) (text : string) (roundtrip : bool)      (* [print_dec]; does the text read back as q *)
| CPrint (v : layout) (d : defrec) (text : string)      (* [print_def] *)
| CGroup (gs : list gdef) (g : string) (members : list string)
| CDefault (c : check)                                   (* on the registry regenerated from /repo *)
| CKind (k : kind) (s : string) (isint : bool).          (* type of a literal: is it a Python int *)

Definition c10_ok (c : c10case) : bool :=
  match c with
  | CFile raw lines q checks =>
      match load raw, load_lines (q_of q) lines with
      | Ok r1, Ok r2 => forallb (check_ok r1) checks && forallb (check_ok r2) checks && tables_eqb r1 r2
      | _, _ => false
      end
  | CVariant lines q checks =>
      match load_lines (q_of q) lines with
      | Ok r => forallb (check_ok r) checks
      | Err _ => false
      end
  | CFault lines q target raised =>
      eqb raised
        match load_lines (q_of q) lines with
        | Err _ => true
        | Ok r => if String.eqb target "" then false else is_err (meaning r target)
        end
  | CLine line expected =>
      match parse_line line, expected with
      | Ok (LnDef d), Some d' => defrec_eqb d d'
      | Ok (LnDef _), None => false
      | _, None => true
      | _, Some _ => false
      end
  | CLex s toks =>
      match lex s, toks with
      | Ok t, Some t' => bool_decide (t = t')
      | Err _, None => true
      | _, _ => false
      end
  | CIdent s a b c =>
      eqb (is_identifier s) a && eqb (no_space s) b && eqb (is_valid_dimension_name s) c
  | CDec q text rt =>
      String.eqb (print_dec q) text && eqb rt (bool_decide (parse_number text = Some q))
  | CPrint v d text => String.eqb (print_def v d) text
  | CGroup gs g members => set_eqb (gmembers 16 gs g) members
  | CDefault c => check_ok default_reg c
  | CKind k s isint =>
      eqb isint match literal_kind k s with LInt => true | _ => false end
  end.
