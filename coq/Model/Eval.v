(** Model/Eval.v — index-for-index mirror of pint/pint_eval.py [_build_eval_tree] and
    [EvalTreeNode.evaluate].  Definitions only. *)
From PintV Require Import Model.UC.
From PintV Require Gen.EvalTables.
Open Scope string_scope.

(** Tokens as the tree builder sees them: type and text.  [TOther] stands for every token
    type other than NUMBER, NAME, OP, ENDMARKER (NEWLINE, STRING, …): the builder skips it. *)
Inductive tok := TNum (s : string) | TName (s : string) | TOp (s : string) | TOther | TEnd.

Global Instance tok_eq_dec : EqDecision tok.
Proof. solve_decision. Defined.

Inductive tree :=
| Leaf (t : tok)
| Bin (op : string) (l r : tree)      (* op = "" is the implicit (juxtaposition) operator *)
| Un (op : string) (x : tree).

Inductive err :=
| EUnopened | EWeird | EUnclosed | EUnexpectedEnd | EAssert | EIndex | EFuel
| EMissingOp | EType | EZeroDiv | EValue | EUndefined (s : string) | EIrrational | EOther
| EDim | EOffset | ERedef | ESyntax | EKey.
Inductive res (A : Type) := Ok (a : A) | Err (e : err).
Arguments Ok {A} a. Arguments Err {A} e.
Definition rbind {A B} (x : res A) (f : A → res B) : res B :=
  match x with Ok a => f a | Err e => Err e end.
Notation "x ←r y ; z" := (rbind y (λ x, z)) (at level 20, y at level 100, z at level 200, right associativity).
Notation "' p ←r y ; z" := (rbind y (λ x, match x with p => z end))
  (at level 20, p pattern, y at level 100, z at level 200, right associativity).

(** [_OP_PRIORITY]; the table itself is regenerated from the source (Gen/EvalTables.v) and
    tied to this definition in Ties. *)
Definition op_priority : list (string * Z) :=
  [("+/-", 4%Z); ("**", 3%Z); ("^", 3%Z); ("unary", 2%Z); ("*", 1%Z); ("", 1%Z);
   ("//", 1%Z); ("/", 1%Z); ("%", 1%Z); ("+", 0%Z); ("-", 0%Z)].
Fixpoint assoc {A} (k : string) (l : list (string * A)) : option A :=
  match l with [] => None | (k', v) :: l' => if String.eqb k k' then Some v else assoc k l' end.
Definition prio (tbl : list (string * Z)) (op : string) : option Z := assoc op tbl.
Definition prio_d (tbl : list (string * Z)) (op : string) : Z := default (-1)%Z (prio tbl op).

(** Two fragments of [_build_eval_tree] exist in two shapes (as first found / after the fix:
    commits for F16 and F41).  The translator T2 reads which shape the working tree has and emits
    two booleans (Gen/EvalTables.v); the builder takes them as parameters, so that the model
    mirrors whichever code is in /repo and both behaviours can be stated.
    [paren_any = true]: a parenthesised group after a value is attached by juxtaposition
      whatever the pending operator (F16); false: under the same priority test as a NUMBER/NAME,
      by a call with [prev = ""] that starts at the "(" token.
    [pow_exempt = true]: "**" / "^" never end a pending operator (F41: [1.2 +/- 0.4 ** 2] reads
      [1.2 +/- (0.4 ** 2)]); false: they are exempt only among operators of equal priority. *)
Definition op_ends (pow_exempt : bool) (p pp : Z) (o : string) : bool :=
  if pow_exempt then Z.leb p pp && negb (String.eqb o "**" || String.eqb o "^")
  else Z.ltb p pp || (Z.eqb p pp && negb (String.eqb o "**" || String.eqb o "^")).

Section Build.
  Context (paren_any pow_exempt : bool) (tbl : list (string * Z)) (toks : list tok).
  Definition ntoks := length toks.
  Definition tok_at (i : nat) : option tok := nth_error toks i.

  (** One call of [_build_eval_tree] is the loop [go_p]; [fuel] bounds loop iterations plus
      nested calls. *)
  Fixpoint go_p (fuel : nat) (index depth : nat) (prev : string) (result : option tree)
    : res (tree * nat) :=
    match fuel with
    | O => Err EFuel
    | S f =>
      match tok_at index with
      | None => Err EIndex
      | Some cur =>
        (* the tail of the loop body: ENDMARKER test on tokens[index'], bound test, index += 1 *)
        let tail (result' : option tree) (index' : nat) : res (tree * nat) :=
          match tok_at index' with
          | None => Err EIndex
          | Some TEnd =>
              if String.eqb prev "(" then Err EUnclosed
              else match result' with None => Err EAssert | Some r => Ok (r, index') end
          | Some _ =>
              if Nat.leb ntoks (index' + 1) then Err EUnexpectedEnd
              else go_p f (index' + 1) depth prev result'
          end in
        match cur with
        | TOp ")" =>
            if String.eqb prev "<none>" then Err EUnopened
            else match result with
                 | None => Err EAssert
                 | Some r => if String.eqb prev "(" then Ok (r, index) else Ok (r, pred index)
                 end
        | TOp "(" =>
            if paren_any then
              match go_p f (index + 1) 0 "(" None with
              | Err e => Err e
              | Ok (rt, index') =>
                  match tok_at index' with
                  | None => Err EIndex
                  | Some t =>
                      if negb (bool_decide (t = TOp ")")) then Err EWeird
                      else match result with
                           | Some r => tail (Some (Bin "" r rt)) index'
                           | None => tail (Some rt) index'
                           end
                  end
              end
            else
              match result with
              | Some r =>
                  if Z.leb (prio_d tbl "") (prio_d tbl prev) then Ok (r, pred index)
                  else match go_p f index (depth + 1) "" None with
                       | Err e => Err e
                       | Ok (rt, index') => tail (Some (Bin "" r rt)) index'
                       end
              | None =>
                  match go_p f (index + 1) 0 "(" None with
                  | Err e => Err e
                  | Ok (rt, index') =>
                      match tok_at index' with
                      | None => Err EIndex
                      | Some t =>
                          if negb (bool_decide (t = TOp ")")) then Err EWeird
                          else tail (Some rt) index'
                      end
                  end
              end
        | TOp o =>
            match prio tbl o with
            | None => tail result index
            | Some p =>
                match result with
                | Some r =>
                    if op_ends pow_exempt p (prio_d tbl prev) o
                    then Ok (r, pred index)
                    else match go_p f (index + 1) (depth + 1) o None with
                         | Err e => Err e
                         | Ok (rt, index') => tail (Some (Bin o r rt)) index'
                         end
                | None =>
                    match go_p f (index + 1) (depth + 1) "unary" None with
                    | Err e => Err e
                    | Ok (rt, index') => tail (Some (Un o rt)) index'
                    end
                end
            end
        | TNum _ | TName _ =>
            match result with
            | Some r =>
                if Z.leb (prio_d tbl "") (prio_d tbl prev) then Ok (r, pred index)
                else match go_p f index (depth + 1) "" None with
                     | Err e => Err e
                     | Ok (rt, index') => tail (Some (Bin "" r rt)) index'
                     end
            | None => tail (Some (Leaf cur)) index
            end
        | TOther | TEnd => tail result index
        end
      end
    end.
End Build.

(** [build_eval_tree]: fuel is generous (every iteration or call consumes a token position
    or returns; [4·n + 8] suffices, see Proofs). *)
Definition build_fuel (toks : list tok) : nat := 4 * length toks + 8.
Definition build_p (paren_any pow_exempt : bool) (tbl : list (string * Z)) (toks : list tok) : res tree :=
  match go_p paren_any pow_exempt tbl toks (build_fuel toks) 0 0 "<none>" None with
  | Ok (t, _) => Ok t
  | Err e => Err e
  end.

(** the builder as the code in /repo has it now: the two switches come from the translator *)
Definition go := go_p EvalTables.paren_juxt_any_priority EvalTables.pow_exempt_any_priority.
Definition build := build_p EvalTables.paren_juxt_any_priority EvalTables.pow_exempt_any_priority.

(** [EvalTreeNode.to_string] *)
Definition tok_text (t : tok) : string :=
  match t with TNum s | TName s | TOp s => s | TOther => "?" | TEnd => "" end.
Fixpoint show_tree (t : tree) : string :=
  match t with
  | Leaf k => tok_text k
  | Bin op l r =>
      if String.eqb op "" then "(" ++ show_tree l ++ " " ++ show_tree r ++ ")"
      else "(" ++ show_tree l ++ " " ++ op ++ " " ++ show_tree r ++ ")"
  | Un op x => "(" ++ op ++ " " ++ show_tree x ++ ")"
  end.

(** * Evaluation over an abstract algebra ([evaluate] with the two operator maps) *)
Section Evaluate.
  Context {V : Type}.
  Context (leaf : tok → res V).
  Context (binop : string → option (V → V → res V)).
  Context (unop : string → option (V → res V)).
  Fixpoint evaluate (t : tree) : res V :=
    match t with
    | Leaf k => leaf k
    | Bin op l r =>
        match binop op with
        | None => Err EMissingOp
        | Some f => a ←r evaluate l; b ←r evaluate r; f a b
        end
    | Un op x =>
        match unop op with
        | None => Err EMissingOp
        | Some f => a ←r evaluate x; f a
        end
    end.
End Evaluate.

(** * The ParserHelper algebra used by [ParserHelper.from_string] (definition right-hand sides,
    unit expressions): values are plain numbers or ParserHelpers. *)
(** The flag says "this number went through a non-integer power": pint holds it as a float
    even in exact registries, and when the base was not 1 its value is irrational — then the
    rational component is a placeholder that no consumer may use. *)
Inductive pval := PNum (q : Qc) (fl : bool) | PPh (p : ph) (fl : bool).

Definition is_int (q : Qc) : bool := Pos.eqb (Qden (this q)) 1.
Definition Qc_powZ (q : Qc) (z : Z) : option Qc :=
  match z with
  | Z0 => Some 1%Qc
  | Zpos p => Some (Qcpower q (Pos.to_nat p))
  | Zneg p => if qz q then None else Some (/ (Qcpower q (Pos.to_nat p)))%Qc
  end.
(** number ** number: exact for an integer exponent; otherwise a float (value kept only for base 1) *)
Definition num_pow (a e : Qc) : res (Qc * bool) :=
  if is_int e then
    match Qc_powZ a (Qnum (this e)) with Some r => Ok (r, false) | None => Err EZeroDiv end
  else if bool_decide (a = 1%Qc) then Ok (1%Qc, true) else Ok (0%Qc, true).

Definition pv_mul (a b : pval) : res pval :=
  match a, b with
  | PNum x f, PNum y g => Ok (PNum (x * y) (f || g))
  | PNum x f, PPh p g | PPh p g, PNum x f => Ok (PPh (ph_mul_num p x) (f || g))
  | PPh p f, PPh q g => Ok (PPh (ph_mul p q) (f || g))
  end.
Definition pv_div (a b : pval) : res pval :=
  match a, b with
  | PNum x f, PNum y g => if qz y && negb g then Err EZeroDiv else Ok (PNum (x / y) (f || g))
  | PPh p f, PNum y g => if qz y && negb g then Err EZeroDiv else Ok (PPh (PH (ph_scale p / y) (ph_d p)) (f || g))
  | PNum x f, PPh p g =>   (* __rtruediv__: self ** -1, then scale *= other *)
      if qz (ph_scale p) && negb g then Err EZeroDiv
      else Ok (PPh (PH (x / ph_scale p) (uc_pow (ph_d p) (-1))) (f || g))
  | PPh p f, PPh q g =>
      if g then Ok (PPh (PH 0 (uc_div (ph_d p) (ph_d q))) true)
      else match ph_div p q with Some r => Ok (PPh r f) | None => Err EZeroDiv end
  end.
Definition pv_pow (a b : pval) : res pval :=
  match a, b with
  | PNum x f, PNum e g => ' (r, h) ←r num_pow x e; Ok (PNum r (f || g || h))
  | PPh p f, PNum e g => ' (s, h) ←r num_pow (ph_scale p) e; Ok (PPh (PH s (uc_pow (ph_d p) e)) (f || g || h))
  | _, PPh _ _ => Err EType
  end.
Definition pv_add (sub : bool) (a b : pval) : res pval :=
  match a, b with
  | PNum x f, PNum y g => Ok (PNum (if sub then x - y else x + y) (f || g))
  | _, _ => Err EType
  end.
Definition pv_binop (op : string) : option (pval → pval → res pval) :=
  if String.eqb op "**" then Some pv_pow
  else if String.eqb op "*" then Some pv_mul
  else if String.eqb op "" then Some pv_mul
  else if String.eqb op "/" then Some pv_div
  else if String.eqb op "+" then Some (pv_add false)
  else if String.eqb op "-" then Some (pv_add true)
  else if String.eqb op "//" then Some (λ a b, match a, b with PNum _ _, PNum _ _ => Err EOther | _, _ => pv_div a b end)
  else if String.eqb op "%" then Some (λ _ _, Err EOther)
  else None.
Definition pv_unop (op : string) : option (pval → res pval) :=
  if String.eqb op "+" then Some (λ x, Ok x)
  else if String.eqb op "-" then Some (λ x, pv_mul x (PNum (-1) false))
  else None.
