(** Model/EvalRun.v — correspondence cases for the expression parser (C07): each case carries
    the implementation's observed result; [c07_ok] says whether the model agrees.
    Definitions only. *)
From Coq Require Import Ascii.
From PintV Require Import Model.UC Model.Eval Model.Grammar.
Open Scope string_scope.

(** error classes as the harness observes them (exception types, never messages) *)
Inductive ecls := CSyntax | CAssert | CIndex | COtherErr.
Definition cls_of (e : err) : ecls :=
  match e with
  | EUnopened | EWeird | EUnclosed | EUnexpectedEnd => CSyntax    (* DefinitionSyntaxError *)
  | EAssert => CAssert                                             (* AssertionError *)
  | EIndex => CIndex                                               (* IndexError *)
  | _ => COtherErr
  end.
Definition ecls_eqb (a b : ecls) : bool :=
  match a, b with
  | CSyntax, CSyntax | CAssert, CAssert | CIndex, CIndex | COtherErr, COtherErr => true
  | _, _ => false
  end.
(** [build_eval_tree(tokens).to_string()] or the class of the exception *)
Inductive bres := BTree (s : string) | BErr (c : ecls).

(** * Numeric literals: [ParserHelper.eval_token] on a NUMBER token *)
Inductive nit := NFloat | NDecimal | NFraction.
Inductive numkind := KInt | KFloat | KDecimal | KFraction.
Definition numkind_eqb (a b : numkind) : bool :=
  match a, b with
  | KInt, KInt | KFloat, KFloat | KDecimal, KDecimal | KFraction, KFraction => true
  | _, _ => false
  end.
Definition is_digit (a : ascii) : bool :=
  let n := nat_of_ascii a in Nat.leb 48 n && Nat.leb n 57.
(** what Python's [int(text)] accepts among NUMBER tokens: decimal digits, single underscores
    between digits *)
Fixpoint int_lit_aux (prev_digit : bool) (s : string) : bool :=
  match s with
  | "" => prev_digit
  | String a s' =>
      if is_digit a then int_lit_aux true s'
      else if Ascii.eqb a "_"%char then prev_digit && int_lit_aux false s'
      else false
  end.
Definition is_int_lit (s : string) : bool := int_lit_aux false s.
(** float registry: [int(text)] if that works, else [float(text)]; otherwise [non_int_type(text)] *)
Definition lit_kind (n : nit) (s : string) : numkind :=
  match n with
  | NFloat => if is_int_lit s then KInt else KFloat
  | NDecimal => KDecimal
  | NFraction => KFraction
  end.

(** * Concise uncertainty notation [N.ddd(uu)] ([uncertainty_tokenizer], third branch): the text of
    the standard-deviation token when the nominal value is a plain decimal with [ndec] decimals and
    the parenthesised part is all digits: pad with zeros to [ndec + 1] characters and put the
    point [ndec] characters before the end (1.23(4) = 1.23 +/- 0.04, 1.2(34) = 1.2 +/- 3.4);
    without decimals the digits are taken as they are (123(4) = 123 +/- 4). *)
Definition concise (ndec : nat) (ds : list ascii) : list ascii :=
  match ndec with
  | O => ds
  | S _ =>
      let padded := app (replicate (S ndec - length ds) "0"%char) ds in
      app (take (length padded - ndec) padded) ("."%char :: drop (length padded - ndec) padded)
  end.
Definition concise_text (ndec : nat) (digits : string) : string :=
  string_of_list_ascii (concise ndec (list_ascii_of_string digits)).
(** the number a digit string denotes when the point is ignored *)
Definition digit_val (a : ascii) : N := N.of_nat (nat_of_ascii a - 48).
Definition dval (l : list ascii) : N :=
  fold_left (λ acc a, if is_digit a then (10 * acc + digit_val a)%N else acc) l 0%N.

(** the value of an integer literal ([int(text)]): the exact positional decimal reading of its
    digits (digit-group underscores are skipped) — no detour through a double *)
Definition lit_int_value (s : string) : N := dval (list_ascii_of_string s).

(** * Cases *)
Inductive c07case :=
| KBuild (toks : list tok) (r : bres)
    (* pint: build_eval_tree(tokens).to_string(), or the exception class *)
| KRender (s : style) (e : expr) (toks : list tok) (shown : string)
    (* the harness's Python renderer and expected-tree printer against the Spec:
       render s e = toks, show_tree (tree_of (strip e)) = shown (for legal e) *)
| KTree (s : style) (e : expr) (toks : list tok) (shown : string) (r : bres)
    (* both at once: [KRender s e toks shown] and [KBuild (toks ++ [NEWLINE; ENDMARKER]) r] *)
| KLegal (e : expr) (b : bool)
| KLit (n : nit) (s : string) (k : numkind)
| KLitVal (s : string) (v : N)
    (* float registry: the integer literal [s] evaluates to the int [v] *)
| KConcise (ndec : nat) (digits : string) (text : string).
    (* uncertainty_tokenizer("N(digits)") with a nominal of ndec decimals yields the token [text] *)

Definition toks_eqb (a b : list tok) : bool := bool_decide (a = b).

(** [pa], [pe]: the two switches of [Eval.go_p]; the harness passes the values the translator read
    from the source (Gen/EvalTables.v) *)
Definition build_ok (pa pe : bool) (tbl : list (string * Z)) (toks : list tok) (r : bres) : bool :=
  match build_p pa pe tbl toks, r with
  | Ok t, BTree s => String.eqb (show_tree t) s
  | Err e, BErr c => ecls_eqb (cls_of e) c
  | _, _ => false
  end.
Definition render_ok (s : style) (e : expr) (toks : list tok) (shown : string) : bool :=
  legal e && toks_eqb (render s e) toks && String.eqb (show_tree (tree_of (strip e))) shown.
Definition c07_ok (pa pe : bool) (tbl : list (string * Z)) (c : c07case) : bool :=
  match c with
  | KBuild toks r => build_ok pa pe tbl toks r
  | KRender s e toks shown => render_ok s e toks shown
  | KTree s e toks shown r => render_ok s e toks shown && build_ok pa pe tbl (toks ++ [TOther; TEnd]) r
  | KLegal e b => eqb (legal e) b
  | KLit n s k => numkind_eqb (lit_kind n s) k
  | KLitVal s v => is_int_lit s && N.eqb (lit_int_value s) v
  | KConcise ndec digits text => String.eqb (concise_text ndec digits) text
  end.
