(** Model/Format.v — executable model of pint's unit / quantity formatting
    (pint/delegates/formatter/{_compound_unit_helpers,_format_helpers,_spec_helpers,plain,html,
    latex,full}.py).  Definitions only.  The per-format keyword arguments of [formatter(...)],
    the superscript table, [dim_order] and the formatter dispatch table are regenerated from the
    source by T7 (Gen/FormatParams.v). *)
From Coq Require Import Ascii String.
From stdpp Require Import sorting.
From PintV Require Import Model.UC Model.Eval Model.Registry.
From PintV Require Export Gen.FormatParams.
Open Scope string_scope.

(** * Exponents as Python holds them.  The numeric kind decides how [{:n}] renders (or rejects)
    the value, so it is part of the model's input. *)
Inductive expo :=
| XInt (z : Z)            (* int *)
| XFloat (q : Qc)         (* float: its exact (dyadic) value *)
| XDec (m e : Z)          (* decimal.Decimal: signed coefficient and exponent, value m·10^e *)
| XFrac (q : Qc).         (* fractions.Fraction *)

Definition xval (x : expo) : Qc :=
  match x with
  | XInt z => Q2Qc (inject_Z z)
  | XFloat q | XFrac q => q
  | XDec m e => (Q2Qc (inject_Z m) * pow10 e)%Qc
  end.
Definition qneg (q : Qc) : bool := bool_decide (q < 0)%Qc.
Definition qabs (q : Qc) : Qc := if qneg q then (- q)%Qc else q.
Definition xabs (x : expo) : expo :=
  match x with
  | XInt z => XInt (Z.abs z)
  | XFloat q => XFloat (qabs q)
  | XDec m e => XDec (Z.abs m) e
  | XFrac q => XFrac (qabs q)
  end.

(** * Decimal digits *)
Definition digit_char (d : Z) : ascii := ascii_of_N (Z.to_N (48 + d)).
Fixpoint digits_go (fuel : nat) (n : Z) (acc : string) : string :=
  match fuel with
  | O => acc
  | S f => let acc' := String (digit_char (n mod 10)) acc in
           if (n <? 10)%Z then acc' else digits_go f (n / 10) acc'
  end.
Definition show_pos (n : Z) : string := digits_go (S (Z.to_nat (Z.log2 n))) n "".
Definition show_Z (n : Z) : string := if (n <? 0)%Z then "-" ++ show_pos (- n) else show_pos n.
Fixpoint zeros (n : nat) : string := match n with O => "" | S k => String "0" (zeros k) end.
(** [s.rstrip("0")] *)
Fixpoint rstrip0 (s : string) : string :=
  match s with
  | EmptyString => EmptyString
  | String c s' => let r := rstrip0 s' in
                   if String.eqb r "" && Ascii.eqb c "0" then EmptyString else String c r
  end.
Definition is_digit (c : ascii) : bool := match digit_of c with Some _ => true | None => false end.

(** * ['{:n}'.format(x)] *)
Definition round_half_even (num d : Z) : Z :=
  let q := (num / d)%Z in let r := (num mod d)%Z in
  if (2 * r <? d)%Z then q else if (d <? 2 * r)%Z then (q + 1)%Z
  else if Z.even q then q else (q + 1)%Z.
(** bring n/d into [1, 10) keeping n/d·10^e fixed *)
Fixpoint norm10 (fuel : nat) (n d e : Z) : Z * Z * Z :=
  match fuel with
  | O => (n, d, e)
  | S f => if (n <? d)%Z then norm10 f (n * 10)%Z d (e - 1)%Z
           else if (10 * d <=? n)%Z then norm10 f n (d * 10)%Z (e + 1)%Z
           else (n, d, e)
  end.
(** float, type 'n' = 'g' with precision 6 in the C locale; [q > 0] *)
Definition fmt_g6 (q : Qc) : string :=
  let n := Qnum (this q) in let d := Zpos (Qden (this q)) in
  let '(n', d', e) := norm10 (Z.to_nat (Z.log2 n + Z.log2 d) + 2) n d 0%Z in
  let m := round_half_even (n' * 100000) d' in
  let '(m, e) := if (1000000 <=? m)%Z then (100000%Z, (e + 1)%Z) else (m, e) in
  let ds := rstrip0 (show_pos m) in
  if (e <? -4)%Z || (6 <=? e)%Z then
    let mant := match ds with
                | String c EmptyString => ds
                | String c rest => String c ("." ++ rest)
                | EmptyString => "0" end in
    let ae := Z.abs e in
    mant ++ "e" ++ (if (e <? 0)%Z then "-" else "+") ++ (if (ae <? 10)%Z then "0" else "") ++ show_pos ae
  else if (0 <=? e)%Z then
    let k := Z.to_nat (e + 1) in let len := String.length ds in
    if Nat.leb len k then ds ++ zeros (k - len)
    else substring 0 k ds ++ "." ++ substring k (len - k) ds
  else "0." ++ zeros (Z.to_nat (- e - 1)) ++ ds.
Definition fmt_float_n (q : Qc) : string :=
  if qz q then "0" else if qneg q then "-" ++ fmt_g6 (- q)%Qc else fmt_g6 q.
(** Decimal.__format__ with type 'n' (= 'g', no precision, C locale) *)
Definition fmt_dec_n (m e : Z) : string :=
  let ds := show_pos (Z.abs m) in
  let len := Z.of_nat (String.length ds) in
  let left := (e + len)%Z in
  let dot := if (e <=? 0)%Z && (-6 <? left)%Z then left else 1%Z in
  let '(ip, fp) :=
    if (dot <? 0)%Z then ("0", zeros (Z.to_nat (- dot)) ++ ds)
    else if (len <? dot)%Z then (ds ++ zeros (Z.to_nat (dot - len)), "")
    else let k := Z.to_nat dot in
         (let i := substring 0 k ds in if String.eqb i "" then "0" else i,
          substring k (String.length ds - k) ds) in
  let ex := (left - dot)%Z in
  (if (m <? 0)%Z then "-" else "") ++ ip ++ (if String.eqb fp "" then "" else "." ++ fp)
  ++ (if (ex =? 0)%Z then "" else "e" ++ (if (ex <? 0)%Z then "-" else "+") ++ show_pos (Z.abs ex)).
(** * Defect switches (DESIGN §2.6).  [as_found] is the unchanged tree; the harness selects the
    values that reproduce the implementation's behaviour on the witnesses. *)
Record quirks := Quirks {
  q_frac_n_rejected : bool;   (* F18: '{:n}'.format(Fraction) raises ValueError (Python 3.12) *)
  q_si_strip_any : bool }.    (* F4: siunitx strips every prefix name a unit name starts with *)
Definition as_found : quirks := Quirks true true.
Definition repaired : quirks := Quirks false false.

(** F18 repaired: a Fraction exponent is rendered as the integer it equals, else like the float *)
Definition fmt_frac (q : Qc) : string :=
  if is_int q then show_Z (Qnum (this q)) else fmt_float_n q.
(** [None]: Python 3.12's [Fraction.__format__] rejects type 'n' (ValueError) — F18 *)
Definition fmt_n (qk : quirks) (x : expo) : option string :=
  match x with
  | XInt z => Some (show_Z z)
  | XFloat q => Some (fmt_float_n q)
  | XDec m e => Some (fmt_dec_n m e)
  | XFrac q => if q_frac_n_rejected qk then None else Some (fmt_frac q)
  end.
Definition x_renderable (qk : quirks) (x : expo) : bool :=
  match x with XFrac _ => negb (q_frac_n_rejected qk) | _ => true end.
Definition fmt_n_str (qk : quirks) (x : expo) : string := default "" (fmt_n qk x).

(** ['{:.3f}'.format(q)], [q ≥ 0] (float, Decimal and Fraction all round half-even on the exact value) *)
Definition fmt_3f (q : Qc) : string :=
  let m := round_half_even (Qnum (this q) * 1000) (Zpos (Qden (this q))) in
  let fp := show_pos (m mod 1000) in
  show_pos (m / 1000) ++ "." ++ zeros (3 - String.length fp) ++ fp.

(** [pretty_fmt_exponent] after the number has been rendered: '-' ↦ '⁻', '.' ↦ U+22C5,
    digit n ↦ [_PRETTY_EXPONENTS[n]] *)
Fixpoint pretty_map (s : string) : string :=
  match s with
  | EmptyString => EmptyString
  | String c s' =>
      (if Ascii.eqb c "-" then "⁻" else if Ascii.eqb c "." then "⋅"
       else match digit_of c with
            | Some d => nth (Z.to_nat d) pretty_exponents (String c EmptyString)
            | None => String c EmptyString end) ++ pretty_map s'
  end.

(** * [str.format] templates with positional fields ([{}], [{0}], [{1}]); no escapes, no specs *)
Inductive piece := PLit (s : string) | PField (i : option nat).
Fixpoint nat_of_digits (s : string) (acc : nat) : option nat :=
  match s with
  | EmptyString => Some acc
  | String c s' => match digit_of c with Some d => nat_of_digits s' (acc * 10 + Z.to_nat d) | None => None end
  end.
Fixpoint parse_fmt_go (s : string) (lit : string) (fld : option string) : option (list piece) :=
  match s with
  | EmptyString => match fld with
                   | Some _ => None
                   | None => Some (if String.eqb lit "" then [] else [PLit lit]) end
  | String c s' =>
      match fld with
      | None =>
          if Ascii.eqb c "{" then
            match parse_fmt_go s' "" (Some "") with
            | Some ps => Some (if String.eqb lit "" then ps else PLit lit :: ps)
            | None => None end
          else if Ascii.eqb c "}" then None
          else parse_fmt_go s' (lit ++ String c EmptyString) None
      | Some d =>
          if Ascii.eqb c "}" then
            match (if String.eqb d "" then Some None else option_map Some (nat_of_digits d 0)),
                  parse_fmt_go s' "" None with
            | Some idx, Some ps => Some (PField idx :: ps)
            | _, _ => None end
          else if is_digit c then parse_fmt_go s' lit (Some (d ++ String c EmptyString))
          else None
      end
  end.
Definition parse_fmt (s : string) : option (list piece) := parse_fmt_go s "" None.
Fixpoint fill_go (ps : list piece) (args : list string) (auto : nat) : string :=
  match ps with
  | [] => ""
  | PLit s :: r => s ++ fill_go r args auto
  | PField None :: r => nth auto args "" ++ fill_go r args (S auto)
  | PField (Some i) :: r => nth i args "" ++ fill_go r args auto
  end.
Definition fill (ps : list piece) (args : list string) : string := fill_go ps args 0.
Definition is_field (p : piece) : bool := match p with PField _ => true | PLit _ => false end.
Definition has_field (ps : list piece) : bool := existsb is_field ps.
(** number of arguments the template consumes *)
Fixpoint arity_go (ps : list piece) (auto mx : nat) : nat :=
  match ps with
  | [] => Nat.max auto mx
  | PLit _ :: r => arity_go r auto mx
  | PField None :: r => arity_go r (S auto) mx
  | PField (Some i) :: r => arity_go r auto (Nat.max mx (S i))
  end.
Definition arity (ps : list piece) : nat := arity_go ps 0 0.
Definition lits (ps : list piece) : string :=
  String.concat "" (map (λ p, match p with PLit s => s | PField _ => "" end) ps).

(** [join_u]: a template with a replacement field is folded from the left, anything else is
    [fmt.join] *)
Definition join_p (ps : list piece) (l : list string) : string :=
  match l with
  | [] => ""
  | first :: rest =>
      if has_field ps then fold_left (λ acc v, fill ps [acc; v]) rest first
      else String.concat (lits ps) l
  end.

Record pparams := PParams {
  pp_as_ratio : bool; pp_single : bool;
  pp_product : list piece; pp_division : list piece; pp_power : list piece; pp_paren : list piece;
  pp_pretty : bool }.
Definition parse_params (p : fparams) : option pparams :=
  match parse_fmt (fp_product p), parse_fmt (fp_division p), parse_fmt (fp_power p), parse_fmt (fp_paren p) with
  | Some a, Some b, Some c, Some d =>
      if (negb (has_field a) || Nat.eqb (arity a) 2) && (negb (has_field b) || Nat.eqb (arity b) 2)
         && Nat.eqb (arity c) 2 && Nat.eqb (arity d) 1
      then Some (PParams (fp_as_ratio p) (fp_single_denominator p) a b c d (fp_exp_pretty p))
      else None
  | _, _, _, _ => None
  end.

(** * Layout trees *)
Inductive L :=
| Sym (s : string)
| Pow (l : L) (x : expo)
| Prod (ls : list L)
| Ratio (n : L) (ds : list L)       (* n / d1 / d2 / …   (as_ratio, not single_denominator) *)
| Frac (n d : L)                    (* n / (d)           (single_denominator) *)
| One.

(** what a layout denotes, given the meaning of the display strings *)
Fixpoint denoteL (den : string → uc) (l : L) : uc :=
  match l with
  | Sym s => den s
  | Pow l x => uc_pow (denoteL den l) (xval x)
  | Prod ls => fold_right (λ x acc, uc_mul (denoteL den x) acc) ∅ ls
  | Ratio n ds => fold_left (λ acc x, uc_div acc (denoteL den x)) ds (denoteL den n)
  | Frac n d => uc_div (denoteL den n) (denoteL den d)
  | One => ∅
  end.
(** long names denote themselves; the placeholder of the empty unit denotes the empty container *)
Definition den_name (s : string) : uc := if String.eqb s "dimensionless" then ∅ else {[ s := 1%Qc ]}.

Definition exp_str (qk : quirks) (pp : pparams) (x : expo) : string :=
  if pp_pretty pp then pretty_map (fmt_n_str qk x) else fmt_n_str qk x.

Fixpoint print_pp (qk : quirks) (pp : pparams) (wrap : string → string) (l : L) : string :=
  match l with
  | Sym s => wrap s
  | Pow l x => fill (pp_power pp) [print_pp qk pp wrap l; exp_str qk pp x]
  | Prod ls => join_p (pp_product pp) (map (print_pp qk pp wrap) ls)
  | Ratio n ds =>
      join_p (pp_division pp) [print_pp qk pp wrap n; join_p (pp_division pp) (map (print_pp qk pp wrap) ds)]
  | Frac n d =>
      let ds := match d with
                | Prod ds => let s := join_p (pp_product pp) (map (print_pp qk pp wrap) ds) in
                             if Nat.ltb 1 (length ds) then fill (pp_paren pp) [s] else s
                | _ => print_pp qk pp wrap d end in
      join_p (pp_division pp) [print_pp qk pp wrap n; ds]
  | One => "1"
  end.

(** * String helpers *)
Fixpoint str_contains (k s : string) : bool :=
  String.prefix k s || match s with EmptyString => false | String _ s' => str_contains k s' end.
Fixpoint replace_go (fuel : nat) (old new s : string) : string :=
  match fuel with
  | O => s
  | S f => match s with
           | EmptyString => EmptyString
           | String c s' =>
               if String.prefix old s then new ++ replace_go f old new (str_drop (String.length old) s)
               else String c (replace_go f old new s')
           end
  end.
(** [s.replace(old, new)] for a non-empty [old] *)
Definition str_replace (old new s : string) : string :=
  if String.eqb old "" then s else replace_go (S (String.length s)) old new s.
Fixpoint map_chars (f : ascii → string) (s : string) : string :=
  match s with EmptyString => EmptyString | String c s' => f c ++ map_chars f s' end.

(** [latex_escape]: the four substitutions act on disjoint characters and introduce none of
    the later ones, so they amount to one character map *)
Definition latex_escape_char (c : ascii) : string :=
  if Ascii.eqb c "\" then "\textbackslash "
  else if Ascii.eqb c "~" then "\textasciitilde "
  else if Ascii.eqb c "^" then "\textasciicircum "
  else if existsb (Ascii.eqb c) ["&"; "%"; "$"; "#"; "_"; "{"; "}"]%char then String "\" (String c EmptyString)
  else String c EmptyString.
Definition latex_wrap (s : string) : string := "\mathrm{" ++ map_chars latex_escape_char s ++ "}".
Definition latex_brackets (s : string) : string :=
  map_chars (λ c, if Ascii.eqb c "[" then "{" else if Ascii.eqb c "]" then "}" else String c EmptyString) s.

(** * [prepare_compount_unit] *)
Definition items := list (string * expo).
Inductive sortf :=
| SortNone                                   (* default_sort_func = None: dict order *)
| SortUnitName | SortDisplay
| SortDim (keys : list (string * nat)).      (* unit name ↦ index of its dimension in dim_order *)

Definition dtriple := (string * expo * string)%type.   (* display, exponent, unit name *)
Definition leb_name (a b : dtriple) : bool := String.leb a.2 b.2.
Definition leb_disp (a b : dtriple) : bool :=
  match String.compare a.1.1 b.1.1 with
  | Lt => true | Gt => false
  | Eq => if bool_decide (xval a.1.2 = xval b.1.2) then String.leb a.2 b.2
          else bool_decide (xval a.1.2 < xval b.1.2)%Qc
  end.
Definition dim_key (keys : list (string * nat)) (n : string) : nat := default 0%nat (assoc n keys).
Definition leb_dim (keys : list (string * nat)) (a b : dtriple) : bool :=
  let ka := dim_key keys a.2 in let kb := dim_key keys b.2 in
  Nat.ltb ka kb || (Nat.eqb ka kb && String.leb a.2 b.2).
Definition brel {A} (f : A → A → bool) : relation A := λ a b, f a b = true.
Global Instance brel_dec {A} (f : A → A → bool) a b : Decision (brel f a b).
Proof. unfold brel. apply _. Defined.
Definition sort_triples (sf : sortf) (l : list dtriple) : list dtriple :=
  match sf with
  | SortNone => l
  | SortUnitName => merge_sort (brel leb_name) l
  | SortDisplay => merge_sort (brel leb_disp) l
  | SortDim keys => merge_sort (brel (leb_dim keys)) l
  end.

Fixpoint mapM_res {A B} (f : A → res B) (l : list A) : res (list B) :=
  match l with
  | [] => Ok []
  | a :: l' => b ←r f a; bs ←r mapM_res f l'; Ok (b :: bs)
  end.
(** [registry._get_symbol(name)] = [_units[name].symbol]; names in a unit built by the registry
    have been through [get_name], which registers prefixed ones *)
Definition display (r : reg) (short : bool) (name : string) : res string :=
  if short then match resolve r name with Ok d => Ok (u_symbol d) | Err _ => Err EKey end
  else Ok name.
Definition extract2 (t : dtriple) : string * expo := t.1.
Definition prepare (r : reg) (short as_ratio : bool) (sf : sortf) (its : items)
  : res (list (string * expo) * list (string * expo)) :=
  match its with
  | [] => if short then Ok ([], []) else Ok ([("dimensionless", XInt 1)], [])
  | _ =>
      tr ←r mapM_res (λ nx : string * expo, d ←r display r short nx.1; Ok (d, nx.2, nx.1)) its;
      let neg := if as_ratio then List.filter (λ t : dtriple, qneg (xval t.1.2)) tr else [] in
      let pos := if as_ratio then List.filter (λ t : dtriple, negb (qneg (xval t.1.2))) tr else tr in
      Ok (map extract2 (sort_triples sf pos), map extract2 (sort_triples sf neg))
  end.

(** * [formatter]: the layout *)
Definition pos_term (as_ratio : bool) (t : string * expo) : L :=
  if bool_decide (xval t.2 = 1%Qc) then Sym t.1
  else Pow (Sym t.1) (if as_ratio then xabs t.2 else t.2).
Definition neg_term (as_ratio : bool) (t : string * expo) : L :=
  if bool_decide (xval t.2 = (-1)%Qc) && as_ratio then Sym t.1
  else Pow (Sym t.1) (if as_ratio then xabs t.2 else t.2).
Definition assemble (as_ratio single : bool) (pos neg : list L) : L :=
  if negb as_ratio then Prod (pos ++ neg)%list
  else match neg with
       | [] => Prod pos
       | _ => let n := match pos with [] => One | _ => Prod pos end in
              if single then Frac n (Prod neg) else Ratio n neg
       end.
Definition layout_terms (as_ratio single : bool) (pos neg : list (string * expo)) : L :=
  assemble as_ratio single (map (pos_term as_ratio) pos) (map (neg_term as_ratio) neg).
(** exponents the number formatter is asked to render *)
Definition rendered (as_ratio : bool) (pos neg : list (string * expo)) : list expo :=
  (map snd (List.filter (λ t : string * expo, negb (bool_decide (xval t.2 = 1%Qc))) pos)
   ++ map snd (List.filter (λ t : string * expo, negb (bool_decide (xval t.2 = (-1)%Qc) && as_ratio)) neg))%list.
Definition layout (qk : quirks) (r : reg) (as_ratio single short : bool) (sf : sortf) (its : items) : res L :=
  ' (pos, neg) ←r prepare r short as_ratio sf its;
  if forallb (x_renderable qk) (rendered as_ratio pos neg) then Ok (layout_terms as_ratio single pos neg)
  else Err EValue.

(** * siunitx, as coded: every prefix *name* that the (remaining) unit name starts with is
    stripped, in the order of [registry._prefixes]; only the last one stripped is kept (F4) *)
Definition si_strip (r : reg) (name : string) : option string * string :=
  fold_left (λ (st : option string * string) key,
    match r_prefixes r !! key with
    | Some pd =>
        let p := p_name pd in
        if negb (String.eqb p "") && String.prefix p st.2
        then (Some p, str_drop (String.length p) st.2) else st
    | None => st
    end) (r_prefix_keys r) (None, name).
(** what an siunitx item denotes: [\prefix\unit] is the unit [prefix ++ unit] provided [\unit]
    is a unit of the registry (a macro siunitx knows), [prefix] a prefix name, and together they
    spell the original name *)
Definition is_unit_name (r : reg) (s : string) : bool :=
  match r_units r !! s with Some d => String.eqb (u_name d) s | None => false end.
Definition is_prefix_name (r : reg) (s : string) : bool :=
  negb (String.eqb s "") &&
  existsb (λ key, match r_prefixes r !! key with Some d => String.eqb (p_name d) s | None => false end)
          (r_prefix_keys r).
(** F4 repaired: strip a prefix only when the remainder is a defined unit *)
Definition si_strip_fixed (r : reg) (name : string) : option string * string :=
  match List.find (λ key, match r_prefixes r !! key with
                          | Some pd => let p := p_name pd in
                                       negb (String.eqb p "") && String.prefix p name
                                       && is_unit_name r (str_drop (String.length p) name)
                          | None => false end) (r_prefix_keys r) with
  | Some key => match r_prefixes r !! key with
                | Some pd => (Some (p_name pd), str_drop (String.length (p_name pd)) name)
                | None => (None, name) end
  | None => (None, name)
  end.

Definition si_split (qk : quirks) (r : reg) (name : string) : option string * string :=
  if q_si_strip_any qk then si_strip r name else si_strip_fixed r name.
Definition si_tothe (x : expo) : string :=
  let q := xval x in
  if is_int q then
    let n := Qnum (this q) in
    if (n =? 1)%Z then "" else if (n =? 2)%Z then "\squared" else if (n =? 3)%Z then "\cubed"
    else "\tothe{" ++ show_Z n ++ "}"
  else rstrip0 ("\tothe{" ++ fmt_3f q ++ "}").
Definition si_one (qk : quirks) (r : reg) (nx : string * expo) : string :=
  let '(p, u) := si_split qk r nx.1 in
  (if qneg (xval nx.2) then "\per" else "")
  ++ (match p with Some p => "\" ++ p | None => "" end) ++ "\" ++ u ++ si_tothe (xabs nx.2).
Definition leb_item (a b : string * expo) : bool :=
  match String.compare a.1 b.1 with
  | Lt => true | Gt => false
  | Eq => bool_decide (xval a.2 <= xval b.2)%Qc end.
Definition siunitx_format_unit (qk : quirks) (r : reg) (its : items) : string :=
  let s := merge_sort (brel leb_item) its in
  String.concat "" (map (si_one qk r) (List.filter (λ nx : string * expo, negb (qneg (xval nx.2))) s))
  ++ String.concat "" (map (si_one qk r) (List.filter (λ nx : string * expo, qneg (xval nx.2)) s)).

(** [\prefix\unit] is the unit [prefix ++ unit] provided [\unit] is a unit of the registry (a macro
    siunitx knows), [prefix] a prefix name, and together they spell the original name *)
Definition si_ok (qk : quirks) (r : reg) (name : string) : bool :=
  let '(p, u) := si_split qk r name in
  String.eqb (default "" p ++ u) name && is_unit_name r u
  && match p with Some p => is_prefix_name r p | None => true end.
Definition si_denote (qk : quirks) (r : reg) (its : items) : option uc :=
  if forallb (λ nx : string * expo, si_ok qk r nx.1) its
  then Some (list_to_map (map (λ nx : string * expo, let '(p, u) := si_split qk r nx.1 in (default "" p ++ u, xval nx.2)) its))
  else None.
(** * Format specs: custom flags, [split_format], dispatch *)
(** REGISTERED_FORMATTERS keys, longest first (stable), as [extract/remove_custom_flags] use them *)
Fixpoint insert_by_len (k : string) (l : list string) : list string :=
  match l with
  | [] => [k]
  | x :: l' => if Nat.ltb (String.length x) (String.length k) then k :: l else x :: insert_by_len k l'
  end.
Definition known_flags : list string :=
  fold_left (λ acc k, insert_by_len k acc) (map fst formatter_order) [].
Definition remove_custom_flags (spec : string) : string :=
  fold_left (λ s flag, if String.eqb flag "" then s else str_replace flag "" s) (known_flags ++ ["~"])%list spec.
(** one left-to-right scan with the alternation [(flag1|flag2|…|~)]: returns (matched flags, rest) *)
Fixpoint scan_flags (fuel : nat) (flags : list string) (s : string) : string * string :=
  match fuel with
  | O => ("", s)
  | S f =>
      match s with
      | EmptyString => ("", "")
      | String c s' =>
          match List.find (λ k, negb (String.eqb k "") && String.prefix k s) flags with
          | Some k => let '(u, m) := scan_flags f flags (str_drop (String.length k) s) in (k ++ u, m)
          | None => let '(u, m) := scan_flags f flags s' in (u, String c m)
          end
      end
  end.
Definition extract_custom_flags (spec : string) : string :=
  (scan_flags (S (String.length spec)) (known_flags ++ ["~"])%list spec).1.
Definition scan_remove (spec : string) : string :=
  (scan_flags (S (String.length spec)) (known_flags ++ ["~"])%list spec).2.
(** the region where the sequential [str.replace] passes agree with the single scan *)
Definition flags_regular (spec : string) : bool := String.eqb (remove_custom_flags spec) (scan_remove spec).

(** [separate_format_defaults]: None / Some false / Some true *)
Definition split_format (spec default : string) (sep : option bool) : string * string :=
  let mspec := remove_custom_flags spec in let uspec := extract_custom_flags spec in
  let dm := remove_custom_flags default in let du := extract_custom_flags default in
  match sep with
  | Some true => (if String.eqb mspec "" then dm else mspec, if String.eqb uspec "" then du else uspec)
  | _ => if String.eqb spec "" then (dm, du) else (mspec, uspec)
  end.

Inductive fmtid := FD | FC | FP | FH | FL | FLx | FRaw.
Definition fmtid_of_class (c : string) : option fmtid :=
  if String.eqb c "DefaultFormatter" then Some FD else if String.eqb c "CompactFormatter" then Some FC
  else if String.eqb c "PrettyFormatter" then Some FP else if String.eqb c "HTMLFormatter" then Some FH
  else if String.eqb c "LatexFormatter" then Some FL else if String.eqb c "SIunitxFormatter" then Some FLx
  else if String.eqb c "RawFormatter" then Some FRaw else None.
(** [FullFormatter.get_formatter]: the first registered key contained in the spec *)
Definition get_formatter (spec : string) : fmtid :=
  if String.eqb spec "" then FD
  else match List.find (λ kc : string * string, str_contains kc.1 spec) formatter_order with
       | Some kc => default FD (fmtid_of_class kc.2)
       | None => FD
       end.
Definition fp_of (f : fmtid) : fparams :=
  match f with FD => fp_D | FC => fp_C | FP => fp_P | FH => fp_H | FL => fp_L | _ => fp_default end.

(** the per-class [format_unit] *)
Definition format_unit_with (qk : quirks) (r : reg) (f : fmtid) (uspec : string) (sf : sortf) (its : items) : res string :=
  let short := str_contains "~" uspec in
  match f with
  | FLx =>
      let s := siunitx_format_unit qk r its in
      Ok ("\si[]{" ++ (if short then str_replace "\percent" "\%" s else s) ++ "}")
  | FRaw => Err EOther
  | _ =>
      match parse_params (fp_of f) with
      | None => Err EOther
      | Some pp =>
          l ←r layout qk r (pp_as_ratio pp) (pp_single pp) short sf its;
          Ok (match f with
              | FL => latex_brackets (print_pp qk pp latex_wrap l)
              | _ => print_pp qk pp id l end)
      end
  end.

Record fcfg := FCfg { c_default : string; c_separate : option bool; c_sort : sortf }.
(** [FullFormatter.format_unit] = [format(unit, spec)], [str(unit)] *)
Definition full_format_unit (qk : quirks) (r : reg) (c : fcfg) (spec : string) (its : items) : res string :=
  let uspec := if String.eqb spec "" then c_default c else spec in
  format_unit_with qk r (get_formatter uspec) uspec (c_sort c) its.

(** * Magnitudes: Python's own [format(m, mspec)] is taken as given; the model does the
    exponent-notation rewriting with [_EXP_PATTERN]: digit, optional point, digits, 'e', optional
    '-', optional '+', leading zeros, digits. *)
Fixpoint span_digits (s : string) : string * string :=
  match s with
  | String c s' => if is_digit c then let '(d, r) := span_digits s' in (String c d, r) else ("", s)
  | EmptyString => ("", "")
  end.
Fixpoint strip_lead0 (s : string) : string :=      (* leading zeros of a digit run dropped, one digit kept: group 3 *)
  match s with
  | String c (String c' r as s') => if Ascii.eqb c "0" then strip_lead0 s' else s
  | _ => s
  end.
(** match at the head of [s]: (group1, group2, group3, rest) *)
Definition exp_match (s : string) : option (string * string * string * string) :=
  match s with
  | String c s1 =>
      if is_digit c then
        let '(dot, s2) := match s1 with String "."%char t => (".", t) | _ => ("", s1) end in
        let '(ds, s3) := span_digits s2 in
        match s3 with
        | String "e"%char s4 =>
            let '(g2, s5) := match s4 with String "-"%char t => ("-", t) | _ => ("", s4) end in
            let s6 := match s5 with String "+"%char t => t | _ => s5 end in
            let '(dd, rest) := span_digits s6 in
            if String.eqb dd "" then None else Some (String c (dot ++ ds), g2, strip_lead0 dd, rest)
        | _ => None
        end
      else None
  | EmptyString => None
  end.
Fixpoint exp_sub (fuel : nat) (repl : string → string → string → string) (s : string) : string :=
  match fuel with
  | O => s
  | S f => match s with
           | EmptyString => EmptyString
           | String c s' =>
               match exp_match s with
               | Some (g1, g2, g3, rest) => repl g1 g2 g3 ++ exp_sub f repl rest
               | None => String c (exp_sub f repl s')
               end
           end
  end.
(** [int(group2 + group3)] printed again *)
Definition exp_int (g2 g3 : string) : string := if String.eqb g3 "0" then "0" else g2 ++ g3.
Definition format_magnitude (f : fmtid) (mstr : string) : string :=
  let n := S (String.length mstr) in
  match f with
  | FP => match exp_match mstr with
          | Some (_, g2, g3, _) => exp_sub n (λ g1 _ _, g1 ++ "×10" ++ pretty_map (exp_int g2 g3)) mstr
          | None => mstr end
  | FH => match exp_match mstr with
          | Some (_, g2, g3, _) => exp_sub n (λ g1 _ _, g1 ++ "×10<sup>" ++ exp_int g2 g3 ++ "</sup>") mstr
          | None => mstr end
  | FL => exp_sub n (λ g1 g2 g3, g1 ++ "\times 10^{" ++ g2 ++ g3 ++ "}") mstr
  | _ => mstr
  end.
Definition join_mu (joint : list piece) (mstr ustr : string) : string :=
  if String.eqb ustr "" then mstr
  else if String.prefix "1 / " ustr then fill joint [mstr; str_drop 2 ustr]
  else fill joint [mstr; ustr].
Definition joint_of (f : fmtid) : list piece :=
  match f with
  | FL => [PField None; PLit "\ "; PField None]
  | FLx => [PField None; PField None]
  | _ => [PField None; PLit " "; PField None]
  end.
(** [FullFormatter.format_quantity] = [format(q, spec)], [str(q)].  [mstrs] maps a magnitude
    spec to what Python's [format(magnitude, mspec)] returns; [its] are the unit items of the
    quantity that is printed (after [to_compact] when the spec carries '#'). *)
Definition full_format_quantity (qk : quirks) (r : reg) (c : fcfg) (spec : string) (mstrs : list (string * string))
    (its : items) : res string :=
  let spec := if String.eqb spec "" then c_default c else spec in
  let spec := str_replace "#" "" spec in
  let f := get_formatter spec in
  let '(mspec, uspec) := split_format spec (c_default c) (c_separate c) in
  match assoc mspec mstrs with
  | None => Err EOther
  | Some mstr =>
      ustr ←r format_unit_with qk r f uspec (c_sort c) its;
      let m := format_magnitude f mstr in
      Ok (match f with
          | FLx => "\SI[]" ++ join_mu (joint_of f) ("{" ++ m ++ "}") (str_drop 5 ustr)
          | _ => join_mu (joint_of f) m ustr
          end)
  end.

(** * The inverse direction at token level: what the tree builder and the ParserHelper algebra
    make of the tokens a plain format emits *)
Definition term_tokens (qk : quirks) (l : L) : list tok :=
  match l with
  | Sym s => [TName s]
  | Pow (Sym s) x => [TName s; TOp "**"; TNum (fmt_n_str qk x)]
  | One => [TNum "1"]
  | _ => [TOther]
  end.
Fixpoint prod_tokens (qk : quirks) (ls : list L) : list tok :=
  match ls with
  | [] => []
  | [t] => term_tokens qk t
  | t :: ls' => (term_tokens qk t ++ TOp "*" :: prod_tokens qk ls')%list
  end.
Definition layout_tokens (qk : quirks) (l : L) : list tok :=
  match l with
  | Prod ls => prod_tokens qk ls
  | Ratio n ds =>
      ((match n with Prod ls => prod_tokens qk ls | _ => term_tokens qk n end)
       ++ flat_map (λ d, TOp "/" :: term_tokens qk d) ds)%list
  | _ => term_tokens qk l
  end.
(** [_parse_units_as_container] after tokenising: names are resolved with [get_name];
    a non-multiplicative unit becomes its delta_ counterpart unless it stands alone with exponent 1 *)
Definition resolve_names (r : reg) (d : uc) : res uc :=
  let l := map_to_list d in
  let many := Nat.ltb 1 (length l) in
  foldM (λ acc kv,
    let '(name, v) := kv in
    cname ←r get_name r name;
    if String.eqb cname "" then Ok acc else
    let cname' := if many || negb (bool_decide (v = 1%Qc))
                  then match r_units r !! cname with
                       | Some df => if u_multiplicative df then cname else "delta_" ++ cname
                       | None => cname end
                  else cname in
    Ok (uc_add acc cname' v)) l ∅.
(** When a non-integer power was involved ([fl]) the scale is a float the Eval model does not
    track; the token lists considered here contain no number but 1 and exponents, so it is 1.0. *)
Definition parse_units_tokens (r : reg) (toks : list tok) : res uc :=
  ' (p, fl) ←r ph_from_tokens toks;
  if negb fl && negb (bool_decide (ph_scale p = 1%Qc)) then Err EValue else resolve_names r (ph_d p).

(** "its exponent is rendered exactly": the number the plain formats print for [|x|] is read back
    by the parser as [|x|] (decided by the model; K compares it with Python on every exponent) *)
Definition exact_renderedb (qk : quirks) (x : expo) : bool :=
  match parse_number (fmt_n_str qk (xabs x)) with
  | Some q => bool_decide (q = xval (xabs x))
  | None => false
  end.

(** the container a list of items stands for *)
Definition uc_of (its : items) : uc := list_to_map (map (λ nx : string * expo, (nx.1, xval nx.2)) its).
Definition items_wf (its : items) : Prop :=
  NoDup (map fst its) ∧ Forall (λ nx : string * expo, xval nx.2 ≠ 0%Qc) its.
Definition items_wfb (its : items) : bool :=
  bool_decide (NoDup (map fst its)) && forallb (λ nx : string * expo, negb (qz (xval nx.2))) its.
