(** Model/FormatRun.v — correspondence cases for the formatting layer (C09): each case carries
    what pint returned; [c09_ok] says whether the model returns the same. *)
From PintV Require Import Model.UC Model.Eval Model.Registry Model.Format Model.UCRun.
Open Scope string_scope.

(** outcome of a formatting call: the string, or the class of the exception *)
Inductive fres := FOk (s : string) | FKeyErr | FValueErr | FOtherErr.
Definition fres_of (x : res string) : fres :=
  match x with
  | Ok s => FOk s
  | Err EKey => FKeyErr
  | Err EValue => FValueErr
  | Err _ => FOtherErr
  end.
Definition fres_eqb (a b : fres) : bool :=
  match a, b with
  | FOk x, FOk y => String.eqb x y
  | FKeyErr, FKeyErr | FValueErr, FValueErr | FOtherErr, FOtherErr => true
  | _, _ => false
  end.

Inductive c09case :=
| KUnit (c : fcfg) (spec : string) (its : items) (expected : fres)          (* format(unit, spec) *)
| KUnitMany (c : fcfg) (its : items) (expected : list (string * fres))            (* the same unit under several specs *)
| KQty (c : fcfg) (spec : string) (mstrs : list (string * string)) (its : items) (expected : fres)
                                                                            (* format(quantity, spec) *)
| KSplit (spec dflt : string) (sep : option bool) (m u : string)            (* split_format *)
| KFlags (spec removed extracted : string)                                  (* remove/extract_custom_flags *)
| KExpN (x : expo) (expected : option string)                               (* '{:n}'.format(x) *)
| KExact (x : expo) (expected : bool)                                        (* is '{:n}' of |x| read back as |x|? *)
| KSi (its : items) (expected : string)                                     (* siunitx_format_unit *)
| KBack (f : fmtid) (short : bool) (its : items) (expected : option uc)     (* parse_units(format(u, spec)) *)
| KDimKey (name : string) (idx : nat).                                      (* sort_by_dimensionality's key *)

(** the index pint used for [name] is the [dim_order] position of one of its dimensions *)
Fixpoint index_of (s : string) (l : list string) (i : nat) : option nat :=
  match l with [] => None | x :: l' => if String.eqb x s then Some i else index_of s l' (S i) end.
Definition dimkey_ok (r : reg) (name : string) (idx : nat) : bool :=
  match dim_of r {[ name := 1%Qc ]} with
  | Ok d =>
      let ks := match map fst (map_to_list d) with [] => ["[]"] | l => l end in
      existsb (λ k, match index_of k dim_order 0 with Some i => Nat.eqb i idx | None => false end) ks
  | Err _ => false
  end.

Definition back (qk : quirks) (r : reg) (f : fmtid) (short : bool) (its : items) : res uc :=
  match parse_params (fp_of f) with
  | None => Err EOther
  | Some pp =>
      l ←r layout qk r (pp_as_ratio pp) (pp_single pp) short SortUnitName its;
      parse_units_tokens r (layout_tokens qk l ++ [TEnd])
  end.

Definition c09_ok (qk : quirks) (r : reg) (c : c09case) : bool :=
  match c with
  | KUnit cf spec its e => fres_eqb (fres_of (full_format_unit qk r cf spec its)) e
  | KUnitMany cf its es =>
      forallb (λ se : string * fres, fres_eqb (fres_of (full_format_unit qk r cf se.1 its)) se.2) es
  | KQty cf spec ms its e => fres_eqb (fres_of (full_format_quantity qk r cf spec ms its)) e
  | KSplit spec d sep m u =>
      let '(m', u') := split_format spec d sep in String.eqb m m' && String.eqb u u'
  | KFlags spec rm ex => String.eqb (remove_custom_flags spec) rm && String.eqb (extract_custom_flags spec) ex
  | KExpN x e => opt_eqb String.eqb (fmt_n as_found x) e      (* Python's own '{:n}', whatever pint does with it *)
  | KExact x e => Bool.eqb (exact_renderedb qk x) e
  | KSi its e => String.eqb (siunitx_format_unit qk r its) e
  | KBack f short its e =>
      match back qk r f short its, e with
      | Ok u, Some u' => uc_eqb u u'
      | Err _, None => true
      | _, _ => false
      end
  | KDimKey n i => dimkey_ok r n i
  end.
