(** Model/Grammar.v — Spec side of C07: expression syntax with Python's precedence rules.
    Definitions only (no proofs).  Nothing here refers to pint's parser: [lvl], [wfp],
    [needs_par] are Python's grammar

      sum    : sum ('+'|'-') term | term
      term   : term ('*'|'/'|'//'|'%'|<juxtaposition>) factor | factor
      factor : ('+'|'-') factor | power
      power  : primary ('**'|'^') factor | primary
      primary: NUMBER | NAME | '(' sum ')'

    written with precedence levels.  [render] produces the token list of Model/Eval.v. *)
From PintV Require Import Model.UC Model.Eval.
Open Scope string_scope.

(** binary operators; [OCaret] is the spelling [^] of [**] (both are in pint's table),
    [OJuxt] is implicit multiplication by juxtaposition *)
Inductive bop := OAdd | OSub | OMul | ODiv | OFloor | OMod | OPow | OCaret | OJuxt.
Global Instance bop_eq_dec : EqDecision bop.
Proof. solve_decision. Defined.

(** expression trees.  [Par] is an explicit parenthesised group of the concrete syntax; an
    abstract expression is a [Par]-free tree ([strip] erases the groups). *)
Inductive expr :=
| Num (s : string) | Name (s : string)
| Neg (e : expr) | Pos (e : expr)
| Bin (o : bop) (l r : expr)
| Par (e : expr).

Fixpoint strip (e : expr) : expr :=
  match e with
  | Num s => Num s | Name s => Name s
  | Neg x => Neg (strip x) | Pos x => Pos (strip x)
  | Bin o l r => Bin o (strip l) (strip r)
  | Par x => strip x
  end.
Fixpoint par_free (e : expr) : bool :=
  match e with
  | Num _ | Name _ => true
  | Neg x | Pos x => par_free x
  | Bin _ l r => par_free l && par_free r
  | Par _ => false
  end.

Definition opstr (o : bop) : string :=
  match o with
  | OAdd => "+" | OSub => "-" | OMul => "*" | ODiv => "/" | OFloor => "//" | OMod => "%"
  | OPow => "**" | OCaret => "^" | OJuxt => ""
  end.
Definition is_pow (o : bop) : bool := match o with OPow | OCaret => true | _ => false end.

(** Python's precedence levels: 0 sum, 1 term, 2 factor (unary sign), 3 power, 4 primary *)
Definition olvl (o : bop) : nat :=
  match o with OAdd | OSub => 0 | OMul | ODiv | OFloor | OMod | OJuxt => 1 | OPow | OCaret => 3 end.
Definition lvl (e : expr) : nat :=
  match e with
  | Num _ | Name _ | Par _ => 4
  | Neg _ | Pos _ => 2
  | Bin o _ _ => olvl o
  end.

(** the first token of the rendering is a NUMBER or NAME (what a juxtaposed right operand
    must start with to be lexically a juxtaposition) *)
Fixpoint starts_atom (e : expr) : bool :=
  match e with
  | Num _ | Name _ => true
  | Bin _ l _ => starts_atom l
  | Neg _ | Pos _ | Par _ => false
  end.

(** [wfp e]: the concrete tree [e] is a derivation of Python's grammar above, i.e. every
    operand that Python would need parenthesised is a [Par]; and a juxtaposed right operand
    starts with a NUMBER/NAME token (in particular it is never a parenthesised group: that
    is the region of finding F16). *)
Fixpoint wfp (e : expr) : bool :=
  match e with
  | Num _ | Name _ => true
  | Par x => wfp x
  | Neg x | Pos x => wfp x && Nat.leb 2 (lvl x)
  | Bin o l r =>
      wfp l && wfp r &&
      (if is_pow o then Nat.eqb (lvl l) 4 && Nat.leb 2 (lvl r)
       else Nat.leb (olvl o) (lvl l) && Nat.ltb (olvl o) (lvl r)) &&
      (if bool_decide (o = OJuxt) then starts_atom r else true)
  end.

(** * Rendering *)
Definition optok (o : bop) : list tok :=
  match o with OJuxt => [] | _ => [TOp (opstr o)] end.
Fixpoint render_cst (e : expr) : list tok :=
  match e with
  | Num s => [TNum s]
  | Name s => [TName s]
  | Neg x => TOp "-" :: render_cst x
  | Pos x => TOp "+" :: render_cst x
  | Bin o l r => render_cst l ++ optok o ++ render_cst r
  | Par x => TOp "(" :: render_cst x ++ [TOp ")"]
  end.

(** the tree pint's builder is expected to produce (token texts kept in the leaves) *)
Fixpoint tree_of (e : expr) : tree :=
  match e with
  | Num s => Leaf (TNum s)
  | Name s => Leaf (TName s)
  | Neg x => Un "-" (tree_of x)
  | Pos x => Un "+" (tree_of x)
  | Bin o l r => Eval.Bin (opstr o) (tree_of l) (tree_of r)
  | Par x => tree_of x
  end.

(** parenthesis styles: the minimal set Python needs, or every compound operand *)
Inductive style := SMin | SFull.
Inductive position := PUn | PLeft (o : bop) | PRight (o : bop).
Definition needs_par (p : position) (e : expr) : bool :=
  match p with
  | PUn => Nat.ltb (lvl e) 2
  | PLeft o => if is_pow o then Nat.ltb (lvl e) 4 else Nat.ltb (lvl e) (olvl o)
  | PRight o => if is_pow o then Nat.ltb (lvl e) 2 else Nat.leb (lvl e) (olvl o)
  end.
Definition wrap (s : style) (p : position) (orig e' : expr) : expr :=
  let redundant := match s, p with
                   | SFull, PRight OJuxt => false     (* never "x (…)": F16 *)
                   | SFull, _ => Nat.ltb (lvl orig) 4
                   | SMin, _ => false
                   end in
  if needs_par p orig || redundant then Par e' else e'.
Fixpoint parenthesize (s : style) (e : expr) : expr :=
  match e with
  | Num _ | Name _ => e
  | Neg x => Neg (wrap s PUn x (parenthesize s x))
  | Pos x => Pos (wrap s PUn x (parenthesize s x))
  | Bin o l r => Bin o (wrap s (PLeft o) l (parenthesize s l)) (wrap s (PRight o) r (parenthesize s r))
  | Par x => Par (parenthesize s x)
  end.
Definition render (s : style) (e : expr) : list tok := render_cst (parenthesize s e).

(** lexically legal juxtapositions: the right operand of a juxtaposition is a NUMBER/NAME or
    a power whose base is a NUMBER/NAME ("2 m**2"); anything else would have to be written
    with a parenthesised group directly after the left operand (F16) or with a sign, which
    reads as a binary operator. *)
Definition is_leaf (e : expr) : bool := match e with Num _ | Name _ => true | _ => false end.
Definition juxt_right_ok (r : expr) : bool :=
  match r with
  | Num _ | Name _ => true
  | Bin o l _ => is_pow o && is_leaf l
  | _ => false
  end.
Fixpoint legal (e : expr) : bool :=
  match e with
  | Num _ | Name _ => true
  | Neg x | Pos x | Par x => legal x
  | Bin o l r => legal l && legal r &&
                 (if bool_decide (o = OJuxt) then juxt_right_ok r else true)
  end.

(** number of tokens *)
Fixpoint ntok (e : expr) : nat :=
  match e with
  | Num _ | Name _ => 1
  | Neg x | Pos x => S (ntok x)
  | Bin o l r => ntok l + length (optok o) + ntok r
  | Par x => S (S (ntok x))
  end.
Fixpoint leaves (e : expr) : nat :=
  match e with
  | Num _ | Name _ => 1
  | Neg x | Pos x | Par x => leaves x
  | Bin _ l r => leaves l + leaves r
  end.

