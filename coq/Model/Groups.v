(** Model/Groups.v — executable model of pint's unit groups
    (pint/facets/group/objects.py [Group], pint/facets/group/registry.py).  Definitions only.

    A group has its own unit names, the names of the groups it uses, the names of the groups
    that use it, and a memo of its computed members ([None] = invalidated).  The registry
    maps group names to groups ([_groups]).  Python sets are [gset string]; the only place
    where pint's set iteration order could be observed is which argument of a failing
    multi-argument edit fails first, and that is the argument order (a tuple). *)
From stdpp Require Export gmap strings sets.
From PintV Require Import Model.UC Model.Eval Model.Registry.
Open Scope string_scope.

Notation sset := (gset string).

(** Every deviation of pint from property C14 sits behind a boolean (DESIGN.md §2.6):
      F10 [q_sys_memo_stale]  [System.members] is memoised and no group edit invalidates it
      F11 [q_inv_exponent]    [new:old] rules are inverted with [-1/value] instead of [-value/value_old]
      F65 [q_selfloop]        the cycle check of [add_groups] does not see [group is self]
      F66 [q_partial_edit]    a failing multi-argument edit keeps its partial effect and skips
                              [invalidate_members]: the memo is stale
      F67 [q_cache_foreign]   [_base_units_cache] is written for queries with an explicit other system
      F68 [q_cache_none]      [default_system = None] does not clear [_base_units_cache]
    [faithful] is pint as it is; the property theorems hold in full for [repaired]. *)
Record quirks := QK {
  q_sys_memo_stale : bool; q_inv_exponent : bool; q_selfloop : bool;
  q_partial_edit : bool; q_cache_foreign : bool; q_cache_none : bool }.
Definition faithful : quirks := QK true true true true true true.
Definition repaired : quirks := QK false false false false false false.

Record group := Grp {
  g_units : sset;            (* _unit_names *)
  g_used : sset;             (* _used_groups *)
  g_used_by : sset;          (* _used_by *)
  g_memo : option sset }.    (* _computed_members *)
Notation gstate := (gmap string group).

Definition g_set_units (g : group) (u : sset) : group := Grp u (g_used g) (g_used_by g) (g_memo g).
Definition g_set_used (g : group) (u : sset) : group := Grp (g_units g) u (g_used_by g) (g_memo g).
Definition g_set_used_by (g : group) (u : sset) : group := Grp (g_units g) (g_used g) u (g_memo g).
Definition g_set_memo (g : group) (m : option sset) : group := Grp (g_units g) (g_used g) (g_used_by g) m.

(** The explicit bound of every walk: no walk over an acyclic graph visits more than
    [size st] distinct groups on one path (Proofs/GroupsProofs.v: [reach_fuel_enough]).
    Running out of fuel is pint's [RecursionError] (or a hang) on a cyclic graph. *)
Definition fuel_of (st : gstate) : nat := S (size st).

(** The two walks of the group graph — down through [_used_groups] ([iter_used_groups]) and up
    through [_used_by] ([invalidate_members]) — are the same recursion over a different edge set:
    the group itself and everything reachable from it.  [d[name]] is a KeyError for a missing
    name.  There is no visited set in pint: termination needs acyclicity. *)
Fixpoint reach (next : group → sset) (fuel : nat) (st : gstate) (n : string) : res sset :=
  match fuel with
  | O => Err EFuel
  | S f =>
      match st !! n with
      | None => Err EKey
      | Some g => foldM (λ acc m, s ←r reach next f st m; Ok (acc ∪ s)) (elements (next g)) {[ n ]}
      end
  end.
(** [iter_used_groups]: [pending = set(self._used_groups)]; pop; [pending |= group._used_groups] *)
Definition iter_used (st : gstate) (g : group) : res sset :=
  foldM (λ acc m, s ←r reach g_used (fuel_of st) st m; Ok (acc ∪ s)) (elements (g_used g)) ∅.

(** [is_used_group] *)
Definition is_used_group (st : gstate) (g : group) (name : string) : res bool :=
  ds ←r iter_used st g; Ok (bool_decide (name ∈ ds)).

(** The value of the [members] property: the memo when there is one, else the own units
    united with the [members] of every (transitively) used group — each of which is again
    its memo when it has one. *)
Fixpoint mval (fuel : nat) (st : gstate) (n : string) : res sset :=
  match fuel with
  | O => Err EFuel
  | S f =>
      match st !! n with
      | None => Err EKey
      | Some g =>
          match g_memo g with
          | Some m => Ok m
          | None =>
              ds ←r iter_used st g;
              foldM (λ acc d, c ←r mval f st d; Ok (acc ∪ c)) (elements ds) (g_units g)
          end
      end
  end.
Definition members_val (st : gstate) (n : string) : res sset := mval (fuel_of st) st n.

(** Reading [members] stores the memo of the group and of every used group that had none. *)
Definition fill (st : gstate) (zs : sset) : gstate :=
  map_imap (λ k g,
    Some (if bool_decide (k ∈ zs) then
            match g_memo g with
            | Some _ => g
            | None => match members_val st k with Ok v => g_set_memo g (Some v) | Err _ => g end
            end
          else g)) st.
Definition members (st : gstate) (n : string) : gstate * res sset :=
  match st !! n with
  | None => (st, Err EKey)
  | Some g =>
      match g_memo g with
      | Some m => (st, Ok m)                 (* memo hit: nothing else is touched *)
      | None =>
          match members_val st n, iter_used st g with
          | Ok v, Ok ds => (fill st ({[ n ]} ∪ ds), Ok v)
          | Err e, _ => (st, Err e)
          | _, Err e => (st, Err e)
          end
      end
  end.

(** [invalidate_members]: clear the memo here and, recursively, in every group of [_used_by]. *)
Definition anc (fuel : nat) (st : gstate) (n : string) : res sset := reach g_used_by fuel st n.
Definition clear (zs : sset) (st : gstate) : gstate :=
  map_imap (λ k g, Some (if bool_decide (k ∈ zs) then g_set_memo g None else g)) st.
Definition invalidate (st : gstate) (n : string) : gstate * res unit :=
  match anc (fuel_of st) st n with
  | Ok zs => (clear zs st, Ok tt)
  | Err e => (clear {[ n ]} st, Err e)       (* its own memo is cleared before recursing *)
  end.

(** [add_units] *)
Definition add_units (st : gstate) (n : string) (us : list string) : gstate * res unit :=
  match st !! n with
  | None => (st, Err EKey)
  | Some g => invalidate (<[ n := g_set_units g (g_units g ∪ list_to_set us) ]> st) n
  end.

(** [remove_units]: [set.remove] raises KeyError at the first absent name — the names before
    it are already removed and [invalidate_members] is NOT reached. *)
Fixpoint remove_loop (own : sset) (us : list string) : sset * res unit :=
  match us with
  | [] => (own, Ok tt)
  | u :: us' => if bool_decide (u ∈ own) then remove_loop (own ∖ {[ u ]}) us' else (own, Err EKey)
  end.
(** what happens after the loop of an edit: on success [invalidate_members]; on failure pint
    skips it (F66) — the repaired behaviour invalidates in a [finally] *)
Definition finish_edit (qk : quirks) (n : string) (sr : gstate * res unit) : gstate * res unit :=
  match sr with
  | (st', Ok _) => invalidate st' n
  | (st', Err e) => if q_partial_edit qk then (st', Err e) else (fst (invalidate st' n), Err e)
  end.
Definition remove_units (qk : quirks) (st : gstate) (n : string) (us : list string) : gstate * res unit :=
  match st !! n with
  | None => (st, Err EKey)
  | Some g =>
      let '(own', r) := remove_loop (g_units g) us in
      finish_edit qk n (<[ n := g_set_units g own' ]> st, r)
  end.

Definition upd (st : gstate) (n : string) (f : group → group) : gstate :=
  match st !! n with Some g => <[ n := f g ]> st | None => st end.

(** [add_groups]: for every name: [d[name]] (KeyError), the cycle check
    [grp.is_used_group(self.name)] (ValueError), then the two set insertions.  The check asks
    whether [self] is reachable FROM [grp] through at least one edge, so it does not see
    [grp is self].  [invalidate_members] runs only after the whole loop succeeded. *)
Fixpoint add_groups_loop (qk : quirks) (st : gstate) (n : string) (gs : list string) : gstate * res unit :=
  match gs with
  | [] => (st, Ok tt)
  | h :: gs' =>
      match st !! h, st !! n with
      | Some gh, Some gn =>
          if negb (q_selfloop qk) && String.eqb h n then (st, Err EValue) else
          match is_used_group st gh n with
          | Err e => (st, Err e)
          | Ok true => (st, Err EValue)
          | Ok false =>
              let st1 := <[ n := g_set_used gn (g_used gn ∪ {[ h ]}) ]> st in
              let st2 := upd st1 h (λ g, g_set_used_by g (g_used_by g ∪ {[ n ]})) in
              add_groups_loop qk st2 n gs'
          end
      | _, _ => (st, Err EKey)
      end
  end.
Definition add_groups (qk : quirks) (st : gstate) (n : string) (gs : list string) : gstate * res unit :=
  finish_edit qk n (add_groups_loop qk st n gs).

(** [remove_groups] *)
Fixpoint remove_groups_loop (st : gstate) (n : string) (gs : list string) : gstate * res unit :=
  match gs with
  | [] => (st, Ok tt)
  | h :: gs' =>
      match st !! h, st !! n with
      | Some gh, Some gn =>
          if negb (bool_decide (h ∈ g_used gn)) then (st, Err EKey) else
          let st1 := <[ n := g_set_used gn (g_used gn ∖ {[ h ]}) ]> st in
          match st1 !! h with
          | Some gh' =>
              if negb (bool_decide (n ∈ g_used_by gh')) then (st1, Err EKey) else
              remove_groups_loop (<[ h := g_set_used_by gh' (g_used_by gh' ∖ {[ n ]}) ]> st1) n gs'
          | None => (st1, Err EKey)
          end
      | _, _ => (st, Err EKey)
      end
  end.
Definition remove_groups (qk : quirks) (st : gstate) (n : string) (gs : list string) : gstate * res unit :=
  finish_edit qk n (remove_groups_loop st n gs).

(** [Group.__init__] through [get_group(name, create_if_needed=True)]: an existing group is
    returned unchanged; a new one registers itself and is added to the root group. *)
Definition empty_group : group := Grp ∅ ∅ ∅ None.
Definition get_group (qk : quirks) (st : gstate) (name : string) : gstate * res unit :=
  match st !! name with
  | Some _ => (st, Ok tt)
  | None =>
      let st1 := <[ name := empty_group ]> st in
      if String.eqb name "root" then (st1, Ok tt) else add_groups qk st1 "root" [name]
  end.
Definition init_groups : gstate := {[ "root" := empty_group ]}.

(** * Edits as data, for statements about every sequence of edits *)
Inductive gop :=
| GAddUnits (g : string) (us : list string)
| GRemoveUnits (g : string) (us : list string)
| GAddGroups (g : string) (gs : list string)
| GRemoveGroups (g : string) (gs : list string)
| GGetGroup (g : string)
| GMembers (g : string).
Definition gstep (qk : quirks) (st : gstate) (o : gop) : gstate * res unit :=
  match o with
  | GAddUnits g us => add_units st g us
  | GRemoveUnits g us => remove_units qk st g us
  | GAddGroups g gs => add_groups qk st g gs
  | GRemoveGroups g gs => remove_groups qk st g gs
  | GGetGroup g => get_group qk st g
  | GMembers g => let '(st', r) := members st g in (st', match r with Ok _ => Ok tt | Err e => Err e end)
  end.
(** a run stops at nothing: failed edits leave their partial effect and the run goes on *)
Definition grun (qk : quirks) (st : gstate) (os : list gop) : gstate := fold_left (λ s o, fst (gstep qk s o)) os st.
(** the same, but only over edits that succeed *)
Fixpoint grun_ok (qk : quirks) (st : gstate) (os : list gop) : option gstate :=
  match os with
  | [] => Some st
  | o :: os' => match gstep qk st o with (st', Ok _) => grun_ok qk st' os' | (_, Err _) => None end
  end.

(** * Loading the groups of a definition file ([Group.from_definition] in file order, then
    [_after_init]: the default group receives every unit that is in no other group). *)
Definition load_group (qk : quirks) (st : gstate) (d : string * list string * list string) : gstate * res unit :=
  let '(name, usingl, units) := d in
  match st !! name with
  | Some _ => (st, Err EValue)                     (* "Group … already present in registry" *)
  | None =>
      let '(st1, r1) := get_group qk st name in
      match r1 with Err e => (st1, Err e) | Ok _ =>
      (* unit definitions inside the block are added to the registry: root.add_units(name) each *)
      let '(st2, r2) := fold_left (λ sr u, match sr with
                                          | (s, Ok _) => add_units s "root" [u]
                                          | (s, Err e) => (s, Err e) end) units (st1, Ok tt) in
      match r2 with Err e => (st2, Err e) | Ok _ =>
      let '(st3, r3) := add_units st2 name units in
      match r3 with Err e => (st3, Err e) | Ok _ =>
      match usingl with [] => (st3, Ok tt) | _ => add_groups qk st3 name usingl end
      end end end
  end.
Definition load_groups (qk : quirks) (st : gstate) (ds : list (string * list string * list string)) : gstate * res unit :=
  fold_left (λ sr d, match sr with (s, Ok _) => load_group qk s d | (s, Err e) => (s, Err e) end) ds (st, Ok tt).

Definition after_init_groups (qk : quirks) (st : gstate) (default_group : option string) : gstate * res unit :=
  match default_group with
  | None => (st, Ok tt)
  | Some dg =>
      let '(st1, r1) := get_group qk st dg in
      match r1 with Err e => (st1, Err e) | Ok _ =>
      (* members of every group but root *)
      let '(st2, gu) := fold_left (λ sa k,
                          let '(s, acc) := sa in
                          if String.eqb k "root" then (s, acc) else
                          match members s k with (s', Ok v) => (s', acc ∪ v) | (s', Err _) => (s', acc) end)
                          (map fst (map_to_list st1)) (st1, ∅) in
      match members st2 "root" with
      | (st3, Ok allu) => add_units st3 dg (elements (allu ∖ gu))
      | (st3, Err e) => (st3, Err e)
      end end
  end.
