(** Model/GroupsRun.v — correspondence cases for groups and systems (C14): every step carries
    what the implementation did; [c14_ok] is true when the model does the same. *)
From PintV Require Import Model.UC Model.Eval Model.Registry Model.UCRun Model.Groups Model.Systems.
Open Scope string_scope.

(** exception classes as the harness canonicalises them *)
Inductive xerr := XKey | XValue | XRec | XDim | XUndef | XSyntax | XAttr | XOther.
Definition class_of (e : err) : xerr :=
  match e with
  | EKey => XKey | EValue => XValue | EFuel => XRec | EDim => XDim | EUndefined _ => XUndef
  | ESyntax => XSyntax | _ => XOther
  end.
Definition xerr_eqb (a b : xerr) : bool :=
  match a, b with
  | XKey, XKey | XValue, XValue | XRec, XRec | XDim, XDim | XUndef, XUndef | XSyntax, XSyntax
  | XAttr, XAttr | XOther, XOther => true
  | _, _ => false
  end.

Inductive oset := OSet (l : list string) | OSErr (e : xerr).
Inductive ofac := FExact (q : Qc) | FFloat.
(** [OBRange]: pint raised inside float arithmetic (overflow to inf in an inexact conversion) *)
Inductive obase := OB (f : ofac) (u : uc) | OBErr (e : xerr) | OBRange.
Inductive oname := ON (n : string) | ONErr (e : xerr).

(** a set against the duplicate-free list the harness observed; the comparison goes through the
    decoded names (building a [gset string] from hundreds of names is slow in the VM) *)
Definition set_eq_list (s : sset) (l : list string) : bool :=
  let e := elements s in
  Nat.eqb (length e) (length l) && forallb (λ x, existsb (String.eqb x) l) e.
Definition oset_eq_list (s : option sset) (l : option (list string)) : bool :=
  match s, l with Some s, Some l => set_eq_list s l | None, None => true | _, _ => false end.
Definition set_ok (x : res sset) (o : oset) : bool :=
  match x, o with
  | Ok s, OSet l => set_eq_list s l
  | Err e, OSErr e' => xerr_eqb (class_of e) e'
  | _, _ => false
  end.
Definition unit_ok (x : res unit) (o : option xerr) : bool :=
  match x, o with
  | Ok _, None => true
  | Err e, Some e' => xerr_eqb (class_of e) e'
  | _, _ => false
  end.
Definition fac_ok (f : option Qc) (ex : bool) (o : ofac) : bool :=
  match f, ex, o with
  | Some q, true, FExact q' => bool_decide (q = q')
  | Some _, true, FFloat => false
  | _, _, FFloat => true
  | _, _, _ => false
  end.
Definition base_ok (x : res bans) (o : obase) : bool :=
  match x, o with
  | Ok (f, ex, u), OB f' u' => fac_ok f ex f' && uc_eqb u u'
  | Err e, OBErr e' => xerr_eqb (class_of e) e'
  | Ok (_, false, _), OBRange => true
  | _, _ => false
  end.
Definition name_ok (x : res string) (o : oname) : bool :=
  match x, o with
  | Ok n, ON n' => String.eqb n n'
  | Err (EUndefined _), ONErr XAttr => true          (* UndefinedUnitError is an AttributeError *)
  | Err EOther, ONErr XAttr => true
  | Err e, ONErr e' => xerr_eqb (class_of e) e'
  | _, _ => false
  end.

(** one step on the implementation, with what was observed *)
Inductive sop :=
| PMembers (g : string) (o : oset)
| PSysMembers (s : string) (o : oset)
| PAddUnits (g : string) (us : list string) (o : option xerr)
| PRemoveUnits (g : string) (us : list string) (o : option xerr)
| PAddGroups (g : string) (gs : list string) (o : option xerr)
| PRemoveGroups (g : string) (gs : list string) (o : option xerr)
| PGetGroup (g : string) (o : option xerr)
| PSysAddGroups (s : string) (gs : list string) (o : option xerr)
| PSysRemoveGroups (s : string) (gs : list string) (o : option xerr)
| PNewSystem (name : string) (usingl rules : list string) (o : option xerr)
| PSetDefault (n : option string) (o : option xerr)
| PBase (a : uc) (check : bool) (sys : option string) (o : obase)
| PToBase (m : Qc) (a : uc) (o : obase)
| PCompat (a : uc) (gos : option string) (o : oset)
| PAttr (s item : string) (o : oname)
(* white-box: the sets of a group object, and whether its memo is filled *)
| PGroupState (g : string) (own used usedby : list string) (memo : option (list string))
(* white-box: the replacement table of a system and its used groups *)
| PSysState (s : string) (tbl : list (string * uc)) (used : list string) (memo : option (list string)).

Definition lset (l : list string) : sset := list_to_set l.
Definition tbl_eqb (m : gmap string uc) (l : list (string * uc)) : bool :=
  bool_decide (m = list_to_map l).

(** [Quantity.to_base_units]: units from [_get_base_units(self._units)], magnitude through
    [convert(m, units, other)] (multiplicative units only) *)
Definition to_base (qk : quirks) (r : reg) (st : sstate) (m : Qc) (a : uc) : sstate * res bans :=
  match get_base_units qk r st a true None with
  | (st', Ok (_, _, b)) =>
      (st', if uc_eqb a b then Ok (Some m, true, b) else
            ' (c, ex) ←r conv_factor r a b;
            Ok (match c with Some y => Some (m * y)%Qc | None => None end, ex, b))
  | (st', Err e) => (st', Err e)
  end.

Definition sstep (qk : quirks) (r : reg) (tbl : list (string * uc)) (st : sstate) (o : sop) : sstate * bool :=
  let lift (gr : gstate * res unit) (ob : option xerr) := (ss_set_groups st gr.1, unit_ok gr.2 ob) in
  match o with
  | PMembers g ob => let '(gs, x) := members (ss_groups st) g in (ss_set_groups st gs, set_ok x ob)
  | PSysMembers s ob => let '(st', x) := sys_members qk st s in (st', set_ok x ob)
  | PAddUnits g us ob => lift (add_units (ss_groups st) g us) ob
  | PRemoveUnits g us ob => lift (remove_units qk (ss_groups st) g us) ob
  | PAddGroups g gs ob => lift (add_groups qk (ss_groups st) g gs) ob
  | PRemoveGroups g gs ob => lift (remove_groups qk (ss_groups st) g gs) ob
  | PGetGroup g ob => lift (get_group qk (ss_groups st) g) ob
  | PSysAddGroups s gs ob => let '(st', x) := sys_add_groups st s gs in (st', unit_ok x ob)
  | PSysRemoveGroups s gs ob => let '(st', x) := sys_remove_groups st s gs in (st', unit_ok x ob)
  | PNewSystem n us rules ob => let '(st', x) := new_system qk r st n us rules in (st', unit_ok x ob)
  | PSetDefault n ob => let '(st', x) := set_default qk st n in (st', unit_ok x ob)
  | PBase a chk sys ob => let '(st', x) := get_base_units qk r st a chk sys in (st', base_ok x ob)
  | PToBase m a ob => let '(st', x) := to_base qk r st m a in (st', base_ok x ob)
  | PCompat a gos ob => let '(st', x) := get_compatible qk r tbl st a gos in (st', set_ok x ob)
  | PAttr s item ob => (st, name_ok (sys_attr r st s item) ob)
  | PGroupState g own used usedby memo =>
      (st, match ss_groups st !! g with
           | None => false
           | Some x => set_eq_list (g_units x) own && set_eq_list (g_used x) used
                       && set_eq_list (g_used_by x) usedby && oset_eq_list (g_memo x) memo
           end)
  | PSysState s t used memo =>
      (st, match ss_systems st !! s with
           | None => false
           | Some x => tbl_eqb (s_base x) t && set_eq_list (s_used x) used && oset_eq_list (s_memo x) memo
           end)
  end.
(** index of the first step that disagrees ([None] = the whole run agrees) *)
Fixpoint srun_from (qk : quirks) (r : reg) (tbl : list (string * uc)) (st : sstate) (os : list sop) (i : N) : option N :=
  match os with
  | [] => None
  | o :: os' => let '(st', ok) := sstep qk r tbl st o in
                if ok then srun_from qk r tbl st' os' (i + 1)%N else Some i
  end.

Inductive c14case :=
| KDefault (ops : list sop)                                   (* on the bundled registry as loaded *)
| KGen (raw : list rawdef) (groups systems : list (string * list string * list string))
       (defaults : list (string * string)) (ops : list sop).  (* on a generated definition file *)

Definition c14_first_bad (qk : quirks) (r0 : reg) (st0 : sstate) (tbl0 : list (string * uc)) (c : c14case) : option N :=
  match c with
  | KDefault ops => srun_from qk r0 tbl0 st0 ops 0%N
  | KGen raw groups systems defaults ops =>
      match load raw with
      | Err _ => Some 1000000%N
      | Ok r =>
          match build_state qk r raw groups systems defaults with
          | (st, Ok _) => srun_from qk r (dimeq_table r) st ops 0%N
          | (_, Err _) => Some 1000001%N
          end
      end
  end.
Definition c14_ok (qk : quirks) (r0 : reg) (st0 : sstate) (tbl0 : list (string * uc)) (c : c14case) : bool :=
  match c14_first_bad qk r0 st0 tbl0 c with None => true | Some _ => false end.
