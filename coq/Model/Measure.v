(** Model/Measure.v — executable model of pint's measurements
    (pint/facets/measurement/objects.py: [Measurement.__new__], [value], [error], [rel],
    [MeasurementQuantity.plus_minus]) and of uncertain magnitudes flowing through
    conversion and arithmetic ([uncertainties.ufloat] inside [PlainQuantity] operators).
    Definitions only; proofs are in Proofs/MeasureProofs.v.

    An uncertain magnitude is an EXACT first-order affine form: a nominal value and the
    partial derivatives with respect to independent variables ("atoms", one per [ufloat(v, s)]
    call).  This is the quantity the [uncertainties] package propagates (linear error
    propagation); correlations are carried by shared atoms, so [x - x] is [0 ± 0].
    The standard deviations of the atoms live in an environment [venv]; the variance of a
    form is [Σ_i der_i² · σ_i²].

    Out of the model: logarithmic units (their converters are not affine), array magnitudes,
    float rounding (the correspondence compares within a stated relative bound), the number
    formatting done by [uncertainties.__format__]. *)
From Coq Require Import Qcabs.
From PintV Require Import Model.UC Model.Eval Model.Registry.
Open Scope string_scope.

Global Instance err_eq_dec : EqDecision err.
Proof. solve_decision. Defined.
Global Instance res_eq_dec {A} `{EqDecision A} : EqDecision (res A).
Proof. solve_decision. Defined.

(** * Affine forms *)
Notation atom := positive.
Notation dmap := (gmap positive Qc).      (* must be a notation: stdpp lemmas unify on it *)
Notation venv := (gmap positive Qc).      (* atom ↦ standard deviation σ_i *)

Record aff := Aff { nom : Qc; der : dmap }.

Definition dcoef (d : dmap) (i : atom) : Qc := default 0%Qc (d !! i).

(** linear combination [c1·a + c2·b] of two derivative maps *)
Definition lin_f (c1 c2 : Qc) (x y : option Qc) : option Qc :=
  match x, y with
  | None, None => None
  | _, _ => Some (c1 * default 0 x + c2 * default 0 y)%Qc
  end.
Definition dlin (c1 : Qc) (a : dmap) (c2 : Qc) (b : dmap) : dmap := merge (lin_f c1 c2) a b.

Definition aff_const (c : Qc) : aff := Aff c ∅.
(** [ufloat(v, s)]: a fresh independent variable; its σ is recorded in the environment *)
Definition aff_var (i : atom) (v : Qc) : aff := Aff v {[ i := 1%Qc ]}.

Definition aff_add (a b : aff) : aff := Aff (nom a + nom b) (dlin 1 (der a) 1 (der b)).
Definition aff_sub (a b : aff) : aff := Aff (nom a - nom b) (dlin 1 (der a) (-1) (der b)).
Definition aff_mul (a b : aff) : aff := Aff (nom a * nom b) (dlin (nom b) (der a) (nom a) (der b)).
(** division by a zero nominal value raises ZeroDivisionError *)
Definition aff_div (a b : aff) : res aff :=
  if qz (nom b) then Err EZeroDiv
  else Ok (Aff (nom a / nom b)
               (dlin (/ nom b) (der a) (- (nom a / (nom b * nom b))) (der b))).
(** the scalar affine map [x ↦ s·x + o] (number * ufloat + number) *)
Definition aff_affine (s o : Qc) (a : aff) : aff := Aff (s * nom a + o) (Qcmult s <$> der a).

(** * Variance and covariance in an environment *)
Fixpoint qsum {A} (f : A → Qc) (l : list A) : Qc :=
  match l with [] => 0%Qc | x :: l' => (f x + qsum f l')%Qc end.
Definition wsum (E : venv) (w : atom → Qc) : Qc :=
  qsum (λ iv : atom * Qc, (w iv.1 * (iv.2 * iv.2))%Qc) (map_to_list E).
Definition variance (E : venv) (a : aff) : Qc :=
  wsum E (λ i, dcoef (der a) i * dcoef (der a) i)%Qc.
Definition covariance (E : venv) (a b : aff) : Qc :=
  wsum E (λ i, dcoef (der a) i * dcoef (der b) i)%Qc.

Definition qltb (x y : Qc) : bool := negb (Qle_bool (this y) (this x)).
(** [std_dev] is a square root in general; it is rational when the form depends on at most
    one atom: [|d|·σ_i] *)
Definition std1 (E : venv) (a : aff) : option Qc :=
  match filter (λ kv : atom * Qc, negb (qz kv.2)) (map_to_list (der a)) with
  | [] => Some 0%Qc
  | (i, d) :: nil => Some (Qcabs d * default 0 (E !! i))%Qc
  | _ => None
  end.

(** * Conversion as an affine map [x ↦ a·x + b]
    ([GenericNonMultiplicativeRegistry._convert], [PlainRegistry.convert]) *)
Definition is_mult (r : reg) (name : string) : res bool :=
  match r_units r !! name with
  | Some d => Ok (u_multiplicative d)
  | None =>
      match parse_unit_name r name with
      | (_, u) :: nil => match r_units r !! u with Some d => Ok (u_multiplicative d) | None => Err (EUndefined name) end
      | [] => Err (EUndefined name)
      | _ => Err EAssert
      end
  end.
Definition nonmult_units (r : reg) (u : uc) : res (list (string * Qc)) :=
  foldM (λ acc kv, b ←r is_mult r kv.1; Ok (if b then acc else app acc [kv]))
        (map_to_list u) (@nil (string * Qc)).
(** [_validate_and_extract] (autoconvert_offset_to_baseunit = False); its ValueErrors are
    re-raised by [_convert] as DimensionalityError *)
Definition validate_extract (r : reg) (u : uc) : res (option string) :=
  l ←r nonmult_units r u;
  match l with
  | [] => Ok None
  | (n, e) :: nil =>
      if negb (bool_decide (e = 1%Qc)) then Err EDim
      else if Nat.ltb 1 (size u) then Err EDim
      else Ok (Some n)
  | _ => Err EDim
  end.
Definition has_delta (u : uc) : bool :=
  existsb (λ kv : string * Qc, String.prefix "delta_" kv.1) (map_to_list u).
Definition exact_factor (x : res (option Qc * bool)) : res Qc :=
  match x with
  | Ok (Some f, _) => Ok f
  | Ok (None, _) => Err EIrrational      (* float root factor: outside the exact model *)
  | Err e => Err e
  end.
(** scale, offset and reference of an offset unit ([OffsetConverter]) *)
Definition offset_parts (r : reg) (n : string) : res (Qc * Qc * uc) :=
  d ←r resolve r n;
  match u_conv d with
  | COffset o => if u_float d then Err EIrrational else Ok (u_scale d, o, u_ref d)
  | CScale => Ok (u_scale d, 0%Qc, u_ref d)
  | CLog _ _ => Err EOther               (* logarithmic converters are not affine *)
  end.
Definition conv_affine (r : reg) (src dst : uc) : res (Qc * Qc) :=
  if uc_eqb src dst then Ok (1%Qc, 0%Qc)             (* [convert]: src == dst returns the value *)
  else
    so ←r validate_extract r src;
    do_ ←r validate_extract r dst;
    match so, do_ with
    | None, None => f ←r exact_factor (conv_factor r src dst); Ok (f, 0%Qc)
    | _, _ =>
        ds ←r dim_of r src; dd ←r dim_of r dst;
        if negb (uc_eqb ds dd) then Err EDim else
        '(s1, o1, src') ←r match so with
                           | Some n => if has_delta dst then Err EDim else offset_parts r n
                           | None => Ok (1%Qc, 0%Qc, src)
                           end;
        '(s2, o2, dst') ←r match do_ with
                           | Some n => if has_delta src' then Err EDim else offset_parts r n
                           | None => Ok (1%Qc, 0%Qc, dst)
                           end;
        f ←r exact_factor (conv_factor r src' dst');
        (* ((x·s1 + o1)·f − o2) / s2 *)
        if qz s2 then Err EZeroDiv
        else Ok ((s1 * f / s2)%Qc, ((o1 * f - o2) / s2)%Qc)
    end.

(** conversion of a plain number *)
Definition qty_to (r : reg) (x : Qc) (src dst : uc) : res Qc :=
  '(a, b) ←r conv_affine r src dst; Ok (a * x + b)%Qc.

(** * Measurements: an uncertain magnitude with units.  A plain quantity is the special case
    of an empty derivative map. *)
Record meas := Meas { m_mag : aff; m_units : uc }.

(** [Measurement(ufloat, units)] — the form every operator result is re-wrapped with
    ([self.__class__(magnitude, units)], [error is MISSING: mag = value]): the uncertain number
    is kept as it is; no fresh variable is created, so the result stays correlated with the
    operands it was computed from *)
Definition meas_wrap (a : aff) (u : uc) : meas := Meas a u.

Definition meas_to (r : reg) (m : meas) (dst : uc) : res meas :=
  '(a, b) ←r conv_affine r (m_units m) dst; Ok (Meas (aff_affine a b (m_mag m)) dst).

(** ** Constructor forms *)
Inductive errarg := ENum (e : Qc) | EQty (e : Qc) (u : uc).
Inductive ctor :=
| CQty (v : Qc) (vu : uc) (e : errarg)         (* Measurement(Quantity(v, vu), e) *)
| CNums (v : Qc) (e : errarg) (u : uc)         (* Measurement(v, e, u) *)
| CBare (v : Qc) (e : errarg)                  (* Measurement(v, e): dimensionless *)
| CUfloat (v s : Qc) (u : uc)                  (* Measurement(ufloat(v, s), u) *)
| CQtyU (v s : Qc) (u : uc)                    (* Measurement(Quantity(ufloat(v, s), u)) *)
| CPlusMinus (v : Qc) (vu : uc) (e : errarg) (relative : bool).  (* Quantity(v, vu).plus_minus(e, relative) *)

(** [error.to(units).magnitude]; numbers pass through (AttributeError branch) *)
Definition err_in (r : reg) (e : errarg) (u : uc) : res Qc :=
  match e with
  | ENum x => Ok x
  | EQty x eu => qty_to r x eu u
  end.
Definition check_err (v e : Qc) (u : uc) : res (Qc * Qc * uc) :=
  if qltb e 0 then Err EValue else Ok (v, e, u).
(** what [__new__] normalises every form to: (nominal value, standard deviation, units).
    For the two ufloat forms the negative σ is refused by [uncertainties] itself. *)
Definition ctor_norm (r : reg) (c : ctor) : res (Qc * Qc * uc) :=
  match c with
  | CQty v vu e => x ←r err_in r e vu; check_err v x vu
  | CNums v e u => x ←r err_in r e u; check_err v x u
  | CBare v e => x ←r err_in r e ∅; check_err v x ∅
  | CUfloat v s u | CQtyU v s u => check_err v s u
  | CPlusMinus v vu e rel =>
      match e with
      | EQty x eu => if rel then Err EValue else y ←r err_in r e vu; check_err v y vu
      | ENum x => check_err v (if rel then x * Qcabs v else x)%Qc vu
      end
  end.

(** the measurement object: a fresh atom [i] whose σ goes into the environment *)
Definition meas_new (i : atom) (s : Qc * Qc * uc) : meas := Meas (aff_var i s.1.1) s.2.
Definition env_new (E : venv) (i : atom) (s : Qc * Qc * uc) : venv := <[ i := s.1.2 ]> E.

(** ** Accessors *)
Definition m_value (m : meas) : Qc * uc := (nom (m_mag m), m_units m).
Definition m_error (E : venv) (m : meas) : option (Qc * uc) :=
  s ← std1 E (m_mag m); Some (s, m_units m).
Definition m_rel (E : venv) (m : meas) : res Qc :=
  match std1 E (m_mag m) with
  | None => Err EIrrational
  | Some s => if qz (nom (m_mag m)) then Err EZeroDiv else Ok (Qcabs (s / nom (m_mag m)))
  end.

(** ** Arithmetic ([PlainQuantity._add_sub], [_mul_div]).
    [blind = true] is the [Measurement] class: it derives from [PlainQuantity] only, whose
    [_get_non_multiplicative_units] is [[]] and [_ok_for_muldiv] is [True] — offset units are
    treated like multiplicative ones.  [blind = false] is [Quantity] holding a ufloat: with
    offset units present the offset-unit table of C06 applies (not modelled here: [EOffset]). *)
Definition has_offset (r : reg) (u : uc) : res bool :=
  l ←r nonmult_units r u; Ok (match l with [] => false | _ => true end).
Definition meas_addsub (blind sub : bool) (r : reg) (m1 m2 : meas) : res meas :=
  let op := if sub then aff_sub else aff_add in
  let u1 := m_units m1 in let u2 := m_units m2 in
  d1 ←r dim_of r u1; d2 ←r dim_of r u2;
  if negb (uc_eqb d1 d2) then Err EDim else
  o1 ←r has_offset r u1; o2 ←r has_offset r u2;
  if negb blind && (o1 || o2) then Err EOffset
  else if uc_eqb u1 u2 then Ok (Meas (op (m_mag m1) (m_mag m2)) u1)
  else if has_delta u1 && negb (has_delta u2) then
    m1' ←r meas_to r m1 u2; Ok (Meas (op (m_mag m1') (m_mag m2)) u2)
  else
    m2' ←r meas_to r m2 u1; Ok (Meas (op (m_mag m1) (m_mag m2')) u1).
Definition meas_muldiv (blind div : bool) (r : reg) (m1 m2 : meas) : res meas :=
  let u1 := m_units m1 in let u2 := m_units m2 in
  o1 ←r has_offset r u1; o2 ←r has_offset r u2;
  if negb blind && (o1 || o2) then Err EOffset
  else if div then mg ←r aff_div (m_mag m1) (m_mag m2); Ok (Meas mg (uc_div u1 u2))
  else Ok (Meas (aff_mul (m_mag m1) (m_mag m2)) (uc_mul u1 u2)).

(** the bare-number branch of [_add_sub] (other operand is not a Quantity): [zero_or_nan(other)]
    lets an exact zero skip the unit check; otherwise the quantity must be dimensionless (it is
    converted to [dimensionless] first) or the operation is a DimensionalityError.  An uncertain
    number is zero only when its nominal value AND its standard deviation are
    ([uncertainties]: [x == 0]): 0 ± s with s > 0 is not zero. *)
Definition bare_zero (E : venv) (b : aff) : bool := qz (nom b) && qz (variance E b).
Definition meas_addsub_bare (sub : bool) (r : reg) (E : venv) (m : meas) (b : aff) : res meas :=
  let op := if sub then aff_sub else aff_add in
  if bare_zero E b then Ok (Meas (op (m_mag m) b) (m_units m))
  else d ←r dim_of r (m_units m);
       if uc_eqb d ∅ then m' ←r meas_to r m ∅; Ok (Meas (op (m_mag m') b) ∅)
       else Err EDim.

(** ** Histories on ONE measurement object.  [value], [error], [rel] build new Quantity objects
    from the current magnitude and units: reading them (or converting what they returned in
    place) leaves the measurement as it is; an in-place conversion ([ito], [ito_base_units], …)
    replaces magnitude and units by those of the out-of-place conversion, and a refused one
    changes nothing.  There is no other state. *)
Inductive mop := ORead | OIto (dst : uc) | OMutateReturned.
Definition mstep (r : reg) (m : meas) (o : mop) : meas :=
  match o with
  | OIto d => match meas_to r m d with Ok m' => m' | Err _ => m end
  | ORead | OMutateReturned => m
  end.
Definition mrun (r : reg) (m : meas) (ops : list mop) : meas := fold_left (mstep r) ops m.
Definition is_ito (o : mop) : bool := match o with OIto _ => true | _ => false end.
Fixpoint only_ito (ops : list mop) : list mop :=
  match ops with
  | [] => []
  | o :: ops' => if is_ito o then o :: only_ito ops' else only_ito ops'
  end.
Definition observe (E : venv) (m : meas) : (Qc * uc) * option (Qc * uc) * res Qc :=
  (m_value m, m_error E m, m_rel E m).

(** ** Expressions with shared variables (what the correspondence generates) *)
Inductive mexpr :=
| XVar (i : atom)                       (* a measurement created once, possibly used many times *)
| XQty (x : Qc) (u : uc)                (* a plain quantity *)
| XAdd (a b : mexpr) | XSub (a b : mexpr) | XMul (a b : mexpr) | XDiv (a b : mexpr)
| XScale (c : Qc) (a : mexpr)           (* number * m *)
| XTo (a : mexpr) (u : uc).             (* m.to(u) *)
Notation vars := (gmap positive (Qc * uc)).    (* atom ↦ (nominal value, units) *)
Fixpoint meval (blind : bool) (r : reg) (V : vars) (e : mexpr) : res meas :=
  match e with
  | XVar i => match V !! i with Some (v, u) => Ok (Meas (aff_var i v) u) | None => Err EKey end
  | XQty x u => Ok (Meas (aff_const x) u)
  | XAdd a b => x ←r meval blind r V a; y ←r meval blind r V b; meas_addsub blind false r x y
  | XSub a b => x ←r meval blind r V a; y ←r meval blind r V b; meas_addsub blind true r x y
  | XMul a b => x ←r meval blind r V a; y ←r meval blind r V b; meas_muldiv blind false r x y
  | XDiv a b => x ←r meval blind r V a; y ←r meval blind r V b; meas_muldiv blind true r x y
  | XScale c a => x ←r meval blind r V a; Ok (Meas (aff_affine c 0 (m_mag x)) (m_units x))
  | XTo a u => x ←r meval blind r V a; meas_to r x u
  end.

(** * Formatting: [join_unc] (pint/delegates/formatter/_format_helpers.py) with the joint
    format string ["{}" ++ sep ++ "{}"] *)
Definition join_unc (sep lpar rpar mstr ustr : string) : string :=
  if String.prefix lpar mstr || ends_with rpar mstr then mstr ++ sep ++ ustr
  else lpar ++ mstr ++ rpar ++ sep ++ ustr.
