(** Model/MeasureRun.v — correspondence cases for C19 (measurements, uncertainty tokenizer).
    Each case carries what the implementation was observed to do; [c19_ok] is true when the
    model does the same.  Float results are compared with the model's exact rationals within
    a relative bound of a running magnitude bound (so that cancellation in the float
    computation is not reported as a disagreement); this part is differential TESTING. *)
From Coq Require Import Qcabs.
From PintV Require Import Model.UC Model.Eval Model.Registry Model.UCRun Model.Measure Model.UncTok.
Open Scope string_scope.

Definition qleb (x y : Qc) : bool := Qle_bool (this x) (this y).
(** |obs − exact| ≤ rt · bound *)
Definition close (rt obs exact bound : Qc) : bool := qleb (Qcabs (obs - exact)) (rt * bound).
Definition rtol : Qc := Q2Qc (1 # 1000000000000).

(** ** error classes as the harness reports them *)
Inductive ecls := XIndex | XValue | XAssert | XRuntime | XDim | XOffset | XZeroDiv | XUndefined
                | XNegStd | XType | XOtherErr.
Definition ecls_of (e : err) : ecls :=
  match e with
  | EIndex => XIndex | EValue => XValue | EAssert => XAssert | EDim => XDim | EOffset => XOffset
  | EZeroDiv => XZeroDiv | EUndefined _ => XUndefined | EType => XType | EOther => XRuntime
  | _ => XOtherErr
  end.
Global Instance ecls_eq_dec : EqDecision ecls.
Proof. solve_decision. Defined.

(** a negative σ in the two ufloat forms is refused by [uncertainties] itself (its own
    exception class NegativeStdDev), in every other form by pint's ValueError *)
Definition ctor_ecls (c : ctor) (e : err) : ecls :=
  match c, e with
  | (CUfloat _ _ _ | CQtyU _ _ _), EValue => XNegStd
  | _, _ => ecls_of e
  end.

(** ** running magnitude bounds for float evaluation (see the header) *)
Definition aabs (a : aff) : aff := Aff (Qcabs (nom a)) (Qcabs <$> der a).
Definition babs_affine (c : Qc * Qc) (B : aff) : aff :=
  Aff (Qcabs c.1 * nom B + Qcabs c.2) (Qcmult (Qcabs c.1) <$> der B).
(** an offset conversion goes through the reference unit: ((x·s1 + o1)·f − o2)/s2.  The float
    computation carries the magnitude of the offsets even when they cancel in the net map
    (degree_Reaumur → degree_Celsius has b = 0 but passes through 273.15): the slack to add to
    a magnitude bound *)
Definition conv_slack (r : reg) (src dst : uc) : Qc :=
  if uc_eqb src dst then 0%Qc else
  match validate_extract r src, validate_extract r dst with
  | Ok so, Ok do_ =>
      let p1 := match so with
                | Some n => match offset_parts r n with Ok p => p | Err _ => (1%Qc, 0%Qc, src) end
                | None => (1%Qc, 0%Qc, src) end in
      let p2 := match do_ with
                | Some n => match offset_parts r n with Ok p => p | Err _ => (1%Qc, 0%Qc, dst) end
                | None => (1%Qc, 0%Qc, dst) end in
      match exact_factor (conv_factor r p1.2 p2.2) with
      | Ok f => if qz p2.1.1 then 0%Qc
                else ((Qcabs p1.1.2 * Qcabs f + Qcabs p2.1.2) / Qcabs p2.1.1)%Qc
      | Err _ => 0%Qc
      end
  | _, _ => 0%Qc
  end.
Definition babs_conv (r : reg) (src dst : uc) (c : Qc * Qc) (B : aff) : aff :=
  let A := babs_affine c B in Aff (nom A + conv_slack r src dst) (der A).
Definition ctor_slack (r : reg) (c : ctor) : Qc :=
  match c with
  | CQty _ vu (EQty _ eu) | CNums _ (EQty _ eu) vu | CPlusMinus _ vu (EQty _ eu) _ => conv_slack r eu vu
  | CBare _ (EQty _ eu) => conv_slack r eu ∅
  | _ => 0%Qc
  end.

(** which operand [_add_sub] converts, as affine maps applied to the two magnitudes *)
Definition addsub_plan (r : reg) (u1 u2 : uc) : res ((Qc * Qc) * (Qc * Qc)) :=
  if uc_eqb u1 u2 then Ok ((1, 0), (1, 0))%Qc
  else if has_delta u1 && negb (has_delta u2) then c ←r conv_affine r u1 u2; Ok (c, (1, 0)%Qc)
  else c ←r conv_affine r u2 u1; Ok ((1, 0)%Qc, c).
Fixpoint mbound (blind : bool) (r : reg) (V : vars) (e : mexpr) : res (meas * aff) :=
  match e with
  | XVar _ | XQty _ _ => m ←r meval blind r V e; Ok (m, aabs (m_mag m))
  | XAdd a b | XSub a b =>
      '(x, X) ←r mbound blind r V a; '(y, Y) ←r mbound blind r V b;
      z ←r meas_addsub blind (match e with XSub _ _ => true | _ => false end) r x y;
      '(c1, c2) ←r addsub_plan r (m_units x) (m_units y);
      Ok (z, aff_add (babs_conv r (m_units x) (m_units z) c1 X) (babs_conv r (m_units y) (m_units z) c2 Y))
  | XMul a b =>
      '(x, X) ←r mbound blind r V a; '(y, Y) ←r mbound blind r V b;
      z ←r meas_muldiv blind false r x y; Ok (z, aff_mul X Y)
  | XDiv a b =>
      '(x, X) ←r mbound blind r V a; '(y, Y) ←r mbound blind r V b;
      z ←r meas_muldiv blind true r x y;
      let ab := Qcabs (nom (m_mag y)) in
      let k := (1 + nom Y / ab)%Qc in
      let ca := (k / ab)%Qc in
      let cb := (2 * k * nom X / (ab * ab))%Qc in
      Ok (z, Aff (nom X * ca) (dlin ca (der X) cb (der Y)))
  | XScale c a => '(x, X) ←r mbound blind r V a;
      Ok (Meas (aff_affine c 0 (m_mag x)) (m_units x), babs_affine (c, 0%Qc) X)
  | XTo a u => '(x, X) ←r mbound blind r V a;
      c ←r conv_affine r (m_units x) u; z ←r meas_to r x u; Ok (z, babs_conv r (m_units x) u c X)
  end.

(** ** the tree builder with the two deviations of [_build_eval_tree] as switches: the shared
    [Eval.build_p paren_any pow_exempt] (Model/Eval.v).
    [paren_any = true]: a parenthesised group after a value is attached by juxtaposition
      whatever the pending operator (F16); false: like a NUMBER/NAME, under the priority test.
    [pow_exempt = true]: "**" / "^" never end a pending operator — [1.0(1)**2] reads
      1.0 +/- (0.1**2); false: exempt only among operators of equal priority. *)
Definition build2 (paren_any pow_exempt : bool) (tbl : list (string * Z)) (toks : list tok) : res tree :=
  build_p paren_any pow_exempt tbl toks.

(** ** observed results *)
Inductive tokres := TROk (l : list utok) | TRErr (e : ecls).
Inductive convres := CVOk (a b : Qc) | CVErr (e : ecls).
Inductive ctorres := CTOk (v s : Qc) (u : uc) | CTErr (e : ecls).
Inductive exprres := EXOk (nominal var : Qc) (u : uc) | EXErr (e : ecls).

Inductive c19case :=
(* uncertainty_tokenizer on the real token list of a string *)
| KTok (input : list utok) (expected : tokres)
(* "±" replacement *)
| KReplace (s expected : string)
(* Python's tokenizer produces the rendered cores for a notation instance (prefix of the stream) *)
| KRender (n : ninst) (toks : list utok)
(* tokens, then tree of [build_eval_tree(uncertainty_tokenizer(s))] printed by [to_string] *)
| KTree (paren_any pow_exempt : bool) (input : list utok) (expected : option string)
(* the two numbers around the first "+/-" of the rewritten stream denote the observed
   nominal value and standard deviation (floats, relative bound) *)
| KTokVal (input : list utok) (nominal std : Qc)
(* _OP_PRIORITY *)
| KPrio (tbl : list (string * Z))
(* conversion as an affine map, exact (Fraction registry): b = conv(0), a = conv(1) − conv(0) *)
| KConv (src dst : uc) (expected : convres)
(* constructor normalisation; floats *)
| KCtor (c : ctor) (expected : ctorres)
(* accessors of a fresh measurement after conversion: value, error, rel *)
| KAccess (v s : Qc) (u dst : uc) (value error : Qc) (rel : option Qc)
(* arithmetic expression over shared variables; [blind] = Measurement class *)
| KExpr (blind : bool) (V : list (positive * (Qc * Qc * uc))) (e : mexpr) (expected : exprres)
(* measurement (v ± s) u  +/-  bare ufloat (bn ± bs); [swap]: bare operand on the left *)
| KBare (sub swap : bool) (v s : Qc) (u : uc) (bn bs : Qc) (expected : exprres)
(* a history on one object (reads, in-place conversions, mutated returned values); what value and
   error report at the end *)
| KHist (v s : Qc) (u : uc) (ops : list mop) (value error : Qc) (units : uc)
(* join_unc *)
| KJoin (sep lpar rpar m u expected : string).

Definition tokres_ok (x : res (list utok)) (e : tokres) : bool :=
  match x, e with
  | Ok l, TROk l' => bool_decide (l = l')
  | Err a, TRErr b => bool_decide (ecls_of a = b)
  | _, _ => false
  end.

Definition first_pm_values (l : list utok) : option (Qc * Qc) :=
  (fix go (prev : option utok) (l : list utok) :=
     match l with
     | [] => None
     | t :: l' =>
         if String.eqb (tx t) "+/-" then
           match prev, l' with
           | Some p, s :: _ =>
               match parse_number (tx p), parse_number (tx s) with
               | Some a, Some b => Some (a, b)
               | _, _ => None
               end
           | _, _ => None
           end
         else go (Some t) l'
     end) None l.

Section WithReg.
  Context (q : quirks) (r : reg).

  Definition vars_of (V : list (positive * (Qc * Qc * uc))) : vars :=
    list_to_map (map (λ x, (x.1, (x.2.1.1, x.2.2))) V).
  Definition env_of (V : list (positive * (Qc * Qc * uc))) : venv :=
    list_to_map (map (λ x, (x.1, x.2.1.2)) V).

  Definition c19_ok (c : c19case) : bool :=
    match c with
    | KTok input e => tokres_ok (unc_tokenize q input) e
    | KReplace s e => String.eqb (replace_pm s) e
    | KRender n toks =>
        let rc := render_unc n in
        bool_decide (take (length rc) (map core_of toks) = rc)
    | KTree pa pe input e =>
        match (l ←r unc_tokenize q input; build2 pa pe op_priority (map to_tok l)), e with
        | Ok t, Some s => String.eqb (show_tree t) s
        | Err _, None => true
        | _, _ => false
        end
    | KTokVal input n s =>
        match unc_tokenize q input with
        | Ok l => match first_pm_values l with
                  | Some (a, b) => close rtol n a (Qcabs a) && close rtol s b (Qcabs b)
                  | None => false
                  end
        | Err _ => false
        end
    | KPrio tbl => bool_decide (tbl = op_priority)
    | KConv src dst e =>
        match conv_affine r src dst, e with
        | Ok (a, b), CVOk a' b' => bool_decide (a = a') && bool_decide (b = b')
        | Err x, CVErr y => bool_decide (ecls_of x = y)
        | _, _ => false
        end
    | KCtor c e =>
        match ctor_norm r c, e with
        | Ok (v, s, u), CTOk v' s' u' =>
            close rtol v' v (Qcabs v) && close rtol s' s (Qcabs s + ctor_slack r c) && uc_eqb u u'
        | Err x, CTErr y => bool_decide (ctor_ecls c x = y)
        | _, _ => false
        end
    | KAccess v s u dst value error rel =>
        let i := 1%positive in
        let E := env_new ∅ i (v, s, u) in
        match conv_affine r u dst, meas_to r (meas_new i (v, s, u)) dst with
        | Ok c, Ok m =>
            let B := babs_conv r u dst c (Aff (Qcabs v) {[ i := 1%Qc ]}) in
            close rtol value (m_value m).1 (nom B) &&
            match m_error E m with
            | Some (x, u') => close rtol error x x && uc_eqb u' dst
            | None => false
            end &&
            match m_rel E m, rel with
            | Ok x, Some y => close (rtol * (1 + nom B / Qcabs (m_value m).1)) y x x
            | Err EZeroDiv, None => true
            | _, _ => false
            end
        | _, _ => false
        end
    | KExpr blind V e ex =>
        match mbound blind r (vars_of V) e, ex with
        | Ok (m, B), EXOk n v u =>
            let E := env_of V in
            close rtol n (nom (m_mag m)) (nom B) &&
            close rtol v (variance E (m_mag m)) (variance E B) &&
            uc_eqb (m_units m) u
        | Err x, EXErr y => bool_decide (ecls_of x = y)
        | _, _ => false
        end
    | KBare sub swap v s u bn bs ex =>
        let E : venv := {[ 1%positive := s; 2%positive := bs ]} in
        let m := Meas (aff_var 1 v) u in
        let b := aff_var 2 bn in
        match meas_addsub_bare sub r E m b, ex with
        | Ok z, EXOk n vr u' =>
            let mg := if swap && sub then aff_affine (-1) 0 (m_mag z) else m_mag z in
            let c := match conv_affine r u (m_units z) with Ok c => c | Err _ => (1, 0)%Qc end in
            let B := aff_add (babs_conv r u (m_units z) c (Aff (Qcabs v) {[ 1%positive := 1%Qc ]})) (Aff (Qcabs bn) {[ 2%positive := 1%Qc ]}) in
            close rtol n (nom mg) (nom B) && close rtol vr (variance E mg) (variance E B) && uc_eqb (m_units z) u'
        | Err x, EXErr y => bool_decide (ecls_of x = y)
        | _, _ => false
        end
    | KHist v s u ops value error units =>
        let i := 1%positive in
        let E : venv := {[ i := s ]} in
        let m0 := Meas (aff_var i v) u in
        let B := fold_left (λ (mb : meas * aff) o,
                   match o with
                   | OIto d => match conv_affine r (m_units mb.1) d, meas_to r mb.1 d with
                               | Ok c, Ok m' => (m', babs_conv r (m_units mb.1) d c mb.2)
                               | _, _ => mb
                               end
                   | _ => mb
                   end) ops (m0, Aff (Qcabs v) {[ i := 1%Qc ]}) in
        let m := mrun r m0 ops in
        close rtol value (m_value m).1 (nom B.2) &&
        match m_error E m with
        | Some (x, u') => close rtol error x x && uc_eqb u' units
        | None => false
        end && uc_eqb (m_value m).2 units
    | KJoin sep lpar rpar m u e => String.eqb (join_unc sep lpar rpar m u) e
    end.
End WithReg.
