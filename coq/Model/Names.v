(** Model/Names.v — unit-name resolution at the API level (C08), on top of Model/Registry.v:
    case-insensitive lookup through the lower-cased index ([_units_casei]), the generic
    resolution functions (exact entry first, then the first candidate, offset-unit refusal,
    lazy registration), [parse_units_as_container] with delta substitution, the parse cache,
    [getattr_maybe_raise], [__getattr__] and [__contains__].
    Mirrors pint/facets/plain/registry.py, pint/facets/nonmultiplicative/registry.py and
    pint/util.py.  Definitions only. *)
From Coq Require Import Ascii String.
From PintV Require Import Model.UC Model.Eval Model.Registry.
Open Scope string_scope.

(** * [str.lower()] on UTF-8 text.
    Exact on ASCII, Latin-1 (À–Þ), Ħ, Greek capitals and the letter-like signs Ω (ohm), K (kelvin),
    Å (angstrom); every other code point is left alone.  (The harness only asks case-insensitive
    questions about strings on which this function agrees with Python's; final-sigma contexts are
    excluded.) *)
Definition byte (a : ascii) : N := Ascii.N_of_ascii a.
Definition chr (n : N) : ascii := Ascii.ascii_of_N n.
Definition inr (lo n hi : N) : bool := (lo <=? n)%N && (n <=? hi)%N.

Fixpoint lower (s : string) : string :=
  match s with
  | EmptyString => EmptyString
  | String a s1 =>
      let n := byte a in
      if inr 65 n 90 then String (chr (n + 32)) (lower s1)
      else
        match s1 with
        | EmptyString => String a EmptyString
        | String b s2 =>
            let m := byte b in
            if (n =? 195)%N && inr 128 m 158 && negb (m =? 151)%N
            then String a (String (chr (m + 32)) (lower s2))
            else if (n =? 196)%N && (m =? 166)%N
            then String a (String (chr 167) (lower s2))
            else if (n =? 206)%N && inr 145 m 159
            then String a (String (chr (m + 32)) (lower s2))
            else if (n =? 206)%N && inr 160 m 171 && negb (m =? 162)%N
            then String (chr 207) (String (chr (m - 32)) (lower s2))
            else if (n =? 226)%N && (m =? 132)%N then
              match s2 with
              | String c s3 =>
                  let k := byte c in
                  if (k =? 166)%N then String (chr 207) (String (chr 137) (lower s3))
                  else if (k =? 170)%N then String "k"%char (lower s3)
                  else if (k =? 171)%N then String (chr 195) (String (chr 165) (lower s3))
                  else String a (lower s1)
              | EmptyString => String a (lower s1)
              end
            else String a (lower s1)
        end
  end.

(** * Registry with the case-insensitive index and the parse cache *)
(** registry options and the two defect switches of this layer (both off = the unchanged code):
    [c_symexact] = [get_symbol] looks for an exact entry first (the proposed repair of F45);
    [c_lazyfix]  = lazily registered prefix+unit names are definitions but not spellings: name
                   parsing and the exact lookup skip them, and registration never replaces an entry
                   (the proposed repair of F3 / F46 / F47 / F48). *)
Record cfg := Cfg { c_case : bool; c_delta : bool; c_symexact : bool; c_lazyfix : bool }.
Definition default_cfg : cfg := Cfg true true false false.

Record nreg := NReg {
  n_reg : reg;
  n_casei : gmap string (list string);   (* lower-cased spelling ↦ real spellings; no lazily added names *)
  n_cache : gmap string uc;              (* [_cache.parse_unit] *)
  n_lazy : list string }.                (* names registered by [get_name] (and while building) *)
(** the spellings hidden from name parsing *)
Definition nohid : string → bool := λ _, false.
Definition n_hid (nr : nreg) (c : cfg) : string → bool :=
  if c_lazyfix c then (λ k, existsb (String.eqb k) (n_lazy nr)) else nohid.

Definition casei_add (k : string) (m : gmap string (list string)) : gmap string (list string) :=
  <[lower k := k :: default [] (m !! lower k)]> m.
Definition casei_index (r : reg) : gmap string (list string) :=
  foldr (λ kv m, casei_add kv.1 m) ∅ (map_to_list (r_units r)).

(** the registry as constructed: definitions loaded (the index is complete at that point), then
    [_build_cache], whose lazily registered names do not enter the index *)
Definition nload (ds : list rawdef) : res nreg :=
  r ←r elab ds;
  let r' := build_cache r in
  Ok (NReg r' (casei_index r) ∅
           (filter (λ k, bool_decide (r_units r !! k = None)) (map fst (map_to_list (r_units r'))))).

Definition nreg_of (ds : list rawdef) : nreg :=
  match nload ds with Ok nr => nr | Err _ => NReg empty_reg ∅ ∅ [] end.

(** * Candidate enumeration with the case-sensitivity flag: [_yield_unit_triplets] *)
Definition strip_name (s pk suffix : string) : string :=
  let name := str_drop (String.length pk) s in
  if String.eqb suffix "" then name
  else str_take (String.length name - String.length suffix) name.
Definition plural_guard (suffix name : string) : bool :=
  negb (String.eqb suffix "") && Nat.eqb (ulen name) 1.

Definition lookup_defs (nr : nreg) (hid : string → bool) (cs : bool) (name : string) : list udef :=
  if cs then (if hid name then [] else match r_units (n_reg nr) !! name with Some d => [d] | None => [] end)
  else omap (λ real, r_units (n_reg nr) !! real) (default [] (n_casei nr !! lower name)).

(** (the test on the suffix does not depend on the prefix: it is made once per suffix) *)
Definition triplets_cs (nr : nreg) (hid : string → bool) (cs : bool) (s : string) : list (string * string) :=
  flat_map (λ suffix,
    if ends_with suffix s then
      flat_map (λ pk,
        if String.prefix pk s then
          let name := strip_name s pk suffix in
          if plural_guard suffix name then []
          else match r_prefixes (n_reg nr) !! pk with
               | Some p => map (λ d, (p_name p, u_name d)) (lookup_defs nr hid cs name)
               | None => []
               end
        else []) (r_prefix_keys (n_reg nr))
    else []) suffixes.

Definition n_cand (nr : nreg) (hid : string → bool) (cs : bool) (s : string) : list (string * string) :=
  dedup_candidates (triplets_cs nr hid cs s).

(** * Resolution, generic in the candidate function *)
Section Resolve.
  Context (r : reg) (symexact : bool) (hid : string → bool) (noreplace : bool)
          (cand : string → list (string * string)).

  (** the exact entry, unless the spelling is hidden *)
  Definition g_exact (s : string) : option udef := if hid s then None else r_units r !! s.

  Definition g_get_symbol (s : string) : res string :=
    match (if symexact then g_exact s else None) with
    | Some d => Ok (u_symbol d)
    | None =>
        match cand s with
        | [] => Err (EUndefined s)
        | (p, u) :: _ =>
            match r_prefixes r !! p, r_units r !! u with
            | Some pd, Some ud => Ok (p_symbol pd ++ u_symbol ud)
            | _, _ => Err EKey
            end
        end
    end.

  Definition g_prefixed_def (p u : string) : res udef :=
    match r_prefixes r !! p, r_units r !! u with
    | Some pd, Some ud =>
        if negb (u_multiplicative ud) then Err EOffset
        else sym ←r g_get_symbol (p ++ u);
             Ok (UDef (p ++ u) (Some sym) [] (p_val pd) false CScale {[ u := 1%Qc ]} false)
    | _, _ => Err EKey
    end.

  Definition g_resolve (s : string) : res udef :=
    match g_exact s with
    | Some d => Ok d
    | None =>
        match cand s with
        | [] => Err (EUndefined s)
        | (p, u) :: _ =>
            if String.eqb p "" then
              match r_units r !! u with Some d => Ok d | None => Err EKey end
            else if noreplace then
              (* the repaired [get_name] builds the definition only when the name is new *)
              match r_units r !! (p ++ u) with
              | Some d => match r_prefixes r !! p, r_units r !! u with
                          | Some _, Some ud => if negb (u_multiplicative ud) then Err EOffset else Ok d
                          | _, _ => Err EKey
                          end
              | None => g_prefixed_def p u
              end
            else g_prefixed_def p u
        end
    end.

  Definition g_get_name (s : string) : res string :=
    if String.eqb s "dimensionless" then Ok ""
    else match g_exact s with
         | Some d => Ok (u_name d)
         | None =>
             match cand s with
             | [] => Err (EUndefined s)
             | (p, u) :: _ =>
                 if String.eqb p "" then
                   match r_units r !! u with Some d => Ok (u_name d) | None => Err EKey end
                 else d ←r g_resolve s; Ok (if noreplace then p ++ u else u_name d)
             end
         end.

  (** the unit table after [get_name s] (for [s] other than "dimensionless"), and the name that was
      newly registered, if any *)
  Definition g_register (s : string) : reg * option string :=
    match g_exact s with
    | Some _ => (r, None)
    | None =>
        match cand s with
        | (p, u) :: _ =>
            if String.eqb p "" then (r, None) else
            if noreplace && bool_decide (is_Some (r_units r !! (p ++ u))) then (r, None) else
            match g_prefixed_def p u with
            | Ok d => (Reg (<[p ++ u := d]> (r_units r)) (r_unit_names r) (r_prefixes r)
                           (r_prefix_keys r) (r_dims r) (r_base_units r),
                       if bool_decide (r_units r !! (p ++ u) = None) then Some (p ++ u) else None)
            | Err _ => (r, None)
            end
        | [] => (r, None)
        end
    end.
End Resolve.

Definition n_get_name (nr : nreg) (c : cfg) (cs : bool) (s : string) : res string :=
  g_get_name (n_reg nr) (c_symexact c) (n_hid nr c) (c_lazyfix c) (n_cand nr (n_hid nr c) cs) s.
Definition n_get_symbol (nr : nreg) (c : cfg) (cs : bool) (s : string) : res string :=
  g_get_symbol (n_reg nr) (c_symexact c) (n_hid nr c) (n_cand nr (n_hid nr c) cs) s.
Definition n_resolve (nr : nreg) (c : cfg) (cs : bool) (s : string) : res udef :=
  g_resolve (n_reg nr) (c_symexact c) (n_hid nr c) (c_lazyfix c) (n_cand nr (n_hid nr c) cs) s.
(** the state after [get_name s], given the candidate function used for [s] *)
Definition n_register_with (nr : nreg) (c : cfg) (cand : string → list (string * string)) (s : string) : nreg :=
  if String.eqb s "dimensionless" then nr
  else let '(r', new) := g_register (n_reg nr) (c_symexact c) (n_hid nr c) (c_lazyfix c) cand s in
       NReg r' (n_casei nr) (n_cache nr) (match new with Some k => k :: n_lazy nr | None => n_lazy nr end).
Definition n_register (nr : nreg) (c : cfg) (cs : bool) (s : string) : nreg :=
  n_register_with nr c (n_cand nr (n_hid nr c) cs) s.

(** * [parse_units_as_container] *)
Inductive ekind := KUndefined | KOffset | KAttribute | KValue | KOther.
Definition ekind_of (e : err) : ekind :=
  match e with EUndefined _ => KUndefined | EOffset => KOffset | EValue => KValue | _ => KOther end.
Inductive ures (A : Type) := UOk (a : A) | UErr (k : ekind).
Arguments UOk {A} a. Arguments UErr {A} k.
Definition ures_of {A} (x : res A) : ures A :=
  match x with Ok a => UOk a | Err e => UErr (ekind_of e) end.

Fixpoint nodup_str (l : list string) (seen : list string) : list string :=
  match l with
  | [] => []
  | x :: l' => if existsb (String.eqb x) seen then nodup_str l' seen else x :: nodup_str l' (x :: seen)
  end.
(** [ParserHelper.from_string] for unit expressions.  Model/Eval.v's [pv_div] gives up on the scale
    as soon as the divisor went through a non-integer power; for unit expressions the scale of
    [name ** 0.5] is the float 1.0, which pint divides by without trouble.  A flagged scale is exact
    unless it is the placeholder 0 (irrational). *)
Definition upv_div (a b : pval) : res pval :=
  match a, b with
  | PPh p f, PPh q g =>
      if qz (ph_scale q) then (if g then Ok (PPh (PH 0 (uc_div (ph_d p) (ph_d q))) true) else Err EZeroDiv)
      else Ok (PPh (PH (ph_scale p / ph_scale q) (uc_div (ph_d p) (ph_d q))) (f || g))
  | _, _ => pv_div a b
  end.
Definition upv_binop (op : string) : option (pval → pval → res pval) :=
  if String.eqb op "/" then Some upv_div
  else if String.eqb op "//" then Some (λ a b, match a, b with PNum _ _, PNum _ _ => Err EOther | _, _ => upv_div a b end)
  else pv_binop op.
Definition uph_from_tokens (toks : list tok) : res ph :=
  t ←r build op_priority toks;
  v ←r evaluate ph_leaf upv_binop pv_unop t;
  match v with PNum q _ => Ok (ph_of_num q) | PPh p _ => Ok p end.

(** iteration order of the ParserHelper: names in order of first occurrence *)
Definition names_in_order (toks : list tok) (d : uc) : list (string * Qc) :=
  omap (λ n, (λ v, (n, v)) <$> d !! n)
       (nodup_str (omap (λ t, match t with TName s => Some s | _ => None end) toks) []).

(** the name a resolved unit contributes to the result: offset and logarithmic units become their
    [delta_] counterpart when [as_delta] and the expression is compound *)
Definition delta_name (r : reg) (as_delta many : bool) (value : Qc) (cname : string) : res string :=
  if as_delta && (many || negb (bool_decide (value = 1%Qc))) then
    match r_units r !! cname with
    | Some d => Ok (if u_multiplicative d then cname else "delta_" ++ cname)
    | None => Err EKey
    end
  else Ok cname.

Fixpoint pu_fold (c : cfg) (cs as_delta many : bool) (nr : nreg) (acc : uc) (l : list (string * Qc))
  : nreg * res uc :=
  match l with
  | [] => (nr, Ok acc)
  | (n, v) :: l' =>
      match n_get_name nr c cs n with
      | Err e => (nr, Err e)
      | Ok cname =>
          let nr' := n_register nr c cs n in
          if String.eqb cname "" then pu_fold c cs as_delta many nr' acc l'
          else match delta_name (n_reg nr') as_delta many v cname with
               | Err e => (nr', Err e)
               | Ok k => pu_fold c cs as_delta many nr' (uc_add acc k v) l'
               end
      end
  end.

Definition cache_put (nr : nreg) (text : string) (u : uc) : nreg :=
  NReg (n_reg nr) (n_casei nr) (<[text := u]> (n_cache nr)) (n_lazy nr).

(** [text] is the input string (key of the parse cache), [toks] its tokens *)
Definition parse_units_st (nr : nreg) (c : cfg) (text : string) (toks : list tok)
    (as_delta cs : option bool) : nreg * res uc :=
  let ad := default (c_delta c) as_delta in
  let cs := default (c_case c) cs in
  match (if ad then n_cache nr !! text else None), r_units (n_reg nr) !! text with
  | Some u, Some _ => (nr, Ok u)
  | _, _ =>
      if String.eqb text "" then (nr, Ok ∅) else
      match uph_from_tokens toks with
      | Err e => (nr, Err e)
      | Ok p =>
          if negb (bool_decide (ph_scale p = 1%Qc)) then (nr, Err EValue) else
          let l := names_in_order toks (ph_d p) in
          let '(nr', x) := pu_fold c cs ad (Nat.ltb 1 (length (map_to_list (ph_d p)))) nr ∅ l in
          match x with
          | Ok u => (if ad then cache_put nr' text u else nr', Ok u)
          | Err e => (nr', Err e)
          end
      end
  end.

(** * [getattr_maybe_raise], [__getattr__], [__contains__] *)
Fixpoint lstrip_us (s : string) : string :=
  match s with String "_"%char s' => lstrip_us s' | _ => s end.
Definition is_digit_start (s : string) : bool :=
  match s with String a _ => inr 48 (byte a) 57 | EmptyString => false end.
Definition attr_refused (s : string) : bool :=
  ends_with "__" s || String.eqb (lstrip_us s) "" || (String.prefix "_" s && negb (is_digit_start (lstrip_us s))).

Definition n_getattr (nr : nreg) (c : cfg) (text : string) (toks : list tok) : nreg * ures uc :=
  if attr_refused text then (nr, UErr KAttribute)
  else let '(nr', x) := parse_units_st nr c text toks None None in (nr', ures_of x).
Definition n_contains (nr : nreg) (c : cfg) (text : string) (toks : list tok) : nreg * ures bool :=
  let '(nr', x) := n_getattr nr c text toks in
  (nr', match x with UOk _ => UOk true | UErr KUndefined => UOk false | UErr k => UErr k end).

(** * The symbol stored with a definition ([_get_symbol], read by the short "~" formats), observed
    after [get_name s]: for a lazily registered prefix+unit name it is what [get_symbol] answered
    when the name was registered *)
Definition n_def_symbol (nr : nreg) (n : string) : ures string :=
  match r_units (n_reg nr) !! n with Some d => UOk (u_symbol d) | None => UErr KOther end.
Definition n_name_then_symbol (nr : nreg) (c : cfg) (cs : bool) (s : string) : nreg * ures string :=
  let nr' := n_register nr c cs s in
  (nr', match n_get_name nr c cs s with Ok n => n_def_symbol nr' n | Err e => UErr (ekind_of e) end).

(** * Histories of lookups (for the history-independence statements) *)
Definition run_history (r : reg) (hist : list string) : reg := fold_left register hist r.
