(** Model/NamesRun.v — correspondence cases for unit-name resolution (C08).  A case is a
    sequence of API calls on one registry, each carrying the implementation's observed result;
    [c08_ok] replays the sequence on the model (state: lazily registered names, parse cache) and
    is true when every observation is reproduced. *)
From Coq Require Import Ascii String Uint63.
From PintV Require Import Model.UC Model.Eval Model.Registry Model.UCRun Model.Names.
Open Scope string_scope.

(** compact string literals for the harness: seven bytes per 63-bit integer, little endian, no
    zero byte (Coq 8.16 elaborates ["…"] literals character by character, which dominated the
    cost of a shard) *)
Fixpoint bytes_of (fuel : nat) (x : int) : string :=
  match fuel with
  | O => EmptyString
  | S f => if Uint63.eqb x 0 then EmptyString
           else String (Ascii.ascii_of_N (Z.to_N (Uint63.to_Z (Uint63.land x 255)))) (bytes_of f (Uint63.lsr x 8))
  end.
Definition s_ (l : list int) : string :=
  fold_right (λ x acc, String.append (bytes_of 7 x) acc) EmptyString l.
Arguments s_ l%uint63_scope.

Definition ekind_eqb (a b : ekind) : bool :=
  match a, b with
  | KUndefined, KUndefined | KOffset, KOffset | KAttribute, KAttribute | KValue, KValue | KOther, KOther => true
  | _, _ => false
  end.
Definition ures_eqb {A} (f : A → A → bool) (x y : ures A) : bool :=
  match x, y with
  | UOk a, UOk b => f a b
  | UErr j, UErr k => ekind_eqb j k
  | _, _ => false
  end.
Definition cands_eqb (l e : list (string * string)) : bool :=
  Nat.eqb (length l) (length e) && forallb (λ ab : (string * string) * (string * string), pair_eqb ab.1 ab.2) (zip l e).
(** same candidates up to order (case-insensitive lookups iterate a Python set) *)
Definition cands_perm (l e : list (string * string)) : bool :=
  Nat.eqb (length l) (length e) && forallb (λ x, existsb (pair_eqb x) e) l && forallb (λ x, existsb (pair_eqb x) l) e.

Inductive nop :=
| OParse (cs : option bool) (s : string) (exp : list (string * string))
| OName (cs : option bool) (s : string) (exp : ures string)
| OSymbol (cs : option bool) (s : string) (exp : ures string)
| ODefSym (cs : option bool) (s : string) (exp : ures string)   (* get_name s, then the symbol stored with that name *)
| OAll (s : string) (ep : list (string * string)) (en es : ures string)
    (* parse_unit_name, get_name, get_symbol with the registry's case sensitivity, all on the same state *)
| OUnits (text : string) (toks : list tok) (ad cs : option bool) (exp : ures uc)
| OGetattr (text : string) (toks : list tok) (exp : ures uc)
| OIn (text : string) (toks : list tok) (exp : ures bool).

(** with case-insensitive lookup the order of candidates that differ only in the real spelling
    chosen is that of a Python set: any of them may come first.  [cand_first] puts a chosen
    candidate in front for the string asked (only). *)
Definition cand_first (nr : nreg) (c : cfg) (cs : bool) (s : string) (c0 : string * string) : string → list (string * string) :=
  λ s', if String.eqb s' s then c0 :: n_cand nr (n_hid nr c) cs s' else n_cand nr (n_hid nr c) cs s'.
Definition choices (nr : nreg) (c : cfg) (cs : bool) (s : string) : list (string → list (string * string)) :=
  if cs then [n_cand nr (n_hid nr c) cs]
  else match n_cand nr (n_hid nr c) cs s with
       | [] => [n_cand nr (n_hid nr c) cs]
       | l => map (cand_first nr c cs s) l
       end.
Definition gname (nr : nreg) (c : cfg) cand s := g_get_name (n_reg nr) (c_symexact c) (n_hid nr c) (c_lazyfix c) cand s.
Definition gsymbol (nr : nreg) (c : cfg) cand s := g_get_symbol (n_reg nr) (c_symexact c) (n_hid nr c) cand s.
(** the choice under which the model reproduces the observed answer (first one), if any *)
Definition pick_name (nr : nreg) (c : cfg) (cs : bool) (s : string) (exp : ures string) :=
  find (λ cand, ures_eqb String.eqb (ures_of (gname nr c cand s)) exp) (choices nr c cs s).
Definition pick_symbol (nr : nreg) (c : cfg) (cs : bool) (s : string) (exp : ures string) :=
  find (λ cand, ures_eqb String.eqb (ures_of (gsymbol nr c cand s)) exp) (choices nr c cs s).

Definition nstep (c : cfg) (nr : nreg) (o : nop) : nreg * bool :=
  match o with
  | OParse cs s exp =>
      let cs := default (c_case c) cs in
      (nr, if cs then cands_eqb (n_cand nr (n_hid nr c) cs s) exp else cands_perm (n_cand nr (n_hid nr c) cs s) exp)
  | OName cs s exp =>
      let cs := default (c_case c) cs in
      match pick_name nr c cs s exp with
      | Some cand => (n_register_with nr c cand s, true)
      | None => (n_register nr c cs s, false)
      end
  | OSymbol cs s exp =>
      let cs := default (c_case c) cs in
      (nr, match pick_symbol nr c cs s exp with Some _ => true | None => false end)
  | ODefSym cs s exp =>
      let '(nr', x) := n_name_then_symbol nr c (default (c_case c) cs) s in (nr', ures_eqb String.eqb x exp)
  | OAll s ep en es =>
      if c_case c then
        let l := n_cand nr (n_hid nr c) true s in
        let cand := λ s', if String.eqb s' s then l else n_cand nr (n_hid nr c) true s' in
        (n_register_with nr c cand s,
         cands_eqb l ep
         && ures_eqb String.eqb (ures_of (gname nr c cand s)) en
         && ures_eqb String.eqb (ures_of (gsymbol nr c cand s)) es)
      else
        (n_register nr c false s,
         cands_perm (n_cand nr (n_hid nr c) false s) ep
         && match pick_name nr c false s en with Some _ => true | None => false end
         && match pick_symbol nr c false s es with Some _ => true | None => false end)
  | OUnits text toks ad cs exp =>
      let '(nr', x) := parse_units_st nr c text toks ad cs in (nr', ures_eqb uc_eqb (ures_of x) exp)
  | OGetattr text toks exp =>
      let '(nr', x) := n_getattr nr c text toks in (nr', ures_eqb uc_eqb x exp)
  | OIn text toks exp =>
      let '(nr', x) := n_contains nr c text toks in (nr', ures_eqb Bool.eqb x exp)
  end.

Fixpoint nrun (c : cfg) (nr : nreg) (ops : list nop) : bool :=
  match ops with
  | [] => true
  | o :: ops' => let '(nr', ok) := nstep c nr o in if ok then nrun c nr' ops' else false
  end.

Inductive ncase :=
| NSeq (c : cfg) (ops : list nop)        (* one registry, calls in sequence *)
| NFresh (c : cfg) (ops : list nop).     (* every call on the registry as constructed *)

Definition c08_ok (nr0 : nreg) (k : ncase) : bool :=
  match k with
  | NSeq c ops => nrun c nr0 ops
  | NFresh c ops => forallb (λ o, snd (nstep c nr0 o)) ops
  end.

