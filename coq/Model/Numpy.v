(** Model/Numpy.v — executable model of pint's NumPy *unit bookkeeping*
    (pint/facets/numpy/numpy_func.py, pint/facets/numpy/quantity.py).

    The numerical kernels are NumPy's and are not modelled.  What is modelled is which
    arguments are converted to which unit before the call, which unit is attached to the
    result, and which error class is raised.  Definitions only; proofs are in
    Proofs/NumpyProofs.v.  The behaviour tables themselves are regenerated from the source by
    harness/t3_numpy.py into Gen/NumpyTables.v, which imports the types defined here. *)
From PintV Require Export Model.UC.
Open Scope string_scope.

(** * Results *)
Inductive err := EDim | EOffset | EValue | EType | EOther.
Inductive res (A : Type) := Ok (a : A) | Err (e : err).
Arguments Ok {A} a.
Arguments Err {A} e.
Definition rbind {A B} (x : res A) (f : A → res B) : res B :=
  match x with Ok a => f a | Err e => Err e end.
Notation "'do' x <- e ; f" := (rbind e (λ x, f)) (at level 200, x name, e at level 100, f at level 200).
Notation "'do_' e ; f" := (rbind e (λ _, f)) (at level 200, e at level 100, f at level 200).

Definition err_eqb (a b : err) : bool :=
  match a, b with
  | EDim, EDim | EOffset, EOffset | EValue, EValue | EType, EType | EOther, EOther => true
  | _, _ => false
  end.

(** * Behaviour records (the shape of one [implement_func] registration) *)
Inductive in_rule :=
| InStrip                                  (* input_units=None: units stripped, no conversion *)
| InAllConsistent                          (* "all_consistent": everything to the first unit *)
| InToUnit (u : string)                    (* a unit string: everything to that unit *)
| InByArgument (labels : list string).     (* implement_consistent_units_by_argument *)
Inductive out_rule :=
| OutBare                                  (* output_unit=None *)
| OutMatchInput                            (* "match_input": the first input's unit *)
| OutFixed (u : string)                    (* a unit string *)
| OutOp (op : string).                     (* a [get_op_output_unit] operation *)
Record behaviour := Beh { b_in : in_rule; b_out : out_rule }.
Inductive registration :=
| RTable (b : behaviour)
| RSpecial (impl : string).                (* hand-written python function of that name *)

(** the last registration of a name wins (dict assignment) *)
Fixpoint lookup_last {A} (n : string) (l : list (string * A)) : option A :=
  match l with
  | [] => None
  | (k, v) :: r => match lookup_last n r with Some x => Some x | None => if String.eqb n k then Some v else None end
  end.
Fixpoint assoc {A} (n : string) (l : list (string * A)) : option A :=
  match l with
  | [] => None
  | (k, v) :: r => if String.eqb n k then Some v else assoc n r
  end.
Definition mem (n : string) (l : list string) : bool := existsb (String.eqb n) l.

(** * Unit environment: what the model needs to know about each unit name.
    [ui_dim] is the dimensionality of the unit, [ui_offset] whether it is
    non-multiplicative (degC, degF, ...).  The harness fills it from the registry. *)
Record uinfo := UI { ui_dim : uc; ui_offset : bool }.
Definition uenv := list (string * uinfo).
Definition env_get (env : uenv) (k : string) : uinfo := default (UI ∅ false) (assoc k env).

Definition dim_of (env : uenv) (u : uc) : uc :=
  foldr (λ kv acc, uc_mul acc (uc_pow (ui_dim (env_get env kv.1)) kv.2)) ∅ (map_to_list u).
Definition dimensionless (env : uenv) (u : uc) : bool := uc_eqb (dim_of env u) ∅.
Definition non_mult (env : uenv) (u : uc) : list (string * Qc) :=
  List.filter (λ kv, ui_offset (env_get env kv.1)) (map_to_list u).
Definition is_mult (env : uenv) (u : uc) : bool := match non_mult env u with [] => true | _ => false end.

Definition q1 : Qc := 1%Qc.
Definition unit_of_str (s : string) : uc := if String.eqb s "" then ∅ else {[ s := q1 ]}.

(** [NonMultiplicativeRegistry._validate_and_extract] (autoconvert off): at most one offset
    unit, exponent 1, alone in the container.  [Some None]: no offset unit; [None]: refused. *)
Definition validate_extract (env : uenv) (u : uc) : option (option string) :=
  match non_mult env u with
  | [] => Some None
  | [(k, e)] => if bool_decide (e = q1) && Nat.eqb (length (map_to_list u)) 1 then Some (Some k) else None
  | _ => None
  end.
Definition has_delta_name (u : uc) : bool :=
  existsb (λ kv, String.prefix "delta_" kv.1) (map_to_list u).

(** [Quantity.m_as / to]: identical units convert trivially; otherwise both sides must pass
    [_validate_and_extract], have the same dimensionality, and an offset unit never converts
    to or from a container mentioning a [delta_] unit.  Every refusal is a
    DimensionalityError. *)
Definition convert_ok (env : uenv) (src dst : uc) : bool :=
  uc_eqb src dst ||
  match validate_extract env src, validate_extract env dst with
  | Some so, Some dso =>
      uc_eqb (dim_of env src) (dim_of env dst)
      && negb (bool_decide (so ≠ None) && has_delta_name dst)
      && negb (bool_decide (dso ≠ None) && has_delta_name src)
  | _, _ => false
  end.
Definition convert_q (env : uenv) (src dst : uc) : res unit :=
  if convert_ok env src dst then Ok tt else Err EDim.

(** * Arguments as the bookkeeping sees them *)
Inductive sarg :=
| SQ (u : uc)          (* a Quantity (scalar or array) *)
| SNum (zn : bool)     (* a bare number / array; [zn]: every element is zero or NaN *)
| SBool                (* a python bool *)
| SNone
| SOther.              (* anything else (str, ...): only ever passed through *)
Inductive arg :=
| A1 (s : sarg)
| ASeq (l : list sarg). (* a sequence with at least one Quantity element *)

Definition is_quantity (a : arg) : bool := match a with A1 (SQ _) => true | _ => false end.
Definition arg_units (a : arg) : option uc := match a with A1 (SQ u) => Some u | _ => None end.
Definition sarg_first (s : sarg) : option uc := match s with SQ u => Some u | _ => None end.
Fixpoint first_some {A} (l : list (option A)) : option A :=
  match l with [] => None | Some x :: _ => Some x | None :: r => first_some r end.
(** [_get_first_input_units] *)
Definition first_units (args : list arg) : res uc :=
  match first_some (map (λ a, match a with A1 s => sarg_first s | ASeq l => first_some (map sarg_first l) end) args) with
  | Some u => Ok u
  | None => Err EType
  end.

(** [convert_arg] on one non-sequence argument *)
Definition convert_sarg (env : uenv) (pre : option uc) (a : sarg) : res unit :=
  match a, pre with
  | SBool, _ => Ok tt
  | _, None => Ok tt
  | SQ u, Some t => convert_q env u t
  | SNone, Some _ => Ok tt
  | SNum zn, Some t =>
      if dimensionless env t then convert_q env ∅ t   (* Quantity(arg).m_as(pre_calc_units) *)
      else if zn then Ok tt
      else Err EDim
  | SOther, Some _ => Err EOther
  end.
Fixpoint convert_sargs (env : uenv) (pre : option uc) (l : list sarg) : res unit :=
  match l with
  | [] => Ok tt
  | a :: r => do_ convert_sarg env pre a; convert_sargs env pre r
  end.
Definition convert_arg (env : uenv) (pre : option uc) (a : arg) : res unit :=
  match a with A1 s => convert_sarg env pre s | ASeq l => convert_sargs env pre l end.
(** [convert_to_consistent_units]: positional arguments first, then keyword values *)
Fixpoint convert_all (env : uenv) (pre : option uc) (args : list arg) : res unit :=
  match args with
  | [] => Ok tt
  | a :: r => do_ convert_arg env pre a; convert_all env pre r
  end.

(** [unwrap_and_wrap_consistent_units]: [None] = identity wrapper (no Quantity among the
    arguments), [Some u] = output wrapped with the first unit [u]. *)
Definition uwc (env : uenv) (args : list arg) : res (option uc) :=
  if forallb (λ a, negb (is_quantity a)) args then Ok None
  else do first <- first_units args; do_ convert_all env (Some first) args; Ok (Some first).

(** * [get_op_output_unit] on unit containers.
    [(1*u + 1*u).units] and [(1*u - 1*u).units] follow [PlainQuantity._add_sub] for two
    operands with the same units: multiplicative units are kept; with exactly one offset unit
    of exponent 1 a difference renames it to its [delta_] unit; everything else is an
    OffsetUnitCalculusError.  (Containers mixing an offset unit with its own delta unit are
    outside the model's domain.) *)
Definition qc_of_Z (z : Z) : Qc := Q2Qc (z # 1).
Definition q2 : Qc := qc_of_Z 2.
Definition qhalf : Qc := Q2Qc (1 # 2).
Definition qthird : Qc := Q2Qc (1 # 3).
Definition qm1 : Qc := qc_of_Z (-1).

Definition sum_units (env : uenv) (u : uc) : res uc :=
  if is_mult env u then Ok u else Err EOffset.
Definition delta_units (env : uenv) (u : uc) : res uc :=
  match non_mult env u with
  | [] => Ok u
  | [(k, e)] =>
      if bool_decide (e = q1) then
        match uc_rename u k ("delta_" ++ k) with Some r => Ok r | None => Err EOther end
      else Err EOffset
  | _ => Err EOffset
  end.
(** product / quotient over the arguments that have a [.units] attribute *)
Definition mul_units (l : list (option uc)) : uc :=
  fold_left (λ acc x, match x with Some u => uc_mul acc u | None => acc end) l ∅.
Definition div_units (start : uc) (l : list (option uc)) : uc :=
  fold_left (λ acc x, match x with Some u => uc_div acc u | None => acc end) l start.

Definition get_op_output_unit (env : uenv) (op : string) (first : uc)
    (all_args : list (option uc)) (size : option Qc) : res uc :=
  if String.eqb op "sum" then sum_units env first
  else if String.eqb op "mul" then Ok (mul_units all_args)
  else if String.eqb op "delta" then delta_units env first
  else if String.eqb op "delta,div" then
    do d <- delta_units env first; Ok (div_units d (tail all_args))
  else if String.eqb op "div" then
    match all_args with
    | [] => Err EOther
    | a0 :: r => Ok (div_units (default ∅ a0) r)
    end
  else if String.eqb op "variance" then do s <- sum_units env first; Ok (uc_pow s q2)
  else if String.eqb op "square" then Ok (uc_pow first q2)
  else if String.eqb op "sqrt" then Ok (uc_pow first qhalf)
  else if String.eqb op "cbrt" then Ok (uc_pow first qthird)
  else if String.eqb op "reciprocal" then Ok (uc_pow first qm1)
  else if String.eqb op "size" then
    match size with Some n => Ok (uc_pow first n) | None => Err EValue end
  else if String.eqb op "invdiv" then
    match all_args with
    | [] => Err EOther
    | a0 :: r => Ok (uc_pow (div_units (default ∅ a0) r) qm1)
    end
  else Err EValue.
(** the branch names, in the order of the hand-written mirror above; tied to the source by
    [op_branches_tie] in Proofs/NumpyProofs.v *)
Definition model_op_branches : list string :=
  ["sum"; "mul"; "delta"; "delta,div"; "div"; "variance"; "square"; "sqrt"; "cbrt";
   "reciprocal"; "size"; "invdiv"].

(** * Output patterns.  [PAll r]: the result (or every element of a tuple/list result) is
    bare ([None]) or carries the unit; [PList]: element-wise. *)
Inductive pattern := PAll (r : option uc) | PList (l : list (option uc)).

(** * One [implement_func] registration applied to labelled arguments
    (positional first, then keywords: [chain(args, kwargs.values())]). *)
Definition largs := list (string * arg).
Definition lget (l : largs) (k : string) : option arg := assoc k l.
(** an argument that was supplied and is not None *)
Definition lget_given (l : largs) (k : string) : option arg :=
  match assoc k l with Some (A1 SNone) => None | x => x end.

Definition out_units (env : uenv) (o : out_rule) (first : uc) (args : list arg) : res (option uc) :=
  match o with
  | OutBare => Ok None
  | OutMatchInput => Ok (Some first)
  | OutFixed s => Ok (Some (unit_of_str s))
  | OutOp op => do u <- get_op_output_unit env op first (map arg_units args) None; Ok (Some u)
  end.

Definition run_behaviour (env : uenv) (b : behaviour) (la : largs) : res pattern :=
  match b_in b with
  | InByArgument labels =>
      (* implement_consistent_units_by_argument: only the labelled arguments that were
         supplied and are not None take part; the output is wrapped (or not) by the
         wrapper of unwrap_and_wrap_consistent_units *)
      let sel := omap (lget_given la) labels in
      do w <- uwc env sel;
      match b_out b with
      | OutBare => Ok (PAll None)
      | OutMatchInput => Ok (PAll w)
      | _ => Err EOther
      end
  | i =>
      let args := map snd la in
      do first <- first_units args;
      do_ match i with
          | InStrip => Ok tt
          | InAllConsistent => convert_all env (Some first) args
          | InToUnit s => convert_all env (Some (unit_of_str s)) args
          | InByArgument _ => Ok tt
          end;
      do r <- out_units env (b_out b) first args;
      Ok (PAll r)
  end.

(** * Hand-written mirrors of the custom implementations *)
Definition qty_units (a : option arg) : res uc :=
  match a with Some (A1 (SQ u)) => Ok u | _ => Err EOther end.   (* AttributeError otherwise *)
(** [_base_unit_if_needed] with autoconvert_offset_to_baseunit = False *)
Definition base_unit_if_needed (env : uenv) (u : uc) : res uc :=
  if is_mult env u then Ok u else Err EOffset.
Definition opt_list {A} (o : option A) : list A := match o with Some x => [x] | None => [] end.
(** positional tail of a [*args] function: labels "0", "1", ... are given by the harness in order *)
Definition positional (la : largs) (skip : list string) : list arg :=
  map snd (List.filter (λ kv, negb (mem kv.1 skip)) la).
(** [_pad._recursive_convert] on a leaf: quantities convert; bare zero/NaN takes the unit;
    any other bare number is dimensionless *)
Definition pad_leaf (env : uenv) (u : uc) (s : sarg) : res unit :=
  match s with
  | SQ v => convert_q env v u
  | SNum zn => if zn then Ok tt else convert_q env ∅ u
  | SBool => convert_q env ∅ u          (* True is a number here; False is zero *)
  | _ => Err EOther
  end.
Fixpoint pad_leaves (env : uenv) (u : uc) (l : list sarg) : res unit :=
  match l with [] => Ok tt | s :: r => do_ pad_leaf env u s; pad_leaves env u r end.
Definition pad_value (env : uenv) (u : uc) (a : option arg) : res unit :=
  match a with
  | None => Ok tt
  | Some (A1 s) => pad_leaf env u s
  | Some (ASeq l) => pad_leaves env u l
  end.

Definition xget (extras : list (string * Qc)) (k : string) : option Qc := assoc k extras.
Definition qc_is (x : option Qc) (z : Z) : bool :=
  match x with Some q => bool_decide (q = qc_of_Z z) | None => false end.

(** [Quantity.__pow__] with a bare scalar exponent [p] (autoconvert off).  The guard
    [if not self._ok_for_muldiv] tests the bound method (always true), so it never fires:
    exponent 1 returns self, exponent 0 is dimensionless, and only then offset units are
    refused. *)
Definition pow_units (env : uenv) (u : uc) (p : Qc) : res uc :=
  if bool_decide (p = q1) then Ok u
  else if qz p then Ok ∅
  else if negb (is_mult env u) then Err EOffset
  else Ok (uc_pow u p).

(** * Defect switches (DESIGN 2.6): deviations that were repaired in /repo by a fix: commit stay
    available behind a boolean, all false in [repaired]; the harness replays each witness on the
    implementation and runs the correspondence with the value that reproduces it. *)
Record quirks := Quirks {
  q_unwrap_rejects_period : bool;   (* F122: _unwrap(p, discont, axis) had no period keyword -> TypeError *)
}.
Definition repaired : quirks := Quirks false.

Definition run_special_q (q : quirks) (env : uenv) (impl name : string) (la : largs) (extras : list (string * Qc)) : res pattern :=
  let g := lget la in
  if String.eqb impl "_modf" then
    do w <- uwc env (opt_list (g "x")); Ok (PAll w)
  else if String.eqb impl "_frexp" then
    do w <- uwc env (opt_list (g "x")); Ok (PList [w; None])
  else if String.eqb impl "_power" then
    (* x1 ** x2 = PlainQuantity.__pow__.  extras: "p" = the exponent's value (in root units when it
       is a Quantity), "exp_isarray" = the exponent's magnitude is an ndarray, "exp_many" = it has
       more than one element *)
    let scalar_path (u : uc) (e_dimless : bool) :=
      match xget extras "p" with
      | Some p =>
          if e_dimless then do r <- pow_units env u p; Ok (PAll (Some r))
          else if negb (is_mult env u) then Err EOffset else Err EDim
      | None => Err EOther
      end in
    let array_path (u : uc) (e_dimless : bool) :=
      (* array exponents are refused unless the base is dimensionless; then both are taken
         in dimensionless units and the result is dimensionless *)
      if qc_is (xget extras "exp_isarray") 1 then
        if dimensionless env u then (if e_dimless then Ok (PAll (Some ∅)) else Err EDim)
        else if qc_is (xget extras "exp_many") 1 then Err EDim
        else scalar_path u e_dimless
      else scalar_path u e_dimless in
    match g "x1", g "x2" with
    | Some (A1 (SQ u)), Some (A1 (SNum _)) => array_path u true
    | Some (A1 (SQ u)), Some (A1 (SQ e)) => array_path u (dimensionless env e)
    | Some (A1 (SNum _)), Some (A1 (SQ u)) =>       (* __rpow__: exponent must be dimensionless *)
        if dimensionless env u then Ok (PAll None) else Err EDim   (* other ** root magnitude: bare *)
    | _, _ => Err EOther
    end
  else if String.eqb impl "_add" || String.eqb impl "_subtract" then
    do w <- uwc env (opt_list (g "x1") ++ opt_list (g "x2")); Ok (PAll w)
  else if String.eqb impl "_meshgrid" then
    (fix go (l : list arg) : res pattern :=
       match l with
       | [] => Ok (PList [])
       | a :: r => do u <- qty_units (Some a);
                   do p <- go r;
                   match p with PList us => Ok (PList (Some u :: us)) | _ => Err EOther end
       end) (positional la [])
  else if String.eqb impl "_full_like" then
    match g "fill_value" with
    | Some (A1 (SQ u)) => Ok (PAll (Some u))
    | _ => Ok (PAll None)
    end
  else if String.eqb impl "_interp" then
    let opt k := default (A1 SNone) (g k) in
    do_ uwc env [opt "x"; opt "xp"; opt "period"];
    do w <- uwc env [opt "fp"; opt "left"; opt "right"]; Ok (PAll w)
  else if String.eqb impl "_where" then
    do_ match g "condition" with
        | Some (A1 (SQ u)) => if is_mult env u then Ok tt else Err EValue
        | _ => Ok tt
        end;
    do w <- uwc env (positional la ["condition"]); Ok (PAll w)
  else if String.eqb impl "_concatenate" || String.eqb impl "_stack" then
    match g "seq" with
    | Some (ASeq l) => do w <- uwc env (map A1 l); Ok (PAll w)
    | _ => Err EOther
    end
  else if String.eqb impl "_unwrap" then
    (* _unwrap(p, discont=None, axis=-1, *, period=2 pi): p is unwrapped in radians; a Quantity
       period / discont is converted to radians (bare values are radians already).  Before the
       repair of F122 the keyword period was not accepted at all (TypeError). *)
    let to_rad (a : option arg) : res unit :=
      match a with Some (A1 (SQ e)) => convert_q env e (unit_of_str "rad") | _ => Ok tt end in
    match g "period", q_unwrap_rejects_period q with
    | Some _, true => Err EType
    | _, _ =>
        do_ to_rad (g "period"); do_ to_rad (g "discont");
        do u <- qty_units (g "p"); do_ convert_q env u (unit_of_str "rad");
        Ok (PAll (Some u))
    end
  else if String.eqb impl "_copyto" then
    match g "dst", g "src" with
    | Some (A1 (SQ d)), Some (A1 (SQ s)) => do_ convert_q env s d; Ok (PAll None)
    | Some (A1 (SQ d)), Some _ => Ok (PAll None)
    | Some _, Some (A1 (SQ s)) => Ok (PAll None)        (* unit stripped with a warning *)
    | _, _ => Err EOther
    end
  else if String.eqb impl "_einsum" then
    let ops := positional la ["subscripts"] in
    do first <- first_units ops;
    do u <- get_op_output_unit env "mul" first (map arg_units ops) None; Ok (PAll (Some u))
  else if String.eqb impl "_isin" then
    match g "element" with
    | Some (A1 (SQ _)) => Ok (PAll None)
    | _ => Err EValue
    end
  else if String.eqb impl "_pad" then
    do u <- qty_units (g "array");
    do_ pad_value env u (g "constant_values");
    do_ pad_value env u (g "end_values");
    Ok (PAll (Some u))
  else if String.eqb impl "_any" || String.eqb impl "_all" then
    do u <- qty_units (g "a"); if is_mult env u then Ok (PAll None) else Err EValue
  else if String.eqb impl "implement_prod_func" then
    do u <- qty_units (g "a");
    let axis := lget_given la "axis" in
    let whr := lget_given la "where" in
    let pw k := match xget extras k with Some n => Ok (PAll (Some (uc_pow u n))) | None => Err EOther end in
    match axis, whr with
    | Some _, Some _ =>
        (* exponents = unique(sum(where, axis)) *)
        if qc_is (xget extras "nexp") 1 || (qc_is (xget extras "nexp") 2 && qc_is (xget extras "exp_has0") 1)
        then pw "exp_max"
        else do_ convert_q env u ∅; Ok (PAll (Some ∅))
    | Some _, None => pw "axis_len"
    | None, Some _ => pw "where_sum"
    | None, None => if String.eqb name "nanprod" then pw "notnan" else pw "size"
    end
  else if String.eqb impl "_trapz" then
    do uy <- qty_units (g "y");
    do uy <- base_unit_if_needed env uy;
    match lget_given la "x" with
    | Some (A1 (SQ ux)) => do ux <- base_unit_if_needed env ux; Ok (PAll (Some (uc_mul uy ux)))
    | Some _ => Ok (PAll (Some uy))
    | None =>
        match g "dx" with
        | Some (A1 (SQ ud)) => do ud <- base_unit_if_needed env ud; Ok (PAll (Some (uc_mul uy ud)))
        | _ => Ok (PAll (Some uy))
        end
    end
  else if String.eqb impl "_correlate" then
    do ua <- qty_units (g "a"); do ua <- base_unit_if_needed env ua;
    do uv <- qty_units (g "v"); do uv <- base_unit_if_needed env uv;
    Ok (PAll (Some (uc_mul ua uv)))
  else if String.eqb impl "implement_mul_func" then
    do ua <- qty_units (g "a"); do ua <- base_unit_if_needed env ua;
    match g "b" with
    | Some (A1 (SQ ub)) => do ub <- base_unit_if_needed env ub; Ok (PAll (Some (uc_mul ua ub)))
    | _ => Ok (PAll (Some ua))
    end
  else if String.eqb impl "implement_close" then
    let a := default (A1 SNone) (g "a") in
    let b := default (A1 SNone) (g "b") in
    let atol := match g "atol" with
                | None => []
                | Some t => match t, a with
                            | A1 (SQ _), _ => [t]
                            | _, A1 (SQ ua) => [A1 (SQ ua)]      (* always use the units of a *)
                            | _, _ => [t]
                            end
                end in
    do_ uwc env ([a; b] ++ atol); Ok (PAll None)
  else if String.eqb impl "implement_atleast_nd" then
    match positional la [] with
    | [a] => do u <- qty_units (Some a); Ok (PAll (Some u))
    | l => Ok (PList (map arg_units l))
    end
  else if String.eqb impl "implement_single_dimensionless_argument_func" then
    do u <- qty_units (g "a"); do_ convert_q env u ∅; Ok (PAll (Some ∅))
  else Err EOther.
Definition run_special := run_special_q repaired.
(** the python functions mirrored by [run_special]; tied to the source by [specials_tie] *)
Definition modelled_specials : list string :=
  ["_modf"; "_frexp"; "_power"; "_add"; "_subtract"; "_meshgrid"; "_full_like"; "_interp";
   "_where"; "_concatenate"; "_stack"; "_unwrap"; "_copyto"; "_einsum"; "_isin"; "_pad";
   "_any"; "_all"; "implement_prod_func"; "_trapz"; "_correlate"; "implement_mul_func";
   "implement_close"; "implement_atleast_nd"; "implement_single_dimensionless_argument_func"].

(** * ndarray methods reached through [NumpyQuantity.__getattr__] / [_numpy_method_wrap].
    The collections are parameters here (Model/NumpyRun.v passes the regenerated ones).
    Returns the output pattern and the units of [self] afterwards ([__ito_if_needed] converts
    [self] in place). *)
Record collections := Colls {
  c_set_units : list (string * (string * string));
  c_copy_lists : list string;             (* matching_input_copy ++ copy_units ++ _wrapped_numpy_methods *)
  c_set_out : list (string * string);     (* matching_input_set_units_output_ufuncs *)
  c_op_units : list (string * string);
}.
Definition run_method_wrap (env : uenv) (c : collections) (name : string) (self_u : uc)
    (la : largs) (size : option Qc) : res (pattern * uc) :=
  do self1 <- match assoc name (c_set_units c) with
              | Some (i, _) =>
                  if dimensionless env self_u && bool_decide (self_u = ∅) && String.eqb i "radian" then Ok self_u
                  else do_ convert_q env self_u (unit_of_str i); Ok (unit_of_str i)
              | None => Ok self_u
              end;
  do out <-
    (if mem name (c_copy_lists c) then Ok (Some self1)
     else match assoc name (c_set_units c) with
          | Some (_, o) => Ok (Some (unit_of_str o))
          | None =>
              match assoc name (c_set_out c) with
              | Some o => Ok (Some (unit_of_str o))
              | None =>
                  match assoc name (c_op_units c) with
                  | Some op => do u <- get_op_output_unit env op self1 (map (λ kv, arg_units kv.2) la) size;
                               Ok (Some u)
                  | None => Ok None
                  end
              end
          end);
  Ok (PAll out, self1).

(** * Explicitly written methods of NumpyQuantity (quantity.py) *)
(** the rule shared by clip / put / searchsorted: a Quantity is converted to self's units, a
    bare value is accepted only when self is dimensionless *)
Definition method_operand (env : uenv) (self_u : uc) (a : option arg) : res unit :=
  match a with
  | None | Some (A1 SNone) => Ok tt
  | Some (A1 (SQ v)) => convert_q env v self_u
  | Some _ => if dimensionless env self_u then Ok tt else Err EDim
  end.
Definition run_method_explicit (env : uenv) (name : string) (self_u : uc) (la : largs) : res (pattern * uc) :=
  let g := lget la in
  if String.eqb name "clip" then
    do_ method_operand env self_u (g "min"); do_ method_operand env self_u (g "max");
    Ok (PAll (Some self_u), self_u)
  else if String.eqb name "fill" then
    do v <- qty_units (g "value"); Ok (PAll None, v)
  else if String.eqb name "put" then
    do_ match g "values" with
        | Some (A1 (SQ v)) => convert_q env v self_u
        | _ => if dimensionless env self_u then convert_q env ∅ self_u else Err EDim
        end;
    Ok (PAll None, self_u)
  else if String.eqb name "searchsorted" then
    do_ match g "v" with
        | Some (A1 (SQ v)) => convert_q env v self_u
        | _ => if dimensionless env self_u then convert_q env ∅ self_u else Err EDim
        end;
    Ok (PAll None, self_u)
  else if String.eqb name "T" || String.eqb name "real" || String.eqb name "imag"
          || String.eqb name "getitem" then
    Ok (PAll (Some self_u), self_u)
  else if String.eqb name "setitem" then
    (* value / self.units must reduce to a dimensionless factor; NaN scalars are stored as is *)
    match g "value" with
    | Some (A1 (SQ v)) =>
        if is_mult env (uc_div v self_u) && dimensionless env (uc_div v self_u) then Ok (PAll None, self_u) else Err EDim
    | Some (A1 (SNum _)) =>
        if dimensionless env self_u && is_mult env self_u then Ok (PAll None, self_u) else Err EDim
    | _ => Err EOther
    end
  else Err EOther.
