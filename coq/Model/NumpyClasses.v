(** Model/NumpyClasses.v — the hand-written SPEC side of C16: for every name pint registers,
    its *dimensional signature class*, written from the mathematics of the NumPy function
    (independently of pint's tables), and [reg_ok]: which table behaviours are sound for a class.

    Notation used in the comments: a "unit argument" is an argument that carries a physical
    quantity (as opposed to axes, counts, masks, weights, percentiles ...).

    Offset units are outside this table (it speaks about multiplicative units: the three
    degree-1 output rules "match_input", "sum", "delta" are all acceptable for a degree-1
    function); the offset behaviour is the subject of [op_output_unit_correct] and of K. *)
From PintV Require Import Model.Numpy.
Open Scope string_scope.

Inductive cls :=
| CHomog (k : Qc) (others : list string)
    (* f is jointly homogeneous of degree k in its unit arguments, f(c·x, c·y, ..) = c^k·f(x, y, ..),
       and NOT separately: all unit arguments must be brought to one unit u; the output carries u^k.
       [others]: the unit arguments besides the first (labels of the NumPy signature; "x2" for the
       second operand of a binary ufunc; "*" for "every further positional argument").
       others = []: a single unit argument, so no conversion is needed at all. *)
| CPred (others : list string)
    (* bare output (bool / index / shape / dtype) invariant under a common positive rescaling *)
| CJointFixed (o : string) (others : list string)
    (* jointly homogeneous of degree 0 with a result in the fixed unit o (arctan2 -> radian) *)
| CBilinear       (* f(c·x, d·y) = c·d·f(x, y): no conversion, output unit = product *)
| CRatio          (* f(c·x, d·y) = (c/d)·f(x, y): no conversion, output unit = first / rest *)
| CInvRatio       (* f(c·A, d·b) = (d/c)·f(A, b): linalg.solve *)
| CFixed (i o : string)   (* argument converted to unit i, result in unit o (angle -> dimensionless ...) *)
| CRounding       (* unit copied; the values depend on the unit by nature (floor, round, ...) *)
| CPerAxis        (* one result per axis, each with its own unit: not expressible by one behaviour *)
| CSpecial.       (* hand-written implementation, mirrored by Model.Numpy.run_special *)

Definition qc0 : Qc := qc_of_Z 0.

(** the degree of the unit an output rule attaches, as a function of the first input unit *)
Definition op_degree (op : string) : option Qc :=
  if String.eqb op "sum" then Some q1
  else if String.eqb op "delta" then Some q1
  else if String.eqb op "variance" then Some q2
  else if String.eqb op "square" then Some q2
  else if String.eqb op "sqrt" then Some qhalf
  else if String.eqb op "cbrt" then Some qthird
  else if String.eqb op "reciprocal" then Some qm1
  else None.
Definition out_degree (o : out_rule) : option Qc :=
  match o with
  | OutMatchInput => Some q1
  | OutOp op => op_degree op
  | OutFixed u => if String.eqb u "" then Some qc0 else None
  | OutBare => None
  end.
Definition qc_eqb (a b : Qc) : bool := bool_decide (a = b).
Definition subset (a b : list string) : bool := forallb (λ x, mem x b) a.

(** do all unit arguments reach the kernel in one unit? *)
Definition joint_in_ok (others : list string) (i : in_rule) : bool :=
  match others with
  | [] => true
  | _ => match i with
         | InAllConsistent => true
         | InByArgument ls => subset others ls
         | _ => false
         end
  end.

Definition behaviour_ok (c : cls) (b : behaviour) : bool :=
  match c with
  | CHomog k others =>
      joint_in_ok others (b_in b)
      && match out_degree (b_out b) with Some d => qc_eqb d k | None => false end
  | CPred others =>
      joint_in_ok others (b_in b) && match b_out b with OutBare => true | _ => false end
  | CJointFixed o others =>
      joint_in_ok others (b_in b) && match b_out b with OutFixed u => String.eqb u o | _ => false end
  | CBilinear =>
      match b_in b, b_out b with InStrip, OutOp op => String.eqb op "mul" | _, _ => false end
  | CRatio =>
      match b_in b, b_out b with InStrip, OutOp op => String.eqb op "div" | _, _ => false end
  | CInvRatio =>
      match b_in b, b_out b with InStrip, OutOp op => String.eqb op "invdiv" | _, _ => false end
  | CFixed i o =>
      match b_in b, b_out b with
      | InToUnit i', OutFixed o' => String.eqb i i' && String.eqb o o'
      | _, _ => false
      end
  | CRounding => match b_out b with OutMatchInput => true | _ => false end
  | CPerAxis => false
  | CSpecial => false
  end.
Definition reg_ok (c : cls) (r : registration) : bool :=
  match r with
  | RTable b => behaviour_ok c b
  | RSpecial _ => match c with CSpecial => true | _ => false end
  end.

Definition each {A} (names : list string) (c : A) : list (string * A) := map (λ n, (n, c)) names.

(** * names registered with type "ufunc" (real ufuncs, and ndarray-method names) *)
Definition ufunc_classes : list (string * cls) :=
  each ["isnan"; "isinf"; "isfinite"; "signbit"; "sign"] (CPred [])
  ++ each ["equal"; "greater"; "greater_equal"; "less"; "less_equal"; "not_equal"] (CPred ["x2"])
  ++ [("arctan2", CJointFixed "radian" ["x2"])]
  ++ each ["cumprod"; "exp"; "expm1"; "exp2"; "log"; "log10"; "log1p"; "log2"; "logaddexp"; "logaddexp2"]
          (CFixed "" "")
  ++ each ["arccos"; "arcsin"; "arctan"; "arccosh"; "arcsinh"; "arctanh"] (CFixed "" "radian")
  ++ each ["sin"; "cos"; "tan"; "sinh"; "cosh"; "tanh"] (CFixed "radian" "")
  ++ each ["radians"; "deg2rad"] (CFixed "degree" "radian")
  ++ each ["degrees"; "rad2deg"] (CFixed "radian" "degree")
  ++ each ["compress"; "conj"; "conjugate"; "copy"; "diagonal"; "max"; "mean"; "min"; "ptp"; "ravel";
           "repeat"; "reshape"; "squeeze"; "swapaxes"; "take"; "trace"; "transpose"; "roll";
           "absolute"; "positive"; "negative"; "fabs"; "ldexp"; "std"; "sum"; "cumsum"] (CHomog q1 [])
  ++ each ["round"; "ceil"; "floor"; "rint"; "trunc"] CRounding
  ++ each ["hypot"; "copysign"; "nextafter"; "maximum"; "minimum"; "fmod"; "mod"; "remainder"]
          (CHomog q1 ["x2"])
  ++ each ["var"; "square"] (CHomog q2 [])
  ++ each ["multiply"; "matmul"] CBilinear
  ++ each ["true_divide"; "divide"] CRatio
  (* floor(x / y): the quotient must be formed in one unit before flooring; the result is a pure number *)
  ++ [("floor_divide", CHomog qc0 ["x2"])]
  ++ [("sqrt", CHomog qhalf []); ("cbrt", CHomog qthird []); ("reciprocal", CHomog qm1 [])]
  ++ each ["modf"; "frexp"; "power"; "add"; "subtract"] CSpecial.

(** * names registered with type "function" *)
Definition function_classes : list (string * cls) :=
  each ["expand_dims"; "squeeze"; "rollaxis"; "moveaxis"; "diagonal"; "mean"; "ptp"; "ravel"; "sort";
        "median"; "nanmedian"; "transpose"; "roll"; "copy"; "average"; "nanmean"; "swapaxes"; "nanmin";
        "nanmax"; "percentile"; "nanpercentile"; "quantile"; "nanquantile"; "flip"; "trim_zeros";
        "broadcast_to"; "compress"; "tile"; "lib.stride_tricks.sliding_window_view"; "rot90"; "delete";
        "resize"; "reshape"; "cumsum"; "nancumsum"; "linalg.norm"] (CHomog q1 [])
  ++ each ["around"; "round_"; "round"; "fix"] CRounding
  ++ each ["amax"; "amin"; "max"; "min"; "sum"; "nansum"] (CHomog q1 ["initial"])
  ++ [("searchsorted", CPred ["v"]);
      ("nan_to_num", CHomog q1 ["nan"; "posinf"; "neginf"]);
      ("clip", CHomog q1 ["a_min"; "a_max"]);
      ("append", CHomog q1 ["values"]);
      ("insert", CHomog q1 ["values"]);
      ("linspace", CHomog q1 ["stop"]);
      ("intersect1d", CHomog q1 ["ar2"])]
  ++ each ["block"; "hstack"; "vstack"; "dstack"; "column_stack"; "broadcast_arrays"] (CHomog q1 ["*"])
  ++ each ["size"; "isreal"; "iscomplex"; "shape"; "ones_like"; "zeros_like"; "empty_like"; "argsort";
           "argmin"; "argmax"; "ndim"; "nanargmax"; "nanargmin"; "count_nonzero"; "nonzero"; "result_type"]
          (CPred [])
  (* spread around a caller-supplied mean: the mean is a unit argument *)
  ++ each ["std"; "nanstd"] (CHomog q1 ["mean"])
  ++ each ["var"; "nanvar"] (CHomog q2 ["mean"])
  ++ [("diff", CHomog q1 ["prepend"; "append"]); ("ediff1d", CHomog q1 ["to_end"; "to_begin"])]
  (* gradient(f, dx, dy, ..) returns d/dx in [f]/[dx] and d/dy in [f]/[dy] *)
  ++ [("gradient", CPerAxis)]
  ++ [("linalg.solve", CInvRatio)]
  ++ each ["meshgrid"; "full_like"; "interp"; "where"; "concatenate"; "stack"; "unwrap"; "copyto";
           "einsum"; "isin"; "pad"; "any"; "all"; "prod"; "nanprod"; "trapz"; "trapezoid"; "correlate";
           "cross"; "dot"; "isclose"; "allclose"; "atleast_1d"; "atleast_2d"; "atleast_3d"; "cumprod";
           "nancumprod"] CSpecial.

(** * F13 and its siblings: the registrations the class table rejects (the explicit guard of
    [table_matches_class_guarded]; each is refuted by [table_matches_class_refuted_*]) *)
Definition ufunc_exceptions : list string := ["fmod"; "mod"; "remainder"; "floor_divide"].
Definition function_exceptions : list string :=
  ["sum"; "nansum"; "std"; "nanstd"; "var"; "nanvar"; "diff"; "ediff1d"; "gradient"].

(** the defective registrations as they stand in the unchanged tree, frozen here so that the
    [_refuted] theorems keep exhibiting the defect after a repair of numpy_func.py (the
    regenerated tables then simply stop containing them and the guard becomes idle) *)
Definition defective_ufunc_registrations : list (string * registration) :=
  [("fmod", RTable (Beh InStrip OutMatchInput)); ("mod", RTable (Beh InStrip OutMatchInput));
   ("remainder", RTable (Beh InStrip OutMatchInput)); ("floor_divide", RTable (Beh InStrip (OutOp "div")))].
Definition defective_function_registrations : list (string * registration) :=
  [("sum", RTable (Beh InStrip (OutOp "sum"))); ("nansum", RTable (Beh InStrip (OutOp "sum")));
   ("std", RTable (Beh InStrip (OutOp "sum"))); ("nanstd", RTable (Beh InStrip (OutOp "sum")));
   ("var", RTable (Beh InStrip (OutOp "variance"))); ("nanvar", RTable (Beh InStrip (OutOp "variance")));
   ("diff", RTable (Beh InStrip (OutOp "delta"))); ("ediff1d", RTable (Beh InStrip (OutOp "delta")));
   ("gradient", RTable (Beh InStrip (OutOp "delta,div")))].

Definition table_ok (classes : list (string * cls)) (exceptions : list string)
    (t : list (string * registration)) : bool :=
  forallb (λ nr : string * registration,
             mem nr.1 exceptions
             || match assoc nr.1 classes with Some c => reg_ok c nr.2 | None => false end) t.
Definition table_bad (classes : list (string * cls)) (t : list (string * registration)) : list string :=
  map fst (List.filter (λ nr : string * registration,
             negb match assoc nr.1 classes with Some c => reg_ok c nr.2 | None => false end) t).
