(** Model/NumpyRun.v — correspondence cases for C16.  Each case carries what the real pint
    returned (units of the result, or the error class; for methods also the units of [self]
    afterwards); [c16_ok] is true when the model, driven by the tables regenerated from the
    source (Gen/NumpyTables.v), predicts exactly that. *)
From PintV Require Import Model.Numpy Gen.NumpyTables.
Open Scope string_scope.

Definition colls : collections :=
  Colls set_units_ufuncs
        (matching_input_copy_units_output_ufuncs ++ copy_units_output_ufuncs ++ wrapped_numpy_methods)
        matching_input_set_units_output_ufuncs
        op_units_output_ufuncs.

(** [numpy_wrap]: look the name up in HANDLED_UFUNCS / HANDLED_FUNCTIONS (last registration
    wins); an unknown name returns NotImplemented, which NumPy turns into a TypeError. *)
Definition run_registered_q (q : quirks) (regs : list (string * registration)) (env : uenv) (name : string)
    (la : largs) (extras : list (string * Qc)) : res pattern :=
  match lookup_last name regs with
  | Some (RTable b) => run_behaviour env b la
  | Some (RSpecial impl) => run_special_q q env impl name la extras
  | None => Err EType
  end.

Definition run_registered := run_registered_q repaired.

Inductive ckind :=
| KUfunc          (* np.<ufunc>(...)  -> __array_ufunc__   -> HANDLED_UFUNCS *)
| KFunction       (* np.<func>(...)   -> __array_function__ -> HANDLED_FUNCTIONS *)
| KMethodWrap     (* q.<ndarray method>(...) -> __getattr__ -> _numpy_method_wrap *)
| KMethod.        (* methods written out in NumpyQuantity: clip, fill, put, ... *)

Inductive outcome :=
| OVal (units : list (option uc)) (self_after : option uc)
| OErr (e : err).

Inductive c16case :=
| K16 (env : uenv) (kind : ckind) (name : string) (self : option uc) (la : largs)
      (extras : list (string * Qc)) (obs : outcome).

Definition ou_eqb (x y : option uc) : bool :=
  match x, y with Some a, Some b => uc_eqb a b | None, None => true | _, _ => false end.
Fixpoint list_eqb {A} (f : A → A → bool) (l1 l2 : list A) : bool :=
  match l1, l2 with
  | [], [] => true
  | a :: r1, b :: r2 => f a b && list_eqb f r1 r2
  | _, _ => false
  end.
Definition pattern_matches (p : pattern) (l : list (option uc)) : bool :=
  match p with
  | PAll r => forallb (ou_eqb r) l
  | PList l' => list_eqb ou_eqb l' l
  end.

Definition c16_model_q (q : quirks) (c : c16case) : res (pattern * option uc) :=
  match c with
  | K16 env kind name self la extras _ =>
      match kind, self with
      | KUfunc, _ => do p <- run_registered_q q ufunc_registrations env name la extras; Ok (p, None)
      | KFunction, _ => do p <- run_registered_q q function_registrations env name la extras; Ok (p, None)
      | KMethodWrap, Some u =>
          do r <- run_method_wrap env colls name u la (xget extras "size"); Ok (r.1, Some r.2)
      | KMethod, Some u =>
          (* NumpyQuantity.dot / .prod simply call np.dot(self, b) / np.prod(self, ...) *)
          if String.eqb name "dot" || String.eqb name "prod" then
            do p <- run_registered_q q function_registrations env name (("a", A1 (SQ u)) :: la) extras; Ok (p, Some u)
          else do r <- run_method_explicit env name u la; Ok (r.1, Some r.2)
      | _, None => Err EOther
      end
  end.

Definition c16_model := c16_model_q repaired.

(** [c16_ok_q q]: the model with defect switches [q] predicts the observation carried by the case *)
Definition c16_ok_q (q : quirks) (c : c16case) : bool :=
  match c with
  | K16 _ _ _ _ _ _ obs =>
      match c16_model_q q c, obs with
      | Ok (p, s), OVal l s' => pattern_matches p l && ou_eqb s s'
      | Err e, OErr e' => err_eqb e e'
      | _, _ => false
      end
  end.
Definition c16_ok := c16_ok_q repaired.
