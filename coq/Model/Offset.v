(** Model/Offset.v — offset and logarithmic units (property C06).

    Mirrors pint/facets/nonmultiplicative/{definitions,registry,objects}.py, the
    non-multiplicative branches of pint/facets/plain/quantity.py and the [as_delta] rule of
    [_parse_units_as_container].  Definitions only; proofs in Proofs/OffsetProofs.v and
    Proofs/LogConv.v.  Every arithmetic function also reports WHICH branch fired. *)
From Coq Require Import Ascii String.
From PintV Require Import Model.UC Model.Eval Model.Registry.
Open Scope string_scope.

(** * 1. Converter formulas as expression ASTs (what translator T4 regenerates) *)
Inductive cvar := VValue | VScale | VOffset | VLogbase | VLogfactor.
Inductive cexpr :=
| EVar (v : cvar)
| EAdd (a b : cexpr) | ESub (a b : cexpr) | EMul (a b : cexpr) | EDiv (a b : cexpr)
| ELog (a : cexpr) | EExp (a : cexpr).
Inductive aop := AAdd | ASub | AMul | ADiv.
(** in-place statement: [value op= e] or [value = e] *)
Inductive cstmt := SAug (op : aop) (e : cexpr) | SSet (e : cexpr).
(** one direction of a converter: the functional expression and the in-place statement list *)
Record cformula := CF { cf_fun : cexpr; cf_inpl : list cstmt }.
Record cconv := CC { cc_to : cformula; cc_from : cformula }.

Global Instance cvar_eq_dec : EqDecision cvar. Proof. solve_decision. Defined.
Global Instance cexpr_eq_dec : EqDecision cexpr. Proof. solve_decision. Defined.
Global Instance aop_eq_dec : EqDecision aop. Proof. solve_decision. Defined.
Global Instance cstmt_eq_dec : EqDecision cstmt. Proof. solve_decision. Defined.

Definition v_ := EVar VValue.
(** [ScaleConverter] *)
Definition scale_conv : cconv :=
  CC (CF (EMul v_ (EVar VScale)) [SAug AMul (EVar VScale)])
     (CF (EDiv v_ (EVar VScale)) [SAug ADiv (EVar VScale)]).
(** [OffsetConverter] *)
Definition offset_conv : cconv :=
  CC (CF (EAdd (EMul v_ (EVar VScale)) (EVar VOffset)) [SAug AMul (EVar VScale); SAug AAdd (EVar VOffset)])
     (CF (EDiv (ESub v_ (EVar VOffset)) (EVar VScale)) [SAug ASub (EVar VOffset); SAug ADiv (EVar VScale)]).
(** [LogarithmicConverter]: to_reference = scale * exp(log(logbase) * (value / logfactor)),
    from_reference = logfactor * log(value / scale) / log(logbase) *)
Definition log_conv : cconv :=
  CC (CF (EMul (EVar VScale) (EExp (EMul (ELog (EVar VLogbase)) (EDiv v_ (EVar VLogfactor)))))
         [SAug ADiv (EVar VLogfactor); SAug AMul (ELog (EVar VLogbase)); SSet (EExp v_); SAug AMul (EVar VScale)])
     (CF (EDiv (EMul (EVar VLogfactor) (ELog (EDiv v_ (EVar VScale)))) (ELog (EVar VLogbase)))
         [SAug ADiv (EVar VScale); SSet (ELog v_); SAug AMul (EDiv (EVar VLogfactor) (ELog (EVar VLogbase)))]).

(** * 2. Interpretation over any carrier with the six operations *)
Section Interp.
  Context {F : Type} (fadd fsub fmul fdiv : F → F → F) (flog fexp : F → F).
  Fixpoint ceval (env : cvar → F) (e : cexpr) : F :=
    match e with
    | EVar v => env v
    | EAdd a b => fadd (ceval env a) (ceval env b)
    | ESub a b => fsub (ceval env a) (ceval env b)
    | EMul a b => fmul (ceval env a) (ceval env b)
    | EDiv a b => fdiv (ceval env a) (ceval env b)
    | ELog a => flog (ceval env a)
    | EExp a => fexp (ceval env a)
    end.
  Definition aop_sem (o : aop) : F → F → F :=
    match o with AAdd => fadd | ASub => fsub | AMul => fmul | ADiv => fdiv end.
  Definition set_value (env : cvar → F) (x : F) : cvar → F :=
    λ v, match v with VValue => x | _ => env v end.
  Definition cexec (env : cvar → F) (s : cstmt) : cvar → F :=
    match s with
    | SAug o e => set_value env (aop_sem o (env VValue) (ceval env e))
    | SSet e => set_value env (ceval env e)
    end.
  (** parameters of a converter instance: scale, offset, logbase, logfactor *)
  Definition mkenv (scale offset logbase logfactor value : F) : cvar → F :=
    λ v, match v with VValue => value | VScale => scale | VOffset => offset
                 | VLogbase => logbase | VLogfactor => logfactor end.
  Definition run_fun (f : cformula) (env : cvar → F) : F := ceval env (cf_fun f).
  Definition run_inpl (f : cformula) (env : cvar → F) : F := fold_left cexec (cf_inpl f) env VValue.
End Interp.

(** the rational instance; [log]/[exp] do not exist in Q: logarithmic converters are never run here *)
Definition runQ (inplace : bool) (f : cformula) (env : cvar → Qc) : Qc :=
  (if inplace then run_inpl else run_fun) Qcplus Qcminus Qcmult Qcdiv (λ x, x) (λ x, x) f env.

(** * 3. Converters of a registry definition *)
Record modes := Modes { m_auto : bool (* autoconvert_offset_to_baseunit *); m_delta : bool (* default_as_delta *) }.

Definition envQ (d : udef) (x : Qc) : cvar → Qc :=
  match u_conv d with
  | CScale => mkenv (u_scale d) 0%Qc 0%Qc 0%Qc x
  | COffset o => mkenv (u_scale d) o 0%Qc 0%Qc x
  | CLog b f => mkenv (u_scale d) 0%Qc b f x
  end.
Definition conv_of (d : udef) : cconv :=
  match u_conv d with CScale => scale_conv | COffset _ => offset_conv | CLog _ _ => log_conv end.
Definition is_log (d : udef) : bool := match u_conv d with CLog _ _ => true | _ => false end.
(** [converter.to_reference(value, inplace)]; a logarithmic converter has no rational value *)
Definition to_ref (inplace : bool) (d : udef) (x : Qc) : res Qc :=
  if is_log d then Err EIrrational else Ok (runQ inplace (cc_to (conv_of d)) (envQ d x)).
(** [converter.from_reference(value, inplace)]: divides by the scale *)
Definition from_ref (inplace : bool) (d : udef) (x : Qc) : res Qc :=
  if is_log d then Err EIrrational
  else if qz (u_scale d) then Err EZeroDiv
  else Ok (runQ inplace (cc_from (conv_of d)) (envQ d x)).

(** * Defect switches (DESIGN 2.6).  [true] = the behaviour of the tree as found; [false] = the
    behaviour after the small repair proposed for the finding.  The harness replays one witness
    per switch on the implementation and runs the correspondence with the matching values. *)
Record quirks := Quirks {
  q_delta_by_reference : bool;   (* F90: _has_compatible_delta compares reference containers, not dimensions *)
  q_ref_drops_units : bool;      (* F91: _add_ref_of_log_or_offset_unit returns the reference alone for offset units *)
  q_log_sub_delta : bool }.      (* F92: "x - y" renames a logarithmic unit to an undefined delta_ unit *)
Definition as_found : quirks := Quirks true true true.
Definition repaired : quirks := Quirks false false false.

Section WithQuirks.
Context (qk : quirks).

(** * 4. [_validate_and_extract], [_add_ref_of_log_or_offset_unit], two-stage [_convert] *)
Definition is_delta_name (s : string) : bool := String.prefix "delta_" s.
Definition delta_units (u : uc) : list string := filter (λ k, is_delta_name k = true) (map fst (map_to_list u)).
Definition has_delta (u : uc) : bool := existsb (λ kv, is_delta_name kv.1) (map_to_list u).

(** [_get_non_multiplicative_units] / the comprehension of [_validate_and_extract] *)
Definition nonmult_units (r : reg) (u : uc) : res (list (string * Qc)) :=
  foldM (λ acc kv, d ←r resolve r kv.1; Ok (if u_multiplicative d then acc else app acc [kv]))
        (map_to_list u) (@nil (string * Qc)).

(** ValueError inside [_validate_and_extract] is [EValue] *)
Definition validate_extract (r : reg) (auto : bool) (u : uc) : res (option string) :=
  nm ←r nonmult_units r u;
  match nm with
  | [] => Ok None
  | [(n, e)] =>
      if negb (bool_decide (e = 1%Qc)) then Err EValue
      else if Nat.ltb 1 (size u) && negb auto then Err EValue
      else Ok (Some n)
  | _ => Err EValue
  end.
(** ... which [_convert] re-raises as DimensionalityError *)
Definition validate_dim (r : reg) (auto : bool) (u : uc) : res (option string) :=
  match validate_extract r auto u with
  | Err EValue => Err EDim
  | x => x
  end.

Definition add_ref (r : reg) (off : string) (all : uc) : res uc :=
  match r_units r !! off with
  | None => Err EKey
  | Some d =>
      match (if is_log d then last (map_to_list (u_ref d)) else None) with
      | Some (u, e) => Ok (uc_add all u e)
      | None => if negb (u_multiplicative d)
                then Ok (if q_ref_drops_units qk then u_ref d else uc_mul all (u_ref d))
                else Ok all
      end
  end.

(** plain [_convert]: multiply by [_get_conversion_factor]; a factor that pint holds as a float
    (non-integer power somewhere) has no rational model value *)
Definition plain_factor (r : reg) (src dst : uc) : res Qc :=
  ' (f, _) ←r conv_factor r src dst;
  match f with Some q => Ok q | None => Err EIrrational end.

(** A conversion plan: converter of the source's offset/log unit, factor between the
    multiplicative parts, converter of the destination's offset/log unit. *)
Record plan := Plan { pl_src : option udef; pl_factor : Qc; pl_dst : option udef }.
Definition lookup_unit (r : reg) (n : string) : res udef :=
  match r_units r !! n with Some d => Ok d | None => Err EKey end.

Definition conv_plan (r : reg) (auto : bool) (src dst : uc) : res plan :=
  if uc_eqb src dst then Ok (Plan None 1%Qc None)          (* [convert]: src == dst returns value *)
  else
    so ←r validate_dim r auto src;
    do ←r validate_dim r auto dst;
    match so, do with
    | None, None => f ←r plain_factor r src dst; Ok (Plan None f None)
    | _, _ =>
        sd ←r dim_of r src; dd ←r dim_of r dst;
        if negb (uc_eqb sd dd) then Err EDim else
        ' (sdef, src1) ←r
          match so with
          | Some su =>
              if has_delta dst then Err EDim else
              d ←r lookup_unit r su;
              s' ←r match uc_remove src [su] with Some s' => Ok s' | None => Err EKey end;
              s'' ←r add_ref r su s';
              Ok (Some d, s'')
          | None => Ok (None, src)
          end;
        ' (ddef, dst1) ←r
          match do with
          | Some du =>
              if has_delta src1 then Err EDim else
              d ←r lookup_unit r du;
              d' ←r match uc_remove dst [du] with Some d' => Ok d' | None => Err EKey end;
              d'' ←r add_ref r du d';
              Ok (Some d, d'')
          | None => Ok (None, dst)
          end;
        f ←r plain_factor r src1 dst1;
        Ok (Plan sdef f ddef)
    end.

Definition apply_plan (inplace : bool) (p : plan) (x : Qc) : res Qc :=
  x1 ←r match pl_src p with Some d => to_ref inplace d x | None => Ok x end;
  let x2 := (x1 * pl_factor p)%Qc in
  match pl_dst p with Some d => from_ref inplace d x2 | None => Ok x2 end.

(** [ureg.convert(value, src, dst, inplace)] *)
Definition convert_gen (inplace : bool) (r : reg) (auto : bool) (x : Qc) (src dst : uc) : res Qc :=
  p ←r conv_plan r auto src dst; apply_plan inplace p x.
Definition convert := convert_gen false.
Definition iconvert := convert_gen true.

(** * 5. Quantities *)
Definition quantity : Type := Qc * uc.
Inductive operand := ONum (x : Qc) | OQty (x : Qc) (u : uc).

(** [to_root_units] *)
Definition to_root_gen (inpl : bool) (r : reg) (auto : bool) (q : quantity) : res quantity :=
  ' (_, B, _) ←r root_of r q.2;
  x ←r convert_gen inpl r auto q.1 q.2 B; Ok (x, B).
Definition to_root := to_root_gen false.      (* to_root_units *)
Definition ito_root := to_root_gen true.      (* ito_root_units *)

(** the [dimensionless] property: it goes through [to_root_units] (and so raises for containers
    that do not convert) *)
Definition is_dimensionless (r : reg) (auto : bool) (q : quantity) : res bool :=
  q' ←r to_root r auto q; d ←r dim_of r q'.2; Ok (uc_eqb d ∅).

(** [_has_compatible_delta(unit)] *)
Definition has_compatible_delta (r : reg) (u : uc) (unit : string) : bool :=
  let ds := delta_units u in
  existsb (String.eqb ("delta_" ++ unit)) ds ||
  match r_units r !! unit with
  | None => false
  | Some d =>
      existsb (λ k, match r_units r !! k with
                    | Some dd =>
                        if q_delta_by_reference qk then uc_eqb (u_ref dd) (u_ref d)
                        else match dim_of r (u_ref dd), dim_of r (u_ref d) with
                             | Ok x, Ok y => uc_eqb x y
                             | _, _ => false
                             end
                    | None => false
                    end) ds
  end.

(** [_ok_for_muldiv(no_offset_units)] *)
Definition ok_for_muldiv (auto : bool) (u : uc) (n : nat) : bool :=
  if Nat.ltb 1 n then false
  else if Nat.eqb n 1 then
    negb (Nat.ltb 1 (size u))
    && negb (Nat.eqb (size u) 1 && negb auto)
    && match map_to_list u with (_, e) :: _ => bool_decide (e = 1%Qc) | [] => true end
  else true.

Definition rename_delta (u : uc) (n : string) : uc := default u (uc_rename u n ("delta_" ++ n)).

(** ** [_add_sub] — which branch fired *)
Inductive astag :=
| ANumZero        (* other is a plain 0: operate on the magnitude, keep the unit *)
| ANumDimless     (* other is a number, self dimensionless *)
| ANumRefuse      (* other is a non-zero number, self has a dimension *)
| ADimErr         (* dimensionalities differ *)
| AMultSame | AMultToOther | AMultToSelf   (* 1: both multiplicative *)
| ASubOffLeft     (* 2: offset - x  -> delta *)
| ASubOffRight    (* 3: x - offset  -> unit of x *)
| AOffDelta       (* 4: offset +- compatible delta -> offset *)
| ADeltaOff       (* 5: compatible delta +- offset -> offset *)
| ARefuse         (* 6: OffsetUnitCalculusError *)
| AEarly.         (* an error before any branch was selected (undefined unit ...) *)
Global Instance astag_eq_dec : EqDecision astag. Proof. solve_decision. Defined.

Definition aop2 (sub : bool) (x y : Qc) : Qc := if sub then (x - y)%Qc else (x + y)%Qc.
(** may [x - y] turn this non-multiplicative unit into its delta_ unit?  As found: always (even
    for a logarithmic unit, which has no delta_ unit); repaired: offset units only *)
Definition sub_ok (r : reg) (n : string) : bool :=
  q_log_sub_delta qk || match r_units r !! n with Some d => negb (is_log d) | None => true end.
Definition single_order1 (nm : list (string * Qc)) : option string :=
  match nm with [(n, e)] => if bool_decide (e = 1%Qc) then Some n else None | _ => None end.

(** other is not a quantity: [zero_or_nan] keeps the unit; a dimensionless self is reduced first *)
Definition add_sub_num (inpl : bool) (r : reg) (auto sub : bool) (xa : Qc) (ua : uc) (y : Qc) : astag * res quantity :=
  if qz y then (ANumZero, Ok (aop2 sub xa y, ua))
  else match is_dimensionless r auto (xa, ua) with
       | Err e => (AEarly, Err e)
       | Ok true => (ANumDimless, x ←r convert_gen inpl r auto xa ua ∅; Ok (aop2 sub x y, ∅))
       | Ok false => (ANumRefuse, Err EDim)
       end.
(** [inpl = false]: [_add_sub]; [inpl = true]: [_iadd_sub], whose conversions of [self] use the
    in-place converter forms ([_convert_magnitude], [ito]) while [other.to(...)] stays functional *)
Definition add_sub_gen (inpl : bool) (r : reg) (auto sub : bool) (a b : operand) : astag * res quantity :=
  match a, b with
  | ONum _, ONum _ => (AEarly, Err EType)
  | ONum y, OQty xb ub =>
      (* y + q is q.__radd__(y) = q + y ;  y - q is q.__rsub__(y) = -(q - y) *)
      let '(t, m) := add_sub_num false r auto sub xb ub y in
      (t, if sub then (q ←r m; Ok ((- q.1)%Qc, q.2)) else m)
  | OQty xa ua, ONum y => add_sub_num inpl r auto sub xa ua y
  | OQty xa ua, OQty xb ub =>
      match dim_of r ua, dim_of r ub, nonmult_units r ua, nonmult_units r ub with
      | Ok da, Ok db, Ok nma, Ok nmb =>
          if negb (uc_eqb da db) then (ADimErr, Err EDim) else
          let oa := single_order1 nma in let ob := single_order1 nmb in
          let ca := match oa with Some n => has_compatible_delta r ub n | None => false end in
          let cb := match ob with Some n => has_compatible_delta r ua n | None => false end in
          match nma, nmb with
          | [], [] =>
              if uc_eqb ua ub then (AMultSame, Ok (aop2 sub xa xb, ua))
              else if has_delta ua && negb (has_delta ub)
              then (AMultToOther, x ←r convert_gen inpl r auto xa ua ub; Ok (aop2 sub x xb, ub))
              else (AMultToSelf, y ←r convert r auto xb ub ua; Ok (aop2 sub xa y, ua))
          | _, _ =>
              match oa, ob with
              | Some na, _ =>
                  if sub && sub_ok r na && negb ca then
                    (ASubOffLeft, y ←r (if uc_eqb ua ub then Ok xb else convert r auto xb ub ua); Ok (aop2 sub xa y, rename_delta ua na))
                  else if sub && match ob with Some nb => sub_ok r nb && negb cb | None => false end then
                    (ASubOffRight, y ←r convert r auto xb ub ua; Ok (aop2 sub xa y, ua))
                  else if ca then
                    (AOffDelta, y ←r convert r auto xb ub (rename_delta ua na); Ok (aop2 sub xa y, ua))
                  else match ob with
                       | Some nb =>
                           if cb then (ADeltaOff, x ←r convert_gen inpl r auto xa ua (rename_delta ub nb); Ok (aop2 sub x xb, ub))
                           else (ARefuse, Err EOffset)
                       | None => (ARefuse, Err EOffset)
                       end
              | None, Some nb =>
                  if sub && sub_ok r nb && negb cb then
                    (ASubOffRight, y ←r convert r auto xb ub ua; Ok (aop2 sub xa y, ua))
                  else if cb then
                    (ADeltaOff, x ←r convert_gen inpl r auto xa ua (rename_delta ub nb); Ok (aop2 sub x xb, ub))
                  else (ARefuse, Err EOffset)
              | None, None => (ARefuse, Err EOffset)
              end
          end
      | Err e, _, _, _ | _, Err e, _, _ | _, _, Err e, _ | _, _, _, Err e => (AEarly, Err e)
      end
  end.

Definition add_sub := add_sub_gen false.
Definition iadd_sub := add_sub_gen true.

(** ** [_mul_div], [_imul_div], [__rtruediv__] *)
Inductive mtag :=
| MNumber        (* other is not a quantity *)
| MQuantity      (* both operands accepted (possibly after conversion to root units) *)
| MRefuse        (* OffsetUnitCalculusError *)
| MEarly.
Global Instance mtag_eq_dec : EqDecision mtag. Proof. solve_decision. Defined.

Definition mop2 (div : bool) (x y : Qc) : res Qc :=
  if div then (if qz y then Err EZeroDiv else Ok (x / y)%Qc) else Ok (x * y)%Qc.
Definition uop2 (div : bool) (a b : uc) : uc := if div then uc_div a b else uc_mul a b.
(** [elif no_offset_units == len(units) == 1: to_root_units()] *)
Definition auto_root (inpl : bool) (r : reg) (auto : bool) (n : nat) (q : quantity) : res quantity :=
  if Nat.eqb n 1 && Nat.eqb (size q.2) 1 then to_root_gen inpl r auto q else Ok q.

Definition mul_div_gen (inpl : bool) (r : reg) (auto div : bool) (a b : operand) : mtag * res quantity :=
  match a, b with
  | OQty xa ua, ONum y =>
      match nonmult_units r ua with
      | Err e => (MEarly, Err e)
      | Ok nma =>
          if negb (ok_for_muldiv auto ua (length nma)) then (MRefuse, Err EOffset)
          else match nma with
               | [(n, e)] =>
                   if negb (bool_decide (e = 1%Qc)) || div then (MRefuse, Err EOffset)
                   else (MNumber, m ←r mop2 div xa y; Ok (m, ua))
               | _ => (MNumber, m ←r mop2 div xa y; Ok (m, ua))
               end
      end
  | OQty xa ua, OQty xb ub =>
      match nonmult_units r ua, nonmult_units r ub with
      | Ok nma, Ok nmb =>
          if negb (ok_for_muldiv auto ua (length nma)) then (MRefuse, Err EOffset)
          else match auto_root inpl r auto (length nma) (xa, ua) with
               | Err e => (MQuantity, Err e)
               | Ok a' =>
                   if negb (ok_for_muldiv auto ub (length nmb)) then (MRefuse, Err EOffset)
                   else (MQuantity,
                         b' ←r auto_root inpl r auto (length nmb) (xb, ub);
                         m ←r mop2 div a'.1 b'.1; Ok (m, uop2 div a'.2 b'.2))
               end
      | Err e, _ | _, Err e => (MEarly, Err e)
      end
  | ONum y, OQty xb ub =>
      (* y * q is q.__rmul__(y) = q * y ;  y / q is q.__rtruediv__(y) *)
      if negb div then
        match nonmult_units r ub with
        | Err e => (MEarly, Err e)
        | Ok nmb =>
            if negb (ok_for_muldiv auto ub (length nmb)) then (MRefuse, Err EOffset)
            else match nmb with
                 | [(n, e)] =>
                     if negb (bool_decide (e = 1%Qc)) then (MRefuse, Err EOffset)
                     else (MNumber, Ok ((xb * y)%Qc, ub))
                 | _ => (MNumber, Ok ((xb * y)%Qc, ub))
                 end
        end
      else
        match nonmult_units r ub with
        | Err e => (MEarly, Err e)
        | Ok nmb =>
            if negb (ok_for_muldiv auto ub (length nmb)) then (MRefuse, Err EOffset)
            else (MNumber,
                  b' ←r auto_root false r auto (length nmb) (xb, ub);
                  m ←r mop2 true y b'.1; Ok (m, uc_inv b'.2))
        end
  | ONum _, ONum _ => (MEarly, Err EType)
  end.
Definition mul_div := mul_div_gen false.
(** [_imul_div] uses [ito_root_units] (in-place converter forms).  It additionally leaves [other]
    converted — that side effect belongs to property C03 (F14) and is not observed here. *)
Definition imul_div := mul_div_gen true.

(** ** [__pow__] with a plain integer exponent *)
Inductive ptag := POne | PZero | PPlain | PAutoRoot | PRefuse | PEarly.
Global Instance ptag_eq_dec : EqDecision ptag. Proof. solve_decision. Defined.
Definition powZ (x : Qc) (e : Z) : res Qc :=
  match Qc_powZ x e with Some y => Ok y | None => Err EZeroDiv end.
Definition pow_plain (q : quantity) (e : Z) : res quantity :=
  m ←r powZ q.1 e; Ok (m, uc_pow q.2 (Q2Qc (inject_Z e))).
Definition q_pow_gen (inpl : bool) (r : reg) (auto : bool) (q : quantity) (e : Z) : ptag * res quantity :=
  if (e =? 1)%Z then (POne, Ok q)
  else if (e =? 0)%Z then (PZero, Ok (1%Qc, ∅))
  else match nonmult_units r q.2 with
       | Err er => (PEarly, Err er)
       | Ok [] => (PPlain, pow_plain q e)
       | Ok _ => if auto then (PAutoRoot, q' ←r to_root_gen inpl r auto q; pow_plain q' e)
                 else (PRefuse, Err EOffset)
       end.

Definition q_pow := q_pow_gen false.     (* __pow__ *)
Definition q_ipow := q_pow_gen true.     (* __ipow__ on array magnitudes *)

(** ** unary minus and [abs]: no unit logic at all *)
Definition q_neg (q : quantity) : quantity := ((- q.1)%Qc, q.2).
Definition Qcabs (x : Qc) : Qc := if Qclt_le_dec x 0 then (- x)%Qc else x.
Definition q_abs (q : quantity) : quantity := (Qcabs q.1, q.2).

(** ** comparisons *)
Inductive cmpop := CLt | CLe | CGt | CGe.
Definition cmp_sem (o : cmpop) (x y : Qc) : bool :=
  match o with
  | CLt => bool_decide (x < y)%Qc | CLe => bool_decide (x <= y)%Qc
  | CGt => bool_decide (y < x)%Qc | CGe => bool_decide (y <= x)%Qc
  end.
(** [compare(other, op)] *)
Definition q_compare (r : reg) (auto : bool) (o : cmpop) (a b : operand) : res bool :=
  match a, b with
  | OQty xa ua, ONum y =>
      dl ←r is_dimensionless r auto (xa, ua);
      if dl then x ←r convert r auto xa ua ∅; Ok (cmp_sem o x y)
      else if qz y then
        nm ←r nonmult_units r ua;
        match nm with
        | [] => Ok (cmp_sem o xa y)
        | _ => if auto then q ←r to_root r auto (xa, ua); Ok (cmp_sem o q.1 y) else Err EOffset
        end
      else Err EValue
  | OQty xa ua, OQty xb ub =>
      if uc_eqb ua ub then Ok (cmp_sem o xa xb)
      else
        da ←r dim_of r ua; db ←r dim_of r ub;
        if negb (uc_eqb da db) then Err EDim
        else qa ←r to_root r auto (xa, ua); qb ←r to_root r auto (xb, ub); Ok (cmp_sem o qa.1 qb.1)
  | ONum _, _ => Err EType
  end.
(** [__eq__] *)
Definition q_eq (r : reg) (auto : bool) (a b : operand) : res bool :=
  match a, b with
  | OQty xa ua, ONum y =>
      if qz y then
        nm ←r nonmult_units r ua;
        match nm with
        | [] => Ok (bool_decide (xa = y))
        | _ => if auto then q ←r to_root r auto (xa, ua); Ok (bool_decide (q.1 = y)) else Err EOffset
        end
      else
        dl ←r is_dimensionless r auto (xa, ua);
        if dl then x ←r convert r auto xa ua ∅; Ok (bool_decide (x = y)) else Ok false
  | OQty xa ua, OQty xb ub =>
      sc ←r (if qz xa && qz xb then
               (* both magnitudes zero: shortcut, for multiplicative units only *)
               nma ←r nonmult_units r ua;
               match nma with
               | [] => nmb ←r nonmult_units r ub; Ok (match nmb with [] => true | _ => false end)
               | _ => Ok false
               end
             else Ok false);
      if (sc : bool) then
        da ←r dim_of r ua; db ←r dim_of r ub; Ok (uc_eqb da db)
      else if uc_eqb ua ub then Ok (bool_decide (xa = xb))
      else match convert r auto xa ua ub with
           | Ok x => Ok (bool_decide (x = xb))
           | Err EDim => Ok false
           | Err e => Err e
           end
  | ONum _, _ => Err EType
  end.

(** * 6. [_parse_units_as_container] with the [as_delta] substitution *)
Definition parse_units (r : reg) (as_delta : bool) (toks : list tok) : res uc :=
  ' (p, fl) ←r ph_from_tokens toks;
  if fl then Err EIrrational
  else if negb (bool_decide (ph_scale p = 1%Qc)) then Err EValue
  else
    let many := Nat.ltb 1 (size (ph_d p)) in
    foldM (λ ret kv,
             cname ←r get_name r kv.1;
             if String.eqb cname "" then Ok ret
             else
               let cname' :=
                 if as_delta && (many || negb (bool_decide (kv.2 = 1%Qc))) then
                   match r_units r !! cname with
                   | Some d => if u_multiplicative d then cname else "delta_" ++ cname
                   | None => cname
                   end
                 else cname in
               Ok (uc_add ret cname' kv.2))
          (map_to_list (ph_d p)) ∅.

(** * 7. Spec: the documented rules (docs/user/nonmult.rst) as a decision table over operand
    classes, written with disjoint rows — independent of the order in which the code tests *)
Inductive ocls :=
| KMult                 (* no offset unit, no delta unit *)
| KDelta                (* no offset unit, at least one delta unit *)
| KOffset (n : string) (d : bool)
    (* exactly one offset unit, exponent 1, no delta unit beside it; [d]: differences of it are deltas
       (false only for a logarithmic unit once F92 is repaired) *)
| KMixed (n : string)   (* one offset unit of exponent 1 together with delta units (undocumented) *)
| KAmbig.               (* two or more offset units, or an offset unit with exponent <> 1 *)
Definition classify (r : reg) (nm : list (string * Qc)) (u : uc) : ocls :=
  match nm with
  | [] => if has_delta u then KDelta else KMult
  | [(n, e)] => if bool_decide (e = 1%Qc) then (if has_delta u then KMixed n else KOffset n (sub_ok r n)) else KAmbig
  | _ => KAmbig
  end.

Inductive row :=
| RMult             (* ordinary addition of multiplicative quantities *)
| RDeltaOfLeft (n : string)   (* offset - (offset | absolute): a delta of the left unit *)
| RLeftUnit                   (* absolute - offset: in the left (absolute) unit *)
| ROffsetLeft (n : string)    (* offset +- delta: the offset unit of the left operand *)
| ROffsetRight (n : string)   (* delta +- offset: the offset unit of the right operand *)
| RRefuse                     (* ambiguous: OffsetUnitCalculusError *)
| RUndocumented.
(** [cab]: the right operand carries a delta unit compatible with the left's offset unit; [cba] symmetric *)
Definition offset_table (sub : bool) (ca cb : ocls) (cab cba : bool) : row :=
  match ca, cb with
  | KMixed _, _ | _, KMixed _ => RUndocumented
  | KAmbig, _ | _, KAmbig => RRefuse
  | (KMult | KDelta), (KMult | KDelta) => RMult
  | KOffset n da, KOffset _ db => if sub then (if da then RDeltaOfLeft n else if db then RLeftUnit else RRefuse) else RRefuse
  | KOffset n da, KMult => if sub && da then RDeltaOfLeft n else RRefuse
  | KMult, KOffset _ db => if sub && db then RLeftUnit else RRefuse
  | KOffset n _, KDelta => if cab then ROffsetLeft n else RRefuse
  | KDelta, KOffset n _ => if cba then ROffsetRight n else RRefuse
  end.

(** what a row prescribes (value and unit), in terms of unit conversion only *)
Definition row_result (r : reg) (auto sub : bool) (w : row) (xa : Qc) (ua : uc) (xb : Qc) (ub : uc) : res quantity :=
  match w with
  | RMult =>
      if uc_eqb ua ub then Ok (aop2 sub xa xb, ua)
      else if has_delta ua && negb (has_delta ub) then x ←r convert r auto xa ua ub; Ok (aop2 sub x xb, ub)
      else y ←r convert r auto xb ub ua; Ok (aop2 sub xa y, ua)
  | RDeltaOfLeft n => y ←r convert r auto xb ub ua; Ok (aop2 sub xa y, rename_delta ua n)
  | RLeftUnit => y ←r convert r auto xb ub ua; Ok (aop2 sub xa y, ua)
  | ROffsetLeft n => y ←r convert r auto xb ub (rename_delta ua n); Ok (aop2 sub xa y, ua)
  | ROffsetRight n => x ←r convert r auto xa ua (rename_delta ub n); Ok (aop2 sub x xb, ub)
  | RRefuse => Err EOffset
  | RUndocumented => Err EOther
  end.

(** multiplication / division / power: classes of one operand *)
Inductive mcls :=
| MCMult                  (* no offset unit: used as it is *)
| MCSingle (n : string)   (* the container is exactly {offset unit : 1} *)
| MCAmbig.                (* any other container with an offset unit *)
Definition mclassify (nm : list (string * Qc)) (u : uc) : mcls :=
  match nm with
  | [] => MCMult
  | [(n, e)] => if bool_decide (e = 1%Qc) && Nat.eqb (size u) 1 then MCSingle n else MCAmbig
  | _ => MCAmbig
  end.
(** what the documented rule does with one operand before multiplying *)
Definition mprep (r : reg) (auto : bool) (c : mcls) (q : quantity) : res quantity :=
  match c with
  | MCMult => Ok q
  | MCSingle _ => if auto then to_root r auto q else Err EOffset
  | MCAmbig => Err EOffset
  end.
Definition plain_mul_div (div : bool) (a b : quantity) : res quantity :=
  m ←r mop2 div a.1 b.1; Ok (m, uop2 div a.2 b.2).
Definition spec_mul_div (r : reg) (auto div : bool) (ca cb : mcls) (a b : quantity) : res quantity :=
  match mprep r auto ca a with
  | Err e => Err e
  | Ok a' =>
      match cb with
      | MCAmbig => Err EOffset
      | MCSingle _ => if auto then b' ←r to_root r auto b; plain_mul_div div a' b' else Err EOffset
      | MCMult => plain_mul_div div a' b
      end
  end.
(** quantity (op) number *)
Definition spec_mul_num (auto div : bool) (c : mcls) (q : quantity) (y : Qc) : res quantity :=
  match c with
  | MCMult => m ←r mop2 div q.1 y; Ok (m, q.2)
  | MCSingle _ => if auto && negb div then Ok ((q.1 * y)%Qc, q.2) else Err EOffset
  | MCAmbig => Err EOffset
  end.

End WithQuirks.
