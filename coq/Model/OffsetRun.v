(** Model/OffsetRun.v — correspondence cases for property C06.  Each case carries what the
    implementation did (value and unit, or the class of the exception, and the branch that the
    implementation's own predicates select); [c06_ok] says whether the model agrees. *)
From PintV Require Import Model.UC Model.Eval Model.Registry Model.UCRun Model.Offset.
Open Scope string_scope.

(** exception classes as the harness canonicalises them *)
Inductive oerr := XOffset | XDim | XZeroDiv | XValue | XOther.
Definition oerr_of (e : err) : oerr :=
  match e with
  | EOffset => XOffset | EDim => XDim | EZeroDiv => XZeroDiv | EValue => XValue | _ => XOther
  end.
Definition oerr_eqb (a b : oerr) : bool :=
  match a, b with
  | XOffset, XOffset | XDim, XDim | XZeroDiv, XZeroDiv | XValue, XValue | XOther, XOther => true
  | _, _ => false
  end.
Inductive obs := OVal (x : Qc) (u : uc) | OFail (e : oerr).
Inductive obsn := NVal (x : Qc) | NFail (e : oerr).
Inductive obsb := BVal (b : bool) | BFail (e : oerr).
Definition qc_eqb (x y : Qc) : bool := bool_decide (x = y).

Definition obs_ok (m : res quantity) (o : obs) : bool :=
  match m, o with
  | Ok (x, u), OVal y v => qc_eqb x y && uc_eqb u v
  | Err e, OFail f => oerr_eqb (oerr_of e) f
  | _, _ => false
  end.
Definition obsn_ok (m : res Qc) (o : obsn) : bool :=
  match m, o with
  | Ok x, NVal y => qc_eqb x y
  | Err e, NFail f => oerr_eqb (oerr_of e) f
  | _, _ => false
  end.
Definition obsb_ok (m : res bool) (o : obsb) : bool :=
  match m, o with
  | Ok x, BVal y => eqb x y
  | Err e, BFail f => oerr_eqb (oerr_of e) f
  | _, _ => false
  end.

(** converter parameters of a plan, for the logarithmic (float) stream *)
Inductive cparams := PScale (s : Qc) | POffset (s o : Qc) | PLog (s b f : Qc).
Definition params_of (d : udef) : cparams :=
  match u_conv d with
  | CScale => PScale (u_scale d) | COffset o => POffset (u_scale d) o | CLog b f => PLog (u_scale d) b f
  end.
Definition cparams_eqb (a b : cparams) : bool :=
  match a, b with
  | PScale s, PScale s' => qc_eqb s s'
  | POffset s o, POffset s' o' => qc_eqb s s' && qc_eqb o o'
  | PLog s b f, PLog s' b' f' => qc_eqb s s' && qc_eqb b b' && qc_eqb f f'
  | _, _ => false
  end.
Inductive obsp := PVal (s : option cparams) (f : Qc) (d : option cparams) | PFail (e : oerr).
Definition obsp_ok (m : res plan) (o : obsp) : bool :=
  match m, o with
  | Ok p, PVal s f d =>
      opt_eqb cparams_eqb (option_map params_of (pl_src p)) s && qc_eqb (pl_factor p) f
      && opt_eqb cparams_eqb (option_map params_of (pl_dst p)) d
  | Err e, PFail f => oerr_eqb (oerr_of e) f
  | _, _ => false
  end.

Inductive c06case :=
| KConv (auto inpl : bool) (x : Qc) (src dst : uc) (o : obsn)            (* Quantity.to / ito *)
| KRoot (auto inpl : bool) (x : Qc) (u : uc) (o : obs)                   (* to_root_units / ito_root_units *)
| KAddSub (auto inpl sub : bool) (a b : operand) (t : astag) (o : obs)
| KMulDiv (auto inpl div : bool) (a b : operand) (t : mtag) (o : obs)
| KPow (auto inpl : bool) (x : Qc) (u : uc) (e : Z) (t : ptag) (o : obs)
| KNeg (x : Qc) (u : uc) (o : obs)
| KAbs (x : Qc) (u : uc) (o : obs)
| KCmp (auto : bool) (op : cmpop) (a b : operand) (o : obsb)
| KEq (auto : bool) (a b : operand) (o : obsb)
| KParse (as_delta : bool) (toks : list tok) (o : option uc)             (* None = any exception *)
| KPlan (auto : bool) (src dst : uc) (o : obsp)
| KPred (auto : bool) (u : uc) (nm : list string) (deltas : list string) (okmd : bool)
        (* _get_non_multiplicative_units, _get_delta_units, _ok_for_muldiv() *)
| KCompat (u : uc) (unit : string) (b : bool).                           (* _has_compatible_delta *)

Definition sorted_eqb (a b : list string) : bool :=
  Nat.eqb (length a) (length b) && forallb (λ x, existsb (String.eqb x) b) a
  && forallb (λ x, existsb (String.eqb x) a) b.

Definition c06_ok (qk : quirks) (r : reg) (c : c06case) : bool :=
  match c with
  | KConv auto inpl x s d o => obsn_ok (convert_gen qk inpl r auto x s d) o
  | KRoot auto inpl x u o => obs_ok (to_root_gen qk inpl r auto (x, u)) o
  | KAddSub auto inpl sub a b t o =>
      let '(t', m) := add_sub_gen qk inpl r auto sub a b in
      bool_decide (t = t') && obs_ok m o
  | KMulDiv auto inpl div a b t o =>
      let '(t', m) := mul_div_gen qk inpl r auto div a b in
      bool_decide (t = t') && obs_ok m o
  | KPow auto inpl x u e t o =>
      let '(t', m) := q_pow_gen qk inpl r auto (x, u) e in
      bool_decide (t = t') && obs_ok m o
  | KNeg x u o => obs_ok (Ok (q_neg (x, u))) o
  | KAbs x u o => obs_ok (Ok (q_abs (x, u))) o
  | KCmp auto op a b o => obsb_ok (q_compare qk r auto op a b) o
  | KEq auto a b o => obsb_ok (q_eq qk r auto a b) o
  | KParse ad toks o =>
      match parse_units r ad toks, o with
      | Ok u, Some v => uc_eqb u v
      | Err _, None => true
      | _, _ => false
      end
  | KPlan auto s d o => obsp_ok (conv_plan qk r auto s d) o
  | KPred auto u nm ds okmd =>
      match nonmult_units r u with
      | Ok l => sorted_eqb (map fst l) nm && sorted_eqb (delta_units u) ds
                && eqb (ok_for_muldiv auto u (length l)) okmd
      | Err _ => false
      end
  | KCompat u unit b => eqb (has_compatible_delta qk r u unit) b
  end.

(** the registry of a run: the bundled definitions followed by the units the harness generated *)
Definition reg_with (base extra : list rawdef) : reg :=
  match load (app base extra) with Ok r => r | Err _ => empty_reg end.
