(** Model/Pi.v — [column_echelon_form] and [pi_theorem] of pint/util.py.
    The two matrices pint transforms in lock step (the transposed dimension matrix and an
    identity matrix) are modelled as ONE list of row pairs [(e, t)]: every row operation is
    applied to both components, as in the code.  Definitions only. *)
From PintV Require Import Model.UC.

Definition vec := list Qc.
Definition vscale (c : Qc) (v : vec) : vec := map (λ x, (c * x)%Qc) v.
Fixpoint vsub (v w : vec) : vec :=     (* [iv - … for rv, iv in zip(…)] : truncates to the shorter *)
  match v, w with
  | x :: v', y :: w' => (x - y)%Qc :: vsub v' w'
  | _, _ => []
  end.
Definition vnth (i : nat) (v : vec) : Qc := nth i v 0%Qc.
Definition prow := (vec * vec)%type.
Definition is_zero_vec (v : vec) : bool := forallb qz v.

(** first row index ≥ [i] (walking [rows]) whose e-component is non-zero in column [lead] *)
Fixpoint find_row (rows : list prow) (lead : nat) (i : nat) : option nat :=
  match rows with
  | [] => None
  | (e, _) :: rs => if negb (qz (vnth lead e)) then Some i else find_row rs lead (S i)
  end.
(** the [while] loop: search rows r.. in column lead; if none, next column *)
Fixpoint find_pivot (fuel : nat) (rows : list prow) (r lead cols : nat) : option (nat * nat) :=
  match fuel with
  | O => None
  | S f =>
      if Nat.leb cols lead then None
      else match find_row (drop r rows) lead r with
           | Some s => Some (s, lead)
           | None => find_pivot f rows r (S lead) cols
           end
  end.
Definition swap_rows (rows : list prow) (s r : nat) : list prow :=
  match rows !! s, rows !! r with
  | Some a, Some b => <[r := a]> (<[s := b]> rows)
  | _, _ => rows
  end.
Definition row_scale (c : Qc) (p : prow) : prow := (vscale c p.1, vscale c p.2).
Definition row_sub (p : prow) (c : Qc) (q : prow) : prow :=   (* p - c·q *)
  (vsub p.1 (vscale c q.1), vsub p.2 (vscale c q.2)).
Definition eliminate (rows : list prow) (r lead : nat) : list prow :=
  match rows !! r with
  | None => rows
  | Some pr =>
      let lv := vnth lead pr.1 in
      let pr' := row_scale (/ lv)%Qc pr in
      imap (λ i row, if Nat.eqb i r then pr' else row_sub row (vnth lead row.1) pr') rows
  end.
Fixpoint ech_loop (fuel : nat) (rows : list prow) (r lead cols : nat) : list prow :=
  match fuel with
  | O => rows
  | S f =>
      if Nat.leb (length rows) r then rows
      else match find_pivot (S cols) rows r lead cols with
           | None => rows
           | Some (s, lead') => ech_loop f (eliminate (swap_rows rows s r) r lead') (S r) (S lead') cols
           end
  end.

Fixpoint unit_vec (n i : nat) : vec :=
  match n with O => [] | S n' => (match i with O => 1%Qc | S _ => 0%Qc end) :: unit_vec n' (pred i) end.
Fixpoint unit_vec' (n i k : nat) : vec :=   (* k = current position *)
  match n with O => [] | S n' => (if Nat.eqb i k then 1%Qc else 0%Qc) :: unit_vec' n' i (S k) end.
(** [A]: one row per quantity (its exponents over the dimension columns) *)
Definition ech_init (A : list vec) : list prow :=
  imap (λ i a, (a, unit_vec' (length A) i 0)) A.
Definition column_echelon (A : list vec) (cols : nat) : list prow :=
  ech_loop (length A) (ech_init A) 0 0 cols.
(** rows of the transformed identity whose echelon row vanished: the dimensionless monomials,
    before pint's cosmetic rescaling (integers, sign) *)
Definition pi_raw (A : list vec) (cols : nat) : list vec :=
  map snd (filter (λ p : prow, is_zero_vec p.1) (column_echelon A cols)).
(** pint's rescaling: multiply by the largest denominator and flip the sign when negatives dominate *)
Definition max_den (v : vec) : positive := fold_right (λ x m, Pos.max (Qden (this x)) m) 1%positive v.
Fixpoint count (f : Qc → bool) (v : vec) : nat :=
  match v with [] => 0 | x :: v' => (if f x then 1 else 0) + count f v' end.
Definition qneg (x : Qc) : bool := Qle_bool (this x) 0 && negb (qz x).
Definition qpos (x : Qc) : bool := Qle_bool 0 (this x) && negb (qz x).
Definition pi_scale (v : vec) : vec :=
  let m := Q2Qc (Zpos (max_den v) # 1) in
  let s := if Nat.ltb (count qpos v) (count qneg v) then (-1)%Qc else 1%Qc in
  vscale (s * m)%Qc v.
Definition pi_theorem (A : list vec) (cols : nat) : list vec := map pi_scale (pi_raw A cols).

(** Σ_i v_i · A_i *)
Fixpoint vadd (v w : vec) : vec :=
  match v, w with x :: v', y :: w' => (x + y)%Qc :: vadd v' w' | _, _ => [] end.
Fixpoint lincomb (cols : nat) (t : vec) (A : list vec) : vec :=
  match t, A with
  | c :: t', a :: A' => vadd (vscale c a) (lincomb cols t' A')
  | _, _ => repeat 0%Qc cols
  end.
