(** Model/PiRun.v — correspondence cases for column_echelon_form / pi_theorem *)
From PintV Require Import Model.UC Model.Pi Model.UCRun.

Definition vec_eqb (v w : vec) : bool :=
  Nat.eqb (length v) (length w) && forallb (λ xy : Qc * Qc, bool_decide (xy.1 = xy.2)) (zip v w).
Definition mat_eqb (a b : list vec) : bool :=
  Nat.eqb (length a) (length b) && forallb (λ xy : vec * vec, vec_eqb xy.1 xy.2) (zip a b).
Inductive picase :=
| KEchelon (A : list vec) (cols : nat) (ech ident : list vec)   (* column_echelon_form(matrix) as row lists *)
| KPi (A : list vec) (cols : nat) (res : list vec).             (* pi_theorem: exponent vector per result *)
Definition pi_ok (c : picase) : bool :=
  match c with
  | KEchelon A cols e t =>
      let rows := column_echelon A cols in mat_eqb (map fst rows) e && mat_eqb (map snd rows) t
  | KPi A cols res => mat_eqb (pi_theorem A cols) res
  end.
