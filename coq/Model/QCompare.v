(** Model/QCompare.v — equality, ordering, hashing and truth value of quantities and units,
    mirroring pint/facets/plain/quantity.py ([__eq__], [__ne__], [compare], [__lt__]…,
    [__hash__], [__bool__], [to_root_units], [dimensionless]), pint/compat.py ([eq],
    [zero_or_nan]), pint/facets/plain/unit.py ([__eq__], [compare]) and the conversion path
    they go through: [PlainRegistry.convert], [NonMultiplicativeRegistry._convert] with
    [_validate_and_extract], [OffsetConverter.to_reference/from_reference], then
    [PlainRegistry._convert].  Registry mode: [autoconvert_offset_to_baseunit = False], no
    active context.  Definitions only; proofs in Proofs/QCompareProofs.v. *)
From PintV Require Import Model.UC Model.Eval Model.Registry.
Open Scope string_scope.

(** * Magnitudes: exact numbers (int / Fraction) or the float NaN *)
Inductive mag := Fin (q : Qc) | NaN.
Record qty := Qty { q_m : mag; q_u : uc }.
(** the right-hand operand of a comparison: a bare number, a quantity, or [None] *)
Inductive operand := ONum (n : mag) | OQty (q : qty) | ONone.

(** [compat.eq(lhs, rhs, _)] on scalars is Python's [==]: exact on int/Fraction, false with NaN *)
Definition mag_eqb (a b : mag) : bool :=
  match a, b with Fin x, Fin y => bool_decide (x = y) | _, _ => false end.
Definition mag_zero (a : mag) : bool := match a with Fin x => qz x | NaN => false end.
(** [compat.zero_or_nan(obj, True)] *)
Definition zero_or_nan (a : mag) : bool := match a with Fin x => qz x | NaN => true end.
(** the four ordering operators of Python numbers are determined by one four-valued
    comparison; with a NaN operand every operator answers False ([OUn]) *)
Inductive ord := OLt | OEq | OGt | OUn.
Definition mag_cmp (a b : mag) : ord :=
  match a, b with
  | Fin x, Fin y => match (x ?= y)%Qc with Lt => OLt | Eq => OEq | Gt => OGt end
  | _, _ => OUn
  end.
Definition ord_lt (c : ord) : bool := match c with OLt => true | _ => false end.
Definition ord_le (c : ord) : bool := match c with OLt | OEq => true | _ => false end.
Definition ord_gt (c : ord) : bool := match c with OGt => true | _ => false end.
Definition ord_ge (c : ord) : bool := match c with OGt | OEq => true | _ => false end.
Definition ord_eq (c : ord) : bool := match c with OEq => true | _ => false end.
Definition mag_map (f : Qc → Qc) (a : mag) : mag := match a with Fin x => Fin (f x) | NaN => NaN end.

(** * Deviations of the code from the property, each behind a switch (DESIGN §2.6).
    [as_coded] is the unchanged tree; [repaired] is the behaviour after the proposed patches. *)
Record quirks := Quirks {
  zero_shortcut_any_unit : bool;   (* F1: the both-zero shortcut of [__eq__] also fires for offset units *)
  hash_on_units : bool             (* F2: [__hash__] hashes the base-unit container, not the dimensionality *)
}.
Definition as_coded : quirks := Quirks true true.
Definition repaired : quirks := Quirks false false.

(** * Conversion of a magnitude between unit containers *)
(** [NonMultiplicativeRegistry._is_multiplicative] / [Quantity._get_non_multiplicative_units] *)
Definition unit_mult (r : reg) (k : string) : res bool := d ←r resolve r k; Ok (u_multiplicative d).
Definition nonmult_list (r : reg) (u : uc) : res (list (string * Qc)) :=
  foldM (λ (acc : list (string * Qc)) (kv : string * Qc),
           m ←r unit_mult r kv.1; Ok (if m then acc else app acc [kv])) (map_to_list u) [].
Definition has_delta (u : uc) : bool := existsb (λ kv, String.prefix "delta_" kv.1) (map_to_list u).
(** [_validate_and_extract]: [ValueError] becomes [DimensionalityError] in [_convert] *)
Definition validate_extract (r : reg) (u : uc) : res (option string) :=
  nm ←r nonmult_list r u;
  match nm with
  | [] => Ok None
  | [(k, e)] => if negb (bool_decide (e = 1%Qc)) then Err EDim
                else if Nat.ltb 1 (size u) then Err EDim
                else Ok (Some k)
  | _ => Err EDim
  end.
(** [OffsetConverter.to_reference] / [from_reference]; logarithmic converters are outside this
    model ([EOther]) *)
Definition to_reference (d : udef) (v : mag) : res mag :=
  match u_conv d with
  | CScale => Ok (mag_map (λ x, x * u_scale d)%Qc v)
  | COffset o => Ok (mag_map (λ x, x * u_scale d + o)%Qc v)
  | CLog _ _ => Err EOther
  end.
Definition from_reference (d : udef) (v : mag) : res mag :=
  match u_conv d with
  | CScale => if qz (u_scale d) then Err EZeroDiv else Ok (mag_map (λ x, x / u_scale d)%Qc v)
  | COffset o => if qz (u_scale d) then Err EZeroDiv else Ok (mag_map (λ x, (x - o) / u_scale d)%Qc v)
  | CLog _ _ => Err EOther
  end.
(** [PlainRegistry._convert]: dimensionality check and factor of [src / dst].  The model keeps
    the exact rational value of the factor; where pint itself holds a float (a definition went
    through a non-integer power) there is no such value: [EIrrational]. *)
Definition convert_plain (r : reg) (v : mag) (src dst : uc) : res mag :=
  ' (f, _) ←r conv_factor r src dst;
  match f with Some f => Ok (mag_map (λ x, x * f)%Qc v) | None => Err EIrrational end.
(** [NonMultiplicativeRegistry._convert] *)
Definition convert_nm (r : reg) (v : mag) (src dst : uc) : res mag :=
  so ←r validate_extract r src;
  do ←r validate_extract r dst;
  match so, do with
  | None, None => convert_plain r v src dst
  | _, _ =>
      ds ←r dim_of r src; dd ←r dim_of r dst;
      if negb (uc_eqb ds dd) then Err EDim else
      ' (v1, src1) ←r match so with
                      | Some k => if has_delta dst then Err EDim
                                  else d ←r resolve r k; v' ←r to_reference d v; Ok (v', u_ref d)
                      | None => Ok (v, src)
                      end;
      dst1 ←r match do with
              | Some k => if has_delta src1 then Err EDim else d ←r resolve r k; Ok (u_ref d)
              | None => Ok dst
              end;
      v2 ←r convert_plain r v1 src1 dst1;
      match do with
      | Some k => d ←r resolve r k; from_reference d v2
      | None => Ok v2
      end
  end.
(** [PlainRegistry.convert] *)
Definition convert (r : reg) (v : mag) (src dst : uc) : res mag :=
  if uc_eqb src dst then Ok v else convert_nm r v src dst.

(** [to_root_units]; [dimensionless]; [_is_multiplicative] *)
Definition to_root (r : reg) (q : qty) : res qty :=
  ' (_, B, _) ←r root_of r (q_u q);
  m ←r convert r (q_m q) (q_u q) B; Ok (Qty m B).
Definition dimensionless (r : reg) (q : qty) : res bool :=
  t ←r to_root r q; d ←r dim_of r (q_u t); Ok (uc_eqb d ∅).
Definition q_is_mult (r : reg) (q : qty) : res bool :=
  nm ←r nonmult_list r (q_u q); Ok (match nm with [] => true | _ => false end).

(** * [PlainQuantity.__eq__] — branch for branch *)
Definition q_eq (qk : quirks) (r : reg) (a : qty) (o : operand) : res bool :=
  match o with
  | ONone => Ok false
  | ONum n =>
      if zero_or_nan n then
        (* comparison with zero or NaN: magnitudes, but ambiguous for offset units *)
        m ←r q_is_mult r a; if m then Ok (mag_eqb (q_m a) n) else Err EOffset
      else
        dl ←r dimensionless r a;
        if dl then v ←r convert r (q_m a) (q_u a) ∅; Ok (mag_eqb v n) else Ok false
  | OQty b =>
      let both_zero := mag_zero (q_m a) && mag_zero (q_m b) in
      shortcut ←r (if both_zero then
                     if zero_shortcut_any_unit qk then Ok true
                     else ma ←r q_is_mult r a; mb ←r q_is_mult r b; Ok (ma && mb)
                   else Ok false);
      if shortcut then
        da ←r dim_of r (q_u a); db ←r dim_of r (q_u b); Ok (uc_eqb da db)
      else if uc_eqb (q_u a) (q_u b) then Ok (mag_eqb (q_m a) (q_m b))
      else match convert r (q_m a) (q_u a) (q_u b) with
           | Ok v => Ok (mag_eqb v (q_m b))
           | Err EDim => Ok false
           | Err e => Err e
           end
  end.
Definition q_ne (qk : quirks) (r : reg) (a : qty) (o : operand) : res bool :=
  b ←r q_eq qk r a o; Ok (negb b).

(** * [PlainQuantity.compare] (the operator is applied to the returned [ord]) *)
Definition q_compare (r : reg) (a : qty) (o : operand) : res ord :=
  match o with
  | OQty b =>
      if uc_eqb (q_u a) (q_u b) then Ok (mag_cmp (q_m a) (q_m b))
      else
        da ←r dim_of r (q_u a); db ←r dim_of r (q_u b);
        if negb (uc_eqb da db) then Err EDim
        else ta ←r to_root r a; tb ←r to_root r b; Ok (mag_cmp (q_m ta) (q_m tb))
  | ONum n =>
      dl ←r dimensionless r a;
      if dl then v ←r convert r (q_m a) (q_u a) ∅; Ok (mag_cmp v n)
      else if zero_or_nan n then
        m ←r q_is_mult r a; if m then Ok (mag_cmp (q_m a) n) else Err EOffset
      else Err EValue
  | ONone =>
      dl ←r dimensionless r a; if dl then Err EType else Err EValue
  end.
Definition q_lt r a o : res bool := c ←r q_compare r a o; Ok (ord_lt c).
Definition q_le r a o : res bool := c ←r q_compare r a o; Ok (ord_le c).
Definition q_gt r a o : res bool := c ←r q_compare r a o; Ok (ord_gt c).
Definition q_ge r a o : res bool := c ←r q_compare r a o; Ok (ord_ge c).

(** * [__hash__]: an idealised injective hash of what the code feeds to [hash()].
    [to_base_units] is modelled by [to_root]: with the default system the base units are the
    root units with [gram] renamed to [kilogram] (an injective renaming with a fixed factor),
    which does not change which hashes are equal. *)
Inductive hashv := HNum (m : mag) | HUnits (m : mag) (u : uc) | HDim (m : mag) (d : uc).
Definition q_hash (qk : quirks) (r : reg) (a : qty) : res hashv :=
  t ←r to_root r a;
  dl ←r dimensionless r t;
  if dl then Ok (HNum (q_m t))
  else if hash_on_units qk then Ok (HUnits (q_m t) (q_u t))
  else d ←r dim_of r (q_u t); Ok (HDim (q_m t) d).
Definition hashv_eqb (x y : hashv) : bool :=
  match x, y with
  | HNum a, HNum b => mag_eqb a b
  | HUnits a u, HUnits b v => mag_eqb a b && uc_eqb u v
  | HDim a u, HDim b v => mag_eqb a b && uc_eqb u v
  | _, _ => false
  end.

(** [__bool__] *)
Definition q_bool (r : reg) (a : qty) : res bool :=
  m ←r q_is_mult r a; if m then Ok (negb (mag_zero (q_m a))) else Err EValue.

(** * Units: [PlainUnit.__eq__] and [PlainUnit.compare] go through the quantity [1 * unit] *)
Inductive uoperand := UUnit (u : uc) | UQty (q : qty) | UNum (n : mag).
Definition one_of (u : uc) : qty := Qty (Fin 1%Qc) u.
Definition unit_eq (qk : quirks) (r : reg) (u : uc) (o : uoperand) : res bool :=
  match o with
  | UUnit v => Ok (uc_eqb u v)                         (* same class: container equality *)
  | UQty q => q_eq qk r q (OQty (one_of u))            (* other == Quantity(1, self) *)
  | UNum n => q_eq qk r (one_of u) (ONum n)            (* number == Quantity(1, self), reflected *)
  end.
Definition unit_compare (r : reg) (u : uc) (o : uoperand) : res ord :=
  match o with
  | UUnit v => q_compare r (one_of u) (OQty (one_of v))
  | UNum n => q_compare r (one_of u) (ONum n)
  | UQty _ => Err EType                                (* NotImplemented: not modelled *)
  end.

(** * Specification: physical value *)
Inductive ukind := KMult | KOffset (s o : Qc) (ref : uc) | KBad.
Definition unit_kind (r : reg) (u : uc) : ukind :=
  match validate_extract r u with
  | Ok None => KMult
  | Ok (Some k) =>
      match resolve r k with
      | Ok d => match u_conv d with COffset o => KOffset (u_scale d) o (u_ref d) | _ => KBad end
      | Err _ => KBad
      end
  | Err _ => KBad
  end.
Definition root_factor (r : reg) (u : uc) : option Qc :=
  match root_of r u with Ok (Some f, _, _) => Some f | _ => None end.
(** the magnitude in root units: [x·f(u)], and for a single offset unit
    [(s·x + o)·f(reference)] — absolute, so that 0 degC is 273.15 K *)
Definition to_common (r : reg) (q : qty) : option Qc :=
  match q_m q with
  | NaN => None
  | Fin x =>
      match unit_kind r (q_u q) with
      | KMult => f ← root_factor r (q_u q); Some (x * f)%Qc
      | KOffset s o ref => f ← root_factor r ref; Some ((x * s + o) * f)%Qc
      | KBad => None
      end
  end.
Definition phys (r : reg) (q : qty) : option (uc * Qc) :=
  match dim_of r (q_u q) with
  | Ok d => v ← to_common r q; Some (d, v)
  | Err _ => None
  end.
Definition phys_eq (r : reg) (a b : qty) : Prop := ∃ p, phys r a = Some p ∧ phys r b = Some p.
Definition phys_lt (r : reg) (a b : qty) : Prop :=
  ∃ d x y, phys r a = Some (d, x) ∧ phys r b = Some (d, y) ∧ (x < y)%Qc.
Definition phys_eqb (r : reg) (a b : qty) : bool :=
  match phys r a, phys r b with
  | Some (d, x), Some (e, y) => uc_eqb d e && bool_decide (x = y)
  | _, _ => false
  end.

(** the two regions where [__eq__] departs from [phys_eq] *)
Definition is_offset_unit (r : reg) (u : uc) : bool :=
  match unit_kind r u with KOffset _ _ _ => true | _ => false end.
(** F1: both magnitudes zero and an offset unit involved *)
Definition both_zero_offset (r : reg) (a b : qty) : bool :=
  mag_zero (q_m a) && mag_zero (q_m b) && (is_offset_unit r (q_u a) || is_offset_unit r (q_u b)).
(** F85: an offset unit against a container holding a delta_ unit: conversion is refused *)
Definition delta_offset_clash (r : reg) (ua ub : uc) : bool :=
  (is_offset_unit r ua && has_delta ub) || (is_offset_unit r ub && has_delta ua).

(** literals written by the harness *)
Definition mkqty (m : mag) (l : list (string * Qc)) : qty := Qty m (mkuc l).

(** * Registry mode [autoconvert_offset_to_baseunit]
    Between two quantities, [__eq__], [compare] and [__hash__] read the flag in one place only:
    [_validate_and_extract] tolerates a single offset unit inside a compound container when it is
    set.  (The bare-number branches and the arithmetic predicate [_ok_for_muldiv] read it too;
    [_ok_for_muldiv] is NOT what guards the both-zero shortcut: with the flag set it accepts a
    lone offset unit, for which zero is not zero in root units.) *)
Definition validate_extract_mode (autoconvert : bool) (r : reg) (u : uc) : res (option string) :=
  nm ←r nonmult_list r u;
  match nm with
  | [] => Ok None
  | [(k, e)] => if negb (bool_decide (e = 1%Qc)) then Err EDim
                else if Nat.ltb 1 (size u) && negb autoconvert then Err EDim
                else Ok (Some k)
  | _ => Err EDim
  end.
Definition ok_for_muldiv (autoconvert : bool) (r : reg) (q : qty) : res bool :=
  nm ←r nonmult_list r (q_u q);
  Ok (match nm with
      | [] => true
      | [(k, e)] => negb (Nat.ltb 1 (size (q_u q))) && autoconvert && bool_decide (e = 1%Qc)
      | _ => false
      end).
