(** Model/QCompareRun.v — correspondence cases for C05: each case carries what pint answered;
    [c05_ok] says whether the model answers the same.  Evaluated inside Coq by [vm_compute]. *)
From PintV Require Import Model.UC Model.Eval Model.Registry Model.QCompare.
Open Scope string_scope.

(** how an operation ended in the implementation *)
Inductive xerr := XDim | XOffset | XValue | XType | XZeroDiv | XOther.
Inductive obs (A : Type) := Got (a : A) | Raised (e : xerr).
Arguments Got {A} a. Arguments Raised {A} e.
Definition xerr_of (e : err) : xerr :=
  match e with
  | EDim => XDim | EOffset => XOffset | EValue => XValue | EType => XType | EZeroDiv => XZeroDiv
  | _ => XOther
  end.
Definition xerr_eqb (a b : xerr) : bool :=
  match a, b with
  | XDim, XDim | XOffset, XOffset | XValue, XValue | XType, XType | XZeroDiv, XZeroDiv | XOther, XOther => true
  | _, _ => false
  end.
Definition obs_ok {A B} (f : A → B → bool) (x : res A) (o : obs B) : bool :=
  match x, o with
  | Ok a, Got b => f a b
  | Err e, Raised e' => xerr_eqb (xerr_of e) e'
  | _, _ => false
  end.
(** the four ordering operators, as observed: (<, <=, >, >=) *)
Definition cmp4 := (bool * bool * bool * bool)%type.
Definition cmp4_ok (c : ord) (o : cmp4) : bool :=
  let '(lt, le, gt, ge) := o in
  eqb (ord_lt c) lt && eqb (ord_le c) le && eqb (ord_gt c) gt && eqb (ord_ge c) ge.

(** one pair of magnitudes on a fixed pair of units: a == b, b == a, a != b, the four orderings
    of (a, b), and — when asked — whether hash(a) = hash(b) *)
Record row := Row {
  row_x : mag; row_y : mag;
  row_eq : obs bool; row_eq_rev : obs bool; row_ne : obs bool;
  row_cmp : obs cmp4; row_hash_eq : option bool }.

Inductive c05case :=
| KPair (ua ub : uc) (rows : list row)
| KNum (a : qty) (o : operand) (eq ne : obs bool) (cmp : obs cmp4)     (* bare number / None on the right *)
| KBool (a : qty) (r : obs bool)
| KHashEq (a b : qty) (r : bool)
| KUnitEq (u : uc) (o : uoperand) (r : obs bool)
| KUnitCmp (u : uc) (o : uoperand) (r : obs cmp4)
| KToRoot (a : qty) (m : obs mag) (u : uc).                              (* to_root_units *)

Definition mag_same (a b : mag) : bool :=
  match a, b with Fin x, Fin y => bool_decide (x = y) | NaN, NaN => true | _, _ => false end.

Definition row_ok (qk : quirks) (r : reg) (ua ub : uc) (w : row) : bool :=
  let a := Qty (row_x w) ua in let b := Qty (row_y w) ub in
  let e := q_eq qk r a (OQty b) in      (* [q_ne] is [negb] of this very answer: evaluated once *)
  obs_ok eqb e (row_eq w)
  && obs_ok eqb (q_eq qk r b (OQty a)) (row_eq_rev w)
  && obs_ok eqb (x ←r e; Ok (negb x)) (row_ne w)
  && obs_ok cmp4_ok (q_compare r a (OQty b)) (row_cmp w)
  && match row_hash_eq w with
     | None => true
     | Some h =>
         match q_hash qk r a, q_hash qk r b with
         | Ok x, Ok y => eqb (hashv_eqb x y) h
         | _, _ => false
         end
     end.

Definition c05_ok (qk : quirks) (r : reg) (c : c05case) : bool :=
  match c with
  | KPair ua ub rows => forallb (row_ok qk r ua ub) rows
  | KNum a o e n c =>
      let x := q_eq qk r a o in      (* [q_ne] is [negb] of this very answer *)
      obs_ok eqb x e && obs_ok eqb (y ←r x; Ok (negb y)) n && obs_ok cmp4_ok (q_compare r a o) c
  | KBool a b => obs_ok eqb (q_bool r a) b
  | KHashEq a b h =>
      match q_hash qk r a, q_hash qk r b with
      | Ok x, Ok y => eqb (hashv_eqb x y) h
      | _, _ => false
      end
  | KUnitEq u o b => obs_ok eqb (unit_eq qk r u o) b
  | KUnitCmp u o c => obs_ok cmp4_ok (unit_compare r u o) c
  | KToRoot a m u =>
      match to_root r a, m with
      | Ok t, Got m' => mag_same (q_m t) m' && uc_eqb (q_u t) u
      | Err e, Raised e' => xerr_eqb (xerr_of e) e'
      | _, _ => false
      end
  end.
