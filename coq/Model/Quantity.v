(** Model/Quantity.v — executable model of the arithmetic of pint quantities
    (pint/facets/plain/quantity.py, pint/facets/nonmultiplicative/objects.py, pint/compat.py).
    Definitions only; proofs are in Proofs/QuantityProofs.v.

    Scope: MULTIPLICATIVE units.  Offset / logarithmic units are the business of C06: here
    [+]/[-] on them return the opaque error [EOffset]; [*], [/] follow the code
    ([_ok_for_muldiv], conversion of a lone offset unit to root units) because that is where
    defect F14 lives.  Magnitudes are exact rationals or NaN (Python int / Fraction, and the
    float NaN that [zero_or_nan] special-cases). *)
From Coq Require Import Qround.
From PintV Require Import Model.UC Model.Eval Model.Registry.
Open Scope string_scope.

(** * Magnitudes *)
Inductive mag := Fin (q : Qc) | NaN.
Record quantity := Qn { q_m : mag; q_u : uc }.
(** an operand of a Python operator: a bare number or a quantity *)
Inductive operand := Num (m : mag) | Qty (q : quantity).

Global Instance mag_eq_dec : EqDecision mag.
Proof. solve_decision. Defined.

Definition mlift2 (f : Qc → Qc → Qc) (a b : mag) : mag :=
  match a, b with Fin x, Fin y => Fin (f x y) | _, _ => NaN end.
Definition madd := mlift2 Qcplus.
Definition msub := mlift2 Qcminus.
Definition mmul := mlift2 Qcmult.
Definition mscale (a : mag) (c : Qc) : mag := match a with Fin x => Fin (x * c) | NaN => NaN end.
Definition mneg (a : mag) : mag := match a with Fin x => Fin (- x) | NaN => NaN end.
Definition qneg (x : Qc) : bool := (Qnum (this x) <? 0)%Z.
Definition mabs (a : mag) : mag := match a with Fin x => Fin (if qneg x then - x else x) | NaN => NaN end.
(** [x == 0] on a magnitude (NaN == 0 is False) and pint.compat.zero_or_nan *)
Definition mzero (a : mag) : bool := match a with Fin x => qz x | NaN => false end.
Definition zero_or_nan (a : mag) : bool := match a with Fin x => qz x | NaN => true end.
(** Python [==] on numbers: NaN equals nothing *)
Definition meq (a b : mag) : bool := match a, b with Fin x, Fin y => bool_decide (x = y) | _, _ => false end.
(** true division: a zero divisor raises ZeroDivisionError (also for a NaN numerator) *)
Definition mdiv (a b : mag) : res mag :=
  match b with
  | Fin y => if qz y then Err EZeroDiv else Ok (match a with Fin x => Fin (x / y) | NaN => NaN end)
  | NaN => Ok NaN
  end.
(** floor division and modulo as Python defines them on int / Fraction:
    [a // b = floor(a / b)], [a % b = a - b * (a // b)] *)
Definition qfloor (x : Qc) : Qc := Q2Qc (inject_Z (Qfloor (this x))).
Definition mfloordiv (a b : mag) : res mag :=
  match b with
  | Fin y => if qz y then Err EZeroDiv else Ok (match a with Fin x => Fin (qfloor (x / y)) | NaN => NaN end)
  | NaN => Ok NaN
  end.
Definition mmod (a b : mag) : res mag :=
  match b with
  | Fin y => if qz y then Err EZeroDiv
             else Ok (match a with Fin x => Fin (x - y * qfloor (x / y)) | NaN => NaN end)
  | NaN => Ok NaN
  end.
(** integer power; [0 ** negative] raises ZeroDivisionError; [nan ** 0 = 1] *)
Definition mpowZ (a : mag) (n : Z) : res mag :=
  match a with
  | Fin x => match Qc_powZ x n with Some y => Ok (Fin y) | None => Err EZeroDiv end
  | NaN => Ok (if (n =? 0)%Z then Fin 1 else NaN)
  end.
(** [number ** number]: exact for integer exponents; a non-integer exponent leaves the
    rationals (pint returns a float): outside the exact model, reported as [EIrrational] *)
Definition mpow (a e : mag) : res mag :=
  match e with
  | Fin q => if is_int q then mpowZ a (Qnum (this q)) else Err EIrrational
  | NaN => Err EIrrational
  end.
Inductive cmpop := CLt | CLe | CGt | CGe.
Definition qcmp (op : cmpop) (x y : Qc) : bool :=
  match op with
  | CLt => negb (Qle_bool (this y) (this x))
  | CLe => Qle_bool (this x) (this y)
  | CGt => negb (Qle_bool (this x) (this y))
  | CGe => Qle_bool (this y) (this x)
  end.
Definition mcmp (op : cmpop) (a b : mag) : bool :=
  match a, b with Fin x, Fin y => qcmp op x y | _, _ => false end.

(** * Configuration: the registry option and the two defect switches (DESIGN §2.6) *)
Record qcfg := QCfg {
  c_autoconv : bool;   (* autoconvert_offset_to_baseunit *)
  c_f14 : bool;        (* F14 (repaired by 243cd48): [_imul_div] called [other.ito_root_units()] (converted the OTHER operand in place) *)
  c_f80 : bool }.      (* as coded: [__ipow__] hands a zero-valued Quantity exponent on to [ndarray.__ipow__] *)
Definition cfg_coded : qcfg := QCfg false true true.
Definition cfg_repaired : qcfg := QCfg false false false.

(** * Unit-level helpers *)
Definition is_nonmult (r : reg) (k : string) : bool :=
  match resolve r k with Ok d => negb (u_multiplicative d) | Err _ => false end.
(** [_get_non_multiplicative_units] *)
Definition nonmult_units (r : reg) (u : uc) : list string :=
  List.filter (is_nonmult r) (map fst (map_to_list u)).
(** [_get_delta_units] is non-empty *)
Definition has_delta (u : uc) : bool := existsb (λ kv, String.prefix "delta_" kv.1) (map_to_list u).
(** [dimensionless] *)
Definition is_dimless (r : reg) (u : uc) : res bool := d ←r dim_of r u; Ok (uc_eqb d ∅).

(** [to(units)] on the multiplicative path: [registry.convert] returns the value untouched when
    source and destination containers are equal, else multiplies by the conversion factor *)
Definition q_to (r : reg) (a : quantity) (dst : uc) : res quantity :=
  if uc_eqb (q_u a) dst then Ok (Qn (q_m a) dst)
  else '(f, _) ←r conv_factor r (q_u a) dst;
       match f with Some f => Ok (Qn (mscale (q_m a) f) dst) | None => Err EIrrational end.

(** [_ok_for_muldiv] *)
Definition ok_for_muldiv (cfg : qcfg) (r : reg) (u : uc) : bool :=
  match nonmult_units r u with
  | [] => true
  | [k] => Nat.eqb (size u) 1 && c_autoconv cfg && bool_decide (exp_of u k = 1%Qc)
  | _ => false
  end.
Definition lone_offset (r : reg) (u : uc) : bool :=
  Nat.eqb (length (nonmult_units r u)) 1 && Nat.eqb (size u) 1.
(** [to_root_units] / [ito_root_units] *)
Definition q_to_root (r : reg) (a : quantity) : res quantity :=
  '(_, B, _) ←r root_of r (q_u a);
  match nonmult_units r (q_u a) with
  | [] => q_to r a B
  | [k] =>
      if Nat.eqb (size (q_u a)) 1 && bool_decide (exp_of (q_u a) k = 1%Qc) then
        d ←r resolve r k;
        match u_conv d with
        | COffset o =>    (* OffsetConverter.to_reference, then the multiplicative path from the reference *)
            q_to r (Qn (madd (mscale (q_m a) (u_scale d)) (Fin o)) (u_ref d)) B
        | _ => Err EOffset
        end
      else Err EOffset
  | _ => Err EOffset
  end.

(** * [_add_sub] (plain form) *)
Definition q_add_sub (r : reg) (sub : bool) (a : quantity) (o : operand) : res quantity :=
  let op := if sub then msub else madd in
  match o with
  | Num n =>
      if zero_or_nan n then Ok (Qn (op (q_m a) n) (q_u a))
      else dl ←r is_dimless r (q_u a);
           if dl then a' ←r q_to r a ∅; Ok (Qn (op (q_m a') n) ∅)
           else Err EDim
  | Qty b =>
      da ←r dim_of r (q_u a); db ←r dim_of r (q_u b);
      if negb (uc_eqb da db) then Err EDim
      else match nonmult_units r (q_u a), nonmult_units r (q_u b) with
           | [], [] =>
               if uc_eqb (q_u a) (q_u b) then Ok (Qn (op (q_m a) (q_m b)) (q_u a))
               else if has_delta (q_u a) && negb (has_delta (q_u b)) then
                 a' ←r q_to r a (q_u b); Ok (Qn (op (q_m a') (q_m b)) (q_u b))
               else b' ←r q_to r b (q_u a); Ok (Qn (op (q_m a) (q_m b')) (q_u a))
           | _, _ => Err EOffset       (* offset calculus: C06 *)
           end
  end.
(** [_iadd_sub] (ndarray targets): same decisions; the target is converted / updated in place.
    Returns the new target and the other operand as it is afterwards. *)
Definition q_iadd_sub (r : reg) (sub : bool) (a : quantity) (o : operand) : res (quantity * operand) :=
  let op := if sub then msub else madd in
  match o with
  | Num n =>
      if zero_or_nan n then Ok (Qn (op (q_m a) n) (q_u a), o)
      else dl ←r is_dimless r (q_u a);
           if dl then a' ←r q_to r a ∅;            (* self.ito({}) *)
                      Ok (Qn (op (q_m a') n) (q_u a'), o)
           else Err EDim
  | Qty b =>
      da ←r dim_of r (q_u a); db ←r dim_of r (q_u b);
      if negb (uc_eqb da db) then Err EDim
      else match nonmult_units r (q_u a), nonmult_units r (q_u b) with
           | [], [] =>
               if uc_eqb (q_u a) (q_u b) then Ok (Qn (op (q_m a) (q_m b)) (q_u a), o)
               else if has_delta (q_u a) && negb (has_delta (q_u b)) then
                 a' ←r q_to r a (q_u b); Ok (Qn (op (q_m a') (q_m b)) (q_u b), o)
               else b' ←r q_to r b (q_u a); Ok (Qn (op (q_m a) (q_m b')) (q_u a), o)
           | _, _ => Err EOffset
           end
  end.
(** [__rsub__]: [-(self - other)] *)
Definition q_rsub (r : reg) (b : quantity) (o : operand) : res quantity :=
  x ←r q_add_sub r true b o; Ok (Qn (mneg (q_m x)) (q_u x)).

(** * [_mul_div], [_imul_div], [__rtruediv__] *)
Definition mmuldiv (div : bool) (x y : mag) : res mag := if div then mdiv x y else Ok (mmul x y).
Definition umuldiv (div : bool) (u v : uc) : uc := if div then uc_div u v else uc_mul u v.
Definition q_mul_div (cfg : qcfg) (r : reg) (div : bool) (a : quantity) (o : operand) : res quantity :=
  match o with
  | Num n =>
      if negb (ok_for_muldiv cfg r (q_u a)) then Err EOffset
      else if Nat.eqb (length (nonmult_units r (q_u a))) 1 && div then Err EOffset
      else m ←r mmuldiv div (q_m a) n; Ok (Qn m (umuldiv div (q_u a) ∅))
  | Qty b =>
      if negb (ok_for_muldiv cfg r (q_u a)) then Err EOffset else
      a1 ←r (if lone_offset r (q_u a) then q_to_root r a else Ok a);
      if negb (ok_for_muldiv cfg r (q_u b)) then Err EOffset else
      b1 ←r (if lone_offset r (q_u b) then q_to_root r b else Ok b);
      m ←r mmuldiv div (q_m a1) (q_m b1); Ok (Qn m (umuldiv div (q_u a1) (q_u b1)))
  end.
Definition q_imul_div (cfg : qcfg) (r : reg) (div : bool) (a : quantity) (o : operand) : res (quantity * operand) :=
  match o with
  | Num n =>
      if negb (ok_for_muldiv cfg r (q_u a)) then Err EOffset
      else if Nat.eqb (length (nonmult_units r (q_u a))) 1 && div then Err EOffset
      else m ←r mmuldiv div (q_m a) n; Ok (Qn m (umuldiv div (q_u a) ∅), o)
  | Qty b =>
      if negb (ok_for_muldiv cfg r (q_u a)) then Err EOffset else
      a1 ←r (if lone_offset r (q_u a) then q_to_root r a else Ok a);        (* self.ito_root_units() *)
      if negb (ok_for_muldiv cfg r (q_u b)) then Err EOffset else
      b1 ←r (if lone_offset r (q_u b) then q_to_root r b else Ok b);        (* other.ito_root_units() : F14 *)
      m ←r mmuldiv div (q_m a1) (q_m b1);
      Ok (Qn m (umuldiv div (q_u a1) (q_u b1)), if c_f14 cfg then Qty b1 else o)
  end.
(** [__rtruediv__]: only reached with a bare number on the left *)
Definition q_rtruediv (cfg : qcfg) (r : reg) (b : quantity) (n : mag) : res quantity :=
  if negb (ok_for_muldiv cfg r (q_u b)) then Err EOffset else
  b1 ←r (if lone_offset r (q_u b) then q_to_root r b else Ok b);
  m ←r mdiv n (q_m b1); Ok (Qn m (uc_inv (q_u b1))).

(** * floor division, modulo, divmod *)
Definition q_floordiv (r : reg) (a : quantity) (o : operand) : res quantity :=
  match o with
  | Qty b => b' ←r q_to r b (q_u a); m ←r mfloordiv (q_m a) (q_m b'); Ok (Qn m ∅)
  | Num n =>
      dl ←r is_dimless r (q_u a);
      if dl then a' ←r q_to r a ∅; m ←r mfloordiv (q_m a') n; Ok (Qn m ∅) else Err EDim
  end.
Definition q_rfloordiv (r : reg) (b : quantity) (o : operand) : res quantity :=
  match o with
  | Qty a => b' ←r q_to r b (q_u a); m ←r mfloordiv (q_m a) (q_m b'); Ok (Qn m ∅)
  | Num n =>
      dl ←r is_dimless r (q_u b);
      if dl then b' ←r q_to r b ∅; m ←r mfloordiv n (q_m b'); Ok (Qn m ∅) else Err EDim
  end.
(** [__ifloordiv__] is in place for every magnitude type *)
Definition q_ifloordiv (r : reg) (a : quantity) (o : operand) : res (quantity * operand) :=
  match o with
  | Qty b => b' ←r q_to r b (q_u a); m ←r mfloordiv (q_m a) (q_m b'); Ok (Qn m ∅, o)
  | Num n =>
      dl ←r is_dimless r (q_u a);
      if dl then a' ←r q_to r a ∅; m ←r mfloordiv (q_m a') n; Ok (Qn m ∅, o) else Err EDim
  end.
(** a bare number is first wrapped as a dimensionless quantity *)
Definition wrap (o : operand) : quantity := match o with Num n => Qn n ∅ | Qty b => b end.
Definition q_mod (r : reg) (a : quantity) (o : operand) : res quantity :=
  b' ←r q_to r (wrap o) (q_u a); m ←r mmod (q_m a) (q_m b'); Ok (Qn m (q_u a)).
Definition q_imod (r : reg) (a : quantity) (o : operand) : res (quantity * operand) :=
  b' ←r q_to r (wrap o) (q_u a); m ←r mmod (q_m a) (q_m b'); Ok (Qn m (q_u a), o).
Definition q_rmod (r : reg) (b : quantity) (o : operand) : res quantity :=
  match o with
  | Qty a => b' ←r q_to r b (q_u a); m ←r mmod (q_m a) (q_m b'); Ok (Qn m (q_u a))
  | Num n =>
      dl ←r is_dimless r (q_u b);
      if dl then b' ←r q_to r b ∅; m ←r mmod n (q_m b'); Ok (Qn m ∅) else Err EDim
  end.
Definition q_divmod (r : reg) (a : quantity) (o : operand) : res (quantity * quantity) :=
  b' ←r q_to r (wrap o) (q_u a);
  q ←r mfloordiv (q_m a) (q_m b'); m ←r mmod (q_m a) (q_m b');
  Ok (Qn q ∅, Qn m (q_u a)).
Definition q_rdivmod (r : reg) (b : quantity) (o : operand) : res (quantity * quantity) :=
  match o with
  | Qty a => b' ←r q_to r b (q_u a);
             q ←r mfloordiv (q_m a) (q_m b'); m ←r mmod (q_m a) (q_m b'); Ok (Qn q ∅, Qn m (q_u a))
  | Num n =>
      dl ←r is_dimless r (q_u b);
      if dl then b' ←r q_to r b ∅;
                 q ←r mfloordiv n (q_m b'); m ←r mmod n (q_m b'); Ok (Qn q ∅, Qn m ∅)
      else Err EDim
  end.

(** * equality with a bare number, as [__pow__] uses it ([other == 1], [other == 0]) *)
Definition q_eq_num (r : reg) (b : quantity) (n : mag) : res bool :=
  if zero_or_nan n then Ok (meq (q_m b) n)       (* multiplicative units: compare the magnitude *)
  else dl ←r is_dimless r (q_u b);
       if dl then b' ←r q_to r b ∅; Ok (meq (q_m b') n) else Ok false.
Definition o_eq_num (r : reg) (o : operand) (n : mag) : res bool :=
  match o with Num x => Ok (meq x n) | Qty b => q_eq_num r b n end.

(** * powers.  The exponent is a bare number or a quantity (dimensionless: its root magnitude). *)
Definition exponent_of (r : reg) (o : operand) : res mag :=
  match o with
  | Num n => Ok n
  | Qty e => dl ←r is_dimless r (q_u e);
             if dl then e' ←r q_to_root r e; Ok (q_m e') else Err EDim
  end.
Definition pow_core (a : quantity) (e : mag) : res quantity :=
  match e with
  | Fin q => m ←r mpow (q_m a) e; Ok (Qn m (uc_pow (q_u a) q))
  | NaN => Err EIrrational
  end.
Definition q_pow (r : reg) (a : quantity) (o : operand) : res quantity :=
  one ←r o_eq_num r o (Fin 1);
  if one then Ok a else
  zero ←r o_eq_num r o (Fin 0);
  if zero then m ←r mpowZ (q_m a) 0; Ok (Qn m ∅) else
  if negb (bool_decide (nonmult_units r (q_u a) = [])) then Err EOffset else
  e ←r exponent_of r o; pow_core a e.
Definition q_ipow (cfg : qcfg) (r : reg) (a : quantity) (o : operand) : res (quantity * operand) :=
  one ←r o_eq_num r o (Fin 1);
  if one then Ok (a, o) else
  zero ←r o_eq_num r o (Fin 0);
  if zero then
    match o with
    | Qty _ => if c_f80 cfg then Err EType       (* ndarray **= Quantity: TypeError from the ufunc machinery *)
               else m ←r mpowZ (q_m a) 0; Ok (Qn m ∅, o)
    | Num _ => m ←r mpowZ (q_m a) 0; Ok (Qn m ∅, o)
    end
  else
  if negb (bool_decide (nonmult_units r (q_u a) = [])) then Err EOffset else
  e ←r exponent_of r o; x ←r pow_core a e; Ok (x, o).
(** [__rpow__]: [other ** self] for a dimensionless [self]; the result is whatever
    [other ** number] is — a bare number for a bare [other] *)
Definition q_rpow (r : reg) (b : quantity) (n : mag) : res mag :=
  dl ←r is_dimless r (q_u b);
  if dl then b' ←r q_to_root r b; mpow n (q_m b') else Err EDim.

Definition q_neg (a : quantity) : quantity := Qn (mneg (q_m a)) (q_u a).
Definition q_abs (a : quantity) : quantity := Qn (mabs (q_m a)) (q_u a).

(** * [__eq__] and [compare] (multiplicative units) *)
Definition q_eq (r : reg) (a : quantity) (o : operand) : res bool :=
  match o with
  | Num n => q_eq_num r a n
  | Qty b =>
      if mzero (q_m a) && mzero (q_m b) then
        da ←r dim_of r (q_u a); db ←r dim_of r (q_u b); Ok (uc_eqb da db)
      else if uc_eqb (q_u a) (q_u b) then Ok (meq (q_m a) (q_m b))
      else match q_to r a (q_u b) with
           | Ok a' => Ok (meq (q_m a') (q_m b))
           | Err EDim => Ok false
           | Err e => Err e
           end
  end.
Definition q_cmp (r : reg) (op : cmpop) (a : quantity) (o : operand) : res bool :=
  match o with
  | Num n =>
      dl ←r is_dimless r (q_u a);
      if dl then a' ←r q_to r a ∅; Ok (mcmp op (q_m a') n)
      else if zero_or_nan n then Ok (mcmp op (q_m a) n)
      else Err EValue
  | Qty b =>
      if uc_eqb (q_u a) (q_u b) then Ok (mcmp op (q_m a) (q_m b))
      else da ←r dim_of r (q_u a); db ←r dim_of r (q_u b);
           if negb (uc_eqb da db) then Err EDim
           else a' ←r q_to_root r a; b' ←r q_to_root r b; Ok (mcmp op (q_m a') (q_m b'))
  end.

(** * Operator dispatch as Python performs it, and expression trees *)
Inductive binop := OAdd | OSub | OMul | ODiv | OFloorDiv | OMod | ODivmodQ | ODivmodR | OPow.
Inductive form := FPlain | FRefl | FInpl.
Inductive unop := UNeg | UAbs | UPos.

(** Python numbers *)
Definition num_bin (op : binop) (x y : mag) : res mag :=
  match op with
  | OAdd => Ok (madd x y) | OSub => Ok (msub x y) | OMul => Ok (mmul x y)
  | ODiv => mdiv x y | OFloorDiv | ODivmodQ => mfloordiv x y | OMod | ODivmodR => mmod x y
  | OPow => mpow x y
  end.
(** [a.__op__(o)] *)
Definition q_bin (cfg : qcfg) (r : reg) (op : binop) (a : quantity) (o : operand) : res operand :=
  match op with
  | OAdd => x ←r q_add_sub r false a o; Ok (Qty x)
  | OSub => x ←r q_add_sub r true a o; Ok (Qty x)
  | OMul => x ←r q_mul_div cfg r false a o; Ok (Qty x)
  | ODiv => x ←r q_mul_div cfg r true a o; Ok (Qty x)
  | OFloorDiv => x ←r q_floordiv r a o; Ok (Qty x)
  | OMod => x ←r q_mod r a o; Ok (Qty x)
  | ODivmodQ => x ←r q_divmod r a o; Ok (Qty x.1)
  | ODivmodR => x ←r q_divmod r a o; Ok (Qty x.2)
  | OPow => x ←r q_pow r a o; Ok (Qty x)
  end.
(** [b.__rop__(o)], i.e. [o op b].  [__rtruediv__] and [__rpow__] are operator paths only for
    a bare left operand. *)
Definition q_rbin (cfg : qcfg) (r : reg) (op : binop) (b : quantity) (o : operand) : res operand :=
  match op with
  | OAdd => x ←r q_add_sub r false b o; Ok (Qty x)         (* __radd__ = __add__ *)
  | OSub => x ←r q_rsub r b o; Ok (Qty x)
  | OMul => x ←r q_mul_div cfg r false b o; Ok (Qty x)     (* __rmul__ = __mul__ *)
  | ODiv => match o with Num n => x ←r q_rtruediv cfg r b n; Ok (Qty x) | Qty _ => Err EType end
  | OFloorDiv => x ←r q_rfloordiv r b o; Ok (Qty x)
  | OMod => x ←r q_rmod r b o; Ok (Qty x)
  | ODivmodQ => x ←r q_rdivmod r b o; Ok (Qty x.1)
  | ODivmodR => x ←r q_rdivmod r b o; Ok (Qty x.2)
  | OPow => match o with Num n => x ←r q_rpow r b n; Ok (Num x) | Qty _ => Err EType end
  end.
(** in-place forms on the ndarray path: new target and the other operand afterwards *)
Definition q_ibin (cfg : qcfg) (r : reg) (op : binop) (a : quantity) (o : operand) : res (operand * operand) :=
  match op with
  | OAdd => x ←r q_iadd_sub r false a o; Ok (Qty x.1, x.2)
  | OSub => x ←r q_iadd_sub r true a o; Ok (Qty x.1, x.2)
  | OMul => x ←r q_imul_div cfg r false a o; Ok (Qty x.1, x.2)
  | ODiv => x ←r q_imul_div cfg r true a o; Ok (Qty x.1, x.2)
  | OFloorDiv => x ←r q_ifloordiv r a o; Ok (Qty x.1, x.2)
  | OMod => x ←r q_imod r a o; Ok (Qty x.1, x.2)
  | ODivmodQ | ODivmodR => x ←r q_bin cfg r op a o; Ok (x, o)        (* there is no __idivmod__ *)
  | OPow => x ←r q_ipow cfg r a o; Ok (Qty x.1, x.2)
  end.
Definition apply_bin (cfg : qcfg) (r : reg) (op : binop) (f : form) (l rt : operand) : res operand :=
  match f, l, rt with
  | FRefl, _, Qty b => q_rbin cfg r op b l
  | FRefl, _, Num _ => Err EType
  | FInpl, Qty a, _ => x ←r q_ibin cfg r op a rt; Ok x.1
  | _, Qty a, _ => q_bin cfg r op a rt
  | _, Num x, Qty b => q_rbin cfg r op b (Num x)
  | _, Num x, Num y => m ←r num_bin op x y; Ok (Num m)
  end.
Definition apply_un (op : unop) (x : operand) : operand :=
  match x with
  | Num m => Num (match op with UNeg => mneg m | UAbs => mabs m | UPos => m end)
  | Qty a => Qty (match op with UNeg => q_neg a | UAbs => q_abs a | UPos => a end)
  end.

Inductive expr (L : Type) :=
| ELeaf (x : L)
| EBin (op : binop) (f : form) (l r : expr L)
| EUn (op : unop) (e : expr L).
Arguments ELeaf {L} x. Arguments EBin {L} op f l r. Arguments EUn {L} op e.
Fixpoint emap {L M} (g : L → M) (t : expr L) : expr M :=
  match t with
  | ELeaf x => ELeaf (g x)
  | EBin op f l r => EBin op f (emap g l) (emap g r)
  | EUn op e => EUn op (emap g e)
  end.
Fixpoint eleaves {L} (t : expr L) : list L :=
  match t with
  | ELeaf x => [x]
  | EBin _ _ l r => eleaves l ++ eleaves r
  | EUn _ e => eleaves e
  end.
Fixpoint eval (cfg : qcfg) (r : reg) (t : expr operand) : res operand :=
  match t with
  | ELeaf x => Ok x
  | EBin op f l rt => a ←r eval cfg r l; b ←r eval cfg r rt; apply_bin cfg r op f a b
  | EUn op e => a ←r eval cfg r e; Ok (apply_un op a)
  end.

(** * The physical value: magnitude times the factor to root units, and the dimensionality
      (not the base units: radian, count, … are dimensionless with factor 1) *)
Definition fac (r : reg) (u : uc) : Qc :=
  match root_of r u with Ok (Some f, _, _) => f | _ => 0%Qc end.
Definition dimv (r : reg) (u : uc) : uc := match dim_of r u with Ok d => d | Err _ => ∅ end.
Definition phys (r : reg) (a : quantity) : mag * uc := (mscale (q_m a) (fac r (q_u a)), dimv r (q_u a)).

(** * Spec: the algebra of physical values.  A bare number stays a bare number (the
      bare-number rule distinguishes it from a dimensionless quantity). *)
Inductive pval := PN (m : mag) | PQ (x : mag) (d : uc).
Definition ophys (r : reg) (o : operand) : pval :=
  match o with Num m => PN m | Qty a => PQ (phys r a).1 (phys r a).2 end.

Definition p_add_sub (sub : bool) (l rt : pval) : res pval :=
  let op := if sub then msub else madd in
  match l, rt with
  | PN x, PN y => Ok (PN (op x y))
  | PQ x d, PQ y e => if uc_eqb d e then Ok (PQ (op x y) d) else Err EDim
  | PQ x d, PN n => if zero_or_nan n || uc_eqb d ∅ then Ok (PQ (op x n) d) else Err EDim
  | PN n, PQ y e => if zero_or_nan n || uc_eqb e ∅ then Ok (PQ (op n y) e) else Err EDim
  end.
Definition p_mul_div (div : bool) (l rt : pval) : res pval :=
  match l, rt with
  | PN x, PN y => m ←r mmuldiv div x y; Ok (PN m)
  | PQ x d, PQ y e => m ←r mmuldiv div x y; Ok (PQ m (umuldiv div d e))
  | PQ x d, PN n => m ←r mmuldiv div x n; Ok (PQ m d)
  | PN n, PQ y e => m ←r mmuldiv div n y; Ok (PQ m (if div then uc_inv e else e))
  end.
Definition p_divmod (l rt : pval) : res (pval * pval) :=
  match l, rt with
  | PN x, PN y => q ←r mfloordiv x y; m ←r mmod x y; Ok (PN q, PN m)
  | PQ x d, PQ y e =>
      if uc_eqb d e then q ←r mfloordiv x y; m ←r mmod x y; Ok (PQ q ∅, PQ m d) else Err EDim
  | PQ x d, PN n =>
      if uc_eqb d ∅ then q ←r mfloordiv x n; m ←r mmod x n; Ok (PQ q ∅, PQ m ∅) else Err EDim
  | PN n, PQ y e =>
      if uc_eqb e ∅ then q ←r mfloordiv n y; m ←r mmod n y; Ok (PQ q ∅, PQ m ∅) else Err EDim
  end.
Definition p_floordiv (l rt : pval) : res pval :=
  match l, rt with
  | PN x, PN y => q ←r mfloordiv x y; Ok (PN q)
  | PQ x d, PQ y e => if uc_eqb d e then q ←r mfloordiv x y; Ok (PQ q ∅) else Err EDim
  | PQ x d, PN n => if uc_eqb d ∅ then q ←r mfloordiv x n; Ok (PQ q ∅) else Err EDim
  | PN n, PQ y e => if uc_eqb e ∅ then q ←r mfloordiv n y; Ok (PQ q ∅) else Err EDim
  end.
Definition p_mod (l rt : pval) : res pval :=
  match l, rt with
  | PN x, PN y => q ←r mmod x y; Ok (PN q)
  | PQ x d, PQ y e => if uc_eqb d e then q ←r mmod x y; Ok (PQ q d) else Err EDim
  | PQ x d, PN n => if uc_eqb d ∅ then q ←r mmod x n; Ok (PQ q ∅) else Err EDim
  | PN n, PQ y e => if uc_eqb e ∅ then q ←r mmod n y; Ok (PQ q ∅) else Err EDim
  end.
(** exponent: [== 1] and [== 0] tests as [__pow__] makes them, then the value *)
Definition p_is_one (e : pval) : bool :=
  match e with PN n => meq n (Fin 1) | PQ y d => uc_eqb d ∅ && meq y (Fin 1) end.
Definition p_is_zero (e : pval) : bool :=
  match e with PN n => meq n (Fin 0) | PQ y d => meq y (Fin 0) end.
Definition p_exponent (e : pval) : res mag :=
  match e with PN n => Ok n | PQ y d => if uc_eqb d ∅ then Ok y else Err EDim end.
Definition p_pow (l rt : pval) : res pval :=
  match l with
  | PN n =>
      match rt with
      | PN y => m ←r mpow n y; Ok (PN m)
      | PQ y e => if uc_eqb e ∅ then m ←r mpow n y; Ok (PN m) else Err EDim
      end
  | PQ x d =>
      if p_is_one rt then Ok (PQ x d)
      else if p_is_zero rt then Ok (PQ (Fin 1) ∅)
      else e ←r p_exponent rt;
           match e with
           | Fin q => m ←r mpow x e; Ok (PQ m (uc_pow d q))
           | NaN => Err EIrrational
           end
  end.
Definition p_bin (op : binop) (l rt : pval) : res pval :=
  match op with
  | OAdd => p_add_sub false l rt | OSub => p_add_sub true l rt
  | OMul => p_mul_div false l rt | ODiv => p_mul_div true l rt
  | OFloorDiv => p_floordiv l rt | OMod => p_mod l rt
  | ODivmodQ => x ←r p_divmod l rt; Ok x.1 | ODivmodR => x ←r p_divmod l rt; Ok x.2
  | OPow => p_pow l rt
  end.
(** combinations that are not operator paths: a reflected form needs a quantity on the right;
    [__rtruediv__] / [__rpow__] need a bare number on the left *)
Definition not_a_path (op : binop) (f : form) (l rt : pval) : bool :=
  match f, l, rt with
  | FRefl, _, PN _ => true
  | FRefl, PQ _ _, PQ _ _ => match op with ODiv | OPow => true | _ => false end
  | _, _, _ => false
  end.
(** defect F80 as coded: [target **= exponent] (ndarray target) with a zero-valued Quantity
    exponent ends in a TypeError *)
Definition f80_case (cfg : qcfg) (op : binop) (f : form) (l rt : pval) : bool :=
  c_f80 cfg &&
  match f, op, l, rt with
  | FInpl, OPow, PQ _ _, PQ _ _ => negb (p_is_one rt) && p_is_zero rt
  | _, _, _, _ => false
  end.
Definition p_apply (cfg : qcfg) (op : binop) (f : form) (l rt : pval) : res pval :=
  if not_a_path op f l rt then Err EType
  else if f80_case cfg op f l rt then Err EType
  else p_bin op l rt.
Definition p_un (op : unop) (x : pval) : pval :=
  match x with
  | PN m => PN (match op with UNeg => mneg m | UAbs => mabs m | UPos => m end)
  | PQ m d => PQ (match op with UNeg => mneg m | UAbs => mabs m | UPos => m end) d
  end.
Fixpoint peval (cfg : qcfg) (t : expr pval) : res pval :=
  match t with
  | ELeaf x => Ok x
  | EBin op f l rt => a ←r peval cfg l; b ←r peval cfg rt; p_apply cfg op f a b
  | EUn op e => a ←r peval cfg e; Ok (p_un op a)
  end.
(** [abs] is the one operator whose covariance needs positive scales *)
Fixpoint uses_abs {L} (t : expr L) : bool :=
  match t with
  | ELeaf _ => false
  | EBin _ _ l r => uses_abs l || uses_abs r
  | EUn op e => match op with UAbs => true | _ => uses_abs e end
  end.
Definition p_eq (l rt : pval) : bool :=
  match l, rt with
  | PN x, PN y => meq x y
  | PQ x d, PN n | PN n, PQ x d => if zero_or_nan n then meq x n else uc_eqb d ∅ && meq x n
  | PQ x d, PQ y e => if mzero x && mzero y then uc_eqb d e else uc_eqb d e && meq x y
  end.
Definition p_cmp (op : cmpop) (x : mag) (d : uc) (rt : pval) : res bool :=
  match rt with
  | PN n => if uc_eqb d ∅ || zero_or_nan n then Ok (mcmp op x n) else Err EValue
  | PQ y e => if uc_eqb d e then Ok (mcmp op x y) else Err EDim
  end.
