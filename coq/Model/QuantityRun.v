(** Model/QuantityRun.v — correspondence cases for quantity arithmetic (C03): each case carries
    what pint did; [c03_ok] is true when the model does the same.  The differ runs inside Coq. *)
From PintV Require Import Model.UC Model.Eval Model.Registry Model.Quantity.
Open Scope string_scope.

(** an observed magnitude: exact (int / Fraction), a float (given as the exact rational it is,
    compared within 2^-30 relative), or NaN *)
Inductive omag := OExactM (q : Qc) | OApproxM (q : Qc) | ONaNM.
Inductive errclass := XDim | XZeroDiv | XOffset | XType | XValue | XOther.
Inductive obs :=
| ObsQty (m : omag) (u : uc)
| ObsNum (m : omag)
| ObsErr (c : errclass).

Definition class_of (e : err) : errclass :=
  match e with
  | EDim => XDim | EZeroDiv => XZeroDiv | EOffset => XOffset | EType => XType | EValue => XValue
  | _ => XOther
  end.
Definition errclass_eqb (a b : errclass) : bool :=
  match a, b with
  | XDim, XDim | XZeroDiv, XZeroDiv | XOffset, XOffset | XType, XType | XValue, XValue | XOther, XOther => true
  | _, _ => false
  end.
Definition qabs (x : Qc) : Qc := if qneg x then (- x)%Qc else x.
Definition qmax (x y : Qc) : Qc := if Qle_bool (this x) (this y) then y else x.
Definition close (x y : Qc) : bool :=
  Qle_bool (this (qabs (x - y) * Q2Qc (1073741824 # 1))%Qc) (this (qmax (qabs x) (qabs y))).
Definition omag_ok (m : mag) (o : omag) : bool :=
  match m, o with
  | Fin x, OExactM y => bool_decide (x = y)
  | Fin x, OApproxM y => close x y
  | NaN, ONaNM => true
  | _, _ => false
  end.
Definition obs_ok (x : res operand) (o : obs) : bool :=
  match x, o with
  | Ok (Qty a), ObsQty m u => omag_ok (q_m a) m && uc_eqb (q_u a) u
  | Ok (Num n), ObsNum m => omag_ok n m
  | Err e, ObsErr c => errclass_eqb (class_of e) c
  | _, _ => false
  end.
Definition obs_bool_ok (x : res bool) (o : res bool) : bool :=
  match x, o with
  | Ok a, Ok b => eqb a b
  | Err e, Err e' => errclass_eqb (class_of e) (class_of e')
  | _, _ => false
  end.
(** the right operand as observed after an in-place operation *)
Definition other_ok (x : operand) (o : obs) : bool := obs_ok (Ok x) o.

(** scalar targets: [__iadd__], [__isub__], [__imul__], [__itruediv__], [__ipow__] delegate to the
    plain methods ([__ifloordiv__], [__imod__] are in place for every magnitude type); in the
    model this is the in-place path with the F80 switch off (see [ipow_agree]) *)
Definition cfg_scalar : qcfg := QCfg false true false.

Inductive qcase :=
| KTree (cfg : qcfg) (t : expr operand) (o : obs)                     (* a whole expression *)
| KOp (cfg : qcfg) (op : binop) (f : form) (l rt : operand) (o : obs)  (* one operator application *)
| KInpl (cfg : qcfg) (op : binop) (a : quantity) (rt : operand) (o : obs) (other_after : obs)
                                                                       (* in-place form: result and the right operand afterwards *)
| KUn (op : unop) (x : operand) (o : obs)
| KEq (a : quantity) (rt : operand) (o : res bool)
| KCmp (op : cmpop) (a : quantity) (rt : operand) (o : res bool)
| KPowUnits (u : uc) (e : Qc) (u' : uc)                                (* units ** rational exponent *)
| KPhys (a : quantity) (m : omag) (d : uc).                            (* to_root_units magnitude, dimensionality *)

Definition c03_ok (r : reg) (c : qcase) : bool :=
  match c with
  | KTree cfg t o => obs_ok (eval cfg r t) o
  | KOp cfg op f l rt o => obs_ok (apply_bin cfg r op f l rt) o
  | KInpl cfg op a rt o after =>
      match q_ibin cfg r op a rt with
      | Ok (x, rt') => obs_ok (Ok x) o && other_ok rt' after
      | Err e => obs_ok (Err e) o && other_ok rt after
      end
  | KUn op x o => obs_ok (Ok (apply_un op x)) o
  | KEq a rt o => obs_bool_ok (q_eq r a rt) o
  | KCmp op a rt o => obs_bool_ok (q_cmp r op a rt) o
  | KPowUnits u e u' => uc_eqb (uc_pow u e) u'
  | KPhys a m d => omag_ok (phys r a).1 m && uc_eqb (phys r a).2 d
  end.
