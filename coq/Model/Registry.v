(** Model/Registry.v — definitions, name resolution, dimensionality and root units,
    mirroring pint/facets/plain/registry.py and the plain definition classes.
    Definitions only. *)
From Coq Require Import Ascii String.
From PintV Require Import Model.UC Model.Eval.
Open Scope string_scope.

(** * Numbers: decimal literals as exact rationals ([int(text)], [Fraction(text)], [Decimal(text)]) *)
Definition digit_of (a : ascii) : option Z :=
  let n := Z.of_N (Ascii.N_of_ascii a) in
  if (48 <=? n)%Z && (n <=? 57)%Z then Some (n - 48)%Z else None.
(** reads digits; returns (value, number of digits, rest) *)
Fixpoint read_digits (s : string) (acc : Z) (n : Z) : Z * Z * string :=
  match s with
  | String a s' =>
      match digit_of a with
      | Some d => read_digits s' (acc * 10 + d)%Z (n + 1)%Z
      | None => if Ascii.eqb a "_"%char then read_digits s' acc n else (acc, n, s)
      end
  | EmptyString => (acc, n, s)
  end.
Definition pow10 (e : Z) : Qc :=
  match e with
  | Z0 => 1%Qc
  | Zpos p => Q2Qc (inject_Z (Z.pow 10 (Zpos p)))
  | Zneg p => Q2Qc (1 # (Z.to_pos (Z.pow 10 (Zpos p))))
  end.
Definition parse_number (s : string) : option Qc :=
  let '(ip, ni, r1) := read_digits s 0%Z 0%Z in
  let '(mant, nf, r2) :=
    match r1 with
    | String "."%char r => let '(m, n, r') := read_digits r ip 0%Z in (m, n, r')
    | _ => (ip, 0%Z, r1)
    end in
  if (ni + nf =? 0)%Z then None else
  let fin (e : Z) := Some (Q2Qc (inject_Z mant) * pow10 (e - nf))%Qc in
  match r2 with
  | EmptyString => fin 0%Z
  | String c r =>
      if Ascii.eqb c "e"%char || Ascii.eqb c "E"%char then
        let '(sgn, r') := match r with
                          | String "-"%char r' => ((-1)%Z, r')
                          | String "+"%char r' => (1%Z, r')
                          | _ => (1%Z, r) end in
        let '(ev, ne, r'') := read_digits r' 0%Z 0%Z in
        if (ne =? 0)%Z then None else
        match r'' with EmptyString => fin (sgn * ev)%Z | _ => None end
      else None
  end.

(** * Definitions *)
Inductive conv := CScale | COffset (o : Qc) | CLog (logbase logfactor : Qc).
Record udef := UDef {
  u_name : string; u_sym : option string; u_aliases : list string;
  u_scale : Qc;
  u_float : bool;      (* the scale went through a non-integer power: a float even in exact registries *)
  u_conv : conv; u_ref : uc; u_base : bool }.
Record pdef := PDef { p_name : string; p_sym : option string; p_aliases : list string; p_val : Qc }.
Inductive ddef := DBase | DDerived (ref : uc).

Definition u_symbol (d : udef) : string :=
  match u_sym d with Some s => if String.eqb s "" then u_name d else s | None => u_name d end.
Definition p_symbol (d : pdef) : string :=
  match p_sym d with Some s => if String.eqb s "" then p_name d else s | None => p_name d end.
Definition u_multiplicative (d : udef) : bool :=
  match u_conv d with CScale => true | COffset o => qz o | CLog _ _ => false end.

Record reg := Reg {
  r_units : gmap string udef;        (* every spelling ↦ definition (pint's [_units]) *)
  r_unit_names : list string;        (* canonical names in definition order (enumeration only) *)
  r_prefixes : gmap string pdef;     (* every spelling ↦ definition, "" included *)
  r_prefix_keys : list string;       (* spellings in insertion order: observable in name parsing *)
  r_dims : gmap string ddef;
  r_base_units : list string }.

Definition empty_reg : reg :=
  Reg ∅ [] {[ "" := PDef "" None [] 1%Qc ]} [""] ∅ [].

(** * Name parsing: [_yield_unit_triplets], [_dedup_candidates], [get_name], [get_symbol] *)
Definition is_cont_byte (a : ascii) : bool :=
  let n := Ascii.N_of_ascii a in (128 <=? n)%N && (n <? 192)%N.
Fixpoint ulen (s : string) : nat :=     (* Python len(): code points of UTF-8 text *)
  match s with EmptyString => 0 | String a s' => if is_cont_byte a then ulen s' else S (ulen s') end.
Definition str_drop (n : nat) (s : string) : string := substring n (String.length s - n) s.
Definition str_take (n : nat) (s : string) : string := substring 0 n s.
Definition ends_with (suffix s : string) : bool :=
  let ls := String.length suffix in let l := String.length s in
  Nat.leb ls l && String.eqb (substring (l - ls) ls s) suffix.

Definition suffixes : list string := [""; "s"].

Definition triplets (r : reg) (s : string) : list (string * string) :=
  flat_map (λ suffix,
    flat_map (λ pk,
      if String.prefix pk s && ends_with suffix s then
        let name := str_drop (String.length pk) s in
        let name := if String.eqb suffix "" then name
                    else str_take (String.length name - String.length suffix) name in
        if negb (String.eqb suffix "") && Nat.eqb (ulen name) 1 then []
        else match r_units r !! name, r_prefixes r !! pk with
             | Some d, Some p => [(p_name p, u_name d)]
             | _, _ => []
             end
      else []) (r_prefix_keys r)) suffixes.

Definition pair_eqb (a b : string * string) : bool := String.eqb a.1 b.1 && String.eqb a.2 b.2.
Fixpoint dedup_keep_first (l : list (string * string)) (seen : list (string * string)) :=
  match l with
  | [] => []
  | x :: l' => if existsb (pair_eqb x) seen then dedup_keep_first l' seen
               else x :: dedup_keep_first l' (x :: seen)
  end.
(** ordered set, then for every prefixed candidate drop the unprefixed reading of the same string *)
Definition dedup_candidates (l : list (string * string)) : list (string * string) :=
  let o := dedup_keep_first l [] in
  fold_left (λ acc c, if String.eqb c.1 "" then acc
                      else filter (λ x, negb (pair_eqb x ("", c.1 ++ c.2))) acc) o o.
Definition parse_unit_name (r : reg) (s : string) : list (string * string) :=
  dedup_candidates (triplets r s).

Definition get_symbol (r : reg) (s : string) : res string :=
  match parse_unit_name r s with
  | [] => Err (EUndefined s)
  | (p, u) :: _ =>
      match r_prefixes r !! p, r_units r !! u with
      | Some pd, Some ud => Ok (p_symbol pd ++ u_symbol ud)
      | _, _ => Err EKey
      end
  end.
(** [get_symbol] as the registry answers since the repair of F45: an exact entry of the unit
    table first, the parsed reading otherwise.  ([get_symbol] above is the parsed reading, which
    is what the lazily built definition of a prefixed unit uses.) *)
Definition get_symbol_exact (r : reg) (s : string) : res string :=
  match r_units r !! s with
  | Some d => Ok (u_symbol d)
  | None => get_symbol r s
  end.

(** [get_name] and the definition it denotes.  Lazily registered prefixed units are a pure
    function of the string, so resolution is modelled without state; the stateful reading
    (needed for history questions) is [register] below. *)
Definition prefixed_def (r : reg) (p u : string) : res udef :=
  match r_prefixes r !! p, r_units r !! u with
  | Some pd, Some ud =>
      if negb (u_multiplicative ud) then Err EOffset
      else sym ←r get_symbol r (p ++ u);
           Ok (UDef (p ++ u) (Some sym) [] (p_val pd) false CScale {[ u := 1%Qc ]} false)
  | _, _ => Err EKey
  end.
Definition resolve (r : reg) (s : string) : res udef :=
  match r_units r !! s with
  | Some d => Ok d
  | None =>
      match parse_unit_name r s with
      | [] => Err (EUndefined s)
      | (p, u) :: _ =>
          if String.eqb p "" then
            match r_units r !! u with Some d => Ok d | None => Err EKey end
          else
            (* since the repair of F46 a written definition named prefix+unit is never replaced *)
            match r_units r !! (p ++ u) with
            | Some d => Ok d
            | None => prefixed_def r p u
            end
      end
  end.
Definition get_name (r : reg) (s : string) : res string :=
  if String.eqb s "dimensionless" then Ok "" else d ←r resolve r s; Ok (u_name d).
(** stateful reading: the registry after [get_name s] *)
Definition register (r : reg) (s : string) : reg :=
  match r_units r !! s with
  | Some _ => r
  | None =>
      match parse_unit_name r s with
      | (p, u) :: _ =>
          if String.eqb p "" then r else
          match prefixed_def r p u with
          | Ok d => Reg (<[p ++ u := d]> (r_units r)) (r_unit_names r) (r_prefixes r)
                        (r_prefix_keys r) (r_dims r) (r_base_units r)
          | Err _ => r
          end
      | [] => r
      end
  end.

(** * Dimensionality: [_get_dimensionality_recurse] *)
Definition is_dim (s : string) : bool :=      (* name[0] == "[" and name[-1] == "]" *)
  String.prefix "[" s && ends_with "]" s.

Fixpoint foldM {A B} (f : A → B → res A) (l : list B) (a : A) : res A :=
  match l with [] => Ok a | b :: l' => a' ←r f a b; foldM f l' a' end.

Fixpoint dim_rec (fuel : nat) (r : reg) (ref : list (string * Qc)) (exp : Qc) (acc : uc) : res uc :=
  match fuel with
  | O => Err EFuel
  | S f =>
      foldM (λ acc kv,
        let '(key, v) := kv in
        let exp2 := (exp * v)%Qc in
        if is_dim key then
          match r_dims r !! key with
          | None => Err EValue
          | Some (DDerived dref) => dim_rec f r (map_to_list dref) exp2 acc
          | Some DBase => Ok (uc_add acc key exp2)
          end
        else
          d ←r resolve r key; dim_rec f r (map_to_list (u_ref d)) exp2 acc)
        ref acc
  end.

Definition reg_fuel (r : reg) : nat := 64.
Definition dim_of (r : reg) (a : uc) : res uc :=
  d ←r dim_rec (reg_fuel r) r (map_to_list a) 1 ∅; Ok (delete "[]" d).

(** * Root units: [_get_root_units_recurse].  The multiplicative factor is kept symbolic —
    a container over the names of the non-base definitions visited, [Π scale(g)^F(g)] — and
    evaluated at the end; [ra_exact] records whether pint itself would stay in exact
    arithmetic (every [scale ** exp2] had an integer [exp2] and a non-float scale). *)
Record racc := RAcc { ra_F : uc; ra_B : uc; ra_exact : bool }.
Fixpoint root_rec (fuel : nat) (r : reg) (ref : list (string * Qc)) (exp : Qc) (acc : racc) : res racc :=
  match fuel with
  | O => Err EFuel
  | S f =>
      foldM (λ acc kv,
        let '(key, v) := kv in
        let exp2 := (exp * v)%Qc in
        d ←r resolve r key;
        if u_base d then Ok (RAcc (ra_F acc) (uc_add (ra_B acc) (u_name d) exp2) (ra_exact acc))
        else
          let acc' := RAcc (if bool_decide (u_scale d = 1%Qc) && negb (u_float d) then ra_F acc else uc_add (ra_F acc) (u_name d) exp2) (ra_B acc)
                           (ra_exact acc && (is_int exp2 && negb (u_float d))) in
          root_rec f r (map_to_list (u_ref d)) exp2 acc')
        ref acc
  end.
Definition root_sym (r : reg) (a : uc) : res racc :=
  root_rec (reg_fuel r) r (map_to_list a) 1 (RAcc ∅ ∅ true).

(** numeric value of a symbolic factor; [None] when some generator has a non-integer exponent *)
Definition eval_factor (r : reg) (F : uc) : res (option Qc) :=
  foldM (λ (acc : option Qc) kv,
    let '(g, e) := kv in
    d ←r resolve r g;
    match acc with
    | None => Ok None
    | Some x =>
        if u_float d then Ok None
        else if is_int e then
          match Qc_powZ (u_scale d) (Qnum (this e)) with
          | Some y => Ok (Some (x * y)%Qc)
          | None => Err EZeroDiv
          end
        else Ok None
    end) (map_to_list F) (Some 1%Qc).

(** [_get_root_units]: (factor, base-unit container); factor [None] = not exact *)
Definition nonmult_in (r : reg) (b : uc) : bool :=
  existsb (λ kv, match r_units r !! kv.1 with Some d => negb (u_multiplicative d) | None => false end)
          (map_to_list b).
Definition root_of (r : reg) (a : uc) : res (option Qc * uc * bool) :=
  acc ←r root_sym r a;
  f ←r eval_factor r (ra_F acc);
  Ok (f, ra_B acc, ra_exact acc).

(** [_get_conversion_factor] / the multiplicative path of [_convert] *)
Definition conv_factor (r : reg) (src dst : uc) : res (option Qc * bool) :=
  ds ←r dim_of r src; dd ←r dim_of r dst;
  if negb (uc_eqb ds dd) then Err EDim
  else '(f, _, ex) ←r root_of r (uc_div src dst); Ok (f, ex).
Definition convert_mult (r : reg) (src dst : uc) (x : Qc) : res (option Qc) :=
  '(f, _) ←r conv_factor r src dst; Ok (match f with Some f => Some (x * f)%Qc | None => None end).

(** * Elaboration of raw definitions (what T1 emits) into a registry: the adders *)
Inductive rawdef :=
| RPrefix (fields : list string) (value : list tok)
| RUnit (fields : list string) (rhs : list tok) (mods : list (string * list tok))
| RDim (name : string)
| RDerivedDim (name : string) (rhs : list tok)
| RAlias (name : string) (aliases : list string).

(** symbol / alias fields: ["_"] means no symbol; empty and ["_"] aliases are dropped *)
Definition split_sym_aliases (l : list string) : option string * list string :=
  match l with
  | [] => (None, [])
  | s :: rest =>
      let clean := filter (λ a, negb (String.eqb a "" || String.eqb a "_")) in
      if String.eqb s "_" then (None, clean rest) else (Some s, clean rest)
  end.

Definition ph_leaf (t : tok) : res pval :=
  match t with
  | TNum s => match parse_number s with Some q => Ok (PNum q false) | None => Err ESyntax end
  | TName s => Ok (PPh (ph_of_word s) false)
  | _ => Err EOther
  end.
Definition undo_bra (s : string) : string := s.
(** [ParserHelper.from_string] on an already tokenised string *)
Definition ph_from_tokens (toks : list tok) : res (ph * bool) :=
  t ←r build op_priority toks;
  v ←r evaluate ph_leaf pv_binop pv_unop t;
  match v with PNum q f => Ok (ph_of_num q, f) | PPh p f => Ok (p, f) end.
Definition num_from_tokens (toks : list tok) : res Qc :=
  ' (p, f) ←r ph_from_tokens toks;
  if f then Err EIrrational
  else if bool_decide (ph_d p = ∅) then Ok (ph_scale p) else Err EValue.

Definition add_key {A} (k : string) (v : A) (m : gmap string A) : gmap string A := <[k := v]> m.
Definition add_def_keys (d : udef) (m : gmap string udef) : gmap string udef :=
  let m1 := <[u_name d := d]> m in
  let m2 := match u_sym d with
            | Some s => if String.eqb s "" then m1 else <[s := d]> m1
            | None => m1 end in
  fold_left (λ m a, <[a := d]> m) (u_aliases d) m2.
Definition add_unit_def (r : reg) (d : udef) : reg :=
  let dims' := if u_base d
               then fold_left (λ m kv, match m !! kv.1 with Some _ => m | None => <[kv.1 := DBase]> m end)
                              (map_to_list (u_ref d)) (r_dims r)
               else r_dims r in
  Reg (add_def_keys d (r_units r)) (r_unit_names r ++ [u_name d]) (r_prefixes r) (r_prefix_keys r)
      dims' (if u_base d then r_base_units r ++ [u_name d] else r_base_units r).

Definition strip_dash (s : string) : string :=   (* rstrip("-") *)
  (fix go (n : nat) (s : string) :=
     match n with O => s | S n' => if ends_with "-" s then go n' (str_take (String.length s - 1) s) else s end)
    (String.length s) s.

Definition add_prefix_key (k : string) (p : pdef) (r : reg) : reg :=
  Reg (r_units r) (r_unit_names r) (<[k := p]> (r_prefixes r))
      (if bool_decide (is_Some (r_prefixes r !! k)) then r_prefix_keys r else r_prefix_keys r ++ [k])
      (r_dims r) (r_base_units r).

Definition elab1 (r : reg) (d : rawdef) : res reg :=
  match d with
  | RPrefix fields value =>
      match fields with
      | name :: rest =>
          v ←r num_from_tokens value;
          let '(sym, aliases) := split_sym_aliases (map strip_dash rest) in
          let p := PDef (strip_dash name) sym aliases v in
          let r1 := add_prefix_key (p_name p) p r in
          let r2 := match sym with Some s => if String.eqb s "" then r1 else add_prefix_key s p r1 | None => r1 end in
          Ok (fold_left (λ r a, add_prefix_key a p r) aliases r2)
      | [] => Err ESyntax
      end
  | RUnit fields rhs mods =>
      match fields with
      | name :: rest =>
          ' (p, pfl) ←r ph_from_tokens rhs;
          let '(sym, aliases) := split_sym_aliases rest in
          ms ←r foldM (λ acc km, v ←r num_from_tokens km.2; Ok (app acc [(km.1, v)])) mods (@nil (string * Qc));
          cv ←r match ms with
                | [] => Ok CScale
                | [("offset", o)] => Ok (if qz o then CScale else COffset o)
                | _ => match assoc "logbase" ms, assoc "logfactor" ms with
                       | Some b, Some f => if Nat.eqb (length ms) 2 then Ok (CLog b f) else Err EValue
                       | _, _ => Err EValue
                       end
                end;
          let keys := map fst (map_to_list (ph_d p)) in
          let nd := length (filter is_dim keys) in
          if negb (Nat.eqb nd 0) && negb (Nat.eqb nd (length keys)) then Err ESyntax else
          let base := negb (Nat.eqb (length keys) 0) && Nat.eqb nd (length keys) in
          (* NB: a reference with no keys at all (a pure number) is not a base unit in pint:
             any(...) of an empty sequence is False *)
          let fl := pfl in
          let d := UDef name sym aliases (ph_scale p) fl cv (ph_d p) base in
          let r1 := add_unit_def r d in
          (* non-multiplicative offset units get an automatic delta_ unit *)
          match cv with
          | COffset _ =>
              let dsym := match sym with Some s => if String.eqb s "" then Some ("Δ" ++ name) else Some ("Δ" ++ s) | None => Some ("Δ" ++ name) end in
              let dal := app (map (λ a, "Δ" ++ a) aliases) (map (λ a, "delta_" ++ a) aliases) in
              Ok (add_unit_def r1 (UDef ("delta_" ++ name) dsym dal (ph_scale p) fl CScale (ph_d p) base))
          | _ => Ok r1
          end
      | [] => Err ESyntax
      end
  | RDim name =>
      Ok (Reg (r_units r) (r_unit_names r) (r_prefixes r) (r_prefix_keys r) (<[name := DBase]> (r_dims r)) (r_base_units r))
  | RDerivedDim name rhs =>
      ' (p, _) ←r ph_from_tokens rhs;
      let dims' := fold_left (λ m kv, match m !! kv.1 with Some _ => m | None => <[kv.1 := DBase]> m end)
                             (map_to_list (ph_d p)) (r_dims r) in
      Ok (Reg (r_units r) (r_unit_names r) (r_prefixes r) (r_prefix_keys r) (<[name := DDerived (ph_d p)]> dims') (r_base_units r))
  | RAlias name aliases =>
      match r_units r !! name with
      | None => Err EKey
      | Some d =>
          Ok (Reg (fold_left (λ m a, <[a := d]> m) aliases (r_units r)) (r_unit_names r) (r_prefixes r)
                  (r_prefix_keys r) (r_dims r) (r_base_units r))
      end
  end.
Definition elab (ds : list rawdef) : res reg := foldM elab1 ds empty_reg.

(** [_build_cache] resolves every name referenced by a definition, which lazily registers the
    prefixed ones ([millimeter], [kilogram], …).  Before the repair of F3 these entries were read
    by name parsing like written definitions ([dekamillimeter] resolved); since the repair they
    are definitions only, so a freshly built registry answers like [elab ds]: the bundled registry
    [Gen.DefaultReg.default_reg] is [elab default_raw].  [load] (elaboration followed by
    [build_cache]) is kept for the models that track the registered names themselves (C08, C10, C13). *)
Definition build_cache (r : reg) : reg :=
  fold_left (λ r n,
    match r_units r !! n with
    | Some d => fold_left (λ r kv, if is_dim kv.1 then r else register r kv.1) (map_to_list (u_ref d)) r
    | None => r
    end) (r_unit_names r) r.
Definition load (ds : list rawdef) : res reg := r ←r elab ds; Ok (build_cache r).
