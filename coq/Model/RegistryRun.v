(** Model/RegistryRun.v — correspondence cases for the registry layer (C01, C02, C08, C20). *)
From PintV Require Import Model.UC Model.Eval Model.Registry Model.UCRun.
Open Scope string_scope.

(** how a conversion ended in the implementation *)
Inductive outcome := OExact (q : Qc) | OFloat | ODimErr | OUndefined | OOffsetErr | OOtherErr.

Definition outcome_of_err (e : err) : outcome :=
  match e with EDim => ODimErr | EUndefined _ => OUndefined | EOffset => OOffsetErr | _ => OOtherErr end.
Definition outcome_eqb (a b : outcome) : bool :=
  match a, b with
  | OExact x, OExact y => bool_decide (x = y)
  | OFloat, OFloat | ODimErr, ODimErr | OUndefined, OUndefined | OOffsetErr, OOffsetErr | OOtherErr, OOtherErr => true
  | _, _ => false
  end.

Inductive regcase :=
| RDimOf (u : uc) (expected : option uc)                        (* get_dimensionality *)
| RRoot (u : uc) (factor : outcome) (base : option uc)          (* get_root_units *)
| RFactor (src dst : uc) (expected : outcome)                   (* convert 1 src -> dst *)
| RName (s : string) (expected : option string)                 (* get_name; None = UndefinedUnitError *)
| RSymbol (s : string) (expected : option string)
| RParse (s : string) (expected : list (string * string)).      (* parse_unit_name: (prefix, unit) *)

Definition res_outcome (x : res (option Qc * bool)) : outcome :=
  match x with
  | Ok (Some q, true) => OExact q
  | Ok (_, _) => OFloat
  | Err e => outcome_of_err e
  end.

Definition reg_ok (r : reg) (c : regcase) : bool :=
  match c with
  | RDimOf u e =>
      match dim_of r u, e with
      | Ok d, Some d' => uc_eqb d d'
      | Err _, None => true
      | _, _ => false
      end
  | RRoot u f b =>
      match root_of r u, b with
      | Ok (q, b', ex), Some b'' =>
          uc_eqb b' b'' && outcome_eqb (res_outcome (Ok (q, ex))) f
      | Err e, None => outcome_eqb (outcome_of_err e) f
      | _, _ => false
      end
  | RFactor s d e => outcome_eqb (res_outcome (conv_factor r s d)) e
  | RName s e =>
      match get_name r s, e with
      | Ok n, Some n' => String.eqb n n'
      | Err _, None => true
      | _, _ => false
      end
  | RSymbol s e =>
      match get_symbol_exact r s, e with
      | Ok n, Some n' => String.eqb n n'
      | Err _, None => true
      | _, _ => false
      end
  | RParse s e =>
      let l := parse_unit_name r s in
      Nat.eqb (length l) (length e) && forallb (λ ab : (string * string) * (string * string), pair_eqb ab.1 ab.2) (zip l e)
  end.
