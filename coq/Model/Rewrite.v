(** Model/Rewrite.v — the unit-rewriting helpers of pint/facets/plain/qto.py and quantity.py:
    [to_root_units], [to_base_units], [to_reduced_units], [to_compact], [to_preferred], their
    in-place [ito_] twins and the [ireduce_dimensions] wrapper of [*] and [/].
    Definitions only (C15).

    Python dicts are insertion ordered and three of the helpers depend on that order (the
    nested loop of [_get_reduced_units], [infer_base_unit], the choice of the leading unit in
    [to_compact]).  A quantity therefore carries its unit names in dict order next to the
    container. *)
From Coq Require Import ZArith.
From stdpp Require Import sorting.
From PintV Require Import Model.UC Model.Eval Model.Registry.
Open Scope string_scope.

(** * Magnitudes: exact rationals and the three IEEE specials *)
Inductive mag := MFin (q : Qc) | MNaN | MPInf | MNInf
| MApprox.   (* a finite float the exact model does not track (the factor went through a
                non-integer power of a scale: pint computes it in floats) *)
Definition qle (a b : Qc) : bool := Qle_bool (this a) (this b).
Definition qlt (a b : Qc) : bool := negb (Qle_bool (this b) (this a)).
Definition mag_scale (m : mag) (f : Qc) : mag :=
  match m with
  | MFin q => MFin (q * f)
  | MNaN => MNaN
  | MPInf => if qz f then MNaN else if qlt 0 f then MPInf else MNInf
  | MNInf => if qz f then MNaN else if qlt 0 f then MNInf else MPInf
  | MApprox => MApprox
  end.
Definition mag_blur (m : mag) : mag := match m with MFin _ => MApprox | x => x end.
Definition mag_eqb (a b : mag) : bool :=
  match a, b with
  | MFin x, MFin y => bool_decide (x = y)
  | MNaN, MNaN | MPInf, MPInf | MNInf, MNInf => true
  | _, _ => false
  end.
Definition mag_mul (a b : mag) : mag :=
  match a, b with
  | MFin x, MFin y => MFin (x * y)
  | MFin x, m | m, MFin x => mag_scale m x
  | MNaN, _ | _, MNaN => MNaN
  | MApprox, _ | _, MApprox => MApprox
  | MPInf, MPInf | MNInf, MNInf => MPInf
  | _, _ => MNInf
  end.

(** a quantity: magnitude, unit names in dict order, container *)
Record rq := RQ { rq_m : mag; rq_ord : list string; rq_u : uc }.
Definition present (a : uc) (ord : list string) : list string :=
  filter (λ k, bool_decide (is_Some (a !! k))) ord.
Definition keys (a : uc) : list string := map fst (map_to_list a).

(** * [to] / [ito]: [registry.convert] on the multiplicative path.
    [convert] returns the value untouched when source and destination containers are equal;
    a factor that pint holds as a float (non-integer power of a scale) is outside the exact
    model: the result is [MApprox]. *)
Definition convert_mag (r : reg) (m : mag) (src dst : uc) : res mag :=
  if uc_eqb src dst then Ok m
  else '(f, _) ←r conv_factor r src dst;
       match f with Some f => Ok (mag_scale m f) | None => Ok (mag_blur m) end.
(** [to]: [_convert_magnitude_not_inplace], new object *)
Definition rq_to (r : reg) (q : rq) (ord : list string) (dst : uc) : res rq :=
  m ←r convert_mag r (rq_m q) (rq_u q) dst; Ok (RQ m ord dst).
(** [ito]: [_convert_magnitude] (in place only for arrays), then both fields are assigned *)
Definition rq_ito (r : reg) (q : rq) (ord : list string) (dst : uc) : res rq :=
  m ←r convert_mag r (rq_m q) (rq_u q) dst;
  let q1 := RQ m (rq_ord q) (rq_u q) in      (* self._magnitude = ... *)
  Ok (RQ (rq_m q1) ord dst).                  (* self._units = other *)

(** * root and base units *)
Definition to_root_units (r : reg) (q : rq) : res rq :=
  '(_, b, _) ←r root_of r (rq_u q); rq_to r q (keys b) b.
Definition ito_root_units (r : reg) (q : rq) : res rq :=
  '(_, b, _) ←r root_of r (rq_u q); rq_ito r q (keys b) b.
(** [_get_base_units] depends on the active system (C14); here it is a parameter *)
Definition to_base_units (r : reg) (gbu : uc → res uc) (q : rq) : res rq :=
  b ←r gbu (rq_u q); rq_to r q (keys b) b.
Definition ito_base_units (r : reg) (gbu : uc → res uc) (q : rq) : res rq :=
  b ←r gbu (rq_u q); rq_ito r q (keys b) b.

(** [unitless]: no root units; [dimensionless]: the root units have no dimensionality.
    Both go through [to_root_units], so they raise what it raises. *)
Definition unitless (r : reg) (q : rq) : res bool :=
  q' ←r to_root_units r q; Ok (uc_eqb (rq_u q') ∅).
Definition dimensionless (r : reg) (q : rq) : res bool :=
  q' ←r to_root_units r q; d ←r dim_of r (rq_u q'); Ok (uc_eqb d ∅).

(** * [_get_dimensionality_ratio]: solve unit2 = unit1 ** x *)
Definition dim1 (r : reg) (u : string) : res uc := dim_of r {[ u := 1%Qc ]}.
Definition same_keys (a b : uc) : bool :=
  forallb (λ k, bool_decide (is_Some (b !! k))) (keys a) &&
  forallb (λ k, bool_decide (is_Some (a !! k))) (keys b).
Definition ratio_of_dims (d1 d2 : uc) : option Qc :=
  if uc_eqb d1 d2 then Some 1%Qc
  else if uc_eqb d1 ∅ || uc_eqb d2 ∅ || negb (same_keys d1 d2) then None
  else match map (λ kv : string * Qc, (exp_of d2 kv.1 / kv.2)%Qc) (map_to_list d1) with
       | [] => None
       | f :: rs => if forallb (λ x, bool_decide (x = f)) rs then Some f else None
       end.
Definition dim_ratio (r : reg) (u1 u2 : string) : res (option Qc) :=
  if String.eqb u1 u2 then Ok (Some 1%Qc)
  else d1 ←r dim1 r u1; d2 ←r dim1 r u2; Ok (ratio_of_dims d1 d2).

(** * [_get_reduced_units]
    for unit1 in (the original container):            — outer, original order
        if unit1 not in units: continue
        for unit2 in units:                             — inner, the current container
            if unit1 != unit2 and (power := ratio(unit1, unit2)):
                units = units.add(unit2, exp / power).remove([unit1]); break
    Entries are only ever removed or updated in place, so the order of the current container
    is the original order restricted to the surviving names. *)
Fixpoint find_merge (r : reg) (u1 : string) (cands : list string) : res (option (string * Qc)) :=
  match cands with
  | [] => Ok None
  | u2 :: cs =>
      if String.eqb u1 u2 then find_merge r u1 cs
      else p ←r dim_ratio r u1 u2;
           match p with
           | Some p => if qz p then find_merge r u1 cs else Ok (Some (u2, p))
           | None => find_merge r u1 cs
           end
  end.
Definition reduce_step (r : reg) (ord : list string) (a : uc) (u1 : string) : res uc :=
  match a !! u1 with
  | None => Ok a
  | Some e =>
      m ←r find_merge r u1 (present a ord);
      match m with
      | None => Ok a
      | Some (u2, p) => Ok (delete u1 (uc_add a u2 (e / p)))
      end
  end.
Definition get_reduced_units (r : reg) (ord : list string) (a : uc) : res uc :=
  foldM (reduce_step r ord) ord a.

Definition to_reduced_units (r : reg) (q : rq) : res rq :=
  dl ←r dimensionless r q;
  if dl then rq_to r q [] ∅
  else if Nat.eqb (size (rq_u q)) 1 then Ok q
  else new ←r get_reduced_units r (rq_ord q) (rq_u q); rq_to r q (present new (rq_ord q)) new.
Definition ito_reduced_units (r : reg) (q : rq) : res rq :=
  dl ←r dimensionless r q;
  if dl then rq_ito r q [] ∅
  else if Nat.eqb (size (rq_u q)) 1 then Ok q
  else new ←r get_reduced_units r (rq_ord q) (rq_u q); rq_ito r q (present new (rq_ord q)) new.

(** * [to_compact] *)
(** ** integer logarithm: [ilog10 q = k] with 10^k <= |q| < 10^(k+1) (q <> 0), exactly *)
Fixpoint zlog10_aux (fuel : nat) (z : Z) : Z :=
  match fuel with
  | O => 0
  | S f => if (z <? 10)%Z then 0%Z else (1 + zlog10_aux f (z / 10))%Z
  end.
(** floor(log10 z) for z >= 1 *)
Definition zlog10 (z : Z) : Z := zlog10_aux (S (Z.to_nat (Z.log2 z))) z.
Definition ilog10 (q : Qc) : Z :=
  let n := Z.abs (Qnum (this q)) in
  let d := Zpos (Qden (this q)) in
  let s := (Z.log2 d + 1)%Z in                    (* 10^s > d, so n * 10^s / d >= 1 *)
  (zlog10 (n * 10 ^ s / d) - s)%Z.
(** [int(math.log10(scale)) == math.log10(scale)]: the scale is an exact power of ten *)
Definition is_pow10 (v : Qc) : option Z :=
  if qlt 0 v then let k := ilog10 v in if bool_decide (pow10 k = v) then Some k else None
  else None.

(** ** the table of decimal prefixes: power ↦ prefix name (a later prefix with the same power
    replaces the earlier one), sorted by power.  A prefix whose scale has no logarithm
    (scale <= 0) lands in the [except] branch: [SI_prefixes[0] = ""]. *)
Fixpoint tbl_insert (k : Z) (n : string) (t : list (Z * string)) : list (Z * string) :=
  match t with
  | [] => [(k, n)]
  | (k', n') :: t' =>
      if (k <? k')%Z then (k, n) :: t
      else if (k =? k')%Z then (k, n) :: t'
      else (k', n') :: tbl_insert k n t'
  end.
Definition si_table (r : reg) : list (Z * string) :=
  fold_left (λ t key,
    match r_prefixes r !! key with
    | None => t
    | Some p =>
        if qlt 0 (p_val p) then
          match is_pow10 (p_val p) with Some k => tbl_insert k (p_name p) t | None => t end
        else tbl_insert 0 "" t
    end) (r_prefix_keys r) [].
(** [bisect.bisect_left(SI_powers, power)], then the clamp [index >= len -> -1] *)
Fixpoint bisect_left (t : list (Z * string)) (power : Z) : nat :=
  match t with
  | [] => 0
  | (k, _) :: t' => if (k <? power)%Z then S (bisect_left t' power) else 0
  end.
Definition pick_prefix (t : list (Z * string)) (power : Z) : option (Z * string) :=
  let i := bisect_left t power in
  if Nat.leb (length t) i then last t else t !! i.

(** ** [infer_base_unit]: strip the prefix of every unit.  Since the repair of F21 (3fd38de) the
    first reading of a name is taken, as [get_name] does ([candidates[0]]: IndexError when the name
    has no reading at all).  Before it exactly one reading was demanded
    ([assert len(candidates) == 1]): [infer_step_assert], kept to exhibit the defect. *)
Fixpoint dedup_first (l : list string) (seen : list string) : list string :=
  match l with
  | [] => []
  | x :: l' => if existsb (String.eqb x) seen then dedup_first l' seen else x :: dedup_first l' (x :: seen)
  end.
Definition infer_step (r : reg) (acc : list string * uc) (kv : string * Qc) : res (list string * uc) :=
  match parse_unit_name r kv.1 with
  | (_, base) :: _ => Ok ((acc.1 ++ [base])%list, uc_add acc.2 base kv.2)
  | [] => Err EIndex
  end.
Definition infer_step_assert (r : reg) (acc : list string * uc) (kv : string * Qc) : res (list string * uc) :=
  match parse_unit_name r kv.1 with
  | [(_, base)] => Ok ((acc.1 ++ [base])%list, uc_add acc.2 base kv.2)
  | _ => Err EAssert
  end.
Definition infer_base_unit_with (step : list string * uc → string * Qc → res (list string * uc))
    (ord : list string) (a : uc) : res (list string * uc) :=
  '(o, d) ←r foldM step (map (λ k, (k, exp_of a k)) (present a ord)) ([], ∅);
  Ok (present d (dedup_first o []), d).
Definition infer_base_unit (r : reg) (ord : list string) (a : uc) : res (list string * uc) :=
  infer_base_unit_with (infer_step r) ord a.
Definition infer_base_unit_assert (r : reg) (ord : list string) (a : uc) : res (list string * uc) :=
  infer_base_unit_with (infer_step_assert r) ord a.

(** ** the exponent: floor(log10|m| / p / 3) * 3 for p > 0, ceil(...) * 3 for p < 0,
    computed exactly.  With p = ±a/b (a, b > 0): floor(b·log10|m| / (3a)) =
    floor(ilog10(|m|^b) / (3a)), and ceil(x / -c) = - floor(x / c). *)
Definition mag_abs_pow (m : Qc) (b : positive) : Qc := Qcpower m (Pos.to_nat b).
Definition compact_power (m : Qc) (p : Qc) : Z :=
  let a := Z.abs (Qnum (this p)) in
  let b := Qden (this p) in
  let n := (ilog10 (mag_abs_pow m b) / (3 * a))%Z in
  if qlt 0 p then (3 * n)%Z else (- (3 * n))%Z.

(** the leading unit: the first with a positive exponent, else the first *)
Definition leading_unit (ord : list string) (d : uc) : option (string * Qc) :=
  match filter (λ k, qlt 0 (exp_of d k)) ord with
  | k :: _ => Some (k, exp_of d k)
  | [] => match ord with k :: _ => Some (k, exp_of d k) | [] => None end
  end.

Definition mag_fixed (m : mag) : bool :=
  match m with MFin q => qz q | MApprox => false | _ => true end.

(** [to_compact] (scalar magnitudes; for an uncertain magnitude [m] is its nominal value).
    Returns the units chosen as well, for [compact_only_prefix]. *)
Definition compact_target (r : reg) (q : rq) : res (option (list string * uc)) :=
  ul ←r unitless r q;
  if ul || mag_fixed (rq_m q) then Ok None
  else
    '(bo, bd) ←r infer_base_unit r (rq_ord q) (rq_u q);
    qb ←r rq_to r q bo bd;
    match rq_m qb, leading_unit bo bd with
    | MFin m, Some (u, p) =>
        if qz m || qz p then Err EValue else       (* log10(0) / division by zero *)
        let power := compact_power m p in
        match pick_prefix (si_table r) power with
        | None => Err EIndex
        | Some (_, pname) =>
            let nu := pname ++ u in
            match uc_rename bd u nu with
            | Some nd => Ok (Some ((filter (λ k, negb (String.eqb k u)) bo ++ [nu])%list, nd))
            | None => Err EKey
            end
        end
    | MApprox, _ => Err EIrrational      (* the prefix depends on a value the model does not have *)
    | _, _ => Err EIndex
    end.
Definition to_compact (r : reg) (q : rq) : res rq :=
  t ←r compact_target r q;
  match t with
  | None => Ok q
  | Some (o, d) => rq_to r q o d
  end.

(** * [to_preferred] *)
Definition qpow_int (b e : Qc) : res Qc :=
  if is_int e then match Qc_powZ b (Qnum (this e)) with Some x => Ok x | None => Err EZeroDiv end
  else Err EIrrational.          (* a float power: outside the exact model *)
Definition qmax (a b : Qc) : Qc := if qlt a b then b else a.
(** [find_simple].  Since the repair of F96 (75b5cc1) the proportionality test is
    [s_exps_tail[i] * p_exps_head == p_exps_tail[i] * s_exps_head] ([pow_defect = false]); before it
    the preferred exponent was raised to the POWER of the quantity's leading exponent
    ([p_exps_tail[i] ** s_exps_head], [pow_defect = true], kept to exhibit the defect) *)
Definition str_le (a b : string) : Prop := String.leb a b = true.   (* code-point order of sorted() *)
Global Instance str_le_dec a b : Decision (str_le a b) := decide (String.leb a b = true).
Definition sorted_keys (d : uc) : list string := merge_sort str_le (keys d).
Definition simple_check (pow_defect : bool) (sd pd : uc) (ks : list string) : res bool :=
  match ks with
  | [] => Ok false
  | h :: tl =>
      let sh := exp_of sd h in let ph := exp_of pd h in
      foldM (λ (ok : bool) k,
        if ok then                      (* all(...) stops at the first False *)
          rhs ←r (if pow_defect then qpow_int (exp_of pd k) sh else Ok (exp_of pd k * sh)%Qc);
          Ok (bool_decide ((exp_of sd k * ph)%Qc = rhs))
        else Ok false) tl true
  end.
Definition find_simple (pow_defect : bool) (r : reg) (sd : uc) (prefs : list uc) : res (option uc) :=
  let ks := sorted_keys sd in
  match ks with
  | [] => Ok None
  | h :: _ =>
    best ←r foldM (λ (best : option (Qc * uc)) pu,
      pd ←r dim_of r pu;
      if bool_decide (sorted_keys pd = ks) then
        ok ←r simple_check pow_defect sd pd ks;
        if ok then
          let sh := exp_of sd h in let ph := exp_of pd h in
          let ratio := (ph / sh)%Qc in
          let ratio := qmax ratio (1 / ratio)%Qc in
          match best with
          | Some (br, _) => if qlt ratio br then Ok (Some (ratio, uc_pow pu (sh / ph))) else Ok best
          | None => Ok (Some (ratio, uc_pow pu (sh / ph)))
          end
        else Ok best
      else Ok best) prefs None;
    Ok (option_map snd best)
  end.

(** * raw [*] and [/] on multiplicative quantities, and the options of [ireduce_dimensions] *)
Record autocfg := AutoCfg {
  ac_preferred : bool;                 (* autoconvert_to_preferred *)
  ac_default_pref : option (list uc);  (* registry.default_preferred_units; unset: the lookup
                                          raises an AttributeError which the wrapper swallows *)
  ac_reduce : bool }.                  (* auto_reduce_dimensions *)
Definition ord_merge (o1 o2 : list string) (d : uc) : list string :=
  present d (o1 ++ filter (λ k, negb (existsb (String.eqb k) o1)) o2)%list.
Definition raw_mul (a b : rq) : rq :=
  let d := uc_mul (rq_u a) (rq_u b) in
  RQ (mag_mul (rq_m a) (rq_m b)) (ord_merge (rq_ord a) (rq_ord b) d) d.
Definition mag_div (a b : mag) : res mag :=
  match a, b with
  | MFin x, MFin y => if qz y then Err EZeroDiv else Ok (MFin (x / y))
  | _, _ => Err EOther
  end.
Definition raw_div (a b : rq) : res rq :=
  m ←r mag_div (rq_m a) (rq_m b);
  let d := uc_div (rq_u a) (rq_u b) in
  Ok (RQ m (ord_merge (rq_ord a) (rq_ord b) d) d).

Section Preferred.
  (** the integer programme (python-mip / CBC) is not modelled: a parameter *)
  Context (mip : reg → rq → list uc → uc).
  Context (pow_defect : bool).
  Definition get_preferred (r : reg) (q : rq) (prefs : list uc) : res uc :=
    d ←r dim_of r (rq_u q);
    if uc_eqb d ∅ then Ok (rq_u q)
    else s ←r find_simple pow_defect r d prefs;
         match s with Some u => Ok u | None => Ok (mip r q prefs) end.
  Definition to_preferred (r : reg) (q : rq) (prefs : list uc) : res rq :=
    u ←r get_preferred r q prefs; rq_to r q (keys u) u.
  Definition ito_preferred (r : reg) (q : rq) (prefs : list uc) : res rq :=
    u ←r get_preferred r q prefs; rq_ito r q (keys u) u.

  (** * [ireduce_dimensions]: what [*] and [/] do after computing the raw result *)
  Definition ireduce (r : reg) (c : autocfg) (q : rq) : res rq :=
    q1 ←r (if ac_preferred c then
             match ac_default_pref c with
             | Some prefs => ito_preferred r q prefs
             | None => Ok q
             end
           else Ok q);
    if ac_reduce c then ito_reduced_units r q1 else Ok q1.
  Definition auto_mul (r : reg) (c : autocfg) (a b : rq) : res rq := ireduce r c (raw_mul a b).
  Definition auto_div (r : reg) (c : autocfg) (a b : rq) : res rq :=
    q ←r raw_div a b; ireduce r c q.
End Preferred.
