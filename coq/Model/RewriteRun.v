(** Model/RewriteRun.v — correspondence cases for the unit-rewriting helpers (C15): each case
    carries what pint returned; [c15_ok] is true when the model returns the same. *)
From PintV Require Import Model.UC Model.Eval Model.Registry Model.UCRun Model.Rewrite.
Open Scope string_scope.

(** error classes as the harness sees them *)
Inductive xerr := XDim | XAssert | XOffset | XUndefined | XZeroDiv | XOther.
Definition xerr_of (e : err) : xerr :=
  match e with
  | EDim => XDim | EAssert => XAssert | EOffset => XOffset | EUndefined _ => XUndefined
  | EZeroDiv => XZeroDiv | _ => XOther
  end.
Definition xerr_eqb (a b : xerr) : bool :=
  match a, b with
  | XDim, XDim | XAssert, XAssert | XOffset, XOffset | XUndefined, XUndefined
  | XZeroDiv, XZeroDiv | XOther, XOther => true
  | _, _ => false
  end.

(** observed result of a helper: magnitude ([None]: a float, not compared) and units, or an error *)
Inductive hres := HOk (m : option mag) (u : uc) | HErr (e : xerr).
Definition rq_matches (x : res rq) (o : hres) : bool :=
  match x, o with
  | Ok q, HOk m u =>
      uc_eqb (rq_u q) u && match m with Some m => mag_eqb (rq_m q) m | None => true end
  | Err e, HErr e' => xerr_eqb (xerr_of e) e'
  | _, _ => false
  end.
Definition res_matches {A} (eqb : A → A → bool) (x : res A) (o : A + xerr) : bool :=
  match x, o with
  | Ok a, inl b => eqb a b
  | Err e, inr e' => xerr_eqb (xerr_of e) e'
  | _, _ => false
  end.
Definition list_eqb {A} (eqb : A → A → bool) (a b : list A) : bool :=
  Nat.eqb (length a) (length b) && forallb (λ xy : A * A, eqb xy.1 xy.2) (zip a b).
Definition optq_eqb (a b : option Qc) : bool := opt_eqb (λ x y : Qc, bool_decide (x = y)) a b.

Inductive c15case :=
| KRoot (q : rq) (o : hres) | KIRoot (q : rq) (o : hres)
| KBase (q : rq) (target : uc) (o : hres) | KIBase (q : rq) (target : uc) (o : hres)
| KUnitless (q : rq) (o : bool + xerr) | KDimensionless (q : rq) (o : bool + xerr)
| KRatio (u1 u2 : string) (o : option Qc + xerr)
| KReducedUnits (ord : list string) (a : uc) (o : uc + xerr)
| KReduced (q : rq) (o : hres) | KIReduced (q : rq) (o : hres)
| KSITable (t : list (Z * string))
| KInfer (ord : list string) (a : uc) (o : (list string * uc) + xerr)
| KCompact (q : rq) (o : hres)
| KSimple (dims : uc) (prefs : list uc) (o : option uc + xerr)
| KPreferred (q : rq) (prefs : list uc) (mipres : uc) (o : hres)
| KIPreferred (q : rq) (prefs : list uc) (mipres : uc) (o : hres)
| KAutoMul (c : autocfg) (a b : rq) (mipres : uc) (o : hres)
| KAutoDiv (c : autocfg) (a b : rq) (mipres : uc) (o : hres).

Definition c15_ok (r : reg) (c : c15case) : bool :=
  match c with
  | KRoot q o => rq_matches (to_root_units r q) o
  | KIRoot q o => rq_matches (ito_root_units r q) o
  | KBase q t o => rq_matches (to_base_units r (λ _, Ok t) q) o
  | KIBase q t o => rq_matches (ito_base_units r (λ _, Ok t) q) o
  | KUnitless q o => res_matches eqb (unitless r q) o
  | KDimensionless q o => res_matches eqb (dimensionless r q) o
  | KRatio u1 u2 o => res_matches optq_eqb (dim_ratio r u1 u2) o
  | KReducedUnits ord a o => res_matches uc_eqb (get_reduced_units r ord a) o
  | KReduced q o => rq_matches (to_reduced_units r q) o
  | KIReduced q o => rq_matches (ito_reduced_units r q) o
  | KSITable t =>
      list_eqb (λ x y : Z * string, Z.eqb x.1 y.1 && String.eqb x.2 y.2) (si_table r) t
  | KInfer ord a o =>
      res_matches (λ x y : list string * uc, list_eqb String.eqb x.1 y.1 && uc_eqb x.2 y.2)
                  (infer_base_unit r ord a) o
  | KCompact q o => rq_matches (to_compact r q) o
  | KSimple d prefs o => res_matches (opt_eqb uc_eqb) (find_simple false r d prefs) o
  | KPreferred q prefs mr o => rq_matches (to_preferred (λ _ _ _, mr) false r q prefs) o
  | KIPreferred q prefs mr o => rq_matches (ito_preferred (λ _ _ _, mr) false r q prefs) o
  | KAutoMul c a b mr o => rq_matches (auto_mul (λ _ _ _, mr) false r c a b) o
  | KAutoDiv c a b mr o => rq_matches (auto_div (λ _ _ _, mr) false r c a b) o
  end.
