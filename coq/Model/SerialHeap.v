(** Model/SerialHeap.v — a heap model in which ALIASING is expressible (C18, the two clauses that
    Model/Serial.v could only state partially).

    * A registry is an object graph: mutable containers (dicts, sets, ChainMap layers, caches …)
      are heap cells, immutable things (frozen definitions, numbers, strings) are atoms; a cell maps
      keys to atoms or to references to other cells.  Sharing and cycles are allowed.
    * [copy.deepcopy] (with its memo) builds an isomorphic copy of the graph at fresh addresses.
    * Operations on a registry (define, alias, enable a context, fill a cache …) reach the cells
      they touch by following keys from that registry's root object.
    * [LazyRegistry]: stored constructor arguments; the first access runs the ordinary constructor
      with [on_redefinition='raise'].
    Definitions only. *)
From PintV Require Export Model.UC Model.Serial.
Open Scope string_scope.

Inductive hval := HAtom (s : string) | HRef (l : N).
Notation cell := (list (string * hval)).
Notation heap := (gmap N cell).

Definition refs (c : cell) : list N :=
  omap (λ kv : string * hval, match kv.2 with HRef l => Some l | HAtom _ => None end) c.
(** every reference points to an allocated cell *)
Definition closed (h : heap) : Prop := ∀ a c l, h !! a = Some c → l ∈ refs c → is_Some (h !! l).
(** a set of allocated cells that no reference leaves *)
Definition region_ok (h : heap) (R : gset N) : Prop :=
  (∀ a, a ∈ R → is_Some (h !! a)) ∧ (∀ a c l, a ∈ R → h !! a = Some c → l ∈ refs c → l ∈ R).
Definition sep (h : heap) (R1 R2 : gset N) : Prop := region_ok h R1 ∧ region_ok h R2 ∧ R1 ## R2.

(** first address above every allocated one *)
Definition hbound (h : heap) : N := foldr (λ k acc, N.max (N.succ k) acc) 0%N (map_to_list h).*1.

(** * deepcopy: the whole graph again, [off] addresses further up (what is not reachable from the
    copied object is garbage nobody can observe) *)
Definition shift_val (off : N) (v : hval) : hval :=
  match v with HRef l => HRef (l + off) | HAtom s => HAtom s end.
Definition shift_cell (off : N) (c : cell) : cell := map (λ kv : string * hval, (kv.1, shift_val off kv.2)) c.
Definition hdeepcopy (h : heap) (r : N) : heap * N :=
  let off := hbound h in
  (h ∪ kmap (λ l : N, (l + off)%N) (shift_cell off <$> h), (r + off)%N).
(** the mutant of seeded change C18-m4: the cells one level below the root are copied, but what THEY
    refer to is shared *)
Definition hshallow2 (h : heap) (r : N) : heap * N :=
  let off := hbound h in
  match h !! r with
  | None => (h, r)
  | Some c =>
      let tables := refs c in
      let h1 := foldr (λ t acc, match h !! t with Some ct => <[(t + off)%N := ct]> acc | None => acc end) h tables in
      (<[(r + off)%N := shift_cell off c]> h1, (r + off)%N)
  end.

(** * operations reach their cells from the root of the registry they are applied to *)
Fixpoint follow (h : heap) (l : N) (path : list string) : option N :=
  match path with
  | [] => Some l
  | k :: p => match h !! l with
              | Some c => match alookup k c with Some (HRef l') => follow h l' p | _ => None end
              | None => None
              end
  end.
Definition cdel (k : string) (c : cell) : cell := filter (λ kv : string * hval, negb (String.eqb kv.1 k)) c.
Definition cset (k : string) (v : hval) (c : cell) : cell := (k, v) :: cdel k c.
Inductive hop :=
| HSetAtom (path : list string) (k v : string)       (* table[k] = <immutable value> *)
| HDelKey (path : list string) (k : string)          (* del table[k] *)
| HNewCell (path : list string) (k : string)         (* table[k] = <new empty container> *)
| HLink (path : list string) (k : string) (target : list string).   (* table[k] = <existing container of this registry> *)
Definition hwrite (h : heap) (root : N) (path : list string) (f : N → cell → heap) : heap :=
  match follow h root path with
  | Some l => match h !! l with Some c => f l c | None => h end
  | None => h
  end.
Definition hop_apply (h : heap) (root : N) (o : hop) : heap :=
  match o with
  | HSetAtom p k v => hwrite h root p (λ l c, <[l := cset k (HAtom v) c]> h)
  | HDelKey p k => hwrite h root p (λ l c, <[l := cdel k c]> h)
  | HNewCell p k => hwrite h root p (λ l c, let n := hbound h in <[l := cset k (HRef n) c]> (<[n := []]> h))
  | HLink p k q => match follow h root q with
                   | Some t => hwrite h root p (λ l c, <[l := cset k (HRef t) c]> h)
                   | None => h
                   end
  end.
Definition hops (h : heap) (root : N) (os : list hop) : heap := foldl (λ h o, hop_apply h root o) h os.
(** what can be observed of a registry: the value found at the end of a path of keys *)
Definition hread (h : heap) (root : N) (path : list string) (k : string) : option hval :=
  l ← follow h root path; c ← h !! l; alookup k c.
(** the same observation modulo addresses (a reference is only "some container") *)
Definition vkind (v : option hval) : option (option string) :=
  match v with Some (HAtom s) => Some (Some s) | Some (HRef _) => Some None | None => None end.

(** * LazyRegistry *)
Inductive redef_policy := PWarn | PRaise | PIgnore.
Record rparams := RParams { rp_on_redefinition : redef_policy; rp_rest : list (string * string) }.
Definition set_raise (p : rparams) : rparams := RParams PRaise (rp_rest p).
(** a built registry: whatever the constructor makes of its arguments, plus the stored policy *)
Record xreg (S : Type) := XReg { x_state : S; x_policy : redef_policy }.
Arguments XReg {S} _ _.
Arguments x_state {S} _.
Arguments x_policy {S} _.
Definition build {S} (ctor : rparams → S) (p : rparams) : xreg S := XReg (ctor p) (rp_on_redefinition p).
Inductive lazyx (S : Type) := LXPending (p : rparams) | LXBuilt (r : xreg S).
Arguments LXPending {S} p.
Arguments LXBuilt {S} r.
(** an access: reading [_on_redefinition] is answered by [__getattr__] itself, without building;
    everything else ([__getattr__], [__setattr__], [__getitem__], [__call__], [__contains__],
    [__iter__], [__dir__]) builds first and delegates *)
Inductive access (S A : Type) := AOnRedefinition | ADelegate (f : xreg S → xreg S * A).
Arguments AOnRedefinition {S A}.
Arguments ADelegate {S A} f.
(** [LazyRegistry.__init]: [kwargs["on_redefinition"] = "raise"], then the ordinary constructor *)
Definition lx_force {S} (ctor : rparams → S) (l : lazyx S) : xreg S :=
  match l with LXPending p => build ctor (set_raise p) | LXBuilt r => r end.
Definition lx_access {S A} (ctor : rparams → S) (l : lazyx S) (a : access S A) : lazyx S * (redef_policy + A) :=
  match a with
  | AOnRedefinition => match l with
                       | LXPending _ => (l, inl PRaise)
                       | LXBuilt r => (l, inl (x_policy r))
                       end
  | ADelegate f => let '(r', x) := f (lx_force ctor l) in (LXBuilt r', inr x)
  end.
Definition ex_access {S A} (r : xreg S) (a : access S A) : xreg S * (redef_policy + A) :=
  match a with
  | AOnRedefinition => (r, inl (x_policy r))
  | ADelegate f => let '(r', x) := f r in (r', inr x)
  end.
Fixpoint lx_run {S A} (ctor : rparams → S) (l : lazyx S) (as_ : list (access S A)) : list (redef_policy + A) :=
  match as_ with
  | [] => []
  | a :: rest => let '(l', x) := lx_access ctor l a in x :: lx_run ctor l' rest
  end.
Fixpoint ex_run {S A} (r : xreg S) (as_ : list (access S A)) : list (redef_policy + A) :=
  match as_ with
  | [] => []
  | a :: rest => let '(r', x) := ex_access r a in x :: ex_run r' rest
  end.
(** delegated operations never change the stored policy behind the registry's back unless they
    say so; the theorem needs only that [_on_redefinition] is read from the built object *)
