(** Model/Standards.v — the reading of one row of the hand-curated standards table
    (data/standards.tsv, turned into Gen/Standards.v) against a model registry (property C20).
    Definitions only; proofs in Proofs/StandardsProofs.v. *)
From Coq Require Import Qabs.
From PintV Require Import Model.UC Model.Eval Model.Registry.
Open Scope string_scope.

(** * Rows *)
(** [KExact]: a defined unit, the factor must be reproduced exactly and pint itself must stay in
    exact arithmetic.  [KApprox]: the registry's value is rational and must lie within [s_tol]
    (half a unit of the last stated digit) of the stated decimal.  [KFloat]: the definition goes
    through a non-integer power, pint holds a float even in exact registries: the model has no
    number to compare, only dimension and symbol are checked here (the number is checked against
    the real registry by the harness). *)
Inductive skind := KExact | KApprox | KFloat.
(** coherent basis in which the factor is stated: SI = kg m s A K mol cd; CGS = g cm s *)
Inductive sbasis := BSI | BCGS.

Record srow := SRow {
  s_name : string;
  s_kind : skind;
  s_factor : Qc;                     (* value of 1 <name> in the coherent unit of the basis *)
  s_tol : Qc;                        (* 0 for KExact *)
  s_basis : sbasis;
  s_dims : list (string * Qc);       (* over pint's base dimensions, e.g. [("[length]", 1)] *)
  s_syms : list string;              (* accepted standard symbols; [] = none standardised *)
  s_offset : option Qc }.            (* temperature scales: kelvin value of the zero of the scale *)

(** pint's root units are gram, meter, second, …: the coherent unit of the basis, expressed in
    root units, is 1000^[mass] (SI: kg = 1000 g) resp. (1/100)^[length] (CGS: cm = m/100).
    Half-integer length exponents are fine in CGS (sqrt(1/100) = 1/10); a half-integer mass
    exponent in SI has no rational value: [None]. *)
Definition dim_exp (ds : list (string * Qc)) (k : string) : Qc := default 0%Qc (assoc k ds).
Definition basis_scale (b : sbasis) (ds : list (string * Qc)) : option Qc :=
  match b with
  | BSI => let m := dim_exp ds "[mass]" in
           if is_int m then Qc_powZ (mkq 1000 1) (Qnum (this m)) else None
  | BCGS => let l2 := (dim_exp ds "[length]" * mkq 2 1)%Qc in
            if is_int l2 then Qc_powZ (mkq 1 10) (Qnum (this l2)) else None
  end.
Definition root_expected (row : srow) : option Qc :=
  match basis_scale (s_basis row) (s_dims row) with
  | Some k => Some (s_factor row * k)%Qc
  | None => None
  end.

Definition qc_le (a b : Qc) : bool := Qle_bool (this a) (this b).
Definition qc_abs_diff (a b : Qc) : Qc := Q2Qc (Qabs (this (a - b)%Qc)).
Definition within (tol a b : Qc) : bool := qc_le (qc_abs_diff a b) tol.

(** the number: [root_of] of the bare name against factor × basis scale *)
Definition factor_ok (r : reg) (row : srow) : bool :=
  match root_of r {[ s_name row := 1%Qc ]}, basis_scale (s_basis row) (s_dims row) with
  | Ok (Some q, _, ex), Some k =>
      match s_kind row with
      | KExact => ex && bool_decide (q = (s_factor row * k)%Qc)
      | KApprox | KFloat => within (s_tol row * k)%Qc q (s_factor row * k)%Qc
      end
  | Ok (None, _, _), _ => match s_kind row with KFloat => true | _ => false end
  | _, _ => false
  end.
Definition dims_ok (r : reg) (row : srow) : bool :=
  match dim_of r {[ s_name row := 1%Qc ]} with
  | Ok d => uc_eqb d (mkuc (s_dims row))
  | Err _ => false
  end.
Definition symbol_ok (r : reg) (row : srow) : bool :=
  match s_syms row with
  | [] => true
  | syms => match get_symbol r (s_name row) with
            | Ok s => existsb (String.eqb s) syms
            | Err _ => false
            end
  end.
(** a row without offset must be a plain scale; a row with offset [o] must carry exactly [o]
    (an offset of 0 is stored by pint as a plain scale) *)
Definition offset_ok (r : reg) (row : srow) : bool :=
  match resolve r (s_name row) with
  | Ok d =>
      match s_offset row, u_conv d with
      | None, CScale => true
      | Some o, CScale => qz o
      | Some o, COffset o' => bool_decide (o = o')
      | _, _ => false
      end
  | Err _ => false
  end.
Definition row_ok (r : reg) (row : srow) : bool :=
  factor_ok r row && dims_ok r row && symbol_ok r row && offset_ok r row.

(** * Prefixes *)
Record sprefix := SPrefix {
  sp_name : string; sp_syms : list string; sp_base : Z; sp_exp : Z }.
Definition sp_value (p : sprefix) : option Qc := Qc_powZ (Q2Qc (inject_Z (sp_base p))) (sp_exp p).
(** the name and the symbol both denote the prefix, with the standard value and symbol *)
Definition prefix_ok (r : reg) (p : sprefix) : bool :=
  match r_prefixes r !! sp_name p, sp_value p with
  | Some d, Some v =>
      String.eqb (p_name d) (sp_name p) && bool_decide (p_val d = v)
      && existsb (String.eqb (p_symbol d)) (sp_syms p)
      && forallb (λ s, match r_prefixes r !! s with
                       | Some d' => String.eqb (p_name d') (sp_name p) && bool_decide (p_val d' = v)
                       | None => false end) (sp_syms p)
  | _, _ => false
  end.
(** every spelling (name, symbol, alias) the registry accepts for a prefix of the table has the
    table's value *)
Definition prefix_spelling_ok (tbl : list sprefix) (r : reg) (k : string) : bool :=
  match r_prefixes r !! k with
  | Some d =>
      match find (λ p, String.eqb (sp_name p) (p_name d)) tbl with
      | Some p => match sp_value p with Some v => bool_decide (p_val d = v) | None => false end
      | None => true       (* not a standard prefix: "", semi, sesqui *)
      end
  | None => false
  end.

(** * Listed deviations (known_findings/C20.json) *)
Definition listed (names : list string) (row : srow) : bool := existsb (String.eqb (s_name row)) names.
Definition rows_ok_except (names : list string) (r : reg) (tbl : list srow) : bool :=
  forallb (λ row, listed names row || row_ok r row) tbl.
Definition failing_rows (r : reg) (tbl : list srow) : list string :=
  map s_name (filter (λ row, negb (row_ok r row)) tbl).
Definition row_named (tbl : list srow) (n : string) : option srow :=
  find (λ row, String.eqb (s_name row) n) tbl.

(** * The definition lines behind the listed findings, as shipped by pint 0.25 (what T1 emits for
    them), in miniature registries: the refutations do not depend on the state of /repo, so they
    keep compiling after a fix; the harness asks the real registry which state it is in. *)
Definition mini (ds : list rawdef) : reg := match load ds with Ok r => r | Err _ => empty_reg end.
Definition shipped_quarter : reg := mini [
  RPrefix ["milli-"; "m-"] [TNum "1e-3"; TEnd];
  RUnit ["gram"; "g"] [TName "[mass]"; TEnd] [];
  RUnit ["grain"; "gr"] [TNum "64.79891"; TOp "*"; TName "milligram"; TEnd] [];
  RUnit ["pound"; "lb"] [TNum "7e3"; TOp "*"; TName "grain"; TEnd] [];
  RUnit ["stone"] [TNum "14"; TOp "*"; TName "pound"; TEnd] [];
  RUnit ["quarter"] [TNum "28"; TOp "*"; TName "stone"; TEnd] []].
Definition shipped_reaumur : reg := mini [
  RUnit ["kelvin"; "K"] [TName "[temperature]"; TEnd] [("offset", [TNum "0"; TEnd])];
  RUnit ["degree_Reaumur"; "°Re"; "reaumur"]
        [TNum "4"; TOp "/"; TNum "5"; TOp "*"; TName "kelvin"; TEnd] [("offset", [TNum "273.15"; TEnd])]].
Definition shipped_parsec : reg := mini [
  RUnit ["meter"; "m"] [TName "[length]"; TEnd] [];
  RUnit ["tansec"] [TNum "4.8481368111333441675396429478852851658848753880815e-6"; TEnd] [];
  RUnit ["astronomical_unit"; "au"] [TNum "149597870700"; TOp "*"; TName "meter"; TEnd] [];
  RUnit ["parsec"; "pc"] [TNum "1"; TOp "/"; TName "tansec"; TOp "*"; TName "astronomical_unit"; TEnd] []].
