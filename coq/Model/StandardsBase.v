(** Model/StandardsBase.v — the standards table read through the registry's own route to
    "factor × base units of a system": [_get_base_units] (Model/Systems.v [base_units_in]) under
    the system the definition file declares as default (mks: gram ↦ kilogram).  Property C20:
    every public route from the registry to SI must tell the standardised factor, not only
    [root_of].  Definitions only. *)
From PintV Require Import Model.UC Model.Eval Model.Registry Model.Groups Model.Systems Model.Standards.
Open Scope string_scope.

(** pint base dimension ↦ SI base unit *)
Definition si_units : list (string * string) :=
  [("[length]", "meter"); ("[mass]", "kilogram"); ("[time]", "second"); ("[current]", "ampere");
   ("[temperature]", "kelvin"); ("[substance]", "mole"); ("[luminosity]", "candela")].

(** the system of that name as [System.from_lines] builds it from the definition file's block
    (name, using, rule lines) *)
Definition system_of (r : reg) (systems : list (string * list string * list string)) (n : string)
  : option system :=
  match find (λ d : string * list string * list string, String.eqb d.1.1 n) systems with
  | Some (_, usingl, rules) =>
      match rules_table faithful r rules with
      | Ok tbl => Some (Sys tbl (list_to_set usingl) None)
      | Err _ => None
      end
  | None => None
  end.

Definition dimless (r : reg) (k : string) : bool :=
  match dim_of r {[ k := 1%Qc ]} with Ok d => uc_eqb d ∅ | Err _ => false end.

(** one SI-basis row through [base_units_in]: the factor is the row's SI factor itself (no
    1000^[mass] bookkeeping: the system does it), exactly resp. within the stated digits; the
    returned units are the coherent SI unit of the row's dimension, times dimensionless base
    units (radian, bit, count).  CGS-basis rows (half-integer mass exponent, irrational in
    kilogram) are not claimed here. *)
Definition base_row_ok (r : reg) (sy : system) (row : srow) : bool :=
  match s_basis row with
  | BCGS => true
  | BSI =>
      match base_units_in r sy {[ s_name row := 1%Qc ]} with
      | Ok (f, ex, dest) =>
          match f with
          | Some q =>
              match s_kind row with
              | KExact => ex && bool_decide (q = s_factor row)
              | KApprox | KFloat => within (s_tol row) q (s_factor row)
              end
          | None => match s_kind row with KFloat => true | _ => false end
          end
          && forallb (λ du : string * string, bool_decide (exp_of dest du.2 = dim_exp (s_dims row) du.1)) si_units
          && forallb (λ kv : string * Qc, existsb (String.eqb kv.1) (map snd si_units) || dimless r kv.1)
                     (map_to_list dest)
      | Err _ => false
      end
  end.
Definition base_rows_ok_except (names : list string) (r : reg) (sy : option system) (tbl : list srow) : bool :=
  match sy with
  | Some sy => forallb (λ row, listed names row || base_row_ok r sy row) tbl
  | None => false
  end.
Definition failing_base_rows (r : reg) (sy : option system) (tbl : list srow) : list string :=
  match sy with
  | Some sy => map s_name (List.filter (λ row, negb (base_row_ok r sy row)) tbl)
  | None => map s_name tbl
  end.
