(** Model/StandardsSymbols.v — the symbol ↔ unit association of the standards table, for the bare
    symbols and for every SI / binary prefix symbol written in front of them (ms, mS, kA, mK, µF,
    KiB …): the string denotes that prefix and that unit, with factor prefix × unit and the
    unit's dimension (property C20).  Definitions only. *)
From PintV Require Import Model.UC Model.Eval Model.Registry Model.Standards.
Open Scope string_scope.

(** a row takes part when its name is an own entry of the unit table and it is a plain scale *)
Definition sym_row_eligible (r : reg) (row : srow) : bool :=
  match r_units r !! s_name row with
  | Some d => u_multiplicative d && String.eqb (u_name d) (s_name row)
  | None => false
  end.

(** every standard symbol of the row that the registry knows denotes the row's unit, and at least
    one is known *)
(** symbols that two rows of the table share (h: hour and Planck constant) are ambiguous in the
    standards themselves: not read backwards *)
Definition shared_symbols (tbl : list srow) : list string :=
  let all := flat_map (λ row, map (λ s, (s, s_name row)) (s_syms row)) tbl in
  map fst (List.filter (λ sn : string * string,
                          existsb (λ sn' : string * string, String.eqb sn.1 sn'.1 && negb (String.eqb sn.2 sn'.2)) all) all).
Definition unshared (dup : list string) (syms : list string) : list string :=
  List.filter (λ s, negb (existsb (String.eqb s) dup)) syms.
Definition bare_symbol_ok (dup : list string) (r : reg) (row : srow) : bool :=
  match unshared dup (s_syms row) with
  | [] => true
  | syms =>
      forallb (λ us, match r_units r !! us with
                     | Some d => String.eqb (u_name d) (s_name row)
                     | None => true end) syms
      && existsb (λ us, bool_decide (is_Some (r_units r !! us))) syms
  end.

(** what the prefixed string must be worth: prefix value × the row's root factor *)
Definition prefixed_factor_ok (r : reg) (row : srow) (pv : Qc) (s : string) : bool :=
  match root_of r {[ s := 1%Qc ]}, basis_scale (s_basis row) (s_dims row) with
  | Ok (Some q, _, ex), Some k =>
      match s_kind row with
      | KExact => ex && bool_decide (q = (pv * (s_factor row * k))%Qc)
      | KApprox | KFloat => within (qc_abs_diff pv 0 * (s_tol row * k))%Qc q (pv * (s_factor row * k))%Qc
      end
  | Ok (None, _, _), _ => match s_kind row with KFloat => true | _ => false end
  | _, _ => false
  end.

Inductive sym_verdict := SVOk | SVOwn | SVAmbiguous | SVUnknownSymbol | SVBad.
(** one prefix symbol [ps] of prefix [p] in front of one unit symbol [us] of [row] *)
Definition prefixed_value_ok (r : reg) (row : srow) (pv : Qc) (s : string) : bool :=
  prefixed_factor_ok r row pv s
  && match dim_of r {[ s := 1%Qc ]} with Ok d => uc_eqb d (mkuc (s_dims row)) | Err _ => false end.
(** [cheap]: only the reading (which prefix, which unit) is decided; the value of a prefixed unit is
    then prefix value × unit value by [resolve]/[prefixed_def] (the prefix values are
    [prefix_table_standard], the unit values [row_ok]) *)
Definition prefixed_symbol_verdict (cheap : bool) (r : reg) (p : sprefix) (ps : string) (row : srow) (us : string)
  : sym_verdict :=
  let s := ps ++ us in
  match r_units r !! us with
  | None => SVUnknownSymbol                    (* an alternative symbol the registry does not carry *)
  | Some ud =>
      if bool_decide (is_Some (r_units r !! s)) then SVOwn       (* cd, Pa, min, ft: a unit's own spelling *)
      else match parse_unit_name r s, sp_value p with
           | [(pn, un)], Some pv =>
               if String.eqb pn (sp_name p) && String.eqb un (u_name ud) && (cheap || prefixed_value_ok r row pv s)
               then SVOk else SVBad
           | [], _ => SVBad                    (* an SI symbol the registry cannot read *)
           | _, _ => SVAmbiguous               (* two readings of the symbols themselves (C08) *)
           end
  end.
Definition verdict_fine (v : sym_verdict) : bool := match v with SVBad => false | _ => true end.

Definition prefixed_symbols_of (cheap : bool) (dup : list string) (r : reg) (ps : list sprefix) (row : srow)
  : list (string * sym_verdict) :=
  flat_map (λ p, flat_map (λ psym, map (λ us, (psym ++ us, prefixed_symbol_verdict cheap r p psym row us))
                                       (unshared dup (s_syms row))) (sp_syms p)) ps.
Definition symbols_row_ok (cheap : bool) (dup : list string) (r : reg) (ps : list sprefix) (row : srow) : bool :=
  if sym_row_eligible r row
  then bare_symbol_ok dup r row && forallb (λ sv : string * sym_verdict, verdict_fine sv.2) (prefixed_symbols_of cheap dup r ps row)
  else true.
Definition symbols_ok_except (cheap : bool) (names : list string) (r : reg) (ps : list sprefix) (tbl : list srow) : bool :=
  let dup := shared_symbols tbl in forallb (λ row, listed names row || symbols_row_ok cheap dup r ps row) tbl.
Definition bad_symbols (cheap : bool) (r : reg) (ps : list sprefix) (tbl : list srow) : list string :=
  let dup := shared_symbols tbl in
  flat_map (λ row, if sym_row_eligible r row
                   then app (if bare_symbol_ok dup r row then [] else [s_name row])
                            (map fst (List.filter (λ sv : string * sym_verdict, negb (verdict_fine sv.2))
                                                  (prefixed_symbols_of cheap dup r ps row)))
                   else []) tbl.
Definition count_verdicts (cheap : bool) (r : reg) (ps : list sprefix) (tbl : list srow) : N * N * N * N :=
  let dup := shared_symbols tbl in
  fold_left (λ (acc : N * N * N * N) (sv : string * sym_verdict),
               let '(a, b, c, d) := acc in
               match sv.2 with
               | SVOk => (a + 1, b, c, d) | SVOwn => (a, b + 1, c, d)
               | SVAmbiguous => (a, b, c + 1, d) | _ => (a, b, c, d + 1) end)%N
            (flat_map (λ row, if sym_row_eligible r row then prefixed_symbols_of cheap dup r ps row else []) tbl)
            (0, 0, 0, 0)%N.
