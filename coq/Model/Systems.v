(** Model/Systems.v — executable model of pint's unit systems
    (pint/facets/system/objects.py [System], [Lister]; pint/facets/system/registry.py;
    pint/delegates/txt_defparser/system.py [BaseUnitRule]).  Definitions only. *)
From Coq Require Import Ascii String.
From PintV Require Import Model.UC Model.Eval Model.Registry Model.Groups.
Open Scope string_scope.

(** * Rule lines: [new] or [new : old] *)
Definition is_space (a : ascii) : bool :=
  let n := Ascii.N_of_ascii a in (n =? 32)%N || (n =? 9)%N.
Fixpoint ltrim (s : string) : string :=
  match s with String a s' => if is_space a then ltrim s' else s | EmptyString => s end.
Definition trim (s : string) : string := string_rev (ltrim (string_rev (ltrim s))).
Fixpoint split_colon (s : string) (cur : string) : list string :=
  match s with
  | EmptyString => [cur]
  | String a s' => if Ascii.eqb a ":"%char then cur :: split_colon s' "" else split_colon s' (cur ++ String a "")
  end.
(** [BaseUnitRule.from_string] *)
Definition parse_rule (s : string) : res (string * option string) :=
  match split_colon s "" with
  | [a] => Ok (trim a, None)
  | [a; b] => Ok (trim a, Some (trim b))
  | _ => Err ESyntax
  end.

(** * Systems *)
Record system := Sys {
  s_base : gmap string uc;      (* base_units: root unit name ↦ what replaces it *)
  s_used : sset;                (* _used_groups *)
  s_memo : option sset }.       (* _computed_members *)

(** value of a cached / returned base-unit answer: factor ([None] = not an exact number),
    exactness flag (pint stayed in exact arithmetic), units *)
Definition bans := (option Qc * bool * uc)%type.

Record sstate := SS {
  ss_groups : gstate;
  ss_systems : gmap string system;
  ss_default : option string;            (* _default_system_name; None also stands for "" *)
  ss_cache : list (uc * bans) }.         (* _base_units_cache, newest binding first *)
Definition ss_set_groups (s : sstate) (g : gstate) := SS g (ss_systems s) (ss_default s) (ss_cache s).
Definition ss_set_systems (s : sstate) (m : gmap string system) := SS (ss_groups s) m (ss_default s) (ss_cache s).
Definition ss_set_cache (s : sstate) (c : list (uc * bans)) := SS (ss_groups s) (ss_systems s) (ss_default s) c.

Fixpoint cache_lookup (c : list (uc * bans)) (a : uc) : option bans :=
  match c with [] => None | (k, v) :: c' => if uc_eqb k a then Some v else cache_lookup c' a end.

(** [System.from_definition]: one rule.  [root_of r {[new := 1]}] is [get_root_func(new_unit)]. *)
Definition rule_entry (qk : quirks) (r : reg) (new : string) (old : option string) : res (string * uc) :=
  match old with
  | None =>
      ' (_, B, _) ←r root_of r {[ new := 1%Qc ]};
      match map_to_list B with
      | [(o, v)] => Ok (o, {[ new := (1 / v)%Qc ]})
      | _ => Err EValue     (* "The new unit must be a root dimension if not discarded unit is specified." *)
      end
  | Some o =>
      ' (_, Bo, _) ←r root_of r {[ o := 1%Qc ]};
      if negb (uc_eqb Bo {[ o := 1%Qc ]}) then Err EValue    (* old must be a root unit *)
      else
        ' (_, Bn, _) ←r root_of r {[ new := 1%Qc ]};
        match Bn !! o with
        | None => Err EValue       (* "Old unit must be a component of new unit" *)
        | Some vo =>
            (* "Here we invert the equation": as coded, every other component gets [-1/value];
               solving new = old^vo · Π r_i^v_i for old gives [-v_i/vo] (F11) *)
            let others := (λ v, if q_inv_exponent qk then ((-1) / v)%Qc else (- v / vo)%Qc) <$> delete o Bn in
            Ok (o, <[ new := (1 / vo)%Qc ]> others)
        end
  end.
(** the text parser reads every rule line before [from_definition] looks at the first one *)
Definition rules_table (qk : quirks) (r : reg) (rules : list string) : res (gmap string uc) :=
  parsed ←r foldM (λ (acc : list (string * option string)) line, p ←r parse_rule line; Ok (app acc [p])) rules [];
  foldM (λ acc (p : string * option string), ' (o, d) ←r rule_entry qk r p.1 p.2; Ok (<[ o := d ]> acc))
        parsed ∅.
(** [System.from_lines] / [from_definition]: nothing is registered when a rule fails *)
Definition new_system (qk : quirks) (r : reg) (st : sstate) (name : string) (usingl rules : list string)
  : sstate * res unit :=
  match rules_table qk r rules with
  | Err e => (st, Err e)
  | Ok tbl => (ss_set_systems st (<[ name := Sys tbl (list_to_set usingl) None ]> (ss_systems st)), Ok tt)
  end.
(** the definition-file path ([_add_system]) refuses a second system of the same name *)
Definition add_system (qk : quirks) (r : reg) (st : sstate) (d : string * list string * list string)
  : sstate * res unit :=
  let '(name, usingl, rules) := d in
  match ss_systems st !! name with
  | Some _ => (st, Err EValue)
  | None => new_system qk r st name (match usingl with [] => ["root"] | _ => usingl end) rules
  end.

(** [System.members]: memoised union of the members of its groups; an unknown group name is
    skipped with a warning.  Reading it fills the memos of the groups.  No group edit ever
    resets this memo (F10); the repaired behaviour keeps no memo in the system. *)
Definition sys_members (qk : quirks) (st : sstate) (name : string) : sstate * res sset :=
  match ss_systems st !! name with
  | None => (st, Err EKey)
  | Some s =>
      match (if q_sys_memo_stale qk then s_memo s else None) with
      | Some m => (st, Ok m)
      | None =>
          let '(gs, r) :=
            fold_left (λ (acc : gstate * res sset) g,
                         match acc with
                         | (gs, Ok tmp) =>
                             match gs !! g with
                             | None => (gs, Ok tmp)
                             | Some _ => match members gs g with
                                         | (gs', Ok v) => (gs', Ok (tmp ∪ v))
                                         | (gs', Err e) => (gs', Err e)
                                         end
                             end
                         | (gs, Err e) => (gs, Err e)
                         end) (elements (s_used s)) (ss_groups st, Ok ∅) in
          match r with
          | Ok v => (SS gs (<[ name := Sys (s_base s) (s_used s) (if q_sys_memo_stale qk then Some v else None) ]> (ss_systems st)) (ss_default st) (ss_cache st), Ok v)
          | Err e => (ss_set_groups st gs, Err e)
          end
      end
  end.
(** [System.add_groups] / [remove_groups]: plain set update, memo reset *)
Definition sys_add_groups (st : sstate) (name : string) (gs : list string) : sstate * res unit :=
  match ss_systems st !! name with
  | None => (st, Err EKey)
  | Some s => (ss_set_systems st (<[ name := Sys (s_base s) (s_used s ∪ list_to_set gs) None ]> (ss_systems st)), Ok tt)
  end.
Definition sys_remove_groups (st : sstate) (name : string) (gs : list string) : sstate * res unit :=
  match ss_systems st !! name with
  | None => (st, Err EKey)
  | Some s => (ss_set_systems st (<[ name := Sys (s_base s) (s_used s ∖ list_to_set gs) None ]> (ss_systems st)), Ok tt)
  end.

(** [default_system] setter *)
Definition set_default (qk : quirks) (st : sstate) (name : option string) : sstate * res unit :=
  match name with
  | Some n =>
      match ss_systems st !! n with
      | None => (st, Err EValue)
      | Some _ => (SS (ss_groups st) (ss_systems st) (Some n) [], Ok tt)
      end
  | None => (SS (ss_groups st) (ss_systems st) None (if q_cache_none qk then ss_cache st else []), Ok tt)
  end.

(** * [_get_base_units] *)
(** substitution of the root units through the system's table *)
Definition substitute (bu : gmap string uc) (B : uc) : uc :=
  fold_left (λ dest kv,
               match bu !! kv.1 with
               | Some new => uc_mul dest (uc_pow new kv.2)
               | None => uc_mul dest {[ kv.1 := kv.2 ]}
               end) (map_to_list B) ∅.
(** the cache-free computation for a named system *)
Definition base_units_in (r : reg) (s : system) (a : uc) : res bans :=
  ' (f, B, ex) ←r root_of r a;
  let dest := substitute (s_base s) B in
  ' (c, exc) ←r conv_factor r B dest;
  Ok (match f, c with Some x, Some y => Some (x * y)%Qc | _, _ => None end, ex && exc, dest).
Definition base_units_pure (r : reg) (st : sstate) (sys : option string) (a : uc) : res bans :=
  match sys with
  | None => ' (f, B, ex) ←r root_of r a; Ok (f, ex, B)
  | Some n =>
      ' (f, B, ex) ←r root_of r a;           (* the root units are computed before the lookup *)
      match ss_systems st !! n with
      | None => Err EValue                  (* get_system(system, False): "Unknown system" *)
      | Some s => base_units_in r s a
      end
  end.
Definition opt_str_eqb (a b : option string) : bool :=
  match a, b with Some x, Some y => String.eqb x y | None, None => true | _, _ => false end.
(** [system] argument: [None] means "the default system" *)
Definition get_base_units (qk : quirks) (r : reg) (st : sstate) (a : uc) (check_nonmult : bool)
    (system : option string) : sstate * res bans :=
  let sys := match system with None => ss_default st | Some s => Some s end in
  let is_default := opt_str_eqb sys (ss_default st) in
  match (if check_nonmult && is_default then cache_lookup (ss_cache st) a else None) with
  | Some v => (st, Ok v)
  | None =>
      match sys, base_units_pure r st sys a with
      | _, Err e => (st, Err e)
      | None, Ok v => (st, Ok v)            (* "if not system: return factor, units" — not cached *)
      | Some _, Ok v =>
          if check_nonmult && (q_cache_foreign qk || is_default)
          then (ss_set_cache st ((a, v) :: ss_cache st), Ok v)
          else (st, Ok v)
      end
  end.

(** * Restricted compatible units *)
(** [_cache.dimensional_equivalents] as [_build_cache] fills it: for every spelling whose first
    reading has no prefix, the canonical name of that reading under its dimensionality *)
Definition dimeq_table (r : reg) : list (string * uc) :=
  omap (λ kd : string * udef,
          let s := kd.1 in
          let base := match parse_unit_name r s with
                      | [] => Some s
                      | (p, b) :: _ => if String.eqb p "" then Some b else None
                      end in
          match base with
          | None => None
          | Some b => match r_units r !! b, dim_of r {[ b := 1%Qc ]} with
                      | Some d, Ok di => Some (u_name d, di)
                      | _, _ => None
                      end
          end) (map_to_list (r_units r)).
(** plain [_get_compatible_units] ([_get_dimensionality] keeps the "[]" key out as well): the names
    listed under the dimensionality of the input (a list; the same name may occur once per spelling) *)
Definition compat_names (r : reg) (tbl : list (string * uc)) (a : uc) : res (list string) :=
  if bool_decide (a = ∅) then Ok [] else
  d ←r dim_of r a;
  Ok (map fst (filter (λ nd, uc_eqb nd.2 d) tbl)).
(** [members & names]: the members whose name is listed *)
Definition restrict (m : sset) (names : list string) : sset :=
  list_to_set (filter (λ x, existsb (String.eqb x) names) (elements m)).
(** [GenericSystemRegistry.get_compatible_units(input, group_or_system)] *)
Definition get_compatible (qk : quirks) (r : reg) (tbl : list (string * uc)) (st : sstate) (a : uc)
    (gos : option string) : sstate * res sset :=
  let gos := match gos with Some g => Some g | None => ss_default st end in
  match gos with
  | None => (st, names ←r compat_names r tbl a; Ok (list_to_set names))
  | Some n =>
      match ss_systems st !! n with
      | Some _ =>
          match sys_members qk st n with
          | (st', Ok m) => (st', names ←r compat_names r tbl a; Ok (restrict m names))
          | (st', Err e) => (st', Err e)
          end
      | None =>
          match compat_names r tbl a with
          | Err e => (st, Err e)
          | Ok names =>
              match ss_groups st !! n with
              | None => (st, Err EValue)        (* "Unknown Group o System with name" *)
              | Some _ =>
                  match members (ss_groups st) n with
                  | (gs, Ok m) => (ss_set_groups st gs, Ok (restrict m names))
                  | (gs, Err e) => (ss_set_groups st gs, Err e)
                  end
              end
          end
      end
  end.

(** * [ureg.sys.<system>.<item>] *)
Definition str_last (s : string) : option ascii :=
  match string_rev s with String a _ => Some a | EmptyString => None end.
Fixpoint lstrip_us (s : string) : string :=
  match s with String a s' => if Ascii.eqb a "_"%char then lstrip_us s' else s | EmptyString => s end.
Definition is_digit (a : ascii) : bool := match digit_of a with Some _ => true | None => false end.
(** [getattr_maybe_raise] *)
Definition attr_refused (item : string) : bool :=
  ends_with "__" item
  || match lstrip_us item with EmptyString => true | String a _ => String.prefix "_" item && negb (is_digit a) end.
(** the unit that [getattr(registry, s)] denotes: [Unit(s)], i.e. the canonical name ("" for
    "dimensionless"); an undefined name is an AttributeError *)
Definition sys_attr (r : reg) (st : sstate) (sysname item : string) : res string :=
  if attr_refused sysname then Err EOther else
  match ss_systems st !! sysname with
  | None => Err EKey
  | Some _ =>
      if attr_refused item then Err EOther else
      match (if attr_refused (sysname ++ "_" ++ item) then Err EOther else get_name r (sysname ++ "_" ++ item)) with
      | Ok n => Ok n
      | Err _ => get_name r item
      end
  end.

(** * A whole registry: unit definitions, groups, systems, defaults ([_after_init]) *)
Definition raw_unit_names (ds : list rawdef) : list string :=
  omap (λ d, match d with RUnit (n :: _) _ _ => Some n | _ => None end) ds.
Definition build_state (qk : quirks) (r : reg) (ds : list rawdef)
    (groups systems : list (string * list string * list string)) (defaults : list (string * string))
  : sstate * res unit :=
  (* every unit definition lands in the root group ([_add_unit]); the automatic delta_ units do not *)
  let '(g0, _) := add_units init_groups "root" (raw_unit_names ds) in
  let '(g1, r1) := load_groups qk g0 groups in
  let st1 := SS g1 ∅ None [] in
  match r1 with Err e => (st1, Err e) | Ok _ =>
  let '(st2, r2) := fold_left (λ (sr : sstate * res unit) d,
                                 match sr with (s, Ok _) => add_system qk r s d | (s, Err e) => (s, Err e) end)
                              systems (st1, Ok tt) in
  match r2 with Err e => (st2, Err e) | Ok _ =>
  let '(g3, r3) := after_init_groups qk (ss_groups st2) (Eval.assoc "group" defaults) in
  (SS g3 (ss_systems st2) (Eval.assoc "system" defaults) [], r3)
  end end.
