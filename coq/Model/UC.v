(** Model/UC.v — executable model of pint's unit containers (pint/util.py:
    [UnitsContainer], [ParserHelper]).  Definitions only; proofs live in
    Proofs/UCProofs.v so that the model still runs when a proof breaks. *)
From stdpp Require Export gmap strings.
From Coq Require Export QArith Qcanon.

(** A unit container maps names to exact rational exponents.  This MUST be a
    notation (not a definition) so that stdpp's lemmas unify. *)
Notation uc := (gmap string Qc).

Definition qz (x : Qc) : bool := Qeq_bool (this x) 0.

(** Canonical-form invariant of the property: no zero exponent is stored. *)
Definition wf (a : uc) : Prop := map_Forall (λ _ v, v ≠ 0%Qc) a.
Definition wfb (a : uc) : bool := forallb (λ kv, negb (qz (snd kv))) (map_to_list a).

Definition exp_of (a : uc) (k : string) : Qc := default 0%Qc (a !! k).

(** [UnitsContainer.__mul__]: for every (key, value) of [other]:
      new[key] += value ; if new[key] == 0: del new[key]
    Entries of [self] that [other] does not mention are copied untouched. *)
Definition acc_add (x y : option Qc) : option Qc :=
  match y with
  | None => x
  | Some v => let s := (default 0 x + v)%Qc in if qz s then None else Some s
  end.
Definition acc_sub (x y : option Qc) : option Qc :=
  match y with
  | None => x
  | Some v => let s := (default 0 x - v)%Qc in if qz s then None else Some s
  end.
Definition uc_mul (a b : uc) : uc := merge acc_add a b.
Definition uc_div (a b : uc) : uc := merge acc_sub a b.

(** [UnitsContainer.__pow__] (after the fix of F20: entries whose new exponent
    is zero are dropped). *)
Definition uc_pow (a : uc) (e : Qc) : uc :=
  omap (λ x, let y := (x * e)%Qc in if qz y then None else Some y) a.
(** The pre-fix behaviour, kept to exhibit the defect ([uc_pow_zero_refuted]). *)
Definition uc_pow_keepzero (a : uc) (e : Qc) : uc := fmap (λ x, (x * e)%Qc) a.

Definition uc_inv (a : uc) : uc := uc_pow a (-1)%Qc.   (* __rtruediv__ *)

(** [UnitsContainer.add] *)
Definition uc_add (a : uc) (k : string) (v : Qc) : uc :=
  let s := (exp_of a k + v)%Qc in if qz s then delete k a else <[k := s]> a.
(** [UnitsContainer.remove]: KeyError if a key is absent. *)
Fixpoint uc_remove (a : uc) (ks : list string) : option uc :=
  match ks with
  | [] => Some a
  | k :: ks' => match a !! k with None => None | Some _ => uc_remove (delete k a) ks' end
  end.
(** [UnitsContainer.rename]: KeyError if [old] is absent. *)
Definition uc_rename (a : uc) (old new : string) : option uc :=
  match a !! old with
  | None => None
  | Some v => Some (<[new := v]> (delete old a))
  end.

Definition uc_eqb (a b : uc) : bool := bool_decide (a = b).

(** * Containers with the lazily cached hash.
    The hash is idealised as injective: the cached value is a snapshot of the
    contents at the time [__hash__] ran.  A stale snapshot is exactly what a
    forgotten [_hash = None] produces. *)
Record ucs := UCS { ucs_d : uc; ucs_h : option uc }.
Definition ucs_fresh (d : uc) : ucs := UCS d None.
Definition ucs_hash (s : ucs) : ucs * uc :=
  match ucs_h s with
  | Some h => (s, h)
  | None => (UCS (ucs_d s) (Some (ucs_d s)), ucs_d s)
  end.
(** [__eq__]: different hashes -> False, else dict comparison. Returns the two
    operands as well, since hashing populates their caches. *)
Definition ucs_eq (s t : ucs) : ucs * ucs * bool :=
  let '(s', hs) := ucs_hash s in
  let '(t', ht) := ucs_hash t in
  (s', t', if bool_decide (hs = ht) then bool_decide (ucs_d s = ucs_d t) else false).
(** every operation: copy (hash copied), mutate, reset hash *)
Definition ucs_mul (s t : ucs) : ucs := UCS (uc_mul (ucs_d s) (ucs_d t)) None.
Definition ucs_div (s t : ucs) : ucs := UCS (uc_div (ucs_d s) (ucs_d t)) None.
Definition ucs_pow (s : ucs) (e : Qc) : ucs := UCS (uc_pow (ucs_d s) e) None.
Definition ucs_add (s : ucs) k v : ucs := UCS (uc_add (ucs_d s) k v) None.
Definition ucs_copy (s : ucs) : ucs := UCS (ucs_d s) (ucs_h s).
Definition hash_inv (s : ucs) : Prop := ucs_h s = None ∨ ucs_h s = Some (ucs_d s).

(** * ParserHelper: a container with a scale.  [operate] with cleanup. *)
Record ph := PH { ph_scale : Qc; ph_d : uc }.
Definition ph_mul (a b : ph) : ph := PH (ph_scale a * ph_scale b)%Qc (uc_mul (ph_d a) (ph_d b)).
(** division by a zero scale raises ZeroDivisionError *)
Definition ph_div (a b : ph) : option ph :=
  if qz (ph_scale b) then None
  else Some (PH (ph_scale a / ph_scale b)%Qc (uc_div (ph_d a) (ph_d b))).
Definition ph_mul_num (a : ph) (x : Qc) : ph := PH (ph_scale a * x)%Qc (ph_d a).
Definition ph_of_word (w : string) : ph := PH 1%Qc {[ w := 1%Qc ]}.
Definition ph_of_num (x : Qc) : ph := PH x ∅.

(** literals written by the harness *)
Definition mkq (n : Z) (d : positive) : Qc := Q2Qc (n # d).
Definition mkuc (l : list (string * Qc)) : uc := list_to_map l.
