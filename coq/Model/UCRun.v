(** Model/UCRun.v — correspondence cases for the container layer: each case carries the
    implementation's observed result; [c04_ok] says whether the model agrees. *)
From PintV Require Import Model.UC.

Definition ph_eqb (a b : ph) : bool :=
  bool_decide (ph_scale a = ph_scale b) && uc_eqb (ph_d a) (ph_d b).
Definition opt_eqb {A} (f : A → A → bool) (x y : option A) : bool :=
  match x, y with Some a, Some b => f a b | None, None => true | _, _ => false end.

(** stateful sequences over a pool of container objects (cached hashes) *)
Inductive sop :=
| SHash (i : nat) | SEq (i j : nat) (r : bool)
| SMul (i j : nat) | SDiv (i j : nat) | SPow (i : nat) (e : Qc) | SCopy (i : nat)
| SAdd (i : nat) (k : string) (v : Qc).

Definition pool := list ucs.
Definition pget (p : pool) (i : nat) : ucs := nth i p (ucs_fresh ∅).
Definition pset (p : pool) (i : nat) (s : ucs) : pool := <[i := s]> p.

(** returns the new pool and whether the observation (for SEq) matched *)
Definition sstep (p : pool) (o : sop) : pool * bool :=
  match o with
  | SHash i => (pset p i (fst (ucs_hash (pget p i))), true)
  | SEq i j r =>
      if Nat.eqb i j then
        let '(s', _) := ucs_hash (pget p i) in (pset p i s', eqb r true)
      else
        let '(s', t', b) := ucs_eq (pget p i) (pget p j) in
        (pset (pset p i s') j t', eqb b r)
  | SMul i j => (p ++ [ucs_mul (pget p i) (pget p j)], true)
  | SDiv i j => (p ++ [ucs_div (pget p i) (pget p j)], true)
  | SPow i e => (p ++ [ucs_pow (pget p i) e], true)
  | SCopy i => (p ++ [ucs_copy (pget p i)], true)
  | SAdd i k v => (p ++ [ucs_add (pget p i) k v], true)
  end.
Fixpoint srun (p : pool) (os : list sop) : pool * bool :=
  match os with
  | [] => (p, true)
  | o :: os' => let '(p', ok) := sstep p o in let '(p'', ok') := srun p' os' in (p'', ok && ok')
  end.
(** final observation: contents and "is the hash cached" for every pool object *)
Definition pool_obs_ok (p : pool) (obs : list (uc * bool)) : bool :=
  Nat.eqb (length p) (length obs) &&
  forallb (λ so : ucs * (uc * bool),
             uc_eqb (ucs_d so.1) so.2.1 && eqb (bool_decide (ucs_h so.1 ≠ None)) so.2.2)
          (zip p obs).

Inductive c04case :=
| KMul (a b r : uc) | KDiv (a b r : uc) | KPow (a : uc) (e : Qc) (r : uc)
| KAdd (a : uc) (k : string) (v : Qc) (r : uc)
| KRemove (a : uc) (ks : list string) (r : option uc)
| KRename (a : uc) (o n : string) (r : option uc)
| KEq (a b : uc) (r : bool)
| KPhMul (a b r : ph) | KPhDiv (a b : ph) (r : option ph)
| KSeq (init : list uc) (ops : list sop) (obs : list (uc * bool)).

Definition c04_ok (c : c04case) : bool :=
  match c with
  | KMul a b r => uc_eqb (uc_mul a b) r
  | KDiv a b r => uc_eqb (uc_div a b) r
  | KPow a e r => uc_eqb (uc_pow a e) r
  | KAdd a k v r => uc_eqb (uc_add a k v) r
  | KRemove a ks r => opt_eqb uc_eqb (uc_remove a ks) r
  | KRename a o n r => opt_eqb uc_eqb (uc_rename a o n) r
  | KEq a b r => eqb (uc_eqb a b) r
  | KPhMul a b r => ph_eqb (ph_mul a b) r
  | KPhDiv a b r => opt_eqb ph_eqb (ph_div a b) r
  | KSeq init ops obs =>
      let '(p, ok) := srun (map ucs_fresh init) ops in ok && pool_obs_ok p obs
  end.
