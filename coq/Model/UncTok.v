(** Model/UncTok.v — the token-rewriting part of pint/pint_eval.py [uncertainty_tokenizer]:
    a function from the token list Python's [tokenize] produces to the token list the tree
    builder receives.  Statement-for-statement mirror, including the look-ahead helper
    [_get_possible_e], [_apply_e_notation], [_finalize_e] and the exceptions they raise.
    Definitions only.

    Tokens carry type, text and start/end positions (row, column), exactly the fields of
    [tokenize.TokenInfo] that the tokenizer reads or synthesises.  (This version of the
    tokenizer never tests that tokens touch: ["1 + / - 2"] and ["1.0(1) e5"] are rewritten
    like ["1+/-2"] and ["1.0(1)e5"].)

    Errors: [EIndex] = IndexError ([string[0]] of an empty token text), [EValue] = ValueError
    ("Cannot look ahead, out of range" of [IteratorLookAhead.lookahead], or [float(text)]
    of a literal that is not a decimal one), [EAssert] = the [assert] of [_finalize_e],
    [EOther] = RuntimeError (StopIteration inside the generator).

    Out of the model: Python's [tokenize] itself (the correspondence feeds the real token
    lists), non-ASCII digits in [str.isdigit]. *)
From Coq Require Import Ascii String Qcabs.
From PintV Require Import Model.UC Model.Eval Model.Registry Model.Measure.
Open Scope string_scope.

Inductive tty := TyNumber | TyName | TyOp | TyString | TyNewline | TyEnd | TyOther.
Global Instance tty_eq_dec : EqDecision tty.
Proof. solve_decision. Defined.
Notation pos := (Z * Z)%type.
Record utok := UTok { ty : tty; tx : string; ts : pos; te : pos }.
Global Instance utok_eq_dec : EqDecision utok.
Proof. solve_decision. Defined.

(** * Deviations of the code as found from the property (defect switches, DESIGN 2.6).
    [q_eof_index] (F15): [_get_possible_e] reads [string[0]] of the token after the notation
      without testing for the empty text of NEWLINE / ENDMARKER: a notation that ends the
      input raises IndexError.  Repaired: an empty text means "no exponent".
    [q_short_prefix] (F70): in [v(u)] an uncertainty without a decimal point is prefixed with
      ["0."] whatever the number of decimals of [v]: [1.23(4)] reads 1.23 ± 0.4.  Repaired:
      the digits count in units of the last digit of [v] (1.23 ± 0.04, 123(4) = 123 ± 4).
    [q_e_prefix] (F71): the signed-exponent look-ahead accepts any token whose text merely
      STARTS with e/E: [(4.0+/-0.1)eV+3 eV] reads (4.0e+3 ± 0.1e+3) eV.  Repaired: the text
      must be exactly "e" or "E". *)
Record quirks := Quirks { q_eof_index : bool; q_short_prefix : bool; q_e_prefix : bool }.
Definition repaired : quirks := Quirks false false false.
Definition as_found : quirks := Quirks true true true.

(** what the tree builder of Model/Eval.v sees *)
Definition to_tok (t : utok) : tok :=
  match ty t with
  | TyNumber => TNum (tx t) | TyName => TName (tx t) | TyOp => TOp (tx t)
  | TyEnd => TEnd | _ => TOther
  end.

(** [input_string.replace("±", "+/-")] on UTF-8 text (± = C2 B1) *)
Fixpoint replace_pm (s : string) : string :=
  match s with
  | String a (String b s' as s1) =>
      if (N_of_ascii a =? 194)%N && (N_of_ascii b =? 177)%N then "+/-" ++ replace_pm s'
      else String a (replace_pm s1)
  | _ => s
  end.

(** [toklist.lookahead(n)] on the not yet consumed tokens *)
Definition la (l : list utok) (n : nat) : res utok :=
  match nth_error l n with Some t => Ok t | None => Err EValue end.
Definition la_is (l : list utok) (n : nat) (s : string) : res bool :=
  t ←r la l n; Ok (String.eqb (tx t) s).
(** Python's short-circuit [and] over conditions that may raise *)
Definition rand (x y : res bool) : res bool :=
  match x with Ok true => y | Ok false => Ok false | Err e => Err e end.

Definition is_number (t : utok) : bool := bool_decide (ty t = TyNumber).
Definition number_or_nan (t : utok) : bool :=
  is_number t || (bool_decide (ty t = TyName) && String.eqb (tx t) "nan").
Definition la_p (l : list utok) (n : nat) (p : utok → bool) : res bool := t ←r la l n; Ok (p t).

Definition is_digit (a : ascii) : bool := match digit_of a with Some _ => true | None => false end.
Definition str_second (s : string) : option ascii :=
  match s with String _ (String c _) => Some c | _ => None end.
Fixpoint str_has (c : ascii) (s : string) : bool :=
  match s with EmptyString => false | String a s' => Ascii.eqb a c || str_has c s' end.
Definition is_sign (s : string) : bool := String.eqb s "+" || String.eqb s "-".

(** [float(text)] of a token text: decimal literals only (hex / octal / binary / imaginary
    literals raise ValueError); and [== 0.0] after rounding to binary64 (anything not above
    2^-1075 in magnitude rounds to zero) *)
Definition float_of_text (s : string) : option Qc := parse_number s.
Definition float_is_zero (q : Qc) : bool :=
  Qle_bool (this (Qcabs q)) (1 # (Z.to_pos (Z.pow 2 1075))).

(** [_get_possible_e(toklist, e_index)] *)
Definition get_possible_e (q : quirks) (l : list utok) (k : nat) : res (option utok) :=
  t ←r la l k;
  match tx t with
  | EmptyString => if q_eof_index q then Err EIndex  (* possible_e_token.string[0] *)
                   else Ok None
  | String c s1 =>
      if Ascii.eqb c "e" && (match s1 with String d _ => is_digit d | EmptyString => false end)
      then Ok (Some (UTok TyString (tx t) (ts t) (te t)))
      else if (Ascii.eqb c "e" || Ascii.eqb c "E")
              && (q_e_prefix q || match s1 with EmptyString => true | _ => false end) then
        b ←r rand (t1 ←r la l (k + 1); Ok (is_sign (tx t1))) (la_p l (k + 2) is_number);
        if b then
          t1 ←r la l (k + 1); t2 ←r la l (k + 2);
          (* leading-zero special case *)
          z ←r rand (Ok (String.eqb (tx t2) "0")) (la_p l (k + 3) is_number);
          tn ←r (if z then la l (k + 3) else Ok t2);
          Ok (Some (UTok TyString ("e" ++ tx t1 ++ tx tn) (ts t) (te tn)))
        else Ok None
      else Ok None
  end.

(** [_apply_e_notation(mantissa, exponent)] *)
Definition apply_e (m e : utok) : res utok :=
  if String.eqb (tx m) "nan" then Ok m
  else match float_of_text (tx m) with
       | None => Err EValue
       | Some q => if float_is_zero q then Ok m
                   else Ok (UTok TyNumber (tx m ++ tx e) (ts m) (te e))
       end.

(** [_finalize_e]: apply the exponent to both numbers and consume its tokens from the not
    yet consumed list [l] (whose head is the "e" token) *)
Definition finalize_e (nv sd pe : utok) (l : list utok) : res (utok * utok * list utok) :=
  nv' ←r apply_e nv pe;
  sd' ←r apply_e sd pe;
  match l with
  | [] => Err EOther
  | _ :: l1 =>
      match str_second (tx pe) with
      | Some c =>
          if Ascii.eqb c "+" || Ascii.eqb c "-" then
            match l1 with
            | _ :: expn :: l3 =>
                z ←r rand (Ok (String.eqb (tx expn) "0")) (la_p l3 0 is_number);
                if z then
                  match l3 with
                  | t :: l4 => if bool_decide (te t = te pe) then Ok (nv', sd', l4) else Err EAssert
                  | [] => Err EOther
                  end
                else Ok (nv', sd', l3)
            | _ => Err EOther
            end
          else Ok (nv', sd', l1)
      | None => Err EIndex                            (* possible_e.string[1] *)
      end
  end.

(** the uncertainty text of the [v(u)] notation *)
Fixpoint all_digits (s : string) : bool :=
  match s with EmptyString => true | String a s' => is_digit a && all_digits s' end.
Definition nonempty_digits (s : string) : bool :=
  match s with EmptyString => false | _ => all_digits s end.
(** digits after the first "." ; [None] when the text is not digits[.digits] *)
Fixpoint frac_digits_aux (s : string) (seen_dot : bool) (n : nat) : option nat :=
  match s with
  | EmptyString => Some n
  | String a s' =>
      if Ascii.eqb a "." then (if seen_dot then None else frac_digits_aux s' true 0)
      else if is_digit a then frac_digits_aux s' seen_dot (if seen_dot then S n else n)
      else None
  end.
Definition plain_decimals (s : string) : option nat :=
  match s with
  | EmptyString => None
  | "." => None
  | _ => frac_digits_aux s false 0
  end.
Fixpoint pad_zeros (n : nat) (s : string) : string :=
  match n with O => s | S n' => String "0" (pad_zeros n' s) end.
Definition short_unc_text (q : quirks) (v u : string) : string :=
  if str_has "." u then u
  else if q_short_prefix q then "0." ++ u
  else match (if nonempty_digits u then plain_decimals v else None) with
       | Some O => u
       | Some nd =>
           let d := pad_zeros (S nd - String.length u) u in
           let k := (String.length d - nd)%nat in
           str_take k d ++ "." ++ str_drop k d
       | None => "0." ++ u
       end.

(** which branch of the main loop the head token takes *)
Inductive kind := KPlusMinus | KParen (seen_minus : nat) | KShort | KPlain.

(** the three [if]/[elif] conditions of the main loop *)
Definition cond_pm (t : utok) (rest : list utok) : res bool :=
  rand (Ok (String.eqb (tx t) "+")) (rand (la_is rest 0 "/") (la_is rest 1 "-")).
Definition cond_paren (t : utok) (rest : list utok) : res (option nat) :=
  if String.eqb (tx t) "(" then
    t0 ←r la rest 0;
    let sm := if String.eqb (tx t0) "-" then 1%nat else 0%nat in
    b ←r rand (la_p rest sm number_or_nan)
          (rand (la_is rest (sm + 1) "+")
            (rand (la_is rest (sm + 2) "/")
              (rand (la_is rest (sm + 3) "-")
                (rand (la_p rest (sm + 4) number_or_nan)
                      (la_is rest (sm + 5) ")")))));
    Ok (if b then Some sm else None)
  else Ok None.
Definition cond_short (t : utok) (rest : list utok) : res bool :=
  rand (Ok (is_number t))
       (rand (la_is rest 0 "(") (rand (la_p rest 1 is_number) (la_is rest 2 ")"))).

Definition classify (t : utok) (rest : list utok) : res kind :=
  c1 ←r cond_pm t rest;
  if c1 then Ok KPlusMinus else
  c2 ←r cond_paren t rest;
  match c2 with
  | Some sm => Ok (KParen sm)
  | None => c3 ←r cond_short t rest; Ok (if c3 then KShort else KPlain)
  end.

(** the tail shared by the two notations: optional exponent, then the three tokens *)
Definition emit (pre : list utok) (nv pm sd : utok) (pe : option utok) (rest' : list utok)
    (k : list utok → res (list utok)) : res (list utok) :=
  match pe with
  | Some p =>
      '(nv', sd', rest'') ←r finalize_e nv sd p rest';
      r ←r k rest''; Ok (app pre (nv' :: pm :: sd' :: r))
  | None => r ←r k rest'; Ok (app pre (nv :: pm :: sd :: r))
  end.

Fixpoint utz (q : quirks) (fuel : nat) (l : list utok) : res (list utok) :=
  match fuel with
  | O => Err EFuel
  | S f =>
    match l with
    | [] => Ok []
    | t :: rest =>
      kd ←r classify t rest;
      match kd with
      | KPlusMinus =>
          t1 ←r la rest 1;
          r ←r utz q f (drop 2 rest);
          Ok (UTok TyOp "+/-" (ts t) (te t1) :: r)
      | KParen sm =>
          pe ←r get_possible_e q rest (sm + 6);
          nv ←r la rest sm; plus ←r la rest (sm + 1); minus ←r la rest (sm + 3);
          sd ←r la rest (sm + 4);
          let pm := UTok TyOp "+/-" (ts plus) (te minus) in
          emit (take sm rest) nv pm sd pe (drop (sm + 6) rest) (utz q f)
      | KShort =>
          pe ←r get_possible_e q rest 3;
          lp ←r la rest 0; sd0 ←r la rest 1;
          let pm := UTok TyOp "+/-" (ts lp) (te lp) in
          let sd := if str_has "." (tx sd0) then sd0
                    else UTok (ty sd0) (short_unc_text q (tx t) (tx sd0)) (ts sd0) (te sd0) in
          emit [] t pm sd pe (drop 3 rest) (utz q f)
      | KPlain => r ←r utz q f rest; Ok (t :: r)
      end
    end
  end.

Definition unc_tokenize (q : quirks) (l : list utok) : res (list utok) := utz q (S (length l)) l.

(** * The accepted notations, rendered as the token texts Python's tokenizer produces *)
Notation core := (tty * string)%type.
Definition core_of (t : utok) : core := (ty t, tx t).

Inductive estyle :=
| ENone
| EDigits (ds : string)                       (* NAME "e" ++ ds, e.g. e5, e05 *)
| ESigned (cap neg : bool) (ds : string).     (* NAME "e"/"E", OP "+"/"-", NUMBER ds *)
Inductive nstyle := SParen (minus : bool) | SShort.
Record ninst := NInst { n_v : core; n_u : core; n_e : estyle; n_style : nstyle }.

Definition render_e (e : estyle) : list core :=
  match e with
  | ENone => []
  | EDigits ds => [(TyName, String "e" ds)]
  | ESigned cap neg ds =>
      [(TyName, if cap then "E" else "e"); (TyOp, if neg then "-" else "+"); (TyNumber, ds)]
  end.
Definition e_text (e : estyle) : string :=
  match e with
  | ENone => ""
  | EDigits ds => String "e" ds
  | ESigned _ neg ds => String "e" (String (if neg then "-" else "+")%char ds)
  end.
Definition render_unc (n : ninst) : list core :=
  match n_style n with
  | SParen minus =>
      app ((TyOp, "(") :: (if minus then [(TyOp, "-")] else []))
          (app [n_v n; (TyOp, "+"); (TyOp, "/"); (TyOp, "-"); n_u n; (TyOp, ")")] (render_e (n_e n)))
  | SShort => app [n_v n; (TyOp, "("); n_u n; (TyOp, ")")] (render_e (n_e n))
  end.

(** tokens with given cores at arbitrary positions *)
Definition mk (c : core) (p : pos * pos) : utok := UTok c.1 c.2 p.1 p.2.
Definition place (cs : list core) (ps : list (pos * pos)) : list utok := zip_with mk cs ps.

(** well-formed instances: decimal literals (or nan inside the parenthesised form), digit
    exponents; for [v(u)] the rewritten uncertainty text must again be a decimal literal *)
Definition lit_text_ok (s : string) : bool :=
  match float_of_text s with Some _ => true | None => false end.
Definition lit_ok (nan_ok : bool) (c : core) : bool :=
  match c.1 with
  | TyNumber => lit_text_ok c.2
  | TyName => nan_ok && String.eqb c.2 "nan"
  | _ => false
  end.
Definition exp_ok (e : estyle) : bool :=
  match e with ENone => true | EDigits ds | ESigned _ _ ds => nonempty_digits ds end.
Definition inst_ok (q : quirks) (n : ninst) : bool :=
  exp_ok (n_e n) &&
  match n_style n with
  | SParen _ => lit_ok true (n_v n) && lit_ok true (n_u n)
  | SShort => lit_ok false (n_v n) && lit_ok false (n_u n)
              && lit_text_ok (short_unc_text q (n_v n).2 (n_u n).2)
  end.
(** what may follow the notation: without an exponent the look-ahead on the rest of the input
    must find none (this is where the end of the input fails, F15); after a signed exponent
    whose digits are exactly "0" no NUMBER may follow (the leading-zero special case) *)
Definition follow_ok (q : quirks) (e : estyle) (rest : list utok) : bool :=
  match e with
  | ENone => bool_decide (get_possible_e q rest 0 = Ok None)
  | EDigits _ => true
  | ESigned _ _ ds =>
      negb (String.eqb ds "0") || match rest with t :: _ => negb (is_number t) | [] => false end
  end.

(** [_apply_e_notation] on cores: nan and zero mantissas stay as they are *)
Definition apply_core (e : estyle) (c : core) : core :=
  match e with
  | ENone => c
  | _ => if String.eqb c.2 "nan" then c
         else match float_of_text c.2 with
              | Some qv => if float_is_zero qv then c else (TyNumber, c.2 ++ e_text e)
              | None => c
              end
  end.
(** the statement of the property: [v·10^e ; +/- ; u·10^e] (after a leading "-") *)
Definition expected_cores (q : quirks) (n : ninst) : list core :=
  match n_style n with
  | SParen minus =>
      app (if minus then [(TyOp, "-")] else [])
          [apply_core (n_e n) (n_v n); (TyOp, "+/-"); apply_core (n_e n) (n_u n)]
  | SShort =>
      [apply_core (n_e n) (n_v n); (TyOp, "+/-");
       apply_core (n_e n) ((n_u n).1, short_unc_text q (n_v n).2 (n_u n).2)]
  end.

(** the decimal exponent an exponent style denotes *)
Definition digits_value (s : string) : Z := (read_digits s 0%Z 0%Z).1.1.
Definition e_value (e : estyle) : Z :=
  match e with
  | ENone => 0%Z
  | EDigits ds => digits_value ds
  | ESigned _ neg ds => if neg then (- digits_value ds)%Z else digits_value ds
  end.
