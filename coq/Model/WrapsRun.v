(** Model/WrapsRun.v — correspondence cases for [wraps]/[check]: each case carries what the
    real decorators did (observed arguments, returned object or error class); [c17_ok] says
    whether the model agrees.  The unit table below is written by hand (independent of pint's
    definition files): only the units the harness generates (offset units: degC 273.15 = 5463/20, degF 5/9 and 459.67*5/9 = 45967/180). *)
From PintV Require Import Model.UC Model.Wraps.
Open Scope string_scope.

Definition dimL : uc := mkuc [("[length]", mkq 1 1)].
Definition dimT : uc := mkuc [("[time]", mkq 1 1)].
Definition dimM : uc := mkuc [("[mass]", mkq 1 1)].
Definition dimV : uc := mkuc [("[length]", mkq 1 1); ("[time]", mkq (-1) 1)].
Definition dimF : uc := mkuc [("[length]", mkq 1 1); ("[mass]", mkq 1 1); ("[time]", mkq (-2) 1)].
Definition dimVol : uc := mkuc [("[length]", mkq 3 1)].
Definition dimHz : uc := mkuc [("[time]", mkq (-1) 1)].
Definition dimTh : uc := mkuc [("[temperature]", mkq 1 1)].

Definition std_entries : list (string * uinfo) :=
  [ ("meter", UI (mkq 1 1) dimL); ("m", UI (mkq 1 1) dimL); ("metre", UI (mkq 1 1) dimL);
    ("centimeter", UI (mkq 1 100) dimL); ("cm", UI (mkq 1 100) dimL);
    ("millimeter", UI (mkq 1 1000) dimL); ("mm", UI (mkq 1 1000) dimL);
    ("kilometer", UI (mkq 1000 1) dimL); ("km", UI (mkq 1000 1) dimL);
    ("inch", UI (mkq 127 5000) dimL); ("foot", UI (mkq 381 1250) dimL); ("ft", UI (mkq 381 1250) dimL);
    ("yard", UI (mkq 1143 1250) dimL); ("mile", UI (mkq 201168 125) dimL);
    ("second", UI (mkq 1 1) dimT); ("s", UI (mkq 1 1) dimT);
    ("millisecond", UI (mkq 1 1000) dimT); ("ms", UI (mkq 1 1000) dimT);
    ("minute", UI (mkq 60 1) dimT); ("min", UI (mkq 60 1) dimT);
    ("hour", UI (mkq 3600 1) dimT); ("h", UI (mkq 3600 1) dimT); ("day", UI (mkq 86400 1) dimT);
    ("kilogram", UI (mkq 1 1) dimM); ("kg", UI (mkq 1 1) dimM);
    ("gram", UI (mkq 1 1000) dimM); ("g", UI (mkq 1 1000) dimM);
    ("pound", UI (mkq 45359237 100000000) dimM); ("lb", UI (mkq 45359237 100000000) dimM);
    ("newton", UI (mkq 1 1) dimF); ("N", UI (mkq 1 1) dimF);
    ("hertz", UI (mkq 1 1) dimHz); ("Hz", UI (mkq 1 1) dimHz);
    ("liter", UI (mkq 1 1000) dimVol); ("l", UI (mkq 1 1000) dimVol);
    ("knot", UI (mkq 463 900) dimV);
    ("radian", UI (mkq 1 1) ∅); ("rad", UI (mkq 1 1) ∅); ("count", UI (mkq 1 1) ∅);
    ("kelvin", UI (mkq 1 1) dimTh); ("K", UI (mkq 1 1) dimTh);
    ("degree_Celsius", UIo (mkq 1 1) (mkq 5463 20) dimTh); ("degC", UIo (mkq 1 1) (mkq 5463 20) dimTh);
    ("celsius", UIo (mkq 1 1) (mkq 5463 20) dimTh);
    ("degree_Fahrenheit", UIo (mkq 5 9) (mkq 45967 180) dimTh); ("degF", UIo (mkq 5 9) (mkq 45967 180) dimTh);
    ("fahrenheit", UIo (mkq 5 9) (mkq 45967 180) dimTh);
    ("[temperature]", UI (mkq 1 1) dimTh);
    ("[length]", UI (mkq 1 1) dimL); ("[time]", UI (mkq 1 1) dimT); ("[mass]", UI (mkq 1 1) dimM);
    ("[speed]", UI (mkq 1 1) dimV); ("[velocity]", UI (mkq 1 1) dimV); ("[force]", UI (mkq 1 1) dimF);
    ("[volume]", UI (mkq 1 1) dimVol); ("[frequency]", UI (mkq 1 1) dimHz) ].
Definition std_table : table := list_to_map std_entries.
Definition std_sys : unitsys := table_sys std_table.

(** Python objects as the harness saw them.  [fl]: the Python type was float (the value is
    the exact rational value of that float). *)
Inductive pobj :=
| PNum (x : Qc) (fl : bool)
| PQty (x : Qc) (fl : bool) (u : uc)
| PNoneObj
| PTuple (l : list pobj).

(** |x - m| <= 1e-12 |m| *)
Definition qabs (x : Qc) : Qc := if qneg x then (- x)%Qc else x.
Definition qleb (x y : Qc) : bool := negb (qneg (y - x)%Qc).
Definition close (x m : Qc) : bool :=
  qleb (qabs (x - m)%Qc * mkq 1000000000000 1)%Qc (qabs m).

Definition val_ok (v : value) (o : pobj) : bool :=
  match v, o with
  | VNum m, PNum x false => bool_decide (x = m)
  | VApx m, PNum x _ => close x m
  | VQty m u, PQty x false u' => bool_decide (x = m) && uc_eqb u u'
  | _, _ => false
  end.
Fixpoint list_ok {A B} (f : A → B → bool) (l : list A) (k : list B) : bool :=
  match l, k with
  | [], [] => true
  | a :: l', b :: k' => f a b && list_ok f l' k'
  | _, _ => false
  end.
Definition oval_ok (v : oval) (o : pobj) : bool :=
  match v, o with
  | OVal v, _ => val_ok v o
  | OMissing, PNoneObj => true
  | _, _ => false
  end.
Definition wres_ok (r : wres) (o : pobj) : bool :=
  match r, o with
  | WRaw (FScalar v), _ => val_ok v o
  | WRaw (FTuple l), PTuple k => list_ok val_ok l k
  | WQty v, _ => val_ok v o
  | WTuple l, PTuple k => list_ok oval_ok l k
  | _, _ => false
  end.

(** what happened in the implementation *)
Inductive wout :=
| WDecorErr (e : werr)                                (* raised by wraps(...)(func) *)
| WCallErr (e : werr) (seen : option (list pobj))     (* raised by the call; arguments the
                                                         function saw if it was reached *)
| WDone (seen : list pobj) (result : pobj).
Inductive cout :=
| CDecorErr (e : werr)
| CCallErr (e : werr)
| CDone (seen : list pobj).

Inductive c17case :=
| KWraps (Q : quirks) (strict : bool) (specs : list spec) (ret : retspec)
    (ps : list param) (fr : fres) (pos : list value) (kw : list (string * value)) (o : wout)
| KCheck (dspecs : list (option uc)) (ps : list param) (pos : list value)
    (kw : list (string * value)) (o : cout)
| KConv (a b : uc) (m : Qc) (r : res Qc)       (* the hand-written table against to() *)
| KDim (a : uc) (r : res uc).

Definition werr_eqb (a b : werr) : bool := bool_decide (a = b).

Definition c17_ok (c : c17case) : bool :=
  match c with
  | KWraps Q strict specs ret ps fr pos kw o =>
      let kwm : gmap string value := list_to_map kw in
      match wraps_decorate specs ps, o with
      | Err e, WDecorErr e' => werr_eqb e e'
      | Ok cl, WDone seen result =>
          match wraps_observed std_sys Q strict cl ps pos kwm,
                wraps_call std_sys Q strict cl ret ps (λ _, fr) pos kwm with
          | Ok obs, Ok r => list_ok val_ok obs seen && wres_ok r result
          | _, _ => false
          end
      | Ok cl, WCallErr e seen =>
          match wraps_call std_sys Q strict cl ret ps (λ _, fr) pos kwm with
          | Err e' =>
              werr_eqb e e' &&
              match wraps_observed std_sys Q strict cl ps pos kwm, seen with
              | Ok obs, Some s => list_ok val_ok obs s
              | Err _, None => true
              | _, _ => false
              end
          | Ok _ => false
          end
      | _, _ => false
      end
  | KCheck dspecs ps pos kw o =>
      let kwm : gmap string value := list_to_map kw in
      match check_decorate std_sys dspecs ps, o with
      | Err e, CDecorErr e' => werr_eqb e e'
      | Ok ds, CCallErr e =>
          match check_call std_sys ds ps pos kwm with Err e' => werr_eqb e e' | _ => false end
      | Ok ds, CDone seen =>
          match check_call std_sys ds ps pos kwm with
          | Ok obs => list_ok val_ok obs seen | _ => false end
      | _, _ => false
      end
  | KConv a b m r =>
      match table_conv std_table a b m, r with
      | Ok x, Ok y => bool_decide (x = y)
      | Err e, Err e' => werr_eqb e e'
      | _, _ => false
      end
  | KDim a r =>
      match table_dim std_table a, r with
      | Ok x, Ok y => uc_eqb x y
      | Err e, Err e' => werr_eqb e e'
      | _, _ => false
      end
  end.
