(** Proofs/BaseUnitsProofs.v — the full soundness of [_get_base_units] / [to_base_units] under a
    system (C14): same root units, same dimensionality, value preserved, idempotent.  Built on the
    registry libraries RootProofs (root units of products and powers), FactorProofs (value of
    conversion factors) and RewriteProofs ([reg_ok], root units have the unit's dimensionality). *)
From PintV Require Import Model.UC Model.Eval Model.Registry Model.Groups Model.Systems.
From PintV Require Import Proofs.UCProofs Proofs.RegistryProofs Proofs.RootProofs Proofs.FactorProofs
  Proofs.RewriteProofs Proofs.SystemsProofs.
From PintV Require Import Gen.DefaultDefs Gen.DefaultReg.
Open Scope string_scope.
Arguments root_of : simpl never.
Arguments conv_factor : simpl never.
Arguments dim_of : simpl never.
Arguments substitute : simpl never.
Arguments base_units_in : simpl never.

(** * Root containers mention base-unit names only *)
Definition base_name (r : reg) (j : string) : Prop :=
  ∃ s d, resolve r s = Ok d ∧ u_base d = true ∧ u_name d = j.

Lemma sem_list2_keysB (P : string → Prop) row l : ∀ F B,
  (∀ k Fk Bk, row k = Some (Fk, Bk) → ∀ j, is_Some (Bk !! j) → P j) →
  sem_list2 row l = Some (F, B) → ∀ j, is_Some (B !! j) → P j.
Proof.
  induction l as [|[k v] l IH]; intros F B Hrow H j Hj; simpl in H.
  - injection H as <- <-. rewrite lookup_empty in Hj. destruct Hj; discriminate.
  - destruct (row k) as [[Fk Bk]|] eqn:Ek; simpl in H; [|discriminate].
    destruct (sem_list2 row l) as [[F' B']|] eqn:El; simpl in H; [|discriminate]. injection H as <- <-.
    apply uc_mul_dom in Hj as [Hj|Hj].
    + apply uc_pow_dom in Hj. eapply Hrow; eassumption.
    + eapply IH; [exact Hrow|reflexivity|exact Hj].
Qed.
Lemma root_row_keys r : ∀ g k F B, root_row g r k = Some (F, B) → ∀ j, is_Some (B !! j) → base_name r j.
Proof.
  induction g as [|g IH]; intros k F B H j Hj;
    (destruct (resolve r k) as [d|er] eqn:Er; [|rewrite (root_row_err _ _ _ _ Er) in H; discriminate]);
    destruct (u_base d) eqn:Hb.
  - rewrite (root_row_base _ _ _ _ Er Hb) in H. injection H as <- <-.
    destruct (decide (j = u_name d)) as [->|N]; [exists k, d; auto|].
    rewrite lookup_singleton_ne in Hj by congruence. destruct Hj; discriminate.
  - rewrite (root_row_nonbase_0 _ _ _ Er Hb) in H. discriminate.
  - rewrite (root_row_base _ _ _ _ Er Hb) in H. injection H as <- <-.
    destruct (decide (j = u_name d)) as [->|N]; [exists k, d; auto|].
    rewrite lookup_singleton_ne in Hj by congruence. destruct Hj; discriminate.
  - rewrite (root_row_nonbase _ _ _ _ Er Hb) in H.
    destruct (sem_list2 (root_row g r) (map_to_list (u_ref d))) as [[DF DB]|] eqn:E; [|discriminate].
    injection H as <- <-. eapply (sem_list2_keysB (base_name r)); [|exact E|exact Hj]. exact IH.
Qed.
Lemma rsem_keys r a F B : rsem r a = Some (F, B) → ∀ j, is_Some (B !! j) → base_name r j.
Proof.
  intros H j Hj. eapply (sem_list2_keysB (base_name r)); [|exact H|exact Hj].
  intros k Fk Bk Hk. apply (root_row_keys r 63 k Fk Bk Hk).
Qed.
(** … and a base-unit name is its own root unit *)
Lemma rrow_base_name r j : reg_ok r → base_name r j → rrow r j = Some (∅, {[ j := 1%Qc ]}).
Proof.
  intros Hok (s & d & Hr & Hb & <-).
  destruct (rk_base_self r Hok s d Hr Hb) as (_ & d' & Hr' & Hb' & Hn' & _).
  unfold rrow. rewrite (root_row_base 63 r (u_name d) d' Hr' Hb'), Hn'. reflexivity.
Qed.
Lemma rsem_singleton r k v F B : v ≠ 0%Qc → rrow r k = Some (F, B) → rsem r {[ k := v ]} = Some (uc_pow F v, uc_pow B v).
Proof.
  intros Hv H. unfold rsem. rewrite map_to_list_singleton. simpl. rewrite H. simpl.
  rewrite !uc_mul_empty_r. reflexivity.
Qed.

(** * The substitution, seen through root units *)
(** what replaces the root unit [k] raised to [v] *)
Definition subst_term (bu : gmap string uc) (kv : string * Qc) : uc :=
  match bu !! kv.1 with Some new => uc_pow new kv.2 | None => {[ kv.1 := kv.2 ]} end.
Lemma substitute_fold bu B :
  substitute bu B = fold_left (λ dest kv, uc_mul dest (subst_term bu kv)) (map_to_list B) ∅.
Proof.
  unfold substitute. generalize (∅ : uc). induction (map_to_list B) as [|kv l IH]; intros acc; simpl; [reflexivity|].
  rewrite IH. f_equal. unfold subst_term. destruct (bu !! kv.1); reflexivity.
Qed.
(** every replacement solves its rule: its root units are the replaced root unit *)
Definition table_solves (r : reg) (s : system) : Prop :=
  ∀ o rep, s_base s !! o = Some rep → ∃ Fr, rsem r rep = Some (Fr, {[ o := 1%Qc ]}).

Lemma fold_rsem r (term : string * Qc → uc) l : ∀ acc Fa Ba,
  rsem r acc = Some (Fa, Ba) →
  (∀ kv, kv ∈ l → ∃ Fk, rsem r (term kv) = Some (Fk, uc_pow {[ kv.1 := 1%Qc ]} kv.2)) →
  ∃ F', rsem r (fold_left (λ dest kv, uc_mul dest (term kv)) l acc)
        = Some (F', fold_left (λ b kv, uc_mul b (uc_pow {[ kv.1 := 1%Qc ]} kv.2)) l Ba).
Proof.
  induction l as [|kv l IH]; intros acc Fa Ba Ha Hl; simpl; [eauto|].
  destruct (Hl kv) as [Fk Hk]; [left|].
  apply (IH _ _ _ (rsem_mul r acc (term kv) Fa Ba Fk _ Ha Hk)).
  intros kv' Hin. apply Hl. right. exact Hin.
Qed.
Lemma fold_singletons_exp l : ∀ (b : uc) j,
  exp_of (fold_left (λ b kv, uc_mul b (uc_pow {[ kv.1 := 1%Qc ]} kv.2)) l b) j
  = (exp_of b j + lsumw (λ k, if decide (k = j) then 1%Qc else 0%Qc) l)%Qc.
Proof.
  induction l as [|[k v] l IH]; intros b j; simpl; [ring|].
  rewrite IH, exp_of_mul, exp_of_pow, exp_of_singleton. simpl. ring.
Qed.
Lemma msum_indicator (B : uc) j : msum (λ k, if decide (k = j) then 1%Qc else 0%Qc) B = exp_of B j.
Proof.
  induction B as [|i x B Hi IH] using map_ind.
  - rewrite msum_empty. unfold exp_of. rewrite lookup_empty. reflexivity.
  - rewrite msum_insert by assumption. rewrite IH. unfold exp_of.
    destruct (decide (i = j)) as [->|N].
    + rewrite lookup_insert, Hi. simpl. ring.
    + rewrite lookup_insert_ne by assumption. ring.
Qed.
Lemma fold_singletons (B : uc) :
  UC.wf B → fold_left (λ b kv, uc_mul b (uc_pow {[ kv.1 := 1%Qc ]} kv.2)) (map_to_list B) ∅ = B.
Proof.
  intros W. apply uc_ext; [|exact W|].
  - generalize (wf_empty). generalize (∅ : uc). induction (map_to_list B) as [|kv l IH]; intros b Wb; simpl; [exact Wb|].
    apply IH. apply wf_mul. exact Wb.
  - intros j. rewrite fold_singletons_exp, <- msum_list, msum_indicator. unfold exp_of at 1. rewrite lookup_empty. simpl. ring.
Qed.

(** the root units of the substituted container are the root units it was built from *)
Theorem substitute_root_units r s a Fa B :
  reg_ok r → table_solves r s → rsem r a = Some (Fa, B) →
  ∃ Fd, rsem r (substitute (s_base s) B) = Some (Fd, B).
Proof.
  intros Hok HT Ha. destruct (rsem_wf _ _ _ _ Ha) as [_ WB].
  rewrite substitute_fold.
  destruct (fold_rsem r (subst_term (s_base s)) (map_to_list B) ∅ ∅ ∅ (rsem_empty r)) as [Fd Hd].
  - intros [k v] Hin. apply elem_of_map_to_list in Hin. unfold subst_term. simpl.
    assert (Hv : v ≠ 0%Qc) by (eapply wf_lookup; eassumption).
    destruct (s_base s !! k) as [rep|] eqn:E.
    + destruct (HT k rep E) as [Fr Hr]. eexists. apply rsem_pow. exact Hr.
    + assert (Hb : base_name r k) by (eapply rsem_keys; [exact Ha|eauto]).
      eexists. rewrite (rsem_singleton r k v ∅ {[ k := 1%Qc ]} Hv (rrow_base_name r k Hok Hb)). reflexivity.
  - exists Fd. rewrite Hd. f_equal. f_equal. apply fold_singletons. exact WB.
Qed.

(** a root container is its own root container, with no factor *)
Lemma msum_zero (a : uc) : msum (λ _, 0%Qc) a = 0%Qc.
Proof.
  induction a as [|i x a Hi IH] using map_ind; [apply msum_empty|]. rewrite msum_insert by assumption. rewrite IH. ring.
Qed.
Lemma exp_of_empty j : exp_of ∅ j = 0%Qc.
Proof. unfold exp_of. rewrite lookup_empty. reflexivity. Qed.
Lemma rsem_root_fixed r a Fa B : reg_ok r → rsem r a = Some (Fa, B) → rsem r B = Some (∅, B).
Proof.
  intros Hok Ha. destruct (rsem_wf _ _ _ _ Ha) as [_ WB].
  assert (Hrow : ∀ k, is_Some (B !! k) → rrow r k = Some (∅, {[ k := 1%Qc ]})).
  { intros k Hk. apply rrow_base_name; [exact Hok|]. eapply rsem_keys; eassumption. }
  destruct (rsem_is_Some r B) as [[F' B'] H]; [intros k Hk; rewrite (Hrow k Hk); eauto|].
  rewrite H. destruct (rsem_wf _ _ _ _ H) as [WF' WB']. f_equal. f_equal.
  - apply uc_ext; [exact WF'|apply wf_empty|]. intros j. rewrite (proj1 (rsem_exp _ _ _ _ j H)), exp_of_empty.
    rewrite <- (msum_zero B). apply msum_ext. intros k Hk. unfold rowF. rewrite (Hrow k Hk). simpl. apply exp_of_empty.
  - apply uc_ext; [exact WB'|exact WB|]. intros j. rewrite (proj2 (rsem_exp _ _ _ _ j H)), <- msum_indicator.
    apply msum_ext. intros k Hk. unfold rowB. rewrite (Hrow k Hk). simpl. rewrite exp_of_singleton. reflexivity.
Qed.

(** * Soundness of [_get_base_units] under a system *)
(** units: the answer has the root units of the input, hence (dimensionality being a function of the
    root units) its dimensionality *)
Theorem base_units_root_units r s a f ex dest :
  reg_ok r → table_solves r s → base_units_in r s a = Ok (f, ex, dest) →
  ∃ fu B exu Fa Fd,
    root_of r a = Ok (fu, B, exu) ∧ dest = substitute (s_base s) B
    ∧ rsem r a = Some (Fa, B) ∧ rsem r dest = Some (Fd, B)
    ∧ ∀ d, nodim a → dim_of r a = Ok d → dim_of r dest = Ok d.
Proof.
  intros Hok HT HB.
  destruct (root_of r a) as [[[fu B] exu]|e] eqn:HR; [|unfold base_units_in in HB; rewrite HR in HB; discriminate].
  rewrite (base_units_in_unfold r s a fu B exu HR) in HB.
  destruct (conv_factor r B (substitute (s_base s) B)) as [[c exc]|e] eqn:EC; [|discriminate].
  injection HB as <- <- <-.
  destruct (root_of_sem _ _ _ _ _ HR) as (Fa & Ha & _).
  destruct (substitute_root_units r s a Fa B Hok HT Ha) as [Fd Hd].
  exists fu, B, exu, Fa, Fd. repeat split; try assumption; try reflexivity.
  intros d Hnd Hda. destruct (root_units_dim r a Fa B d Hok Hnd Ha Hda) as [HdB _].
  destruct (conv_factor_Ok_dims _ _ _ _ EC) as (ds & dd & E1 & E2).
  pose proof (conv_factor_number_only_if_same_dim r B _ ds dd _ E1 E2 EC) as <-. congruence.
Qed.

(** value: with exact factors ([F] integral over rational generators) the factor returned is the ratio
    of the root factors, i.e. [f · ⟦dest⟧ = ⟦a⟧] *)
Theorem base_units_value r s a f ex dest Fa B Fd B' :
  reg_nz r → reg_ok r → table_solves r s →
  base_units_in r s a = Ok (f, ex, dest) →
  exact_unit r a Fa B → exact_unit r dest Fd B' →
  B' = B ∧ f = Some (mprod (gscale r) Fa / mprod (gscale r) Fd)%Qc
  ∧ (mprod (gscale r) Fa / mprod (gscale r) Fd * mprod (gscale r) Fd = mprod (gscale r) Fa)%Qc.
Proof.
  intros Hnz Hok HT HB (Ha & Ia & Ga) (Hd & Id & Gd).
  destruct (base_units_root_units r s a f ex dest Hok HT HB) as (fu & B0 & exu & Fa0 & Fd0 & HR & -> & Ha0 & Hd0 & _).
  rewrite Ha in Ha0. injection Ha0 as <- <-. rewrite Hd in Hd0. injection Hd0 as <- ->.
  split; [reflexivity|].
  assert (Hnz' : mprod (gscale r) Fd ≠ 0%Qc) by (apply mprod_neq0, gscale_nz, Hnz).
  split; [|field; exact Hnz'].
  rewrite (base_units_in_unfold r s a fu B exu HR) in HB.
  destruct (conv_factor r B (substitute (s_base s) B)) as [[c exc]|e] eqn:EC; [|discriminate].
  injection HB as <- _.
  (* the root factor *)
  destruct (root_of_from_sem _ _ _ _ _ Ha (eval_factor_exact r Fa Hnz Ga Ia)) as [ex0 HR0].
  rewrite HR in HR0. injection HR0 as -> _.
  (* the conversion root units -> answer *)
  destruct (rsem_wf _ _ _ _ Ha) as [_ WB].
  destruct (conv_factor_Ok_dims _ _ _ _ EC) as (ds & dd & E1 & E2).
  pose proof (conv_factor_number_only_if_same_dim r B _ ds dd _ E1 E2 EC) as <-.
  destruct (conv_factor_value r B (substitute (s_base s) B) ∅ B Fd B ds Hnz WB
              (exact_unit_root r B (rsem_root_fixed r a Fa B Hok Ha)) (conj Hd (conj Id Gd)) E1 E2) as [e' EC'].
  rewrite EC in EC'. injection EC' as -> _. f_equal. rewrite mprod_empty. field. exact Hnz'.
Qed.

(** idempotence: asking for the base units of the answer returns the answer with factor 1 *)
Theorem base_units_idempotent r s a f ex dest Fd B' :
  reg_nz r → reg_ok r → table_solves r s →
  base_units_in r s a = Ok (f, ex, dest) → exact_unit r dest Fd B' →
  ∃ ex', base_units_in r s dest = Ok (Some 1%Qc, ex', dest).
Proof.
  intros Hnz Hok HT HB (Hd & Id & Gd).
  destruct (base_units_root_units r s a f ex dest Hok HT HB) as (fu & B & exu & Fa & Fd0 & HR & Hdest & Ha & Hd0 & _).
  rewrite Hd in Hd0. injection Hd0 as <- ->.
  destruct (root_of_from_sem _ _ _ _ _ Hd (eval_factor_exact r Fd Hnz Gd Id)) as [ex0 HRd].
  rewrite (base_units_in_unfold r s dest _ B ex0 HRd). rewrite <- Hdest.
  rewrite (base_units_in_unfold r s a fu B exu HR), <- Hdest in HB.
  destruct (conv_factor r B dest) as [[c exc]|e] eqn:EC; [|discriminate].
  destruct (rsem_wf _ _ _ _ Ha) as [_ WB].
  destruct (conv_factor_Ok_dims _ _ _ _ EC) as (ds & dd & E1 & E2).
  pose proof (conv_factor_number_only_if_same_dim r B _ ds dd _ E1 E2 EC) as <-.
  destruct (conv_factor_value r B dest ∅ B Fd B ds Hnz WB
              (exact_unit_root r B (rsem_root_fixed r a Fa B Hok Ha)) (conj Hd (conj Id Gd)) E1 E2) as [e' EC'].
  rewrite EC in EC'. injection EC' as -> _. exists (ex0 && exc). f_equal. f_equal. f_equal. f_equal.
  rewrite mprod_empty. field. apply mprod_neq0, gscale_nz, Hnz.
Qed.

(** [Quantity.to_base_units]: the magnitude is multiplied by the conversion factor input -> answer, which
    is the ratio of the root factors: the physical value [m · ⟦a⟧] is preserved *)
Theorem to_base_units_value r s a f ex dest Fa B Fd B' c e :
  reg_nz r → UC.wf a →
  base_units_in r s a = Ok (f, ex, dest) →
  exact_unit r a Fa B → exact_unit r dest Fd B' →
  conv_factor r a dest = Ok (Some c, e) →
  ∀ m : Qc, (m * c * mprod (gscale r) Fd = m * mprod (gscale r) Fa)%Qc.
Proof.
  intros Hnz Wa HB Ea Ed EC m.
  destruct (conv_factor_Ok_dims _ _ _ _ EC) as (ds & dd & E1 & E2).
  pose proof (conv_factor_number_only_if_same_dim r a _ ds dd _ E1 E2 EC) as <-.
  destruct (conv_factor_value r a dest Fa B Fd B' ds Hnz Wa Ea Ed E1 E2) as [e' EC'].
  rewrite EC in EC'. injection EC' as -> _. field. apply mprod_neq0, gscale_nz, Hnz.
Qed.

(** * Decidable side condition on a system, and where it comes from *)
Definition table_solvesb (r : reg) (s : system) : bool :=
  forallb (λ kv : string * uc,
             match root_sym r kv.2 with Ok acc => uc_eqb (ra_B acc) {[ kv.1 := 1%Qc ]} | Err _ => false end)
          (map_to_list (s_base s)).
Lemma table_solvesb_spec r s : table_solvesb r s = true → table_solves r s.
Proof.
  unfold table_solvesb. rewrite forallb_forall. intros H o rep E.
  specialize (H (o, rep)). simpl in H. destruct (root_sym r rep) as [acc|] eqn:ER.
  - exists (ra_F acc). rewrite (root_sym_Ok r rep acc ER). f_equal. f_equal. apply uc_eqb_spec. apply H.
    apply elem_of_list_In, elem_of_map_to_list, E.
  - discriminate H. apply elem_of_list_In, elem_of_map_to_list, E.
Qed.
(** the single form of a rule ([new]) always yields a replacement that solves it *)
Lemma rule_single_solves_rsem qk r new o rep :
  rule_entry qk r new None = Ok (o, rep) → ∃ Fr, rsem r rep = Some (Fr, {[ o := 1%Qc ]}).
Proof.
  intros H. destruct (rule_entry_single_solves qk r new o rep H) as (fn & exn & v & HR & -> & Hpow).
  destruct (root_of_sem _ _ _ _ _ HR) as (Fn & Hn & _). destruct (rsem_wf _ _ _ _ Hn) as [_ WB].
  assert (Hv : v ≠ 0%Qc) by (apply (wf_lookup {[ o := v ]} o v WB); apply lookup_singleton).
  exists (uc_pow Fn (1 / v)%Qc). rewrite <- (Hpow Hv).
  assert (E : ({[ new := (1 / v)%Qc ]} : uc) = uc_pow {[ new := 1%Qc ]} (1 / v)%Qc).
  { apply uc_ext; [apply wf_singleton|apply wf_pow|].
    - intros E0. assert (X : (1 / v * v = 1)%Qc) by (field; exact Hv). rewrite E0 in X.
      replace (0 * v)%Qc with 0%Qc in X by ring. discriminate X.
    - intros k. rewrite exp_of_pow, !exp_of_singleton. destruct (decide (new = k)); ring. }
  rewrite E. apply rsem_pow. exact Hn.
Qed.

(** * The side conditions on the registry and the systems regenerated from /repo *)
Definition default_side_ok : bool :=
  reg_nzb default_reg && reg_okb default_reg
  && forallb (λ ks : string * system, table_solvesb default_reg ks.2) (map_to_list (ss_systems default_state)).
(** one instance of the per-unit hypotheses: foot under cgs *)
Definition default_foot_cgs_ok : bool :=
  let a : uc := {[ "foot" := 1%Qc ]} in
  match ss_systems default_state !! "cgs" with
  | Some s =>
      match base_units_in default_reg s a with
      | Ok (Some f, _, dest) =>
          wfb a && nodimb a && exact_unitb default_reg a && exact_unitb default_reg dest
          && bool_decide (f = mkq 762 25) && uc_eqb dest {[ "centimeter" := 1%Qc ]}
      | _ => false
      end
  | None => false
  end.
