(** Proofs/CacheProofs.v — C13: caches are transparent (invariant by induction), what [define]
    conserves, and isolation of registries. *)
From Coq Require Import Ascii String.
From stdpp Require Import gmap strings list.
From PintV Require Import Model.UC Model.Eval Model.Registry Model.Cache.
From PintV Require Import Proofs.UCProofs Proofs.RegistryProofs Proofs.RootProofs Proofs.FactorProofs.
Open Scope string_scope.

(** * Association lists *)
Section assoc.
  Context {K V : Type} `{EqDecision K}.
  Lemma alookup_cons (k k' : K) (v : V) l :
    alookup k ((k', v) :: l) = if decide (k = k') then Some v else alookup k l.
  Proof. reflexivity. Qed.
  Lemma alookup_adelete (k k' : K) (l : list (K * V)) :
    alookup k (adelete k' l) = if decide (k = k') then None else alookup k l.
  Proof.
    induction l as [|[k0 v0] l IH]; simpl.
    - destruct (decide (k = k')); reflexivity.
    - destruct (bool_decide (k' = k0)) eqn:E; simpl.
      + apply bool_decide_eq_true in E. subst k0. rewrite IH.
        destruct (decide (k = k')); reflexivity.
      + apply bool_decide_eq_false in E. rewrite IH.
        destruct (decide (k = k0)) as [->|N]; [|reflexivity].
        destruct (decide (k0 = k')); [congruence | reflexivity].
  Qed.
  Lemma alookup_ainsert (k k' : K) (v : V) l :
    alookup k (ainsert k' v l) = if decide (k = k') then Some v else alookup k l.
  Proof.
    unfold ainsert. rewrite alookup_cons, alookup_adelete.
    destruct (decide (k = k')); reflexivity.
  Qed.
  Lemma ainsert_inv (P : K → V → Prop) k v l :
    P k v → (∀ k' v', alookup k' l = Some v' → P k' v') →
    ∀ k' v', alookup k' (ainsert k v l) = Some v' → P k' v'.
  Proof.
    intros Hk Hl k' v'. rewrite alookup_ainsert. destruct (decide (k' = k)) as [->|N]; [|auto].
    intros [= <-]. exact Hk.
  Qed.
End assoc.

(** * The quirk / guard under which the invariant theorem holds.
    F3 has no operation-level guard (it is C08's subject): the theorem is stated for registries
    whose lazily built definitions are invisible to name parsing.  F100, F102 and F101 are
    guarded per operation by [op_guard]: with the quirk present the theorem excludes exactly
    [get_base_units(…, system=…)], [default_system = None] and in-place [*=].  F7, F9 and F103
    concern [define] and redefining contexts, which are outside the alphabet. *)
Definition sane (qk : quirks) : Prop := q_lazy_visible qk = false.
Definition op_guard (qk : quirks) (o : op) : bool :=
  match o with
  | OBase _ (Some _) => negb (q_bcache_sysarg qk)
  | OSetSystem None => negb (q_bcache_none_keeps qk)
  | OQImul _ => negb (q_objdim_stale qk)
  | _ => true
  end.

(** * The invariant: every memo entry is the pure function at the CURRENT declarative state *)
Record inv0 (tk : string → option (list (string * Qc))) (d : decl) (s : cstate) : Prop := Inv0 {
  inv_decl : c_decl s = d;
  inv_nored : has_redefs d = false;
  inv_base : c_base s = d_reg d;
  inv_sys : c_systems s = d_systems d;
  inv_dim : ∀ u v, alookup u (c_dim s) = Some v → dim_of (d_reg d) u = Ok v;
  inv_root : ∀ u v, alookup u (k_root (c_cache0 s)) = Some v → root_ans (d_reg d) u = Ok v;
  inv_conv : ∀ k v, alookup k (k_conv (c_cache0 s)) = Some v → conv_ans (d_reg d) k.1 k.2 = Ok v;
  inv_parse : ∀ t v, alookup t (c_parse s) = Some v → parse_pure tk (d_reg d) t = Ok v;
  inv_dimeq : ∀ dm, default [] (alookup dm (c_dimeq s)) = compat_pure (d_reg d) dm;
  inv_bcache : ∀ u v, alookup u (c_bcache s) = Some v →
                      base_ans (d_systems d) (d_reg d) (d_default d) u = Ok v }.
Definition obj_ok (d : decl) (s : cstate) : Prop :=
  match c_obj s, d_obj d with
  | None, None => True
  | Some um, Some u' => um.1 = u' ∧ ∀ v, um.2 = Some v → dim_of (d_reg d) um.1 = Ok v
  | _, _ => False
  end.
Definition inv tk (d : decl) (s : cstate) : Prop := inv0 tk d s ∧ obj_ok d s.
Definition cache_inv tk (s : cstate) : Prop := inv tk (c_decl s) s.

Lemma has_redefs_no d : has_redefs d = false → active_redefs d = [].
Proof.
  unfold has_redefs, active_redefs. intros H.
  assert (A : ∀ c, c ∈ d_active d → ctx_redefs d c = []).
  { intros c Hc. apply elem_of_list_In in Hc.
    destruct (ctx_redefs d c) eqn:E; [reflexivity|].
    exfalso. assert (X : existsb (λ c, match ctx_redefs d c with [] => false | _ => true end) (d_active d) = true).
    { apply existsb_exists. exists c. rewrite E. auto. }
    congruence. }
  assert (B : ∀ l, (∀ c, c ∈ l → ctx_redefs d c = []) → concat (map (ctx_redefs d) l) = []).
  { induction l as [|c l IH]; intros Hl; [reflexivity|]. simpl.
    rewrite (Hl c) by left. simpl. apply IH. intros c' Hc'. apply Hl. right. exact Hc'. }
  apply B. intros c Hc. apply A. apply elem_of_list_In. apply elem_of_list_In in Hc.
  apply in_rev in Hc. exact Hc.
Qed.
Lemma pview_no d : has_redefs d = false → pview d = d_reg d.
Proof. intros H. unfold pview. rewrite (has_redefs_no d H). reflexivity. Qed.

Section getters.
  Context (tk : string → option (list (string * Qc))) (qk : quirks) (Hq : sane qk).

  Lemma view_inv d s : inv0 tk d s → view s = d_reg d.
  Proof.
    intros I. unfold view, layers. rewrite (inv_decl _ _ _ I), (inv_nored _ _ _ I).
    apply (inv_base _ _ _ I).
  Qed.
  Lemma cur_cache_inv d s : inv0 tk d s → cur_cache s = c_cache0 s.
  Proof. intros I. unfold cur_cache. rewrite (inv_decl _ _ _ I), (inv_nored _ _ _ I). reflexivity. Qed.
  Lemma upd_cache_inv d s f : inv0 tk d s → upd_cache f s = set_cache0 f s.
  Proof. intros I. unfold upd_cache. rewrite (inv_decl _ _ _ I), (inv_nored _ _ _ I). reflexivity. Qed.

  Lemma touch1_off s n : touch1 qk s n = s.
  Proof. unfold touch1. rewrite Hq. reflexivity. Qed.
  Lemma touch_off s u : touch qk s u = s.
  Proof.
    unfold touch. induction (map fst (map_to_list u)) as [|k l IH]; simpl; [reflexivity|].
    rewrite touch1_off. exact IH.
  Qed.

  (** Hoare-style specification of a memoised getter: the invariant is kept, the answer is the
      pure one, the tracked object is not touched *)
  Definition spec {A} (d : decl) (m : M A) (v : res A) : Prop :=
    ∀ s, inv0 tk d s → inv0 tk d (m s).1 ∧ (m s).2 = v ∧ c_obj (m s).1 = c_obj s.

  Lemma spec_ret {A} d (a : A) : spec d (mret a) (Ok a).
  Proof. intros s I. auto. Qed.
  Lemma spec_lift {A} d (x : res A) : spec d (mlift x) x.
  Proof. intros s I. auto. Qed.
  Lemma spec_bind {A B} d (m : M A) (f : A → M B) v (w : A → res B) :
    spec d m v → (∀ a, v = Ok a → spec d (f a) (w a)) → spec d (mbind m f) (rbind v w).
  Proof.
    intros Hm Hf s I. unfold mbind. destruct (Hm s I) as (I1 & E1 & O1).
    destruct (m s) as [s1 r1]. simpl in *. subst r1. destruct v as [a|e]; simpl.
    - destruct (Hf a eq_refl s1 I1) as (I2 & E2 & O2). split; [exact I2|]. split; [exact E2|]. congruence.
    - auto.
  Qed.
  Lemma spec_ext {A} d (m : M A) v v' : v = v' → spec d m v → spec d m v'.
  Proof. intros ->. auto. Qed.

  Lemma get_dim_spec d u : spec d (get_dim qk u) (dim_of (d_reg d) u).
  Proof.
    intros s I. unfold get_dim. destruct (bool_decide (u = ∅)) eqn:E.
    - apply bool_decide_eq_true in E. subst u. rewrite dim_of_empty. auto.
    - destruct (alookup u (c_dim s)) as [dv|] eqn:L.
      + simpl. rewrite (inv_dim _ _ _ I u dv L). auto.
      + rewrite touch_off, (view_inv d s I). destruct (dim_of (d_reg d) u) as [dv|e] eqn:Ed; simpl; [|auto].
        split; [|auto]. destruct I. constructor; simpl; auto.
        intros u' v'. destruct (decide (u' = u)) as [->|N]; [intros [= <-]; exact Ed | auto].
  Qed.

  Lemma get_root_spec d u : spec d (get_root qk u) (root_ans (d_reg d) u).
  Proof.
    intros s I. unfold get_root. rewrite (cur_cache_inv d s I).
    destruct (alookup u (k_root (c_cache0 s))) as [fu|] eqn:L.
    - simpl. rewrite (inv_root _ _ _ I u fu L). auto.
    - rewrite touch_off, (view_inv d s I). destruct (root_ans (d_reg d) u) as [fu|e] eqn:Er; simpl; [|auto].
      rewrite (upd_cache_inv d s _ I). split; [|auto]. destruct I. constructor; simpl; auto.
      intros u' v'. destruct (decide (u' = u)) as [->|N]; [intros [= <-]; exact Er | auto].
  Qed.

  Lemma get_conv_miss d src dst :
    spec d (ds ←m get_dim qk src; dd ←m get_dim qk dst;
            if negb (uc_eqb ds dd) then mlift (Err EDim)
            else x ←m get_root qk (uc_div src dst);
                 λ s', (upd_cache (λ c, Cache (k_root c) (((src, dst), x.1) :: k_conv c)) s', Ok x.1))
           (conv_ans (d_reg d) src dst).
  Proof.
    unfold conv_ans. apply spec_bind; [apply get_dim_spec|]. intros ds Hds.
    apply spec_bind; [apply get_dim_spec|]. intros dd Hdd.
    destruct (negb (uc_eqb ds dd)) eqn:Eq; [apply spec_lift|].
    apply spec_bind; [apply get_root_spec|]. intros x Hx.
    intros s I. simpl. rewrite (upd_cache_inv d s _ I). split; [|auto].
    destruct I. constructor; simpl; auto.
    intros k v. destruct (decide (k = (src, dst))) as [->|N]; [|auto].
    intros [= <-]. simpl. unfold conv_ans. rewrite Hds, Hdd. simpl. rewrite Eq, Hx. reflexivity.
  Qed.
  Lemma get_conv_spec d src dst : spec d (get_conv qk src dst) (conv_ans (d_reg d) src dst).
  Proof.
    intros s I. unfold get_conv. rewrite (cur_cache_inv d s I).
    destruct (alookup (src, dst) (k_conv (c_cache0 s))) as [f|] eqn:L.
    - pose proof (inv_conv _ _ _ I (src, dst) f L) as H. simpl in H. simpl. rewrite H. auto.
    - exact (get_conv_miss d src dst s I).
  Qed.

  Lemma do_convert_spec d f src dst :
    spec d (do_convert qk f src dst) (convert_ans (d_reg d) f src dst).
  Proof.
    unfold do_convert, convert_ans. destruct (uc_eqb src dst); [apply spec_ret|].
    apply spec_bind; [apply get_conv_spec|]. intros c _. apply spec_lift.
  Qed.

  Lemma get_name_spec d n : spec d (get_name_st qk n) (name_ans (d_reg d) n).
  Proof.
    intros s I. unfold get_name_st, name_ans. destruct (String.eqb n "dimensionless"); [auto|].
    rewrite touch1_off, (view_inv d s I). simpl. split; [exact I|]. split; [|reflexivity].
    destruct (resolve (d_reg d) n); reflexivity.
  Qed.
  Lemma pu_fold_spec d many l : ∀ acc, spec d (pu_fold qk many l acc) (pu_pure (d_reg d) many l acc).
  Proof.
    induction l as [|[n v] l IH]; intros acc; simpl; [apply spec_ret|].
    apply spec_bind; [apply get_name_spec|]. intros cname _.
    destruct (String.eqb cname ""); [apply IH|].
    intros s I. rewrite (view_inv d s I). apply IH. exact I.
  Qed.
  Lemma parse_str_spec d t : spec d (parse_str qk tk t) (parse_pure tk (d_reg d) t).
  Proof.
    intros s I. unfold parse_str.
    assert (Miss : let sr := (if String.eqb t "" then (s, Ok ∅) else
              match tk t with
              | None => (s, Err ESyntax)
              | Some names =>
                  (u ←m pu_fold qk (Nat.ltb 1 (length names)) names ∅;
                   λ s', (set_parse (ainsert t u) s', Ok u)) s
              end) in inv0 tk d sr.1 ∧ sr.2 = parse_pure tk (d_reg d) t ∧ c_obj sr.1 = c_obj s).
    { unfold parse_pure. destruct (String.eqb t "") eqn:Et; [simpl; auto|].
      destruct (tk t) as [names|] eqn:Etk; [|simpl; auto].
      pose proof (spec_bind d (pu_fold qk (Nat.ltb 1 (length names)) names ∅)
                    (λ u s', (set_parse (ainsert t u) s', Ok u)) _ (λ u, Ok u)
                    (pu_fold_spec d _ names ∅)) as Hb.
      assert (Hk : ∀ a, pu_pure (d_reg d) (Nat.ltb 1 (length names)) names ∅ = Ok a →
                        spec d (λ s', (set_parse (ainsert t a) s', Ok a)) (Ok a)).
      { intros a Ha s' I'. simpl. split; [|auto]. destruct I'. constructor; simpl; auto.
        apply (ainsert_inv (λ t v, parse_pure tk (d_reg d) t = Ok v)); [|assumption].
        unfold parse_pure. rewrite Et, Etk. exact Ha. }
      specialize (Hb Hk s I). destruct Hb as (I1 & E1 & O1). split; [exact I1|]. split; [|exact O1].
      rewrite E1. destruct (pu_pure _ _ _ _); reflexivity. }
    destruct (alookup t (c_parse s)) as [u|] eqn:L; [|exact Miss].
    destruct (r_units (view s) !! t); [|exact Miss].
    simpl. rewrite (inv_parse _ _ _ I t u L). auto.
  Qed.
  Lemma arg_parsed_spec d a : spec d (arg_parsed qk tk a) (arg_parsed_pure tk (d_reg d) a).
  Proof. destruct a; simpl; [apply parse_str_spec | apply spec_ret]. Qed.

  Lemma imul_arg_spec d u a : spec d (imul_arg qk tk u a) (imul_arg_pure tk (d_reg d) u a).
  Proof.
    unfold imul_arg, imul_arg_pure. apply spec_bind; [apply arg_parsed_spec|]. intros v _ s I.
    rewrite (view_inv d s I). simpl. auto.
  Qed.

  Lemma get_base_spec d u sysarg :
    q_bcache_sysarg qk = false ∨ sysarg = None →
    spec d (get_base qk u sysarg) (base_ans (d_systems d) (d_reg d) (eff_system d sysarg) u).
  Proof.
    intros Hg s I. unfold get_base. rewrite (inv_decl _ _ _ I).
    set (system := eff_system d sysarg).
    assert (Miss : let sr :=
       (rt ←m get_root qk u;
        match system with
        | None => mret rt
        | Some name =>
            λ s1,
              match c_systems s1 !! name with
              | None => (s1, Err EValue)
              | Some sd =>
                  let dest := sys_dest sd rt.2 in
                  (bf ←m do_convert qk rt.1 rt.2 dest;
                   λ s2, ((if q_bcache_sysarg qk || bool_decide (system = d_default d)
                           then set_bcache (ainsert u (bf, dest)) s2 else s2), Ok (bf, dest))) s1
              end
        end) s in inv0 tk d sr.1 ∧ sr.2 = base_ans (d_systems d) (d_reg d) system u ∧ c_obj sr.1 = c_obj s).
    { revert s I. change (spec d (rt ←m get_root qk u;
        match system with
        | None => mret rt
        | Some name =>
            λ s1,
              match c_systems s1 !! name with
              | None => (s1, Err EValue)
              | Some sd =>
                  let dest := sys_dest sd rt.2 in
                  (bf ←m do_convert qk rt.1 rt.2 dest;
                   λ s2, ((if q_bcache_sysarg qk || bool_decide (system = d_default d)
                           then set_bcache (ainsert u (bf, dest)) s2 else s2), Ok (bf, dest))) s1
              end
        end) (base_ans (d_systems d) (d_reg d) system u)).
      unfold base_ans. apply spec_bind; [apply get_root_spec|]. intros rt Hrt.
      destruct system as [name|] eqn:Esys; [|apply spec_ret].
      intros s1 I1. rewrite (inv_sys _ _ _ I1). destruct (d_systems d !! name) as [sd|] eqn:Esd; [|simpl; auto].
      revert s1 I1. change (spec d
        (bf ←m do_convert qk rt.1 rt.2 (sys_dest sd rt.2);
         λ s2, ((if q_bcache_sysarg qk || bool_decide (Some name = d_default d)
                 then set_bcache (ainsert u (bf, sys_dest sd rt.2)) s2 else s2), Ok (bf, sys_dest sd rt.2)))
        (bf ←r convert_ans (d_reg d) rt.1 rt.2 (sys_dest sd rt.2); Ok (bf, sys_dest sd rt.2))).
      apply spec_bind; [apply do_convert_spec|]. intros bf Hbf s2 I2.
      destruct (q_bcache_sysarg qk || bool_decide (Some name = d_default d)) eqn:Est; [|simpl; auto].
      assert (Ed : Some name = d_default d).
      { destruct Hg as [Hg|Hg].
        - rewrite Hg in Est. simpl in Est. apply bool_decide_eq_true in Est. exact Est.
        - subst sysarg. rewrite <- Esys. reflexivity. }
      simpl. split; [|auto].
      destruct I2. constructor; simpl; auto.
      apply (ainsert_inv (λ u v, base_ans (d_systems d) (d_reg d) (d_default d) u = Ok v)); [|assumption].
      rewrite <- Ed. unfold base_ans. rewrite Hrt. simpl. rewrite Esd, Hbf. reflexivity. }
    destruct (bool_decide (system = d_default d)) eqn:Ed; [|exact Miss].
    destruct (alookup u (c_bcache s)) as [fu|] eqn:L; [|exact Miss].
    apply bool_decide_eq_true in Ed. simpl. rewrite Ed. rewrite (inv_bcache _ _ _ I u fu L). auto.
  Qed.

  Lemma get_compat_spec d u :
    spec d (get_compat qk u)
         (dm ←r dim_of (d_reg d) u;
          sys_filter (d_systems d) (d_default d) (if bool_decide (u = ∅) then [] else compat_pure (d_reg d) dm)).
  Proof.
    unfold get_compat. apply spec_bind; [apply get_dim_spec|]. intros dm Hdm s I.
    rewrite (inv_sys _ _ _ I), (inv_decl _ _ _ I).
    destruct (bool_decide (u = ∅)); [simpl; auto|].
    pose proof (inv_dimeq _ _ _ I dm) as Hd.
    destruct (alookup dm (c_dimeq s)) as [l|] eqn:L; simpl in *.
    - rewrite Hd. auto.
    - rewrite <- Hd. split; [|auto]. destruct I. constructor; simpl; auto.
      intros dm'. destruct (decide (dm' = dm)) as [->|N]; [simpl; rewrite <- Hd; reflexivity | auto].
  Qed.
End getters.

(** * One step keeps the invariant and answers like a fresh registry *)
Lemma set_decl_id s : set_decl (λ d, d) s = s.
Proof. destruct s; reflexivity. Qed.
Lemma set_decl_fix f s : f (c_decl s) = c_decl s → set_decl f s = s.
Proof. destruct s; unfold set_decl; simpl. intros ->. reflexivity. Qed.

Lemma inv0_redecl tk d d' f s :
  inv0 tk d s → f d = d' → d_reg d' = d_reg d → d_systems d' = d_systems d →
  d_default d' = d_default d → has_redefs d' = false → inv0 tk d' (set_decl f s).
Proof.
  intros I Hf Hr Hs Hd Hn. destruct I. constructor; simpl; rewrite ?Hr, ?Hs, ?Hd; auto.
  rewrite inv_decl0. exact Hf.
Qed.
Lemma inv0_set_system tk d d' f s :
  inv0 tk d s → f d = d' → d_reg d' = d_reg d → d_systems d' = d_systems d →
  has_redefs d' = false → inv0 tk d' (set_bcache (λ _, []) (set_decl f s)).
Proof.
  intros I Hf Hr Hs Hn. destruct I. constructor; simpl; rewrite ?Hr, ?Hs; auto; [|discriminate].
  rewrite inv_decl0. exact Hf.
Qed.
Lemma obj_ok_frame d s s' : obj_ok d s → c_obj s' = c_obj s → obj_ok d s'.
Proof. unfold obj_ok. intros H ->. exact H. Qed.

Lemma has_redefs_tail d d' :
  d_contexts d' = d_contexts d → d_active d' = tail (d_active d) → has_redefs d = false → has_redefs d' = false.
Proof.
  unfold has_redefs, ctx_redefs. intros -> ->. destruct (d_active d) as [|c l]; simpl; [auto|].
  intros H. apply orb_false_iff in H. apply H.
Qed.
Lemma has_redefs_push d d' c :
  d_contexts d' = d_contexts d → d_active d' = c :: d_active d → ctx_redefs d c = [] →
  has_redefs d = false → has_redefs d' = false.
Proof.
  unfold has_redefs, ctx_redefs. intros -> -> Hc H. simpl. unfold ctx_redefs in Hc. rewrite Hc. exact H.
Qed.

Section step.
  Context (tk : string → option (list (string * Qc))) (qk : quirks) (Hq : sane qk).

  (** a query built from memoised getters *)
  Lemma query_step {A} d s (m : M A) v (f : A → answer) :
    inv tk d s → spec tk d m v →
    inv tk d (fin f (m s)).1 ∧ (fin f (m s)).2 = ans_of f v.
  Proof.
    intros [I O] Sp. destruct (Sp s I) as (I1 & E1 & O1). unfold fin. simpl. rewrite E1.
    split; [|reflexivity]. split; [exact I1 | exact (obj_ok_frame d s _ O O1)].
  Qed.

  Lemma switch_plain d s :
    inv0 tk d s → inv0 tk d (switch qk s).1 ∧ (switch qk s).2 = Ok tt ∧ c_obj (switch qk s).1 = c_obj s.
  Proof.
    intros I. unfold switch.
    set (s0 := if q_bcache_ctx_blind qk then s else set_bcache (λ _, []) s).
    assert (I0 : inv0 tk d s0).
    { subst s0. destruct (q_bcache_ctx_blind qk); [exact I|]. destruct I. constructor; simpl; auto. discriminate. }
    assert (O0 : c_obj s0 = c_obj s) by (subst s0; destruct (q_bcache_ctx_blind qk); reflexivity).
    rewrite (inv_decl _ _ _ I0), (inv_nored _ _ _ I0). simpl. auto.
  Qed.

  Theorem step_inv d s o :
    inv tk d s → op_plain d o = true → op_guard qk o = true →
    inv tk (decl_step tk d o) (step qk tk s o).1 ∧ (step qk tk s o).2 = pure_answer tk d o.
  Proof.
    intros II Hop Hgd. pose proof II as [I O]. pose proof (inv_nored _ _ _ I) as Hn.
    pose proof (inv_decl _ _ _ I) as Hd.
    unfold step. destruct o; simpl decl_step; simpl pure_answer; rewrite ?set_decl_id, ?(pview_no d Hn).
    - (* convert *)
      apply query_step; [exact II|].
      apply spec_bind; [apply arg_parsed_spec; exact Hq|]. intros x _.
      apply spec_bind; [apply arg_parsed_spec; exact Hq|]. intros y _.
      apply do_convert_spec; exact Hq.
    - apply query_step; [exact II | apply parse_str_spec; exact Hq].
    - apply query_step; [exact II|].
      apply spec_bind; [apply arg_parsed_spec; exact Hq|]. intros x _. apply get_root_spec; exact Hq.
    - apply query_step; [exact II|].
      apply spec_bind; [apply spec_lift|]. intros x _. apply get_dim_spec; exact Hq.
    - apply query_step; [exact II|].
      apply spec_bind; [apply spec_lift|]. intros x _. apply get_base_spec; [exact Hq|].
      destruct system as [n|]; [left; simpl in Hgd; apply negb_true_iff in Hgd; exact Hgd | right; reflexivity].
    - apply query_step; [exact II|].
      apply spec_bind; [apply spec_lift|]. intros x _. apply get_compat_spec; exact Hq.
    - discriminate.
    - (* enable *)
      simpl in Hop. unfold live. simpl c_decl. rewrite Hd.
      destruct (d_contexts d !! c) as [rds|] eqn:Ec.
      + set (d' := Decl (d_reg d) (d_systems d) (d_contexts d) (d_default d) (c :: d_active d) (d_obj d)).
        assert (Hn' : has_redefs d' = false).
        { apply (has_redefs_push d d' c); try reflexivity; [|exact Hn].
          destruct (ctx_redefs d c); [reflexivity | discriminate]. }
        assert (I' : inv0 tk d' (set_decl (λ d0, match d_contexts d0 !! c with
                                                  | Some _ => Decl (d_reg d0) (d_systems d0) (d_contexts d0) (d_default d0) (c :: d_active d0) (d_obj d0)
                                                  | None => d0 end) s)).
        { apply (inv0_redecl tk d d'); auto. rewrite Ec. reflexivity. }
        destruct (switch_plain d' _ I') as (I1 & E1 & O1). unfold fin.
        change (d_contexts d') with (d_contexts d). rewrite Ec. cbn [fst snd]. rewrite E1. simpl ans_of.
        split; [|reflexivity]. split; [exact I1|]. unfold obj_ok. rewrite O1. exact O.
      + rewrite (set_decl_fix _ s) by (rewrite Hd, Ec; reflexivity). rewrite ?Hd, ?Ec. simpl. split; [exact II | reflexivity].
    - (* disable *)
      unfold live.
      set (d' := Decl (d_reg d) (d_systems d) (d_contexts d) (d_default d) (tail (d_active d)) (d_obj d)).
      assert (Hn' : has_redefs d' = false) by (apply (has_redefs_tail d d'); auto).
      assert (I' : inv0 tk d' (set_decl (λ d0, Decl (d_reg d0) (d_systems d0) (d_contexts d0) (d_default d0) (tail (d_active d0)) (d_obj d0)) s)).
      { apply (inv0_redecl tk d d'); auto. }
      destruct (switch_plain d' _ I') as (I1 & E1 & O1). unfold fin. simpl. rewrite E1. simpl.
      split; [|reflexivity]. split; [exact I1|]. unfold obj_ok. rewrite O1. exact O.
    - (* default_system setter *)
      unfold live. destruct s0 as [n|].
      + simpl c_systems. rewrite (inv_sys _ _ _ I). destruct (d_systems d !! n) as [sd|] eqn:En.
        * simpl. split; [|reflexivity]. split; [|exact O].
          apply (inv0_set_system tk d); auto. rewrite En. reflexivity.
        * rewrite (set_decl_fix _ s) by (rewrite Hd, En; reflexivity). simpl. split; [exact II | reflexivity].
      + simpl in Hgd. apply negb_true_iff in Hgd. rewrite Hgd. simpl. split; [|reflexivity]. split; [|exact O].
        apply (inv0_set_system tk d); auto.
    - (* new quantity *)
      unfold live.
      destruct (arg_parsed_spec tk qk Hq d a s I) as (I1 & E1 & O1).
      destruct (arg_parsed_pure tk (d_reg d) a) as [u|e] eqn:Ea.
      + set (d' := Decl (d_reg d) (d_systems d) (d_contexts d) (d_default d) (d_active d) (Some u)).
        set (s0 := set_decl (λ d0, match arg_parsed_pure tk (pview d0) a with
                                   | Ok u0 => Decl (d_reg d0) (d_systems d0) (d_contexts d0) (d_default d0) (d_active d0) (Some u0)
                                   | Err _ => d0 end) s).
        assert (I' : inv0 tk d' s0).
        { apply (inv0_redecl tk d d'); auto. rewrite (pview_no d Hn), Ea. reflexivity. }
        destruct (arg_parsed_spec tk qk Hq d' a s0 I') as (I2 & E2 & O2).
        change (d_reg d') with (d_reg d) in E2. rewrite Ea in E2.
        unfold fin, mbind. simpl. rewrite E2. simpl.
        split; [|reflexivity]. split.
        * destruct I2. constructor; simpl; auto.
        * unfold obj_ok. simpl. split; [reflexivity | discriminate].
      + assert (Es : set_decl (λ d0, match arg_parsed_pure tk (pview d0) a with
                                   | Ok u0 => Decl (d_reg d0) (d_systems d0) (d_contexts d0) (d_default d0) (d_active d0) (Some u0)
                                   | Err _ => d0 end) s = s).
        { destruct s. unfold set_decl. simpl in *. rewrite Hd, (pview_no d Hn), Ea. reflexivity. }
        rewrite Es. unfold fin, mbind. simpl. rewrite E1. simpl. split; [|reflexivity].
        split; [exact I1 | exact (obj_ok_frame d s _ O O1)].
    - (* in-place multiplication *)
      unfold live. unfold obj_ok in O.
      destruct (c_obj s) as [[u0 m0]|] eqn:Eo, (d_obj d) as [u0'|] eqn:Edo; try contradiction.
      + destruct O as [Eu Hm]. simpl in Eu. subst u0'.
        destruct (imul_arg_pure tk (d_reg d) u0 a) as [v|e] eqn:Ea.
        * set (d' := Decl (d_reg d) (d_systems d) (d_contexts d) (d_default d) (d_active d) (Some (uc_mul u0 v))).
          set (s0 := set_decl _ s).
          assert (I' : inv0 tk d' s0).
          { apply (inv0_redecl tk d d'); auto. rewrite Edo, (pview_no d Hn), Ea. reflexivity. }
          assert (Eo' : c_obj s0 = Some (u0, m0)) by exact Eo.
          rewrite Eo'.
          destruct (imul_arg_spec tk qk Hq d' u0 a s0 I') as (I2 & E2 & O2).
          change (d_reg d') with (d_reg d) in E2. rewrite Ea in E2.
          unfold fin, mbind. cbn [fst snd]. rewrite E2. simpl.
          split; [|reflexivity]. split.
          -- destruct I2. constructor; simpl; auto.
          -- unfold obj_ok. simpl. rewrite O2, Eo'. simpl. split; [reflexivity|].
             simpl in Hgd. apply negb_true_iff in Hgd. rewrite Hgd. discriminate.
        * assert (Es : set_decl (λ d0, match d_obj d0 with
                                   | Some u =>
                                       match imul_arg_pure tk (pview d0) u a with
                                       | Ok v => Decl (d_reg d0) (d_systems d0) (d_contexts d0) (d_default d0) (d_active d0) (Some (uc_mul u v))
                                       | Err _ => d0
                                       end
                                   | None => d0 end) s = s).
          { destruct s. unfold set_decl. simpl in *. rewrite Hd, Edo, (pview_no d Hn), Ea. reflexivity. }
          rewrite Es, Eo.
          destruct (imul_arg_spec tk qk Hq d u0 a s I) as (I1 & E1 & O1).
          unfold fin, mbind. cbn [fst snd]. rewrite E1, Ea. simpl. split; [|reflexivity].
          split; [exact I1|]. unfold obj_ok. rewrite O1, Eo, Edo. simpl. auto.
      + assert (Es : set_decl (λ d0, match d_obj d0 with
                                   | Some u =>
                                       match imul_arg_pure tk (pview d0) u a with
                                       | Ok v => Decl (d_reg d0) (d_systems d0) (d_contexts d0) (d_default d0) (d_active d0) (Some (uc_mul u v))
                                       | Err _ => d0
                                       end
                                   | None => d0 end) s = s).
        { destruct s. unfold set_decl. simpl in *. rewrite Hd, Edo. reflexivity. }
        rewrite Es, Eo. simpl. split; [|reflexivity]. split; [exact I|]. unfold obj_ok. rewrite Eo, Edo. exact Logic.I.
    - (* quantity.dimensionality *)
      unfold live, obj_dim. unfold obj_ok in O.
      destruct (c_obj s) as [[u0 [dm|]]|] eqn:Eo, (d_obj d) as [u0'|] eqn:Edo; try contradiction; simpl in O.
      + destruct O as [<- Hm]. unfold fin. simpl. rewrite (Hm dm eq_refl). simpl.
        split; [|reflexivity]. split; [exact I|]. unfold obj_ok. rewrite Eo, Edo. simpl. auto.
      + destruct O as [<- Hm].
        destruct (get_dim_spec tk qk Hq d u0 s I) as (I1 & E1 & O1).
        unfold fin, mbind. simpl. rewrite E1. destruct (dim_of (d_reg d) u0) as [dv|e] eqn:Ed; simpl.
        * split; [|reflexivity]. split; [destruct I1; constructor; simpl; auto|].
          unfold obj_ok. simpl. rewrite Edo. simpl. split; [reflexivity|]. intros v [= <-]. exact Ed.
        * split; [|reflexivity]. split; [exact I1|]. unfold obj_ok. rewrite O1, Eo, Edo. simpl. split; [reflexivity | discriminate].
      + unfold fin. simpl. split; [|reflexivity]. split; [exact I|]. unfold obj_ok. rewrite Eo, Edo. exact Logic.I.
    - (* another registry *)
      unfold live. simpl. split; [exact II | reflexivity].
    - (* a prefix definition is outside the alphabet *)
      discriminate.
  Qed.
End step.

(** * Lifting to every reachable state: induction over arbitrary operation lists *)
Lemma decl_step_contexts tk d o : d_contexts (decl_step tk d o) = d_contexts d.
Proof.
  destruct o; simpl; try reflexivity.
  - destruct (d_contexts d !! c); reflexivity.
  - destruct s as [n|]; [destruct (d_systems d !! n)|]; reflexivity.
  - destruct (arg_parsed_pure tk (pview d) a); reflexivity.
  - destruct (d_obj d) as [u|]; [destruct (imul_arg_pure tk (pview d) u a)|]; reflexivity.
Qed.
Lemma op_plain_contexts d d' o : d_contexts d' = d_contexts d → op_plain d' o = op_plain d o.
Proof. intros H. destruct o; simpl; try reflexivity. unfold ctx_redefs. rewrite H. reflexivity. Qed.
Definition decl_run tk (d : decl) (ops : list op) : decl := fold_left (decl_step tk) ops d.

Lemma inv_init tk d : d_active d = [] → d_obj d = None → inv tk d (init d).
Proof.
  intros Ha Ho. split.
  - constructor; simpl; try reflexivity; try discriminate.
    unfold has_redefs. rewrite Ha. reflexivity.
  - unfold obj_ok. simpl. rewrite Ho. exact I.
Qed.

Theorem run_inv tk qk (Hq : sane qk) ops : ∀ d s,
  inv tk d s → forallb (λ o, op_plain d o && op_guard qk o) ops = true →
  inv tk (decl_run tk d ops) (run qk tk s ops) ∧ outs qk tk s ops = pure_outs tk d ops.
Proof.
  induction ops as [|o ops IH]; intros d s I Hops; simpl in *; [auto|].
  apply andb_true_iff in Hops as [Ho Hops]. apply andb_true_iff in Ho as [Ho Hg].
  destruct (step_inv tk qk Hq d s o I Ho Hg) as [I1 E1].
  destruct (IH (decl_step tk d o) (stepS qk tk s o) I1) as [I2 E2].
  { rewrite forallb_forall in Hops |- *. intros o' Hin.
    rewrite (op_plain_contexts d _ o' (decl_step_contexts tk d o)). exact (Hops o' Hin). }
  split; [exact I2|]. rewrite E1. f_equal. exact E2.
Qed.

(** every answer of the caching registry is the answer of a freshly built registry in the same
    declarative state, for every registry, every tokenisation table, every history of any length *)
Theorem cached_refines_pure_thm tk qk d ops :
  sane qk → d_active d = [] → d_obj d = None →
  forallb (λ o, op_plain d o && op_guard qk o) ops = true →
  outs qk tk (init d) ops = pure_outs tk d ops.
Proof.
  intros Hq Ha Ho Hops. exact (proj2 (run_inv tk qk Hq ops d (init d) (inv_init tk d Ha Ho) Hops)).
Qed.
Theorem cache_inv_reachable_thm tk qk d ops :
  sane qk → d_active d = [] → d_obj d = None →
  forallb (λ o, op_plain d o && op_guard qk o) ops = true →
  cache_inv tk (run qk tk (init d) ops).
Proof.
  intros Hq Ha Ho Hops. destruct (run_inv tk qk Hq ops d (init d) (inv_init tk d Ha Ho) Hops) as [I _].
  unfold cache_inv. rewrite (inv_decl _ _ _ (proj1 I)). exact I.
Qed.
Theorem cache_inv_step_thm tk qk s o :
  sane qk → cache_inv tk s → op_plain (c_decl s) o = true → op_guard qk o = true →
  cache_inv tk (step qk tk s o).1 ∧ (step qk tk s o).2 = pure_answer tk (c_decl s) o.
Proof.
  intros Hq I Ho Hg. destruct (step_inv tk qk Hq (c_decl s) s o I Ho Hg) as [I1 E1]. split; [|exact E1].
  unfold cache_inv. rewrite (inv_decl _ _ _ (proj1 I1)). exact I1.
Qed.

(** * Two registries share nothing *)
Lemma wstep_isolated qk tk w o :
  w_r2 (wstep qk tk w (false, o)).1 = w_r2 w ∧ (wstep qk tk w (false, o)).2 = (step qk tk (w_r1 w) o).2 ∧
  w_r1 (wstep qk tk w (true, o)).1 = w_r1 w ∧ (wstep qk tk w (true, o)).2 = (step qk tk (w_r2 w) o).2.
Proof. unfold wstep. simpl. auto. Qed.
Theorem registries_isolated_thm qk tk ops : ∀ w,
  w_r1 (wrun qk tk w ops) = run qk tk (w_r1 w) (project false ops) ∧
  w_r2 (wrun qk tk w ops) = run qk tk (w_r2 w) (project true ops).
Proof.
  induction ops as [|[b o] ops IH]; intros w; [auto|].
  change (wrun qk tk w ((b, o) :: ops)) with (wrun qk tk (wstep qk tk w (b, o)).1 ops).
  destruct (IH (wstep qk tk w (b, o)).1) as [H1 H2]. rewrite H1, H2.
  destruct b; unfold project, wstep; simpl; auto.
Qed.
(** the answers one registry gives inside an interleaved history are those it gives alone *)
Fixpoint wouts_of (which : bool) qk tk (w : world) (ops : list (bool * op)) : list answer :=
  match ops with
  | [] => []
  | io :: r =>
      let wa := wstep qk tk w io in
      if eqb io.1 which then wa.2 :: wouts_of which qk tk wa.1 r else wouts_of which qk tk wa.1 r
  end.
Theorem answers_isolated_thm qk tk ops : ∀ w,
  wouts_of false qk tk w ops = outs qk tk (w_r1 w) (project false ops) ∧
  wouts_of true qk tk w ops = outs qk tk (w_r2 w) (project true ops).
Proof.
  induction ops as [|[b o] ops IH]; intros w; [auto|].
  destruct (IH (wstep qk tk w (b, o)).1) as [H1 H2].
  destruct b; unfold project in *; cbn [wouts_of fst snd eqb List.filter map outs]; rewrite H1, H2;
    unfold wstep; simpl; auto.
Qed.

(** * What [define] of a NEW name conserves.
    Let [S] be a set of names "in play" that is closed under resolution (the definition a name
    resolves to only refers to names of [S], and its canonical name is in [S]).  If a second
    registry [r'] (e.g. [r] plus a new definition) resolves every name of [S] as [r] does, then
    dimensionality, root units and conversion factors of containers over [S] are the same in both
    — so every memo entry over [S] is still valid after the [define].  Both hypotheses are finite
    checks ([playb], [stableb]).  For names that are keys of the unit table the second one follows
    from freshness of the new keys ([define_keeps_registered]). *)
Global Instance conv_eq_dec : EqDecision conv.
Proof. solve_decision. Defined.
Global Instance udef_eq_dec : EqDecision udef.
Proof. solve_decision. Defined.
Global Instance ddef_eq_dec : EqDecision ddef.
Proof. solve_decision. Defined.
Global Instance err_eq_dec : EqDecision err.
Proof. solve_decision. Defined.
Global Instance res_eq_dec {A} `{EqDecision A} : EqDecision (res A).
Proof. solve_decision. Defined.

Definition fresh_def (r : reg) (ud : udef) : Prop :=
  r_units r !! u_name ud = None ∧ (∀ s, u_sym ud = Some s → r_units r !! s = None) ∧
  (∀ a, a ∈ u_aliases ud → r_units r !! a = None).

Lemma foldM_ext_in {A B} (g h : A → B → res A) l : ∀ a,
  (∀ a b, b ∈ l → g a b = h a b) → foldM g l a = foldM h l a.
Proof.
  induction l as [|b l IH]; intros a H; simpl; [reflexivity|].
  rewrite (H a b) by left. destruct (h a b); simpl; [|reflexivity].
  apply IH. intros a' b' Hb. apply H. right. exact Hb.
Qed.
Lemma uc_add_dom (a : uc) k v j : is_Some (uc_add a k v !! j) → is_Some (a !! j) ∨ j = k.
Proof.
  unfold uc_add. destruct (qz _).
  - destruct (decide (j = k)) as [->|N]; [auto|]. rewrite lookup_delete_ne by congruence. auto.
  - destruct (decide (j = k)) as [->|N]; [auto|]. rewrite lookup_insert_ne by congruence. auto.
Qed.

Section conservative.
  Context (r r' : reg) (P : string → Prop)
          (Hres : ∀ k, P k → resolve r' k = resolve r k)
          (Hdim : ∀ k, P k → r_dims r' !! k = r_dims r !! k)
          (Hunits : ∀ k, P k → r_units r' !! k = r_units r !! k)
          (Hcl_ref : ∀ k d, P k → resolve r k = Ok d → (∀ k' v, u_ref d !! k' = Some v → P k') ∧ P (u_name d))
          (Hcl_dim : ∀ k ref, P k → r_dims r !! k = Some (DDerived ref) → ∀ k' v, ref !! k' = Some v → P k').

  Lemma dim_rec_ext f : ∀ l e acc,
    (∀ kv, kv ∈ l → P kv.1) → dim_rec f r' l e acc = dim_rec f r l e acc.
  Proof.
    induction f as [|f IH]; intros l e acc Hl; [reflexivity|].
    rewrite !dim_rec_S. apply foldM_ext_in. intros a [k v] Hin.
    specialize (Hl (k, v) Hin). simpl in Hl. unfold dim_step.
    destruct (is_dim k) eqn:Ek.
    - rewrite (Hdim k Hl). destruct (r_dims r !! k) as [[|dref]|] eqn:Ex; try reflexivity.
      apply IH. intros [k' v'] Hin'. apply elem_of_map_to_list in Hin'.
      exact (Hcl_dim k dref Hl Ex k' v' Hin').
    - rewrite (Hres k Hl). destruct (resolve r k) as [d|er] eqn:Er; simpl; [|reflexivity].
      apply IH. intros [k' v'] Hin'. apply elem_of_map_to_list in Hin'.
      exact (proj1 (Hcl_ref k d Hl Er) k' v' Hin').
  Qed.
  Definition keys_in (a : uc) : Prop := ∀ k, is_Some (a !! k) → P k.
  Lemma keys_in_list (u : uc) : keys_in u → ∀ kv : string * Qc, kv ∈ map_to_list u → P kv.1.
  Proof. intros H [k v] Hin. apply elem_of_map_to_list in Hin. apply H. eauto. Qed.
  Lemma dim_of_ext (u : uc) : keys_in u → dim_of r' u = dim_of r u.
  Proof.
    intros H. unfold dim_of. change (reg_fuel r') with (reg_fuel r).
    rewrite dim_rec_ext; [reflexivity | apply keys_in_list; exact H].
  Qed.
  Lemma keys_in_add a k v : keys_in a → P k → keys_in (uc_add a k v).
  Proof. intros Ha Hk j Hj. destruct (uc_add_dom a k v j Hj) as [H| ->]; auto. Qed.

  Lemma root_rec_ext f : ∀ l e acc,
    (∀ kv, kv ∈ l → P kv.1) → root_rec f r' l e acc = root_rec f r l e acc.
  Proof.
    induction f as [|f IH]; intros l e acc Hl; [reflexivity|].
    rewrite !root_rec_S. apply foldM_ext_in. intros a [k v] Hin.
    specialize (Hl (k, v) Hin). simpl in Hl. unfold root_step.
    rewrite (Hres k Hl). destruct (resolve r k) as [d|er] eqn:Er; simpl; [|reflexivity].
    destruct (u_base d) eqn:Eb; [reflexivity|].
    apply IH. intros [k' v'] Hin'. apply elem_of_map_to_list in Hin'.
    exact (proj1 (Hcl_ref k d Hl Er) k' v' Hin').
  Qed.
  (** the factor generators and the base units reached are names in play *)
  Lemma root_rec_keys f : ∀ l e acc res,
    (∀ kv, kv ∈ l → P kv.1) → keys_in (ra_F acc) → keys_in (ra_B acc) →
    root_rec f r l e acc = Ok res → keys_in (ra_F res) ∧ keys_in (ra_B res).
  Proof.
    induction f as [|f IH]; intros l e acc res Hl HF HB; [discriminate|].
    rewrite root_rec_S. revert acc HF HB. induction l as [|[k v] l IHl]; intros acc HF HB; simpl.
    - intros [= <-]. auto.
    - assert (Hk : P k) by (apply (Hl (k, v)); left).
      destruct (resolve r k) as [d|er] eqn:Er; simpl; [|discriminate].
      destruct (Hcl_ref k d Hk Er) as [Href Hn].
      destruct (u_base d) eqn:Eb; simpl.
      + apply IHl; simpl; auto; [intros kv Hkv; apply Hl; right; exact Hkv|].
        apply keys_in_add; assumption.
      + destruct (root_rec f r (map_to_list (u_ref d)) (e * v)%Qc _) as [acc1|er] eqn:Er2; simpl; [|discriminate].
        apply IH in Er2 as [HF1 HB1]; simpl; auto.
        * apply IHl; auto. intros kv Hkv. apply Hl. right. exact Hkv.
        * intros [k' v'] Hin'. apply elem_of_map_to_list in Hin'. exact (Href k' v' Hin').
        * destruct (_ && _); [assumption | apply keys_in_add; assumption].
  Qed.
  Lemma eval_factor_ext F : keys_in F → eval_factor r' F = eval_factor r F.
  Proof.
    intros HF. rewrite !eval_factor_unfold. apply foldM_ext_in. intros a [g e] Hin.
    apply elem_of_map_to_list in Hin. unfold ef_step. rewrite (Hres g) by (apply HF; eauto). reflexivity.
  Qed.
  Lemma nonmult_in_ext B : keys_in B → nonmult_in r' B = nonmult_in r B.
  Proof.
    intros HB. unfold nonmult_in.
    assert (E : ∀ l : list (string * Qc), (∀ kv, kv ∈ l → P kv.1) →
                existsb (λ kv, match r_units r' !! kv.1 with Some d => negb (u_multiplicative d) | None => false end) l =
                existsb (λ kv, match r_units r !! kv.1 with Some d => negb (u_multiplicative d) | None => false end) l).
    { induction l as [|kv l IH]; intros Hl; simpl; [reflexivity|].
      rewrite (Hunits kv.1) by (apply Hl; left). f_equal. apply IH.
      intros kv' Hkv'. apply Hl. right. exact Hkv'. }
    apply E. apply keys_in_list. exact HB.
  Qed.
  Lemma root_ans_ext (u : uc) : keys_in u → root_ans r' u = root_ans r u.
  Proof.
    intros H. unfold root_ans, root_of, root_sym. change (reg_fuel r') with (reg_fuel r).
    pose proof (keys_in_list u H) as Hl.
    rewrite (root_rec_ext _ _ _ _ Hl).
    destruct (root_rec (reg_fuel r) r (map_to_list u) 1 (RAcc ∅ ∅ true)) as [acc|er] eqn:Er; simpl; [|reflexivity].
    assert (He : keys_in (∅ : uc)) by (intros k [x Hx]; rewrite lookup_empty in Hx; discriminate).
    destruct (root_rec_keys (reg_fuel r) (map_to_list u) 1 (RAcc ∅ ∅ true) acc Hl He He Er) as [HF HB].
    rewrite (eval_factor_ext _ HF). destruct (eval_factor r (ra_F acc)); simpl; [|reflexivity].
    rewrite (nonmult_in_ext _ HB). reflexivity.
  Qed.
  Lemma conv_ans_ext (src dst : uc) :
    keys_in src → keys_in dst → conv_ans r' src dst = conv_ans r src dst.
  Proof.
    intros Hs Ht. unfold conv_ans. rewrite (dim_of_ext src Hs), (dim_of_ext dst Ht).
    rewrite root_ans_ext; [reflexivity|].
    intros k Hk. destruct (uc_div_dom _ _ _ Hk); auto.
  Qed.
End conservative.

(** the two hypotheses as finite checks over a set of names *)
Definition inS (S : gmap string ()) (k : string) : bool := bool_decide (is_Some (S !! k)).
Definition playb (r : reg) (S : gmap string ()) : bool :=
  forallb (λ k,
    match resolve r k with
    | Ok d => forallb (λ kv : string * Qc, inS S kv.1) (map_to_list (u_ref d)) && inS S (u_name d)
    | Err _ => true
    end &&
    match r_dims r !! k with
    | Some (DDerived ref) => forallb (λ kv : string * Qc, inS S kv.1) (map_to_list ref)
    | _ => true
    end) (map fst (map_to_list S)).
Definition stableb (r r' : reg) (S : gmap string ()) : bool :=
  forallb (λ k, bool_decide (resolve r' k = resolve r k) && bool_decide (r_dims r' !! k = r_dims r !! k)
                && bool_decide (r_units r' !! k = r_units r !! k)) (map fst (map_to_list S)).
Lemma inS_spec (S : gmap string ()) (k : string) : inS S k = true → is_Some (S !! k).
Proof. unfold inS. apply bool_decide_eq_true_1. Qed.
Lemma inS_key (S : gmap string ()) (k : string) : is_Some (S !! k) → In k (map fst (map_to_list S)).
Proof.
  intros [x Hx]. apply in_map_iff. exists (k, x). split; [reflexivity|].
  apply elem_of_list_In, elem_of_map_to_list. exact Hx.
Qed.

Theorem define_conservative_thm r r' S :
  playb r S = true → stableb r r' S = true →
  (∀ u : uc, (∀ k, is_Some (u !! k) → is_Some (S !! k)) → dim_of r' u = dim_of r u ∧ root_ans r' u = root_ans r u) ∧
  (∀ src dst : uc, (∀ k, is_Some (src !! k) → is_Some (S !! k)) → (∀ k, is_Some (dst !! k) → is_Some (S !! k)) →
                   conv_ans r' src dst = conv_ans r src dst).
Proof.
  intros Hp Hs. unfold playb in Hp. unfold stableb in Hs. rewrite forallb_forall in Hp, Hs.
  set (P := λ k, is_Some (S !! k)).
  assert (Hres : ∀ k, P k → resolve r' k = resolve r k).
  { intros k Hk. specialize (Hs k (inS_key S k Hk)). apply andb_true_iff in Hs as [Hs _].
    apply andb_true_iff in Hs as [Hs _]. apply bool_decide_eq_true in Hs. exact Hs. }
  assert (Hdim : ∀ k, P k → r_dims r' !! k = r_dims r !! k).
  { intros k Hk. specialize (Hs k (inS_key S k Hk)). apply andb_true_iff in Hs as [Hs _].
    apply andb_true_iff in Hs as [_ Hs]. apply bool_decide_eq_true in Hs. exact Hs. }
  assert (Hunits : ∀ k, P k → r_units r' !! k = r_units r !! k).
  { intros k Hk. specialize (Hs k (inS_key S k Hk)). apply andb_true_iff in Hs as [_ Hs].
    apply bool_decide_eq_true in Hs. exact Hs. }
  assert (Hcl_ref : ∀ k d, P k → resolve r k = Ok d → (∀ k' v, u_ref d !! k' = Some v → P k') ∧ P (u_name d)).
  { intros k d Hk Er. specialize (Hp k (inS_key S k Hk)). apply andb_true_iff in Hp as [Hp _].
    rewrite Er in Hp. apply andb_true_iff in Hp as [Ha Hb]. split.
    - intros k' v Hk'. rewrite forallb_forall in Ha. specialize (Ha (k', v)).
      apply inS_spec. apply Ha. apply elem_of_list_In, elem_of_map_to_list. exact Hk'.
    - apply inS_spec. exact Hb. }
  assert (Hcl_dim : ∀ k ref, P k → r_dims r !! k = Some (DDerived ref) → ∀ k' v, ref !! k' = Some v → P k').
  { intros k ref Hk Ex k' v Hk'. specialize (Hp k (inS_key S k Hk)). apply andb_true_iff in Hp as [_ Hp].
    rewrite Ex in Hp. rewrite forallb_forall in Hp. specialize (Hp (k', v)).
    apply inS_spec. apply Hp. apply elem_of_list_In, elem_of_map_to_list. exact Hk'. }
  split.
  - intros u Hu. split.
    + exact (dim_of_ext r r' P Hres Hdim Hcl_ref Hcl_dim u Hu).
    + exact (root_ans_ext r r' P Hres Hunits Hcl_ref u Hu).
  - intros src dst H1 H2. exact (conv_ans_ext r r' P Hres Hdim Hunits Hcl_ref Hcl_dim src dst H1 H2).
Qed.

(** names that are keys of the unit table keep their definition when a definition is added under
    fresh keys; existing dimensions are kept *)
Lemma fold_insert_other {A} (l : list string) (d : A) : ∀ (m : gmap string A) k,
  k ∉ l → fold_left (λ m a, <[a := d]> m) l m !! k = m !! k.
Proof.
  induction l as [|a l IH]; intros m k Hk; simpl; [reflexivity|].
  rewrite IH by (intros H; apply Hk; right; exact H).
  apply lookup_insert_ne. intros ->. apply Hk. left.
Qed.
Lemma add_def_keys_old r ud k d :
  fresh_def r ud → r_units r !! k = Some d → add_def_keys ud (r_units r) !! k = Some d.
Proof.
  intros (Hn & Hs & Ha) Hk. unfold add_def_keys.
  rewrite fold_insert_other by (intros Hin; rewrite (Ha k Hin) in Hk; discriminate).
  assert (Hk1 : <[u_name ud := ud]> (r_units r) !! k = Some d).
  { rewrite lookup_insert_ne; [exact Hk|]. intros <-. congruence. }
  destruct (u_sym ud) as [sy|] eqn:Es; [|exact Hk1].
  destruct (String.eqb sy ""); [exact Hk1|].
  rewrite lookup_insert_ne; [exact Hk1|]. intros <-. rewrite (Hs sy eq_refl) in Hk. discriminate.
Qed.
Lemma fold_dims_old (l : list (string * Qc)) : ∀ (m : gmap string ddef) k x,
  m !! k = Some x →
  fold_left (λ m kv, match m !! kv.1 with Some _ => m | None => <[kv.1 := DBase]> m end) l m !! k = Some x.
Proof.
  induction l as [|kv l IH]; intros m k x H; simpl; [exact H|].
  apply IH. destruct (m !! kv.1) eqn:E; [exact H|].
  rewrite lookup_insert_ne; [exact H|]. intros <-. congruence.
Qed.
Theorem define_keeps_registered_thm r ud k d :
  fresh_def r ud → r_units r !! k = Some d →
  resolve (add_unit_def r ud) k = Ok d ∧ resolve r k = Ok d ∧
  ∀ dk x, r_dims r !! dk = Some x → r_dims (add_unit_def r ud) !! dk = Some x.
Proof.
  intros Hf Hk. split; [|split].
  - unfold resolve. simpl. rewrite (add_def_keys_old r ud k d Hf Hk). reflexivity.
  - unfold resolve. rewrite Hk. reflexivity.
  - intros dk x Hx. simpl. destruct (u_base ud); [apply fold_dims_old|]; exact Hx.
Qed.
(** a prefix definition does not touch the unit and dimension tables: names that are keys of the
    unit table keep their definition (the hypothesis [stableb] of [define_conservative_thm] is
    about the other names, whose reading may change with the new prefix) *)
Lemma add_prefix_key_tables k p r :
  r_units (add_prefix_key k p r) = r_units r ∧ r_dims (add_prefix_key k p r) = r_dims r.
Proof. split; reflexivity. Qed.
Lemma add_prefix_tables r p : r_units (add_prefix r p) = r_units r ∧ r_dims (add_prefix r p) = r_dims r.
Proof.
  unfold add_prefix.
  assert (F : ∀ l r0, r_units (fold_left (λ r a, add_prefix_key a p r) l r0) = r_units r0 ∧
                      r_dims (fold_left (λ r a, add_prefix_key a p r) l r0) = r_dims r0).
  { induction l as [|a l IH]; intros r0; simpl; [auto|]. destruct (IH (add_prefix_key a p r0)) as [H1 H2].
    rewrite H1, H2. split; reflexivity. }
  destruct (F (p_aliases p)
              (match p_sym p with
               | Some s => if String.eqb s "" then add_prefix_key (p_name p) p r
                           else add_prefix_key s p (add_prefix_key (p_name p) p r)
               | None => add_prefix_key (p_name p) p r
               end)) as [H1 H2].
  rewrite H1, H2. destruct (p_sym p) as [sy|]; [destruct (String.eqb sy "")|]; split; reflexivity.
Qed.
Theorem define_prefix_keeps_registered_thm r p k d :
  r_units r !! k = Some d →
  resolve (add_prefix r p) k = Ok d ∧ r_dims (add_prefix r p) = r_dims r.
Proof.
  intros Hk. destruct (add_prefix_tables r p) as [H1 H2]. split; [|exact H2].
  unfold resolve. rewrite H1, Hk. reflexivity.
Qed.

(** * Witnesses on the regenerated default registry: where pint's caches are NOT transparent *)
From PintV Require Import Model.CacheRun Gen.DefaultDefs Gen.DefaultReg.

Lemma names_eqb_refl l : names_eqb l l = true.
Proof.
  unfold names_eqb. assert (H : forallb (λ x, bool_decide (x ∈ l)) l = true).
  { apply forallb_forall. intros x Hx. apply bool_decide_eq_true. apply elem_of_list_In. exact Hx. }
  rewrite H. reflexivity.
Qed.
Lemma answer_eqb_refl a : answer_eqb a a = true.
Proof. destruct a; unfold answer_eqb; try (apply bool_decide_eq_true; reflexivity). apply names_eqb_refl. Qed.
Lemma answers_eqb_refl l : answers_eqb l l = true.
Proof.
  unfold answers_eqb. rewrite Nat.eqb_refl. simpl. induction l as [|a l IH]; simpl; [reflexivity|].
  rewrite answer_eqb_refl. exact IH.
Qed.
Lemma answers_neq a b : answers_eqb a b = false → a ≠ b.
Proof. intros H E. subst b. rewrite answers_eqb_refl in H. discriminate. Qed.

Lemma mkq_this q : mkq (Qnum (this q)) (Qden (this q)) = q.
Proof. unfold mkq. destruct q as [[n d] Hc]. simpl. apply Qc_is_canon. simpl. apply Qred_correct. Qed.
Lemma unshow_show (u : uc) : mkuc (map (λ x : string * Z * positive, (x.1.1, mkq x.1.2 x.2)) (show_uc u)) = u.
Proof.
  unfold show_uc, mkuc. rewrite map_map. simpl.
  rewrite (map_ext _ (λ x, x)); [|intros [k q]; simpl; rewrite mkq_this; reflexivity].
  rewrite map_id. apply list_to_map_to_list.
Qed.
Lemma default_dimeq_ok : default_dimeq = dimeq_build default_reg.
Proof.
  assert (R : default_dimeq_raw = map (λ p : uc * list string, (show_uc p.1, p.2)) (dimeq_build default_reg))
    by (vm_compute; reflexivity).
  unfold default_dimeq. rewrite R, map_map.
  rewrite (map_ext _ (λ x, x)); [apply map_id|]. intros [u l]. simpl. rewrite unshow_show. reflexivity.
Qed.
Definition demo_init : cstate := init_with demo_decl default_dimeq.
Lemma demo_init_ok : demo_init = init demo_decl.
Proof. unfold demo_init, init. rewrite default_dimeq_ok. reflexivity. Qed.

(** the histories *)
Definition h_base_ctx : list op := [OEnable "rb"; OBase (us "foot") None; ODisable; OBase (us "foot") None].
Definition h_base_sysarg : list op := [OBase (us "yard") (Some "imperial"); OBase (us "yard") None].
Definition h_base_none : list op :=
  [OSetSystem (Some "imperial"); OBase (us "meter") None; OSetSystem None; OBase (us "meter") None].
Definition h_double_prefix : list op := [OParse "kiloinch"; OParse "millikiloinch"].
Definition h_compat_define : list op := [ODefine smoot; OCompat (us "meter")].
Definition h_obj_dim : list op := [OQNew (us "meter"); OQDim; OQImul (us "second"); OQDim].
Definition h_define_in_ctx : list op := [OEnable "rb"; ODefine smoot; ODisable; OParse "smoot"].

Definition differs (qk : quirks) (ops : list op) : bool :=
  negb (answers_eqb (outs qk demo_tk demo_init ops) (pure_outs demo_tk demo_decl ops)).
Lemma differs_neq qk ops :
  differs qk ops = true → outs qk demo_tk (init demo_decl) ops ≠ pure_outs demo_tk demo_decl ops.
Proof.
  unfold differs. rewrite demo_init_ok. intros H. apply answers_neq. apply negb_true_iff. exact H.
Qed.
Lemma agrees_eq qk ops :
  differs qk ops = false →
  answers_eqb (outs qk demo_tk (init demo_decl) ops) (pure_outs demo_tk demo_decl ops) = true.
Proof. unfold differs. rewrite demo_init_ok. intros H. apply negb_false_iff. exact H. Qed.

Lemma base_ctx_differs : differs faithful h_base_ctx = true ∧ differs repaired h_base_ctx = false.
Proof. split; vm_compute; reflexivity. Qed.
Lemma base_sysarg_differs : differs faithful h_base_sysarg = true ∧ differs repaired h_base_sysarg = false.
Proof. split; vm_compute; reflexivity. Qed.
Lemma base_none_differs : differs faithful h_base_none = true ∧ differs repaired h_base_none = false.
Proof. split; vm_compute; reflexivity. Qed.
Lemma double_prefix_differs : differs faithful h_double_prefix = true ∧ differs repaired h_double_prefix = false.
Proof. split; vm_compute; reflexivity. Qed.
Lemma compat_define_differs : differs faithful h_compat_define = true ∧ differs repaired h_compat_define = false.
Proof. split; vm_compute; reflexivity. Qed.
Lemma obj_dim_differs : differs faithful h_obj_dim = true ∧ differs repaired h_obj_dim = false.
Proof. split; vm_compute; reflexivity. Qed.
Lemma define_in_ctx_differs : differs faithful h_define_in_ctx = true ∧ differs repaired h_define_in_ctx = false.
Proof. split; vm_compute; reflexivity. Qed.

(** no switch for this one: a definition under FRESH keys gives the old spelling [dam] (deca+meter)
    the earlier reading deci+am; the dimensionality memo is keyed by the spelling *)
Definition h_shadow : list op := [ODim (us "dam"); ODefine am; ODim (us "dam")].
Lemma shadow_differs :
  differs faithful h_shadow = true ∧ differs repaired h_shadow = true ∧
  stableb default_reg (add_unit_def default_reg am) {[ "dam" := tt ]} = false.
Proof. split; [vm_compute; reflexivity|]. split; vm_compute; reflexivity. Qed.
Lemma am_fresh : fresh_def default_reg am.
Proof.
  assert (A : r_units default_reg !! "am" = None) by (vm_compute; reflexivity).
  split; [exact A|]. split; [intros s; discriminate | intros a Ha; inversion Ha].
Qed.

(** each defect is carried by its own switch: one quirk on, all others off *)
Definition only_F3 := QK true false false false false false false.
Definition only_F7 := QK false true false false false false false.
Definition only_F100 := QK false false true false false false false.
Definition only_F102 := QK false false false true false false false.
Definition only_F9 := QK false false false false true false false.
Definition only_F101 := QK false false false false false true false.
Definition only_F103 := QK false false false false false false true.
Lemma single_switches :
  differs only_F3 h_double_prefix = true ∧ differs only_F7 h_base_ctx = true ∧
  differs only_F100 h_base_sysarg = true ∧ differs only_F102 h_base_none = true ∧
  differs only_F9 h_compat_define = true ∧ differs only_F101 h_obj_dim = true ∧
  differs only_F103 h_define_in_ctx = true.
Proof.
  split; [vm_compute; reflexivity|]. split; [vm_compute; reflexivity|].
  split; [vm_compute; reflexivity|]. split; [vm_compute; reflexivity|].
  split; [vm_compute; reflexivity|]. split; vm_compute; reflexivity.
Qed.

(** non-vacuity: the hypotheses of the theorems hold on the default registry, and a real
    history is answered from the memos *)
Definition h_plain : list op :=
  [OConvert (us "mile") (us "kilometer"); OConvert (us "mile") (us "kilometer");
   OParse "km"; OBase (us "mile") None; OEnable "rn"; OBase (us "mile") None; OSetSystem (Some "imperial");
   OBase (us "mile") None; OCompat (us "meter"); ORoot (us "kiloinch"); ODim (us "km");
   OQNew (us "meter"); OQDim; OQDim; OOther; ODisable; OConvert (us "inch") (us "second")].
Lemma default_reg_play : playb default_reg demo_names = true.
Proof. vm_compute. reflexivity. Qed.
Lemma smoot_stable : stableb default_reg (add_unit_def default_reg smoot) demo_names = true.
Proof. vm_compute. reflexivity. Qed.
Lemma bronto_stable : stableb default_reg (add_prefix default_reg bronto) demo_names = true.
Proof. vm_compute. reflexivity. Qed.
Lemma bronto_new_reading :
  bool_decide (resolve default_reg "brontometer" = resolve (add_prefix default_reg bronto) "brontometer") = false.
Proof. vm_compute. reflexivity. Qed.
Lemma demo_names_nontrivial :
  inS demo_names "kiloinch" && inS demo_names "cm" && inS demo_names "pixels_per_centimeter" &&
  Nat.ltb 1000 (length (map_to_list demo_names)) = true.
Proof. vm_compute. reflexivity. Qed.
Lemma smoot_fresh : fresh_def default_reg smoot.
Proof.
  assert (A : r_units default_reg !! "smoot" = None) by (vm_compute; reflexivity).
  assert (B : r_units default_reg !! "smt" = None) by (vm_compute; reflexivity).
  split; [exact A|]. split.
  - intros s [= <-]. exact B.
  - intros a Ha. inversion Ha.
Qed.
Lemma h_plain_in_alphabet :
  forallb (λ o, op_plain demo_decl o && op_guard faithful o) h_plain = true.
Proof. vm_compute. reflexivity. Qed.
Definition h_plain_checks : bool :=
  let o := outs faithful demo_tk demo_init h_plain in
  let s := run faithful demo_tk demo_init h_plain in
  bool_decide (nth 1 o ADone = ANum (ex 25146 15625)) &&
  bool_decide (nth 7 o ADone = AFac (ex 1760 1) (mkuc [("yard", 1%Qc)])) &&
  bool_decide (nth 16 o ADone = AErr KDim) &&
  Nat.eqb (length (k_conv (c_cache0 s))) 2 && Nat.leb 6 (length (c_dim s)) &&
  Nat.eqb (length (c_bcache s)) 1.
Lemma h_plain_example : h_plain_checks = true.
Proof. vm_compute. reflexivity. Qed.
