(** Proofs/ContextProofs.v — lemmas about Model/Context.v (property C11). *)
From stdpp Require Import gmap strings list.
From Coq Require Import Lia.
From PintV Require Import Model.UC Model.Eval Model.Registry Model.Context
  Proofs.UCProofs Proofs.RegistryProofs.
Close Scope string_scope.
Local Open Scope nat_scope.

(** * 1. [find_shortest_path] *)
Section BFSProofs.
  Context {N : Type} `{EqDecision N}.
  (** the graph, and ANY enumeration order of [graph[node] - visited] *)
  Variable edge : N → N → Prop.
  Variable pick : N → list N → list N.
  Definition pick_ok : Prop := ∀ v vis x, x ∈ pick v vis ↔ edge v x ∧ x ∉ vis.
  Hypothesis pick_spec : pick_ok.

  (** [walk src v p]: [p] lists the nodes of a walk from [src] to [v] along edges *)
  Inductive walk (src : N) : N → list N → Prop :=
  | walk_nil : walk src src [src]
  | walk_snoc v w p : walk src v p → edge v w → walk src w (p ++ [w]).

  Lemma walk_last src v p : walk src v p → last p = Some v.
  Proof. intros []; [reflexivity | apply last_snoc]. Qed.
  Lemma walk_length src v p : walk src v p → 1 ≤ length p.
  Proof. intros []; [simpl; lia | rewrite app_length; simpl; lia]. Qed.
  Lemma walk_len1 src v p : walk src v p → length p ≤ 1 → v = src ∧ p = [src].
  Proof.
    intros [|u w p' Hw He]; [auto|]. rewrite app_length. simpl.
    pose proof (walk_length _ _ _ Hw). lia.
  Qed.
  Lemma walk_inv src w q k :
    walk src w q → length q = S (S k) →
    ∃ v p, q = p ++ [w] ∧ walk src v p ∧ edge v w ∧ length p = S k.
  Proof.
    intros [|v w' p Hw He]; [simpl; lia|]. rewrite app_length. simpl. intros Hl.
    exists v, p. repeat split; auto. lia.
  Qed.
  Lemma walk_src_in src v p : walk src v p → src ∈ p.
  Proof. induction 1; [left | apply elem_of_app; left; assumption]. Qed.

  Notation entry := (N * list N)%type.

  (** ** the search invariant: the deque is [A ++ B], paths of [d] nodes then of [d+1] nodes *)
  Record Inv (src dst : N) (d : nat) (A B : list entry) (vis : list N) : Prop := {
    inv_d : 1 ≤ d;
    inv_walk : ∀ v p, (v, p) ∈ A ++ B → walk src v p;
    inv_la : ∀ v p, (v, p) ∈ A → length p = d;
    inv_lb : ∀ v p, (v, p) ∈ B → length p = S d;
    inv_dv : dst ∉ vis;
    inv_dp : ∀ v p, (v, p) ∈ A ++ B → v ≠ dst;
    inv_nd : ∀ v p, (v, p) ∈ A ++ B → NoDup p;
    inv_cov : ∀ v p, (v, p) ∈ A ++ B → ∀ x, x ∈ p → x ∈ vis ∨ x = v;
    inv_cl : ∀ u w, u ∈ vis → edge u w → w ∈ vis ∨ ∃ r, (w, r) ∈ A ++ B;
    inv_c : ∀ u q, walk src u q → length q ≤ d →
            u ∈ vis ∨ ∃ r, (u, r) ∈ A ++ B ∧ length r ≤ length q }.

  Lemma inv_init src dst : src ≠ dst → Inv src dst 1 [(src, [src])] [] [].
  Proof.
    intros Hne. split.
    - lia.
    - intros v p Hin. apply elem_of_list_singleton in Hin. injection Hin as -> ->. constructor.
    - intros v p Hin. apply elem_of_list_singleton in Hin. injection Hin as -> ->. reflexivity.
    - intros v p Hin. inversion Hin.
    - intros Hin. inversion Hin.
    - intros v p Hin. apply elem_of_list_singleton in Hin. injection Hin as -> ->. exact Hne.
    - intros v p Hin. apply elem_of_list_singleton in Hin. injection Hin as -> ->.
      apply NoDup_singleton.
    - intros v p Hin x Hx. apply elem_of_list_singleton in Hin. injection Hin as -> ->.
      apply elem_of_list_singleton in Hx. right. exact Hx.
    - intros u w Hu. inversion Hu.
    - intros u q Hw Hl. destruct (walk_len1 _ _ _ Hw Hl) as [-> ->].
      right. exists [src]. split; [apply elem_of_list_singleton; reflexivity | simpl; lia].
  Qed.

  Lemma inv_shift src dst d B vis : Inv src dst d [] B vis → Inv src dst (S d) B [] vis.
  Proof.
    intros I. destruct I as [Hd Hw Hla Hlb Hdv Hdp Hnd Hcov Hcl Hc]. simpl in *.
    split; try rewrite app_nil_r; auto.
    - intros v p Hin. inversion Hin.
    - intros u q Hwq Hl.
      destruct (decide (length q ≤ d)) as [Hle|Hgt]; [apply Hc; assumption|].
      assert (Hq : length q = S d) by lia.
      destruct d as [|d']; [lia|].
      destruct (walk_inv _ _ _ _ Hwq Hq) as (v & p & -> & Hwp & He & Hlp).
      assert (Hv : v ∈ vis).
      { destruct (Hc v p Hwp ltac:(lia)) as [Hv|(r & Hr & Hlr)]; [exact Hv|].
        specialize (Hlb _ _ Hr). lia. }
      destruct (Hcl v u Hv He) as [Hu|(r & Hr)]; [left; exact Hu|].
      right. exists r. split; [exact Hr|]. rewrite (Hlb _ _ Hr). lia.
  Qed.

  Lemma inv_empty_unreachable src dst d vis : Inv src dst d [] [] vis → ∀ q, ¬ walk src dst q.
  Proof.
    intros I q Hq. destruct I as [Hd Hw Hla Hlb Hdv Hdp Hnd Hcov Hcl Hc]. simpl in *.
    assert (Hall : ∀ v p, walk src v p → v ∈ vis).
    { induction 1 as [|v w p Hwp IH He].
      - destruct (Hc src [src] (walk_nil src) ltac:(simpl; lia)) as [Hv|(r & Hr & _)]; [exact Hv|].
        inversion Hr.
      - destruct (Hcl v w IH He) as [Hv|(r & Hr)]; [exact Hv | inversion Hr]. }
    exact (Hdv (Hall _ _ Hq)).
  Qed.

  (** popping the head: the target is among the neighbours met *)
  Lemma step_found src dst d v p A B vis p' :
    Inv src dst d ((v, p) :: A) B vis →
    scan dst p (pick v (v :: vis)) = inl p' →
    walk src dst p' ∧ NoDup p' ∧ ∀ q, walk src dst q → length p' ≤ length q.
  Proof.
    intros I. destruct I as [Hd Hw Hla Hlb Hdv Hdp Hnd Hcov Hcl Hc].
    unfold scan. destruct (bool_decide (dst ∈ pick v (v :: vis))) eqn:Eb; [|discriminate].
    intros [= <-]. apply bool_decide_eq_true in Eb. apply pick_spec in Eb as [He Hnv].
    assert (Hin : (v, p) ∈ ((v, p) :: A) ++ B) by (simpl; left).
    split; [|split].
    - apply walk_snoc with v; [apply Hw; exact Hin | exact He].
    - apply NoDup_app. split; [apply (Hnd _ _ Hin)|]. split; [|apply NoDup_singleton].
      intros x Hx Hx'. apply elem_of_list_singleton in Hx'. subst x.
      destruct (Hcov _ _ Hin dst Hx) as [Hv| ->]; [exact (Hdv Hv)|].
      exact (Hdp _ _ Hin eq_refl).
    - intros q Hq. rewrite app_length. simpl. rewrite (Hla v p ltac:(left)).
      destruct (decide (length q ≤ d)) as [Hle|]; [|lia].
      exfalso. destruct (Hc dst q Hq Hle) as [Hv|(r & Hr & _)]; [exact (Hdv Hv)|].
      exact (Hdp _ _ Hr eq_refl).
  Qed.

  Lemma elem_of_new (p : list N) ns w r :
    (w, r) ∈ map (λ a : N, (a, p ++ [a])) ns ↔ w ∈ ns ∧ r = p ++ [w].
  Proof.
    rewrite elem_of_list_fmap. split.
    - intros (a & [= -> ->] & Ha). auto.
    - intros [Hw ->]. exists w. auto.
  Qed.

  (** popping the head: the target is not met, the neighbours are appended *)
  Lemma step_next src dst d v p A B vis new :
    Inv src dst d ((v, p) :: A) B vis →
    scan dst p (pick v (v :: vis)) = inr new →
    Inv src dst d A (B ++ new) (v :: vis).
  Proof.
    intros I. destruct I as [Hd Hw Hla Hlb Hdv Hdp Hnd Hcov Hcl Hc].
    unfold scan. destruct (bool_decide (dst ∈ pick v (v :: vis))) eqn:Eb; [discriminate|].
    intros [= <-]. apply bool_decide_eq_false in Eb.
    set (ns := pick v (v :: vis)) in *.
    assert (Hhd : (v, p) ∈ ((v, p) :: A) ++ B) by (simpl; left).
    assert (Hold : ∀ w r, (w, r) ∈ A ++ B → (w, r) ∈ ((v, p) :: A) ++ B) by (intros; simpl; right; assumption).
    assert (Hsplit : ∀ w r, (w, r) ∈ A ++ (B ++ map (λ a : N, (a, p ++ [a])) ns) →
                            (w, r) ∈ A ++ B ∨ (w ∈ ns ∧ r = p ++ [w])).
    { intros w r Hin. rewrite app_assoc in Hin. apply elem_of_app in Hin as [Hin|Hin]; [left; exact Hin|].
      right. apply elem_of_new. exact Hin. }
    assert (Hkeep : ∀ w r, (w, r) ∈ A ++ B → (w, r) ∈ A ++ (B ++ map (λ a : N, (a, p ++ [a])) ns)).
    { intros w r Hin. rewrite app_assoc. apply elem_of_app. left. exact Hin. }
    split.
    - exact Hd.
    - intros w r Hin. destruct (Hsplit _ _ Hin) as [Ho|[Hn ->]]; [apply Hw, Hold, Ho|].
      apply pick_spec in Hn as [He _]. apply walk_snoc with v; [apply Hw, Hhd | exact He].
    - intros w r Hin. apply (Hla w r). right. exact Hin.
    - intros w r Hin. apply elem_of_app in Hin as [Hin|Hin]; [apply (Hlb w r); exact Hin|].
      apply elem_of_new in Hin as [_ ->]. rewrite app_length. simpl. rewrite (Hla v p ltac:(left)). lia.
    - intros Hin. apply elem_of_cons in Hin as [->|Hin]; [exact (Hdp _ _ Hhd eq_refl) | exact (Hdv Hin)].
    - intros w r Hin. destruct (Hsplit _ _ Hin) as [Ho|[Hn ->]]; [apply (Hdp _ _ (Hold _ _ Ho))|].
      intros ->. exact (Eb Hn).
    - intros w r Hin. destruct (Hsplit _ _ Hin) as [Ho|[Hn ->]]; [apply (Hnd _ _ (Hold _ _ Ho))|].
      apply pick_spec in Hn as [_ Hnv].
      apply NoDup_app. split; [apply (Hnd _ _ Hhd)|]. split; [|apply NoDup_singleton].
      intros x Hx Hx'. apply elem_of_list_singleton in Hx'. subst x. apply Hnv.
      destruct (Hcov _ _ Hhd w Hx) as [Hv| ->]; [right; exact Hv | left].
    - intros w r Hin x Hx. destruct (Hsplit _ _ Hin) as [Ho|[Hn ->]].
      + destruct (Hcov _ _ (Hold _ _ Ho) x Hx) as [Hv| ->]; [left; right; exact Hv | right; reflexivity].
      + apply elem_of_app in Hx as [Hx|Hx].
        * left. destruct (Hcov _ _ Hhd x Hx) as [Hv| ->]; [right; exact Hv | left].
        * apply elem_of_list_singleton in Hx. right. exact Hx.
    - intros u w Hu He. apply elem_of_cons in Hu as [->|Hu].
      + destruct (decide (w ∈ v :: vis)) as [Hv|Hnv]; [left; exact Hv|].
        right. exists (p ++ [w]). rewrite app_assoc. apply elem_of_app. right.
        apply elem_of_new. split; [|reflexivity]. apply pick_spec. split; assumption.
      + destruct (Hcl u w Hu He) as [Hv|(r & Hr)]; [left; right; exact Hv|].
        simpl in Hr. apply elem_of_cons in Hr as [[= -> ->]|Hr]; [left; left|].
        right. exists r. apply Hkeep. exact Hr.
    - intros u q Hq Hl. destruct (Hc u q Hq Hl) as [Hv|(r & Hr & Hlr)]; [left; right; exact Hv|].
      simpl in Hr. apply elem_of_cons in Hr as [[= -> ->]|Hr]; [left; left|].
      right. exists r. split; [apply Hkeep; exact Hr | exact Hlr].
  Qed.

  Definition found_ok (src dst : N) (p : list N) : Prop :=
    walk src dst p ∧ NoDup p ∧ ∀ q, walk src dst q → length p ≤ length q.
  Definition res_ok (src dst : N) (r : bres N) : Prop :=
    match r with
    | BFound p => found_ok src dst p
    | BNone => ∀ q, ¬ walk src dst q
    | BFuel => True
    end.

  Lemma loop_pop src dst fuel d v p A B vis :
    (∀ d A B vis, Inv src dst d A B vis → res_ok src dst (bfs_loop pick fuel dst (A ++ B, vis))) →
    Inv src dst d ((v, p) :: A) B vis →
    res_ok src dst (bfs_loop pick (S fuel) dst (((v, p) :: A) ++ B, vis)).
  Proof.
    intros IH I. cbn [bfs_loop]. unfold bfs_step. cbn [fst snd app].
    destruct (scan dst p (pick v (v :: vis))) as [p'|new] eqn:Es.
    - exact (step_found _ _ _ _ _ _ _ _ _ I Es).
    - rewrite <- app_assoc. apply IH with d. exact (step_next _ _ _ _ _ _ _ _ _ I Es).
  Qed.

  Lemma loop_correct src dst fuel : ∀ d A B vis,
    Inv src dst d A B vis → res_ok src dst (bfs_loop pick fuel dst (A ++ B, vis)).
  Proof.
    induction fuel as [|fuel IH]; intros d A B vis I; [exact Logic.I|].
    destruct A as [|[v p] A].
    - destruct B as [|[v p] B].
      + simpl. exact (inv_empty_unreachable _ _ _ _ I).
      + apply inv_shift in I. rewrite app_nil_l, <- (app_nil_r ((v, p) :: B)).
        exact (loop_pop _ _ _ _ _ _ _ _ _ IH I).
    - exact (loop_pop _ _ _ _ _ _ _ _ _ IH I).
  Qed.

  Theorem bfs_run_correct fuel src dst : res_ok src dst (bfs_run pick fuel src dst).
  Proof.
    unfold bfs_run. destruct (decide (src = dst)) as [->|Hne].
    - split; [constructor|]. split; [apply NoDup_singleton|].
      intros q Hq. simpl. exact (walk_length _ _ _ Hq).
    - exact (loop_correct src dst fuel 1 [(src, [src])] [] [] (inv_init _ _ Hne)).
  Qed.

  (** ** termination: an explicit fuel bound for a graph whose nodes lie in the list [V] *)
  Variable V : list N.
  Definition closed_in : Prop := ∀ v w, edge v w → w ∈ V.
  Definition pick_nodup : Prop := ∀ v vis, NoDup (pick v vis).
  Hypothesis edge_closed : closed_in.
  Hypothesis pick_nd : pick_nodup.

  Record TInv (fifo : list entry) (vis : list N) : Prop := {
    t_nd : ∀ v p, (v, p) ∈ fifo → NoDup p;
    t_sub : ∀ v p, (v, p) ∈ fifo → ∀ x, x ∈ p → x ∈ V;
    t_cov : ∀ v p, (v, p) ∈ fifo → ∀ x, x ∈ p → x ∈ vis ∨ x = v }.

  Definition pot (n : nat) (fifo : list entry) : nat :=
    sum_list_with (λ e : entry, geo n (n - length e.2)) fifo.
  Lemma pot_app n a b : pot n (a ++ b) = pot n a + pot n b.
  Proof. apply sum_list_with_app. Qed.
  Lemma pot_new n (p : list N) ns :
    pot n (map (λ a : N, (a, p ++ [a])) ns) = length ns * geo n (n - S (length p)).
  Proof.
    unfold pot. induction ns as [|a ns IH]; [reflexivity|]. cbn [map sum_list_with length].
    rewrite IH. cbn [snd]. rewrite app_length. simpl. replace (length p + 1) with (S (length p)) by lia. lia.
  Qed.
  Lemma geo_pos n k : 1 ≤ geo n k.
  Proof. destruct k; simpl; lia. Qed.
  Lemma geo_mono n k : geo n k ≤ geo n (S k).
  Proof.
    induction k as [|k IH].
    - simpl. lia.
    - change (geo n (S (S k))) with (1 + n * geo n (S k)). change (geo n (S k)) with (1 + n * geo n k) at 1.
      apply Nat.add_le_mono_l, Nat.mul_le_mono_l. exact IH.
  Qed.
  Lemma geo_mono' n j k : j ≤ k → geo n j ≤ geo n k.
  Proof. induction 1; [lia | etransitivity; [eassumption | apply geo_mono]]. Qed.

  Lemma nodup_sub_length (l : list N) : NoDup l → (∀ x, x ∈ l → x ∈ V) → length l ≤ length V.
  Proof. intros Hnd Hs. apply submseteq_length, NoDup_submseteq; assumption. Qed.
  Lemma nodup_full (l : list N) : NoDup l → (∀ x, x ∈ l → x ∈ V) → length V ≤ length l → ∀ x, x ∈ V → x ∈ l.
  Proof.
    intros Hnd Hs Hl x Hx.
    assert (Hp : l ≡ₚ V).
    { apply submseteq_Permutation_length_le; [exact Hl | apply NoDup_submseteq; assumption]. }
    rewrite Hp. exact Hx.
  Qed.

  Lemma loop_terminates dst fuel : ∀ fifo vis,
    TInv fifo vis → pot (length V) fifo < fuel → bfs_loop pick fuel dst (fifo, vis) ≠ BFuel.
  Proof.
    induction fuel as [|fuel IH]; intros fifo vis T Hp; [lia|].
    cbn [bfs_loop]. unfold bfs_step. cbn [fst snd].
    destruct fifo as [|[v p] rest]; [discriminate|].
    unfold scan. destruct (bool_decide (dst ∈ pick v (v :: vis))); [discriminate|].
    set (ns := pick v (v :: vis)).
    destruct T as [Tnd Tsub Tcov].
    assert (Hhd : (v, p) ∈ (v, p) :: rest) by left.
    assert (Hns : ∀ x, x ∈ ns → edge v x ∧ x ∉ v :: vis) by (intros x; apply pick_spec).
    apply IH.
    - split.
      + intros w r Hin. apply elem_of_app in Hin as [Hin|Hin]; [apply (Tnd w r); right; exact Hin|].
        apply elem_of_new in Hin as [Hw ->]. apply NoDup_app. split; [exact (Tnd _ _ Hhd)|].
        split; [|apply NoDup_singleton]. intros x Hx Hx'. apply elem_of_list_singleton in Hx'. subst x.
        apply (proj2 (Hns _ Hw)). destruct (Tcov _ _ Hhd w Hx) as [Hv| ->]; [right; exact Hv | left].
      + intros w r Hin x Hx. apply elem_of_app in Hin as [Hin|Hin]; [apply (Tsub w r); [right; exact Hin | exact Hx]|].
        apply elem_of_new in Hin as [Hw ->]. apply elem_of_app in Hx as [Hx|Hx]; [exact (Tsub _ _ Hhd x Hx)|].
        apply elem_of_list_singleton in Hx. subst x. exact (edge_closed _ _ (proj1 (Hns _ Hw))).
      + intros w r Hin x Hx. apply elem_of_app in Hin as [Hin|Hin].
        * destruct (Tcov w r ltac:(right; exact Hin) x Hx) as [Hv| ->]; [left; right; exact Hv | right; reflexivity].
        * apply elem_of_new in Hin as [Hw ->]. apply elem_of_app in Hx as [Hx|Hx].
          -- left. destruct (Tcov _ _ Hhd x Hx) as [Hv| ->]; [right; exact Hv | left].
          -- apply elem_of_list_singleton in Hx. right. exact Hx.
    - rewrite pot_app, pot_new. unfold pot in Hp. cbn [sum_list_with snd] in Hp. fold (pot (length V) rest) in Hp.
      assert (Hlen : length p ≤ length V) by (apply nodup_sub_length; [exact (Tnd _ _ Hhd) | exact (Tsub _ _ Hhd)]).
      assert (Hm : length ns ≤ length V).
      { apply nodup_sub_length; [apply pick_nd|]. intros x Hx. exact (edge_closed _ _ (proj1 (Hns _ Hx))). }
      destruct (decide (length p < length V)) as [Hlt|Hge].
      + replace (length V - length p) with (S (length V - S (length p))) in Hp by lia.
        cbn [geo] in Hp.
        assert (length ns * geo (length V) (length V - S (length p))
                ≤ length V * geo (length V) (length V - S (length p))) by (apply Nat.mul_le_mono_r; exact Hm).
        lia.
      + assert (Hempty : ns = []).
        { destruct ns as [|x ns'] eqn:En; [reflexivity|]. exfalso.
          assert (Hx : x ∈ x :: ns') by left.
          destruct (Hns x Hx) as [He Hnv]. apply Hnv.
          assert (Hxp : x ∈ p).
          { apply nodup_full; [exact (Tnd _ _ Hhd) | exact (Tsub _ _ Hhd) | lia | exact (edge_closed _ _ He)]. }
          destruct (Tcov _ _ Hhd x Hxp) as [Hv| ->]; [right; exact Hv | left]. }
        rewrite Hempty. simpl. pose proof (geo_pos (length V) (length V - length p)). lia.
  Qed.

  Theorem bfs_run_terminates fuel src dst :
    src ∈ V → bfs_bound (length V) ≤ fuel → bfs_run pick fuel src dst ≠ BFuel.
  Proof.
    intros Hs Hf. unfold bfs_run. destruct (decide (src = dst)); [discriminate|].
    apply loop_terminates.
    - split.
      + intros v p Hin. apply elem_of_list_singleton in Hin. injection Hin as -> ->. apply NoDup_singleton.
      + intros v p Hin x Hx. apply elem_of_list_singleton in Hin. injection Hin as -> ->.
        apply elem_of_list_singleton in Hx. subst x. exact Hs.
      + intros v p Hin x Hx. apply elem_of_list_singleton in Hin. injection Hin as -> ->.
        apply elem_of_list_singleton in Hx. right. exact Hx.
    - unfold pot, bfs_bound in *. cbn [sum_list_with snd length].
      pose proof (geo_mono' (length V) (length V - 1) (length V) ltac:(lia)). lia.
  Qed.
End BFSProofs.
Arguments walk {N} edge src _ _.
Arguments pick_ok {N} edge pick.
Arguments closed_in {N} edge V.
Arguments pick_nodup {N} pick.
Arguments found_ok {N} edge src dst p.

(** ** the loop with fuel [2^k] *)
Section Loop2.
  Context {N : Type} `{EqDecision N}.
  Variable pick : N → list N → list N.

  Lemma loop2_spec k dst : ∀ st,
    match bfs_loop2 pick k dst st with
    | inl st' => ∀ f, bfs_loop pick (2 ^ k + f) dst st = bfs_loop pick f dst st'
    | inr r => ∀ f, bfs_loop pick (2 ^ k + f) dst st = r
    end.
  Proof.
    induction k as [|k IH]; intros st.
    - cbn [bfs_loop2 Nat.pow]. destruct (bfs_step pick dst st) as [st'|r] eqn:E; intros f;
        change (1 + f) with (S f); cbn [bfs_loop]; rewrite E; reflexivity.
    - cbn [bfs_loop2]. pose proof (IH st) as H1.
      destruct (bfs_loop2 pick k dst st) as [st1|r] eqn:E1.
      + pose proof (IH st1) as H2. destruct (bfs_loop2 pick k dst st1) as [st2|r] eqn:E2; intros f;
          replace (2 ^ S k + f) with (2 ^ k + (2 ^ k + f)) by (cbn [Nat.pow]; lia);
          rewrite H1, H2; reflexivity.
      + intros f. replace (2 ^ S k + f) with (2 ^ k + (2 ^ k + f)) by (cbn [Nat.pow]; lia).
        apply H1.
  Qed.

  Theorem bfs_run2_spec k src dst : bfs_run2 pick k src dst = bfs_run pick (2 ^ k) src dst.
  Proof.
    unfold bfs_run2, bfs_run. destruct (decide (src = dst)); [reflexivity|].
    pose proof (loop2_spec k dst (bfs_init src)) as H.
    destruct (bfs_loop2 pick k dst (bfs_init src)) as [st'|r].
    - specialize (H 0). rewrite Nat.add_0_r in H. rewrite H. reflexivity.
    - specialize (H 0). rewrite Nat.add_0_r in H. rewrite H. reflexivity.
  Qed.
End Loop2.

Lemma geo_le_pow n k : geo n k ≤ S n ^ k.
Proof.
  induction k as [|k IH]; [simpl; lia|].
  change (geo n (S k)) with (1 + n * geo n k). cbn [Nat.pow].
  assert (1 ≤ S n ^ k) by (apply Nat.neq_0_lt_0, Nat.pow_nonzero; lia).
  assert (n * geo n k ≤ n * S n ^ k) by (apply Nat.mul_le_mono_l; exact IH).
  lia.
Qed.
Lemma logfuel_ok n : bfs_bound n ≤ 2 ^ bfs_logfuel n.
Proof.
  unfold bfs_bound, bfs_logfuel. cbn [Nat.pow].
  assert (H1 : geo n n ≤ S n ^ n) by apply geo_le_pow.
  assert (H2 : S n ^ n ≤ (2 ^ n) ^ n).
  { apply Nat.pow_le_mono_l. pose proof (Nat.pow_gt_lin_r 2 n ltac:(lia)). lia. }
  rewrite <- Nat.pow_mul_r in H2.
  assert (1 ≤ 2 ^ (n * n)) by (apply Nat.neq_0_lt_0, Nat.pow_nonzero; lia).
  lia.
Qed.

(** ** the packaged statements *)
Section BFSTheorems.
  Context {N : Type} `{EqDecision N}.
  Variable edge : N → N → Prop.
  Variable pick : N → list N → list N.
  Hypothesis Hpick : pick_ok edge pick.

  Theorem bfs_sound fuel src dst p :
    bfs pick fuel src dst = Some p → walk edge src dst p.
  Proof.
    unfold bfs. pose proof (bfs_run_correct edge pick Hpick fuel src dst) as H.
    destruct (bfs_run pick fuel src dst); try discriminate. intros [= <-]. exact (proj1 H).
  Qed.
  Theorem bfs_simple fuel src dst p :
    bfs pick fuel src dst = Some p → NoDup p.
  Proof.
    unfold bfs. pose proof (bfs_run_correct edge pick Hpick fuel src dst) as H.
    destruct (bfs_run pick fuel src dst); try discriminate. intros [= <-]. exact (proj1 (proj2 H)).
  Qed.
  Theorem bfs_shortest fuel src dst p :
    bfs pick fuel src dst = Some p → ∀ q, walk edge src dst q → length p ≤ length q.
  Proof.
    unfold bfs. pose proof (bfs_run_correct edge pick Hpick fuel src dst) as H.
    destruct (bfs_run pick fuel src dst); try discriminate. intros [= <-]. exact (proj2 (proj2 H)).
  Qed.
  (** the search says "no path" only when there is none, whatever the fuel *)
  Theorem bfs_none_unreachable fuel src dst :
    bfs_run pick fuel src dst = BNone → ∀ q, ¬ walk edge src dst q.
  Proof.
    pose proof (bfs_run_correct edge pick Hpick fuel src dst) as H. intros E. rewrite E in H. exact H.
  Qed.

  Variable V : list N.
  Hypothesis Hclosed : closed_in edge V.
  Hypothesis Hnd : pick_nodup pick.

  Theorem bfs_terminates fuel src dst :
    src ∈ V → bfs_bound (length V) ≤ fuel → bfs_run pick fuel src dst ≠ BFuel.
  Proof. exact (bfs_run_terminates edge pick Hpick V Hclosed Hnd fuel src dst). Qed.

  Theorem bfs_complete fuel src dst :
    src ∈ V → bfs_bound (length V) ≤ fuel →
    (bfs pick fuel src dst = None ↔ ∀ q, ¬ walk edge src dst q).
  Proof.
    intros Hs Hf. pose proof (bfs_terminates fuel src dst Hs Hf) as Ht.
    pose proof (bfs_run_correct edge pick Hpick fuel src dst) as Hc. unfold bfs.
    destruct (bfs_run pick fuel src dst) as [p| |]; [|tauto|congruence].
    split; [discriminate|]. intros Hno. exfalso. exact (Hno p (proj1 Hc)).
  Qed.

  Theorem bfs_run2_terminates src dst :
    src ∈ V → bfs_run2 pick (bfs_logfuel (length V)) src dst ≠ BFuel.
  Proof.
    intros Hs. rewrite bfs_run2_spec. apply bfs_terminates; [exact Hs | apply logfuel_ok].
  Qed.
End BFSTheorems.

(** ** all shortest paths *)
Section AllShortest.
  Context {N : Type} `{EqDecision N}.
  Variable adj : N → list N.
  Definition aedge (v w : N) : Prop := w ∈ adj v.

  Lemma pick_adj_ok : pick_ok aedge (pick_adj adj).
  Proof. intros v vis x. unfold pick_adj, aedge. rewrite elem_of_list_filter. tauto. Qed.
  Lemma pick_adj_nodup : (∀ v, NoDup (adj v)) → pick_nodup (pick_adj adj).
  Proof. intros H v vis. apply NoDup_filter, H. Qed.

  Definition Front (src : N) (k : nat) (F : list (list N)) : Prop :=
    ∀ p, p ∈ F ↔ ∃ v, walk aedge src v p ∧ NoDup p ∧ length p = S k.

  Lemma front0 src : Front src 0 [[src]].
  Proof.
    intros p. rewrite elem_of_list_singleton. split.
    - intros ->. exists src. split; [constructor|]. split; [apply NoDup_singleton | reflexivity].
    - intros (v & Hw & _ & Hl). apply (walk_len1 aedge) in Hw; [tauto | lia].
  Qed.

  Lemma elem_of_extend F p' :
    p' ∈ extend adj F ↔ ∃ p v w, p ∈ F ∧ last p = Some v ∧ w ∈ adj v ∧ w ∉ p ∧ p' = p ++ [w].
  Proof.
    unfold extend. rewrite elem_of_list_In, in_flat_map. split.
    - intros (p & Hp & Hin). apply elem_of_list_In in Hp, Hin.
      destruct (last p) as [v|] eqn:El; [|inversion Hin].
      apply elem_of_list_fmap in Hin as (w & -> & Hw). apply elem_of_list_filter in Hw as [Hnp Hw].
      exists p, v, w. auto.
    - intros (p & v & w & Hp & El & Hw & Hnp & ->). exists p. split; [apply elem_of_list_In; exact Hp|].
      apply elem_of_list_In. rewrite El. apply elem_of_list_fmap. exists w. split; [reflexivity|].
      apply elem_of_list_filter. auto.
  Qed.

  Lemma front_step src k F : Front src k F → Front src (S k) (extend adj F).
  Proof.
    intros HF p'. rewrite elem_of_extend. split.
    - intros (p & v & w & Hp & El & Hw & Hnp & ->). apply HF in Hp as (v' & Hwalk & Hnd & Hl).
      rewrite (walk_last _ _ _ _ Hwalk) in El. injection El as ->.
      exists w. split; [apply walk_snoc with v; assumption|]. split.
      + apply NoDup_app. split; [exact Hnd|]. split; [|apply NoDup_singleton].
        intros x Hx Hx'. apply elem_of_list_singleton in Hx'. subst x. exact (Hnp Hx).
      + rewrite app_length. simpl. lia.
    - intros (w & Hwalk & Hnd & Hl). destruct (walk_inv _ _ _ _ _ Hwalk Hl) as (v & p & -> & Hwp & He & Hlp).
      apply NoDup_app in Hnd as (Hndp & Hdisj & _).
      exists p, v, w. repeat split; auto.
      + apply HF. exists v. auto.
      + exact (walk_last _ _ _ _ Hwp).
      + intros Hin. apply (Hdisj w Hin). apply elem_of_list_singleton. reflexivity.
  Qed.

  Lemma elem_of_hits (dst : N) F p : p ∈ hits dst F ↔ last p = Some dst ∧ p ∈ F.
  Proof. unfold hits. rewrite elem_of_list_filter. reflexivity. Qed.

  (** a shortest simple path is listed *)
  Lemma shortest_from_complete src dst p : ∀ fuel k F i,
    Front src k F → walk aedge src dst p → NoDup p →
    (∀ q, walk aedge src dst q → length p ≤ length q) →
    length p = S (k + i) → i ≤ fuel → p ∈ shortest_from adj dst F fuel.
  Proof.
    induction fuel as [|fuel IH]; intros k F i HF Hw Hnd Hsh Hl Hi.
    - assert (i = 0) by lia. subst i. rewrite Nat.add_0_r in Hl.
      assert (Hp : p ∈ hits dst F).
      { apply elem_of_hits. split; [exact (walk_last _ _ _ _ Hw)|]. apply HF. exists dst. auto. }
      cbn [shortest_from]. destruct (hits dst F) as [|h hs]; [inversion Hp | exact Hp].
    - cbn [shortest_from]. destruct i as [|i].
      + rewrite Nat.add_0_r in Hl.
        assert (Hp : p ∈ hits dst F).
        { apply elem_of_hits. split; [exact (walk_last _ _ _ _ Hw)|]. apply HF. exists dst. auto. }
        destruct (hits dst F) as [|h hs]; [inversion Hp | exact Hp].
      + destruct (hits dst F) as [|h hs] eqn:Eh.
        * apply (IH (S k) _ i); auto; [apply front_step; exact HF | lia | lia].
        * exfalso. assert (Hh : h ∈ hits dst F) by (rewrite Eh; left).
          apply elem_of_hits in Hh as [Hlast Hin]. apply HF in Hin as (v & Hwh & _ & Hlh).
          rewrite (walk_last _ _ _ _ Hwh) in Hlast. injection Hlast as ->.
          specialize (Hsh h Hwh). lia.
  Qed.

  (** everything listed is a simple walk to the target, all of one length *)
  Lemma shortest_from_sound src dst : ∀ fuel k F,
    Front src k F → ∃ k', ∀ p, p ∈ shortest_from adj dst F fuel →
      walk aedge src dst p ∧ NoDup p ∧ length p = S k'.
  Proof.
    induction fuel as [|fuel IH]; intros k F HF; cbn [shortest_from].
    - destruct (hits dst F) as [|h hs] eqn:Eh; [exists 0; intros p Hp; inversion Hp|].
      exists k. intros p Hp. rewrite <- Eh in Hp. apply elem_of_hits in Hp as [Hlast Hin].
      apply HF in Hin as (v & Hw & Hnd & Hl). rewrite (walk_last _ _ _ _ Hw) in Hlast. injection Hlast as ->. auto.
    - destruct (hits dst F) as [|h hs] eqn:Eh; [apply (IH (S k)), front_step, HF|].
      exists k. intros p Hp. rewrite <- Eh in Hp. apply elem_of_hits in Hp as [Hlast Hin].
      apply HF in Hin as (v & Hw & Hnd & Hl). rewrite (walk_last _ _ _ _ Hw) in Hlast. injection Hlast as ->. auto.
  Qed.

  (** whatever the enumeration order of the neighbour sets, the path found by the search is
      one of the listed shortest paths *)
  Theorem bfs_in_all_shortest (pick : N → list N → list N) (V : list N) fuel src dst p :
    pick_ok aedge pick → closed_in aedge V → src ∈ V →
    bfs pick fuel src dst = Some p → p ∈ all_shortest adj (length V) src dst.
  Proof.
    intros Hpick Hcl Hs Hb.
    pose proof (bfs_sound aedge pick Hpick _ _ _ _ Hb) as Hw.
    pose proof (bfs_simple aedge pick Hpick _ _ _ _ Hb) as Hnd.
    pose proof (bfs_shortest aedge pick Hpick _ _ _ _ Hb) as Hsh.
    assert (Hsub : ∀ x, x ∈ p → x ∈ V).
    { clear Hb Hnd Hsh. induction Hw as [|v w p Hwp IH He]; intros x Hx.
      - apply elem_of_list_singleton in Hx. subst x. exact Hs.
      - apply elem_of_app in Hx as [Hx|Hx]; [auto|]. apply elem_of_list_singleton in Hx. subst x.
        exact (Hcl _ _ He). }
    assert (Hlen : length p ≤ length V) by (apply (nodup_sub_length V); assumption).
    pose proof (walk_length _ _ _ _ Hw).
    unfold all_shortest. apply (shortest_from_complete src dst p (length V) 0 [[src]] (length p - 1));
      auto using front0; lia.
  Qed.

  Theorem all_shortest_sound (V : list N) src dst p :
    (∀ v, NoDup (adj v)) → closed_in aedge V → src ∈ V →
    p ∈ all_shortest adj (length V) src dst →
    walk aedge src dst p ∧ ∀ q, walk aedge src dst q → length p ≤ length q.
  Proof.
    intros Hadj Hcl Hs Hp. unfold all_shortest in Hp.
    destruct (shortest_from_sound src dst (length V) 0 [[src]] (front0 src)) as (k' & Hk').
    destruct (Hk' p Hp) as (Hw & Hnd & Hl). split; [exact Hw|].
    (* run the search with the list order: it finds a listed path, which is shortest *)
    set (fuel := bfs_bound (length V)).
    pose proof (bfs_complete aedge (pick_adj adj) pick_adj_ok V Hcl (pick_adj_nodup Hadj) fuel src dst Hs (le_n _)) as Hc.
    destruct (bfs (pick_adj adj) fuel src dst) as [p0|] eqn:Eb.
    - pose proof (bfs_in_all_shortest _ V _ _ _ _ pick_adj_ok Hcl Hs Eb) as Hin.
      destruct (Hk' p0 Hin) as (_ & _ & Hl0). intros q Hq.
      pose proof (bfs_shortest aedge _ pick_adj_ok _ _ _ _ Eb q Hq). lia.
    - exfalso. exact (proj1 Hc eq_refl p Hw).
  Qed.
End AllShortest.

(** * 2. Rule lookup, parameters, conversion *)
Global Instance ph_eq_dec : EqDecision ph.
Proof. solve_decision. Defined.
Global Instance pval_eq_dec : EqDecision pval.
Proof. solve_decision. Defined.
Global Instance err_eq_dec : EqDecision err.
Proof. solve_decision. Defined.
Global Instance res_eq_dec {A} `{EqDecision A} : EqDecision (res A).
Proof. solve_decision. Defined.
Global Instance bres_eq_dec {N} `{EqDecision N} : EqDecision (bres N).
Proof. solve_decision. Defined.
(** closed decidable statements: evaluate the decision procedure *)
Ltac by_compute := refine (bool_decide_unpack _ _); vm_compute; exact I.

Lemma pick_ok_iff {N} (edge edge' : N → N → Prop) pick :
  (∀ v x, edge v x ↔ edge' v x) → pick_ok edge pick → pick_ok edge' pick.
Proof. intros Hiff H v vis x. rewrite <- Hiff. apply H. Qed.
Lemma walk_iff {N} (edge edge' : N → N → Prop) src v p :
  (∀ v x, edge v x → edge' v x) → walk edge src v p → walk edge' src v p.
Proof. intros Hiff. induction 1; [constructor | econstructor; eauto]. Qed.

Section CtxProofs.
  Context {E : Type}.
  Variable apply_eq : reg → E → env → pval → res pval.
  Notation chain := (list (pctx E)).

  (** ** the most recently enabled context wins *)
  Lemma lookup_rule_app (a b : chain) e :
    lookup_rule (a ++ b) e = match lookup_rule a e with Some r => Some r | None => lookup_rule b e end.
  Proof.
    induction a as [|pc a IH]; [reflexivity|]. simpl.
    destruct (rl_lookup e (pc_rules pc)); [reflexivity | exact IH].
  Qed.
  (** the LAST context of [cs] that declares the edge *)
  Fixpoint last_declaring (cs : list (pctx E)) (e : edgek) : option (pctx E * E) :=
    match cs with
    | [] => None
    | pc :: cs' =>
        match last_declaring cs' e with
        | Some r => Some r
        | None => match rl_lookup e (pc_rules pc) with Some f => Some (pc, f) | None => None end
        end
    end.
  Lemma lookup_rule_reverse cs e : lookup_rule (reverse cs) e = last_declaring cs e.
  Proof.
    induction cs as [|pc cs IH]; [reflexivity|].
    rewrite reverse_cons, lookup_rule_app, IH. simpl.
    destruct (last_declaring cs e); [reflexivity|]. destruct (rl_lookup e (pc_rules pc)); reflexivity.
  Qed.
  Theorem newest_wins cs (c : chain) e :
    lookup_rule (insert_contexts cs c) e =
    match last_declaring cs e with Some r => Some r | None => lookup_rule c e end.
  Proof. unfold insert_contexts. rewrite lookup_rule_app, lookup_rule_reverse. reflexivity. Qed.

  (** what [enable] builds *)
  Lemma enable_shape q r cs kw (c c' : chain) :
    enable q r cs kw c = Ok c' →
    ∃ ns, Forall2 (λ x x', normalise r x = Ok x') cs ns ∧
          c' = insert_contexts (map (λ x, from_context x (env_over kw (inherited q c))) ns) c.
  Proof.
    unfold enable.
    assert (H : ∀ acc res, foldM (λ acc x, x' ←r normalise r x; Ok (acc ++ [x'])) cs acc = Ok res →
                ∃ ns, Forall2 (λ x x', normalise r x = Ok x') cs ns ∧ res = acc ++ ns).
    { induction cs as [|x cs IH]; intros acc res; simpl.
      - intros [= <-]. exists []. split; [constructor | rewrite app_nil_r; reflexivity].
      - destruct (normalise r x) as [x'|er] eqn:En; simpl; [|discriminate].
        intros Hf. destruct (IH _ _ Hf) as (ns & Hns & ->). exists (x' :: ns). split; [constructor; assumption|].
        rewrite <- app_assoc. reflexivity. }
    destruct (foldM _ cs []) as [res|er] eqn:Ef; simpl; [|discriminate].
    intros [= <-]. destruct (H _ _ Ef) as (ns & Hns & ->). exists ns. split; [exact Hns | reflexivity].
  Qed.

  (** ** parameters: keyword arguments, else the inherited ones, else the declared defaults *)
  Lemma env_over_lookup (b a : env) p :
    env_over b a !! p = match b !! p with Some v => Some v | None => a !! p end.
  Proof. unfold env_over. rewrite lookup_union. destruct (b !! p), (a !! p); reflexivity. Qed.
  Theorem param_resolution (x : ctx E) kw inh p :
    pc_env (from_context x (env_over kw inh)) !! p =
    match kw !! p with
    | Some v => Some v
    | None => match inh !! p with Some v => Some v | None => cx_defaults x !! p end
    end.
  Proof. unfold from_context. cbn [pc_env]. rewrite !env_over_lookup. destruct (kw !! p), (inh !! p); reflexivity. Qed.

  Lemma rl_lookup_head (k : edgek) (v : E) l : rl_lookup k ((k, v) :: l) = Some v.
  Proof. simpl. destruct (decide (k = k)); [reflexivity | congruence]. Qed.
  Lemma chain_defaults_single (pc : pctx E) : pc_rules pc ≠ [] → chain_defaults [pc] = pc_env pc.
  Proof.
    intros Hne. unfold chain_defaults, first_key, pc_rules in *. cbn [reverse rev_append flat_map lookup_rule].
    rewrite app_nil_r. unfold pc_rules.
    destruct (cx_rules (pc_ctx pc)) as [|[k v] l] eqn:Er; [congruence|]. cbn [map head fst].
    rewrite rl_lookup_head. reflexivity.
  Qed.
  (** one enclosing level: the enclosing context is the one inherited from — in pint as it is *)
  Definition one_level (c : chain) : Prop := c = [] ∨ ∃ pc, c = [pc] ∧ pc_rules pc ≠ [].
  Theorem inherited_one_level q (c : chain) : one_level c → inherited q c = newest_defaults c.
  Proof.
    intros [->|(pc & -> & Hne)]; destruct q; try reflexivity.
    unfold inherited. simpl. apply chain_defaults_single. exact Hne.
  Qed.
  (** any depth, under the guard "the owner of the oldest context's first rule is the newest context" *)
  Definition inherit_guard (c : chain) `{EqDecision E} : bool :=
    bool_decide (chain_defaults c = newest_defaults c).
  Theorem inherited_guarded `{EqDecision E} q (c : chain) :
    inherit_guard c = true → inherited q c = newest_defaults c.
  Proof. intros H. apply bool_decide_eq_true in H. destruct q; [exact H | reflexivity]. Qed.

  (** ** the graph of a chain *)
  Definition cedge (c : chain) (a b : uc) : Prop := (a, b) ∈ chain_edges c.
  Lemma chain_adj_spec (c : chain) v x : x ∈ chain_adj c v ↔ cedge c v x.
  Proof.
    unfold chain_adj, cedge. rewrite elem_of_remove_dups, elem_of_list_fmap. split.
    - intros ([a b] & -> & Hin). apply elem_of_list_filter in Hin as [Ha Hin]. simpl in Ha. subst a. exact Hin.
    - intros Hin. exists (v, x). split; [reflexivity|]. apply elem_of_list_filter. split; [reflexivity | exact Hin].
  Qed.
  Lemma chain_adj_nodup (c : chain) v : NoDup (chain_adj c v).
  Proof. apply NoDup_remove_dups. Qed.
  Lemma chain_nodes_src (c : chain) s : s ∈ chain_nodes c s.
  Proof. unfold chain_nodes. apply elem_of_remove_dups. left. Qed.
  Lemma chain_nodes_closed (c : chain) s : closed_in (cedge c) (chain_nodes c s).
  Proof.
    intros v w Hvw. unfold chain_nodes. apply elem_of_remove_dups. right.
    apply elem_of_list_In, in_flat_map. exists (v, w). split; [apply elem_of_list_In; exact Hvw|].
    simpl. auto.
  Qed.
  Lemma pick_adj_chain_ok (c : chain) : pick_ok (cedge c) (pick_adj (chain_adj c)).
  Proof.
    apply (pick_ok_iff (aedge (chain_adj c))); [|apply pick_adj_ok].
    intros v x. apply chain_adj_spec.
  Qed.
  Lemma pick_adj_chain_nodup (c : chain) : pick_nodup (pick_adj (chain_adj c)).
  Proof. apply pick_adj_nodup, chain_adj_nodup. Qed.

  (** ** conversion *)
  Lemma overlay_no_redefs r0 (c : chain) :
    (∀ pc, pc ∈ c → cx_redefs (pc_ctx pc) = []) → overlay r0 c = Ok r0.
  Proof.
    unfold overlay. intros H.
    assert (H' : ∀ pc, pc ∈ reverse c → cx_redefs (pc_ctx pc) = []) by (intros pc Hin; apply H, elem_of_reverse, Hin).
    clear H. induction (reverse c) as [|pc l IH]; [reflexivity|]. simpl.
    rewrite (H' pc ltac:(left)). simpl. apply IH. intros pc' Hin. apply H'. right. exact Hin.
  Qed.

  Lemma overlay_nil r0 : overlay r0 (@nil (pctx E)) = Ok r0.
  Proof. reflexivity. Qed.

  Lemma dim_of_neq_units r src dst sd dd :
    dim_of r src = Ok sd → dim_of r dst = Ok dd → sd ≠ dd → uc_eqb src dst = false.
  Proof.
    intros Hs Hd Hne. unfold uc_eqb. apply bool_decide_eq_false. intros ->. rewrite Hs in Hd. congruence.
  Qed.

  (** the search of [ctx_convert_with] never runs out of fuel, and obeys the search theorems *)
  Lemma search_spec pick (c : chain) sd dd :
    pick_ok (cedge c) pick → pick_nodup pick →
    match bfs_run2 pick (bfs_logfuel (length (chain_nodes c sd))) sd dd with
    | BFound p => found_ok (cedge c) sd dd p
    | BNone => ∀ q, ¬ walk (cedge c) sd dd q
    | BFuel => False
    end.
  Proof.
    intros Hp Hn.
    pose proof (bfs_run2_terminates (cedge c) pick Hp (chain_nodes c sd) (chain_nodes_closed c sd) Hn sd dd
                  (chain_nodes_src c sd)) as Ht.
    rewrite bfs_run2_spec in *.
    pose proof (bfs_run_correct (cedge c) pick Hp (2 ^ bfs_logfuel (length (chain_nodes c sd))) sd dd) as Hc.
    destruct (bfs_run pick _ sd dd); [exact Hc | exact Hc | congruence].
  Qed.

  (** different dimensionalities linked by the active rules: the result is the composition of
      the rule equations along a shortest chain, followed by the plain conversion *)
  Theorem ctx_convert_along_shortest pick r0 r (c : chain) x src dst sd dd :
    pick_ok (cedge c) pick → pick_nodup pick →
    overlay r0 c = Ok r → chain_active c = true →
    dim_of r src = Ok sd → dim_of r dst = Ok dd → sd ≠ dd →
    (∃ q, walk (cedge c) sd dd q) →
    ∃ p, walk (cedge c) sd dd p ∧ (∀ q, walk (cedge c) sd dd q → length p ≤ length q) ∧
         ctx_convert_with apply_eq pick r0 c x src dst
         = (q ←r along apply_eq r c p (quantity x src); finish r q dst).
  Proof.
    intros Hp Hn Ho Ha Hs Hd Hne (q0 & Hq0).
    unfold ctx_convert_with. rewrite (dim_of_neq_units _ _ _ _ _ Hs Hd Hne), Ho. cbn [rbind]. rewrite Ha, Hs, Hd. cbn [rbind].
    pose proof (search_spec pick c sd dd Hp Hn) as Hsp.
    destruct (bfs_run2 pick _ sd dd) as [p| |].
    - destruct Hsp as (Hw & _ & Hsh). exists p. split; [exact Hw|]. split; [exact Hsh | reflexivity].
    - exfalso. exact (Hsp q0 Hq0).
    - contradiction.
  Qed.

  (** every step of [along] is the equation of the newest context declaring that edge, with that
      context's parameters *)
  Lemma along_cons r (c : chain) a b p q :
    along apply_eq r c (a :: b :: p) q = (q' ←r transform apply_eq r c a b q; along apply_eq r c (b :: p) q').
  Proof. reflexivity. Qed.
  Lemma transform_newest r cs (c : chain) a b q :
    transform apply_eq r (insert_contexts cs c) a b q =
    match last_declaring cs (a, b) with
    | Some (pc, f) => apply_eq r f (pc_env pc) q
    | None => transform apply_eq r c a b q
    end.
  Proof. unfold transform. rewrite newest_wins. destruct (last_declaring cs (a, b)) as [[pc f]|]; reflexivity. Qed.

  (** same dimensionality: activation changes nothing (beyond the redefinitions it carries) *)
  Theorem same_dim_unchanged pick r0 r (c : chain) x src dst d :
    overlay r0 c = Ok r → dim_of r src = Ok d → dim_of r dst = Ok d →
    ctx_convert_with apply_eq pick r0 c x src dst = ctx_convert_with apply_eq pick r [] x src dst.
  Proof.
    intros Ho Hs Hd. unfold ctx_convert_with. destruct (uc_eqb src dst); [reflexivity|].
    rewrite Ho, overlay_nil. cbn [rbind chain_active existsb].
    change (convert_via apply_eq r [] None x src dst) with (finish r (quantity x src) dst).
    destruct (chain_active c); [|unfold convert_via; reflexivity].
    rewrite Hs, Hd. cbn [rbind]. unfold bfs_run2. destruct (decide (d = d)); [|congruence].
    unfold convert_via. cbn [along rbind]. reflexivity.
  Qed.
  Corollary same_dim_unchanged_no_redefs pick r0 (c : chain) x src dst d :
    (∀ pc, pc ∈ c → cx_redefs (pc_ctx pc) = []) → dim_of r0 src = Ok d → dim_of r0 dst = Ok d →
    ctx_convert_with apply_eq pick r0 c x src dst = ctx_convert_with apply_eq pick r0 [] x src dst.
  Proof. intros H. apply same_dim_unchanged, overlay_no_redefs, H. Qed.

  (** no chain of rules links the two dimensionalities: DimensionalityError, as without contexts *)
  Theorem unreachable_raises pick r0 r (c : chain) x src dst sd dd :
    pick_ok (cedge c) pick → pick_nodup pick →
    overlay r0 c = Ok r → dim_of r src = Ok sd → dim_of r dst = Ok dd → sd ≠ dd →
    (∀ q, ¬ walk (cedge c) sd dd q) →
    ctx_convert_with apply_eq pick r0 c x src dst = Err EDim.
  Proof.
    intros Hp Hn Ho Hs Hd Hne Hno.
    assert (Hfin : convert_via apply_eq r c None x src dst = Err EDim).
    { unfold convert_via, finish, quantity. cbn [ph_d].
      rewrite (proj2 (conv_factor_edim r src dst sd dd Hs Hd) Hne). reflexivity. }
    unfold ctx_convert_with. rewrite (dim_of_neq_units _ _ _ _ _ Hs Hd Hne), Ho. cbn [rbind].
    destruct (chain_active c); [|exact Hfin]. rewrite Hs, Hd. cbn [rbind].
    pose proof (search_spec pick c sd dd Hp Hn) as Hsp.
    destruct (bfs_run2 pick _ sd dd) as [p| |]; [|exact Hfin | contradiction].
    exfalso. exact (Hno p (proj1 Hsp)).
  Qed.

  (** the order-independent reference used by the correspondence: whatever the neighbour order,
      the path followed by [ctx_convert_with] is one of those [ctx_convert_all] enumerates *)
  Theorem ctx_convert_in_all pick r0 (c : chain) x src dst :
    pick_ok (cedge c) pick → pick_nodup pick →
    ctx_convert_with apply_eq pick r0 c x src dst ∈ ctx_convert_all apply_eq r0 c x src dst.
  Proof.
    intros Hp Hn. unfold ctx_convert_with, ctx_convert_all.
    destruct (uc_eqb src dst); [left|].
    destruct (overlay r0 c) as [r|er]; cbn [rbind]; [|left].
    destruct (chain_active c); [|left].
    destruct (dim_of r src) as [sd|er]; cbn [rbind]; [|left].
    destruct (dim_of r dst) as [dd|er]; cbn [rbind]; [|left].
    pose proof (search_spec pick c sd dd Hp Hn) as Hsp.
    assert (Hp' : pick_ok (aedge (chain_adj c)) pick).
    { apply (pick_ok_iff (cedge c)); [|exact Hp]. intros v w. symmetry. apply chain_adj_spec. }
    assert (Hcl : closed_in (aedge (chain_adj c)) (chain_nodes c sd)).
    { intros v w Hvw. apply (chain_nodes_closed c sd v w). apply chain_adj_spec. exact Hvw. }
    destruct (bfs_run2 pick _ sd dd) as [p| |] eqn:Eb; [| |contradiction].
    - assert (Hin : p ∈ all_shortest (chain_adj c) (length (chain_nodes c sd)) sd dd).
      { apply (bfs_in_all_shortest (chain_adj c) pick (chain_nodes c sd) (2 ^ bfs_logfuel (length (chain_nodes c sd))));
          [exact Hp' | exact Hcl | apply chain_nodes_src|].
        unfold bfs. rewrite <- bfs_run2_spec, Eb. reflexivity. }
      destruct (all_shortest (chain_adj c) (length (chain_nodes c sd)) sd dd) as [|p0 ps] eqn:Ea; [inversion Hin|].
      apply (elem_of_list_fmap_1 (λ p, convert_via apply_eq r c (Some p) x src dst)). exact Hin.
    - destruct (all_shortest (chain_adj c) (length (chain_nodes c sd)) sd dd) as [|p0 ps] eqn:Ea; [left|].
      exfalso. assert (Hin : p0 ∈ all_shortest (chain_adj c) (length (chain_nodes c sd)) sd dd) by (rewrite Ea; left).
      destruct (all_shortest_sound (chain_adj c) (chain_nodes c sd) sd dd p0 (chain_adj_nodup c) Hcl
                  (chain_nodes_src c sd) Hin) as [Hw _].
      apply (Hsp p0). apply (walk_iff (aedge (chain_adj c))); [|exact Hw]. intros v w. apply chain_adj_spec.
  Qed.
End CtxProofs.

(** ** F5: with two enclosing levels the parameters come from the OUTERMOST context *)
Open Scope string_scope.
Definition w_reg3 : reg :=
  Reg ∅ [] {[ "" := PDef "" None [] 1%Qc ]} [""]
      {[ "[a]" := DBase; "[b]" := DBase; "[c]" := DBase ]} [].
Definition w_dim (s : string) : uc := {[ s := 1%Qc ]}.
Definition w_n (x : Z) : env := {[ "n" := number_param (mkq x 1) ]}.
(** three contexts with one rule each (equations are irrelevant here: [E := nat]) *)
Definition w_c1 : ctx nat := Ctx "c1" [] (w_n 1) [((w_dim "[a]", w_dim "[b]"), 1%nat)] [].
Definition w_c2 : ctx nat := Ctx "c2" [] (w_n 2) [((w_dim "[b]", w_dim "[c]"), 2%nat)] [].
Definition w_c3 : ctx nat := Ctx "c3" [] (w_n 3) [((w_dim "[a]", w_dim "[c]"), 3%nat)] [].
(** [with context(c1, n=10): with context(c2, n=20): with context(c3):] *)
Definition w_nested (q : bool) : res (list (pctx nat)) :=
  ch1 ←r enable q w_reg3 [w_c1] (w_n 10) [];
  ch2 ←r enable q w_reg3 [w_c2] (w_n 20) ch1;
  enable q w_reg3 [w_c3] ∅ ch2.
Definition w_param (q : bool) (i : nat) : option pval :=
  match w_nested q with Ok ch => pc ← ch !! i; pc_env pc !! "n" | Err _ => None end.

Lemma nested_as_coded :
  w_param true 0 = Some (number_param (mkq 10 1)) ∧      (* c3 got n = 10 ... *)
  w_param true 1 = Some (number_param (mkq 20 1)) ∧      (* ... although its enclosing context c2 has n = 20 *)
  w_param true 2 = Some (number_param (mkq 10 1)).
Proof. repeat split; by_compute. Qed.
Lemma nested_repaired :
  w_param false 0 = Some (number_param (mkq 20 1)).
Proof. by_compute. Qed.

(** the statement "a context enabled without a value for [p] takes it from the innermost
    enclosing context" fails for pint as it is *)
Definition w_c12 : list (pctx nat) :=
  match (ch1 ←r enable true w_reg3 [w_c1] (w_n 10) []; enable true w_reg3 [w_c2] (w_n 20) ch1) with
  | Ok c => c | Err _ => [] end.
Definition w_c123 : list (pctx nat) :=
  match enable true w_reg3 [w_c3] ∅ w_c12 with Ok c => c | Err _ => [] end.
Theorem param_precedence_refuted :
  ∃ (r : reg) (c : list (pctx nat)) (x : ctx nat) (c' : list (pctx nat)) (p : string),
    enable true r [x] ∅ c = Ok c' ∧
    (pc ← c' !! 0%nat; pc_env pc !! p) ≠ newest_defaults c !! p.
Proof.
  exists w_reg3, w_c12, w_c3, w_c123, "n". split.
  - unfold w_c123. destruct (enable true w_reg3 [w_c3] ∅ w_c12) as [c|e] eqn:E; [reflexivity|].
    vm_compute in E. discriminate.
  - by_compute.
Qed.
Close Scope string_scope.

(** * 3. Redefinitions reach exactly the dependent units (frame part)

    [K] is the set of spellings a redefinition affects.  If two registries resolve every name
    outside [K] alike, then the root units of a container whose expansion never meets a name of
    [K] are the same in both: an overlay changes nothing but the units that reach, through their
    reference chains, a redefined unit. *)
Section Redef.
  Variable K : string → Prop.

  Fixpoint reach_free (f : nat) (r : reg) (l : list (string * Qc)) : Prop :=
    match f with
    | O => True
    | S f' => Forall (λ kv : string * Qc,
                ¬ K kv.1 ∧
                match resolve r kv.1 with
                | Ok d => ¬ K (u_name d) ∧ (u_base d = false → reach_free f' r (map_to_list (u_ref d)))
                | Err _ => True
                end) l
    end.

  Lemma foldM_ext_Forall {A B} (g g' : A → B → res A) (P : A → Prop) l :
    (∀ a b, P a → b ∈ l → g a b = g' a b ∧ ∀ a', g a b = Ok a' → P a') →
    ∀ a, P a → foldM g l a = foldM g' l a ∧ ∀ a', foldM g l a = Ok a' → P a'.
  Proof.
    induction l as [|b l IH]; intros Hg a Pa; simpl.
    - split; [reflexivity | intros a' [= <-]; exact Pa].
    - destruct (Hg a b Pa ltac:(left)) as [Heq Hp]. rewrite <- Heq.
      destruct (g a b) as [a1|er]; simpl; [|split; [reflexivity | discriminate]].
      apply IH; [|apply Hp; reflexivity]. intros a0 b0 P0 Hin. apply Hg; [exact P0 | right; exact Hin].
  Qed.

  Definition clean (a : uc) : Prop := ∀ g, is_Some (a !! g) → ¬ K g.
  Lemma clean_add a k v : clean a → ¬ K k → clean (uc_add a k v).
  Proof.
    intros Ha Hk g. unfold uc_add. destruct (qz _).
    - intros Hs. apply Ha. destruct (decide (k = g)) as [->|Hne];
        [rewrite lookup_delete in Hs; destruct Hs; discriminate | rewrite lookup_delete_ne in Hs by exact Hne; exact Hs].
    - destruct (decide (k = g)) as [->|Hne]; [intros _; exact Hk|].
      rewrite lookup_insert_ne by exact Hne. apply Ha.
  Qed.

  Variables r r' : reg.
  Hypothesis agree : ∀ s, ¬ K s → resolve r' s = resolve r s.

  Lemma root_rec_S f rr l e acc :
    root_rec (S f) rr l e acc =
    foldM (λ acc kv, let '(key, v) := kv in let exp2 := (e * v)%Qc in
       d ←r resolve rr key;
       if u_base d then Ok (RAcc (ra_F acc) (uc_add (ra_B acc) (u_name d) exp2) (ra_exact acc))
       else root_rec f rr (map_to_list (u_ref d)) exp2
              (RAcc (if bool_decide (u_scale d = 1%Qc) && negb (u_float d) then ra_F acc else uc_add (ra_F acc) (u_name d) exp2)
                    (ra_B acc) (ra_exact acc && (is_int exp2 && negb (u_float d))))) l acc.
  Proof. reflexivity. Qed.

  Lemma root_rec_frame f : ∀ l e acc,
    reach_free f r l → clean (ra_F acc) →
    root_rec f r' l e acc = root_rec f r l e acc ∧
    ∀ acc', root_rec f r' l e acc = Ok acc' → clean (ra_F acc').
  Proof.
    induction f as [|f IH]; intros l e acc Hl Hc.
    { change (root_rec 0 r' l e acc) with (@Err racc EFuel). change (root_rec 0 r l e acc) with (@Err racc EFuel).
      split; [reflexivity | discriminate]. }
    rewrite !root_rec_S. cbn [reach_free] in Hl. rewrite Forall_forall in Hl.
    apply (foldM_ext_Forall _ _ (λ a, clean (ra_F a))); [|exact Hc].
    intros a [k v] Pa Hin. destruct (Hl _ Hin) as [Hk Hres]. cbn [fst] in Hk, Hres.
    rewrite (agree k Hk). destruct (resolve r k) as [d|er]; cbn [rbind]; [|split; [reflexivity | discriminate]].
    destruct Hres as [Hnd Href]. destruct (u_base d) eqn:Eb.
    - split; [reflexivity|]. intros a' [= <-]. exact Pa.
    - apply IH; [apply Href; reflexivity|]. cbn [ra_F].
      destruct (bool_decide (u_scale d = 1%Qc) && negb (u_float d)); [exact Pa | apply clean_add; assumption].
  Qed.

  Lemma eval_factor_frame F : clean F → eval_factor r' F = eval_factor r F.
  Proof.
    intros Hc. unfold eval_factor.
    apply (foldM_ext_Forall _ _ (λ _, True)); [|exact Logic.I].
    intros a [g x] _ Hin. split; [|auto]. apply elem_of_map_to_list in Hin.
    rewrite (agree g); [reflexivity|]. apply Hc. eauto.
  Qed.

  (** [get_root_units] of a container whose expansion stays outside [K] is unchanged *)
  Theorem root_of_frame (a : uc) :
    reach_free (reg_fuel r) r (map_to_list a) → root_of r' a = root_of r a.
  Proof.
    intros Hfree. unfold root_of, root_sym. change (reg_fuel r') with (reg_fuel r).
    destruct (root_rec_frame (reg_fuel r) (map_to_list a) 1%Qc (RAcc ∅ ∅ true) Hfree) as [Heq Hclean].
    { intros g [x Hx]. cbn [ra_F] in Hx. rewrite lookup_empty in Hx. discriminate. }
    rewrite Heq in *. destruct (root_rec (reg_fuel r) r (map_to_list a) 1%Qc (RAcc ∅ ∅ true)) as [acc|er]; cbn [rbind]; [|reflexivity].
    rewrite (eval_factor_frame (ra_F acc) (Hclean acc eq_refl)). reflexivity.
  Qed.
End Redef.

(** what [redefine] writes: the new definition under the canonical name, symbol and aliases of the
    unit, nothing else *)
Lemma add_def_keys_other d (m : gmap string udef) k :
  k ≠ u_name d → (∀ s, u_sym d = Some s → k ≠ s) → k ∉ u_aliases d → add_def_keys d m !! k = m !! k.
Proof.
  intros Hn Hs Ha. unfold add_def_keys.
  assert (Hfold : ∀ (l : list string) (m0 : gmap string udef), k ∉ l →
            fold_left (λ m a, <[a := d]> m) l m0 !! k = m0 !! k).
  { induction l as [|a l IH]; intros m0 Hnot; [reflexivity|]. simpl. rewrite IH.
    - apply lookup_insert_ne. intros ->. apply Hnot. left.
    - intros Hin. apply Hnot. right. exact Hin. }
  rewrite Hfold by exact Ha.
  destruct (u_sym d) as [s|] eqn:Es.
  - destruct (String.eqb s "").
    + apply lookup_insert_ne. congruence.
    + rewrite lookup_insert_ne by (intros <-; exact (Hs s eq_refl eq_refl)). apply lookup_insert_ne. congruence.
  - apply lookup_insert_ne. congruence.
Qed.

(** * 4. Non-vacuity: the spectroscopy context ([length] <-> [frequency] <-> [energy], [wavenumber]) *)
Open Scope string_scope.
Definition sp_raw : rawctx :=
  RawCtx "spectroscopy" ["sp"] [("n", [TNum "1"; TEnd])]
    [RawRel true [TName "[length]"; TEnd] [TName "[frequency]"; TEnd]
       [TName "speed_of_light"; TOp "/"; TName "n"; TOp "/"; TName "value"; TEnd];
     RawRel false [TName "[frequency]"; TEnd] [TName "[energy]"; TEnd]
       [TName "planck_constant"; TOp "*"; TName "value"; TEnd];
     RawRel false [TName "[energy]"; TEnd] [TName "[frequency]"; TEnd]
       [TName "value"; TOp "/"; TName "planck_constant"; TEnd];
     RawRel true [TName "[wavenumber]"; TEnd] [TName "[length]"; TEnd]
       [TNum "1"; TOp "/"; TName "value"; TEnd]] [].
(** a small registry with the definitions the context needs (exact CODATA values) *)
Definition sp_defs : list rawdef :=
  [RPrefix ["nano-"; "n-"] [TNum "1e-9"; TEnd];
   RPrefix ["tera-"; "T-"] [TNum "1e12"; TEnd];
   RUnit ["meter"; "m"] [TName "[length]"; TEnd] [];
   RUnit ["second"; "s"] [TName "[time]"; TEnd] [];
   RUnit ["gram"; "g"] [TName "[mass]"; TEnd] [];
   RDerivedDim "[frequency]" [TNum "1"; TOp "/"; TName "[time]"; TEnd];
   RDerivedDim "[wavenumber]" [TNum "1"; TOp "/"; TName "[length]"; TEnd];
   RDerivedDim "[energy]" [TName "[mass]"; TOp "*"; TName "[length]"; TOp "**"; TNum "2"; TOp "/"; TName "[time]"; TOp "**"; TNum "2"; TEnd];
   RUnit ["hertz"; "Hz"] [TNum "1"; TOp "/"; TName "second"; TEnd] [];
   RUnit ["joule"; "J"] [TNum "1000"; TOp "*"; TName "gram"; TOp "*"; TName "meter"; TOp "**"; TNum "2"; TOp "/"; TName "second"; TOp "**"; TNum "2"; TEnd] [];
   RUnit ["speed_of_light"; "c"] [TNum "299792458"; TOp "*"; TName "meter"; TOp "/"; TName "second"; TEnd] [];
   RUnit ["planck_constant"; "h"] [TNum "6.62607015e-34"; TOp "*"; TName "joule"; TOp "*"; TName "second"; TEnd] [];
   RUnit ["electron_volt"; "eV"] [TNum "1.602176634e-19"; TOp "*"; TName "joule"; TEnd] []].
Definition sp_reg : reg := match load sp_defs with Ok r => r | Err _ => empty_reg end.
Definition sp_chain (kw : env) : list (pctx (list tok)) :=
  match elab_ctx sp_reg true sp_raw with
  | Ok c => match enable true sp_reg [c] kw [] with Ok ch => ch | Err _ => [] end
  | Err _ => []
  end.
Definition u1 (s : string) : uc := {[ s := 1%Qc ]}.

(** 500 nm -> THz: one rule; 500 nm -> eV: two rules ([length] -> [frequency] -> [energy]) *)
Lemma sp_examples :
  ctx_convert eval_eq sp_reg (sp_chain ∅) (mkq 500 1) (u1 "nanometer") (u1 "terahertz")
    = Ok (Some (mkq 149896229 250000)) ∧
  ctx_convert eval_eq sp_reg (sp_chain ∅) (mkq 500 1) (u1 "nanometer") (u1 "electron_volt")
    = Ok (Some (mkq 6621486190496429 2670294390000000)) ∧
  (* refraction index given as keyword argument *)
  ctx_convert eval_eq sp_reg (sp_chain {[ "n" := number_param (mkq 3 2) ]}) (mkq 500 1) (u1 "nanometer") (u1 "terahertz")
    = Ok (Some (mkq 149896229 375000)) ∧
  (* unreachable: [length] -> [mass] *)
  ctx_convert eval_eq sp_reg (sp_chain ∅) (mkq 500 1) (u1 "nanometer") (u1 "gram") = Err EDim ∧
  (* the search and the enumeration of all shortest chains *)
  bfs (pick_adj (chain_adj (sp_chain ∅))) (bfs_bound 4) {[ "[length]" := 1%Qc ]}
      {[ "[length]" := 2%Qc; "[mass]" := 1%Qc; "[time]" := (-2)%Qc ]}
    = Some [{[ "[length]" := 1%Qc ]}; {[ "[time]" := (-1)%Qc ]};
            {[ "[length]" := 2%Qc; "[mass]" := 1%Qc; "[time]" := (-2)%Qc ]}] ∧
  chain_active (sp_chain ∅) = true.
Proof. repeat split; by_compute. Qed.

(** a graph with two shortest paths: different neighbour orders find different ones, both listed *)
Definition dia (v : nat) : list nat :=
  match v with 0 => [1; 2] | 1 => [3] | 2 => [3] | 3 => [4] | _ => [] end%nat.
Definition dia' (v : nat) : list nat :=
  match v with 0 => [2; 1] | 1 => [3] | 2 => [3] | 3 => [4] | _ => [] end%nat.
Lemma dia_examples :
  bfs (pick_adj dia) 10 0 4 = Some [0; 1; 3; 4] ∧ bfs (pick_adj dia') 10 0 4 = Some [0; 2; 3; 4] ∧
  all_shortest dia 5 0 4 = [[0; 1; 3; 4]; [0; 2; 3; 4]] ∧ bfs (pick_adj dia) 10 4 0 = None ∧
  bfs_run (pick_adj dia) 2 0 4 = BFuel.
Proof. repeat split; reflexivity. Qed.

(** the guard of [inherited_guarded] holds for a non-trivial two-level chain: the inner context
    re-declares the outer context's first rule *)
Definition g_c2 : ctx nat := Ctx "c2" [] (w_n 2) [((w_dim "[a]", w_dim "[b]"), 2%nat); ((w_dim "[b]", w_dim "[c]"), 2%nat)] [].
Definition g_chain : list (pctx nat) :=
  match (ch1 ←r enable true w_reg3 [w_c1] (w_n 10) []; enable true w_reg3 [g_c2] (w_n 20) ch1) with
  | Ok c => c | Err _ => [] end.
Lemma guard_example : length g_chain = 2%nat ∧ inherit_guard g_chain = true.
Proof. split; vm_compute; reflexivity. Qed.

(** redefinition frame, concretely: [foot = 10 inch] inside a context changes [yard] (= 3 foot)
    and leaves [hour] alone *)
Definition rd_defs : list rawdef :=
  [RUnit ["inch"] [TName "[length]"; TEnd] []; RUnit ["second"] [TName "[time]"; TEnd] [];
   RUnit ["foot"; "ft"] [TNum "12"; TOp "*"; TName "inch"; TEnd] [];
   RUnit ["yard"] [TNum "3"; TOp "*"; TName "foot"; TEnd] [];
   RUnit ["hour"] [TNum "3600"; TOp "*"; TName "second"; TEnd] []].
Definition rd_reg : reg := match load rd_defs with Ok r => r | Err _ => empty_reg end.
Definition rd_reg' : reg :=
  match redefine rd_reg (Redef "foot" [TNum "10"; TOp "*"; TName "inch"; TEnd]) with Ok r => r | Err _ => empty_reg end.
Definition root_factor (r : reg) (s : string) : option Qc :=
  match root_of r (u1 s) with Ok (f, _, _) => f | Err _ => None end.
Lemma redefinition_example :
  root_factor rd_reg "yard" = Some (mkq 36 1) ∧ root_factor rd_reg' "yard" = Some (mkq 30 1) ∧
  root_factor rd_reg' "foot" = Some (mkq 10 1) ∧ root_factor rd_reg' "hour" = root_factor rd_reg "hour" ∧
  root_factor rd_reg "hour" = Some (mkq 3600 1).
Proof. repeat split; by_compute. Qed.

(** * 5. [redefine] changes the resolution of the redefined unit's spellings only *)
Definition spellings (d : udef) : list string :=
  u_name d :: app (match u_sym d with Some s => if String.eqb s "" then [] else [s] | None => [] end) (u_aliases d).

Lemma fold_insert_lookup (d : udef) (l : list string) (m : gmap string udef) k :
  fold_left (λ m a, <[a := d]> m) l m !! k = if decide (k ∈ l) then Some d else m !! k.
Proof.
  revert m. induction l as [|a l IH]; intros m; simpl.
  - destruct (decide (k ∈ [])) as [H|_]; [inversion H | reflexivity].
  - rewrite IH. destruct (decide (k ∈ l)) as [Hl|Hl].
    + destruct (decide (k ∈ a :: l)) as [_|Hn]; [reflexivity | exfalso; apply Hn; right; exact Hl].
    + destruct (decide (k = a)) as [->|Hne].
      * rewrite lookup_insert. destruct (decide (a ∈ a :: l)) as [_|Hn]; [reflexivity | exfalso; apply Hn; left].
      * rewrite lookup_insert_ne by congruence.
        destruct (decide (k ∈ a :: l)) as [Hin|_]; [|reflexivity].
        apply elem_of_cons in Hin as [->|Hin]; contradiction.
Qed.
Lemma add_def_keys_lookup d (m : gmap string udef) k :
  add_def_keys d m !! k = if decide (k ∈ spellings d) then Some d else m !! k.
Proof.
  unfold add_def_keys, spellings. rewrite fold_insert_lookup.
  destruct (decide (k ∈ u_aliases d)) as [Ha|Ha].
  - destruct (decide (k ∈ _)) as [_|Hn]; [reflexivity|]. exfalso. apply Hn. right. apply elem_of_app. right. exact Ha.
  - destruct (u_sym d) as [s|]; [destruct (String.eqb s "") eqn:Es|]; cbn [app].
    + destruct (decide (k = u_name d)) as [->|Hne].
      * rewrite lookup_insert. destruct (decide (u_name d ∈ _)) as [_|Hn]; [reflexivity | exfalso; apply Hn; left].
      * rewrite lookup_insert_ne by congruence. destruct (decide (k ∈ _)) as [Hin|_]; [|reflexivity].
        apply elem_of_cons in Hin as [->|Hin]; contradiction.
    + destruct (decide (k = s)) as [->|Hs].
      * rewrite lookup_insert. destruct (decide (s ∈ _)) as [_|Hn]; [reflexivity | exfalso; apply Hn; right; left].
      * rewrite lookup_insert_ne by congruence. destruct (decide (k = u_name d)) as [->|Hne].
        -- rewrite lookup_insert. destruct (decide (u_name d ∈ _)) as [_|Hn]; [reflexivity | exfalso; apply Hn; left].
        -- rewrite lookup_insert_ne by congruence. destruct (decide (k ∈ _)) as [Hin|_]; [|reflexivity].
           apply elem_of_cons in Hin as [->|Hin]; [contradiction|]. apply elem_of_cons in Hin as [->|Hin]; contradiction.
    + destruct (decide (k = u_name d)) as [->|Hne].
      * rewrite lookup_insert. destruct (decide (u_name d ∈ _)) as [_|Hn]; [reflexivity | exfalso; apply Hn; left].
      * rewrite lookup_insert_ne by congruence. destruct (decide (k ∈ _)) as [Hin|_]; [|reflexivity].
        apply elem_of_cons in Hin as [->|Hin]; contradiction.
Qed.

Section Agree.
  Variables (r : reg) (nd : udef).
  Definition r_over : reg := with_units r (add_def_keys nd (r_units r)).
  (** every spelling of the redefined unit already denotes a unit of that name and symbol *)
  Hypothesis own : ∀ k, k ∈ spellings nd →
    ∃ b, r_units r !! k = Some b ∧ u_name b = u_name nd ∧ u_symbol b = u_symbol nd.

  Lemma over_lookup k : r_units r_over !! k = if decide (k ∈ spellings nd) then Some nd else r_units r !! k.
  Proof. apply add_def_keys_lookup. Qed.

  Lemma over_pointwise k :
    match r_units r_over !! k, r_units r !! k with
    | Some a, Some b => u_name a = u_name b ∧ u_symbol a = u_symbol b ∧ (k ∉ spellings nd → a = b)
    | None, None => True
    | _, _ => False
    end.
  Proof.
    rewrite over_lookup. destruct (decide (k ∈ spellings nd)) as [Hin|Hn].
    - destruct (own k Hin) as (b & -> & Hn & Hs). repeat split; auto. contradiction.
    - destruct (r_units r !! k); auto.
  Qed.

  Lemma over_triplets s : triplets r_over s = triplets r s.
  Proof.
    unfold triplets. apply flat_map_ext. intros suffix. apply flat_map_ext. intros pk.
    change (r_prefixes r_over) with (r_prefixes r).
    destruct (String.prefix pk s && ends_with suffix s); [|reflexivity].
    set (name := if String.eqb suffix "" then _ else _).
    destruct (negb (String.eqb suffix "") && Nat.eqb (ulen name) 1); [reflexivity|].
    pose proof (over_pointwise name) as H.
    destruct (r_units r_over !! name), (r_units r !! name); try contradiction; [|reflexivity].
    destruct H as (-> & _ & _). reflexivity.
  Qed.
  Lemma over_parse s : parse_unit_name r_over s = parse_unit_name r s.
  Proof. unfold parse_unit_name. rewrite over_triplets. reflexivity. Qed.
  Lemma over_symbol s : get_symbol r_over s = get_symbol r s.
  Proof.
    unfold get_symbol. rewrite over_parse. destruct (parse_unit_name r s) as [|[p u] l]; [reflexivity|].
    change (r_prefixes r_over) with (r_prefixes r). destruct (r_prefixes r !! p); [|reflexivity].
    pose proof (over_pointwise u) as H.
    destruct (r_units r_over !! u), (r_units r !! u); try contradiction; [|reflexivity].
    destruct H as (_ & -> & _). reflexivity.
  Qed.

  (** the spellings a resolution reads in the unit table: the string itself; failing that the unit
      of the first candidate, and for a prefixed candidate also the composed name prefix+unit
      (a written definition of that name is never replaced) *)
  Definition consult (s : string) : list string :=
    match r_units r !! s with
    | Some _ => [s]
    | None => match parse_unit_name r s with
              | [] => []
              | (p, u) :: _ => if String.eqb p "" then [u] else [p ++ u; u]
              end
    end.
  Definition touched (s : string) : Prop := ∃ k, k ∈ consult s ∧ k ∈ spellings nd.

  Lemma over_same k : k ∉ spellings nd → r_units r_over !! k = r_units r !! k.
  Proof.
    intros Hk. pose proof (over_pointwise k) as H.
    destruct (r_units r_over !! k), (r_units r !! k); try contradiction; [|reflexivity].
    destruct H as (_ & _ & Heq). rewrite Heq; [reflexivity | exact Hk].
  Qed.

  Theorem over_agree s : ¬ touched s → resolve r_over s = resolve r s.
  Proof.
    intros Hn. unfold resolve. pose proof (over_pointwise s) as Hs. unfold touched, consult in Hn.
    destruct (r_units r !! s) as [b|] eqn:Eb.
    - destruct (r_units r_over !! s) as [a|]; [|contradiction]. destruct Hs as (_ & _ & Heq).
      rewrite Heq; [reflexivity|]. intros Hin. apply Hn. exists s. split; [left | exact Hin].
    - destruct (r_units r_over !! s); [contradiction|]. rewrite over_parse.
      destruct (parse_unit_name r s) as [|[p u] l]; [reflexivity|].
      destruct (String.eqb p "") eqn:Ep.
      + rewrite over_same; [reflexivity|]. intros Hin. apply Hn. exists u. split; [left | exact Hin].
      + rewrite (over_same (p ++ u)) by (intros Hin; apply Hn; exists (p ++ u); split; [left | exact Hin]).
        destruct (r_units r !! (p ++ u)); [reflexivity|].
        unfold prefixed_def. change (r_prefixes r_over) with (r_prefixes r).
        rewrite (over_same u) by (intros Hin; apply Hn; exists u; split; [right; left | exact Hin]).
        rewrite over_symbol. reflexivity.
  Qed.
End Agree.

(** what [redefine] builds *)
Lemma redefine_shape (r r' : reg) (d : redef) :
  redefine r d = Ok r' →
  ∃ base sc fl ref,
    u_base base = false ∧
    r' = r_over r (UDef (u_name base) (Some (u_symbol base)) (u_aliases base) sc fl CScale ref false).
Proof.
  unfold redefine. destruct (parse_unit_name r (rd_name d)) as [|c cs]; [discriminate|].
  destruct (filter _ (c :: cs)) as [|[p name] l]; [discriminate|].
  destruct (r_units r !! name) as [base|]; [|discriminate].
  destruct (u_base base) eqn:Eb; [discriminate|].
  destruct (ph_from_tokens (rd_rhs d)) as [[p0 fl]|]; cbn [rbind]; [|discriminate].
  destruct (dim_of r (u_ref base)) as [d_old|]; cbn [rbind]; [|discriminate].
  destruct (dim_of r (ph_d p0)) as [d_new|]; cbn [rbind]; [|discriminate].
  destruct (negb (uc_eqb d_old d_new)); [discriminate|]. intros [= <-].
  exists base, (ph_scale p0), fl, (ph_d p0). split; [exact Eb | reflexivity].
Qed.

(** Redefinitions are transitive and nothing else moves: after [redefine] (every spelling of the
    unit denoting it beforehand), the root units of any container whose expansion never consults
    one of those spellings are what they were. *)
Theorem redefinition_frame (r r' : reg) (d : redef) :
  redefine r d = Ok r' →
  ∃ nd, r' = r_over r nd ∧
    ((∀ k, k ∈ spellings nd → ∃ b, r_units r !! k = Some b ∧ u_name b = u_name nd ∧ u_symbol b = u_symbol nd) →
     ∀ a, reach_free (touched r nd) (reg_fuel r) r (map_to_list a) → root_of r' a = root_of r a).
Proof.
  intros H. destruct (redefine_shape r r' d H) as (base & sc & fl & ref & _ & ->).
  set (nd := UDef (u_name base) (Some (u_symbol base)) (u_aliases base) sc fl CScale ref false).
  exists nd. split; [reflexivity|]. intros own a Hfree.
  apply (root_of_frame (touched r nd)); [|exact Hfree]. intros s Hs. apply over_agree; assumption.
Qed.

(** decidable forms of the two hypotheses, so that they can be checked on a concrete registry *)
Definition touchedb (r : reg) (nd : udef) (s : string) : bool :=
  existsb (λ k, bool_decide (k ∈ spellings nd)) (consult r s).
Lemma touchedb_spec r nd s : touchedb r nd s = false → ¬ touched r nd s.
Proof.
  unfold touchedb, touched. intros H (k & Hc & Hin).
  assert (Ht : existsb (λ k, bool_decide (k ∈ spellings nd)) (consult r s) = true).
  { apply existsb_exists. exists k. split; [apply elem_of_list_In; exact Hc | apply bool_decide_eq_true; exact Hin]. }
  congruence.
Qed.
Fixpoint reach_freeb (f : nat) (r : reg) (nd : udef) (l : list (string * Qc)) : bool :=
  match f with
  | O => true
  | S f' => forallb (λ kv : string * Qc,
              negb (touchedb r nd kv.1) &&
              match resolve r kv.1 with
              | Ok d => negb (touchedb r nd (u_name d)) && (u_base d || reach_freeb f' r nd (map_to_list (u_ref d)))
              | Err _ => true
              end) l
  end.
Lemma reach_freeb_spec r nd f : ∀ l, reach_freeb f r nd l = true → reach_free (touched r nd) f r l.
Proof.
  induction f as [|f IH]; intros l H; [exact I|]. cbn [reach_free reach_freeb] in *.
  rewrite forallb_forall in H. apply Forall_forall. intros kv Hin. apply elem_of_list_In in Hin.
  specialize (H kv Hin). apply andb_true_iff in H as [H1 H2]. apply negb_true_iff in H1.
  split; [apply touchedb_spec; exact H1|].
  destruct (resolve r kv.1) as [d|]; [|exact I].
  apply andb_true_iff in H2 as [H2 H3]. apply negb_true_iff in H2.
  split; [apply touchedb_spec; exact H2|]. intros Hb. rewrite Hb in H3. apply IH. exact H3.
Qed.
Definition ownb (r : reg) (nd : udef) : bool :=
  forallb (λ k, match r_units r !! k with
                | Some b => bool_decide (u_name b = u_name nd) && bool_decide (u_symbol b = u_symbol nd)
                | None => false
                end) (spellings nd).
Lemma ownb_spec r nd : ownb r nd = true →
  ∀ k, k ∈ spellings nd → ∃ b, r_units r !! k = Some b ∧ u_name b = u_name nd ∧ u_symbol b = u_symbol nd.
Proof.
  unfold ownb. rewrite forallb_forall. intros H k Hin. apply elem_of_list_In in Hin. specialize (H k Hin).
  destruct (r_units r !! k) as [b|]; [|discriminate]. apply andb_true_iff in H as [H1 H2].
  apply bool_decide_eq_true in H1, H2. eauto.
Qed.
Theorem redefinition_frame_dec (r r' : reg) (d : redef) :
  redefine r d = Ok r' →
  ∃ nd, r' = r_over r nd ∧
    (ownb r nd = true → ∀ a, reach_freeb (reg_fuel r) r nd (map_to_list a) = true → root_of r' a = root_of r a).
Proof.
  intros H. destruct (redefinition_frame r r' d H) as (nd & -> & Hf). exists nd. split; [reflexivity|].
  intros Ho a Ha. apply Hf; [apply ownb_spec; exact Ho | apply reach_freeb_spec; exact Ha].
Qed.

(** the hypotheses on the concrete registry of [redefinition_example]: [foot] owns its spellings,
    [hour] never consults them, [yard] does *)
Definition rd_nd : udef :=
  match r_units rd_reg !! "foot" with
  | Some base => UDef (u_name base) (Some (u_symbol base)) (u_aliases base) (mkq 10 1) false CScale (u1 "inch") false
  | None => UDef "" None [] 1%Qc false CScale ∅ false
  end.
Lemma redefinition_hypotheses :
  rd_reg' = r_over rd_reg rd_nd ∧ ownb rd_reg rd_nd = true ∧
  reach_freeb (reg_fuel rd_reg) rd_reg rd_nd (map_to_list (u1 "hour")) = true ∧
  reach_freeb (reg_fuel rd_reg) rd_reg rd_nd (map_to_list (u1 "yard")) = false.
Proof. repeat split; try (vm_compute; reflexivity). Qed.

(** * 6. Colliding redefinitions: the most recently enabled context is in force, whatever
    spelling (canonical name, symbol, alias) each context uses to designate the unit *)
Lemma foldM_app {A B} (g : A → B → res A) (l1 l2 : list B) a :
  foldM g (app l1 l2) a = (a' ←r foldM g l1 a; foldM g l2 a').
Proof.
  revert a. induction l1 as [|b l1 IH]; intros a; [reflexivity|]. simpl.
  destruct (g a b) as [a1|e]; simpl; [apply IH | reflexivity].
Qed.
(** the redefinitions of the newest context are applied LAST, on top of the overlay of the older ones *)
Lemma overlay_cons {E} r (pc : pctx E) (c : list (pctx E)) :
  overlay r (pc :: c) = (r1 ←r overlay r c; foldM redefine (cx_redefs (pc_ctx pc)) r1).
Proof.
  unfold overlay. rewrite reverse_cons, foldM_app. destruct (foldM _ (reverse c) r) as [r1|e]; [|reflexivity].
  simpl. destruct (foldM redefine (cx_redefs (pc_ctx pc)) r1); reflexivity.
Qed.
(** and a redefinition, applied to ANY registry (so also on top of earlier redefinitions of the same
    unit made under other spellings), is in force under every spelling of the unit *)
Theorem redefine_in_force (r r' : reg) (d : redef) :
  redefine r d = Ok r' →
  ∃ nd, r' = r_over r nd ∧ ∀ k, k ∈ spellings nd → r_units r' !! k = Some nd.
Proof.
  intros H. destruct (redefine_shape r r' d H) as (base & sc & fl & ref & _ & ->).
  eexists. split; [reflexivity|]. intros k Hk. rewrite over_lookup.
  destruct (decide (k ∈ _)); [reflexivity | contradiction].
Qed.
(** two contexts redefine [foot], one as [foot], the other by its symbol [ft]: the newest one counts,
    also for [yard] = 3 foot; within one context the last line counts *)
Definition rd_ctx (name : string) (lines : list (string * string)) : pctx nat :=
  PCtx (Ctx name [] ∅ [] (map (λ l : string * string, Redef l.1 [TNum l.2; TOp "*"; TName "inch"; TEnd]) lines)) ∅.
Definition yard_under (c : list (pctx nat)) : option Qc :=
  match overlay rd_reg c with Ok r => root_factor r "yard" | Err _ => None end.
Lemma colliding_redefinitions :
  yard_under [rd_ctx "new" [("ft", "7")]; rd_ctx "old" [("foot", "10")]] = Some (mkq 21 1) ∧
  yard_under [rd_ctx "new" [("foot", "10")]; rd_ctx "old" [("ft", "7")]] = Some (mkq 30 1) ∧
  yard_under [rd_ctx "both" [("foot", "10"); ("ft", "7")]] = Some (mkq 21 1) ∧
  yard_under [] = Some (mkq 36 1).
Proof. repeat split; by_compute. Qed.
Close Scope string_scope.
