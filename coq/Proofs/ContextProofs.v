(** Proofs/ContextProofs.v — lemmas about Model/Context.v (property C11). *)
From stdpp Require Import gmap strings list.
From Coq Require Import Lia.
From PintV Require Import Model.UC Model.Eval Model.Registry Model.Context
  Proofs.UCProofs Proofs.RegistryProofs.
Close Scope string_scope.
Local Open Scope nat_scope.

(** * 1. [find_shortest_path] *)
Section BFSProofs.
  Context {N : Type} `{EqDecision N}.
  (** the graph, and ANY enumeration order of [graph[node] - visited] *)
  Variable edge : N → N → Prop.
  Variable pick : N → list N → list N.
  Definition pick_ok : Prop := ∀ v vis x, x ∈ pick v vis ↔ edge v x ∧ x ∉ vis.
  Hypothesis pick_spec : pick_ok.

  (** [walk src v p]: [p] lists the nodes of a walk from [src] to [v] along edges *)
  Inductive walk (src : N) : N → list N → Prop :=
  | walk_nil : walk src src [src]
  | walk_snoc v w p : walk src v p → edge v w → walk src w (p ++ [w]).

  Lemma walk_last src v p : walk src v p → last p = Some v.
  Proof. intros []; [reflexivity | apply last_snoc]. Qed.
  Lemma walk_length src v p : walk src v p → 1 ≤ length p.
  Proof. intros []; [simpl; lia | rewrite app_length; simpl; lia]. Qed.
  Lemma walk_len1 src v p : walk src v p → length p ≤ 1 → v = src ∧ p = [src].
  Proof.
    intros [|u w p' Hw He]; [auto|]. rewrite app_length. simpl.
    pose proof (walk_length _ _ _ Hw). lia.
  Qed.
  Lemma walk_inv src w q k :
    walk src w q → length q = S (S k) →
    ∃ v p, q = p ++ [w] ∧ walk src v p ∧ edge v w ∧ length p = S k.
  Proof.
    intros [|v w' p Hw He]; [simpl; lia|]. rewrite app_length. simpl. intros Hl.
    exists v, p. repeat split; auto. lia.
  Qed.
  Lemma walk_src_in src v p : walk src v p → src ∈ p.
  Proof. induction 1; [left | apply elem_of_app; left; assumption]. Qed.

  Notation entry := (N * list N)%type.

  (** ** the search invariant: the deque is [A ++ B], paths of [d] nodes then of [d+1] nodes *)
  Record Inv (src dst : N) (d : nat) (A B : list entry) (vis : list N) : Prop := {
    inv_d : 1 ≤ d;
    inv_walk : ∀ v p, (v, p) ∈ A ++ B → walk src v p;
    inv_la : ∀ v p, (v, p) ∈ A → length p = d;
    inv_lb : ∀ v p, (v, p) ∈ B → length p = S d;
    inv_dv : dst ∉ vis;
    inv_dp : ∀ v p, (v, p) ∈ A ++ B → v ≠ dst;
    inv_nd : ∀ v p, (v, p) ∈ A ++ B → NoDup p;
    inv_cov : ∀ v p, (v, p) ∈ A ++ B → ∀ x, x ∈ p → x ∈ vis ∨ x = v;
    inv_cl : ∀ u w, u ∈ vis → edge u w → w ∈ vis ∨ ∃ r, (w, r) ∈ A ++ B;
    inv_c : ∀ u q, walk src u q → length q ≤ d →
            u ∈ vis ∨ ∃ r, (u, r) ∈ A ++ B ∧ length r ≤ length q }.

  Lemma inv_init src dst : src ≠ dst → Inv src dst 1 [(src, [src])] [] [].
  Proof.
    intros Hne. split.
    - lia.
    - intros v p Hin. apply elem_of_list_singleton in Hin. injection Hin as -> ->. constructor.
    - intros v p Hin. apply elem_of_list_singleton in Hin. injection Hin as -> ->. reflexivity.
    - intros v p Hin. inversion Hin.
    - intros Hin. inversion Hin.
    - intros v p Hin. apply elem_of_list_singleton in Hin. injection Hin as -> ->. exact Hne.
    - intros v p Hin. apply elem_of_list_singleton in Hin. injection Hin as -> ->.
      apply NoDup_singleton.
    - intros v p Hin x Hx. apply elem_of_list_singleton in Hin. injection Hin as -> ->.
      apply elem_of_list_singleton in Hx. right. exact Hx.
    - intros u w Hu. inversion Hu.
    - intros u q Hw Hl. destruct (walk_len1 _ _ _ Hw Hl) as [-> ->].
      right. exists [src]. split; [apply elem_of_list_singleton; reflexivity | simpl; lia].
  Qed.

  Lemma inv_shift src dst d B vis : Inv src dst d [] B vis → Inv src dst (S d) B [] vis.
  Proof.
    intros I. destruct I as [Hd Hw Hla Hlb Hdv Hdp Hnd Hcov Hcl Hc]. simpl in *.
    split; try rewrite app_nil_r; auto.
    - intros v p Hin. inversion Hin.
    - intros u q Hwq Hl.
      destruct (decide (length q ≤ d)) as [Hle|Hgt]; [apply Hc; assumption|].
      assert (Hq : length q = S d) by lia.
      destruct d as [|d']; [lia|].
      destruct (walk_inv _ _ _ _ Hwq Hq) as (v & p & -> & Hwp & He & Hlp).
      assert (Hv : v ∈ vis).
      { destruct (Hc v p Hwp ltac:(lia)) as [Hv|(r & Hr & Hlr)]; [exact Hv|].
        specialize (Hlb _ _ Hr). lia. }
      destruct (Hcl v u Hv He) as [Hu|(r & Hr)]; [left; exact Hu|].
      right. exists r. split; [exact Hr|]. rewrite (Hlb _ _ Hr). lia.
  Qed.

  Lemma inv_empty_unreachable src dst d vis : Inv src dst d [] [] vis → ∀ q, ¬ walk src dst q.
  Proof.
    intros I q Hq. destruct I as [Hd Hw Hla Hlb Hdv Hdp Hnd Hcov Hcl Hc]. simpl in *.
    assert (Hall : ∀ v p, walk src v p → v ∈ vis).
    { induction 1 as [|v w p Hwp IH He].
      - destruct (Hc src [src] (walk_nil src) ltac:(simpl; lia)) as [Hv|(r & Hr & _)]; [exact Hv|].
        inversion Hr.
      - destruct (Hcl v w IH He) as [Hv|(r & Hr)]; [exact Hv | inversion Hr]. }
    exact (Hdv (Hall _ _ Hq)).
  Qed.

  (** popping the head: the target is among the neighbours met *)
  Lemma step_found src dst d v p A B vis p' :
    Inv src dst d ((v, p) :: A) B vis →
    scan dst p (pick v (v :: vis)) = inl p' →
    walk src dst p' ∧ NoDup p' ∧ ∀ q, walk src dst q → length p' ≤ length q.
  Proof.
    intros I. destruct I as [Hd Hw Hla Hlb Hdv Hdp Hnd Hcov Hcl Hc].
    unfold scan. destruct (bool_decide (dst ∈ pick v (v :: vis))) eqn:Eb; [|discriminate].
    intros [= <-]. apply bool_decide_eq_true in Eb. apply pick_spec in Eb as [He Hnv].
    assert (Hin : (v, p) ∈ ((v, p) :: A) ++ B) by (simpl; left).
    split; [|split].
    - apply walk_snoc with v; [apply Hw; exact Hin | exact He].
    - apply NoDup_app. split; [apply (Hnd _ _ Hin)|]. split; [|apply NoDup_singleton].
      intros x Hx Hx'. apply elem_of_list_singleton in Hx'. subst x.
      destruct (Hcov _ _ Hin dst Hx) as [Hv| ->]; [exact (Hdv Hv)|].
      exact (Hdp _ _ Hin eq_refl).
    - intros q Hq. rewrite app_length. simpl. rewrite (Hla v p ltac:(left)).
      destruct (decide (length q ≤ d)) as [Hle|]; [|lia].
      exfalso. destruct (Hc dst q Hq Hle) as [Hv|(r & Hr & _)]; [exact (Hdv Hv)|].
      exact (Hdp _ _ Hr eq_refl).
  Qed.

  Lemma elem_of_new (p : list N) ns w r :
    (w, r) ∈ map (λ a : N, (a, p ++ [a])) ns ↔ w ∈ ns ∧ r = p ++ [w].
  Proof.
    rewrite elem_of_list_fmap. split.
    - intros (a & [= -> ->] & Ha). auto.
    - intros [Hw ->]. exists w. auto.
  Qed.

  (** popping the head: the target is not met, the neighbours are appended *)
  Lemma step_next src dst d v p A B vis new :
    Inv src dst d ((v, p) :: A) B vis →
    scan dst p (pick v (v :: vis)) = inr new →
    Inv src dst d A (B ++ new) (v :: vis).
  Proof.
    intros I. destruct I as [Hd Hw Hla Hlb Hdv Hdp Hnd Hcov Hcl Hc].
    unfold scan. destruct (bool_decide (dst ∈ pick v (v :: vis))) eqn:Eb; [discriminate|].
    intros [= <-]. apply bool_decide_eq_false in Eb.
    set (ns := pick v (v :: vis)) in *.
    assert (Hhd : (v, p) ∈ ((v, p) :: A) ++ B) by (simpl; left).
    assert (Hold : ∀ w r, (w, r) ∈ A ++ B → (w, r) ∈ ((v, p) :: A) ++ B) by (intros; simpl; right; assumption).
    assert (Hsplit : ∀ w r, (w, r) ∈ A ++ (B ++ map (λ a : N, (a, p ++ [a])) ns) →
                            (w, r) ∈ A ++ B ∨ (w ∈ ns ∧ r = p ++ [w])).
    { intros w r Hin. rewrite app_assoc in Hin. apply elem_of_app in Hin as [Hin|Hin]; [left; exact Hin|].
      right. apply elem_of_new. exact Hin. }
    assert (Hkeep : ∀ w r, (w, r) ∈ A ++ B → (w, r) ∈ A ++ (B ++ map (λ a : N, (a, p ++ [a])) ns)).
    { intros w r Hin. rewrite app_assoc. apply elem_of_app. left. exact Hin. }
    split.
    - exact Hd.
    - intros w r Hin. destruct (Hsplit _ _ Hin) as [Ho|[Hn ->]]; [apply Hw, Hold, Ho|].
      apply pick_spec in Hn as [He _]. apply walk_snoc with v; [apply Hw, Hhd | exact He].
    - intros w r Hin. apply (Hla w r). right. exact Hin.
    - intros w r Hin. apply elem_of_app in Hin as [Hin|Hin]; [apply (Hlb w r); exact Hin|].
      apply elem_of_new in Hin as [_ ->]. rewrite app_length. simpl. rewrite (Hla v p ltac:(left)). lia.
    - intros Hin. apply elem_of_cons in Hin as [->|Hin]; [exact (Hdp _ _ Hhd eq_refl) | exact (Hdv Hin)].
    - intros w r Hin. destruct (Hsplit _ _ Hin) as [Ho|[Hn ->]]; [apply (Hdp _ _ (Hold _ _ Ho))|].
      intros ->. exact (Eb Hn).
    - intros w r Hin. destruct (Hsplit _ _ Hin) as [Ho|[Hn ->]]; [apply (Hnd _ _ (Hold _ _ Ho))|].
      apply pick_spec in Hn as [_ Hnv].
      apply NoDup_app. split; [apply (Hnd _ _ Hhd)|]. split; [|apply NoDup_singleton].
      intros x Hx Hx'. apply elem_of_list_singleton in Hx'. subst x. apply Hnv.
      destruct (Hcov _ _ Hhd w Hx) as [Hv| ->]; [right; exact Hv | left].
    - intros w r Hin x Hx. destruct (Hsplit _ _ Hin) as [Ho|[Hn ->]].
      + destruct (Hcov _ _ (Hold _ _ Ho) x Hx) as [Hv| ->]; [left; right; exact Hv | right; reflexivity].
      + apply elem_of_app in Hx as [Hx|Hx].
        * left. destruct (Hcov _ _ Hhd x Hx) as [Hv| ->]; [right; exact Hv | left].
        * apply elem_of_list_singleton in Hx. right. exact Hx.
    - intros u w Hu He. apply elem_of_cons in Hu as [->|Hu].
      + destruct (decide (w ∈ v :: vis)) as [Hv|Hnv]; [left; exact Hv|].
        right. exists (p ++ [w]). rewrite app_assoc. apply elem_of_app. right.
        apply elem_of_new. split; [|reflexivity]. apply pick_spec. split; assumption.
      + destruct (Hcl u w Hu He) as [Hv|(r & Hr)]; [left; right; exact Hv|].
        simpl in Hr. apply elem_of_cons in Hr as [[= -> ->]|Hr]; [left; left|].
        right. exists r. apply Hkeep. exact Hr.
    - intros u q Hq Hl. destruct (Hc u q Hq Hl) as [Hv|(r & Hr & Hlr)]; [left; right; exact Hv|].
      simpl in Hr. apply elem_of_cons in Hr as [[= -> ->]|Hr]; [left; left|].
      right. exists r. split; [apply Hkeep; exact Hr | exact Hlr].
  Qed.

  Definition found_ok (src dst : N) (p : list N) : Prop :=
    walk src dst p ∧ NoDup p ∧ ∀ q, walk src dst q → length p ≤ length q.
  Definition res_ok (src dst : N) (r : bres N) : Prop :=
    match r with
    | BFound p => found_ok src dst p
    | BNone => ∀ q, ¬ walk src dst q
    | BFuel => True
    end.

  Lemma loop_pop src dst fuel d v p A B vis :
    (∀ d A B vis, Inv src dst d A B vis → res_ok src dst (bfs_loop pick fuel dst (A ++ B, vis))) →
    Inv src dst d ((v, p) :: A) B vis →
    res_ok src dst (bfs_loop pick (S fuel) dst (((v, p) :: A) ++ B, vis)).
  Proof.
    intros IH I. cbn [bfs_loop]. unfold bfs_step. cbn [fst snd app].
    destruct (scan dst p (pick v (v :: vis))) as [p'|new] eqn:Es.
    - exact (step_found _ _ _ _ _ _ _ _ _ I Es).
    - rewrite <- app_assoc. apply IH with d. exact (step_next _ _ _ _ _ _ _ _ _ I Es).
  Qed.

  Lemma loop_correct src dst fuel : ∀ d A B vis,
    Inv src dst d A B vis → res_ok src dst (bfs_loop pick fuel dst (A ++ B, vis)).
  Proof.
    induction fuel as [|fuel IH]; intros d A B vis I; [exact Logic.I|].
    destruct A as [|[v p] A].
    - destruct B as [|[v p] B].
      + simpl. exact (inv_empty_unreachable _ _ _ _ I).
      + apply inv_shift in I. rewrite app_nil_l, <- (app_nil_r ((v, p) :: B)).
        exact (loop_pop _ _ _ _ _ _ _ _ _ IH I).
    - exact (loop_pop _ _ _ _ _ _ _ _ _ IH I).
  Qed.

  Theorem bfs_run_correct fuel src dst : res_ok src dst (bfs_run pick fuel src dst).
  Proof.
    unfold bfs_run. destruct (decide (src = dst)) as [->|Hne].
    - split; [constructor|]. split; [apply NoDup_singleton|].
      intros q Hq. simpl. exact (walk_length _ _ _ Hq).
    - exact (loop_correct src dst fuel 1 [(src, [src])] [] [] (inv_init _ _ Hne)).
  Qed.

  (** ** termination: an explicit fuel bound for a graph whose nodes lie in the list [V] *)
  Variable V : list N.
  Definition closed_in : Prop := ∀ v w, edge v w → w ∈ V.
  Definition pick_nodup : Prop := ∀ v vis, NoDup (pick v vis).
  Hypothesis edge_closed : closed_in.
  Hypothesis pick_nd : pick_nodup.

  Record TInv (fifo : list entry) (vis : list N) : Prop := {
    t_nd : ∀ v p, (v, p) ∈ fifo → NoDup p;
    t_sub : ∀ v p, (v, p) ∈ fifo → ∀ x, x ∈ p → x ∈ V;
    t_cov : ∀ v p, (v, p) ∈ fifo → ∀ x, x ∈ p → x ∈ vis ∨ x = v }.

  Definition pot (n : nat) (fifo : list entry) : nat :=
    sum_list_with (λ e : entry, geo n (n - length e.2)) fifo.
  Lemma pot_app n a b : pot n (a ++ b) = pot n a + pot n b.
  Proof. apply sum_list_with_app. Qed.
  Lemma pot_new n (p : list N) ns :
    pot n (map (λ a : N, (a, p ++ [a])) ns) = length ns * geo n (n - S (length p)).
  Proof.
    unfold pot. induction ns as [|a ns IH]; [reflexivity|]. cbn [map sum_list_with length].
    rewrite IH. cbn [snd]. rewrite app_length. simpl. replace (length p + 1) with (S (length p)) by lia. lia.
  Qed.
  Lemma geo_pos n k : 1 ≤ geo n k.
  Proof. destruct k; simpl; lia. Qed.
  Lemma geo_mono n k : geo n k ≤ geo n (S k).
  Proof.
    induction k as [|k IH].
    - simpl. lia.
    - change (geo n (S (S k))) with (1 + n * geo n (S k)). change (geo n (S k)) with (1 + n * geo n k) at 1.
      apply Nat.add_le_mono_l, Nat.mul_le_mono_l. exact IH.
  Qed.
  Lemma geo_mono' n j k : j ≤ k → geo n j ≤ geo n k.
  Proof. induction 1; [lia | etransitivity; [eassumption | apply geo_mono]]. Qed.

  Lemma nodup_sub_length (l : list N) : NoDup l → (∀ x, x ∈ l → x ∈ V) → length l ≤ length V.
  Proof. intros Hnd Hs. apply submseteq_length, NoDup_submseteq; assumption. Qed.
  Lemma nodup_full (l : list N) : NoDup l → (∀ x, x ∈ l → x ∈ V) → length V ≤ length l → ∀ x, x ∈ V → x ∈ l.
  Proof.
    intros Hnd Hs Hl x Hx.
    assert (Hp : l ≡ₚ V).
    { apply submseteq_Permutation_length_le; [exact Hl | apply NoDup_submseteq; assumption]. }
    rewrite Hp. exact Hx.
  Qed.

  Lemma loop_terminates dst fuel : ∀ fifo vis,
    TInv fifo vis → pot (length V) fifo < fuel → bfs_loop pick fuel dst (fifo, vis) ≠ BFuel.
  Proof.
    induction fuel as [|fuel IH]; intros fifo vis T Hp; [lia|].
    cbn [bfs_loop]. unfold bfs_step. cbn [fst snd].
    destruct fifo as [|[v p] rest]; [discriminate|].
    unfold scan. destruct (bool_decide (dst ∈ pick v (v :: vis))); [discriminate|].
    set (ns := pick v (v :: vis)).
    destruct T as [Tnd Tsub Tcov].
    assert (Hhd : (v, p) ∈ (v, p) :: rest) by left.
    assert (Hns : ∀ x, x ∈ ns → edge v x ∧ x ∉ v :: vis) by (intros x; apply pick_spec).
    apply IH.
    - split.
      + intros w r Hin. apply elem_of_app in Hin as [Hin|Hin]; [apply (Tnd w r); right; exact Hin|].
        apply elem_of_new in Hin as [Hw ->]. apply NoDup_app. split; [exact (Tnd _ _ Hhd)|].
        split; [|apply NoDup_singleton]. intros x Hx Hx'. apply elem_of_list_singleton in Hx'. subst x.
        apply (proj2 (Hns _ Hw)). destruct (Tcov _ _ Hhd w Hx) as [Hv| ->]; [right; exact Hv | left].
      + intros w r Hin x Hx. apply elem_of_app in Hin as [Hin|Hin]; [apply (Tsub w r); [right; exact Hin | exact Hx]|].
        apply elem_of_new in Hin as [Hw ->]. apply elem_of_app in Hx as [Hx|Hx]; [exact (Tsub _ _ Hhd x Hx)|].
        apply elem_of_list_singleton in Hx. subst x. exact (edge_closed _ _ (proj1 (Hns _ Hw))).
      + intros w r Hin x Hx. apply elem_of_app in Hin as [Hin|Hin].
        * destruct (Tcov w r ltac:(right; exact Hin) x Hx) as [Hv| ->]; [left; right; exact Hv | right; reflexivity].
        * apply elem_of_new in Hin as [Hw ->]. apply elem_of_app in Hx as [Hx|Hx].
          -- left. destruct (Tcov _ _ Hhd x Hx) as [Hv| ->]; [right; exact Hv | left].
          -- apply elem_of_list_singleton in Hx. right. exact Hx.
    - rewrite pot_app, pot_new. unfold pot in Hp. cbn [sum_list_with snd] in Hp. fold (pot (length V) rest) in Hp.
      assert (Hlen : length p ≤ length V) by (apply nodup_sub_length; [exact (Tnd _ _ Hhd) | exact (Tsub _ _ Hhd)]).
      assert (Hm : length ns ≤ length V).
      { apply nodup_sub_length; [apply pick_nd|]. intros x Hx. exact (edge_closed _ _ (proj1 (Hns _ Hx))). }
      destruct (decide (length p < length V)) as [Hlt|Hge].
      + replace (length V - length p) with (S (length V - S (length p))) in Hp by lia.
        cbn [geo] in Hp.
        assert (length ns * geo (length V) (length V - S (length p))
                ≤ length V * geo (length V) (length V - S (length p))) by (apply Nat.mul_le_mono_r; exact Hm).
        lia.
      + assert (Hempty : ns = []).
        { destruct ns as [|x ns'] eqn:En; [reflexivity|]. exfalso.
          assert (Hx : x ∈ x :: ns') by left.
          destruct (Hns x Hx) as [He Hnv]. apply Hnv.
          assert (Hxp : x ∈ p).
          { apply nodup_full; [exact (Tnd _ _ Hhd) | exact (Tsub _ _ Hhd) | lia | exact (edge_closed _ _ He)]. }
          destruct (Tcov _ _ Hhd x Hxp) as [Hv| ->]; [right; exact Hv | left]. }
        rewrite Hempty. simpl. pose proof (geo_pos (length V) (length V - length p)). lia.
  Qed.

  Theorem bfs_run_terminates fuel src dst :
    src ∈ V → bfs_bound (length V) ≤ fuel → bfs_run pick fuel src dst ≠ BFuel.
  Proof.
    intros Hs Hf. unfold bfs_run. destruct (decide (src = dst)); [discriminate|].
    apply loop_terminates.
    - split.
      + intros v p Hin. apply elem_of_list_singleton in Hin. injection Hin as -> ->. apply NoDup_singleton.
      + intros v p Hin x Hx. apply elem_of_list_singleton in Hin. injection Hin as -> ->.
        apply elem_of_list_singleton in Hx. subst x. exact Hs.
      + intros v p Hin x Hx. apply elem_of_list_singleton in Hin. injection Hin as -> ->.
        apply elem_of_list_singleton in Hx. right. exact Hx.
    - unfold pot, bfs_bound in *. cbn [sum_list_with snd length].
      pose proof (geo_mono' (length V) (length V - 1) (length V) ltac:(lia)). lia.
  Qed.
End BFSProofs.
Arguments walk {N} edge src _ _.
Arguments pick_ok {N} edge pick.
Arguments closed_in {N} edge V.
Arguments pick_nodup {N} pick.
Arguments found_ok {N} edge src dst p.

(** ** the loop with fuel [2^k] *)
Section Loop2.
  Context {N : Type} `{EqDecision N}.
  Variable pick : N → list N → list N.

  Lemma loop2_spec k dst : ∀ st,
    match bfs_loop2 pick k dst st with
    | inl st' => ∀ f, bfs_loop pick (2 ^ k + f) dst st = bfs_loop pick f dst st'
    | inr r => ∀ f, bfs_loop pick (2 ^ k + f) dst st = r
    end.
  Proof.
    induction k as [|k IH]; intros st.
    - cbn [bfs_loop2 Nat.pow]. destruct (bfs_step pick dst st) as [st'|r] eqn:E; intros f;
        change (1 + f) with (S f); cbn [bfs_loop]; rewrite E; reflexivity.
    - cbn [bfs_loop2]. pose proof (IH st) as H1.
      destruct (bfs_loop2 pick k dst st) as [st1|r] eqn:E1.
      + pose proof (IH st1) as H2. destruct (bfs_loop2 pick k dst st1) as [st2|r] eqn:E2; intros f;
          replace (2 ^ S k + f) with (2 ^ k + (2 ^ k + f)) by (cbn [Nat.pow]; lia);
          rewrite H1, H2; reflexivity.
      + intros f. replace (2 ^ S k + f) with (2 ^ k + (2 ^ k + f)) by (cbn [Nat.pow]; lia).
        apply H1.
  Qed.

  Theorem bfs_run2_spec k src dst : bfs_run2 pick k src dst = bfs_run pick (2 ^ k) src dst.
  Proof.
    unfold bfs_run2, bfs_run. destruct (decide (src = dst)); [reflexivity|].
    pose proof (loop2_spec k dst (bfs_init src)) as H.
    destruct (bfs_loop2 pick k dst (bfs_init src)) as [st'|r].
    - specialize (H 0). rewrite Nat.add_0_r in H. rewrite H. reflexivity.
    - specialize (H 0). rewrite Nat.add_0_r in H. rewrite H. reflexivity.
  Qed.
End Loop2.

Lemma geo_le_pow n k : geo n k ≤ S n ^ k.
Proof.
  induction k as [|k IH]; [simpl; lia|].
  change (geo n (S k)) with (1 + n * geo n k). cbn [Nat.pow].
  assert (1 ≤ S n ^ k) by (apply Nat.neq_0_lt_0, Nat.pow_nonzero; lia).
  assert (n * geo n k ≤ n * S n ^ k) by (apply Nat.mul_le_mono_l; exact IH).
  lia.
Qed.
Lemma logfuel_ok n : bfs_bound n ≤ 2 ^ bfs_logfuel n.
Proof.
  unfold bfs_bound, bfs_logfuel. cbn [Nat.pow].
  assert (H1 : geo n n ≤ S n ^ n) by apply geo_le_pow.
  assert (H2 : S n ^ n ≤ (2 ^ n) ^ n).
  { apply Nat.pow_le_mono_l. pose proof (Nat.pow_gt_lin_r 2 n ltac:(lia)). lia. }
  rewrite <- Nat.pow_mul_r in H2.
  assert (1 ≤ 2 ^ (n * n)) by (apply Nat.neq_0_lt_0, Nat.pow_nonzero; lia).
  lia.
Qed.

(** ** the packaged statements *)
Section BFSTheorems.
  Context {N : Type} `{EqDecision N}.
  Variable edge : N → N → Prop.
  Variable pick : N → list N → list N.
  Hypothesis Hpick : pick_ok edge pick.

  Theorem bfs_sound fuel src dst p :
    bfs pick fuel src dst = Some p → walk edge src dst p.
  Proof.
    unfold bfs. pose proof (bfs_run_correct edge pick Hpick fuel src dst) as H.
    destruct (bfs_run pick fuel src dst); try discriminate. intros [= <-]. exact (proj1 H).
  Qed.
  Theorem bfs_simple fuel src dst p :
    bfs pick fuel src dst = Some p → NoDup p.
  Proof.
    unfold bfs. pose proof (bfs_run_correct edge pick Hpick fuel src dst) as H.
    destruct (bfs_run pick fuel src dst); try discriminate. intros [= <-]. exact (proj1 (proj2 H)).
  Qed.
  Theorem bfs_shortest fuel src dst p :
    bfs pick fuel src dst = Some p → ∀ q, walk edge src dst q → length p ≤ length q.
  Proof.
    unfold bfs. pose proof (bfs_run_correct edge pick Hpick fuel src dst) as H.
    destruct (bfs_run pick fuel src dst); try discriminate. intros [= <-]. exact (proj2 (proj2 H)).
  Qed.
  (** the search says "no path" only when there is none, whatever the fuel *)
  Theorem bfs_none_unreachable fuel src dst :
    bfs_run pick fuel src dst = BNone → ∀ q, ¬ walk edge src dst q.
  Proof.
    pose proof (bfs_run_correct edge pick Hpick fuel src dst) as H. intros E. rewrite E in H. exact H.
  Qed.

  Variable V : list N.
  Hypothesis Hclosed : closed_in edge V.
  Hypothesis Hnd : pick_nodup pick.

  Theorem bfs_terminates fuel src dst :
    src ∈ V → bfs_bound (length V) ≤ fuel → bfs_run pick fuel src dst ≠ BFuel.
  Proof. exact (bfs_run_terminates edge pick Hpick V Hclosed Hnd fuel src dst). Qed.

  Theorem bfs_complete fuel src dst :
    src ∈ V → bfs_bound (length V) ≤ fuel →
    (bfs pick fuel src dst = None ↔ ∀ q, ¬ walk edge src dst q).
  Proof.
    intros Hs Hf. pose proof (bfs_terminates fuel src dst Hs Hf) as Ht.
    pose proof (bfs_run_correct edge pick Hpick fuel src dst) as Hc. unfold bfs.
    destruct (bfs_run pick fuel src dst) as [p| |]; [|tauto|congruence].
    split; [discriminate|]. intros Hno. exfalso. exact (Hno p (proj1 Hc)).
  Qed.

  Theorem bfs_run2_terminates src dst :
    src ∈ V → bfs_run2 pick (bfs_logfuel (length V)) src dst ≠ BFuel.
  Proof.
    intros Hs. rewrite bfs_run2_spec. apply bfs_terminates; [exact Hs | apply logfuel_ok].
  Qed.
End BFSTheorems.

(** ** all shortest paths *)
Section AllShortest.
  Context {N : Type} `{EqDecision N}.
  Variable adj : N → list N.
  Definition aedge (v w : N) : Prop := w ∈ adj v.

  Lemma pick_adj_ok : pick_ok aedge (pick_adj adj).
  Proof. intros v vis x. unfold pick_adj, aedge. rewrite elem_of_list_filter. tauto. Qed.
  Lemma pick_adj_nodup : (∀ v, NoDup (adj v)) → pick_nodup (pick_adj adj).
  Proof. intros H v vis. apply NoDup_filter, H. Qed.

  Definition Front (src : N) (k : nat) (F : list (list N)) : Prop :=
    ∀ p, p ∈ F ↔ ∃ v, walk aedge src v p ∧ NoDup p ∧ length p = S k.

  Lemma front0 src : Front src 0 [[src]].
  Proof.
    intros p. rewrite elem_of_list_singleton. split.
    - intros ->. exists src. split; [constructor|]. split; [apply NoDup_singleton | reflexivity].
    - intros (v & Hw & _ & Hl). apply (walk_len1 aedge) in Hw; [tauto | lia].
  Qed.

  Lemma elem_of_extend F p' :
    p' ∈ extend adj F ↔ ∃ p v w, p ∈ F ∧ last p = Some v ∧ w ∈ adj v ∧ w ∉ p ∧ p' = p ++ [w].
  Proof.
    unfold extend. rewrite elem_of_list_In, in_flat_map. split.
    - intros (p & Hp & Hin). apply elem_of_list_In in Hp, Hin.
      destruct (last p) as [v|] eqn:El; [|inversion Hin].
      apply elem_of_list_fmap in Hin as (w & -> & Hw). apply elem_of_list_filter in Hw as [Hnp Hw].
      exists p, v, w. auto.
    - intros (p & v & w & Hp & El & Hw & Hnp & ->). exists p. split; [apply elem_of_list_In; exact Hp|].
      apply elem_of_list_In. rewrite El. apply elem_of_list_fmap. exists w. split; [reflexivity|].
      apply elem_of_list_filter. auto.
  Qed.

  Lemma front_step src k F : Front src k F → Front src (S k) (extend adj F).
  Proof.
    intros HF p'. rewrite elem_of_extend. split.
    - intros (p & v & w & Hp & El & Hw & Hnp & ->). apply HF in Hp as (v' & Hwalk & Hnd & Hl).
      rewrite (walk_last _ _ _ _ Hwalk) in El. injection El as ->.
      exists w. split; [apply walk_snoc with v; assumption|]. split.
      + apply NoDup_app. split; [exact Hnd|]. split; [|apply NoDup_singleton].
        intros x Hx Hx'. apply elem_of_list_singleton in Hx'. subst x. exact (Hnp Hx).
      + rewrite app_length. simpl. lia.
    - intros (w & Hwalk & Hnd & Hl). destruct (walk_inv _ _ _ _ _ Hwalk Hl) as (v & p & -> & Hwp & He & Hlp).
      apply NoDup_app in Hnd as (Hndp & Hdisj & _).
      exists p, v, w. repeat split; auto.
      + apply HF. exists v. auto.
      + exact (walk_last _ _ _ _ Hwp).
      + intros Hin. apply (Hdisj w Hin). apply elem_of_list_singleton. reflexivity.
  Qed.

  Lemma elem_of_hits (dst : N) F p : p ∈ hits dst F ↔ last p = Some dst ∧ p ∈ F.
  Proof. unfold hits. rewrite elem_of_list_filter. reflexivity. Qed.

  (** a shortest simple path is listed *)
  Lemma shortest_from_complete src dst p : ∀ fuel k F i,
    Front src k F → walk aedge src dst p → NoDup p →
    (∀ q, walk aedge src dst q → length p ≤ length q) →
    length p = S (k + i) → i ≤ fuel → p ∈ shortest_from adj dst F fuel.
  Proof.
    induction fuel as [|fuel IH]; intros k F i HF Hw Hnd Hsh Hl Hi.
    - assert (i = 0) by lia. subst i. rewrite Nat.add_0_r in Hl.
      assert (Hp : p ∈ hits dst F).
      { apply elem_of_hits. split; [exact (walk_last _ _ _ _ Hw)|]. apply HF. exists dst. auto. }
      cbn [shortest_from]. destruct (hits dst F) as [|h hs]; [inversion Hp | exact Hp].
    - cbn [shortest_from]. destruct i as [|i].
      + rewrite Nat.add_0_r in Hl.
        assert (Hp : p ∈ hits dst F).
        { apply elem_of_hits. split; [exact (walk_last _ _ _ _ Hw)|]. apply HF. exists dst. auto. }
        destruct (hits dst F) as [|h hs]; [inversion Hp | exact Hp].
      + destruct (hits dst F) as [|h hs] eqn:Eh.
        * apply (IH (S k) _ i); auto; [apply front_step; exact HF | lia | lia].
        * exfalso. assert (Hh : h ∈ hits dst F) by (rewrite Eh; left).
          apply elem_of_hits in Hh as [Hlast Hin]. apply HF in Hin as (v & Hwh & _ & Hlh).
          rewrite (walk_last _ _ _ _ Hwh) in Hlast. injection Hlast as ->.
          specialize (Hsh h Hwh). lia.
  Qed.

  (** everything listed is a simple walk to the target, all of one length *)
  Lemma shortest_from_sound src dst : ∀ fuel k F,
    Front src k F → ∃ k', ∀ p, p ∈ shortest_from adj dst F fuel →
      walk aedge src dst p ∧ NoDup p ∧ length p = S k'.
  Proof.
    induction fuel as [|fuel IH]; intros k F HF; cbn [shortest_from].
    - destruct (hits dst F) as [|h hs] eqn:Eh; [exists 0; intros p Hp; inversion Hp|].
      exists k. intros p Hp. rewrite <- Eh in Hp. apply elem_of_hits in Hp as [Hlast Hin].
      apply HF in Hin as (v & Hw & Hnd & Hl). rewrite (walk_last _ _ _ _ Hw) in Hlast. injection Hlast as ->. auto.
    - destruct (hits dst F) as [|h hs] eqn:Eh; [apply (IH (S k)), front_step, HF|].
      exists k. intros p Hp. rewrite <- Eh in Hp. apply elem_of_hits in Hp as [Hlast Hin].
      apply HF in Hin as (v & Hw & Hnd & Hl). rewrite (walk_last _ _ _ _ Hw) in Hlast. injection Hlast as ->. auto.
  Qed.

  (** whatever the enumeration order of the neighbour sets, the path found by the search is
      one of the listed shortest paths *)
  Theorem bfs_in_all_shortest (pick : N → list N → list N) (V : list N) fuel src dst p :
    pick_ok aedge pick → closed_in aedge V → src ∈ V →
    bfs pick fuel src dst = Some p → p ∈ all_shortest adj (length V) src dst.
  Proof.
    intros Hpick Hcl Hs Hb.
    pose proof (bfs_sound aedge pick Hpick _ _ _ _ Hb) as Hw.
    pose proof (bfs_simple aedge pick Hpick _ _ _ _ Hb) as Hnd.
    pose proof (bfs_shortest aedge pick Hpick _ _ _ _ Hb) as Hsh.
    assert (Hsub : ∀ x, x ∈ p → x ∈ V).
    { clear Hb Hnd Hsh. induction Hw as [|v w p Hwp IH He]; intros x Hx.
      - apply elem_of_list_singleton in Hx. subst x. exact Hs.
      - apply elem_of_app in Hx as [Hx|Hx]; [auto|]. apply elem_of_list_singleton in Hx. subst x.
        exact (Hcl _ _ He). }
    assert (Hlen : length p ≤ length V) by (apply (nodup_sub_length V); assumption).
    pose proof (walk_length _ _ _ _ Hw).
    unfold all_shortest. apply (shortest_from_complete src dst p (length V) 0 [[src]] (length p - 1));
      auto using front0; lia.
  Qed.

  Theorem all_shortest_sound (V : list N) src dst p :
    (∀ v, NoDup (adj v)) → closed_in aedge V → src ∈ V →
    p ∈ all_shortest adj (length V) src dst →
    walk aedge src dst p ∧ ∀ q, walk aedge src dst q → length p ≤ length q.
  Proof.
    intros Hadj Hcl Hs Hp. unfold all_shortest in Hp.
    destruct (shortest_from_sound src dst (length V) 0 [[src]] (front0 src)) as (k' & Hk').
    destruct (Hk' p Hp) as (Hw & Hnd & Hl). split; [exact Hw|].
    (* run the search with the list order: it finds a listed path, which is shortest *)
    set (fuel := bfs_bound (length V)).
    pose proof (bfs_complete aedge (pick_adj adj) pick_adj_ok V Hcl (pick_adj_nodup Hadj) fuel src dst Hs (le_n _)) as Hc.
    destruct (bfs (pick_adj adj) fuel src dst) as [p0|] eqn:Eb.
    - pose proof (bfs_in_all_shortest _ V _ _ _ _ pick_adj_ok Hcl Hs Eb) as Hin.
      destruct (Hk' p0 Hin) as (_ & _ & Hl0). intros q Hq.
      pose proof (bfs_shortest aedge _ pick_adj_ok _ _ _ _ Eb q Hq). lia.
    - exfalso. exact (proj1 Hc eq_refl p Hw).
  Qed.
End AllShortest.
