(** Proofs/ContextRedefProofs.v — closed form of what a redefinition does to the root units of
    EVERY unit (property C11, clause "transitively to dependent units"). *)
From stdpp Require Import gmap strings list.
From Coq Require Import Lia.
From PintV Require Import Model.UC Model.Eval Model.Registry Proofs.UCProofs Proofs.RegistryProofs
  Proofs.RootProofs Proofs.FactorProofs Proofs.PrefixProofs Model.Context Proofs.ContextProofs.
Open Scope string_scope.
Arguments root_rec : simpl never.
Arguments reg_fuel : simpl never.

(** * rows do not depend on the fuel once defined, nor on the spelling *)
Lemma root_row_mono_le f g r k x : (f ≤ g)%nat → root_row f r k = Some x → root_row g r k = Some x.
Proof. induction 1 as [|g L IH]; [auto|]. intros Hx. apply root_row_mono. auto. Qed.
Lemma root_row_stable f g r k x y : root_row f r k = Some x → root_row g r k = Some y → x = y.
Proof.
  intros Hx Hy. destruct (le_ge_dec f g) as [L|L].
  - apply (root_row_mono_le _ _ _ _ _ L) in Hx. congruence.
  - apply (root_row_mono_le _ _ _ _ _ L) in Hy. congruence.
Qed.
Lemma root_row_same_def f g r k k' d x y :
  resolve r k = Ok d → resolve r k' = Ok d →
  root_row f r k = Some x → root_row g r k' = Some y → x = y.
Proof.
  intros Hk Hk' Hx Hy.
  apply (root_row_mono_le _ (S (max f g))) in Hx; [|lia].
  apply (root_row_mono_le _ (S (max f g))) in Hy; [|lia].
  rewrite root_row_step, Hk in Hx. rewrite root_row_step, Hk' in Hy. congruence.
Qed.
Lemma root_row_0_inv r k x : root_row 0 r k = Some x → ∃ d, resolve r k = Ok d ∧ u_base d = true.
Proof.
  unfold root_row, lin2_val, root_step. destruct (resolve r k) as [d|]; simpl; [|discriminate].
  destruct (u_base d) eqn:Eb; [eauto|]. rewrite root_rec_0. discriminate.
Qed.

Lemma sem_list2_exp row l F B :
  sem_list2 row l = Some (F, B) →
  (∀ kv, kv ∈ l → is_Some (row kv.1)) ∧
  ∀ j, exp_of F j = lsumw (λ k, exp_of (default ∅ (rowF row k)) j) l ∧
       exp_of B j = lsumw (λ k, exp_of (default ∅ (rowB row k)) j) l.
Proof.
  rewrite sem_list2_split.
  destruct (sem_list (rowF row) l) as [f|] eqn:EF; [|discriminate].
  destruct (sem_list (rowB row) l) as [b|] eqn:EB; [|discriminate]. intros [= -> ->].
  destruct (sem_list_Some _ _ _ EF) as [H1 H2]. destruct (sem_list_Some _ _ _ EB) as [_ H3]. split.
  - intros kv Hin. destruct (H1 kv Hin) as [x Hx]. unfold rowF in Hx. destruct (row kv.1); [eauto | discriminate].
  - intros j. split; [apply H2 | apply H3].
Qed.
Lemma lsumw_shift (g1 g2 dg : string → Qc) l (c : Qc) :
  (∀ kv, kv ∈ l → g2 kv.1 = (g1 kv.1 + dg kv.1 * c)%Qc) →
  lsumw g2 l = (lsumw g1 l + lsumw dg l * c)%Qc.
Proof.
  induction l as [|kv l IH]; intros H; simpl; [ring|].
  rewrite (H kv ltac:(left)), IH by (intros kv' Hin; apply H; right; exact Hin). ring.
Qed.

(** * Two registries that differ by the definition of ONE unit *)
Section Subst.
  Variables (r1 r2 : reg) (n : string) (dn1 dn2 : udef).
  (** every string resolves alike in both, except that the strings denoting the unit [n] resolve
      to [dn1] in the one and to [dn2] in the other *)
  Definition differ_at : Prop :=
    ∀ k d1 d2, resolve r1 k = Ok d1 → resolve r2 k = Ok d2 →
      if bool_decide (u_name d1 = n) then d1 = dn1 ∧ d2 = dn2 else d1 = d2.
  Hypothesis HA : differ_at.

  (** the exponent with which the expansion of a string reaches the unit [n] *)
  Fixpoint deg (f : nat) (k : string) : Qc :=
    match resolve r1 k with
    | Err _ => 0%Qc
    | Ok d =>
        if bool_decide (u_name d = n) then 1%Qc
        else if u_base d then 0%Qc
        else match f with
             | O => 0%Qc
             | S f' => lsumw (deg f') (map_to_list (u_ref d))
             end
    end.
  Definition degc (a : uc) : Qc := lsumw (deg 63) (map_to_list a).

  (** root units of the unit itself in the two registries *)
  Variables (k1 k2 : string) (f1 f2 : nat) (Fn1 Bn1 Fn2 Bn2 : uc).
  Hypothesis Hk1 : resolve r1 k1 = Ok dn1.
  Hypothesis Hk2 : resolve r2 k2 = Ok dn2.
  Hypothesis Hr1 : root_row f1 r1 k1 = Some (Fn1, Bn1).
  Hypothesis Hr2 : root_row f2 r2 k2 = Some (Fn2, Bn2).

  Definition shifted (X1 X2 Xn1 Xn2 : uc) (c : Qc) : Prop :=
    ∀ j, exp_of X2 j = (exp_of X1 j + c * (exp_of Xn2 j - exp_of Xn1 j))%Qc.

  Lemma row_subst f : ∀ k F1 B1 F2 B2,
    root_row f r1 k = Some (F1, B1) → root_row f r2 k = Some (F2, B2) →
    shifted F1 F2 Fn1 Fn2 (deg f k) ∧ shifted B1 B2 Bn1 Bn2 (deg f k).
  Proof.
    induction f as [|f IH]; intros k F1 B1 F2 B2 H1 H2.
    - destruct (root_row_0_inv _ _ _ H1) as (d1 & E1 & Eb1). destruct (root_row_0_inv _ _ _ H2) as (d2 & E2 & Eb2).
      pose proof (HA k d1 d2 E1 E2) as HAk. cbn [deg]. rewrite E1.
      destruct (bool_decide (u_name d1 = n)).
      + destruct HAk as [-> ->].
        pose proof (root_row_same_def _ _ _ _ _ _ _ _ E1 Hk1 H1 Hr1) as [= -> ->].
        pose proof (root_row_same_def _ _ _ _ _ _ _ _ E2 Hk2 H2 Hr2) as [= -> ->].
        split; intros j; ring.
      + subst d2. rewrite Eb1.
        apply root_row_0 in H1, H2. rewrite root_row_step, E1, Eb1 in H1. rewrite root_row_step, E2, Eb1 in H2.
        injection H1 as <- <-. injection H2 as <- <-. split; intros j; ring.
    - pose proof H1 as H1'. pose proof H2 as H2'. rewrite root_row_step in H1', H2'.
      destruct (resolve r1 k) as [d1|] eqn:E1; [|discriminate]. destruct (resolve r2 k) as [d2|] eqn:E2; [|discriminate].
      pose proof (HA k d1 d2 E1 E2) as HAk. cbn [deg]. rewrite E1.
      destruct (bool_decide (u_name d1 = n)).
      + destruct HAk as [-> ->].
        pose proof (root_row_same_def _ _ _ _ _ _ _ _ E1 Hk1 H1 Hr1) as [= -> ->].
        pose proof (root_row_same_def _ _ _ _ _ _ _ _ E2 Hk2 H2 Hr2) as [= -> ->].
        split; intros j; ring.
      + subst d2. destruct (u_base d1) eqn:Eb.
        * injection H1' as <- <-. injection H2' as <- <-. split; intros j; ring.
        * destruct (sem_list2 (root_row f r1) (map_to_list (u_ref d1))) as [[G1 C1]|] eqn:S1; [|discriminate].
          destruct (sem_list2 (root_row f r2) (map_to_list (u_ref d1))) as [[G2 C2]|] eqn:S2; [|discriminate].
          injection H1' as <- <-. injection H2' as <- <-.
          destruct (sem_list2_exp _ _ _ _ S1) as [D1 X1]. destruct (sem_list2_exp _ _ _ _ S2) as [D2 X2].
          assert (Hkv : ∀ kv, kv ∈ map_to_list (u_ref d1) → ∀ j,
                    exp_of (default ∅ (rowF (root_row f r2) kv.1)) j =
                      (exp_of (default ∅ (rowF (root_row f r1) kv.1)) j + deg f kv.1 * (exp_of Fn2 j - exp_of Fn1 j))%Qc ∧
                    exp_of (default ∅ (rowB (root_row f r2) kv.1)) j =
                      (exp_of (default ∅ (rowB (root_row f r1) kv.1)) j + deg f kv.1 * (exp_of Bn2 j - exp_of Bn1 j))%Qc).
          { intros kv Hin j. destruct (D1 kv Hin) as [[a1 b1] Ea]. destruct (D2 kv Hin) as [[a2 b2] Eb2].
            destruct (IH _ _ _ _ _ Ea Eb2) as [HF HB]. unfold rowF, rowB. rewrite Ea, Eb2. simpl. split; [apply HF | apply HB]. }
          split; intros j; [rewrite !exp_of_mul|]; rewrite (proj1 (X2 j)) || rewrite (proj2 (X2 j));
            rewrite (proj1 (X1 j)) || rewrite (proj2 (X1 j)).
          -- rewrite (lsumw_shift (λ k, exp_of (default ∅ (rowF (root_row f r1) k)) j) _ (deg f) _ (exp_of Fn2 j - exp_of Fn1 j)%Qc)
               by (intros kv Hin; apply (proj1 (Hkv kv Hin j))). ring.
          -- rewrite (lsumw_shift (λ k, exp_of (default ∅ (rowB (root_row f r1) k)) j) _ (deg f) _ (exp_of Bn2 j - exp_of Bn1 j)%Qc)
               by (intros kv Hin; apply (proj2 (Hkv kv Hin j))). ring.
  Qed.

  (** ** closed form for every container: the root units in the second registry are those in the
      first, times (root units of [n] in the second / in the first) to the power [degc a] *)
  Theorem rsem_subst a F1 B1 F2 B2 :
    rsem r1 a = Some (F1, B1) → rsem r2 a = Some (F2, B2) →
    F2 = uc_mul F1 (uc_pow (uc_div Fn2 Fn1) (degc a)) ∧
    B2 = uc_mul B1 (uc_pow (uc_div Bn2 Bn1) (degc a)).
  Proof.
    intros H1 H2. destruct (rsem_wf _ _ _ _ H1) as [WF1 WB1]. destruct (rsem_wf _ _ _ _ H2) as [WF2 WB2].
    unfold rsem in H1, H2.
    destruct (sem_list2_exp _ _ _ _ H1) as [D1 X1]. destruct (sem_list2_exp _ _ _ _ H2) as [D2 X2].
    assert (Hkv : ∀ kv, kv ∈ map_to_list a → ∀ j,
              exp_of (default ∅ (rowF (rrow r2) kv.1)) j =
                (exp_of (default ∅ (rowF (rrow r1) kv.1)) j + deg 63 kv.1 * (exp_of Fn2 j - exp_of Fn1 j))%Qc ∧
              exp_of (default ∅ (rowB (rrow r2) kv.1)) j =
                (exp_of (default ∅ (rowB (rrow r1) kv.1)) j + deg 63 kv.1 * (exp_of Bn2 j - exp_of Bn1 j))%Qc).
    { intros kv Hin j. destruct (D1 kv Hin) as [[a1 b1] Ea]. destruct (D2 kv Hin) as [[a2 b2] Eb2].
      destruct (row_subst 63 _ _ _ _ _ Ea Eb2) as [HF HB]. unfold rowF, rowB. rewrite Ea, Eb2. simpl.
      split; [apply HF | apply HB]. }
    split; (apply uc_ext; [assumption | apply wf_mul; assumption |]); intros j;
      rewrite exp_of_mul, exp_of_pow, exp_of_div.
    - rewrite (proj1 (X2 j)), (proj1 (X1 j)).
      rewrite (lsumw_shift (λ k, exp_of (default ∅ (rowF (rrow r1) k)) j) _ (deg 63) _ (exp_of Fn2 j - exp_of Fn1 j)%Qc)
        by (intros kv Hin; apply (proj1 (Hkv kv Hin j))). unfold degc. ring.
    - rewrite (proj2 (X2 j)), (proj2 (X1 j)).
      rewrite (lsumw_shift (λ k, exp_of (default ∅ (rowB (rrow r1) k)) j) _ (deg 63) _ (exp_of Bn2 j - exp_of Bn1 j)%Qc)
        by (intros kv Hin; apply (proj2 (Hkv kv Hin j))). unfold degc. ring.
  Qed.

  (** a container that never reaches [n] has degree 0: nothing changes (the frame, again) *)
  Corollary rsem_subst_frame a F1 B1 F2 B2 :
    rsem r1 a = Some (F1, B1) → rsem r2 a = Some (F2, B2) → degc a = 0%Qc → F2 = F1 ∧ B2 = B1.
  Proof.
    intros H1 H2 Hd. destruct (rsem_subst a _ _ _ _ H1 H2) as [-> ->]. rewrite Hd, !uc_pow_zero, !uc_mul_empty_r. auto.
  Qed.
End Subst.

(** * [redefine] produces such a pair of registries *)
Lemma u_symbol_redef base sc fl ref :
  u_symbol (UDef (u_name base) (Some (u_symbol base)) (u_aliases base) sc fl CScale ref false) = u_symbol base.
Proof.
  unfold u_symbol at 1. cbn [u_sym u_name]. destruct (String.eqb (u_symbol base) "") eqn:E; [|reflexivity].
  apply String.eqb_eq in E. rewrite E. unfold u_symbol in E.
  destruct (u_sym base) as [s|]; [|exact E]. destruct (String.eqb s "") eqn:E2; [exact E|].
  apply String.eqb_neq in E2. congruence.
Qed.

Section RedefDiffer.
  Variables (r : reg) (nd base : udef).
  Hypothesis Hname : u_name nd = u_name base.
  Hypothesis Hsym : u_symbol nd = u_symbol base.
  (** every spelling of the unit denotes it, and no other entry of the unit table bears its name *)
  Hypothesis Hown : ∀ k, k ∈ spellings nd → r_units r !! k = Some base.
  Hypothesis Huniq : ∀ k d, r_units r !! k = Some d → u_name d = u_name nd → k ∈ spellings nd.

  Lemma own_weak : ∀ k, k ∈ spellings nd → ∃ b, r_units r !! k = Some b ∧ u_name b = u_name nd ∧ u_symbol b = u_symbol nd.
  Proof. intros k Hk. exists base. rewrite (Hown k Hk). auto. Qed.

  Lemma table_case k d1 d2 :
    (if decide (k ∈ spellings nd) then Some nd else r_units r !! k) = Some d2 → r_units r !! k = Some d1 →
    if bool_decide (u_name d1 = u_name nd) then d1 = base ∧ d2 = nd else d1 = d2.
  Proof.
    destruct (decide (k ∈ spellings nd)) as [Hin|Hn].
    - rewrite (Hown k Hin). intros [= <-] [= <-]. rewrite bool_decide_eq_true_2 by congruence. auto.
    - intros E2 E1. rewrite E1 in E2. injection E2 as <-.
      destruct (bool_decide (u_name d1 = u_name nd)) eqn:Eb; [|reflexivity].
      apply bool_decide_eq_true in Eb. exfalso. exact (Hn (Huniq _ _ E1 Eb)).
  Qed.

  Theorem redefine_differ_at : differ_at r (r_over r nd) (u_name nd) base nd.
  Proof.
    intros k d1 d2 E1 E2. unfold resolve in E1, E2.
    rewrite (over_lookup r nd k) in E2.
    destruct (r_units r !! k) as [d|] eqn:Ek.
    - injection E1 as <-.
      apply (table_case k d d2); [|exact Ek].
      destruct (decide (k ∈ spellings nd)); [congruence|]. rewrite Ek. congruence.
    - destruct (decide (k ∈ spellings nd)) as [Hin|Hn]; [rewrite (Hown k Hin) in Ek; discriminate|].
      rewrite (over_parse r nd own_weak) in E2.
      destruct (parse_unit_name r k) as [|[p u] l]; [discriminate|].
      destruct (String.eqb p "").
      + rewrite (over_lookup r nd u) in E2.
        destruct (r_units r !! u) as [d|] eqn:Eu.
        * injection E1 as <-. apply (table_case u d d2); [|exact Eu].
          destruct (decide (u ∈ spellings nd)); [congruence|]. rewrite Eu. congruence.
        * discriminate.
      + rewrite (over_lookup r nd (p ++ u)) in E2.
        destruct (r_units r !! (p ++ u)) as [d|] eqn:Epu.
        * injection E1 as <-. apply (table_case (p ++ u) d d2); [|exact Epu].
          destruct (decide (p ++ u ∈ spellings nd)); [congruence|]. rewrite Epu. congruence.
        * destruct (decide (p ++ u ∈ spellings nd)) as [Hin2|Hn2]; [rewrite (Hown _ Hin2) in Epu; discriminate|].
          unfold prefixed_def in E1, E2. change (r_prefixes (r_over r nd)) with (r_prefixes r) in E2.
          destruct (r_prefixes r !! p) as [pd|]; [|discriminate].
          rewrite (over_symbol r nd own_weak) in E2.
          destruct (r_units r !! u) as [ud|]; [|discriminate].
          destruct (r_units (r_over r nd) !! u) as [ud'|]; [|discriminate].
          destruct (negb (u_multiplicative ud)); [discriminate|]. destruct (negb (u_multiplicative ud')); [discriminate|].
          destruct (get_symbol r (p ++ u)) as [sym|]; [|discriminate]. cbn [rbind] in E1, E2.
          injection E1 as <-. injection E2 as <-. cbn [u_name].
          destruct (bool_decide (p ++ u = u_name nd)) eqn:Eb; [|reflexivity].
          apply bool_decide_eq_true in Eb. exfalso. apply Hn2. rewrite Eb. unfold spellings. left.
  Qed.
End RedefDiffer.

Global Instance conv_eq_dec : EqDecision conv.
Proof. solve_decision. Defined.
Global Instance udef_eq_dec : EqDecision udef.
Proof. solve_decision. Defined.

(** decidable forms of the two hypotheses *)
Definition own_strictb (r : reg) (nd base : udef) : bool :=
  forallb (λ k, bool_decide (r_units r !! k = Some base)) (spellings nd).
Definition uniqb (r : reg) (nd : udef) : bool :=
  forallb (λ kd : string * udef, negb (bool_decide (u_name kd.2 = u_name nd)) || bool_decide (kd.1 ∈ spellings nd))
          (map_to_list (r_units r)).
Lemma own_strictb_spec r nd base : own_strictb r nd base = true → ∀ k, k ∈ spellings nd → r_units r !! k = Some base.
Proof.
  unfold own_strictb. rewrite forallb_forall. intros H k Hk. apply elem_of_list_In in Hk.
  exact (proj1 (bool_decide_eq_true _) (H k Hk)).
Qed.
Lemma uniqb_spec r nd : uniqb r nd = true → ∀ k d, r_units r !! k = Some d → u_name d = u_name nd → k ∈ spellings nd.
Proof.
  unfold uniqb. rewrite forallb_forall. intros H k d Hk Hn.
  specialize (H (k, d)). cbn [fst snd] in H.
  assert (Hin : In (k, d) (map_to_list (r_units r))) by (apply elem_of_list_In, elem_of_map_to_list; exact Hk).
  specialize (H Hin). apply orb_true_iff in H as [H|H].
  - apply negb_true_iff, bool_decide_eq_false in H. contradiction.
  - apply bool_decide_eq_true in H. exact H.
Qed.

(** ** the full statement for [redefine]: for EVERY container [a], in closed form.
    [degc r n a] is the exponent with which the expansion of [a] reaches the redefined unit [n];
    [(Fn, Bn)] / [(Fn', Bn')] are the root units (symbolic factor, base units) of [n] before / after. *)
Theorem redefinition_closed_form (r r' : reg) (d : redef) :
  redefine r d = Ok r' →
  ∃ base nd, r' = r_over r nd ∧ u_name nd = u_name base ∧
    (own_strictb r nd base = true → uniqb r nd = true →
     ∀ Fn Bn Fn' Bn', rrow r (u_name nd) = Some (Fn, Bn) → rrow r' (u_name nd) = Some (Fn', Bn') →
     ∀ a F B F' B', rsem r a = Some (F, B) → rsem r' a = Some (F', B') →
       F' = uc_mul F (uc_pow (uc_div Fn' Fn) (degc r (u_name nd) a)) ∧
       B' = uc_mul B (uc_pow (uc_div Bn' Bn) (degc r (u_name nd) a))).
Proof.
  intros H. destruct (redefine_shape r r' d H) as (base & sc & fl & ref & _ & ->).
  set (nd := UDef (u_name base) (Some (u_symbol base)) (u_aliases base) sc fl CScale ref false).
  exists base, nd. split; [reflexivity|]. split; [reflexivity|].
  intros Ho Hu Fn Bn Fn' Bn' Hr Hr' a F B F' B' Ha Ha'.
  pose proof (own_strictb_spec _ _ _ Ho) as Hown. pose proof (uniqb_spec _ _ Hu) as Huniq.
  assert (Hn : u_name nd ∈ spellings nd) by (unfold spellings; left).
  assert (Hk1 : resolve r (u_name nd) = Ok base) by (unfold resolve; rewrite (Hown _ Hn); reflexivity).
  assert (Hk2 : resolve (r_over r nd) (u_name nd) = Ok nd).
  { unfold resolve. rewrite over_lookup. destruct (decide (u_name nd ∈ spellings nd)); [reflexivity | contradiction]. }
  exact (rsem_subst r (r_over r nd) (u_name nd) base nd
           (redefine_differ_at r nd base eq_refl (u_symbol_redef base sc fl ref) Hown Huniq)
           (u_name nd) (u_name nd) 63 63 Fn Bn Fn' Bn' Hk1 Hk2 Hr Hr' a F B F' B' Ha Ha').
Qed.

(** in terms of [root_of]: base units and the symbolic factor handed to [eval_factor] *)
Corollary redefinition_root_of (r r' : reg) (d : redef) :
  redefine r d = Ok r' →
  ∃ base nd, r' = r_over r nd ∧
    (own_strictb r nd base = true → uniqb r nd = true →
     ∀ Fn Bn Fn' Bn', rrow r (u_name nd) = Some (Fn, Bn) → rrow r' (u_name nd) = Some (Fn', Bn') →
     ∀ a f B ex f' B' ex', root_of r a = Ok (f, B, ex) → root_of r' a = Ok (f', B', ex') →
       B' = uc_mul B (uc_pow (uc_div Bn' Bn) (degc r (u_name nd) a)) ∧
       ∃ F, rsem r a = Some (F, B) ∧ eval_factor r F = Ok f ∧
            eval_factor r' (uc_mul F (uc_pow (uc_div Fn' Fn) (degc r (u_name nd) a))) = Ok f').
Proof.
  intros H. destruct (redefinition_closed_form r r' d H) as (base & nd & -> & _ & Hcf).
  exists base, nd. split; [reflexivity|]. intros Ho Hu Fn Bn Fn' Bn' Hr Hr' a f B ex f' B' ex' H1 H2.
  destruct (root_of_sem _ _ _ _ _ H1) as (F & HF & Ef). destruct (root_of_sem _ _ _ _ _ H2) as (F' & HF' & Ef').
  destruct (Hcf Ho Hu _ _ _ _ Hr Hr' a _ _ _ _ HF HF') as [-> ->].
  split; [reflexivity|]. exists F. auto.
Qed.

(** unreached containers: degree 0, nothing moves *)
Corollary redefinition_degree_zero (r r' : reg) (d : redef) :
  redefine r d = Ok r' →
  ∃ base nd, r' = r_over r nd ∧
    (own_strictb r nd base = true → uniqb r nd = true →
     ∀ Fn Bn Fn' Bn', rrow r (u_name nd) = Some (Fn, Bn) → rrow r' (u_name nd) = Some (Fn', Bn') →
     ∀ a F B F' B', rsem r a = Some (F, B) → rsem r' a = Some (F', B') →
       degc r (u_name nd) a = 0%Qc → F' = F ∧ B' = B).
Proof.
  intros H. destruct (redefinition_closed_form r r' d H) as (base & nd & -> & _ & Hcf).
  exists base, nd. split; [reflexivity|]. intros Ho Hu Fn Bn Fn' Bn' Hr Hr' a F B F' B' Ha Ha' Hd.
  destruct (Hcf Ho Hu _ _ _ _ Hr Hr' a _ _ _ _ Ha Ha') as [-> ->].
  rewrite Hd, !uc_pow_zero, !uc_mul_empty_r. auto.
Qed.

(** the hypotheses and the degrees on the concrete registry of [redefinition_example]
    ([foot = 12 inch] redefined as [10 inch]; [yard = 3 foot]) *)
Definition rd_base : udef := default rd_nd (r_units rd_reg !! "foot").
Lemma closed_form_example :
  rd_reg' = r_over rd_reg rd_nd ∧ own_strictb rd_reg rd_nd rd_base = true ∧ uniqb rd_reg rd_nd = true ∧
  degc rd_reg "foot" (u1 "yard") = 1%Qc ∧ degc rd_reg "foot" (u1 "hour") = 0%Qc ∧
  degc rd_reg "foot" (mkuc [("yard", mkq 2 1); ("hour", mkq (-1) 1)]) = mkq 2 1 ∧
  rrow rd_reg "foot" = Some ({[ "foot" := 1%Qc ]}, {[ "inch" := 1%Qc ]}) ∧
  rsem rd_reg' (u1 "yard") = Some (mkuc [("yard", mkq 1 1); ("foot", mkq 1 1)], mkuc [("inch", mkq 1 1)]).
Proof. repeat split; by_compute. Qed.

(** ** the numeric factor: [eval_factor] in the overlaid registry multiplies the scales of the
    generators of that symbolic factor, and the scales are those of [r] except for the redefined unit *)
Lemma gscale_over_other (r : reg) (nd : udef) g :
  (∀ k, k ∈ spellings nd → ∃ b, r_units r !! k = Some b ∧ u_name b = u_name nd ∧ u_symbol b = u_symbol nd) →
  ¬ touched r nd g → gscale (r_over r nd) g = gscale r g.
Proof. intros own Hg. unfold gscale. rewrite (over_agree r nd own g Hg). reflexivity. Qed.
Lemma gscale_over_unit (r : reg) (nd : udef) :
  gscale (r_over r nd) (u_name nd) = if u_float nd then 1%Qc else u_scale nd.
Proof.
  unfold gscale, resolve. rewrite over_lookup.
  destruct (decide (u_name nd ∈ spellings nd)) as [_|Hn]; [reflexivity|]. exfalso. apply Hn. unfold spellings. left.
Qed.
Corollary redefinition_value (r r' : reg) (d : redef) :
  redefine r d = Ok r' →
  ∃ base nd, r' = r_over r nd ∧
    (own_strictb r nd base = true → uniqb r nd = true →
     ∀ Fn Bn Fn' Bn', rrow r (u_name nd) = Some (Fn, Bn) → rrow r' (u_name nd) = Some (Fn', Bn') →
     ∀ a F B, rsem r a = Some (F, B) → is_Some (rsem r' a) →
       let F' := uc_mul F (uc_pow (uc_div Fn' Fn) (degc r (u_name nd) a)) in
       reg_nz r' → gens_ok r' F' → integral F' →
       ∃ ex, root_of r' a = Ok (Some (mprod (gscale r') F'),
                                uc_mul B (uc_pow (uc_div Bn' Bn) (degc r (u_name nd) a)), ex)).
Proof.
  intros H. destruct (redefinition_closed_form r r' d H) as (base & nd & -> & _ & Hcf).
  exists base, nd. split; [reflexivity|]. intros Ho Hu Fn Bn Fn' Bn' Hr Hr' a F B Ha [[F2 B2] Ha'] F' Hnz Hg Hi.
  destruct (Hcf Ho Hu _ _ _ _ Hr Hr' a _ _ _ _ Ha Ha') as [E1 E2]. subst F2 B2.
  apply (root_of_from_sem _ _ _ _ _ Ha'). apply eval_factor_exact; assumption.
Qed.
