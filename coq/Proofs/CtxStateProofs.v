(** Proofs/CtxStateProofs.v — the context state machine is a stack, exits restore, failed
    activations are atomic and shared Context objects stay untouched (C12), each for the quirk
    settings under which it holds; refutations for pint's actual behaviour ([faithful]). *)
From Coq Require Import Ascii.
From stdpp Require Import gmap strings list.
From PintV Require Import Model.UC Model.CtxState.

(** * Association lists *)
Section assoc.
  Context {K V : Type} `{EqDecision K}.
  Implicit Types (k : K) (l : list (K * V)).

  Lemma alookup_adelete_ne k k' l : k ≠ k' → alookup k' (adelete k l) = alookup k' l.
  Proof.
    intros Hne. induction l as [|[k0 v] l IH]; simpl; [done|].
    destruct (bool_decide (k = k0)) eqn:E; simpl.
    - apply bool_decide_eq_true in E. subst k0. destruct (decide (k' = k)); [congruence|done].
    - destruct (decide (k' = k0)); [done|exact IH].
  Qed.
  Lemma alookup_adelete_eq k l : alookup k (adelete k l) = None.
  Proof.
    induction l as [|[k0 v] l IH]; simpl; [done|].
    destruct (bool_decide (k = k0)) eqn:E; simpl; [exact IH|].
    apply bool_decide_eq_false in E. destruct (decide (k = k0)); [done|exact IH].
  Qed.
  Lemma alookup_ainsert_eq k v l : alookup k (ainsert k v l) = Some v.
  Proof. unfold ainsert. simpl. destruct (decide (k = k)); done. Qed.
  Lemma alookup_ainsert_ne k k' v l : k ≠ k' → alookup k' (ainsert k v l) = alookup k' l.
  Proof.
    intros Hne. unfold ainsert. simpl. destruct (decide (k' = k)); [congruence|].
    by apply alookup_adelete_ne.
  Qed.
  Lemma adelete_notin k l : alookup k l = None → adelete k l = l.
  Proof.
    induction l as [|[k0 v] l IH]; simpl; [done|].
    destruct (decide (k = k0)) as [->|Hne]; [done|].
    intros H. rewrite bool_decide_eq_false_2 by done. simpl. by rewrite IH.
  Qed.
  Lemma adelete_ainsert_notin k v l : alookup k l = None → adelete k (ainsert k v l) = l.
  Proof.
    intros H. unfold ainsert. simpl. rewrite bool_decide_eq_true_2 by done. simpl.
    rewrite (adelete_notin k l H). by apply adelete_notin.
  Qed.
End assoc.

Lemma elem_of_kadd k k' l : k' ∈ kadd k l ↔ k' = k ∨ k' ∈ l.
Proof.
  unfold kadd. destruct (bool_decide (k ∈ l)) eqn:E.
  - apply bool_decide_eq_true in E. split; [by right|]. intros [->|]; done.
  - rewrite elem_of_cons. done.
Qed.
Lemma elem_of_kdel k k' l : k' ∈ kdel k l ↔ k' ≠ k ∧ k' ∈ l.
Proof.
  unfold kdel. rewrite !elem_of_list_In, filter_In.
  rewrite negb_true_iff, bool_decide_eq_false. split; intros [? ?]; split; auto; congruence.
Qed.
Lemma kdel_kadd_notin k l : k ∉ l → kdel k (kadd k l) = l.
Proof.
  intros H. unfold kadd. rewrite bool_decide_eq_false_2 by done. unfold kdel. simpl.
  rewrite bool_decide_eq_true_2 by done. simpl.
  induction l as [|x l IH]; simpl; [done|].
  apply not_elem_of_cons in H as [H1 H2]. rewrite bool_decide_eq_false_2 by done. simpl. by rewrite IH.
Qed.

Local Arguments ainsert : simpl never.
Local Arguments adelete : simpl never.
Local Arguments alookup : simpl never.
Local Arguments kadd : simpl never.
Local Arguments kdel : simpl never.

(** * [switch] *)
Lemma switch_active qk cfg s : rs_active (switch qk cfg s).1 = rs_active s.
Proof.
  unfold switch. destruct (negb (has_redefs (rs_active s))); [done|].
  destruct (alookup _ _), (q_rebuild_on_hit qk); done.
Qed.
Lemma switch_frames qk cfg s : rs_frames (switch qk cfg s).1 = rs_frames s.
Proof.
  unfold switch. destruct (negb (has_redefs (rs_active s))); [done|].
  destruct (alookup _ _), (q_rebuild_on_hit qk); done.
Qed.
Lemma switch_base qk cfg s : rs_base (switch qk cfg s).1 = rs_base s.
Proof.
  unfold switch. destruct (negb (has_redefs (rs_active s))); [done|].
  destruct (alookup _ _), (q_rebuild_on_hit qk); done.
Qed.
Lemma switch_bcache qk cfg s : rs_bcache (switch qk cfg s).1 = rs_bcache s.
Proof.
  unfold switch. destruct (negb (has_redefs (rs_active s))); [done|].
  destruct (alookup _ _), (q_rebuild_on_hit qk); done.
Qed.

(** the invariant linking the active chain, the overlay store and the layers (early-return setting) *)
Definition caches_known (s : rstate) : Prop :=
  ∀ k, k ∈ rs_caches s → is_Some (alookup k (rs_ctx_units s)).
Definition inv (s : rstate) : Prop :=
  rs_below s = [] ∧
  (has_redefs (rs_active s) = true → is_Some (alookup (key_of (rs_active s)) (rs_ctx_units s))) ∧
  caches_known s.

Lemma inv_init base : inv (init_state base).
Proof. split; [done|]. split; [done|]. intros k H. by apply elem_of_nil in H. Qed.

(** what a switch does to the overlay store when hits return early *)
Lemma switch_cases qk cfg s :
  q_rebuild_on_hit qk = false →
  let r := switch qk cfg s in
  (r.2 = None ∧ rs_ctx_units r.1 = rs_ctx_units s ∧ rs_caches r.1 = rs_caches s ∧ rs_below r.1 = []
     ∧ (has_redefs (rs_active s) = true → is_Some (alookup (key_of (rs_active s)) (rs_ctx_units s))))
  ∨ (∃ ov, has_redefs (rs_active s) = true ∧ alookup (key_of (rs_active s)) (rs_ctx_units s) = None
     ∧ rs_ctx_units r.1 = ainsert (key_of (rs_active s)) ov (rs_ctx_units s)
     ∧ rs_caches r.1 = kadd (key_of (rs_active s)) (rs_caches s) ∧ rs_below r.1 = []).
Proof.
  intros Hq. unfold switch. rewrite Hq.
  destruct (has_redefs (rs_active s)) eqn:Hr; simpl.
  - destruct (alookup (key_of (rs_active s)) (rs_ctx_units s)) eqn:Hl.
    + left. repeat split; eauto.
    + right. eexists. repeat split; done.
  - left. repeat split; eauto. discriminate.
Qed.

Lemma switch_inv qk cfg s :
  q_rebuild_on_hit qk = false → caches_known s → inv (switch qk cfg s).1.
Proof.
  intros Hq Hc. pose proof (switch_cases qk cfg s Hq) as H. simpl in H.
  unfold inv. rewrite switch_active.
  destruct H as [(_ & Hcu & Hca & Hb & Hhit)|(ov & Hr & Hmiss & Hcu & Hca & Hb)].
  - split; [done|]. split.
    + intros Hr. rewrite Hcu. auto.
    + intros k Hk. rewrite Hca in Hk. rewrite Hcu. auto.
  - split; [done|]. split.
    + intros _. rewrite Hcu, alookup_ainsert_eq. by eexists.
    + intros k Hk. rewrite Hca in Hk. apply elem_of_kadd in Hk. rewrite Hcu.
      destruct (decide (key_of (rs_active s) = k)) as [<-|Hne].
      * rewrite alookup_ainsert_eq. by eexists.
      * rewrite alookup_ainsert_ne by done. destruct Hk as [->|Hk]; [done|auto].
Qed.

(** existing overlays are never touched by a switch (they are only reused) *)
Lemma switch_mono qk cfg s k v :
  q_rebuild_on_hit qk = false →
  alookup k (rs_ctx_units s) = Some v → alookup k (rs_ctx_units (switch qk cfg s).1) = Some v.
Proof.
  intros Hq Hk. pose proof (switch_cases qk cfg s Hq) as H. simpl in H.
  destruct H as [(_ & Hcu & _)|(ov & Hr & Hmiss & Hcu & _)]; rewrite Hcu; [done|].
  rewrite alookup_ainsert_ne; [done|]. intros <-. congruence.
Qed.

(** * [do_enable] *)
Lemma entries_names qk cfg kw (os : objs) cs :
  map ce_name (map (λ c, mk_entry qk cfg kw c (default dummy_obj (os !! c))) cs) = cs.
Proof. rewrite map_map. simpl. apply map_id. Qed.

Definition enable_objs (qk : quirks) (cfg : regcfg) (os : objs) (cs : list string) : objs :=
  if q_rewrite_shared qk
  then foldl (λ m c, match m !! c with Some o => <[c := check_obj cfg o]> m | None => m end) os cs
  else os.
Definition enable_entries qk cfg (os : objs) (s : rstate) (cs : list string) (kw : params) : list centry :=
  let inh := chain_defaults qk (rs_active s) in
  let kw' := if bool_decide (inh = ∅) then kw else kw ∪ inh in
  map (λ c, mk_entry qk cfg kw' c (default dummy_obj (enable_objs qk cfg os cs !! c))) cs.

Lemma do_enable_unfold qk cfg os s cs kw :
  do_enable qk cfg os s cs kw =
  match resolve os cs with
  | None => (os, s, Some EKey)
  | Some _ =>
      let os' := enable_objs qk cfg os cs in
      let entries := enable_entries qk cfg os s cs kw in
      let s1 := set_active (λ a, rev entries ++ a) s in
      match switch qk cfg s1 with
      | (s2, None) => (os', s2, None)
      | (s2, Some e) =>
          if q_partial_activation qk then (os', s2, Some e)
          else (os', rollback qk cfg s2 (length entries), Some e)
      end
  end.
Proof. reflexivity. Qed.

Lemma enable_entries_names qk cfg os s cs kw :
  map ce_name (enable_entries qk cfg os s cs kw) = cs.
Proof. apply entries_names. Qed.
Lemma enable_entries_length qk cfg os s cs kw : length (enable_entries qk cfg os s cs kw) = length cs.
Proof. unfold enable_entries. by rewrite map_length. Qed.

(** a successful activation pushes the new entries and touches nothing else of the stack *)
Lemma do_enable_ok qk cfg os s cs kw os' s' :
  do_enable qk cfg os s cs kw = (os', s', None) →
  rs_active s' = rev (enable_entries qk cfg os s cs kw) ++ rs_active s ∧ rs_frames s' = rs_frames s
  ∧ rs_base s' = rs_base s ∧ rs_bcache s' = rs_bcache s.
Proof.
  rewrite do_enable_unfold. destruct (resolve os cs); [|discriminate]. simpl.
  destruct (switch _ _ _) as [s2 [e|]] eqn:Hsw.
  - destruct (q_partial_activation qk); discriminate.
  - intros [= <- <-].
    pose proof (switch_active qk cfg (set_active (λ a, rev (enable_entries qk cfg os s cs kw) ++ a) s)) as Ha.
    pose proof (switch_frames qk cfg (set_active (λ a, rev (enable_entries qk cfg os s cs kw) ++ a) s)) as Hf.
    pose proof (switch_base qk cfg (set_active (λ a, rev (enable_entries qk cfg os s cs kw) ++ a) s)) as Hb.
    pose proof (switch_bcache qk cfg (set_active (λ a, rev (enable_entries qk cfg os s cs kw) ++ a) s)) as Hc.
    rewrite Hsw in Ha, Hf, Hb, Hc. simpl in *. done.
Qed.

Lemma do_disable_ok qk cfg s n :
  let r := do_disable qk cfg s n in
  rs_active r.1 = (match n with None => [] | Some k => drop k (rs_active s) end)
  ∧ rs_frames r.1 = rs_frames s ∧ rs_base r.1 = rs_base s ∧ rs_bcache r.1 = rs_bcache s.
Proof.
  simpl. unfold do_disable.
  rewrite switch_active, switch_frames, switch_base, switch_bcache. done.
Qed.

(** * The active chain is the stack the operations imply *)
Lemma probe_effect_fields qk cfg s q :
  let s' := probe_effect qk cfg s q in
  rs_active s' = rs_active s ∧ rs_frames s' = rs_frames s ∧ rs_caches s' = rs_caches s
  ∧ rs_ctx_units s' = rs_ctx_units s ∧ rs_below s' = rs_below s ∧ rs_base s' = rs_base s.
Proof.
  simpl. destruct q; simpl; try done.
  destruct (q_base_cache_ctx_blind qk); [|done].
  destruct (alookup u (rs_bcache s)); [done|].
  destruct (base_compute _ _ _); done.
Qed.

Lemma step_spec qk cfg st o :
  is_failed (step qk cfg st o).2 = false →
  let s' := (step qk cfg st o).1.2 in
  (active_names s', rs_frames s') = spec_step (active_names st.2, rs_frames st.2) o.
Proof.
  destruct st as [os s]. destruct o as [cs kw|n|cs kw| | |q|name d]; simpl.
  - destruct (do_enable qk cfg os s cs kw) as [[os' s'] [e|]] eqn:He; simpl; [discriminate|]. intros _.
    apply do_enable_ok in He as (Ha & Hf & _). unfold active_names. rewrite Ha, Hf.
    rewrite map_app, map_rev, enable_entries_names. done.
  - pose proof (do_disable_ok qk cfg s n) as (Ha & Hf & _).
    destruct (do_disable qk cfg s n) as [s' [e|]]; simpl in *; [discriminate|]. intros _.
    unfold active_names. rewrite Ha, Hf. destruct n; simpl; [by rewrite skipn_map|done].
  - destruct (do_enable qk cfg os s cs kw) as [[os' s'] [e|]] eqn:He; simpl; [discriminate|]. intros _.
    apply do_enable_ok in He as (Ha & Hf & _). unfold active_names. simpl. rewrite Ha, Hf.
    rewrite map_app, map_rev, enable_entries_names. done.
  - destruct (rs_frames s) as [|n fr] eqn:Hfr; simpl; [by rewrite Hfr|].
    pose proof (do_disable_ok qk cfg (set_frames (λ _, fr) s) (Some n)) as (Ha & Hf & _).
    destruct (do_disable _ _ _ _) as [s' [e|]]; simpl in *; [discriminate|]. intros _.
    unfold active_names. rewrite Ha, Hf. simpl. by rewrite skipn_map.
  - destruct (rs_frames s) as [|n fr] eqn:Hfr; simpl; [by rewrite Hfr|].
    pose proof (do_disable_ok qk cfg (set_frames (λ _, fr) s) (Some n)) as (Ha & Hf & _).
    destruct (do_disable _ _ _ _) as [s' [e|]]; simpl in *; [discriminate|]. intros _.
    unfold active_names. rewrite Ha, Hf. simpl. by rewrite skipn_map.
  - intros _. pose proof (probe_effect_fields qk cfg s q) as (Ha & Hf & _). simpl in *.
    unfold active_names. by rewrite Ha, Hf.
  - destruct (lookup_layers _ _ _); simpl; [discriminate|]. intros _.
    destruct (has_redefs (rs_active s)); done.
Qed.

Lemma run_cons qk cfg st o ops : run qk cfg st (o :: ops) = run qk cfg (stepS qk cfg st o) ops.
Proof. reflexivity. Qed.
Lemma run_app qk cfg st a b : run qk cfg st (a ++ b) = run qk cfg (run qk cfg st a) b.
Proof. unfold run. apply fold_left_app. Qed.
Lemma run_ok_cons qk cfg st o ops :
  run_ok qk cfg st (o :: ops) = negb (is_failed (step qk cfg st o).2) && run_ok qk cfg (stepS qk cfg st o) ops.
Proof. reflexivity. Qed.
Lemma run_ok_app qk cfg st a b :
  run_ok qk cfg st (a ++ b) = run_ok qk cfg st a && run_ok qk cfg (run qk cfg st a) b.
Proof.
  revert st. induction a as [|o a IH]; intros st; [done|].
  rewrite <- app_comm_cons, !run_ok_cons, run_cons, IH. by rewrite andb_assoc.
Qed.

Lemma active_is_stack qk cfg st ops :
  run_ok qk cfg st ops = true →
  (active_names (run qk cfg st ops).2, rs_frames (run qk cfg st ops).2)
  = spec_run (active_names st.2, rs_frames st.2) ops.
Proof.
  revert st. induction ops as [|o ops IH]; intros st Hok; [done|].
  rewrite run_ok_cons in Hok. apply andb_true_iff in Hok as [H1 H2].
  apply negb_true_iff in H1. rewrite run_cons, (IH _ H2).
  unfold spec_run. simpl. f_equal. unfold stepS. by rewrite (step_spec qk cfg st o H1).
Qed.

(** * Invariant preservation (setting: hits return early) *)
Lemma switch_fail qk cfg s e :
  q_rebuild_on_hit qk = false → (switch qk cfg s).2 = Some e →
  has_redefs (rs_active s) = true ∧ alookup (key_of (rs_active s)) (rs_ctx_units s) = None ∧
  ∃ ov, (switch qk cfg s).1 =
        set_below (λ _, []) (set_ctx_units (ainsert (key_of (rs_active s)) ov)
                               (set_caches (kadd (key_of (rs_active s))) s)).
Proof.
  intros Hq. unfold switch. rewrite Hq.
  destruct (has_redefs (rs_active s)); simpl; [|discriminate].
  destruct (alookup (key_of (rs_active s)) (rs_ctx_units s)); simpl; [discriminate|].
  intros _. repeat split; try done. by eexists.
Qed.

Lemma caches_known_rollback_pre s k n :
  inv s →
  caches_known (set_active (drop n) (set_ctx_units (adelete k) (set_caches (kdel k) s))).
Proof.
  intros (_ & _ & Hc) k' Hk. simpl in *. apply elem_of_kdel in Hk as [Hne Hk].
  rewrite alookup_adelete_ne by done. auto.
Qed.

Lemma do_enable_inv qk cfg os s cs kw :
  q_rebuild_on_hit qk = false → inv s → inv (do_enable qk cfg os s cs kw).1.2.
Proof.
  intros Hq Hinv. rewrite do_enable_unfold. destruct (resolve os cs); [|done]. simpl.
  set (s1 := set_active _ s).
  assert (caches_known s1) as Hc1 by (destruct Hinv as (_ & _ & H); exact H).
  pose proof (switch_inv qk cfg s1 Hq Hc1) as Hi2.
  destruct (switch qk cfg s1) as [s2 [e|]]; simpl in *; [|done].
  destruct (q_partial_activation qk); simpl; [done|].
  unfold rollback. apply switch_inv; [done|]. by apply caches_known_rollback_pre.
Qed.

Lemma do_disable_inv qk cfg s n :
  q_rebuild_on_hit qk = false → inv s → inv (do_disable qk cfg s n).1.
Proof. intros Hq (_ & _ & Hc). unfold do_disable. apply switch_inv; done. Qed.

Lemma step_inv qk cfg os s o :
  q_rebuild_on_hit qk = false → inv s → inv (step qk cfg (os, s) o).1.2.
Proof.
  intros Hq Hinv. destruct o as [cs kw|n|cs kw| | |q|name d]; simpl.
  - pose proof (do_enable_inv qk cfg os s cs kw Hq Hinv).
    by destruct (do_enable qk cfg os s cs kw) as [[? ?] [?|]].
  - pose proof (do_disable_inv qk cfg s n Hq Hinv).
    by destruct (do_disable qk cfg s n) as [? [?|]].
  - pose proof (do_enable_inv qk cfg os s cs kw Hq Hinv).
    by destruct (do_enable qk cfg os s cs kw) as [[? ?] [?|]].
  - destruct (rs_frames s) as [|n fr]; [done|].
    assert (inv (set_frames (λ _, fr) s)) as Hi by exact Hinv.
    pose proof (do_disable_inv qk cfg _ (Some n) Hq Hi).
    by destruct (do_disable qk cfg _ _) as [? [?|]].
  - destruct (rs_frames s) as [|n fr]; [done|].
    assert (inv (set_frames (λ _, fr) s)) as Hi by exact Hinv.
    pose proof (do_disable_inv qk cfg _ (Some n) Hq Hi).
    by destruct (do_disable qk cfg _ _) as [? [?|]].
  - pose proof (probe_effect_fields qk cfg s q) as (Ha & _ & Hc & Hu & Hb & _). simpl in *.
    destruct Hinv as (H1 & H2 & H3). unfold inv, caches_known. rewrite Ha, Hc, Hu, Hb. done.
  - destruct (lookup_layers _ _ _); [done|].
    destruct (has_redefs (rs_active s)) eqn:Hr; simpl; [|exact Hinv].
    destruct Hinv as (H1 & H2 & H3). split; [done|]. split; simpl.
    + intros _. rewrite alookup_ainsert_eq. by eexists.
    + unfold caches_known. simpl. intros k Hk. destruct (decide (key_of (rs_active s) = k)) as [<-|Hne].
      * rewrite alookup_ainsert_eq. by eexists.
      * rewrite alookup_ainsert_ne by done. by apply H3.
Qed.

Lemma run_inv qk cfg st ops :
  q_rebuild_on_hit qk = false → inv st.2 → inv (run qk cfg st ops).2.
Proof.
  intros Hq. revert st. induction ops as [|o ops IH]; intros [os s] Hinv; [done|].
  rewrite run_cons. apply IH. unfold stepS. by apply step_inv.
Qed.

(** * Existing overlays and the base table survive every operation but [define] *)
Definition not_define (o : op) : bool := match o with ODefine _ _ => false | _ => true end.

Lemma do_enable_mono qk cfg os s cs kw k v :
  q_rebuild_on_hit qk = false →
  alookup k (rs_ctx_units s) = Some v →
  alookup k (rs_ctx_units (do_enable qk cfg os s cs kw).1.2) = Some v.
Proof.
  intros Hq Hk. rewrite do_enable_unfold. destruct (resolve os cs); [|done]. simpl.
  set (s1 := set_active _ s).
  assert (alookup k (rs_ctx_units s1) = Some v) as Hk1 by exact Hk.
  pose proof (switch_mono qk cfg s1 k v Hq Hk1) as Hk2.
  destruct (switch qk cfg s1) as [s2 [e|]] eqn:Hsw; simpl in *; [|done].
  destruct (q_partial_activation qk); simpl; [done|].
  pose proof (switch_fail qk cfg s1 e Hq) as Hf. rewrite Hsw in Hf. simpl in Hf.
  destruct (Hf eq_refl) as (_ & Hmiss & _).
  pose proof (switch_active qk cfg s1) as Ha. rewrite Hsw in Ha. simpl in Ha.
  unfold rollback. apply switch_mono; [done|]. simpl. rewrite Ha.
  rewrite alookup_adelete_ne; [done|]. intros <-. simpl in Hmiss. congruence.
Qed.

Lemma do_enable_base qk cfg os s cs kw :
  rs_base (do_enable qk cfg os s cs kw).1.2 = rs_base s.
Proof.
  rewrite do_enable_unfold. destruct (resolve os cs); [|done]. simpl.
  set (s1 := set_active _ s).
  pose proof (switch_base qk cfg s1) as Hb.
  destruct (switch qk cfg s1) as [s2 [e|]]; simpl in *; [|done].
  destruct (q_partial_activation qk); simpl; [done|].
  unfold rollback. by rewrite switch_base.
Qed.

Lemma step_mono qk cfg os s o k v :
  q_rebuild_on_hit qk = false → not_define o = true →
  alookup k (rs_ctx_units s) = Some v →
  alookup k (rs_ctx_units (step qk cfg (os, s) o).1.2) = Some v.
Proof.
  intros Hq Hnd Hk. destruct o as [cs kw|n|cs kw| | |q|name d]; simpl; try discriminate.
  - pose proof (do_enable_mono qk cfg os s cs kw k v Hq Hk).
    by destruct (do_enable qk cfg os s cs kw) as [[? ?] [?|]].
  - pose proof (switch_mono qk cfg (set_active (λ a, match n with None => [] | Some k0 => drop k0 a end) s) k v Hq Hk) as H.
    unfold do_disable. by destruct (switch qk cfg _) as [? [?|]].
  - pose proof (do_enable_mono qk cfg os s cs kw k v Hq Hk).
    by destruct (do_enable qk cfg os s cs kw) as [[? ?] [?|]].
  - destruct (rs_frames s) as [|n fr]; [done|].
    pose proof (switch_mono qk cfg (set_active (drop n) (set_frames (λ _, fr) s)) k v Hq Hk) as H.
    unfold do_disable. by destruct (switch qk cfg _) as [? [?|]].
  - destruct (rs_frames s) as [|n fr]; [done|].
    pose proof (switch_mono qk cfg (set_active (drop n) (set_frames (λ _, fr) s)) k v Hq Hk) as H.
    unfold do_disable. by destruct (switch qk cfg _) as [? [?|]].
  - pose proof (probe_effect_fields qk cfg s q) as (_ & _ & _ & Hu & _). simpl in *. by rewrite Hu.
Qed.

Lemma step_base qk cfg os s o :
  not_define o = true → rs_base (step qk cfg (os, s) o).1.2 = rs_base s.
Proof.
  intros Hnd. destruct o as [cs kw|n|cs kw| | |q|name d]; simpl; try discriminate.
  - pose proof (do_enable_base qk cfg os s cs kw).
    by destruct (do_enable qk cfg os s cs kw) as [[? ?] [?|]].
  - pose proof (do_disable_ok qk cfg s n) as (_ & _ & Hb & _).
    by destruct (do_disable qk cfg s n) as [? [?|]].
  - pose proof (do_enable_base qk cfg os s cs kw).
    by destruct (do_enable qk cfg os s cs kw) as [[? ?] [?|]].
  - destruct (rs_frames s) as [|n fr]; [done|].
    pose proof (do_disable_ok qk cfg (set_frames (λ _, fr) s) (Some n)) as (_ & _ & Hb & _).
    by destruct (do_disable qk cfg _ _) as [? [?|]].
  - destruct (rs_frames s) as [|n fr]; [done|].
    pose proof (do_disable_ok qk cfg (set_frames (λ _, fr) s) (Some n)) as (_ & _ & Hb & _).
    by destruct (do_disable qk cfg _ _) as [? [?|]].
  - by pose proof (probe_effect_fields qk cfg s q) as (_ & _ & _ & _ & _ & Hb).
Qed.

Lemma run_mono qk cfg st ops k v :
  q_rebuild_on_hit qk = false → forallb not_define ops = true →
  alookup k (rs_ctx_units st.2) = Some v →
  alookup k (rs_ctx_units (run qk cfg st ops).2) = Some v ∧ rs_base (run qk cfg st ops).2 = rs_base st.2.
Proof.
  intros Hq. revert st. induction ops as [|o ops IH]; intros [os s] Hnd Hk; [done|].
  simpl in Hnd. apply andb_true_iff in Hnd as [Hn1 Hn2].
  rewrite run_cons. unfold stepS.
  destruct (step qk cfg (os, s) o) as [[os' s'] r] eqn:Hst.
  pose proof (step_mono qk cfg os s o k v Hq Hn1 Hk) as Hm.
  pose proof (step_base qk cfg os s o Hn1) as Hb. rewrite Hst in Hm, Hb. simpl in *.
  destruct (IH (os', s') Hn2 Hm) as [H1 H2]. split; [done|]. by rewrite H2.
Qed.
Lemma run_base qk cfg st ops :
  forallb not_define ops = true → rs_base (run qk cfg st ops).2 = rs_base st.2.
Proof.
  revert st. induction ops as [|o ops IH]; intros [os s] Hnd; [done|].
  simpl in Hnd. apply andb_true_iff in Hnd as [Hn1 Hn2].
  rewrite run_cons, IH by done. unfold stepS. by apply step_base.
Qed.

(** * Balanced bodies restore the stack *)
Definition is_closer (o : op) : bool := match o with OWithExit | ORaise => true | _ => false end.
(** nested [with] blocks left normally or through an exception, matched enable/disable pairs,
    probes in between; no [define] *)
Inductive balanced : list op → Prop :=
| bal_nil : balanced []
| bal_probe q b : balanced b → balanced (OProbe q :: b)
| bal_with cs kw b1 closer b2 :
    balanced b1 → balanced b2 → is_closer closer = true →
    balanced (OWithEnter cs kw :: b1 ++ closer :: b2)
| bal_enable cs kw b1 b2 :
    balanced b1 → balanced b2 →
    balanced (OEnable cs kw :: b1 ++ ODisable (Some (length cs)) :: b2).

Lemma balanced_not_define b : balanced b → forallb not_define b = true.
Proof.
  induction 1 as [|q b _ IH|cs kw b1 closer b2 _ IH1 _ IH2 Hc|cs kw b1 b2 _ IH1 _ IH2]; simpl; try done.
  - rewrite forallb_app. simpl. rewrite IH1, IH2. by destruct closer.
  - rewrite forallb_app. simpl. by rewrite IH1, IH2.
Qed.

Lemma step_closer qk cfg os s o n fr :
  is_closer o = true → rs_frames s = n :: fr →
  let s' := (step qk cfg (os, s) o).1.2 in
  rs_active s' = drop n (rs_active s) ∧ rs_frames s' = fr.
Proof.
  intros Hc Hfr. destruct o; try discriminate; simpl; rewrite Hfr.
  - pose proof (do_disable_ok qk cfg (set_frames (λ _, fr) s) (Some n)) as (Ha & Hf & _).
    by destruct (do_disable qk cfg _ _) as [? [?|]].
  - pose proof (do_disable_ok qk cfg (set_frames (λ _, fr) s) (Some n)) as (Ha & Hf & _).
    by destruct (do_disable qk cfg _ _) as [? [?|]].
Qed.

Lemma step_enter_ok qk cfg os s cs kw :
  is_failed (step qk cfg (os, s) (OWithEnter cs kw)).2 = false →
  let s' := (step qk cfg (os, s) (OWithEnter cs kw)).1.2 in
  rs_active s' = rev (enable_entries qk cfg os s cs kw) ++ rs_active s ∧ rs_frames s' = length cs :: rs_frames s.
Proof.
  simpl. destruct (do_enable qk cfg os s cs kw) as [[os' s'] [e|]] eqn:He; simpl; [discriminate|].
  intros _. apply do_enable_ok in He as (Ha & Hf & _). simpl. by rewrite Ha, Hf.
Qed.
Lemma step_enable_ok qk cfg os s cs kw :
  is_failed (step qk cfg (os, s) (OEnable cs kw)).2 = false →
  let s' := (step qk cfg (os, s) (OEnable cs kw)).1.2 in
  rs_active s' = rev (enable_entries qk cfg os s cs kw) ++ rs_active s ∧ rs_frames s' = rs_frames s.
Proof.
  simpl. destruct (do_enable qk cfg os s cs kw) as [[os' s'] [e|]] eqn:He; simpl; [discriminate|].
  intros _. apply do_enable_ok in He as (Ha & Hf & _). by rewrite Ha, Hf.
Qed.

Lemma drop_entries qk cfg os s cs kw (a : list centry) :
  drop (length cs) (rev (enable_entries qk cfg os s cs kw) ++ a) = a.
Proof.
  apply drop_app_alt. by rewrite rev_length, enable_entries_length.
Qed.

Lemma balanced_restores qk cfg b :
  balanced b → ∀ st, run_ok qk cfg st b = true →
  rs_active (run qk cfg st b).2 = rs_active st.2 ∧ rs_frames (run qk cfg st b).2 = rs_frames st.2.
Proof.
  induction 1 as [|q b _ IH|cs kw b1 closer b2 _ IH1 _ IH2 Hc|cs kw b1 b2 _ IH1 _ IH2]; intros [os s] Hok.
  - done.
  - rewrite run_ok_cons in Hok. apply andb_true_iff in Hok as [_ Hok].
    rewrite run_cons. destruct (IH _ Hok) as [Ha Hf]. rewrite Ha, Hf. unfold stepS. simpl.
    by pose proof (probe_effect_fields qk cfg s q) as (? & ? & _).
  - rewrite run_ok_cons, run_ok_app, run_ok_cons in Hok.
    apply andb_true_iff in Hok as [H0 Hok]. apply andb_true_iff in Hok as [H1 Hok].
    apply andb_true_iff in Hok as [_ H2]. apply negb_true_iff in H0.
    pose proof (step_enter_ok qk cfg os s cs kw H0) as [Ha0 Hf0]. cbv zeta in Ha0, Hf0.
    rewrite run_cons, run_app, run_cons.
    set (st1 := stepS qk cfg (os, s) (OWithEnter cs kw)) in *.
    destruct (IH1 st1 H1) as [Ha1 Hf1].
    set (st2 := run qk cfg st1 b1) in *.
    destruct st2 as [os2 s2] eqn:Hst2.
    assert (rs_frames s2 = length cs :: rs_frames s) as Hfr2 by (simpl in Hf1; rewrite Hf1; unfold st1, stepS; exact Hf0).
    pose proof (step_closer qk cfg os2 s2 closer _ _ Hc Hfr2) as [Ha3 Hf3]. cbv zeta in Ha3, Hf3.
    destruct (IH2 _ H2) as [Ha4 Hf4]. rewrite Ha4, Hf4. unfold stepS at 1 2.
    rewrite Ha3, Hf3. split; [|done].
    simpl in Ha1. rewrite Ha1. unfold st1, stepS. rewrite Ha0. apply drop_entries.
  - rewrite run_ok_cons, run_ok_app, run_ok_cons in Hok.
    apply andb_true_iff in Hok as [H0 Hok]. apply andb_true_iff in Hok as [H1 Hok].
    apply andb_true_iff in Hok as [_ H2]. apply negb_true_iff in H0.
    pose proof (step_enable_ok qk cfg os s cs kw H0) as [Ha0 Hf0]. cbv zeta in Ha0, Hf0.
    rewrite run_cons, run_app, run_cons.
    set (st1 := stepS qk cfg (os, s) (OEnable cs kw)) in *.
    destruct (IH1 st1 H1) as [Ha1 Hf1].
    set (st2 := run qk cfg st1 b1) in *.
    destruct st2 as [os2 s2] eqn:Hst2.
    destruct (IH2 _ H2) as [Ha4 Hf4]. rewrite Ha4, Hf4. unfold stepS at 1 2.
    pose proof (do_disable_ok qk cfg s2 (Some (length cs))) as (Ha3 & Hf3 & _).
    assert (rs_active (step qk cfg (os2, s2) (ODisable (Some (length cs)))).1.2 = drop (length cs) (rs_active s2)
            ∧ rs_frames (step qk cfg (os2, s2) (ODisable (Some (length cs)))).1.2 = rs_frames s2) as [Ha5 Hf5].
    { simpl. by destruct (do_disable qk cfg s2 (Some (length cs))) as [s3 [e|]]. }
    rewrite Ha5, Hf5. simpl in Ha1, Hf1. rewrite Ha1, Hf1. unfold st1, stepS. rewrite Ha0, Hf0.
    split; [apply drop_entries|done].
Qed.

(** * Leaving a context restores every answer *)
Definition is_pbase (q : probe) : bool := match q with PBase _ => true | _ => false end.

Lemma answer_of_ext qk cfg s s' q :
  rs_active s' = rs_active s → layers s' = layers s → rs_base s' = rs_base s →
  q_base_cache_ctx_blind qk = false ∨ is_pbase q = false →
  answer_of qk cfg s' q = answer_of qk cfg s q.
Proof.
  intros Ha Hl Hb Hq. unfold answer_of. rewrite Ha, Hl, Hb.
  destruct q; try done. simpl. destruct Hq as [->|?]; [done|discriminate].
Qed.

Lemma layers_restored s s' :
  inv s → inv s' → rs_active s' = rs_active s →
  (∀ k v, alookup k (rs_ctx_units s) = Some v → alookup k (rs_ctx_units s') = Some v) →
  layers s' = layers s.
Proof.
  intros (Hb & Hk & _) (Hb' & _ & _) Ha Hm. unfold layers, top_overlay. rewrite Ha, Hb, Hb'.
  destruct (has_redefs (rs_active s)) eqn:Hr; [|done].
  destruct (Hk eq_refl) as [v Hv]. by rewrite Hv, (Hm _ _ Hv).
Qed.

(** [blk] = a with-block (left normally or by an exception) or an enable/disable pair around a
    balanced body *)
Lemma block_restores qk cfg st blk q :
  q_rebuild_on_hit qk = false → inv st.2 → balanced blk → run_ok qk cfg st blk = true →
  q_base_cache_ctx_blind qk = false ∨ is_pbase q = false →
  answer_of qk cfg (run qk cfg st blk).2 q = answer_of qk cfg st.2 q.
Proof.
  intros Hq Hinv Hbal Hok Hpq.
  destruct (balanced_restores qk cfg blk Hbal st Hok) as [Ha _].
  pose proof (run_inv qk cfg st blk Hq Hinv) as Hinv'.
  apply answer_of_ext; try done.
  - apply layers_restored; try done.
    intros k v Hk. by apply (run_mono qk cfg st blk k v Hq (balanced_not_define _ Hbal)).
  - apply run_base. by apply balanced_not_define.
Qed.

Lemma exit_restores qk cfg os base ops cs kw body closer q :
  q_rebuild_on_hit qk = false → balanced body → is_closer closer = true →
  let st := run qk cfg (os, init_state base) ops in
  let blk := OWithEnter cs kw :: body ++ [closer] in
  run_ok qk cfg st blk = true →
  q_base_cache_ctx_blind qk = false ∨ is_pbase q = false →
  answer_of qk cfg (run qk cfg st blk).2 q = answer_of qk cfg st.2 q.
Proof.
  intros Hq Hbal Hc st blk Hok Hpq. apply block_restores; try done.
  - apply run_inv; [done|]. apply inv_init.
  - unfold blk. apply bal_with; [done|constructor|done].
Qed.

(** * A failed activation changes nothing (repaired activation, early-return hits) *)
Lemma switch_idle qk cfg s : q_rebuild_on_hit qk = false → inv s → (switch qk cfg s).1 = s.
Proof.
  intros Hq (Hb & Hk & _). unfold switch. rewrite Hq.
  assert (set_below (λ _, []) s = s) as Hs by (destruct s; simpl in *; by subst).
  destruct (has_redefs (rs_active s)); simpl; [|done].
  destruct (Hk eq_refl) as [v ->]. done.
Qed.

Lemma failed_activation_atomic qk cfg os s cs kw os' s' e :
  q_partial_activation qk = false → q_rebuild_on_hit qk = false → inv s →
  do_enable qk cfg os s cs kw = (os', s', Some e) →
  s' = s ∧ (q_rewrite_shared qk = false → os' = os).
Proof.
  intros Hp Hq Hinv. rewrite do_enable_unfold.
  destruct (resolve os cs); [|by intros [= <- <- <-]]. simpl.
  set (ents := enable_entries qk cfg os s cs kw).
  set (s1 := set_active (λ a, rev ents ++ a) s).
  destruct (switch qk cfg s1) as [s2 [e'|]] eqn:Hsw; [|discriminate]. rewrite Hp.
  intros [= <- <- <-]. split; [|by unfold enable_objs; intros ->].
  pose proof (switch_fail qk cfg s1 e' Hq) as Hf. rewrite Hsw in Hf.
  destruct (Hf eq_refl) as (_ & Hmiss & ov & Hs2). simpl in Hs2, Hmiss. subst s2.
  destruct Hinv as (Hb & Hk & Hc).
  assert (key_of (rev ents ++ rs_active s) ∉ rs_caches s) as Hnin.
  { intros Hin. destruct (Hc _ Hin) as [v Hv]. congruence. }
  unfold rollback. subst s1. unfold set_active, set_ctx_units, set_caches, set_below. simpl.
  rewrite (adelete_ainsert_notin _ _ _ Hmiss), (kdel_kadd_notin _ _ Hnin).
  rewrite (drop_app_alt (rev ents) (rs_active s)) by (unfold ents; by rewrite rev_length).
  assert (RS (rs_active s) (rs_frames s) (rs_caches s) (rs_ctx_units s) [] (rs_base s) (rs_bcache s) = s) as ->
    by (destruct s; simpl in *; by subst).
  apply switch_idle; done.
Qed.

(** as a statement about the operations of the repaired model, from any reachable state *)
Lemma failed_activation_atomic_repaired cfg os base ops o e :
  let st := run repaired cfg (os, init_state base) ops in
  (∃ cs kw, o = OEnable cs kw ∨ o = OWithEnter cs kw) →
  (step repaired cfg st o).2 = OFailed e → (step repaired cfg st o).1 = st.
Proof.
  intros st (cs & kw & Ho) Hf.
  assert (inv st.2) as Hinv by (apply run_inv; [done|apply inv_init]).
  destruct st as [os0 s0]. simpl in Hinv.
  pose proof (failed_activation_atomic repaired cfg os0 s0 cs kw) as Hat.
  destruct Ho as [-> | ->]; simpl in *;
    destruct (do_enable repaired cfg os0 s0 cs kw) as [[os' s'] [e'|]] eqn:He; try discriminate;
    destruct (Hat os' s' e' eq_refl eq_refl Hinv eq_refl) as [-> Hos]; by rewrite (Hos eq_refl).
Qed.
Lemma failed_activation_atomic_reachable qk cfg os base ops cs kw os' s' e :
  q_partial_activation qk = false → q_rebuild_on_hit qk = false →
  let st := run qk cfg (os, init_state base) ops in
  do_enable qk cfg st.1 st.2 cs kw = (os', s', Some e) →
  s' = st.2 ∧ (q_rewrite_shared qk = false → os' = st.1).
Proof.
  intros Hp Hq st. apply failed_activation_atomic; try done.
  apply run_inv; [done|apply inv_init].
Qed.

(** * Activation never writes to the Context objects it is given *)
Lemma check_obj_pure cfg o :
  co_defaults (check_obj cfg o) = co_defaults o ∧ co_redefs (check_obj cfg o) = co_redefs o.
Proof. unfold check_obj. by destruct (co_checked o). Qed.

Lemma enable_objs_pure qk cfg (os : objs) cs name :
  (co_defaults <$> enable_objs qk cfg os cs !! name) = (co_defaults <$> os !! name) ∧
  (co_redefs <$> enable_objs qk cfg os cs !! name) = (co_redefs <$> os !! name).
Proof.
  unfold enable_objs. destruct (q_rewrite_shared qk); [|done].
  revert os. induction cs as [|c cs IH]; intros os; [done|]. simpl.
  destruct (os !! c) as [o|] eqn:Hc; [|apply IH].
  destruct (IH (<[c:=check_obj cfg o]> os)) as [H1 H2]. rewrite H1, H2.
  destruct (decide (c = name)) as [->|Hne].
  - rewrite lookup_insert, Hc. simpl. destruct (check_obj_pure cfg o) as [-> ->]. done.
  - by rewrite lookup_insert_ne.
Qed.

Lemma do_enable_objs qk cfg os s cs kw :
  (do_enable qk cfg os s cs kw).1.1 = os ∨ (do_enable qk cfg os s cs kw).1.1 = enable_objs qk cfg os cs.
Proof.
  rewrite do_enable_unfold. destruct (resolve os cs); [|by left]. simpl.
  destruct (switch _ _ _) as [s2 [e|]]; [destruct (q_partial_activation qk)|]; by right.
Qed.

Lemma step_objs qk cfg os s o :
  (step qk cfg (os, s) o).1.1 = os ∨ ∃ cs, (step qk cfg (os, s) o).1.1 = enable_objs qk cfg os cs.
Proof.
  destruct o as [cs kw|n|cs kw| | |q|name d]; simpl.
  - destruct (do_enable_objs qk cfg os s cs kw) as [H|H];
      destruct (do_enable qk cfg os s cs kw) as [[? ?] [?|]]; simpl in *; [by left|by left|right; by eexists|right; by eexists].
  - destruct (do_disable qk cfg s n) as [? [?|]]; by left.
  - destruct (do_enable_objs qk cfg os s cs kw) as [H|H];
      destruct (do_enable qk cfg os s cs kw) as [[? ?] [?|]]; simpl in *; [by left|by left|right; by eexists|right; by eexists].
  - destruct (rs_frames s); [by left|]. destruct (do_disable _ _ _ _) as [? [?|]]; by left.
  - destruct (rs_frames s); [by left|]. destruct (do_disable _ _ _ _) as [? [?|]]; by left.
  - by left.
  - destruct (lookup_layers _ _ _); [by left|]. destruct (has_redefs _); by left.
Qed.

(** parameterisation ([from_context]) and activation never change a context's defaults or its
    redefinitions — under every quirk setting *)
Lemma activation_pure_on_context qk cfg st ops name :
  (co_defaults <$> (run qk cfg st ops).1 !! name) = (co_defaults <$> st.1 !! name) ∧
  (co_redefs <$> (run qk cfg st ops).1 !! name) = (co_redefs <$> st.1 !! name).
Proof.
  revert st. induction ops as [|o ops IH]; intros [os s]; [done|].
  rewrite run_cons. destruct (IH (stepS qk cfg (os, s) o)) as [H1 H2]. rewrite H1, H2.
  unfold stepS. destruct (step qk cfg (os, s) o) as [[os' s'] r] eqn:Hst. simpl.
  destruct (step_objs qk cfg os s o) as [H|[cs H]]; rewrite Hst in H; simpl in H; subst os'; [done|].
  apply enable_objs_pure.
Qed.

(** without the in-place normalisation the shared objects are never modified at all *)
Lemma shared_context_unmodified qk cfg st ops :
  q_rewrite_shared qk = false → (run qk cfg st ops).1 = st.1.
Proof.
  intros Hq. revert st. induction ops as [|o ops IH]; intros [os s]; [done|].
  rewrite run_cons, IH. unfold stepS. change ((step qk cfg (os, s) o).1.1 = os).
  destruct (step_objs qk cfg os s o) as [H|[cs H]]; rewrite H; [reflexivity|].
  unfold enable_objs. by rewrite Hq.
Qed.

(** * Every answer is determined by the current stack
    (setting: hits return early; histories without [define]).  Every stored overlay is the one
    obtained by applying, over the base table, the redefinitions of the contexts named by its key —
    whatever combinations were activated before, in whatever order. *)
Definition rdf (os0 : objs) (n : string) : list (string * udefv) :=
  co_redefs (default dummy_obj (os0 !! n)).
Definition redefs_of (os0 : objs) (k : ckey) : list (string * udefv) :=
  concat (map (λ nd : string * params, rdf os0 nd.1) (rev k)).
Definition overlay_of (cfg : regcfg) (base : utable) (rds : list (string * udefv)) : utable :=
  (redefine_all cfg (lookup_layers [] base) ∅ rds).1.
Definition rinv (os0 : objs) (cfg : regcfg) (base : utable) (s : rstate) : Prop :=
  Forall (λ e, ce_redefs e = rdf os0 (ce_name e)) (rs_active s) ∧
  (∀ k ov, alookup k (rs_ctx_units s) = Some ov → ov = overlay_of cfg base (redefs_of os0 k)) ∧
  rs_base s = base.
Definition redefs_kept (os0 os : objs) : Prop := ∀ n, (co_redefs <$> os !! n) = (co_redefs <$> os0 !! n).

Lemma chain_redefs os0 chain :
  Forall (λ e, ce_redefs e = rdf os0 (ce_name e)) chain →
  concat (map ce_redefs (rev chain)) = redefs_of os0 (key_of chain).
Proof.
  intros H. unfold redefs_of, key_of. rewrite <- map_rev, map_map. simpl. f_equal.
  apply map_ext_in. intros e He. apply in_rev, elem_of_list_In in He.
  rewrite Forall_forall in H. by apply H.
Qed.

Lemma switch_rinv qk cfg os0 base s :
  q_rebuild_on_hit qk = false → rinv os0 cfg base s → rinv os0 cfg base (switch qk cfg s).1.
Proof.
  intros Hq (Ha & Hu & Hb). unfold rinv. rewrite switch_active, switch_base.
  split; [done|]. split; [|done].
  unfold switch. rewrite Hq. destruct (has_redefs (rs_active s)); simpl; [|done].
  destruct (alookup (key_of (rs_active s)) (rs_ctx_units s)) eqn:Hl; simpl; [done|].
  intros k ov. destruct (decide (key_of (rs_active s) = k)) as [<-|Hne].
  - rewrite alookup_ainsert_eq. intros [= <-]. unfold overlay_of. by rewrite Hb, (chain_redefs os0 _ Ha).
  - rewrite alookup_ainsert_ne by done. apply Hu.
Qed.

Lemma default_redefs_eq (a b : option ctxobj) :
  (co_redefs <$> a) = (co_redefs <$> b) → co_redefs (default dummy_obj a) = co_redefs (default dummy_obj b).
Proof. destruct a, b; simpl; congruence. Qed.

Lemma entries_rdf qk cfg os0 os s cs kw :
  redefs_kept os0 os →
  Forall (λ e, ce_redefs e = rdf os0 (ce_name e)) (enable_entries qk cfg os s cs kw).
Proof.
  intros Hk. unfold enable_entries. apply Forall_forall. intros e He.
  apply elem_of_list_In, in_map_iff in He as (c & <- & _). simpl. unfold rdf.
  apply default_redefs_eq. destruct (enable_objs_pure qk cfg os cs c) as [_ ->]. apply Hk.
Qed.

Lemma do_enable_rinv qk cfg os0 base os s cs kw :
  q_rebuild_on_hit qk = false → redefs_kept os0 os → rinv os0 cfg base s →
  rinv os0 cfg base (do_enable qk cfg os s cs kw).1.2.
Proof.
  intros Hq Hk Hr. rewrite do_enable_unfold. destruct (resolve os cs); [|done]. simpl.
  set (ents := enable_entries qk cfg os s cs kw).
  set (s1 := set_active (λ a, rev ents ++ a) s).
  assert (rinv os0 cfg base s1) as Hr1.
  { destruct Hr as (Ha & Hu & Hb). split; [|done]. simpl. apply Forall_app. split; [|done].
    apply Forall_rev. by apply entries_rdf. }
  pose proof (switch_rinv qk cfg os0 base s1 Hq Hr1) as Hr2.
  destruct (switch qk cfg s1) as [s2 [e|]]; simpl in *; [|done].
  destruct (q_partial_activation qk); simpl; [done|].
  unfold rollback. apply switch_rinv; [done|].
  destruct Hr2 as (Ha & Hu & Hb). split; [|split]; simpl; [by apply Forall_drop| |done].
  intros k ov Hl. destruct (decide (key_of (rs_active s2) = k)) as [<-|Hne].
  - by rewrite alookup_adelete_eq in Hl.
  - rewrite alookup_adelete_ne in Hl by done. by apply Hu.
Qed.

Lemma do_disable_rinv qk cfg os0 base s n :
  q_rebuild_on_hit qk = false → rinv os0 cfg base s → rinv os0 cfg base (do_disable qk cfg s n).1.
Proof.
  intros Hq (Ha & Hu & Hb). unfold do_disable. apply switch_rinv; [done|].
  split; [|done]. simpl. destruct n; [by apply Forall_drop|constructor].
Qed.

Lemma step_redefs_kept qk cfg os0 os s o :
  redefs_kept os0 os → redefs_kept os0 (step qk cfg (os, s) o).1.1.
Proof.
  intros Hk n. destruct (step_objs qk cfg os s o) as [->|[cs ->]]; [apply Hk|].
  destruct (enable_objs_pure qk cfg os cs n) as [_ ->]. apply Hk.
Qed.

Lemma step_rinv qk cfg os0 base os s o :
  q_rebuild_on_hit qk = false → not_define o = true → redefs_kept os0 os →
  rinv os0 cfg base s → rinv os0 cfg base (step qk cfg (os, s) o).1.2.
Proof.
  intros Hq Hnd Hk Hr. destruct o as [cs kw|n|cs kw| | |q|name d]; simpl; try discriminate.
  - pose proof (do_enable_rinv qk cfg os0 base os s cs kw Hq Hk Hr).
    by destruct (do_enable qk cfg os s cs kw) as [[? ?] [?|]].
  - pose proof (do_disable_rinv qk cfg os0 base s n Hq Hr).
    by destruct (do_disable qk cfg s n) as [? [?|]].
  - pose proof (do_enable_rinv qk cfg os0 base os s cs kw Hq Hk Hr).
    by destruct (do_enable qk cfg os s cs kw) as [[? ?] [?|]].
  - destruct (rs_frames s) as [|n fr]; [done|].
    assert (rinv os0 cfg base (set_frames (λ _, fr) s)) as Hi by exact Hr.
    pose proof (do_disable_rinv qk cfg os0 base _ (Some n) Hq Hi).
    by destruct (do_disable qk cfg _ _) as [? [?|]].
  - destruct (rs_frames s) as [|n fr]; [done|].
    assert (rinv os0 cfg base (set_frames (λ _, fr) s)) as Hi by exact Hr.
    pose proof (do_disable_rinv qk cfg os0 base _ (Some n) Hq Hi).
    by destruct (do_disable qk cfg _ _) as [? [?|]].
  - pose proof (probe_effect_fields qk cfg s q) as (Ha & _ & _ & Hu & _ & Hb). simpl in *.
    destruct Hr as (H1 & H2 & H3). unfold rinv. rewrite Ha, Hu, Hb. done.
Qed.

Lemma run_rinv qk cfg os0 base st ops :
  q_rebuild_on_hit qk = false → forallb not_define ops = true →
  redefs_kept os0 st.1 → rinv os0 cfg base st.2 →
  rinv os0 cfg base (run qk cfg st ops).2.
Proof.
  intros Hq. revert st. induction ops as [|o ops IH]; intros [os s] Hnd Hk Hr; [done|].
  simpl in Hnd. apply andb_true_iff in Hnd as [Hn1 Hn2]. rewrite run_cons. unfold stepS.
  pose proof (step_redefs_kept qk cfg os0 os s o Hk) as Hk'.
  pose proof (step_rinv qk cfg os0 base os s o Hq Hn1 Hk Hr) as Hr'.
  destruct (step qk cfg (os, s) o) as [[os' s'] r]. simpl in *. by apply IH.
Qed.

Lemma layers_determined os0 cfg base s :
  inv s → rinv os0 cfg base s →
  layers s = if has_redefs (rs_active s)
             then [overlay_of cfg base (redefs_of os0 (key_of (rs_active s)))] else [].
Proof.
  intros (Hb & Hk & _) (_ & Hu & _). unfold layers, top_overlay. rewrite Hb.
  destruct (has_redefs (rs_active s)); [|done].
  destruct (Hk eq_refl) as [ov Hov]. rewrite Hov. simpl. by rewrite (Hu _ _ Hov).
Qed.

(** two histories (without [define]) that end with the same active chain give the same answers *)
Lemma answers_determined_by_stack qk cfg os base ops1 ops2 q :
  q_rebuild_on_hit qk = false →
  forallb not_define ops1 = true → forallb not_define ops2 = true →
  rs_active (run qk cfg (os, init_state base) ops1).2 = rs_active (run qk cfg (os, init_state base) ops2).2 →
  q_base_cache_ctx_blind qk = false ∨ is_pbase q = false →
  answer_of qk cfg (run qk cfg (os, init_state base) ops1).2 q
  = answer_of qk cfg (run qk cfg (os, init_state base) ops2).2 q.
Proof.
  intros Hq H1 H2 Ha Hpq.
  assert (∀ ops, forallb not_define ops = true →
            inv (run qk cfg (os, init_state base) ops).2 ∧ rinv os cfg base (run qk cfg (os, init_state base) ops).2) as Hall.
  { intros ops Hnd. split.
    - apply run_inv; [done|apply inv_init].
    - apply run_rinv; try done. split; [constructor|]. split; [|done]. intros k ov Hl. discriminate. }
  destruct (Hall _ H1) as [Hi1 Hr1]. destruct (Hall _ H2) as [Hi2 Hr2].
  apply answer_of_ext; try done.
  - rewrite (layers_determined os cfg base _ Hi1 Hr1), (layers_determined os cfg base _ Hi2 Hr2). by rewrite Ha.
  - destruct Hr1 as (_ & _ & ->). by destruct Hr2 as (_ & _ & ->).
Qed.

(** ... hence what one registry does cannot influence another registry sharing the contexts *)
Local Arguments step : simpl never.
Lemma wrun_cons qk cfgs w io ops : wrun qk cfgs w (io :: ops) = wrun qk cfgs (wstep qk cfgs w io).1 ops.
Proof. reflexivity. Qed.
Lemma other_registry_unaffected qk cfgs w ops :
  q_rewrite_shared qk = false → Forall (λ io : bool * op, io.1 = false) ops →
  w_r2 (wrun qk cfgs w ops) = w_r2 w ∧ w_objs (wrun qk cfgs w ops) = w_objs w.
Proof.
  intros Hq Hall. revert w. induction Hall as [|[r o] ops Hr _ IH]; intros w; [done|].
  simpl in Hr. subst r. rewrite wrun_cons.
  destruct (IH (wstep qk cfgs w (false, o)).1) as [H1 H2]. rewrite H1, H2.
  unfold wstep. simpl.
  pose proof (shared_context_unmodified qk cfgs.1 (w_objs w, w_r1 w) [o] Hq) as Ho.
  unfold run in Ho. simpl in Ho. unfold stepS in Ho.
  destruct (step qk cfgs.1 (w_objs w, w_r1 w) o) as [[os s] r]. simpl in *. by subst.
Qed.

(** * A concrete registry: witnesses for pint's actual behaviour and non-vacuity *)
Open Scope string_scope.
Definition u1 (n : string) : ucl := [(n, mkq 1 1)].
Definition c1 (n : string) : uc := mkuc (u1 n).
Definition ex_base : utable := list_to_map [
  ("meter", UD (mkq 1 1) (u1 "[L]")); ("second", UD (mkq 1 1) (u1 "[T]")); ("gram", UD (mkq 1 1) (u1 "[M]"));
  ("inch", UD (mkq 127 5000) (u1 "meter")); ("foot", UD (mkq 12 1) (u1 "inch"));
  ("yard", UD (mkq 3 1) (u1 "foot")); ("minute", UD (mkq 60 1) (u1 "second"));
  ("hertz", UD (mkq 1 1) [("second", mkq (-1) 1)]);
  ("lap", UD (mkq 400 1) (u1 "meter")); ("laps", UD (mkq 2 1) (u1 "lap")) ].
(** the second registry declares frequency as a base dimension *)
Definition ex_base2 : utable := <["hertz" := UD (mkq 1 1) (u1 "[F]")]> ex_base.
Definition ex_cfg : regcfg :=
  RC (list_to_map [("[V]", [("[L]", mkq 1 1); ("[T]", mkq (-1) 1)]); ("[F]", [("[T]", mkq (-1) 1)])])
     (list_to_map [("meter", c1 "inch")]).
Definition ex_cfg2 : regcfg :=
  RC (list_to_map [("[V]", [("[L]", mkq 1 1); ("[T]", mkq (-1) 1)])]) (list_to_map [("meter", c1 "inch")]).
Definition ex_objs : objs := list_to_map [
  ("ra", CO (list_to_map [("n", mkq 3 1)])
            [RL (c1 "[L]") (c1 "[T]") (mkq 1 1) (Some ("n", false)) (mkuc [("second", mkq 1 1); ("meter", mkq (-1) 1)]);
             RL (c1 "[T]") (c1 "[L]") (mkq 1 1) (Some ("n", true)) (mkuc [("meter", mkq 1 1); ("second", mkq (-1) 1)])]
            [] false);
  ("rb", CO ∅ [] [("foot", UD (mkq 10 1) (u1 "inch")); ("minute", UD (mkq 30 1) (u1 "second"))] false);
  ("rc", CO (list_to_map [("k", mkq 2 1)])
            [RL (c1 "[V]") (c1 "[M]") (mkq 1 1) (Some ("k", true)) (mkuc [("gram", mkq 1 1); ("second", mkq 1 1); ("meter", mkq (-1) 1)]);
             RL (c1 "[L]") (c1 "[T]") (mkq 1 5) None (mkuc [("second", mkq 1 1); ("meter", mkq (-1) 1)])]
            [("yard", UD (mkq 2 1) (u1 "foot"))] false);
  ("rd", CO ∅ [RL (c1 "[M]") (c1 "[L]") (mkq 7 1) None (mkuc [("meter", mkq 1 1); ("gram", mkq (-1) 1)])]
            [("yard", UD (mkq 4 1) (u1 "foot")); ("foot", UD (mkq 2 1) (u1 "second")); ("minute", UD (mkq 20 1) (u1 "second"))] false);
  (* "laps" is both a unit and the plural of "lap": [_redefine] trips its assertion *)
  ("re", CO ∅ [] [("yard", UD (mkq 5 1) (u1 "foot")); ("laps", UD (mkq 3 1) (u1 "lap"))] false);
  ("rf", CO ∅ [] [("minute", UD (mkq 45 1) (u1 "second")); ("yard", UD (mkq 7 2) (u1 "foot"))] false);
  ("rs", CO (list_to_map [("k", mkq 2 1)])
            [RL (c1 "[F]") (c1 "[L]") (mkq 1 1) (Some ("k", true)) (mkuc [("meter", mkq 1 1); ("hertz", mkq (-1) 1)])]
            [] false) ].
Definition ex_st : objs * rstate := (ex_objs, init_state ex_base).
Definition ex_world : world := W ex_objs (init_state ex_base) (init_state ex_base2).
Definition smoot : udefv := UD (mkq 67 1) (u1 "inch").
Definition p_yard_inch : probe := PConv (mkq 1 1) (c1 "yard") (c1 "inch").
Definition p_m_s : probe := PConv (mkq 30 1) (c1 "meter") (c1 "second").
Definition p_hz_m : probe := PConv (mkq 3 1) (c1 "hertz") (c1 "meter").

(** F6: the activation of a context with an invalid redefinition raises and yet leaves the
    context active and a partial overlay in the unit table *)
Lemma failed_activation_atomic_refuted :
  ∃ cfg st cs kw,
    let r := step faithful cfg st (OEnable cs kw) in
    is_failed r.2 = true ∧ active_names r.1.2 ≠ active_names st.2 ∧ n_layers r.1.2 ≠ n_layers st.2
    ∧ answer_of faithful cfg r.1.2 p_yard_inch ≠ answer_of faithful cfg st.2 p_yard_inch.
Proof.
  exists ex_cfg, ex_st, ["rd"], ∅. cbv zeta. split; [vm_compute; reflexivity|].
  split; [apply (proj1 (bool_decide_eq_false _)); vm_compute; reflexivity|].
  split; [apply (proj1 (bool_decide_eq_false _)); vm_compute; reflexivity|].
  apply (proj1 (bool_decide_eq_false _)); vm_compute; reflexivity.
Qed.

(** F7: get_base_units first asked inside a redefining context is served unchanged after the
    context has been left (the switch [q_base_cache_ctx_blind] alone suffices) *)
Lemma exit_restores_base_refuted :
  ∃ cfg st blk q,
    balanced blk ∧ run_ok (QK false true false false false) cfg st blk = true ∧ run_ok faithful cfg st blk = true ∧
    answer_of (QK false true false false false) cfg (run (QK false true false false false) cfg st blk).2 q
      ≠ answer_of (QK false true false false false) cfg st.2 q ∧
    answer_of faithful cfg (run faithful cfg st blk).2 q ≠ answer_of faithful cfg st.2 q.
Proof.
  exists ex_cfg, ex_st, [OWithEnter ["rb"] ∅; OProbe (PBase (c1 "yard")); OWithExit], (PBase (c1 "yard")).
  split.
  { apply (bal_with ["rb"] ∅ [OProbe (PBase (c1 "yard"))] OWithExit []); [|constructor|done].
    apply bal_probe. constructor. }
  split; [vm_compute; reflexivity|]. split; [vm_compute; reflexivity|].
  split; apply (proj1 (bool_decide_eq_false _)); vm_compute; reflexivity.
Qed.

(** F110: a unit defined while a redefining context was active is visible on the next activation
    of that combination but no longer after an inner block has been left (the switch
    [q_rebuild_on_hit] alone suffices) *)
Lemma exit_restores_refuted :
  ∃ cfg st0 ops blk q,
    let qk := QK false false false true false in
    balanced blk ∧ run_ok qk cfg (run qk cfg st0 ops) blk = true ∧ run_ok faithful cfg (run faithful cfg st0 ops) blk = true ∧
    answer_of qk cfg (run qk cfg (run qk cfg st0 ops) blk).2 q ≠ answer_of qk cfg (run qk cfg st0 ops).2 q ∧
    answer_of faithful cfg (run faithful cfg (run faithful cfg st0 ops) blk).2 q
      ≠ answer_of faithful cfg (run faithful cfg st0 ops).2 q.
Proof.
  exists ex_cfg, ex_st,
    [OEnable ["rb"] ∅; ODefine "smoot" smoot; ODisable None; OEnable ["rb"] ∅],
    [OWithEnter ["ra"] ∅; OWithExit], (PParse "smoot").
  cbv zeta. split.
  { apply (bal_with ["ra"] ∅ [] OWithExit []); [constructor|constructor|done]. }
  split; [vm_compute; reflexivity|]. split; [vm_compute; reflexivity|].
  split; apply (proj1 (bool_decide_eq_false _)); vm_compute; reflexivity.
Qed.

(** F8: the first activation rewrites the rule endpoints of the shared Context object *)
Lemma shared_context_unmodified_refuted :
  ∃ cfg st ops, (run faithful cfg st ops).1 ≠ st.1 ∧
    (map rule_key ∘ co_rules <$> (run faithful cfg st ops).1 !! "rc") ≠ (map rule_key ∘ co_rules <$> st.1 !! "rc").
Proof.
  exists ex_cfg, ex_st, [OEnable ["rc"] ∅].
  split; apply (proj1 (bool_decide_eq_false _)); vm_compute; reflexivity.
Qed.
(** ... so a registry with other dimension definitions that activates it afterwards answers differently *)
Lemma other_registry_refuted :
  ∃ cfgs w ops1 ops2 q,
    Forall (λ io : bool * op, io.1 = false) ops1 ∧ Forall (λ io : bool * op, io.1 = true) ops2 ∧
    answer_of faithful cfgs.2 (w_r2 (wrun faithful cfgs w (ops1 ++ ops2))) q
      ≠ answer_of faithful cfgs.2 (w_r2 (wrun faithful cfgs w ops2)) q.
Proof.
  exists (ex_cfg, ex_cfg2), ex_world, [(false, OEnable ["rs"] ∅)], [(true, OEnable ["rs"] ∅)], p_hz_m.
  split; [repeat constructor|]. split; [repeat constructor|].
  apply (proj1 (bool_decide_eq_false _)); vm_compute; reflexivity.
Qed.

(** ** non-vacuity *)
Definition ex_ops : list op :=
  [OEnable ["rc"; "ra"] ∅; OWithEnter ["rb"] (list_to_map [("n", mkq 5 1)]); OProbe p_m_s;
   ODefine "smoot" smoot; OEnable ["ra"] ∅; ORaise; ODisable (Some 1%nat); OWithEnter ["rb"; "rc"] ∅].
Lemma active_is_stack_nonvacuous :
  run_ok faithful ex_cfg ex_st ex_ops = true ∧ run_ok repaired ex_cfg ex_st ex_ops = true ∧
  spec_run ([], []) ex_ops = (["rc"; "rb"; "ra"; "rc"], [2%nat]) ∧
  active_names (run faithful ex_cfg ex_st ex_ops).2 = ["rc"; "rb"; "ra"; "rc"].
Proof. repeat split; vm_compute; reflexivity. Qed.

Definition ex_prefix : list op := [OEnable ["rb"] ∅; ODefine "smoot" smoot; ODisable None; OEnable ["rb"] ∅; OEnable ["rd"] ∅].
Definition ex_body : list op := [OProbe p_m_s; OWithEnter ["rc"] ∅; OProbe (PBase (c1 "yard")); ORaise; OEnable ["ra"] ∅; ODisable (Some 1%nat)].
Lemma exit_restores_nonvacuous :
  balanced ex_body ∧
  run_ok repaired ex_cfg (run repaired ex_cfg ex_st ex_prefix) (OWithEnter ["ra"] ∅ :: ex_body ++ [OWithExit]) = true ∧
  (* the block is not a no-op: inside it the probe has another answer *)
  answer_of repaired ex_cfg (run repaired ex_cfg (run repaired ex_cfg ex_st ex_prefix) [OWithEnter ["ra"] ∅]).2 p_m_s
    ≠ answer_of repaired ex_cfg (run repaired ex_cfg ex_st ex_prefix).2 p_m_s ∧
  (* and the prefix contains a failed activation and a unit defined inside an overlay *)
  outs repaired ex_cfg ex_st ex_prefix = [ODone; ODone; ODone; ODone; OFailed EValue].
Proof.
  split.
  { unfold ex_body. apply bal_probe.
    apply (bal_with ["rc"] ∅ [OProbe (PBase (c1 "yard"))] ORaise [OEnable ["ra"] ∅; ODisable (Some 1%nat)]); [|
      |done].
    - apply bal_probe. constructor.
    - apply (bal_enable ["ra"] ∅ [] []); constructor. }
  split; [vm_compute; reflexivity|].
  split; [apply (proj1 (bool_decide_eq_false _)); vm_compute; reflexivity|].
  vm_compute; reflexivity.
Qed.

Lemma failed_activation_nonvacuous :
  let st := run repaired ex_cfg ex_st [OEnable ["rb"] ∅; OEnable ["ra"] ∅] in
  (step repaired ex_cfg st (OEnable ["rc"; "rd"] ∅)).2 = OFailed EValue ∧
  (step repaired ex_cfg st (OWithEnter ["nosuch"] ∅)).2 = OFailed EKey ∧
  (step repaired ex_cfg st (OEnable ["re"] ∅)).2 = OFailed EAssert ∧
  active_names st.2 = ["ra"; "rb"].
Proof. repeat split; vm_compute; reflexivity. Qed.

(** both nesting orders of two contexts redefining the same unit, seen one after the other: the
    second order answers like a registry that never saw the first, and the order matters *)
Definition ex_hist1 : list op := [OEnable ["rb"] ∅; OEnable ["rf"] ∅; ODisable None; OEnable ["rf"] ∅; OEnable ["rb"] ∅].
Definition ex_hist2 : list op := [OWithEnter ["rf"; "rb"] ∅].
Definition p_min_s : probe := PConv (mkq 1 1) (c1 "minute") (c1 "second").
Lemma answers_determined_nonvacuous :
  rs_active (run repaired ex_cfg ex_st ex_hist1).2 = rs_active (run repaired ex_cfg ex_st ex_hist2).2 ∧
  active_names (run repaired ex_cfg ex_st ex_hist1).2 = ["rb"; "rf"] ∧
  answer_of repaired ex_cfg (run repaired ex_cfg ex_st ex_hist1).2 p_min_s = AQ (mkq 30 1) ∧
  answer_of repaired ex_cfg (run repaired ex_cfg ex_st [OEnable ["rb"] ∅; OEnable ["rf"] ∅]).2 p_min_s = AQ (mkq 45 1).
Proof.
  split; [apply (proj1 (bool_decide_eq_true _)); vm_compute; reflexivity|].
  split; [vm_compute; reflexivity|].
  split; apply (proj1 (bool_decide_eq_true _)); vm_compute; reflexivity.
Qed.
