(** Proofs/DefFileProofs.v — lemmas for property C10 (definition files).
    part 1     decimal printer / [parse_number] round trip ([parse_print_dec])
    part 2–4   string lemmas; [parse_line (print_def v d) = Ok (LnDef d)] ([parse_print_def])
    part 5–7   [elab1] = [pre] then [act]; permuted definition lists build the same three tables
               ([run_acts_perm]); name resolution sees the ordered key list only through its members
               when the string has one reading; [meaning] is order independent on closed,
               unambiguous sets of names ([meaning_order_independent])
    part 8     ill-formed definitions: [elab1] errors, undefined references, cycles
    part 9     numeric kinds of literals; name validity with the symbol check repaired (F56)
    part 10    the hypotheses of order independence on the definitions regenerated from /repo *)
From Coq Require Import ZArith Lia ZifyBool Ascii String.
From PintV Require Import Model.UC Model.Eval Model.Registry Model.DefFile Proofs.UCProofs Proofs.RegistryProofs.
Open Scope string_scope.


(* ------------------------------------------------------------------ part 1 *)

(** * Strings *)
Lemma sapp_cons x (a b : string) : String x a ++ b = String x (a ++ b).
Proof. reflexivity. Qed.
Lemma sapp_nil_l (b : string) : "" ++ b = b.
Proof. reflexivity. Qed.
Lemma sapp_assoc (a b c : string) : (a ++ b) ++ c = a ++ (b ++ c).
Proof. induction a as [|x a IH]; [reflexivity | rewrite !sapp_cons, IH; reflexivity]. Qed.
Lemma sapp_nil_r (a : string) : a ++ "" = a.
Proof. induction a as [|x a IH]; [reflexivity | rewrite sapp_cons, IH; reflexivity]. Qed.

(** * Decimal printer / reader round trip *)
Lemma digit_of_char d : (0 <= d < 10)%Z → digit_of (digit_char d) = Some d.
Proof.
  intros H.
  assert (d = 0 ∨ d = 1 ∨ d = 2 ∨ d = 3 ∨ d = 4 ∨ d = 5 ∨ d = 6 ∨ d = 7 ∨ d = 8 ∨ d = 9)%Z as Hd by lia.
  repeat (destruct Hd as [->|Hd]; [reflexivity|]). subst. reflexivity.
Qed.

Lemma read_digits_cons d s a c :
  (0 <= d < 10)%Z → read_digits (String (digit_char d) s) a c = read_digits s (a * 10 + d)%Z (c + 1)%Z.
Proof. intros H. simpl. rewrite (digit_of_char d H). reflexivity. Qed.

Lemma read_digits_pad k : ∀ n rest a c,
  read_digits (pad_digits k n rest) a c
  = read_digits rest (a * 10 ^ Z.of_nat k + n mod 10 ^ Z.of_nat k)%Z (c + Z.of_nat k)%Z.
Proof.
  induction k as [|k IH]; intros n rest a c.
  - simpl pad_digits. change (Z.of_nat 0) with 0%Z. rewrite Z.pow_0_r, Z.mod_1_r. f_equal; lia.
  - cbn [pad_digits]. rewrite IH.
    rewrite read_digits_cons by (apply Z.mod_pos_bound; lia).
    f_equal; [|lia].
    rewrite Nat2Z.inj_succ, Z.pow_succ_r by lia.
    rewrite (Z.rem_mul_r n 10 (10 ^ Z.of_nat k)) by lia. lia.
Qed.

Lemma pad_digits_app k : ∀ n acc, pad_digits k n acc = pad_digits k n "" ++ acc.
Proof.
  induction k as [|k IH]; intros n acc; [reflexivity|].
  cbn [pad_digits]. rewrite IH, (IH _ (String _ "")). rewrite sapp_assoc. reflexivity.
Qed.

Lemma ndigits_bound f : ∀ n, (0 <= n < 10 ^ Z.of_nat f)%Z → (n < 10 ^ Z.of_nat (ndigits f n))%Z.
Proof.
  induction f as [|f IH]; intros n H.
  - simpl in *. lia.
  - cbn [ndigits]. destruct (n <? 10)%Z eqn:E; [simpl; lia|].
    rewrite Nat2Z.inj_succ, Z.pow_succ_r in * by lia.
    assert (n / 10 < 10 ^ Z.of_nat (ndigits f (n / 10)))%Z.
    { apply IH. split; [apply Z.div_pos; lia|]. apply Z.div_lt_upper_bound; lia. }
    pose proof (Z.mul_succ_div_gt n 10 ltac:(lia)). lia.
Qed.
Lemma ndigits_pos f n : (1 <= ndigits f n)%nat.
Proof. destruct f; simpl; [lia|]. destruct (n <? 10)%Z; lia. Qed.

Lemma log2_fuel n : (0 <= n)%Z → (n < 10 ^ Z.of_nat (S (Z.to_nat (Z.log2 n))))%Z.
Proof.
  intros H. rewrite Nat2Z.inj_succ, Z2Nat.id by apply Z.log2_nonneg.
  destruct (Z.eq_dec n 0) as [->|N]; [simpl; lia|].
  pose proof (Z.log2_spec n ltac:(lia)) as [_ H2].
  eapply Z.lt_le_trans; [exact H2|].
  apply Z.pow_le_mono_l. lia.
Qed.

Lemma read_print_nat n rest a c : (0 <= n)%Z →
  ∃ k, (1 <= k)%Z ∧
  read_digits (print_nat n ++ rest) a c = read_digits rest (a * 10 ^ k + n)%Z (c + k)%Z.
Proof.
  intros H. unfold print_nat. set (k := ndigits _ n).
  exists (Z.of_nat k). split; [pose proof (ndigits_pos (S (Z.to_nat (Z.log2 n))) n); lia|].
  rewrite <- pad_digits_app, read_digits_pad. f_equal.
  rewrite Z.mod_small; [reflexivity|]. split; [lia|]. apply ndigits_bound. split; [lia|]. apply log2_fuel; lia.
Qed.

Lemma dec_places_sound f : ∀ d k, (0 < d)%Z → dec_places f d = Some k → (d | 10 ^ Z.of_nat k)%Z.
Proof.
  induction f as [|f IH]; intros d k Hd; [discriminate|].
  cbn [dec_places]. destruct (d =? 1)%Z eqn:E1.
  - intros [= <-]. apply Z.eqb_eq in E1. subst. exists 1%Z. reflexivity.
  - destruct (Z.gcd d 10 =? 1)%Z eqn:E2; [discriminate|].
    destruct (dec_places f (d / Z.gcd d 10)) as [k'|] eqn:E3; [|discriminate].
    intros [= <-].
    pose proof (Z.gcd_divide_l d 10) as [x Hx]. pose proof (Z.gcd_divide_r d 10) as [y Hy].
    pose proof (Z.gcd_nonneg d 10). set (g := Z.gcd d 10) in *.
    assert (0 < g)%Z by (destruct (Z.eq_dec g 0) as [G|G]; [rewrite G in Hx; lia | lia]).
    assert (d / g = x)%Z as Hdx by (rewrite Hx; apply Z.div_mul; lia).
    rewrite Hdx in E3. assert (0 < x)%Z by nia.
    destruct (IH x k' ltac:(lia) E3) as [z Hz].
    rewrite Nat2Z.inj_succ, Z.pow_succ_r by lia. exists (y * z)%Z. transitivity ((y * g) * (z * x))%Z; [rewrite <- Hy, <- Hz; reflexivity | rewrite Hx; ring].
Qed.

Lemma coprime_pow_divide d k : (0 < d)%Z → Z.gcd d 10 = 1%Z → (d | 10 ^ Z.of_nat k)%Z → d = 1%Z.
Proof.
  intros Hd Hg. induction k as [|k IH].
  - simpl. intros H. apply Z.divide_1_r_nonneg in H; lia.
  - rewrite Nat2Z.inj_succ, Z.pow_succ_r by lia. intros H.
    apply IH. apply (Z.gauss d 10); assumption.
Qed.

Lemma dec_places_complete f : ∀ d k0, (0 < d < 2 ^ Z.of_nat f)%Z → (d | 10 ^ Z.of_nat k0)%Z →
  ∃ k, dec_places f d = Some k.
Proof.
  induction f as [|f IH]; intros d k0 Hd Hdiv.
  - simpl in Hd. lia.
  - cbn [dec_places]. destruct (d =? 1)%Z eqn:E1; [eauto|].
    apply Z.eqb_neq in E1.
    destruct (Z.gcd d 10 =? 1)%Z eqn:E2.
    + apply Z.eqb_eq in E2. exfalso. apply E1. eapply coprime_pow_divide; eauto; lia.
    + apply Z.eqb_neq in E2.
      pose proof (Z.gcd_divide_l d 10) as [x Hx]. pose proof (Z.gcd_nonneg d 10). set (g := Z.gcd d 10) in *.
      assert (0 < g)%Z by (destruct (Z.eq_dec g 0) as [G|G]; [rewrite G in Hx; lia | lia]).
      assert (d / g = x)%Z as Hdx by (rewrite Hx; apply Z.div_mul; lia).
      rewrite Hdx. assert (0 < x)%Z by nia.
      destruct (IH x k0) as [k Hk].
      * rewrite Nat2Z.inj_succ, Z.pow_succ_r in Hd by lia. nia.
      * destruct Hdiv as [z Hz]. exists (z * g)%Z. rewrite Hz, Hx. ring.
      * rewrite Hk. simpl. eauto.
Qed.

Lemma pos_lt_pow2 d : (0 < d)%Z → (d < 2 ^ Z.of_nat (S (Z.to_nat (Z.log2 d))))%Z.
Proof.
  intros H. rewrite Nat2Z.inj_succ, Z2Nat.id by apply Z.log2_nonneg.
  apply (Z.log2_spec d H).
Qed.

(** the class: non-negative rationals whose (reduced) denominator divides a power of ten,
    i.e. is of the form 2^a·5^b *)
Definition terminating (q : Qc) : Prop :=
  (0 <= Qnum (this q))%Z ∧ ∃ k : nat, (Zpos (Qden (this q)) | 10 ^ Z.of_nat k)%Z.
Lemma terminating_2_5 (q : Qc) (a b : nat) :
  (0 <= Qnum (this q))%Z → Zpos (Qden (this q)) = (2 ^ Z.of_nat a * 5 ^ Z.of_nat b)%Z → terminating q.
Proof.
  intros H0 H. split; [exact H0|]. exists (a + b)%nat. rewrite H.
  exists (2 ^ Z.of_nat b * 5 ^ Z.of_nat a)%Z.
  rewrite Nat2Z.inj_add. replace 10%Z with (2 * 5)%Z by reflexivity.
  rewrite Z.pow_mul_l, !Z.pow_add_r by lia. ring.
Qed.

Lemma pow10_neg k : (0 < k)%Z → pow10 (- k) = Q2Qc (1 # Z.to_pos (10 ^ k)).
Proof. intros H. destruct k as [|p|p]; try lia. reflexivity. Qed.

Lemma Qc_from_parts (q : Qc) (m k : Z) :
  (0 <= k)%Z → (m * Zpos (Qden (this q)) = Qnum (this q) * 10 ^ k)%Z →
  (Q2Qc (inject_Z m) * pow10 (0 - k))%Qc = q.
Proof.
  intros Hk H. apply Qc_is_canon.
  destruct (Z.eq_dec k 0) as [->|N].
  - change (pow10 (0 - 0)) with 1%Qc. rewrite Qcmult_1_r. simpl. rewrite Qred_correct.
    destruct q as [[n d] Hc]. simpl in *. unfold Qeq. simpl. lia.
  - replace (0 - k)%Z with (- k)%Z by lia. rewrite pow10_neg by lia.
    simpl. rewrite !Qred_correct.
    destruct q as [[n d] Hc]. simpl in *. unfold Qeq. simpl.
    assert (0 < 10 ^ k)%Z by (apply Z.pow_pos_nonneg; lia).
    rewrite Pos.mul_1_l, Z2Pos.id by lia. lia.
Qed.

Theorem parse_print_dec (q : Qc) : terminating q → parse_number (print_dec q) = Some q.
Proof.
  intros [Hn [k0 Hk0]]. unfold print_dec.
  set (n := Qnum (this q)) in *. set (d := Zpos (Qden (this q))) in *.
  assert (0 < d)%Z as Hd by (unfold d; lia).
  destruct (dec_places_complete (S (Z.to_nat (Z.log2 d))) d k0) as [k Hk]; [split; [lia | apply pos_lt_pow2; lia] | exact Hk0 |].
  replace (0 <=? n)%Z with true by lia. rewrite Hk.
  pose proof (dec_places_sound _ _ _ Hd Hk) as [x Hx].
  destruct k as [|k].
  - (* integer *)
    change (10 ^ Z.of_nat 0)%Z with 1%Z in Hx.
    unfold parse_number.
    destruct (read_print_nat n "" 0 0 Hn) as [c [Hc Hr]]. rewrite sapp_nil_r in Hr. rewrite Hr. cbn [read_digits].
    cbv beta iota. destruct (_ =? 0)%Z eqn:E0; [apply Z.eqb_eq in E0; lia|].
    assert (d = 1)%Z as Hd1 by (apply Z.divide_1_r_nonneg; [lia | exists x; exact Hx]).
    f_equal. apply Qc_from_parts; [lia|]. fold n d. rewrite Hd1. change (10 ^ 0)%Z with 1%Z. ring.
  - set (K := Z.of_nat (S k)) in *. assert (0 < K)%Z by (unfold K; lia).
    assert (0 < 10 ^ K)%Z by (apply Z.pow_pos_nonneg; lia).
    set (m := (n * 10 ^ K / d)%Z).
    assert (m * d = n * 10 ^ K)%Z as Hm.
    { unfold m. rewrite Hx. rewrite Z.mul_assoc, Z.div_mul by lia. ring. }
    assert (0 <= m)%Z by (unfold m; apply Z.div_pos; nia).
    unfold parse_number.
    destruct (read_print_nat (m / 10 ^ K) ("." ++ pad_digits (S k) m "") 0 0) as [c [Hc Hr]]; [apply Z.div_pos; lia|].
    rewrite Hr. rewrite sapp_cons, sapp_nil_l. cbn [read_digits digit_of]. 
    change (digit_of "."%char) with (@None Z). change (Ascii.eqb "." "_") with false. cbv iota.
    rewrite <- (sapp_nil_r (pad_digits (S k) m "")), <- pad_digits_app, read_digits_pad. cbn [read_digits].
    fold K. cbv beta iota. destruct (_ =? 0)%Z eqn:E0; [apply Z.eqb_eq in E0; lia|].
    f_equal. apply Qc_from_parts; [lia|]. fold n d.
    replace ((0 * 10 ^ c + m / 10 ^ K) * 10 ^ K + m mod 10 ^ K)%Z with m; [exact Hm|].
    rewrite (Z.div_mod m (10 ^ K)) at 1 by lia. ring.
Qed.


(* ------------------------------------------------------------------ part 2 *)

(** * String lemmas for the line reader *)
Lemma seqb_refl s : String.eqb s s = true.
Proof. apply String.eqb_eq. reflexivity. Qed.
Lemma seqb_true a b : String.eqb a b = true → a = b.
Proof. apply String.eqb_eq. Qed.
Lemma length_sapp a b : String.length (a ++ b) = (String.length a + String.length b)%nat.
Proof. induction a as [|x a IH]; [reflexivity | rewrite sapp_cons; simpl; rewrite IH; reflexivity]. Qed.

Lemma contains_app c a b : contains c (a ++ b) = contains c a || contains c b.
Proof.
  induction a as [|x a IH]; [reflexivity|]. rewrite sapp_cons. cbn [contains]. rewrite IH, orb_assoc. reflexivity.
Qed.
Lemma contains_spaces c n : c ≠ " "%char → contains c (spaces n) = false.
Proof.
  intros H. induction n as [|n IH]; [reflexivity|]. cbn [spaces contains]. rewrite IH, orb_false_r.
  apply Ascii.eqb_neq. congruence.
Qed.
Lemma cut_at_app c a b : contains c a = false → cut_at c (a ++ String c b) = a.
Proof.
  induction a as [|x a IH]; intros H.
  - rewrite sapp_nil_l. cbn [cut_at]. rewrite Ascii.eqb_refl. reflexivity.
  - rewrite sapp_cons. cbn [contains cut_at] in *. apply orb_false_elim in H as [H1 H2].
    rewrite H1, IH by assumption. reflexivity.
Qed.
Lemma cut_at_none c a : contains c a = false → cut_at c a = a.
Proof.
  induction a as [|x a IH]; intros H; [reflexivity|].
  cbn [contains cut_at] in *. apply orb_false_elim in H as [H1 H2]. rewrite H1, IH by assumption. reflexivity.
Qed.
Lemma after_app c a b : contains c a = false → after c (a ++ String c b) = b.
Proof.
  induction a as [|x a IH]; intros H.
  - rewrite sapp_nil_l. cbn [after]. rewrite Ascii.eqb_refl. reflexivity.
  - rewrite sapp_cons. cbn [contains after] in *. apply orb_false_elim in H as [H1 H2].
    rewrite H1. apply IH. assumption.
Qed.
Lemma split_on_none c a : contains c a = false → split_on c a = [a].
Proof.
  induction a as [|x a IH]; intros H; [reflexivity|].
  cbn [contains split_on] in *. apply orb_false_elim in H as [H1 H2]. rewrite H1, IH by assumption. reflexivity.
Qed.
Lemma split_on_nonempty c s : split_on c s ≠ [].
Proof.
  induction s as [|x s IH]; [discriminate|]. cbn [split_on].
  destruct (Ascii.eqb x c); [discriminate|]. destruct (split_on c s); [congruence | discriminate].
Qed.
Lemma split_on_app c a b : contains c a = false → split_on c (a ++ String c b) = a :: split_on c b.
Proof.
  induction a as [|x a IH]; intros H.
  - rewrite sapp_nil_l. cbn [split_on]. rewrite Ascii.eqb_refl. reflexivity.
  - rewrite sapp_cons. cbn [contains split_on] in *. apply orb_false_elim in H as [H1 H2].
    rewrite H1, IH by assumption. reflexivity.
Qed.

Lemma lstrip_spaces n s : lstrip (spaces n ++ s) = lstrip s.
Proof. induction n as [|n IH]; [reflexivity|]. cbn [spaces]. rewrite sapp_cons. cbn [lstrip]. exact IH. Qed.
Lemma lstrip_length s : (String.length (lstrip s) <= String.length s)%nat.
Proof. induction s as [|x s IH]; [reflexivity|]. cbn [lstrip]. destruct (is_space x); simpl; lia. Qed.
Lemma lstrip_fix_head x s : lstrip (String x s) = String x s → is_space x = false.
Proof.
  cbn [lstrip]. destruct (is_space x); [|reflexivity]. intros H.
  pose proof (lstrip_length s) as L. rewrite H in L. simpl in L. lia.
Qed.
Lemma lstrip_app a b : a ≠ "" → lstrip a = a → lstrip (a ++ b) = a ++ b.
Proof.
  destruct a as [|x a]; [congruence|]. intros _ H. apply lstrip_fix_head in H.
  rewrite sapp_cons. cbn [lstrip]. rewrite H. reflexivity.
Qed.
Lemma rstrip_spaces n : rstrip (spaces n) = "".
Proof. induction n as [|n IH]; [reflexivity|]. cbn [spaces rstrip]. rewrite IH. reflexivity. Qed.
Lemma rstrip_app_spaces s n : rstrip (s ++ spaces n) = rstrip s.
Proof.
  induction s as [|x s IH]; [rewrite sapp_nil_l; apply rstrip_spaces|].
  rewrite sapp_cons. cbn [rstrip]. rewrite IH. reflexivity.
Qed.
Lemma sapp_nonempty_r a b : b ≠ "" → a ++ b ≠ "".
Proof. destruct a; [rewrite sapp_nil_l; auto | rewrite sapp_cons; discriminate]. Qed.
Lemma seqb_nonempty s : s ≠ "" → String.eqb s "" = false.
Proof. intros H. apply String.eqb_neq. exact H. Qed.
Lemma rstrip_app_r a b : b ≠ "" → rstrip b = b → rstrip (a ++ b) = a ++ b.
Proof.
  intros Hb H. induction a as [|x a IH]; [rewrite sapp_nil_l; exact H|].
  rewrite sapp_cons. cbn [rstrip]. rewrite IH.
  rewrite (seqb_nonempty (a ++ b)) by (apply sapp_nonempty_r; exact Hb). rewrite andb_false_r. reflexivity.
Qed.

(** the predicates of [wf_defrec] as propositions *)
Lemma andb_split (a b : bool) : a && b = true → a = true ∧ b = true.
Proof. apply andb_prop. Qed.
Lemma nochar_spec c s : nochar c s = true → contains c s = false.
Proof. unfold nochar. destruct (contains c s); [discriminate | reflexivity]. Qed.
Record fok (s : string) : Prop := {
  fok_ne : s ≠ ""; fok_l : lstrip s = s; fok_r : rstrip s = s;
  fok_eq : contains "="%char s = false; fok_hash : contains "#"%char s = false }.
Lemma field_ok_spec s : field_ok s = true → fok s.
Proof.
  unfold field_ok, stripped. intros H.
  repeat match goal with H : _ && _ = true |- _ => apply andb_split in H as [? ?] end.
  split; try (apply nochar_spec; assumption); try (apply seqb_true; assumption).
  intros ->. discriminate.
Qed.

Lemma strip_pad n m f : lstrip f = f → rstrip f = f → strip (spaces n ++ f ++ spaces m) = f.
Proof.
  intros Hl Hr. unfold strip. rewrite lstrip_spaces.
  destruct f as [|x f].
  - rewrite sapp_nil_l. replace (lstrip (spaces m)) with (lstrip (spaces m ++ "")) by (rewrite sapp_nil_r; reflexivity).
    rewrite lstrip_spaces. reflexivity.
  - rewrite lstrip_app by (congruence || assumption). rewrite rstrip_app_spaces. exact Hr.
Qed.
Lemma strip_fok f : fok f → strip f = f.
Proof.
  intros [? Hl Hr ? ?]. pose proof (strip_pad 0 0 f Hl Hr) as H.
  cbn [spaces] in H. rewrite sapp_nil_l, sapp_nil_r in H. exact H.
Qed.

(** * Joining fields with "=" and splitting again *)
Lemma join_cons sep x y l : join sep (x :: y :: l) = x ++ sep ++ join sep (y :: l).
Proof. reflexivity. Qed.
Lemma contains_eq_spaces n : contains "="%char (spaces n) = false.
Proof. apply contains_spaces. discriminate. Qed.

Lemma eq_fields_join v : ∀ fields a b, fields ≠ [] → Forall fok fields →
  eq_fields (spaces a ++ join (eq_sep v) fields ++ spaces b) = fields.
Proof.
  unfold eq_fields. induction fields as [|x fields IH]; intros a b Hne Hf; [congruence|].
  inversion Hf as [|? ? Hx Hf']; subst. destruct fields as [|y fields].
  - cbn [join]. rewrite split_on_none.
    + cbn [map]. rewrite strip_pad by apply Hx. reflexivity.
    + rewrite !contains_app, !contains_eq_spaces, (fok_eq _ Hx). reflexivity.
  - rewrite join_cons. unfold eq_sep at 1.
    replace (spaces a ++ (x ++ (spaces (l_pre v) ++ "=" ++ spaces (l_post v)) ++ join (eq_sep v) (y :: fields)) ++ spaces b)
      with ((spaces a ++ x ++ spaces (l_pre v)) ++ String "="%char (spaces (l_post v) ++ join (eq_sep v) (y :: fields) ++ spaces b))
      by (rewrite !sapp_assoc; reflexivity).
    rewrite split_on_app by (rewrite !contains_app, !contains_eq_spaces, (fok_eq _ Hx); reflexivity).
    cbn [map]. rewrite strip_pad by apply Hx. f_equal. apply IH; [discriminate | assumption].
Qed.

(** the joined line itself is stripped and has no "#" *)
Lemma contains_join c v fields : c ≠ "="%char → c ≠ " "%char →
  Forall (λ f, contains c f = false) fields → contains c (join (eq_sep v) fields) = false.
Proof.
  intros H1 H2. induction fields as [|x fields IH]; intros Hf; [reflexivity|].
  inversion Hf; subst. destruct fields as [|y fields]; [assumption|].
  rewrite join_cons. unfold eq_sep at 1. rewrite !contains_app, !contains_spaces by assumption.
  rewrite IH by assumption. cbn [contains]. replace (Ascii.eqb "=" c) with false by (symmetry; apply Ascii.eqb_neq; congruence).
  rewrite H3. reflexivity.
Qed.
Lemma join_lstrip v x fields : fok x → lstrip (join (eq_sep v) (x :: fields)) = join (eq_sep v) (x :: fields).
Proof.
  intros Hx. destruct fields as [|y fields]; [apply Hx|]. rewrite join_cons. apply lstrip_app; apply Hx.
Qed.
Lemma join_rstrip v : ∀ fields, fields ≠ [] → Forall fok fields →
  rstrip (join (eq_sep v) fields) = join (eq_sep v) fields ∧ join (eq_sep v) fields ≠ "".
Proof.
  induction fields as [|x fields IH]; intros Hne Hf; [congruence|].
  inversion Hf as [|? ? Hx Hf']; subst. destruct fields as [|y fields]; [split; apply Hx|].
  destruct (IH ltac:(discriminate) Hf') as [H1 H2].
  rewrite join_cons. split.
  - rewrite <- sapp_assoc. apply rstrip_app_r; assumption.
  - apply sapp_nonempty_r. apply sapp_nonempty_r. assumption.
Qed.

(** the text [parse_line] works on *)
Lemma parse_line_text v d :
  wf_layout v = true → def_fields v d ≠ [] → Forall fok (def_fields v d) →
  strip (strip_comment (print_def v d)) = join (eq_sep v) (def_fields v d).
Proof.
  intros _ Hne Hf. unfold print_def, strip_comment.
  destruct (def_fields v d) as [|x fields] eqn:E; [congruence|].
  assert (contains "#"%char (join (eq_sep v) (x :: fields)) = false) as Hh.
  { apply contains_join; [discriminate | discriminate |]. eapply Forall_impl; [exact Hf|]. intros f Hfo. apply Hfo. }
  assert (cut_at "#"%char (spaces (l_indent v) ++ join (eq_sep v) (x :: fields) ++ spaces (l_trail v) ++
            match l_comment v with Some c => "#" ++ c | None => "" end)
          = spaces (l_indent v) ++ join (eq_sep v) (x :: fields) ++ spaces (l_trail v)) as ->.
  { destruct (l_comment v) as [c|].
    - replace (spaces (l_indent v) ++ join (eq_sep v) (x :: fields) ++ spaces (l_trail v) ++ "#" ++ c)
        with ((spaces (l_indent v) ++ join (eq_sep v) (x :: fields) ++ spaces (l_trail v)) ++ String "#"%char c)
        by (rewrite !sapp_assoc; reflexivity).
      apply cut_at_app. rewrite !contains_app, Hh, !contains_spaces by discriminate. reflexivity.
    - rewrite sapp_nil_r. apply cut_at_none. rewrite !contains_app, Hh, !contains_spaces by discriminate. reflexivity. }
  inversion Hf; subst. apply strip_pad; [apply join_lstrip; assumption | apply join_rstrip; [discriminate | assumption]].
Qed.


(* ------------------------------------------------------------------ part 3 *)

(** * substring / ends_with / strip_dash on appended strings *)
Lemma substring_app_r a : ∀ n b, substring (String.length a) n (a ++ b) = substring 0 n b.
Proof. induction a as [|x a IH]; intros n b; [reflexivity|]. rewrite sapp_cons. simpl. apply IH. Qed.
Lemma substring_app_l a b : substring 0 (String.length a) (a ++ b) = a.
Proof.
  induction a as [|x a IH]; [rewrite sapp_nil_l; destruct b; reflexivity|].
  rewrite sapp_cons. simpl. rewrite IH. reflexivity.
Qed.
Lemma substring_full a : substring 0 (String.length a) a = a.
Proof. rewrite <- (sapp_nil_r a) at 2. apply substring_app_l. Qed.
Lemma ends_with_dash_app s : ends_with "-" (s ++ "-") = true.
Proof.
  unfold ends_with. rewrite length_sapp. simpl String.length.
  replace (String.length s + 1 - 1)%nat with (String.length s) by lia.
  rewrite substring_app_r. simpl substring. rewrite seqb_refl, andb_true_r.
  apply Nat.leb_le. lia.
Qed.
Fixpoint sd_go (n : nat) (s : string) : string :=
  match n with
  | O => s
  | S n' => if ends_with "-" s then sd_go n' (str_take (String.length s - 1) s) else s
  end.
Lemma strip_dash_go s : strip_dash s = sd_go (String.length s) s.
Proof. reflexivity. Qed.
Lemma strip_dash_noop s : ends_with "-" s = false → strip_dash s = s.
Proof. intros H. rewrite strip_dash_go. destruct (String.length s); cbn [sd_go]; [reflexivity | rewrite H; reflexivity]. Qed.
Lemma strip_dash_app s : ends_with "-" s = false → strip_dash (s ++ "-") = s.
Proof.
  intros H. rewrite strip_dash_go, length_sapp. simpl String.length. rewrite Nat.add_1_r. cbn [sd_go].
  rewrite ends_with_dash_app. unfold str_take. rewrite length_sapp. simpl String.length.
  replace (String.length s + 1 - 1)%nat with (String.length s) by lia. rewrite substring_app_l.
  rewrite <- strip_dash_go. apply strip_dash_noop. exact H.
Qed.

Lemma prefix_head c p a r : a ≠ c → String.prefix (String c p) (String a r) = false.
Proof. intros H. simpl. destruct (ascii_dec c a); [congruence | reflexivity]. Qed.
Lemma first_not_spec name : first_not ["@"; "["]%char name = true →
  ∃ a r, name = String a r ∧ a ≠ "@"%char ∧ a ≠ "["%char.
Proof.
  destruct name as [|a r]; [discriminate|]. cbn [first_not forallb]. rewrite andb_true_r. intros H.
  apply andb_split in H as [H1 H2]. exists a, r. split; [reflexivity|].
  split; apply Ascii.eqb_neq; [destruct (Ascii.eqb a "@") | destruct (Ascii.eqb a "[")]; (discriminate || reflexivity).
Qed.

(** fields built by appending *)
Lemma fok_app_dash s : fok s → fok (s ++ "-").
Proof.
  intros [Hn Hl Hr He Hh]. split.
  - apply sapp_nonempty_r. discriminate.
  - apply lstrip_app; assumption.
  - apply rstrip_app_r; [discriminate | reflexivity].
  - rewrite contains_app, He. reflexivity.
  - rewrite contains_app, Hh. reflexivity.
Qed.
Lemma fok_maybe_dash (b : bool) s : fok s → fok (if b then s ++ "-" else s).
Proof. destruct b; [apply fok_app_dash | auto]. Qed.
Record mok (kv : string * string) : Prop := {
  mok_k : fok kv.1; mok_v : fok kv.2;
  mok_ks : contains ";"%char kv.1 = false; mok_kc : contains ":"%char kv.1 = false;
  mok_vs : contains ";"%char kv.2 = false; mok_vc : contains ":"%char kv.2 = false }.
Lemma mod_ok_spec kv : mod_ok kv = true → mok kv.
Proof.
  unfold mod_ok. intros H.
  repeat match goal with H : _ && _ = true |- _ => apply andb_split in H as [? ?] end.
  split; try (apply field_ok_spec; assumption); apply nochar_spec; assumption.
Qed.
Lemma forallb_Forall {A} (p : A → bool) (P : A → Prop) l :
  (∀ x, p x = true → P x) → forallb p l = true → Forall P l.
Proof.
  intros H. induction l as [|x l IH]; [constructor|]. cbn [forallb]. intros Hx.
  apply andb_split in Hx as [H1 H2]. constructor; auto.
Qed.

Lemma mod_part_props kv : mok kv →
  contains ";"%char (mod_part kv) = false ∧ contains "="%char (mod_part kv) = false
  ∧ contains "#"%char (mod_part kv) = false ∧ rstrip (mod_part kv) = mod_part kv ∧ mod_part kv ≠ "".
Proof.
  intros [Hk Hv H1 H2 H3 H4]. unfold mod_part.
  repeat split.
  - rewrite !contains_app, H1, H3. reflexivity.
  - rewrite !contains_app, (fok_eq _ Hk), (fok_eq _ Hv). reflexivity.
  - rewrite !contains_app, (fok_hash _ Hk), (fok_hash _ Hv). reflexivity.
  - rewrite <- !sapp_assoc. apply rstrip_app_r; apply Hv.
  - discriminate.
Qed.
(** [x ++ print_mods ms] keeps the good properties of [x] *)
Lemma value_props ms : Forall mok ms → ∀ x, x ≠ "" → rstrip x = x →
  contains "="%char x = false → contains "#"%char x = false →
  rstrip (x ++ print_mods ms) = x ++ print_mods ms
  ∧ contains "="%char (x ++ print_mods ms) = false ∧ contains "#"%char (x ++ print_mods ms) = false.
Proof.
  induction 1 as [|kv ms Hkv Hms IH]; intros x Hx Hr He Hh.
  - cbn [print_mods]. rewrite sapp_nil_r. auto.
  - cbn [print_mods]. destruct (mod_part_props kv Hkv) as (P1 & P2 & P3 & P4 & P5).
    replace (x ++ String ";"%char (mod_part kv ++ print_mods ms)) with ((x ++ String ";"%char (mod_part kv)) ++ print_mods ms)
      by (rewrite sapp_assoc, sapp_cons; reflexivity).
    apply IH.
    + apply sapp_nonempty_r. discriminate.
    + replace (String ";"%char (mod_part kv)) with (";" ++ mod_part kv) by reflexivity.
      rewrite <- sapp_assoc. apply rstrip_app_r; assumption.
    + rewrite contains_app, He. cbn [contains]. rewrite P2. reflexivity.
    + rewrite contains_app, Hh. cbn [contains]. rewrite P3. reflexivity.
Qed.
Lemma fok_value rhs ms : fok rhs → Forall mok ms → fok (rhs ++ print_mods ms).
Proof.
  intros [Hn Hl Hr He Hh] Hms. destruct (value_props ms Hms rhs Hn Hr He Hh) as (V1 & V2 & V3).
  split; try assumption.
  - intros E. destruct rhs; [congruence | rewrite sapp_cons in E; discriminate].
  - apply lstrip_app; assumption.
Qed.

(** reading the modifiers back *)
Lemma split_mods_parts : ∀ ms kv, Forall mok (kv :: ms) →
  split_on ";"%char (mod_part kv ++ print_mods ms) = map mod_part (kv :: ms).
Proof.
  induction ms as [|kv' ms IH]; intros kv Hf; inversion Hf as [|? ? Hkv Hms]; subst.
  - cbn [print_mods map]. rewrite sapp_nil_r. apply split_on_none. apply (mod_part_props kv Hkv).
  - cbn [print_mods]. rewrite split_on_app by apply (mod_part_props kv Hkv).
    rewrite IH by assumption. reflexivity.
Qed.
Lemma parse_mods_parts ms : Forall mok ms → parse_mods (map mod_part ms) = Ok ms.
Proof.
  induction 1 as [|[k v] ms Hkv Hms IH]; [reflexivity|].
  cbn [map parse_mods]. destruct Hkv as [Hk Hv H1 H2 H3 H4]. cbn [fst snd] in *.
  change (mod_part (k, v)) with (" " ++ k ++ ": " ++ v).
  replace (" " ++ k ++ ": " ++ v) with ((" " ++ k) ++ String ":"%char (" " ++ v)) by (rewrite !sapp_assoc; reflexivity).
  rewrite split_on_app by (rewrite contains_app, H2; reflexivity).
  rewrite split_on_none by (rewrite contains_app, H4; reflexivity).
  cbv iota beta. rewrite IH. cbn [rbind].
  pose proof (strip_pad 1 0 k (fok_l _ Hk) (fok_r _ Hk)) as Sk. cbn [spaces] in Sk. rewrite sapp_nil_r in Sk.
  pose proof (strip_pad 1 0 v (fok_l _ Hv) (fok_r _ Hv)) as Sv. cbn [spaces] in Sv. rewrite sapp_nil_r in Sv.
  rewrite Sk, Sv. reflexivity.
Qed.
Lemma split_value_print rhs ms : fok rhs → contains ";"%char rhs = false → Forall mok ms →
  split_value (rhs ++ print_mods ms) = Ok (rhs, ms).
Proof.
  intros Hr Hs Hms. unfold split_value. destruct ms as [|kv ms].
  - cbn [print_mods]. rewrite sapp_nil_r, Hs. reflexivity.
  - cbn [print_mods]. rewrite contains_app. cbn [contains]. rewrite Ascii.eqb_refl, orb_true_r.
    rewrite after_app, cut_at_app by assumption.
    rewrite split_mods_parts by assumption. rewrite parse_mods_parts by assumption.
    cbn [rbind]. rewrite (strip_fok rhs Hr). reflexivity.
Qed.

(** symbol and aliases *)
Record aok (s : string) : Prop := { aok_f : fok s; aok_u : s ≠ "_" }.
Lemma alias_ok_spec s : alias_ok s = true → aok s.
Proof.
  unfold alias_ok. intros H. apply andb_split in H as [H1 H2]. split; [apply field_ok_spec; exact H1|].
  intros ->. discriminate.
Qed.
Lemma filter_clean l : Forall aok l →
  List.filter (λ a, negb (String.eqb a "" || String.eqb a "_")) l = l.
Proof.
  induction 1 as [|x l [Hf Hu] Hl IH]; [reflexivity|]. cbn [List.filter].
  rewrite (seqb_nonempty x (fok_ne _ Hf)). replace (String.eqb x "_") with false by (symmetry; apply String.eqb_neq; exact Hu).
  cbn [orb negb]. rewrite IH. reflexivity.
Qed.
Lemma sym_aliases_unit v sym aliases :
  match sym with Some s => aok s | None => True end → Forall aok aliases →
  sym_aliases (tail_fields v id sym aliases) = (sym, aliases).
Proof.
  intros Hs Ha. unfold tail_fields. rewrite map_id. destruct sym as [s|].
  - cbn [sym_aliases id]. replace (String.eqb s "_") with false by (symmetry; apply String.eqb_neq; apply Hs).
    rewrite filter_clean by assumption. reflexivity.
  - destruct aliases as [|a l]; [destruct (l_placeholder v); reflexivity|].
    cbn [sym_aliases]. change (String.eqb "_" "_") with true. cbv iota. rewrite filter_clean by assumption. reflexivity.
Qed.
Record pok (s : string) : Prop := { pok_a : aok s; pok_d : ends_with "-" s = false }.
Lemma sym_aliases_prefix v (b : bool) sym aliases :
  match sym with Some s => pok s | None => True end → Forall pok aliases →
  sym_aliases (map strip_dash (tail_fields v (λ s, if b then s ++ "-" else s) sym aliases)) = (sym, aliases).
Proof.
  intros Hs Ha. set (g := λ s : string, if b then s ++ "-" else s).
  assert (Hg : ∀ s, pok s → strip_dash (g s) = s).
  { intros s [_ Hd]. unfold g. destruct b; [apply strip_dash_app | apply strip_dash_noop]; exact Hd. }
  assert (map strip_dash (map g aliases) = aliases) as Hm.
  { clear Hs. induction Ha as [|x l Hx Hl IH]; [reflexivity|]. cbn [map]. rewrite (Hg x Hx), IH. reflexivity. }
  assert (Forall aok aliases) as Ha' by (eapply Forall_impl; [exact Ha | intros ? []; assumption]).
  unfold tail_fields. destruct sym as [s|].
  - cbn [map sym_aliases]. rewrite (Hg s Hs), Hm.
    replace (String.eqb s "_") with false by (symmetry; apply String.eqb_neq; apply Hs).
    rewrite filter_clean by assumption. reflexivity.
  - destruct aliases as [|a l]; [destruct (l_placeholder v); reflexivity|].
    cbn [map sym_aliases]. change (strip_dash "_") with "_". change (String.eqb "_" "_") with true. cbv iota.
    cbn [map] in Hm. rewrite Hm. rewrite filter_clean by assumption. reflexivity.
Qed.


(* ------------------------------------------------------------------ part 4 *)

Lemma eq_fields_join0 v fields : fields ≠ [] → Forall fok fields →
  eq_fields (join (eq_sep v) fields) = fields.
Proof.
  intros H1 H2. pose proof (eq_fields_join v fields 0 0 H1 H2) as H. cbn [spaces] in H.
  rewrite sapp_nil_l, sapp_nil_r in H. exact H.
Qed.
Lemma contains_eq_join v x y l : contains "="%char (join (eq_sep v) (x :: y :: l)) = true.
Proof.
  rewrite join_cons. unfold eq_sep. rewrite !contains_app. cbn [contains]. rewrite Ascii.eqb_refl.
  rewrite !orb_true_r. reflexivity.
Qed.
Lemma join_head v a r l : ∃ r', join (eq_sep v) (String a r :: l) = String a r'.
Proof. destruct l; [eauto|]. rewrite join_cons, sapp_cons. eauto. Qed.

Lemma tail_fok_unit v sym aliases :
  match sym with Some s => aok s | None => True end → Forall aok aliases →
  Forall fok (tail_fields v id sym aliases).
Proof.
  intros Hs Ha. assert (Forall fok aliases) by (eapply Forall_impl; [exact Ha | intros ? []; assumption]).
  assert (fok "_") by (split; (discriminate || reflexivity)).
  unfold tail_fields. rewrite map_id. destruct sym as [s|].
  - constructor; [apply Hs | assumption].
  - destruct aliases; [destruct (l_placeholder v); [constructor; [assumption | constructor] | constructor] | constructor; assumption].
Qed.
Lemma tail_fok_prefix v (b : bool) sym aliases :
  match sym with Some s => pok s | None => True end → Forall pok aliases →
  Forall fok (tail_fields v (λ s, if b then s ++ "-" else s) sym aliases).
Proof.
  intros Hs Ha.
  assert (Forall fok (map (λ s, if b then s ++ "-" else s) aliases)).
  { apply Forall_map. eapply Forall_impl; [exact Ha|]. intros x [[Hx _] _]. apply fok_maybe_dash. exact Hx. }
  assert (fok "_") by (split; (discriminate || reflexivity)).
  unfold tail_fields. destruct sym as [s|].
  - constructor; [apply fok_maybe_dash; apply Hs | assumption].
  - destruct aliases; [destruct (l_placeholder v); [constructor; [assumption | constructor] | constructor] | constructor; assumption].
Qed.

Ltac side := cbn [def_fields]; first [assumption | discriminate | repeat (apply Forall_cons_2; [assumption|]); first [apply Forall_nil_2 | assumption]].

(** * The round trip: reading a printed definition gives the record back *)
Theorem parse_print_def v d :
  wf_layout v = true → wf_defrec d = true → parse_line (print_def v d) = Ok (LnDef d).
Proof.
  intros Hv Hw. unfold parse_line.
  destruct d as [name value sym aliases | name rhs mods sym aliases | name | name rhs | name aliases];
    cbn [wf_defrec] in Hw;
    repeat match goal with H : _ && _ = true |- _ => apply andb_split in H as [? ?] end.
  - (* prefix *)
    assert (fok name) as Hn by (apply field_ok_spec; assumption).
    assert (fok value) as Hval by (apply field_ok_spec; assumption).
    assert (match sym with Some s => pok s | None => True end) as Hs.
    { destruct sym as [s|]; [|exact I].
      match goal with H : alias_ok s && _ = true |- _ => apply andb_split in H as [? ?] end.
      split; [apply alias_ok_spec; assumption|].
      destruct (ends_with "-" s); [discriminate | reflexivity]. }
    assert (Forall pok aliases) as Ha.
    { match goal with H : forallb _ aliases = true |- _ => eapply forallb_Forall; [|exact H] end. intros x Hx. apply andb_split in Hx as [? ?].
      split; [apply alias_ok_spec; assumption | destruct (ends_with "-" x); [discriminate | reflexivity]]. }
    assert (Forall fok (def_fields v (DefPrefix name value sym aliases))) as Hf.
    { cbn [def_fields]. constructor; [apply fok_app_dash; exact Hn|]. constructor; [exact Hval|]. apply tail_fok_prefix; assumption. }
    rewrite parse_line_text by (assumption || discriminate). cbn [def_fields] in *.
    match goal with H : first_not _ name = true |- _ => destruct (first_not_spec name H) as (a & r & -> & Ha1 & Ha2) end.
    rewrite sapp_cons. destruct (join_head v a (r ++ "-") (value :: tail_fields v (λ s, if l_dash v then s ++ "-" else s) sym aliases)) as [r' Hr'].
    rewrite Hr'. cbn [String.eqb]. rewrite !prefix_head by congruence. rewrite <- Hr'.
    rewrite contains_eq_join. rewrite <- sapp_cons. rewrite eq_fields_join0 by (assumption || discriminate).
    rewrite ends_with_dash_app. rewrite sym_aliases_prefix by assumption.
    rewrite strip_dash_app by (destruct (ends_with "-" (String a r)); [discriminate | reflexivity]). reflexivity.
  - (* unit *)
    assert (fok name) as Hn by (apply field_ok_spec; assumption).
    assert (fok rhs) as Hrhs by (apply field_ok_spec; assumption).
    assert (Forall mok mods) as Hm by (eapply forallb_Forall; [apply mod_ok_spec | assumption]).
    assert (match sym with Some s => aok s | None => True end) as Hs by (destruct sym; [apply alias_ok_spec; assumption | exact I]).
    assert (Forall aok aliases) as Ha by (eapply forallb_Forall; [apply alias_ok_spec | assumption]).
    assert (Forall fok (def_fields v (DefUnit name rhs mods sym aliases))) as Hf.
    { cbn [def_fields]. constructor; [exact Hn|]. constructor; [apply fok_value; assumption|]. apply tail_fok_unit; assumption. }
    rewrite parse_line_text by (assumption || discriminate). cbn [def_fields] in *.
    match goal with H : first_not _ name = true |- _ => destruct (first_not_spec name H) as (a & r & -> & Ha1 & Ha2) end.
    destruct (join_head v a r ((rhs ++ print_mods mods) :: tail_fields v id sym aliases)) as [r' Hr'].
    rewrite Hr'. cbn [String.eqb]. rewrite !prefix_head by congruence. rewrite <- Hr'.
    rewrite contains_eq_join. rewrite eq_fields_join0 by (assumption || discriminate).
    replace (ends_with "-" (String a r)) with false by (destruct (ends_with "-" (String a r)); [discriminate | reflexivity]).
    rewrite split_value_print by (assumption || apply nochar_spec; assumption). cbn [rbind].
    rewrite sym_aliases_unit by assumption. reflexivity.
  - (* dimension *)
    assert (fok name) as Hn by (apply field_ok_spec; assumption).
    rewrite parse_line_text by side.
    cbn [def_fields join]. rewrite (seqb_nonempty name (fok_ne _ Hn)).
    destruct name as [|a r]; [discriminate|].
    match goal with H : String.prefix "[" _ = true |- _ => destruct (ascii_dec "[" a) as [<-|N]; [|rewrite prefix_head in H by congruence; discriminate H] end.
    rewrite !prefix_head by discriminate. cbn [String.prefix]. destruct (ascii_dec "[" "["); [|congruence].
    destruct r; rewrite (fok_eq _ Hn); reflexivity.
  - (* derived dimension *)
    assert (fok name) as Hn by (apply field_ok_spec; assumption).
    assert (fok rhs) as Hrhs by (apply field_ok_spec; assumption).
    rewrite parse_line_text by side.
    cbn [def_fields].
    destruct name as [|a r]; [discriminate|].
    match goal with H : String.prefix "[" _ = true |- _ => destruct (ascii_dec "[" a) as [<-|N]; [|rewrite prefix_head in H by congruence; discriminate H] end.
    destruct (join_head v "[" r [rhs]) as [r' Hr'].
    rewrite Hr'. cbn [String.eqb]. rewrite !prefix_head by discriminate.
    cbn [String.prefix]. destruct (ascii_dec "[" "["); [|congruence]. replace (String.prefix "" r') with true by (destruct r'; reflexivity).
    rewrite <- Hr'. rewrite contains_eq_join. rewrite eq_fields_join0 by side.
    reflexivity.
  - (* @alias *)
    assert (fok name) as Hn by (apply field_ok_spec; assumption).
    assert (Forall fok aliases) as Ha by (eapply forallb_Forall; [apply field_ok_spec | assumption]).
    assert (fok ("@alias " ++ name)) as Hn'.
    { destruct Hn as [N1 N2 N3 N4 N5]. split.
      - discriminate.
      - reflexivity.
      - apply rstrip_app_r; assumption.
      - rewrite contains_app, N4. reflexivity.
      - rewrite contains_app, N5. reflexivity. }
    rewrite parse_line_text by side.
    cbn [def_fields].
    assert (∃ rest, join (eq_sep v) (("@alias " ++ name) :: aliases) = "@alias " ++ rest ∧ eq_fields rest = name :: aliases) as (rest & Hj & Hr).
    { destruct aliases as [|y l].
      - exists name. split; [reflexivity|]. apply (eq_fields_join0 v [name]); side.
      - exists (join (eq_sep v) (name :: y :: l)). split; [rewrite !join_cons, sapp_assoc; reflexivity|].
        apply eq_fields_join0; [discriminate | constructor; assumption]. }
    rewrite Hj. change (String.eqb ("@alias " ++ rest) "") with false. cbv iota.
    assert (String.prefix "@alias " ("@alias " ++ rest) = true) as ->.
    { simpl. repeat (destruct (ascii_dec _ _); [|congruence]). destruct rest; reflexivity. }
    assert (str_drop 7 ("@alias " ++ rest) = rest) as ->.
    { unfold str_drop. rewrite length_sapp. simpl String.length. replace (7 + String.length rest - 7)%nat with (String.length rest) by lia.
      simpl. apply substring_full. }
    rewrite Hr. reflexivity.
Qed.


(* ------------------------------------------------------------------ part 5 *)

(** * [elab1] = [pre] then [act] *)
Lemma fold_left_fst {A B C} (g : A → B → A) (l : list (B * C)) a :
  fold_left (λ m kv, g m kv.1) l a = fold_left g (map fst l) a.
Proof. revert a. induction l as [|x l IH]; intros a; [reflexivity | simpl; apply IH]. Qed.

Lemma add_prefix_keys_fold sym aliases p r :
  fold_left (λ r a, add_prefix_key a p r) aliases
    (match sym with
     | Some s => if String.eqb s "" then add_prefix_key (p_name p) p r else add_prefix_key s p (add_prefix_key (p_name p) p r)
     | None => add_prefix_key (p_name p) p r end)
  = fold_left (λ r k, add_prefix_key k p r)
      (p_name p :: (match sym with Some s => if String.eqb s "" then [] else [s] | None => [] end ++ aliases)) r.
Proof. destruct sym as [s|]; [destruct (String.eqb s "")|]; reflexivity. Qed.

Lemma elab1_pre r d : plain d = true → elab1 r d = (a ←r pre d; Ok (act a r)).
Proof.
  destruct d as [fields value | fields rhs mods | name | name rhs | name aliases]; intros Hp; try discriminate.
  - destruct fields as [|name rest]; [reflexivity|]. cbn [elab1 pre].
    destruct (num_from_tokens value) as [v|e]; [|reflexivity]. cbn [rbind].
    destruct (split_sym_aliases (map strip_dash rest)) as [sym aliases]. cbn [act].
    destruct sym as [s|]; [destruct (String.eqb s "")|]; reflexivity.
  - destruct fields as [|name rest]; [reflexivity|]. cbn [elab1 pre].
    destruct (ph_from_tokens rhs) as [[p pfl]|e]; [|reflexivity]. cbn [rbind].
    destruct (split_sym_aliases rest) as [sym aliases].
    destruct (foldM _ mods []) as [ms|e]; [|reflexivity]. cbn [rbind].
    lazymatch goal with |- rbind ?X _ = rbind (rbind ?Y _) _ => change Y with X; generalize X end.
    intros [cv|e]; [|reflexivity]. cbn [rbind].
    destruct (negb _ && negb _); [reflexivity|].
    destruct cv; reflexivity.
  - reflexivity.
  - cbn [elab1 pre]. destruct (ph_from_tokens rhs) as [[p pfl]|e]; [|reflexivity]. cbn [rbind act].
    unfold set_dims, implicit_dims. rewrite <- fold_left_fst. reflexivity.
Qed.

Lemma foldM_elab ds : ∀ r, forallb plain ds = true →
  foldM elab1 ds r = (acts ←r mapR pre ds; Ok (run_acts acts r)).
Proof.
  induction ds as [|d ds IH]; intros r Hp; [reflexivity|].
  cbn [forallb] in Hp. apply andb_prop in Hp as [H1 H2].
  cbn [foldM mapR]. rewrite elab1_pre by assumption.
  destruct (pre d) as [a|e]; [|reflexivity]. cbn [rbind]. rewrite IH by assumption.
  destruct (mapR pre ds) as [acts|e]; reflexivity.
Qed.
Lemma elab_acts ds : forallb plain ds = true →
  elab ds = (acts ←r mapR pre ds; Ok (run_acts acts empty_reg)).
Proof. apply foldM_elab. Qed.

Lemma mapR_perm {A B} (f : A → res B) l l' : l ≡ₚ l' → ∀ ys, mapR f l = Ok ys → ∃ ys', mapR f l' = Ok ys' ∧ ys ≡ₚ ys'.
Proof.
  induction 1 as [|x l l' Hp IH|x y l|l l' l'' H1 IH1 H2 IH2]; intros ys.
  - intros [= <-]. exists []. split; reflexivity.
  - cbn [mapR]. destruct (f x) as [y|e]; [|discriminate]. cbn [rbind].
    destruct (mapR f l) as [zs|e] eqn:E; [|discriminate]. intros [= <-].
    destruct (IH zs eq_refl) as (zs' & -> & Hz). exists (y :: zs'). split; [reflexivity | constructor; exact Hz].
  - cbn [mapR]. destruct (f y) as [b|e]; [|discriminate]. cbn [rbind].
    destruct (f x) as [a|e]; [|discriminate]. cbn [rbind].
    destruct (mapR f l) as [zs|e]; [|discriminate]. intros [= <-].
    exists (a :: b :: zs). split; [reflexivity | apply perm_swap].
  - intros Hy. destruct (IH1 ys Hy) as (ys' & H' & P1). destruct (IH2 ys' H') as (ys'' & H'' & P2).
    exists ys''. split; [exact H'' | etransitivity; eassumption].
Qed.
Lemma plain_perm ds ds' : ds ≡ₚ ds' → forallb plain ds = true → forallb plain ds' = true.
Proof.
  intros Hp H. apply forallb_forall. intros x Hx. rewrite forallb_forall in H. apply H.
  apply elem_of_list_In. rewrite Hp. apply elem_of_list_In. exact Hx.
Qed.

(** * The three tables after a run of actions *)
Definition ins {A} (m : gmap string A) (kv : string * A) : gmap string A := <[kv.1 := kv.2]> m.
Lemma fold_ins_list_to_map {A} (l : list (string * A)) : fold_left ins l ∅ = list_to_map (rev l).
Proof. unfold list_to_map. symmetry. exact (fold_left_rev_right (λ (p : string * A) m, <[p.1:=p.2]> m) l ∅). Qed.
Lemma fold_left_app' {A B} (g : A → B → A) l1 l2 a : fold_left g (l1 ++ l2) a = fold_left g l2 (fold_left g l1 a).
Proof. apply fold_left_app. Qed.

Lemma fold_ins_keys {A} (d : A) ks : ∀ m, fold_left ins (map (λ k, (k, d)) ks) m = fold_left (λ m a, <[a := d]> m) ks m.
Proof. induction ks as [|k ks IH]; intros m; [reflexivity | cbn [map fold_left]; apply IH]. Qed.
Lemma add_def_keys_ins d m : add_def_keys d m = fold_left ins (map (λ k, (k, d)) (udef_keys d)) m.
Proof.
  rewrite fold_ins_keys. unfold add_def_keys, udef_keys. cbn [fold_left].
  rewrite fold_left_app. destruct (u_sym d) as [s|]; [destruct (String.eqb s "")|]; reflexivity.
Qed.

(** ** units *)
Lemma prefix_fold_units keys p : ∀ r, r_units (fold_left (λ r k, add_prefix_key k p r) keys r) = r_units r.
Proof. induction keys as [|k keys IH]; intros r; [reflexivity | cbn [fold_left]; rewrite IH; reflexivity]. Qed.
Lemma prefix_fold_dims keys p : ∀ r, r_dims (fold_left (λ r k, add_prefix_key k p r) keys r) = r_dims r.
Proof. induction keys as [|k keys IH]; intros r; [reflexivity | cbn [fold_left]; rewrite IH; reflexivity]. Qed.
Lemma units_fold_units ds : ∀ r,
  r_units (fold_left add_unit_def ds r) = fold_left ins (flat_map (λ d, map (λ k, (k, d)) (udef_keys d)) ds) (r_units r).
Proof.
  induction ds as [|d ds IH]; intros r; [reflexivity|].
  cbn [fold_left flat_map]. rewrite IH, fold_left_app. cbn [add_unit_def r_units]. rewrite add_def_keys_ins. reflexivity.
Qed.
Lemma units_fold_prefixes ds : ∀ r,
  r_prefixes (fold_left add_unit_def ds r) = r_prefixes r ∧ r_prefix_keys (fold_left add_unit_def ds r) = r_prefix_keys r.
Proof. induction ds as [|d ds IH]; intros r; [split; reflexivity | cbn [fold_left]; destruct (IH (add_unit_def r d)) as [-> ->]; split; reflexivity]. Qed.
Lemma units_act a r : r_units (act a r) = fold_left ins (unit_bindings a) (r_units r).
Proof. destruct a; cbn [act unit_bindings fold_left]; [apply prefix_fold_units | apply units_fold_units | reflexivity | reflexivity]. Qed.
Lemma units_run acts : ∀ r, r_units (run_acts acts r) = fold_left ins (flat_map unit_bindings acts) (r_units r).
Proof.
  induction acts as [|a acts IH]; intros r; [reflexivity|].
  unfold run_acts in *. cbn [fold_left flat_map]. rewrite IH, fold_left_app, units_act. reflexivity.
Qed.

(** ** prefixes *)
Lemma prefix_fold_prefixes keys p : ∀ r,
  r_prefixes (fold_left (λ r k, add_prefix_key k p r) keys r) = fold_left ins (map (λ k, (k, p)) keys) (r_prefixes r).
Proof. induction keys as [|k keys IH]; intros r; [reflexivity | cbn [fold_left map]; rewrite IH; reflexivity]. Qed.
Lemma prefixes_act a r : r_prefixes (act a r) = fold_left ins (prefix_bindings a) (r_prefixes r).
Proof.
  destruct a; cbn [act prefix_bindings fold_left]; [apply prefix_fold_prefixes | apply units_fold_prefixes | reflexivity | reflexivity].
Qed.
Lemma prefixes_run acts : ∀ r, r_prefixes (run_acts acts r) = fold_left ins (flat_map prefix_bindings acts) (r_prefixes r).
Proof.
  induction acts as [|a acts IH]; intros r; [reflexivity|].
  unfold run_acts in *. cbn [fold_left flat_map]. rewrite IH, fold_left_app, prefixes_act. reflexivity.
Qed.
(** the ordered key list and the table have the same keys *)
Definition pk_inv (r : reg) : Prop := ∀ k, k ∈ r_prefix_keys r ↔ is_Some (r_prefixes r !! k).
Lemma pk_inv_empty : pk_inv empty_reg.
Proof.
  intros k. cbn [empty_reg r_prefix_keys r_prefixes]. rewrite elem_of_list_singleton. split.
  - intros ->. rewrite lookup_singleton. eauto.
  - intros [x Hx]. apply lookup_singleton_Some in Hx as [<- _]. reflexivity.
Qed.
Lemma pk_inv_add k p r : pk_inv r → pk_inv (add_prefix_key k p r).
Proof.
  intros H j. unfold add_prefix_key. cbn [r_prefix_keys r_prefixes].
  destruct (decide (k = j)) as [->|N].
  - rewrite lookup_insert. split; [eauto|]. intros _.
    destruct (bool_decide (is_Some (r_prefixes r !! j))) eqn:E.
    + apply bool_decide_eq_true in E. apply H. exact E.
    + apply elem_of_app. right. apply elem_of_list_singleton. reflexivity.
  - rewrite lookup_insert_ne by assumption. rewrite <- (H j).
    destruct (bool_decide _); [reflexivity|]. rewrite elem_of_app, elem_of_list_singleton. split; [intros [?|?]; [assumption | congruence] | auto].
Qed.
Lemma pk_inv_act a r : pk_inv r → pk_inv (act a r).
Proof.
  destruct a as [keys p | ds | n | n ref]; cbn [act]; intros H.
  - revert r H. induction keys as [|k keys IH]; intros r H; [exact H|]. cbn [fold_left]. apply IH. apply pk_inv_add. exact H.
  - intros k. destruct (units_fold_prefixes ds r) as [-> ->]. apply H.
  - exact H.
  - exact H.
Qed.
Lemma pk_inv_run acts : ∀ r, pk_inv r → pk_inv (run_acts acts r).
Proof. induction acts as [|a acts IH]; intros r H; [exact H|]. unfold run_acts in *. cbn [fold_left]. apply IH. apply pk_inv_act. exact H. Qed.

(** ** dimensions: explicit definitions over mentioned names *)
Definition mention (m : gmap string ddef) (k : string) : gmap string ddef := m ∪ {[ k := DBase ]}.
Lemma implicit_is_mention (m : gmap string ddef) k :
  match m !! k with Some _ => m | None => <[k := DBase]> m end = mention m k.
Proof.
  unfold mention. apply map_eq. intros j. rewrite lookup_union.
  destruct (m !! k) as [x|] eqn:E.
  - destruct (decide (k = j)) as [<-|N]; [rewrite E, lookup_singleton; reflexivity|].
    rewrite lookup_singleton_ne by assumption. destruct (m !! j); reflexivity.
  - destruct (decide (k = j)) as [<-|N]; [rewrite lookup_insert, E, lookup_singleton; reflexivity|].
    rewrite lookup_insert_ne, lookup_singleton_ne by assumption. destruct (m !! j); reflexivity.
Qed.
Lemma implicit_dims_mention ks : ∀ E I, implicit_dims ks (E ∪ I) = E ∪ fold_left mention ks I.
Proof.
  unfold implicit_dims. induction ks as [|k ks IH]; intros E I; [reflexivity|].
  cbn [fold_left]. rewrite implicit_is_mention. unfold mention at 1. rewrite <- (assoc_L (∪)). apply IH.
Qed.
Lemma units_fold_dims ds : ∀ r E I, r_dims r = E ∪ I →
  r_dims (fold_left add_unit_def ds r)
  = E ∪ fold_left mention (flat_map (λ d, if u_base d then map fst (map_to_list (u_ref d)) else []) ds) I.
Proof.
  induction ds as [|d ds IH]; intros r E I H; [exact H|].
  cbn [fold_left flat_map]. rewrite fold_left_app. apply IH.
  cbn [add_unit_def r_dims]. destruct (u_base d); [|exact H].
  rewrite (fold_left_fst (λ (m : gmap string ddef) k, match m !! k with Some _ => m | None => <[k := DBase]> m end)), H. apply implicit_dims_mention.
Qed.
Lemma dims_act a r E I : r_dims r = E ∪ I →
  r_dims (act a r) = fold_left ins (dim_bindings a) E ∪ fold_left mention (dim_mentions a) I.
Proof.
  intros H. destruct a as [keys p | ds | n | n ref]; cbn [act dim_bindings dim_mentions fold_left].
  - rewrite prefix_fold_dims. exact H.
  - apply units_fold_dims. exact H.
  - cbn [set_dims r_dims]. rewrite H. unfold ins. cbn [fst snd]. apply insert_union_l.
  - cbn [set_dims r_dims]. rewrite H, implicit_dims_mention. unfold ins. cbn [fst snd]. apply insert_union_l.
Qed.
Lemma dims_run acts : ∀ r E I, r_dims r = E ∪ I →
  r_dims (run_acts acts r) = fold_left ins (flat_map dim_bindings acts) E ∪ fold_left mention (flat_map dim_mentions acts) I.
Proof.
  induction acts as [|a acts IH]; intros r E I H; [exact H|].
  unfold run_acts in *. cbn [fold_left flat_map]. rewrite !fold_left_app. apply IH. apply dims_act. exact H.
Qed.
Lemma mention_lookup M : ∀ (I : gmap string ddef) k,
  fold_left mention M I !! k = match I !! k with Some x => Some x | None => if decide (k ∈ M) then Some DBase else None end.
Proof.
  induction M as [|j M IH]; intros I k.
  - cbn [fold_left]. destruct (I !! k); [reflexivity|]. destruct (decide (k ∈ [])) as [H|]; [inversion H | reflexivity].
  - cbn [fold_left]. rewrite IH. unfold mention. rewrite lookup_union.
    destruct (I !! k) as [x|] eqn:E; cbn.
    + destruct ({[j := DBase]} !! k); reflexivity.
    + destruct (decide (j = k)) as [->|N].
      * rewrite lookup_singleton. cbn. destruct (decide (k ∈ k :: M)) as [|N]; [reflexivity | exfalso; apply N; left].
      * rewrite lookup_singleton_ne by assumption. cbn.
        destruct (decide (k ∈ M)), (decide (k ∈ j :: M)) as [H|H]; try reflexivity.
        -- exfalso. apply H. right. assumption.
        -- exfalso. apply elem_of_cons in H as [->|H]; [congruence | contradiction].
Qed.

(** ** the tables of two permuted runs coincide *)
Lemma fold_ins_perm {A} (l l' : list (string * A)) : NoDup l.*1 → l ≡ₚ l' → fold_left ins l ∅ = fold_left ins l' ∅.
Proof.
  intros Hn Hp. rewrite !fold_ins_list_to_map. apply list_to_map_proper.
  - rewrite <- Permutation_rev. exact Hn.
  - rewrite <- !Permutation_rev. exact Hp.
Qed.


(* ------------------------------------------------------------------ part 6 *)

(** two registries with the same three tables; the ORDERED lists ([r_prefix_keys],
    [r_unit_names], [r_base_units]) may differ, the key list only as a set *)
Record same_tables (r r' : reg) : Prop := {
  st_units : r_units r = r_units r';
  st_prefixes : r_prefixes r = r_prefixes r';
  st_dims : r_dims r = r_dims r';
  st_keys : ∀ k, k ∈ r_prefix_keys r ↔ k ∈ r_prefix_keys r' }.

Theorem run_acts_perm acts acts' : acts ≡ₚ acts' → no_redefinition acts →
  same_tables (run_acts acts empty_reg) (run_acts acts' empty_reg).
Proof.
  intros Hp (Nu & Np & Nd). split.
  - rewrite !units_run. cbn [empty_reg r_units]. apply fold_ins_perm; [exact Nu|].
    apply Permutation_flat_map. exact Hp.
  - rewrite !prefixes_run. cbn [empty_reg r_prefixes].
    change ({[ "" := PDef "" None [] 1%Qc ]} : gmap string pdef) with (fold_left ins [("", PDef "" None [] 1%Qc)] (∅ : gmap string pdef)).
    rewrite <- !fold_left_app. apply fold_ins_perm; [exact Np|].
    cbn [app]. constructor. apply Permutation_flat_map. exact Hp.
  - rewrite (dims_run acts empty_reg ∅ ∅), (dims_run acts' empty_reg ∅ ∅) by (cbn; rewrite (left_id_L ∅ (∪)); reflexivity).
    f_equal.
    + apply fold_ins_perm; [exact Nd|]. apply Permutation_flat_map. exact Hp.
    + apply map_eq. intros k. rewrite !mention_lookup, lookup_empty.
      assert (flat_map dim_mentions acts ≡ₚ flat_map dim_mentions acts') as HM by (apply Permutation_flat_map; exact Hp).
      destruct (decide (k ∈ flat_map dim_mentions acts)) as [H|H], (decide (k ∈ flat_map dim_mentions acts')) as [H'|H']; try reflexivity.
      * exfalso. apply H'. rewrite <- HM. exact H.
      * exfalso. apply H. rewrite HM. exact H'.
  - intros k. rewrite (pk_inv_run acts empty_reg pk_inv_empty k), (pk_inv_run acts' empty_reg pk_inv_empty k).
    rewrite !prefixes_run. cbn [empty_reg r_prefixes].
    change ({[ "" := PDef "" None [] 1%Qc ]} : gmap string pdef) with (fold_left ins [("", PDef "" None [] 1%Qc)] (∅ : gmap string pdef)).
    rewrite <- !fold_left_app.
    rewrite (fold_ins_perm _ (("", PDef "" None [] 1%Qc) :: flat_map prefix_bindings acts')); [reflexivity | exact Np |].
    cbn [app]. constructor. apply Permutation_flat_map. exact Hp.
Qed.

(** * Name resolution sees the key list only through its members when the string is unambiguous *)
Lemma pair_eqb_eq a b : pair_eqb a b = true ↔ a = b.
Proof.
  unfold pair_eqb. destruct a as [a1 a2], b as [b1 b2]. cbn [fst snd]. rewrite andb_true_iff, !String.eqb_eq.
  split; [intros [-> ->]; reflexivity | intros [= -> ->]; auto].
Qed.
Lemma triplets_mem r r' s c : same_tables r r' → c ∈ triplets r s → c ∈ triplets r' s.
Proof.
  intros [Hu Hpf _ Hk]. unfold triplets. rewrite !elem_of_list_In, !in_flat_map.
  intros (suffix & Hs & Hc). exists suffix. split; [exact Hs|].
  rewrite in_flat_map in *. destruct Hc as (pk & Hpk & Hc). exists pk. split.
  - apply elem_of_list_In. apply Hk. apply elem_of_list_In. exact Hpk.
  - rewrite <- Hu, <- Hpf. exact Hc.
Qed.
Lemma same_tables_sym r r' : same_tables r r' → same_tables r' r.
Proof. intros [? ? ? H]. split; try congruence. intros k. symmetry. apply H. Qed.

Lemma unamb1_all r s c : unamb1 r s = true → c ∈ triplets r s → ∀ c', c' ∈ triplets r s → c' = c.
Proof.
  unfold unamb1. destruct (triplets r s) as [|c0 l]; [intros _ H; inversion H|].
  intros H Hc c' Hc'. rewrite forallb_forall in H.
  assert (∀ x, x ∈ c0 :: l → x = c0) as Hall.
  { intros x Hx. apply elem_of_cons in Hx as [->|Hx]; [reflexivity|]. symmetry. apply pair_eqb_eq. apply H. apply elem_of_list_In. exact Hx. }
  rewrite (Hall c Hc), (Hall c' Hc'). reflexivity.
Qed.
Lemma dedup_const c : ∀ l seen, (∀ x, x ∈ l → x = c) →
  dedup_keep_first l seen = if existsb (pair_eqb c) seen then [] else match l with [] => [] | _ => [c] end.
Proof.
  induction l as [|x l IH]; intros seen H; [destruct (existsb _ seen); reflexivity|].
  assert (x = c) as -> by (apply H; left). cbn [dedup_keep_first].
  destruct (existsb (pair_eqb c) seen) eqn:E.
  - rewrite IH by (intros y Hy; apply H; right; exact Hy). rewrite E. reflexivity.
  - rewrite IH by (intros y Hy; apply H; right; exact Hy). cbn [existsb].
    replace (pair_eqb c c) with true by (symmetry; apply pair_eqb_eq; reflexivity). reflexivity.
Qed.
Lemma parse_same r r' s : same_tables r r' → unamb1 r s = true → parse_unit_name r s = parse_unit_name r' s.
Proof.
  intros Hst Hu. unfold parse_unit_name, dedup_candidates.
  destruct (triplets r s) as [|c l] eqn:E.
  - destruct (triplets r' s) as [|c' l'] eqn:E'; [reflexivity|].
    exfalso. assert (c' ∈ triplets r s) as H by (apply (triplets_mem r' r); [apply same_tables_sym; exact Hst | rewrite E'; left]).
    rewrite E in H. inversion H.
  - assert (c ∈ triplets r s) as Hc by (rewrite E; left).
    assert (∀ x, x ∈ triplets r s → x = c) as H1 by (intros x Hx; apply (unamb1_all r s c Hu Hc x Hx)).
    assert (∀ x, x ∈ triplets r' s → x = c) as H2.
    { intros x Hx. apply H1. apply (triplets_mem r' r); [apply same_tables_sym; exact Hst | exact Hx]. }
    assert (triplets r' s ≠ []) as Hne.
    { intros E'. assert (c ∈ triplets r' s) as H by (apply (triplets_mem r r'); assumption). rewrite E' in H. inversion H. }
    rewrite <- E. rewrite (dedup_const c _ [] H1), (dedup_const c _ [] H2). cbn [existsb].
    rewrite E. destruct (triplets r' s); [congruence | reflexivity].
Qed.
Lemma get_symbol_same r r' s : same_tables r r' → unamb1 r s = true → get_symbol r s = get_symbol r' s.
Proof.
  intros Hst Hu. unfold get_symbol. rewrite <- (parse_same r r' s Hst Hu).
  destruct Hst as [Hun Hpf _ _]. rewrite <- Hun, <- Hpf. reflexivity.
Qed.
Lemma parse_head_in r s p u l : parse_unit_name r s = (p, u) :: l → (p, u) ∈ triplets r s.
Proof.
  (* every candidate that survives deduplication is one of the triplets *)
  unfold parse_unit_name, dedup_candidates.
  assert (∀ l seen x, x ∈ dedup_keep_first l seen → x ∈ l) as Hd.
  { induction l0 as [|y l0 IH]; intros seen x; cbn [dedup_keep_first]; [auto|].
    destruct (existsb _ seen); [intros H; right; eapply IH; exact H|].
    intros H. apply elem_of_cons in H as [->|H]; [left | right; eapply IH; exact H]. }
  assert (∀ (o acc : list (string * string)) (x : string * string), x ∈ fold_left (λ acc c, if String.eqb c.1 "" then acc else filter (λ x, negb (pair_eqb x ("", c.1 ++ c.2))) acc) o acc → x ∈ acc) as Hf.
  { induction o as [|c o IH]; intros acc x; cbn [fold_left]; [auto|].
    intros H. apply IH in H. destruct (String.eqb c.1 ""); [exact H|]. apply elem_of_list_filter in H as [_ H]. exact H. }
  intros H. eapply Hd. eapply Hf. rewrite H. left.
Qed.
Lemma resolve_same r r' s : same_tables r r' → unamb_b r s = true → resolve r s = resolve r' s.
Proof.
  intros Hst Hu. unfold resolve, unamb_b in *. pose proof Hst as [Hun Hpf _ _]. rewrite <- Hun.
  destruct (r_units r !! s) as [d|]; [reflexivity|].
  apply andb_prop in Hu as [Hu1 Hu2].
  rewrite <- (parse_same r r' s Hst Hu1).
  destruct (parse_unit_name r s) as [|[p u] l] eqn:E; [reflexivity|].
  destruct (String.eqb p "") eqn:Ep; [reflexivity|].
  unfold prefixed_def. rewrite <- Hun, <- Hpf.
  destruct (r_prefixes r !! p) as [pd|]; [|reflexivity]. destruct (r_units r !! u) as [ud|]; [|reflexivity].
  destruct (negb (u_multiplicative ud)); [reflexivity|].
  assert (unamb1 r (p ++ u) = true) as Hpu.
  { pose proof (parse_head_in r s p u l E) as Hin.
    destruct (triplets r s) as [|[p0 u0] t] eqn:Et; [inversion Hin|].
    assert ((p, u) = (p0, u0)) as [= <- <-].
    { apply (unamb1_all r s (p0, u0) Hu1); rewrite Et; [left | exact Hin]. }
    rewrite Ep in Hu2. exact Hu2. }
  rewrite (get_symbol_same r r' (p ++ u) Hst Hpu). reflexivity.
Qed.


(* ------------------------------------------------------------------ part 7 *)
Arguments eval_factor : simpl never.

Lemma foldM_ext_in {A B} (g g' : A → B → res A) l : ∀ a,
  (∀ a b, b ∈ l → g a b = g' a b) → foldM g l a = foldM g' l a.
Proof.
  induction l as [|b l IH]; intros a H; [reflexivity|]. cbn [foldM].
  rewrite (H a b) by left. destruct (g' a b) as [a'|e]; [|reflexivity]. cbn [rbind].
  apply IH. intros a0 b0 Hb. apply H. right. exact Hb.
Qed.

Definition root_step (f : nat) (r : reg) (x : Qc) (acc : racc) (kv : string * Qc) : res racc :=
  let '(key, v) := kv in let exp2 := (x * v)%Qc in
  d ←r resolve r key;
  if u_base d then Ok (RAcc (ra_F acc) (uc_add (ra_B acc) (u_name d) exp2) (ra_exact acc))
  else root_rec f r (map_to_list (u_ref d)) exp2
         (RAcc (if bool_decide (u_scale d = 1%Qc) && negb (u_float d) then ra_F acc else uc_add (ra_F acc) (u_name d) exp2)
               (ra_B acc) (ra_exact acc && (is_int exp2 && negb (u_float d)))).
Lemma root_rec_S f r l x acc : root_rec (S f) r l x acc = foldM (root_step f r x) l acc.
Proof. reflexivity. Qed.
Lemma root_rec_0 r l x acc : root_rec 0 r l x acc = Err EFuel.
Proof. reflexivity. Qed.
Lemma dim_rec_0 r l x acc : dim_rec 0 r l x acc = Err EFuel.
Proof. reflexivity. Qed.

Section Agree.
  Context (r r' : reg) (l : list string).
  Context (Hst : same_tables r r') (Hcl : closed_b r l = true).

  Lemma closed_dim s ref : s ∈ l → is_dim s = true → r_dims r !! s = Some (DDerived ref) →
    ∀ kv, kv ∈ map_to_list ref → kv.1 ∈ l.
  Proof.
    intros Hs Hd Hr kv Hkv. unfold closed_b in Hcl. rewrite forallb_forall in Hcl.
    specialize (Hcl s ltac:(apply elem_of_list_In; exact Hs)). cbv beta in Hcl. rewrite Hd, Hr in Hcl.
    apply andb_prop in Hcl as [Hcl _]. rewrite forallb_forall in Hcl. specialize (Hcl kv ltac:(apply elem_of_list_In; exact Hkv)).
    apply bool_decide_eq_true in Hcl. exact Hcl.
  Qed.
  Lemma closed_unit s : s ∈ l →
    unamb_b r s = true ∧ ∀ d, resolve r s = Ok d → unamb_b r (u_name d) = true ∧ ∀ kv, kv ∈ map_to_list (u_ref d) → kv.1 ∈ l.
  Proof.
    intros Hs. unfold closed_b in Hcl. rewrite forallb_forall in Hcl.
    specialize (Hcl s ltac:(apply elem_of_list_In; exact Hs)). cbv beta in Hcl.
    apply andb_prop in Hcl as [_ Hcl]. apply andb_prop in Hcl as [H1 H2]. split; [exact H1|]. intros d Hr. rewrite Hr in H2.
    apply andb_prop in H2 as [H2 H3]. split; [exact H2|]. intros kv Hkv.
    rewrite forallb_forall in H3. specialize (H3 kv ltac:(apply elem_of_list_In; exact Hkv)).
    apply bool_decide_eq_true in H3. exact H3.
  Qed.

  Lemma dim_rec_same f : ∀ ls e acc, (∀ kv, kv ∈ ls → kv.1 ∈ l) → dim_rec f r ls e acc = dim_rec f r' ls e acc.
  Proof.
    induction f as [|f IH]; intros ls e acc Hls; [rewrite !dim_rec_0; reflexivity|].
    rewrite !dim_rec_S. apply foldM_ext_in. intros a [key v] Hkv. unfold dim_step.
    pose proof (Hls _ Hkv) as Hkey. cbn [fst] in Hkey.
    destruct (is_dim key) eqn:Ed.
    - rewrite <- (st_dims _ _ Hst). destruct (r_dims r !! key) as [[|dref]|] eqn:Er; try reflexivity.
      apply IH. apply (closed_dim key dref Hkey Ed Er).
    - destruct (closed_unit key Hkey) as [Hu Hd]. rewrite <- (resolve_same r r' key Hst Hu).
      destruct (resolve r key) as [d|er] eqn:Er; [|reflexivity]. cbn [rbind].
      apply IH. apply (Hd d eq_refl).
  Qed.

  Lemma uc_add_dom (a : uc) k v j : is_Some (uc_add a k v !! j) → j = k ∨ is_Some (a !! j).
  Proof.
    unfold uc_add. destruct (qz _).
    - intros [x Hx]. apply lookup_delete_Some in Hx as [_ Hx]. eauto.
    - destruct (decide (k = j)) as [->|N]; [auto|]. rewrite lookup_insert_ne by assumption. auto.
  Qed.

  (** equality of the recursion, and: every generator put into the factor has one reading *)
  Lemma root_rec_same f : ∀ ls e acc, (∀ kv, kv ∈ ls → kv.1 ∈ l) →
    root_rec f r ls e acc = root_rec f r' ls e acc ∧
    ∀ acc', root_rec f r ls e acc = Ok acc' →
      (∀ k, is_Some (ra_F acc !! k) → unamb_b r k = true) → (∀ k, is_Some (ra_F acc' !! k) → unamb_b r k = true).
  Proof.
    induction f as [|f IH]; intros ls e acc Hls; [rewrite !root_rec_0; split; [reflexivity | discriminate]|].
    rewrite !root_rec_S.
    assert (Hstep : ∀ a kv, kv ∈ ls →
      root_step f r e a kv = root_step f r' e a kv ∧
      ∀ a', root_step f r e a kv = Ok a' →
        (∀ k, is_Some (ra_F a !! k) → unamb_b r k = true) → (∀ k, is_Some (ra_F a' !! k) → unamb_b r k = true)).
    { intros a [key v] Hkv. unfold root_step. pose proof (Hls _ Hkv) as Hkey. cbn [fst] in Hkey.
      { destruct (closed_unit key Hkey) as [Hu Hd]. rewrite <- (resolve_same r r' key Hst Hu).
        destruct (resolve r key) as [d|er] eqn:Er; [|split; [reflexivity | discriminate]]. cbn [rbind].
        destruct (Hd d eq_refl) as [Hn Hrefs].
        destruct (u_base d).
        + split; [reflexivity|]. intros a' [= <-] Ha. exact Ha.
        + destruct (IH (map_to_list (u_ref d)) (e * v)%Qc
                       (RAcc (if bool_decide (u_scale d = 1%Qc) && negb (u_float d) then ra_F a else uc_add (ra_F a) (u_name d) (e * v)%Qc)
                             (ra_B a) (ra_exact a && (is_int (e * v)%Qc && negb (u_float d)))) Hrefs) as [E1 E2].
          split; [exact E1|]. intros a' Ha' Ha. apply (E2 a' Ha'). cbn [ra_F].
          intros k Hk. destruct (_ && _); [apply Ha; exact Hk|].
          apply uc_add_dom in Hk as [->|Hk]; [exact Hn | apply Ha; exact Hk]. } }
    clear IH. revert acc. induction ls as [|kv ls IHl]; intros acc.
    - split; [reflexivity|]. intros acc' [= <-] H. exact H.
    - cbn [foldM]. destruct (Hstep acc kv ltac:(left)) as [E1 E2]. rewrite <- E1.
      destruct (root_step f r e acc kv) as [a1|er]; [|split; [reflexivity | discriminate]]. cbn [rbind].
      destruct (IHl (λ kv' H, Hls kv' ltac:(right; exact H)) (λ a kv' H, Hstep a kv' ltac:(right; exact H)) a1) as [F1 F2].
      split; [exact F1|]. intros acc' Hacc' Hacc. apply (F2 acc' Hacc'). apply (E2 a1 eq_refl Hacc).
  Qed.

  Lemma eval_factor_same F : (∀ k, is_Some (F !! k) → unamb_b r k = true) → eval_factor r F = eval_factor r' F.
  Proof.
    intros H. unfold eval_factor. apply foldM_ext_in. intros a [g e] Hge.
    assert (unamb_b r g = true) as Hu by (apply H; apply elem_of_map_to_list in Hge; eauto).
    rewrite <- (resolve_same r r' g Hst Hu). reflexivity.
  Qed.

  Theorem meaning_same n : n ∈ l → meaning r n = meaning r' n.
  Proof.
    intros Hn. unfold meaning, root_of, root_sym, dim_of.
    assert (∀ kv, kv ∈ map_to_list ({[ n := 1%Qc ]} : uc) → kv.1 ∈ l) as Hls.
    { intros kv Hkv. rewrite map_to_list_singleton in Hkv. apply elem_of_list_singleton in Hkv as ->. exact Hn. }
    change (reg_fuel r') with (reg_fuel r).
    destruct (root_rec_same (reg_fuel r) _ 1%Qc (RAcc ∅ ∅ true) Hls) as [E1 E2]. rewrite <- E1.
    rewrite <- (dim_rec_same (reg_fuel r) _ 1%Qc ∅ Hls).
    destruct (root_rec (reg_fuel r) r _ 1%Qc (RAcc ∅ ∅ true)) as [acc|er] eqn:Er; [|reflexivity]. cbn [rbind].
    rewrite <- (eval_factor_same (ra_F acc)); [reflexivity|].
    apply (E2 acc eq_refl). cbn [ra_F]. intros k [x Hx]. rewrite lookup_empty in Hx. discriminate.
  Qed.

  (** the dimensionality of any container over the closed list, dimension names included *)
  Theorem dim_of_same (a : uc) : (∀ k, is_Some (a !! k) → k ∈ l) → dim_of r a = dim_of r' a.
  Proof.
    intros H. unfold dim_of. change (reg_fuel r') with (reg_fuel r).
    rewrite <- (dim_rec_same (reg_fuel r) (map_to_list a) 1%Qc ∅); [reflexivity|].
    intros [k v] Hkv. apply elem_of_map_to_list in Hkv. apply H. cbn [fst]. eauto.
  Qed.
End Agree.

(** * Order independence *)
Theorem elab_perm_tables ds ds' acts r :
  forallb plain ds = true → ds ≡ₚ ds' → mapR pre ds = Ok acts → no_redefinition acts → elab ds = Ok r →
  ∃ r', elab ds' = Ok r' ∧ same_tables r r'.
Proof.
  intros Hp Hperm Hacts Hnr Hr.
  rewrite elab_acts, Hacts in Hr by assumption. cbn [rbind] in Hr. injection Hr as <-.
  destruct (mapR_perm pre ds ds' Hperm acts Hacts) as (acts' & Hacts' & Hpa).
  exists (run_acts acts' empty_reg). split.
  - rewrite elab_acts, Hacts' by (eapply plain_perm; eassumption). reflexivity.
  - apply run_acts_perm; assumption.
Qed.
Theorem meaning_order_independent ds ds' acts r l n :
  forallb plain ds = true → ds ≡ₚ ds' → mapR pre ds = Ok acts → no_redefinition acts →
  elab ds = Ok r → closed_b r l = true → n ∈ l →
  ∃ r', elab ds' = Ok r' ∧ meaning r n = meaning r' n.
Proof.
  intros Hp Hperm Hacts Hnr Hr Hcl Hn.
  destruct (elab_perm_tables ds ds' acts r Hp Hperm Hacts Hnr Hr) as (r' & Hr' & Hst).
  exists r'. split; [exact Hr'|]. apply (meaning_same r r' l Hst Hcl n Hn).
Qed.
Theorem dimensionality_order_independent ds ds' acts r l (a : uc) :
  forallb plain ds = true → ds ≡ₚ ds' → mapR pre ds = Ok acts → no_redefinition acts →
  elab ds = Ok r → closed_b r l = true → (∀ k, is_Some (a !! k) → k ∈ l) →
  ∃ r', elab ds' = Ok r' ∧ dim_of r a = dim_of r' a.
Proof.
  intros Hp Hperm Hacts Hnr Hr Hcl Ha.
  destruct (elab_perm_tables ds ds' acts r Hp Hperm Hacts Hnr Hr) as (r' & Hr' & Hst).
  exists r'. split; [exact Hr'|]. apply (dim_of_same r r' l Hst Hcl a Ha).
Qed.
(** an ill-formed list is ill-formed in every order *)
Theorem elab_perm_err ds ds' e : forallb plain ds = true → ds ≡ₚ ds' → elab ds = Err e → ∃ e', elab ds' = Err e'.
Proof.
  intros Hp Hperm He. rewrite elab_acts in * by (assumption || (eapply plain_perm; eassumption)).
  destruct (mapR pre ds') as [acts'|e'] eqn:E'; [|cbn; eauto].
  destruct (mapR_perm pre ds' ds ltac:(symmetry; exact Hperm) acts' E') as (acts & Ha & _).
  rewrite Ha in He. discriminate.
Qed.


(* ------------------------------------------------------------------ part 8 *)

(** * Ill-formed definitions are never given a meaning *)

(** ** modifiers: which sets select a converter *)
Definition conv_rest (ms : list (string * Qc)) : res conv :=
  match assoc "logbase" ms, assoc "logfactor" ms with
  | Some b, Some f => if Nat.eqb (length ms) 2 then Ok (CLog b f) else Err EValue
  | _, _ => Err EValue
  end.
Lemma conv_of_mods_shape ms :
  conv_of_mods ms =
  match ms with
  | [] => Ok CScale
  | (k, o) :: tl =>
      if String.eqb k "offset"
      then match tl with [] => Ok (if qz o then CScale else COffset o) | _ => conv_rest ms end
      else conv_rest ms
  end.
Proof.
  destruct ms as [|[k o] tl]; [reflexivity|]. unfold conv_of_mods. fold (conv_rest ((k, o) :: tl)).
  generalize (conv_rest ((k, o) :: tl)). intros C.
  do 6 (destruct k as [|[[] [] [] [] [] [] [] []] k]; try reflexivity).
  destruct k; reflexivity.
Qed.
Theorem conv_of_mods_ok ms cv : conv_of_mods ms = Ok cv →
  ms = [] ∨ (∃ o, ms = [("offset", o)])
  ∨ (length ms = 2%nat ∧ is_Some (assoc "logbase" ms) ∧ is_Some (assoc "logfactor" ms)).
Proof.
  rewrite conv_of_mods_shape. destruct ms as [|[k o] tl]; [auto|].
  assert (conv_rest ((k, o) :: tl) = Ok cv → length ((k, o) :: tl) = 2%nat ∧ is_Some (assoc "logbase" ((k, o) :: tl)) ∧ is_Some (assoc "logfactor" ((k, o) :: tl))) as Hr.
  { unfold conv_rest. destruct (assoc "logbase" _) as [b|]; [|discriminate]. destruct (assoc "logfactor" _) as [f|]; [|discriminate].
    destruct (Nat.eqb _ 2) eqn:E; [|discriminate]. apply Nat.eqb_eq in E. eauto. }
  destruct (String.eqb k "offset") eqn:Ek.
  - apply String.eqb_eq in Ek as ->. destruct tl; [eauto | intros H; right; right; apply Hr; exact H].
  - intros H. right; right. apply Hr. exact H.
Qed.

(** ** [elab1] rejects: mixed references, non-numeric prefix values, unknown modifier sets *)
Theorem elab1_mixed_err r name rest rhs mods p fl :
  ph_from_tokens rhs = Ok (p, fl) →
  (∃ k, k ∈ ref_keys p ∧ is_dim k = true) → (∃ k, k ∈ ref_keys p ∧ is_dim k = false) →
  ∃ e, elab1 r (RUnit (name :: rest) rhs mods) = Err e.
Proof.
  intros Hph (k1 & Hk1 & D1) (k2 & Hk2 & D2). rewrite elab1_pre by reflexivity. cbn [pre]. rewrite Hph. cbn [rbind].
  destruct (split_sym_aliases rest) as [sym aliases].
  destruct (foldM _ mods []) as [ms|e]; [|cbn; eauto]. cbn [rbind].
  destruct (conv_of_mods ms) as [cv|e]; [|cbn; eauto]. cbn [rbind].
  fold (ref_keys p).
  assert (length (filter is_dim (ref_keys p)) ≠ 0%nat) as N1.
  { intros E. apply length_zero_iff_nil in E.
    assert (k1 ∈ filter is_dim (ref_keys p)) as H by (apply elem_of_list_filter; split; [rewrite D1; exact I | exact Hk1]).
    rewrite E in H. inversion H. }
  assert (length (filter is_dim (ref_keys p)) ≠ length (ref_keys p)) as N2.
  { assert (¬ Is_true (is_dim k2)) as Hn by (rewrite D2; exact (λ x, x)).
    pose proof (filter_length_lt is_dim (ref_keys p) k2 Hk2 Hn) as H. lia. }
  apply Nat.eqb_neq in N1, N2. rewrite N1, N2. cbn. eauto.
Qed.
Theorem elab1_prefix_value_err r name rest value e :
  num_from_tokens value = Err e → elab1 r (RPrefix (name :: rest) value) = Err e.
Proof. intros H. cbn [elab1]. rewrite H. reflexivity. Qed.
(** a unit expression is not a number *)
Lemma num_from_name s : num_from_tokens [TName s; TEnd] = Err EValue.
Proof.
  unfold num_from_tokens, ph_from_tokens. cbn. rewrite bool_decide_eq_false_2; [reflexivity|].
  unfold ph_of_word. cbn. apply insert_non_empty.
Qed.
Theorem elab1_unknown_modifiers_err r name rest rhs mods ms :
  foldM (λ acc km, v ←r num_from_tokens km.2; Ok (app acc [(km.1, v)])) mods (@nil (string * Qc)) = Ok ms →
  ms ≠ [] → (∀ o, ms ≠ [("offset", o)]) →
  ¬ (length ms = 2%nat ∧ is_Some (assoc "logbase" ms) ∧ is_Some (assoc "logfactor" ms)) →
  ∃ e, elab1 r (RUnit (name :: rest) rhs mods) = Err e.
Proof.
  intros Hms N1 N2 N3. rewrite elab1_pre by reflexivity. cbn [pre].
  destruct (ph_from_tokens rhs) as [[p fl]|e]; [|cbn; eauto]. cbn [rbind].
  destruct (split_sym_aliases rest) as [sym aliases]. rewrite Hms. cbn [rbind].
  destruct (conv_of_mods ms) as [cv|e] eqn:E; [|cbn; eauto].
  exfalso. destruct (conv_of_mods_ok ms cv E) as [?|[[o ?]|?]]; [congruence | apply (N2 o); assumption | contradiction].
Qed.

(** ** an undefined reference is an error at first use *)
Lemma foldM_err_elem {A B} (g : A → B → res A) l b : b ∈ l → (∀ a, ∃ e, g a b = Err e) → ∀ a, ∃ e, foldM g l a = Err e.
Proof.
  intros Hb Hg. induction l as [|x l IH]; intros a; [inversion Hb|].
  cbn [foldM]. apply elem_of_cons in Hb as [<-|Hb].
  - destruct (Hg a) as [e ->]. cbn. eauto.
  - destruct (g a x) as [a'|e]; [cbn [rbind]; apply IH; exact Hb | cbn; eauto].
Qed.
Theorem undefined_reference_err r n d k v e :
  resolve r n = Ok d → u_base d = false → u_ref d !! k = Some v → resolve r k = Err e →
  ∃ e', meaning r n = Err e'.
Proof.
  intros Hn Hb Hk He. unfold meaning, root_of, root_sym.
  assert (∃ e', root_rec (reg_fuel r) r (map_to_list ({[ n := 1%Qc ]} : uc)) 1 (RAcc ∅ ∅ true) = Err e') as [e' ->]; [|cbn; eauto].
  rewrite map_to_list_singleton. change (reg_fuel r) with (S 63). rewrite root_rec_S. cbn [foldM].
  unfold root_step at 1. rewrite Hn. cbn [rbind]. rewrite Hb.
  change 63%nat with (S 62). rewrite root_rec_S.
  match goal with |- ∃ e', (rbind ?X _) = _ => assert (∃ e0, X = Err e0) as [e0 ->]; [|cbn; eauto] end.
  apply (foldM_err_elem _ _ (k, v)); [apply elem_of_map_to_list; exact Hk|].
  intros a. unfold root_step. rewrite He. cbn. eauto.
Qed.

(** ** cyclic references never get a meaning: the expansion runs out of fuel or fails earlier *)
Definition cyclic (r : reg) (S : string → Prop) : Prop :=
  ∀ s, S s → ∃ d k v, resolve r s = Ok d ∧ u_base d = false ∧ u_ref d !! k = Some v ∧ S k.
Lemma root_rec_cyclic r S f : cyclic r S → ∀ ls e acc, (∃ kv, kv ∈ ls ∧ S kv.1) → ∃ er, root_rec f r ls e acc = Err er.
Proof.
  intros Hc. induction f as [|f IH]; intros ls e acc (kv & Hkv & Hs); [rewrite root_rec_0; eauto|].
  rewrite root_rec_S. apply (foldM_err_elem _ _ kv Hkv). intros a.
  destruct kv as [s v]. cbn [fst] in Hs. destruct (Hc s Hs) as (d & k & w & Hr & Hb & Hk & Sk).
  unfold root_step. rewrite Hr. cbn [rbind]. rewrite Hb. apply IH.
  exists (k, w). split; [apply elem_of_map_to_list; exact Hk | exact Sk].
Qed.
Theorem cyclic_never_meaningful r S n : cyclic r S → S n → ∀ x, meaning r n ≠ Ok x.
Proof.
  intros Hc Hn x. unfold meaning, root_of, root_sym.
  destruct (root_rec_cyclic r S (reg_fuel r) Hc (map_to_list ({[ n := 1%Qc ]} : uc)) 1 (RAcc ∅ ∅ true)) as [er ->]; [|discriminate].
  exists (n, 1%Qc). split; [rewrite map_to_list_singleton; left | exact Hn].
Qed.


(* ------------------------------------------------------------------ part 9 *)

(** * Literals are read in the registry's numeric kind *)
Lemma is_digit_digit_of a : is_digit a = true → ∃ d, digit_of a = Some d.
Proof. destruct a as [[] [] [] [] [] [] [] []]; try discriminate; intros _; eexists; reflexivity. Qed.
Lemma read_digits_all s : str_forall is_digit_us s = true → ∀ a c, ∃ v n, read_digits s a c = (v, n, "").
Proof.
  induction s as [|x s IH]; intros H a c; [eexists _, _; reflexivity|].
  cbn [str_forall] in H. apply andb_prop in H as [Hx Hs]. cbn [read_digits].
  unfold is_digit_us in Hx. destruct (is_digit x) eqn:Ed.
  - destruct (is_digit_digit_of x Ed) as [d ->]. apply IH. exact Hs.
  - cbn in Hx. destruct (digit_of x); [apply IH; exact Hs|]. rewrite Hx. apply IH. exact Hs.
Qed.
Lemma is_int_inject m : is_int (Q2Qc (inject_Z m)) = true.
Proof.
  unfold is_int. cbn. rewrite Qred_identity; [reflexivity|]. cbn. apply Z.gcd_1_r.
Qed.
(** under [float] a literal stays a Python [int] exactly when it is written with digits only —
    and then it denotes an integer; under Decimal / Fraction every literal has the registry's type.
    The VALUE read ([parse_number]) does not depend on the kind. *)
Theorem literals_in_kind k s :
  (k ≠ KFloat → literal_kind k s = kind_of k)
  ∧ (literal_kind KFloat s = LInt ↔ int_literal s = true)
  ∧ (int_literal s = true → ∀ q, parse_number s = Some q → is_int q = true).
Proof.
  split; [destruct k; [congruence | reflexivity | reflexivity]|]. split.
  - cbn. destruct (int_literal s); split; (congruence || reflexivity).
  - unfold int_literal. intros H q. apply andb_prop in H as [_ H].
    unfold parse_number. destruct (read_digits_all s H 0%Z 0%Z) as (v & n & ->). cbn.
    destruct (n + 0 =? 0)%Z; [discriminate|]. intros [= <-].
    replace (0 - 0)%Z with 0%Z by reflexivity. change (pow10 0) with 1%Qc. rewrite Qcmult_1_r. apply is_int_inject.
Qed.

(** * Names: what the repaired validation guarantees, and what pint lets through (F56) *)
Lemma ident_char_not_space a : is_ident_char a = true → is_space a = false.
Proof. destruct a as [[] [] [] [] [] [] [] []]; try reflexivity; discriminate. Qed.
Lemma nospace_chars s : str_forall (λ a, negb (is_space a)) s = true →
  lstrip s = s ∧ rstrip s = s ∧ contains " "%char s = false.
Proof.
  induction s as [|x s IH]; [auto|]. cbn [str_forall]. intros H. apply andb_prop in H as [Hx Hs].
  destruct (IH Hs) as (I1 & I2 & I3). destruct (is_space x) eqn:Ex; [discriminate|].
  split; [cbn [lstrip]; rewrite Ex; reflexivity|]. split.
  - cbn [rstrip]. rewrite I2, Ex. reflexivity.
  - cbn [contains]. rewrite I3, orb_false_r. apply Ascii.eqb_neq. intros ->. discriminate.
Qed.
Lemma str_forall_impl (p q : ascii → bool) s : (∀ a, p a = true → q a = true) → str_forall p s = true → str_forall q s = true.
Proof.
  intros H. induction s as [|x s IH]; [auto|]. cbn [str_forall]. intros Hs. apply andb_prop in Hs as [H1 H2].
  rewrite (H x H1), (IH H2). reflexivity.
Qed.
Lemma identifier_no_space s : is_identifier s = true → no_space s = true.
Proof.
  destruct s as [|x s]; [discriminate|]. cbn [is_identifier]. intros H. apply andb_prop in H as [Hx Hs].
  assert (str_forall (λ a, negb (is_space a)) (String x s) = true) as Hall.
  { cbn [str_forall]. rewrite (ident_char_not_space x) by (unfold is_ident_char; rewrite Hx; reflexivity). cbn.
    eapply str_forall_impl; [|exact Hs]. intros a Ha. rewrite (ident_char_not_space a Ha). reflexivity. }
  destruct (nospace_chars _ Hall) as (H1 & H2 & H3). unfold no_space, strip. rewrite H1, H2, H3, seqb_refl. reflexivity.
Qed.

Definition def_names (d : defrec) : list string :=
  match d with
  | DefPrefix name _ sym aliases | DefUnit name _ _ sym aliases =>
      name :: match has_symbol sym with Some s => [s] | None => [] end ++ aliases
  | DefDim name | DefDerived name _ => []
  | DefAlias name aliases => name :: aliases
  end.
Lemma ensure_ok b e : ensure b e = Ok tt → b = true.
Proof. destruct b; [reflexivity | discriminate]. Qed.
Lemma rbind_ok {A B} (x : res A) (f : A → res B) y : rbind x f = Ok y → ∃ a, x = Ok a ∧ f a = Ok y.
Proof. destruct x as [a|e]; [eauto | discriminate]. Qed.
Lemma forallb_no_space l : forallb no_space l = true → Forall (λ k, no_space k = true) l.
Proof. intros H. apply Forall_forall. intros x Hx. rewrite forallb_forall in H. apply H. apply elem_of_list_In. exact Hx. Qed.

(** with the symbol test repaired, every spelling a unit / prefix / alias line writes is free of spaces *)
Theorem names_valid_guarded r d r' : elab_def repaired r d = Ok r' → Forall (λ k, no_space k = true) (def_names d).
Proof.
  unfold elab_def. intros H. apply rbind_ok in H as (rd & Hrd & H). apply rbind_ok in H as ([] & Hc & _).
  destruct d as [name value sym aliases | name rhs mods sym aliases | name | name rhs | name aliases]; cbn [def_names]; try constructor.
  - cbn [check_def] in Hc. apply rbind_ok in Hc as ([] & H1 & Hc). apply rbind_ok in Hc as ([] & H2 & H3).
    apply ensure_ok in H1, H3. apply forallb_no_space in H3.
    unfold is_valid_prefix_name in H1. apply orb_prop in H1 as [H1|H1]; [apply identifier_no_space; exact H1 | apply String.eqb_eq in H1 as ->; reflexivity].
  - cbn [check_def] in Hc. apply rbind_ok in Hc as ([] & _ & Hc). apply rbind_ok in Hc as ([] & H2 & H3).
    apply ensure_ok in H3. apply forallb_no_space in H3. apply Forall_app. split; [|exact H3].
    unfold check_symbol in H2. destruct (has_symbol sym) as [s|]; [|constructor].
    apply ensure_ok in H2. repeat constructor. exact H2.
  - destruct rd; try discriminate Hc. cbn [check_def] in Hc.
    apply rbind_ok in Hc as ([p fl] & _ & Hc). apply rbind_ok in Hc as ([] & H1 & _). apply ensure_ok in H1.
    apply identifier_no_space. exact H1.
  - destruct rd; try discriminate Hc. cbn [check_def] in Hc.
    apply rbind_ok in Hc as ([p fl] & _ & Hc). apply rbind_ok in Hc as ([] & _ & Hc). apply rbind_ok in Hc as ([] & _ & Hc).
    apply rbind_ok in Hc as ([] & H2 & H3). apply ensure_ok in H3. apply forallb_no_space in H3. apply Forall_app. split; [|exact H3].
    unfold check_symbol in H2. destruct (has_symbol sym) as [s|]; [|constructor].
    apply ensure_ok in H2. repeat constructor. exact H2.
  - cbn [check_def] in Hc. apply rbind_ok in Hc as ([] & H1 & _). apply ensure_ok in H1. apply identifier_no_space. exact H1.
  - cbn [check_def] in Hc. apply rbind_ok in Hc as ([] & _ & H3). apply ensure_ok in H3. apply forallb_no_space. exact H3.
Qed.
(** … pint as it is accepts a symbol with a space and files the unit under it *)
Theorem names_valid_refuted :
  ∃ line r, elab_line pint_quirks empty_reg line = Ok r ∧ ∃ k, is_Some (r_units r !! k) ∧ no_space k = false.
Proof.
  exists "x = 2 * y = a b". eexists. split; [vm_compute; reflexivity|]. exists "a b". split; [|reflexivity].
  vm_compute. eauto.
Qed.

(* ------------------------------------------------------------------ part 10 *)
Lemma no_redefinition_b_spec acts : no_redefinition_b acts = true → no_redefinition acts.
Proof.
  unfold no_redefinition_b, no_redefinition. intros H. apply andb_prop in H as [H H3]. apply andb_prop in H as [H1 H2].
  apply bool_decide_eq_true in H1, H2, H3. auto.
Qed.

(** the hypotheses of order independence on the definitions regenerated from /repo.  The big
    terms stay behind constants; every computation is a boolean checked by the VM. *)
From PintV Require Import Gen.DefaultDefs.
Definition res_is_ok {A} (x : res A) : bool := match x with Ok _ => true | Err _ => false end.
Definition dflt_elab : reg := match elab default_raw with Ok r => r | Err _ => empty_reg end.
Definition dflt_acts : list action := match mapR pre default_raw with Ok a => a | Err _ => [] end.
Definition dflt_names : list string := ["newton"; "light_year"; "degree_Celsius"; "kilowatt_hour"; "psi"; "knot"].
Definition dflt_facts : bool :=
  res_is_ok (elab default_raw) && res_is_ok (mapR pre default_raw) && forallb plain default_raw
  && no_redefinition_b dflt_acts
  && closed_b dflt_elab (close_refs 8 dflt_elab dflt_names)
  && bool_decide ("kilowatt_hour" ∈ close_refs 8 dflt_elab dflt_names)
  && res_is_ok (meaning dflt_elab "kilowatt_hour")
  && Nat.eqb (length (close_refs 8 dflt_elab dflt_names)) 33.
Lemma dflt_facts_true : dflt_facts = true.
Proof. vm_cast_no_check (eq_refl true). Qed.
Lemma default_order_example :
  ∃ r r', elab default_raw = Ok r ∧ elab (rev default_raw) = Ok r'
    ∧ meaning r "kilowatt_hour" = meaning r' "kilowatt_hour" ∧ res_is_ok (meaning r "kilowatt_hour") = true
    ∧ length (close_refs 8 r dflt_names) = 33%nat.
Proof.
  (* no [auto]/[assumption]/[discriminate] without argument here: they would try to convert
     the big boolean computations with the lazy machine *)
  pose proof dflt_facts_true as H. unfold dflt_facts in H.
  apply andb_prop in H as [H F8]. apply andb_prop in H as [H F7]. apply andb_prop in H as [H F6].
  apply andb_prop in H as [H F5]. apply andb_prop in H as [H F4]. apply andb_prop in H as [H F3].
  apply andb_prop in H as [F1 F2].
  assert (elab default_raw = Ok dflt_elab) as Er.
  { unfold dflt_elab. destruct (elab default_raw) as [r|e] eqn:E; [reflexivity | discriminate F1]. }
  assert (mapR pre default_raw = Ok dflt_acts) as Ea.
  { unfold dflt_acts. destruct (mapR pre default_raw) as [a|e] eqn:E; [reflexivity | discriminate F2]. }
  apply bool_decide_eq_true in F6. apply Nat.eqb_eq in F8.
  destruct (meaning_order_independent default_raw (rev default_raw) dflt_acts dflt_elab _ "kilowatt_hour"
              F3 (Permutation_rev _) Ea (no_redefinition_b_spec _ F4) Er F5 F6) as (r' & Hr' & Hm).
  exists dflt_elab, r'. split; [exact Er|]. split; [exact Hr'|]. split; [exact Hm|]. split; [exact F7 | exact F8].
Qed.
