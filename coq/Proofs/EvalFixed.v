(** Proofs/EvalFixed.v — the parser round trip for the REPAIRED tree builder [go_p false pe] /
    [build_p false pe] (the "(" branch after the fix of F16: an implicit operation before a parenthesised
    group obeys the priority test).  The proof is the one of Proofs/EvalProofs.v with the
    step lemmas of the repaired "(" branch; the juxtaposition restriction of [legal] shrinks to
    "the right operand does not start with a sign". *)
From Coq Require Import ZArith Lia ZifyBool.
From PintV Require Import Model.UC Model.Eval Model.Grammar Model.EvalRun Proofs.EvalSteps Proofs.EvalProofs.
Open Scope string_scope.
Open Scope nat_scope.
Open Scope list_scope.

Local Arguments go_p : simpl never.

(** the follower of an operand, for the repaired builder: an implicit operation may also be
    announced by an opening parenthesis *)
Definition opnd_start (t : tok) : bool := is_atom_tok t || bool_decide (t = TOp "(").
Definition followsf (post : list tok) (F : fol) : Prop :=
  match F with
  | FEnd => post = [TEnd] ∨ post = [TOther; TEnd]
  | FClose => ∃ rest, post = TOp ")" :: rest
  | FOp OJuxt => ∃ a rest, post = a :: rest ∧ opnd_start a = true
  | FOp o => ∃ rest, post = TOp (opstr o) :: rest
  end.
(** the first token of the rendering is a NUMBER, a NAME or "(" *)
Fixpoint starts_opnd (e : expr) : bool :=
  match e with
  | Num _ | Name _ | Par _ => true
  | Grammar.Bin _ l _ => starts_opnd l
  | Neg _ | Pos _ => false
  end.
(** Python's grammar with juxtaposition as a [term] operator whose right operand may be any
    [factor] not starting with a sign — in particular a parenthesised group *)
Fixpoint wfpf (e : expr) : bool :=
  match e with
  | Num _ | Name _ => true
  | Par x => wfpf x
  | Neg x | Pos x => wfpf x && Nat.leb 2 (lvl x)
  | Grammar.Bin o l r =>
      wfpf l && wfpf r &&
      (if is_pow o then Nat.eqb (lvl l) 4 && Nat.leb 2 (lvl r)
       else Nat.leb (olvl o) (lvl l) && Nat.ltb (olvl o) (lvl r)) &&
      (if bool_decide (o = OJuxt) then starts_opnd r else true)
  end.
Lemma starts_opnd_render e :
  starts_opnd e = true → ∃ a rest, render_cst e = a :: rest ∧ opnd_start a = true.
Proof.
  induction e; simpl; try discriminate.
  - intros _. by exists (TNum s), [].
  - intros _. by exists (TName s), [].
  - intros H. destruct (IHe1 H) as (a & rest & -> & Ha). by exists a, (rest ++ optok o ++ render_cst e2).
  - intros _. by exists (TOp "("), (render_cst e ++ [TOp ")"]).
Qed.
Lemma followsf_nonempty post F : followsf post F → ∃ t rest, post = t :: rest.
Proof.
  destruct F as [| |o]; simpl.
  - intros [-> | ->]; eauto.
  - intros (rest & ->); eauto.
  - destruct o; try (intros (rest & ->); eauto); intros (a & rest & -> & _); eauto.
Qed.

Lemma sub_return_f pe (toks pre0 : list tok) t0 post F c' d' r f :
  toks = (pre0 ++ [t0]) ++ post → t0 ≠ TEnd →
  followsf post F → is_sub c' = true → flvl F ≤ crl c' → 2 ≤ f →
  ∃ j, go_p false pe op_priority toks f (length (pre0 ++ [t0])) d' (cstr c') (Some r) = Ok (r, j) ∧
       ∀ f2 d c R, 2 ≤ f2 →
         tail_of false pe op_priority toks f2 d (cstr c) R j
         = go_p false pe op_priority toks f2 (length (pre0 ++ [t0])) d (cstr c) R.
Proof.
  intros Htoks Ht0 HF Hsub Hlvl Hf.
  set (pos := length (pre0 ++ [t0])).
  assert (Hpos : pos = length pre0 + 1) by (unfold pos; rewrite app_length; simpl; lia).
  assert (Hprev : tok_at toks (length pre0) = Some t0).
  { apply (tok_at_mid _ _ _ post). by rewrite Htoks, <- app_assoc. }
  destruct (followsf_nonempty _ _ HF) as (t & rest & Hpost).
  assert (Hcur : tok_at toks pos = Some t).
  { apply (tok_at_mid _ _ _ rest). by rewrite Htoks, Hpost. }
  assert (Hn : ntoks toks = pos + S (length rest)).
  { rewrite (ntoks_app _ _ _ Htoks), Hpost. simpl. unfold pos. lia. }
  (* returning [pos - 1]: the caller's tail looks at t0 and moves on to pos *)
  assert (Hback : ∀ f2 d c R,
             tail_of false pe op_priority toks f2 d (cstr c) R (pred pos)
             = go_p false pe op_priority toks f2 pos d (cstr c) R).
  { intros. unfold tail_of. replace (pred pos) with (length pre0) by lia. rewrite Hprev.
    replace (length pre0 + 1) with pos by lia.
    assert (Hle : Nat.leb (ntoks toks) pos = false) by (apply Nat.leb_gt; lia).
    rewrite Hle. destruct t0; try reflexivity; congruence. }
  assert (Hnn : String.eqb (cstr c') "<none>" = false ∧ String.eqb (cstr c') "(" = false).
  { destruct c' as [| | |o]; try discriminate; [done|]. by destruct o. }
  destruct Hnn as [Hnn1 Hnn2].
  destruct f as [|f]; [lia|].
  destruct F as [| |o]; simpl in HF.
  - (* end of input *)
    destruct HF as [-> | ->].
    + injection Hpost as <- <-.
      exists pos. split.
      * rewrite  (go_skip _ _ _ _ _ _ _ _ _ TEnd Hcur) by auto.
        unfold tail_of. rewrite Hcur, Hnn2. done.
      * intros f2 d c R Hf2. destruct f2 as [|f2]; [lia|].
        rewrite  (go_skip _ _ _ _ _ _ _ _ _ TEnd Hcur) by auto. unfold tail_of. rewrite Hcur. done.
    + injection Hpost as <- <-.
      assert (Hend : tok_at toks (pos + 1) = Some TEnd).
      { replace (pos + 1) with (length ((pre0 ++ [t0]) ++ [TOther])) by (rewrite app_length; simpl; lia).
        apply (tok_at_mid _ _ _ []). rewrite Htoks, <- !app_assoc. done. }
      assert (Hle : Nat.leb (ntoks toks) (pos + 1) = false) by (apply Nat.leb_gt; simpl in Hn; lia).
      assert (Hgo : ∀ f3 d c R, go_p false pe op_priority toks (S (S f3)) pos d (cstr c) R
                     = if String.eqb (cstr c) "(" then Err EUnclosed
                       else match R with None => Err EAssert | Some r => Ok (r, pos + 1) end).
      { intros. rewrite  (go_skip _ _ _ _ _ _ _ _ _ TOther Hcur) by auto.
        unfold tail_of at 1. rewrite Hcur, Hle.
        rewrite  (go_skip _ _ _ _ _ _ _ _ _ TEnd Hend) by auto.
        unfold tail_of. rewrite Hend. done. }
      exists (pos + 1). split.
      * destruct f as [|f]; [lia|]. rewrite Hgo, Hnn2. done.
      * intros f2 d c R Hf2. destruct f2 as [|[|f2]]; try lia.
        rewrite Hgo. unfold tail_of. rewrite Hend. done.
  - (* closing parenthesis of an enclosing group *)
    destruct HF as (rest' & ->). injection Hpost as <- <-.
    exists (pred pos). split; [|intros; apply Hback].
    rewrite  (go_close _ _ _ _ _ _ _ _ _ Hcur), Hnn1, Hnn2. done.
  - (* an operator of an enclosing call *)
    exists (pred pos). split; [|intros; apply Hback].
    assert (Hstop : op_ends pe (bprio o) (cprio c') (opstr o) = true ∧ Z.leb (bprio o) (cprio c') = true).
    { destruct pe; (destruct c' as [| | |o']; try discriminate; simpl in Hlvl; destruct o; simpl in Hlvl; try lia;
        try (split; reflexivity); destruct o'; simpl in Hlvl; try lia; split; reflexivity). }
    destruct Hstop as [Hstop Hleb].
    destruct (decide (o = OJuxt)) as [-> | Hj].
    + destruct HF as (a & rest' & -> & Ha). injection Hpost as <- <-.
      assert (Hstep : go_p false pe op_priority toks (S f) pos d' (cstr c') (Some r) =
                if Z.leb (prio_d op_priority "") (prio_d op_priority (cstr c')) then Ok (r, pred pos)
                else match go_p false pe op_priority toks f pos (d' + 1) "" None with
                     | Err e => Err e
                     | Ok (rt, i') => tail_of false pe op_priority toks f d' (cstr c') (Some (Eval.Bin "" r rt)) i'
                     end).
      { unfold opnd_start in Ha. apply orb_true_iff in Ha as [Ha | Ha].
        - apply (go_atom_some _ _ _ _ _ _ _ _ _ _ Hcur Ha).
        - apply bool_decide_eq_true in Ha. rewrite Ha in Hcur. apply (go_open_some_prio _ _ _ _ _ _ _ _ _ eq_refl Hcur). }
      rewrite Hstep.
      change "" with (opstr OJuxt). rewrite prio_d_cstr.
      unfold prio_d. rewrite prio_opstr. simpl.
      simpl in Hleb. rewrite Hleb. done.
    + assert (HF' : ∃ rest', post = TOp (opstr o) :: rest') by (destruct o; try done).
      destruct HF' as (rest' & ->). injection Hpost as <- <-.
      rewrite  (go_op _ _ _ _ _ _ _ _ _ _ Hcur (opstr_not_paren _ Hj)).
      rewrite prio_opstr, prio_d_cstr, Hstop. done.
Qed.

Lemma wfpf_bin o l r : wfpf (Bin o l r) = true →
  wfpf l = true ∧ wfpf r = true ∧
  (if is_pow o then lvl l = 4 ∧ 2 ≤ lvl r else olvl o ≤ lvl l ∧ olvl o < lvl r) ∧
  (o = OJuxt → starts_opnd r = true).
Proof.
  cbn [wfpf]. intros H. apply andb_true_iff in H as [H Hj]. apply andb_true_iff in H as [H Hl].
  apply andb_true_iff in H as [Hwl Hwr]. repeat split; try done.
  - destruct (is_pow o).
    + apply andb_true_iff in Hl as [H1 H2]. apply Nat.eqb_eq in H1. apply Nat.leb_le in H2. done.
    + apply andb_true_iff in Hl as [H1 H2]. apply Nat.leb_le in H1. apply Nat.ltb_lt in H2. done.
  - intros ->. done.
Qed.

Lemma gf_render pe e : ∀ c (toks pre post : list tok) F d f g,
  wfpf e = true → clvl c ≤ lvl e → followsf post F → flvl F ≤ lvl e →
  toks = pre ++ render_cst e ++ post →
  need e ≤ f → g = steps e + f →
  go_p false pe op_priority toks g (length pre) d (cstr c) None
  = go_p false pe op_priority toks f (length pre + ntok e) d (cstr c) (Some (tree_of e)).
Proof.
  induction e as [s|s|x IH|x IH|o l IHl r IHr|x IH];
    intros c toks pre post F d f g Hwf Hc HF Hfl Htoks Hneed ->;
    [simpl in *..| |simpl in *].
  - (* number *)
    destruct (followsf_nonempty _ _ HF) as (t & rest & ->).
    assert (Hcur : tok_at toks (length pre) = Some (TNum s)) by (by apply (tok_at_mid _ _ _ (t :: rest))).
    rewrite  (go_atom_none _ _ _ _ _ _ _ _ _ Hcur eq_refl). unfold tail_of. rewrite Hcur.
    assert (Hle : Nat.leb (ntoks toks) (length pre + 1) = false).
    { apply Nat.leb_gt. rewrite (ntoks_app _ _ _ Htoks). simpl. lia. }
    by rewrite Hle.
  - (* name *)
    destruct (followsf_nonempty _ _ HF) as (t & rest & ->).
    assert (Hcur : tok_at toks (length pre) = Some (TName s)) by (by apply (tok_at_mid _ _ _ (t :: rest))).
    rewrite  (go_atom_none _ _ _ _ _ _ _ _ _ Hcur eq_refl). unfold tail_of. rewrite Hcur.
    assert (Hle : Nat.leb (ntoks toks) (length pre + 1) = false).
    { apply Nat.leb_gt. rewrite (ntoks_app _ _ _ Htoks). simpl. lia. }
    by rewrite Hle.
  - (* unary - *)
    apply andb_true_iff in Hwf as [Hwx Hlx'].
    assert (Hlx : 2 ≤ lvl x) by (destruct (lvl x) as [|[|]]; [discriminate..|lia]). clear Hlx'.
    assert (Hcur : tok_at toks (length pre) = Some (TOp "-")).
    { eapply tok_at_mid. rewrite Htoks. simpl. reflexivity. }
    rewrite  (go_op _ _ _ _ _ _ _ _ _ _ Hcur eq_refl).
    change (prio op_priority "-") with (Some 0%Z). cbv iota beta.
    assert (Htoks' : toks = (pre ++ [TOp "-"]) ++ render_cst x ++ post).
    { rewrite Htoks. simpl. by rewrite <- !app_assoc. }
    assert (Hlen : length (pre ++ [TOp "-"]) = length pre + 1) by (rewrite app_length; simpl; lia).
    rewrite <- Hlen.
    pose proof (need_ge2 x) as Hn2. pose proof (steps_ge1 x) as Hs1.
    pose proof (IH CUn toks (pre ++ [TOp "-"]) post F (d + 1) (f - steps x) f Hwx) as E. simpl cstr in E.
    rewrite E; [ | simpl; lia | exact HF | lia | exact Htoks' | lia | lia]. clear E.
    destruct (render_last x) as (ini & tl & Hrl & Htl).
    assert (Htoks'' : toks = (((pre ++ [TOp "-"]) ++ ini) ++ [tl]) ++ post).
    { rewrite Htoks', Hrl. by rewrite <- !app_assoc. }
    assert (Hpos : length (pre ++ [TOp "-"]) + ntok x = length (((pre ++ [TOp "-"]) ++ ini) ++ [tl])).
    { rewrite <- render_length, Hrl. rewrite !app_length. simpl. lia. }
    rewrite Hpos.
    destruct (sub_return_f pe toks ((pre ++ [TOp "-"]) ++ ini) tl post F CUn (d + 1) (tree_of x) (f - steps x)
                Htoks'' Htl HF eq_refl) as (j & Hj & Hres); [simpl; lia | lia |].
    simpl cstr in Hj. rewrite Hj. rewrite Hres by lia.
    rewrite <- Hpos, Hlen. f_equal. lia.
  - (* unary + *)
    apply andb_true_iff in Hwf as [Hwx Hlx'].
    assert (Hlx : 2 ≤ lvl x) by (destruct (lvl x) as [|[|]]; [discriminate..|lia]). clear Hlx'.
    assert (Hcur : tok_at toks (length pre) = Some (TOp "+")).
    { eapply tok_at_mid. rewrite Htoks. simpl. reflexivity. }
    rewrite  (go_op _ _ _ _ _ _ _ _ _ _ Hcur eq_refl).
    change (prio op_priority "+") with (Some 0%Z). cbv iota beta.
    assert (Htoks' : toks = (pre ++ [TOp "+"]) ++ render_cst x ++ post).
    { rewrite Htoks. simpl. by rewrite <- !app_assoc. }
    assert (Hlen : length (pre ++ [TOp "+"]) = length pre + 1) by (rewrite app_length; simpl; lia).
    rewrite <- Hlen.
    pose proof (need_ge2 x) as Hn2. pose proof (steps_ge1 x) as Hs1.
    pose proof (IH CUn toks (pre ++ [TOp "+"]) post F (d + 1) (f - steps x) f Hwx) as E. simpl cstr in E.
    rewrite E; [ | simpl; lia | exact HF | lia | exact Htoks' | lia | lia]. clear E.
    destruct (render_last x) as (ini & tl & Hrl & Htl).
    assert (Htoks'' : toks = (((pre ++ [TOp "+"]) ++ ini) ++ [tl]) ++ post).
    { rewrite Htoks', Hrl. by rewrite <- !app_assoc. }
    assert (Hpos : length (pre ++ [TOp "+"]) + ntok x = length (((pre ++ [TOp "+"]) ++ ini) ++ [tl])).
    { rewrite <- render_length, Hrl. rewrite !app_length. simpl. lia. }
    rewrite Hpos.
    destruct (sub_return_f pe toks ((pre ++ [TOp "+"]) ++ ini) tl post F CUn (d + 1) (tree_of x) (f - steps x)
                Htoks'' Htl HF eq_refl) as (j & Hj & Hres); [simpl; lia | lia |].
    simpl cstr in Hj. rewrite Hj. rewrite Hres by lia.
    rewrite <- Hpos, Hlen. f_equal. lia.
  - (* binary operator / juxtaposition *)
    apply wfpf_bin in Hwf as (Hwl & Hwr & Hlv & Hjx).
    assert (Hneed' : need l ≤ f ∧ steps r + need r ≤ f) by (cbn [need] in Hneed; lia).
    clear Hneed. destruct Hneed' as [Hneedl Hneedr].
    simpl in Hc, Hfl, Htoks |- *.
    pose proof (need_ge2 l). pose proof (need_ge2 r). pose proof (steps_ge1 r). pose proof (clvl_le2 c).
    assert (Hll : clvl c ≤ lvl l ∧ flvl (FOp o) ≤ lvl l ∧ clvl (COp o) ≤ lvl r ∧ flvl F ≤ lvl r).
    { destruct (flvl_cases F) as [HfF | [HfF | HfF]]; destruct o; simpl in *; lia. }
    destruct Hll as (Hcl & Hfl_l & Hcr & Hfr).
    set (postl := optok o ++ render_cst r ++ post).
    assert (HFl : followsf postl (FOp o)).
    { unfold postl. destruct (decide (o = OJuxt)) as [-> | Hj].
      - simpl. destruct (starts_opnd_render r (Hjx eq_refl)) as (a & rest & -> & Ha).
        exists a, (rest ++ post). done.
      - destruct o; try done; simpl; eauto. }
    assert (Htoksl : toks = pre ++ render_cst l ++ postl).
    { rewrite Htoks. unfold postl. by rewrite <- !app_assoc. }
    replace (steps l + 1 + f) with (steps l + S f) by lia.
    rewrite (IHl c toks pre postl (FOp o) d (S f) _ Hwl Hcl HFl Hfl_l Htoksl) by lia.
    set (posl := length pre + ntok l).
    assert (Hposl : posl = length (pre ++ render_cst l)) by (unfold posl; by rewrite app_length, render_length).
    destruct (render_last r) as (ini & tl & Hrl & Htl).
    destruct (decide (o = OJuxt)) as [-> | Hj].
    + (* juxtaposition: the call for the right operand starts at the same token *)
      simpl in Hfl, Hc.
      destruct (starts_opnd_render r (Hjx eq_refl)) as (a & restr & Hra & Ha).
      assert (Hcur : tok_at toks posl = Some a).
      { apply (tok_at_pos _ (pre ++ render_cst l) _ (restr ++ post)); [|done].
        rewrite Htoksl. unfold postl. simpl. rewrite Hra. by rewrite <- !app_assoc. }
      assert (Hstep : ∀ R, go_p false pe op_priority toks (S f) posl d (cstr c) (Some R) =
                if Z.leb (prio_d op_priority "") (prio_d op_priority (cstr c)) then Ok (R, pred posl)
                else match go_p false pe op_priority toks f posl (d + 1) "" None with
                     | Err e => Err e
                     | Ok (rt, i') => tail_of false pe op_priority toks f d (cstr c) (Some (Eval.Bin "" R rt)) i'
                     end).
      { intros R. unfold opnd_start in Ha. apply orb_true_iff in Ha as [Ha | Ha].
        - apply (go_atom_some _ _ _ _ _ _ _ _ _ _ Hcur Ha).
        - apply bool_decide_eq_true in Ha. rewrite Ha in Hcur. apply (go_open_some_prio _ _ _ _ _ _ _ _ _ eq_refl Hcur). }
      rewrite Hstep.
      simpl opstr. change (prio_d op_priority "") with 1%Z. rewrite prio_d_cstr.
      rewrite (continues_juxt c Hc).
      set (prer := pre ++ render_cst l).
      assert (Htoksr : toks = prer ++ render_cst r ++ post).
      { rewrite Htoks. unfold prer. simpl. by rewrite <- !app_assoc. }
      rewrite Hposl. fold prer.
      pose proof (IHr (COp OJuxt) toks prer post F (d + 1) (f - steps r) f Hwr Hcr HF Hfr Htoksr) as E.
      simpl cstr in E. rewrite E by lia. clear E.
      assert (Htoks'' : toks = ((prer ++ ini) ++ [tl]) ++ post).
      { rewrite Htoksr, Hrl. by rewrite <- !app_assoc. }
      assert (Hpos : length prer + ntok r = length ((prer ++ ini) ++ [tl])).
      { rewrite <- render_length, Hrl. rewrite !app_length. simpl. lia. }
      rewrite Hpos.
      destruct (sub_return_f pe toks (prer ++ ini) tl post F (COp OJuxt) (d + 1) (tree_of r) (f - steps r)
                  Htoks'' Htl HF eq_refl) as (j & Hj' & Hres); [simpl; lia | lia |].
      simpl cstr in Hj'. rewrite Hj'. rewrite Hres by lia.
      rewrite <- Hpos. unfold prer. rewrite <- Hposl. f_equal. unfold posl. simpl. lia.
    + (* explicit operator token *)
      assert (Hcur : tok_at toks posl = Some (TOp (opstr o))).
      { apply (tok_at_pos _ (pre ++ render_cst l) _ (render_cst r ++ post)); [|done].
        rewrite Htoksl. unfold postl. rewrite (optok_explicit _ Hj). by rewrite <- !app_assoc. }
      rewrite  (go_op _ _ _ _ _ _ _ _ _ _ Hcur (opstr_not_paren _ Hj)).
      rewrite prio_opstr, prio_d_cstr, (continues_ok pe c o Hc).
      set (prer := (pre ++ render_cst l) ++ [TOp (opstr o)]).
      assert (Htoksr : toks = prer ++ render_cst r ++ post).
      { rewrite Htoks. unfold prer. rewrite (optok_explicit _ Hj). by rewrite <- !app_assoc. }
      assert (Hlenr : length prer = posl + 1).
      { unfold prer. rewrite app_length, <- Hposl. simpl. lia. }
      rewrite <- Hlenr.
      pose proof (IHr (COp o) toks prer post F (d + 1) (f - steps r) f Hwr Hcr HF Hfr Htoksr) as E.
      simpl cstr in E. rewrite E by lia. clear E.
      assert (Htoks'' : toks = ((prer ++ ini) ++ [tl]) ++ post).
      { rewrite Htoksr, Hrl. by rewrite <- !app_assoc. }
      assert (Hpos : length prer + ntok r = length ((prer ++ ini) ++ [tl])).
      { rewrite <- render_length, Hrl. rewrite !app_length. simpl. lia. }
      rewrite Hpos.
      destruct (sub_return_f pe toks (prer ++ ini) tl post F (COp o) (d + 1) (tree_of r) (f - steps r)
                  Htoks'' Htl HF eq_refl) as (j & Hj' & Hres); [simpl; lia | lia |].
      simpl cstr in Hj'. rewrite Hj'. rewrite Hres by lia.
      rewrite <- Hpos, Hlenr. f_equal. unfold posl. rewrite (optok_explicit _ Hj). simpl. lia.
  - (* parenthesised group *)
    destruct (followsf_nonempty _ _ HF) as (t & rest & ->).
    assert (Hcur : tok_at toks (length pre) = Some (TOp "(")).
    { eapply tok_at_mid. rewrite Htoks. simpl. reflexivity. }
    rewrite (go_open_none _ _ _ _ _ _ _ _ Hcur).
    assert (Htoks' : toks = (pre ++ [TOp "("]) ++ render_cst x ++ (TOp ")" :: t :: rest)).
    { rewrite Htoks. simpl. rewrite <- !app_assoc. simpl. reflexivity. }
    assert (Hlen : length (pre ++ [TOp "("]) = length pre + 1) by (rewrite app_length; simpl; lia).
    rewrite <- Hlen.
    pose proof (IH CPar toks (pre ++ [TOp "("]) (TOp ")" :: t :: rest) FClose 0 (f - steps x) f Hwf) as E.
    simpl cstr in E. rewrite E; [ | simpl; lia | simpl; eauto | simpl; lia | exact Htoks' | lia | lia].
    clear E.
    set (posx := length (pre ++ [TOp "("]) + ntok x).
    assert (Hclose : tok_at toks posx = Some (TOp ")")).
    { apply (tok_at_pos _ ((pre ++ [TOp "("]) ++ render_cst x) _ (t :: rest)).
      - rewrite Htoks'. by rewrite <- !app_assoc.
      - unfold posx. rewrite (app_length _ (render_cst x)), render_length. done. }
    pose proof (need_ge2 x).
    destruct (f - steps x) as [|f'] eqn:Hf'; [lia|].
    rewrite  (go_close _ _ _ _ _ _ _ _ _ Hclose). simpl. rewrite Hclose. simpl.
    unfold tail_of. rewrite Hclose.
    assert (Hle : Nat.leb (ntoks toks) (posx + 1) = false).
    { apply Nat.leb_gt. rewrite (ntoks_app _ _ _ Htoks'). rewrite (app_length (render_cst x)), render_length. simpl. unfold posx. lia. }
    rewrite Hle. f_equal. unfold posx. lia.
Qed.

Theorem parse_render_cst_fixed pe e ending :
  wfpf e = true → ending = [TEnd] ∨ ending = [TOther; TEnd] →
  build_p false pe op_priority (render_cst e ++ ending) = Ok (tree_of e).
Proof.
  intros Hwf Hend. unfold build_p.
  set (toks := render_cst e ++ ending).
  assert (Hlen : length toks = ntok e + length ending) by (unfold toks; by rewrite app_length, render_length).
  pose proof (fuel_bound e) as [Hfb _]. pose proof (need_ge2 e) as Hn2.
  assert (Hel : 1 ≤ length ending ≤ 2) by (destruct Hend as [-> | ->]; simpl; lia).
  pose proof (gf_render pe e CNone toks [] ending FEnd 0 (build_fuel toks - steps e) (build_fuel toks) Hwf) as E.
  simpl length in E. simpl cstr in E.
  rewrite E; [ | simpl; lia | exact Hend | simpl; lia | reflexivity | unfold build_fuel; lia | unfold build_fuel; lia].
  clear E.
  assert (Hf : ∃ f3, build_fuel toks - steps e = S (S f3)).
  { exists (build_fuel toks - steps e - 2). unfold build_fuel. lia. }
  destruct Hf as (f3 & ->).
  assert (Hcur : ∀ t rest, ending = t :: rest → tok_at toks (0 + ntok e) = Some t).
  { intros t rest He. apply (tok_at_pos _ (render_cst e) _ rest); [by rewrite <- He|]. by rewrite render_length. }
  destruct Hend as [-> | ->].
  - rewrite  (go_skip _ _ _ _ _ _ _ _ _ TEnd (Hcur _ _ eq_refl)) by auto.
    unfold tail_of. rewrite (Hcur _ _ eq_refl). done.
  - rewrite  (go_skip _ _ _ _ _ _ _ _ _ TOther (Hcur _ _ eq_refl)) by auto.
    unfold tail_of at 1. rewrite (Hcur _ _ eq_refl).
    assert (Hend : tok_at toks (0 + ntok e + 1) = Some TEnd).
    { apply (tok_at_pos _ (render_cst e ++ [TOther]) _ []).
      - unfold toks. by rewrite <- app_assoc.
      - rewrite app_length, render_length. simpl. lia. }
    assert (Hle : Nat.leb (ntoks toks) (0 + ntok e + 1) = false).
    { apply Nat.leb_gt. unfold ntoks. rewrite Hlen. simpl. lia. }
    rewrite Hle. rewrite  (go_skip _ _ _ _ _ _ _ _ _ TEnd Hend) by auto.
    unfold tail_of. rewrite Hend. done.
Qed.

(** * [parenthesize] produces derivations of the larger grammar *)
Definition juxt_right_ok_f (r : expr) : bool := match r with Neg _ | Pos _ => false | _ => true end.
Fixpoint legal_f (e : expr) : bool :=
  match e with
  | Num _ | Name _ => true
  | Neg x | Pos x | Par x => legal_f x
  | Grammar.Bin o l r => legal_f l && legal_f r &&
                         (if bool_decide (o = OJuxt) then juxt_right_ok_f r else true)
  end.
Lemma wfpf_wrap s p orig e' : wfpf e' = true → wfpf (wrap s p orig e') = true.
Proof. intros H. unfold wrap. by match goal with |- context [if ?b then _ else _] => destruct b end. Qed.
Lemma starts_opnd_lvl4 s e : lvl e = 4 → starts_opnd (parenthesize s e) = true.
Proof. destruct e as [| | | |o| ]; simpl; try done; destruct o; simpl; lia. Qed.
Lemma juxt_right_starts s r :
  juxt_right_ok_f r = true → starts_opnd (wrap s (PRight OJuxt) r (parenthesize s r)) = true.
Proof.
  intros Hr. unfold wrap.
  match goal with |- context [if ?b then _ else _] => destruct b eqn:Hb end; [done|].
  apply orb_false_iff in Hb as [Hn _]. simpl in Hn. apply Nat.leb_gt in Hn.
  destruct r as [| | | |o l r'| ]; try done.
  cbn [parenthesize starts_opnd]. simpl in Hn.
  assert (Hp : is_pow o = true) by (destruct o; simpl in *; try lia; done).
  unfold wrap. match goal with |- context [if ?b then _ else _] => destruct b eqn:Hb end; [done|].
  apply orb_false_iff in Hb as [Hn' _]. simpl in Hn'. rewrite Hp in Hn'. apply Nat.ltb_ge in Hn'.
  apply starts_opnd_lvl4. pose proof (lvl_le4 l). lia.
Qed.
Lemma parenthesize_wfpf s e : legal_f e = true → wfpf (parenthesize s e) = true.
Proof.
  induction e as [t|t|x IH|x IH|o l IHl r IHr|x IH]; cbn [parenthesize wfpf legal_f]; intros Hl; try done.
  - rewrite (wfpf_wrap _ _ _ _ (IH Hl)). cbn [andb].
    pose proof (wrap_needs s PUn x (parenthesize s x) (lvl_parenthesize s x)) as Hn.
    simpl in Hn. apply Nat.ltb_ge in Hn. by apply Nat.leb_le.
  - rewrite (wfpf_wrap _ _ _ _ (IH Hl)). cbn [andb].
    pose proof (wrap_needs s PUn x (parenthesize s x) (lvl_parenthesize s x)) as Hn.
    simpl in Hn. apply Nat.ltb_ge in Hn. by apply Nat.leb_le.
  - apply andb_true_iff in Hl as [Hl Hj]. apply andb_true_iff in Hl as [Hll Hlr].
    rewrite (wfpf_wrap _ _ _ _ (IHl Hll)), (wfpf_wrap _ _ _ _ (IHr Hlr)). cbn [andb].
    pose proof (wrap_needs s (PLeft o) l (parenthesize s l) (lvl_parenthesize s l)) as HnL.
    pose proof (wrap_needs s (PRight o) r (parenthesize s r) (lvl_parenthesize s r)) as HnR.
    apply andb_true_iff. split.
    + set (L := wrap s (PLeft o) l (parenthesize s l)) in *.
      set (R := wrap s (PRight o) r (parenthesize s r)) in *.
      simpl in HnL, HnR. pose proof (lvl_le4 L). destruct (is_pow o).
      * apply Nat.ltb_ge in HnL, HnR. apply andb_true_iff. split; [apply Nat.eqb_eq|apply Nat.leb_le]; lia.
      * apply Nat.ltb_ge in HnL. apply Nat.leb_gt in HnR.
        apply andb_true_iff. split; [apply Nat.leb_le|apply Nat.ltb_lt]; lia.
    + destruct (bool_decide (o = OJuxt)) eqn:Ho; [|done].
      apply bool_decide_eq_true in Ho. subst o. by apply juxt_right_starts.
  - by apply IH.
Qed.

(** * [parse_render] for the repaired builder: every juxtaposition whose right operand does not
    start with a sign, including juxtaposition directly before a parenthesised group *)
Theorem parse_render_fixed pe s e :
  legal_f e = true →
  build_p false pe op_priority (render s e ++ [TEnd]) = Ok (tree_of (strip e)).
Proof.
  intros Hl. unfold render.
  rewrite (parse_render_cst_fixed pe _ [TEnd] (parenthesize_wfpf s e Hl)) by auto.
  by rewrite tree_of_parenthesize, tree_of_strip.
Qed.
(** [legal] (the guard needed for the defective builder) implies [legal_f] *)
Lemma legal_legal_f e : legal e = true → legal_f e = true.
Proof.
  induction e as [| | | |o l IHl r IHr|]; simpl; try done.
  intros H. apply andb_true_iff in H as [H Hj]. apply andb_true_iff in H as [H1 H2].
  rewrite (IHl H1), (IHr H2). simpl. destruct (bool_decide (o = OJuxt)); [|done].
  by destruct r.
Qed.
(** the F16 inputs are now inside the theorem's domain *)
Lemma f16_now_legal :
  legal_f (Grammar.Bin OJuxt (Grammar.Bin ODiv (Num "6") (Num "2")) (Grammar.Bin OAdd (Num "1") (Num "2"))) = true
  ∧ legal (Grammar.Bin OJuxt (Grammar.Bin ODiv (Num "6") (Num "2")) (Grammar.Bin OAdd (Num "1") (Num "2"))) = false
  ∧ render SMin (Grammar.Bin OJuxt (Grammar.Bin ODiv (Num "6") (Num "2")) (Grammar.Bin OAdd (Num "1") (Num "2")))
    = [TNum "6"; TOp "/"; TNum "2"; TOp "("; TNum "1"; TOp "+"; TNum "2"; TOp ")"].
Proof. vm_compute. repeat split. Qed.
