(** Proofs/EvalInv.v — an invariant of every successful call of the tree builder [go], for
    ALL token lists (C07: unbalanced parentheses or a dangling operator never yield a value).
    Proved by induction on the fuel. *)
From Coq Require Import ZArith Lia ZifyBool.
From PintV Require Import Model.UC Model.Eval Proofs.EvalSteps.
Open Scope string_scope.
Open Scope nat_scope.
Open Scope list_scope.

(** * Parenthesis balance of a token list *)
Definition is_open (t : tok) : bool := bool_decide (t = TOp "(").
Definition is_close (t : tok) : bool := bool_decide (t = TOp ")").
Fixpoint bal (l : list tok) (n : nat) : option nat :=
  match l with
  | [] => Some n
  | t :: l' =>
      if is_open t then bal l' (S n)
      else if is_close t then match n with O => None | S n' => bal l' n' end
      else bal l' n
  end.
(** balanced: never more ")" than "(" in a prefix, and equal numbers in total *)
Definition balanced (l : list tok) : Prop := bal l 0 = Some 0.

(** * "The significant tokens so far end with an operand" *)
Definition opnd_step (tbl : list (string * Z)) (b : bool) (t : tok) : bool :=
  match t with
  | TNum _ | TName _ => true
  | TOp s => if String.eqb s ")" then true
             else if String.eqb s "(" then false
             else match prio tbl s with Some _ => false | None => b end
  | TOther | TEnd => b
  end.
Definition opnd (tbl : list (string * Z)) (l : list tok) (b : bool) : bool :=
  fold_left (opnd_step tbl) l b.

(** the table is sane: priorities are non-negative, "<none>" is not an operator, the implicit
    operator has a priority *)
Definition tbl_okb (tbl : list (string * Z)) : bool :=
  forallb (λ kp : string * Z, Z.leb 0 kp.2 && negb (String.eqb kp.1 "<none>")
                              && negb (String.eqb kp.1 "(")) tbl
  && Z.leb 0 (prio_d tbl "").

(** the tokens [i, k) *)
Definition seg (toks : list tok) (i k : nat) : list tok := take (k - i) (drop i toks).

(** how a successful call ended: at ENDMARKER (returned index = its position), at the ")" that
    closes the group this call was made for, or one token before a token an enclosing call
    must look at again *)
Inductive stopcase (toks : list tok) (prev : string) (j k : nat) : Prop :=
| SEnd : tok_at toks k = Some TEnd → j = k → prev ≠ "(" → stopcase toks prev j k
| SClose : tok_at toks k = Some (TOp ")") → j = k → prev = "(" → stopcase toks prev j k
| SBack t : tok_at toks k = Some t → t ≠ TEnd → j = pred k → prev ≠ "(" → prev ≠ "<none>" →
            stopcase toks prev j k.

(** * Lemmas about [bal], [opnd], [seg] *)
Lemma bal_app l1 l2 n : bal (l1 ++ l2) n = bal l1 n ≫= bal l2.
Proof.
  revert n. induction l1 as [|t l1 IH]; intros n; simpl; [done|].
  destruct (is_open t); [apply IH|]. destruct (is_close t); [|apply IH].
  destruct n; [done|apply IH].
Qed.
Lemma bal_shift l n m c : bal l n = Some m → bal l (n + c) = Some (m + c).
Proof.
  revert n. induction l as [|t l IH]; intros n; simpl.
  - intros [= ->]. done.
  - destruct (is_open t); [apply (IH (S n))|]. destruct (is_close t); [|apply IH].
    destruct n as [|n]; [done|]. simpl. apply IH.
Qed.
Lemma balanced_group l1 l2 :
  balanced l1 → balanced l2 → balanced (TOp "(" :: l1 ++ TOp ")" :: l2).
Proof.
  unfold balanced. intros H1 H2. simpl. rewrite bal_app.
  pose proof (bal_shift l1 0 0 1 H1) as E. simpl in E. rewrite E. simpl. exact H2.
Qed.
Lemma balanced_app l1 l2 : balanced l1 → balanced l2 → balanced (l1 ++ l2).
Proof. unfold balanced. intros H1 H2. rewrite bal_app, H1. exact H2. Qed.
Lemma balanced_cons t l : is_open t = false → is_close t = false → balanced l → balanced (t :: l).
Proof. unfold balanced. intros H1 H2 H. simpl. by rewrite H1, H2. Qed.

Lemma opnd_app tbl l1 l2 b : opnd tbl (l1 ++ l2) b = opnd tbl l2 (opnd tbl l1 b).
Proof. unfold opnd. by rewrite fold_left_app. Qed.
Lemma opnd_mono tbl l b : opnd tbl l false = true → opnd tbl l b = true.
Proof.
  destruct b; [|done]. unfold opnd. revert l.
  assert (H : ∀ l b1 b2, (b1 = true → b2 = true) →
              fold_left (opnd_step tbl) l b1 = true → fold_left (opnd_step tbl) l b2 = true).
  { induction l as [|t l IH]; simpl; intros b1 b2 Hb; [exact Hb|].
    apply IH. destruct t as [| |s| |]; simpl; try done.
    destruct (String.eqb s ")"); [done|]. destruct (String.eqb s "("); [done|].
    by destruct (prio tbl s). }
  intros l. by apply H.
Qed.

Lemma drop_nth (l : list tok) i t : nth_error l i = Some t → drop i l = t :: drop (S i) l.
Proof.
  revert i. induction l as [|a l IH]; intros [|i]; simpl; try done.
  - by intros [= ->].
  - apply IH.
Qed.
Lemma seg_nil toks i : seg toks i i = [].
Proof. unfold seg. by rewrite Nat.sub_diag. Qed.
Lemma seg_app toks i m k : i ≤ m → m ≤ k → seg toks i k = seg toks i m ++ seg toks m k.
Proof.
  intros H1 H2. unfold seg.
  replace (k - i) with ((m - i) + (k - m)) by lia.
  rewrite <- take_take_drop, drop_drop. by replace (i + (m - i)) with m by lia.
Qed.
Lemma seg_cons toks i k t : tok_at toks i = Some t → i < k → seg toks i k = t :: seg toks (S i) k.
Proof.
  intros Ht Hik. unfold seg, tok_at in *. rewrite (drop_nth _ _ _ Ht).
  replace (k - i) with (S (k - S i)) by lia. done.
Qed.

(** * The invariant *)
Definition okseg (l : list tok) : Prop := balanced l ∧ TEnd ∉ l.

Lemma go_0 pa pe tbl toks i d p r : go_p pa pe tbl toks 0 i d p r = Err EFuel.
Proof. reflexivity. Qed.
Lemma go_noindex pa pe tbl toks f i d p r : tok_at toks i = None → go_p pa pe tbl toks (S f) i d p r = Err EIndex.
Proof. intros H. simpl. by rewrite H. Qed.
Local Arguments go_p : simpl never.

Lemma assoc_absent {A} key (tbl : list (string * A)) :
  forallb (λ kp : string * A, negb (String.eqb kp.1 key)) tbl = true → assoc key tbl = None.
Proof.
  induction tbl as [|[k v] tbl IH]; [done|]. cbn [forallb assoc fst]. intros H.
  apply andb_true_iff in H as [H1 H2]. apply negb_true_iff in H1.
  rewrite String.eqb_sym, H1. by apply IH.
Qed.
Lemma forallb_weaken {A} (P Q : A → bool) l :
  (∀ x, P x = true → Q x = true) → forallb P l = true → forallb Q l = true.
Proof. intros H. rewrite !forallb_forall. auto. Qed.
Lemma tbl_ok_facts tbl : tbl_okb tbl = true →
  prio tbl "<none>" = None ∧ prio tbl "(" = None ∧
  (∀ o p, prio tbl o = Some p → (0 ≤ p)%Z) ∧ (0 ≤ prio_d tbl "")%Z.
Proof.
  unfold tbl_okb. intros H. apply andb_true_iff in H as [H H0]. apply Z.leb_le in H0.
  repeat split; [| | |exact H0]; clear H0; unfold prio.
  - apply assoc_absent. revert H. apply forallb_weaken. intros [k v] Hx. cbn [fst snd] in *.
    apply andb_true_iff in Hx as [Hx _]. by apply andb_true_iff in Hx as [_ Hx].
  - apply assoc_absent. revert H. apply forallb_weaken. intros [k v] Hx. cbn [fst snd] in *.
    by apply andb_true_iff in Hx as [_ Hx].
  - intros o p. induction tbl as [|[k v] tbl IH]; [done|]. cbn [forallb assoc fst snd] in *.
    apply andb_true_iff in H as [H1 H2]. apply andb_true_iff in H1 as [H1 _].
    apply andb_true_iff in H1 as [H1 _]. apply Z.leb_le in H1.
    destruct (String.eqb o k); [by intros [= <-]|by apply IH].
Qed.

Lemma op_ends_le pe p pp o : op_ends pe p pp o = true → (p ≤ pp)%Z.
Proof.
  unfold op_ends. destruct pe.
  - intros H. apply andb_true_iff in H as [H _]. by apply Z.leb_le.
  - intros H. apply orb_true_iff in H as [H | H]; [apply Z.ltb_lt in H; lia|].
    apply andb_true_iff in H as [H _]. apply Z.eqb_eq in H. lia.
Qed.

Definition is_some {A} (x : option A) : bool := match x with Some _ => true | None => false end.

Definition inv (tbl : list (string * Z)) (toks : list tok) (i : nat) (prev : string) (b : bool)
  (j : nat) : Prop :=
  ∃ k, i ≤ k ∧ (b = false → i < k) ∧ okseg (seg toks i k) ∧
       opnd tbl (seg toks i k) b = true ∧ stopcase toks prev j k.

Lemma okseg_app l1 l2 : okseg l1 → okseg l2 → okseg (l1 ++ l2).
Proof.
  intros [H1 H2] [H3 H4]. split; [by apply balanced_app|].
  rewrite elem_of_app. tauto.
Qed.
Lemma okseg_nil : okseg [].
Proof. split; [done|]. apply not_elem_of_nil. Qed.
Lemma okseg_single t : is_open t = false → is_close t = false → t ≠ TEnd → okseg [t].
Proof.
  intros H1 H2 H3. split; [by apply balanced_cons|].
  intros H%elem_of_list_singleton. congruence.
Qed.
Lemma seg_single toks i t : tok_at toks i = Some t → seg toks i (i + 1) = [t].
Proof.
  intros H. rewrite (seg_cons _ _ _ _ H) by lia. replace (S i) with (i + 1) by lia.
  by rewrite seg_nil.
Qed.
Lemma seg_elem toks i k x c : tok_at toks x = Some c → i ≤ x → x < k → c ∈ seg toks i k.
Proof.
  intros Hc H1 H2. rewrite (seg_app toks i x k) by lia. rewrite (seg_cons _ _ _ _ Hc) by lia.
  rewrite elem_of_app, elem_of_cons. auto.
Qed.

Lemma tail_cases pa pe tbl toks f d prev result i' t j c :
  tok_at toks i' = Some c →
  tail_of pa pe tbl toks f d prev result i' = Ok (t, j) →
  (c = TEnd ∧ j = i' ∧ prev ≠ "(" ∧ result = Some t) ∨
  (c ≠ TEnd ∧ go_p pa pe tbl toks f (i' + 1) d prev result = Ok (t, j)).
Proof.
  intros Hc. unfold tail_of. rewrite Hc.
  destruct c; try (destruct (Nat.leb _ _); [discriminate|]; intros H; right; by split).
  destruct (String.eqb_spec prev "("); [discriminate|].
  destruct result; [|discriminate]. intros [= -> ->]. left. done.
Qed.

Section Inv.
  Context (pa pe : bool) (tbl : list (string * Z)) (toks : list tok) (Htbl : tbl_okb tbl = true).
  Context (f : nat).
  Context (IHf : ∀ i d prev result t j,
              go_p pa pe tbl toks f i d prev result = Ok (t, j) → inv tbl toks i prev (is_some result) j).

  (** the tokens [i, m) are consumed and end with an operand; the loop goes on at m *)
  Lemma continue_inv i m d prev r' t j b :
    i < m → okseg (seg toks i m) → opnd tbl (seg toks i m) b = true →
    go_p pa pe tbl toks f m d prev (Some r') = Ok (t, j) → inv tbl toks i prev b j.
  Proof.
    intros Him Hok Hop Hgo. destruct (IHf _ _ _ _ _ _ Hgo) as (k & Hk & _ & Hok' & Hop' & Hst).
    exists k. split; [lia|]. split; [lia|].
    rewrite (seg_app toks i m k) by lia. split; [by apply okseg_app|]. split; [|done].
    rewrite opnd_app, Hop. exact Hop'.
  Qed.

  (** a token that is skipped *)
  Lemma skip_inv i d prev result t j c :
    tok_at toks i = Some c → is_open c = false → is_close c = false →
    (∀ b, opnd_step tbl b c = b) →
    tail_of pa pe tbl toks f d prev result i = Ok (t, j) → inv tbl toks i prev (is_some result) j.
  Proof.
    intros Hc Ho Hcl Hstep Htail.
    destruct (tail_cases _ _ _ _ _ _ _ _ _ _ _ _ Hc Htail) as [(-> & -> & Hp & ->) | (Hne & Hgo)].
    - exists i. split; [lia|]. split; [done|]. rewrite seg_nil. split; [apply okseg_nil|].
      split; [done|]. by apply SEnd.
    - destruct (IHf _ _ _ _ _ _ Hgo) as (k & Hk & Hk' & Hok' & Hop' & Hst).
      exists k. split; [lia|]. split; [lia|].
      rewrite (seg_cons _ _ _ _ Hc) by lia. replace (S i) with (i + 1) by lia.
      split; [|split; [|done]].
      + destruct Hok' as [H1 H2]. split; [by apply balanced_cons|].
        rewrite elem_of_cons. intros [E | E]; [congruence|done].
      + unfold opnd in *. simpl. by rewrite Hstep.
  Qed.

  (** after a call made for an operand returned *)
  Lemma after_sub i i0 d prev prev' R i' t j b :
    i ≤ i0 → okseg (seg toks i i0) → inv tbl toks i0 prev' false i' → prev' ≠ "(" →
    tail_of pa pe tbl toks f d prev (Some R) i' = Ok (t, j) → inv tbl toks i prev b j.
  Proof.
    intros Hi Hok (k' & Hk1 & Hk2 & Hok' & Hop' & Hst) Hp' Htail.
    specialize (Hk2 eq_refl).
    assert (Hop : opnd tbl (seg toks i k') b = true).
    { rewrite (seg_app toks i i0 k') by lia. rewrite opnd_app. by apply opnd_mono. }
    assert (Hokk : okseg (seg toks i k')).
    { rewrite (seg_app toks i i0 k') by lia. by apply okseg_app. }
    destruct Hst as [Hend -> _ | _ _ Hc | t0 Ht0 Hne -> _ _]; [| done |].
    - destruct (tail_cases _ _ _ _ _ _ _ _ _ _ _ _ Hend Htail) as [(_ & -> & Hp & _) | (Hne & _)]; [|done].
      exists k'. split; [lia|]. split; [lia|]. split; [done|]. split; [done|]. by apply SEnd.
    - assert (Hc : ∃ c, tok_at toks (pred k') = Some c).
      { destruct (tok_at toks (pred k')) as [c|] eqn:E; [eauto|].
        unfold tail_of in Htail. by rewrite E in Htail. }
      destruct Hc as (c & Hc).
      assert (Hcne : c ≠ TEnd).
      { intros ->. destruct Hok' as [_ Hnot]. apply Hnot. apply (seg_elem _ _ _ (pred k')); [done|lia|lia]. }
      destruct (tail_cases _ _ _ _ _ _ _ _ _ _ _ _ Hc Htail) as [(-> & _) | (_ & Hgo)]; [done|].
      replace (pred k' + 1) with k' in Hgo by lia.
      eapply continue_inv with (m := k'); [lia|done|done|exact Hgo].
  Qed.

  Lemma go_inv_step i d prev result t j :
    go_p pa pe tbl toks (S f) i d prev result = Ok (t, j) → inv tbl toks i prev (is_some result) j.
  Proof.
    destruct (tbl_ok_facts _ Htbl) as (Hnone & Hopen & Hpos & Hjuxt).
    assert (Hd1 : prio_d tbl "<none>" = (-1)%Z) by (unfold prio_d; by rewrite Hnone).
    assert (Hd2 : prio_d tbl "(" = (-1)%Z) by (unfold prio_d; by rewrite Hopen).
    destruct (tok_at toks i) as [cur|] eqn:Hcur; [|by rewrite (go_noindex _ _ _ _ _ _ _ _ _ Hcur)].
    assert (Hjx : ∀ r, cur ≠ TEnd →
              (if Z.leb (prio_d tbl "") (prio_d tbl prev) then Ok (r, pred i)
               else match go_p pa pe tbl toks f i (d + 1) "" None with
                    | Err e => Err e
                    | Ok (rt, i') => tail_of pa pe tbl toks f d prev (Some (Eval.Bin "" r rt)) i'
                    end) = Ok (t, j) → inv tbl toks i prev true j).
    { intros r Hne. destruct (Z.leb (prio_d tbl "") (prio_d tbl prev)) eqn:Hleb.
      + intros [= <- <-]. exists i. split; [lia|]. split; [done|]. rewrite seg_nil.
        split; [apply okseg_nil|]. split; [done|].
        apply Z.leb_le in Hleb.
        apply (SBack _ _ _ _ cur); [done|exact Hne|done| |]; intros ->; lia.
      + destruct (go_p pa pe tbl toks f i (d + 1) "" None) as [[rt i']|e] eqn:Hsub; [|discriminate].
        intros Htail. apply IHf in Hsub. simpl in Hsub.
        eapply after_sub with (i0 := i) (prev' := ""); [lia| rewrite seg_nil; apply okseg_nil |exact Hsub|done|exact Htail]. }
    assert (Hatom : is_atom_tok cur = true →
              go_p pa pe tbl toks (S f) i d prev result = Ok (t, j) → inv tbl toks i prev (is_some result) j).
    { intros Ha. destruct result as [r|].
      - rewrite (go_atom_some _ _ _ _ _ _ _ _ _ _ Hcur Ha). apply Hjx. by destruct cur.
      - rewrite (go_atom_none _ _ _ _ _ _ _ _ _ Hcur Ha). intros Htail.
        destruct (tail_cases _ _ _ _ _ _ _ _ _ _ _ _ Hcur Htail) as [(-> & _) | (_ & Hgo)]; [done|].
        eapply continue_inv with (m := i + 1); [lia| | |exact Hgo].
        + rewrite (seg_single _ _ _ Hcur). apply okseg_single; by destruct cur.
        + rewrite (seg_single _ _ _ Hcur). by destruct cur. }
    destruct cur as [s|s|s| |]; [by apply Hatom|by apply Hatom| | |].
    - (* an OP token *)
      destruct (String.eqb_spec s ")") as [-> | Hnc].
      { rewrite (go_close _ _ _ _ _ _ _ _ _ Hcur).
        destruct (String.eqb_spec prev "<none>"); [discriminate|].
        destruct result as [r|]; [|discriminate].
        destruct (String.eqb_spec prev "("); intros [= <- <-];
          (exists i; split; [lia|]; split; [done|]; rewrite seg_nil; split; [apply okseg_nil|]; split; [done|]).
        - by apply SClose.
        - by apply (SBack _ _ _ _ (TOp ")")). }
      destruct (String.eqb_spec s "(") as [-> | Hno].
      { assert (Hgroup : ∀ k : tree → tree,
                  match go_p pa pe tbl toks f (i + 1) 0 "(" None with
                  | Err e => Err e
                  | Ok (rt, i') =>
                      match tok_at toks i' with
                      | None => Err EIndex
                      | Some t0 =>
                          if negb (bool_decide (t0 = TOp ")")) then Err EWeird
                          else tail_of pa pe tbl toks f d prev (Some (k rt)) i'
                      end
                  end = Ok (t, j) → inv tbl toks i prev (is_some result) j).
        { intros k.
        destruct (go_p pa pe tbl toks f (i + 1) 0 "(" None) as [[rt i']|e] eqn:Hsub; [|discriminate].
        apply IHf in Hsub. simpl in Hsub.
        destruct Hsub as (k' & Hk1 & Hk2 & Hok' & Hop' & Hst). specialize (Hk2 eq_refl).
        destruct Hst as [_ _ Hc | Hclose -> _ | t0 _ _ _ Hc _]; [done| |done].
        rewrite Hclose. rewrite bool_decide_eq_true_2 by done. simpl.
        intros Htail.
          destruct (tail_cases _ _ _ _ _ _ _ _ _ _ _ _ Hclose Htail) as [(E & _) | (_ & Hgo)]; [done|].
          eapply continue_inv with (m := k' + 1); [lia| | |exact Hgo].
          - rewrite (seg_cons _ _ _ _ Hcur) by lia. replace (S i) with (i + 1) by lia.
            rewrite (seg_app toks (i + 1) k' (k' + 1)) by lia. rewrite (seg_single _ _ _ Hclose).
            destruct Hok' as [H1 H2]. split.
            + apply (balanced_group _ []); done.
            + rewrite elem_of_cons, elem_of_app, elem_of_list_singleton.
              intros [E | [E | E]]; [done|done|done].
          - rewrite (seg_cons _ _ _ _ Hcur) by lia. replace (S i) with (i + 1) by lia.
            rewrite (seg_app toks (i + 1) k' (k' + 1)) by lia. rewrite (seg_single _ _ _ Hclose).
            unfold opnd. simpl. rewrite fold_left_app. done. }
        destruct result as [r|].
        - destruct pa eqn:Hpa.
          + rewrite (go_open_some_any _ _ _ _ _ _ _ _ _ eq_refl Hcur). apply (Hgroup (λ rt, Eval.Bin "" r rt)).
          + rewrite (go_open_some_prio _ _ _ _ _ _ _ _ _ eq_refl Hcur). apply Hjx. done.
        - rewrite (go_open_none _ _ _ _ _ _ _ _ Hcur). apply (Hgroup (λ rt, rt)). }
      assert (Hnp : not_paren s = true).
      { unfold not_paren. apply andb_true_iff. split; apply negb_true_iff; by apply String.eqb_neq. }
      assert (Hio : is_open (TOp s) = false) by (apply bool_decide_eq_false; congruence).
      assert (Hic : is_close (TOp s) = false) by (apply bool_decide_eq_false; congruence).
      apply String.eqb_neq in Hnc, Hno.
      rewrite (go_op _ _ _ _ _ _ _ _ _ _ Hcur Hnp).
      destruct (prio tbl s) as [p|] eqn:Hp.
      + assert (Hseg1 : okseg (seg toks i (i + 1))).
        { rewrite (seg_single _ _ _ Hcur). by apply okseg_single. }
        destruct result as [r|].
        * destruct (op_ends pe p (prio_d tbl prev) s) eqn:Hstop.
          -- intros [= <- <-]. exists i. split; [lia|]. split; [done|]. rewrite seg_nil.
             split; [apply okseg_nil|]. split; [done|].
             apply op_ends_le in Hstop as Hleb.
             pose proof (Hpos _ _ Hp).
             apply (SBack _ _ _ _ (TOp s)); [done|done|done| |]; intros ->; lia.
          -- destruct (go_p pa pe tbl toks f (i + 1) (d + 1) s None) as [[rt i']|e] eqn:Hsub; [|discriminate].
             intros Htail. apply IHf in Hsub. simpl in Hsub.
             eapply after_sub with (i0 := i + 1) (prev' := s); [lia|done|exact Hsub| |exact Htail].
             intros ->. by rewrite String.eqb_refl in Hno.
        * destruct (go_p pa pe tbl toks f (i + 1) (d + 1) "unary" None) as [[rt i']|e] eqn:Hsub; [|discriminate].
          intros Htail. apply IHf in Hsub. simpl in Hsub.
          eapply after_sub with (i0 := i + 1) (prev' := "unary"); [lia|done|exact Hsub|done|exact Htail].
      + apply (skip_inv i d prev result t j (TOp s) Hcur Hio Hic).
        intros b. simpl. by rewrite Hnc, Hno, Hp.
    - rewrite (go_skip _ _ _ _ _ _ _ _ _ TOther Hcur) by auto.
      by apply (skip_inv i d prev result t j TOther Hcur).
    - rewrite (go_skip _ _ _ _ _ _ _ _ _ TEnd Hcur) by auto.
      by apply (skip_inv i d prev result t j TEnd Hcur).
  Qed.
End Inv.

Theorem go_inv pa pe tbl toks : tbl_okb tbl = true → ∀ f i d prev result t j,
  go_p pa pe tbl toks f i d prev result = Ok (t, j) → inv tbl toks i prev (is_some result) j.
Proof.
  intros Htbl. induction f as [|f IH]; intros i d prev result t j.
  - by rewrite go_0.
  - by apply go_inv_step.
Qed.

(** * Consequences for [build] *)
Theorem build_ok_inv pa pe tbl toks t :
  tbl_okb tbl = true → build_p pa pe tbl toks = Ok t →
  ∃ k, tok_at toks k = Some TEnd ∧ TEnd ∉ take k toks ∧ balanced (take k toks)
       ∧ opnd tbl (take k toks) false = true.
Proof.
  intros Htbl. unfold build_p.
  destruct (go_p pa pe tbl toks (build_fuel toks) 0 0 "<none>" None) as [[t' j]|e] eqn:Hgo; [|discriminate].
  intros _. apply (go_inv _ _ _ _ Htbl) in Hgo. simpl in Hgo.
  destruct Hgo as (k & _ & _ & [Hbal Hnot] & Hop & Hst).
  unfold seg in *. rewrite Nat.sub_0_r in *. simpl in *.
  exists k. destruct Hst as [Hend _ _ | _ _ Hc | t0 _ _ _ _ Hc]; done.
Qed.

Lemma first_end_unique (body rest : list tok) k :
  TEnd ∉ body → tok_at (body ++ TEnd :: rest) k = Some TEnd → TEnd ∉ take k (body ++ TEnd :: rest) →
  take k (body ++ TEnd :: rest) = body.
Proof.
  intros Hb Hk Hnot. unfold tok_at in Hk.
  destruct (Nat.lt_trichotomy k (length body)) as [Hlt | [-> | Hgt]].
  - exfalso. apply Hb. rewrite nth_error_app1 in Hk by lia.
    apply elem_of_list_In. by apply nth_error_In in Hk.
  - by rewrite take_app.
  - exfalso. apply Hnot. rewrite take_app_ge by lia.
    rewrite elem_of_app. right.
    destruct (k - length body) as [|n] eqn:E; [lia|]. simpl. apply elem_of_cons. by left.
Qed.

(** no value on unbalanced parentheses: for EVERY token list *)
Theorem no_value_on_unbalanced_gen pa pe tbl toks t :
  tbl_okb tbl = true → build_p pa pe tbl toks = Ok t →
  ∃ body rest, toks = body ++ TEnd :: rest ∧ TEnd ∉ body ∧ balanced body.
Proof.
  intros Htbl Hb. destruct (build_ok_inv _ _ _ _ _ Htbl Hb) as (k & Hk & Hnot & Hbal & _).
  exists (take k toks), (drop (S k) toks). split; [|done].
  unfold tok_at in Hk. rewrite <- (take_drop k toks) at 1. f_equal.
  by apply drop_nth.
Qed.
Theorem unbalanced_no_value pa pe tbl body :
  tbl_okb tbl = true → TEnd ∉ body → ¬ balanced body → ∀ t, build_p pa pe tbl (body ++ [TEnd]) ≠ Ok t.
Proof.
  intros Htbl Hb Hnb t Hbuild.
  destruct (build_ok_inv _ _ _ _ _ Htbl Hbuild) as (k & Hk & Hnot & Hbal & _).
  rewrite (first_end_unique body [] k Hb Hk Hnot) in Hbal. done.
Qed.

(** no value on a dangling operator: the last significant token before ENDMARKER is an
    operator of the table (binary or unary use) or an opening parenthesis *)
Definition is_operator (tbl : list (string * Z)) (t : tok) : bool :=
  match t with
  | TOp s => negb (String.eqb s ")") && (String.eqb s "(" || bool_decide (prio tbl s ≠ None))
  | _ => false
  end.
Theorem dangling_no_value pa pe tbl body o trail :
  tbl_okb tbl = true → TEnd ∉ body → is_operator tbl o = true → Forall (λ x, x = TOther) trail →
  ∀ t, build_p pa pe tbl (body ++ [o] ++ trail ++ [TEnd]) ≠ Ok t.
Proof.
  intros Htbl Hb Ho Htr t Hbuild.
  destruct (build_ok_inv _ _ _ _ _ Htbl Hbuild) as (k & Hk & Hnot & _ & Hop).
  assert (Hb' : TEnd ∉ body ++ [o] ++ trail).
  { rewrite !elem_of_app. intros [H | [H | H]]; [done| |].
    - apply elem_of_list_singleton in H. subst o. done.
    - rewrite Forall_forall in Htr. by specialize (Htr _ H). }
  replace (body ++ [o] ++ trail ++ [TEnd]) with ((body ++ [o] ++ trail) ++ TEnd :: []) in *
    by (by rewrite <- !app_assoc).
  rewrite (first_end_unique _ [] k Hb' Hk Hnot) in Hop.
  rewrite !opnd_app in Hop.
  assert (Hfalse : opnd tbl [o] (opnd tbl body false) = false).
  { unfold opnd at 1. simpl. destruct o as [| |s| |]; try done. simpl in *.
    apply andb_true_iff in Ho as [H1 H2]. apply negb_true_iff in H1. rewrite H1.
    destruct (String.eqb s "("); [done|]. simpl in H2. apply bool_decide_eq_true in H2.
    by destruct (prio tbl s). }
  rewrite Hfalse in Hop. clear -Hop Htr.
  induction Htr as [|x l -> _ IH]; [done|]. apply IH. exact Hop.
Qed.
