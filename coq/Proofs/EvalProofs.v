(** Proofs/EvalProofs.v — lemmas about the tree builder of Model/Eval.v (C07):
    the parser round trip [parse_render] and its corollaries. *)
From Coq Require Import ZArith Lia ZifyBool.
From PintV Require Import Model.UC Model.Eval Model.Grammar Proofs.EvalSteps.
Open Scope string_scope.
Open Scope nat_scope.
Open Scope list_scope.

Local Arguments go_p : simpl never.

(** * Contexts ([prev_op] values) and followers *)
Inductive ctx := CNone | CPar | CUn | COp (o : bop).
Definition cstr (c : ctx) : string :=
  match c with CNone => "<none>" | CPar => "(" | CUn => "unary" | COp o => opstr o end.
(** the lowest level an operand parsed under [c] may have without parentheses *)
Definition clvl (c : ctx) : nat :=
  match c with
  | CNone | CPar => 0
  | CUn => 2
  | COp o => match olvl o with 0 => 1 | _ => 2 end
  end.
(** the level of the context's own operator (for calls made for an operand) *)
Definition crl (c : ctx) : nat := match c with COp o => olvl o | CUn => 2 | _ => 0 end.
Definition is_sub (c : ctx) : bool := match c with COp _ | CUn => true | _ => false end.

(** what comes after an operand: end of input, a closing parenthesis, or an operator
    ([OJuxt]: a NUMBER/NAME token in operator position) *)
Inductive fol := FEnd | FClose | FOp (o : bop).
Definition flvl (F : fol) : nat :=
  match F with FEnd | FClose => 0 | FOp o => if is_pow o then 4 else olvl o end.
Definition follows (post : list tok) (F : fol) : Prop :=
  match F with
  | FEnd => post = [TEnd] ∨ post = [TOther; TEnd]
  | FClose => ∃ rest, post = TOp ")" :: rest
  | FOp OJuxt => ∃ a rest, post = a :: rest ∧ is_atom_tok a = true
  | FOp o => ∃ rest, post = TOp (opstr o) :: rest
  end.

(** fuel accounting: [steps e] loop iterations are spent in the call that parses [e] itself,
    and [need e] must remain for the calls made for its operands *)
Fixpoint steps (e : expr) : nat :=
  match e with
  | Num _ | Name _ | Neg _ | Pos _ | Par _ => 1
  | Bin _ l _ => steps l + 1
  end.
Fixpoint need (e : expr) : nat :=
  match e with
  | Num _ | Name _ => 2
  | Neg x | Pos x | Par x => steps x + need x
  | Bin _ l r => Nat.max (need l) (steps r + need r)
  end.

(** * List bookkeeping *)
Lemma tok_at_mid (toks pre : list tok) t rest :
  toks = pre ++ t :: rest → tok_at toks (length pre) = Some t.
Proof. intros ->. unfold tok_at. rewrite nth_error_app2 by lia. by rewrite Nat.sub_diag. Qed.

Lemma tok_at_pos (toks pre : list tok) t rest n :
  toks = pre ++ t :: rest → n = length pre → tok_at toks n = Some t.
Proof. intros H ->. by eapply tok_at_mid. Qed.

Lemma ntoks_app (toks pre post : list tok) : toks = pre ++ post → ntoks toks = length pre + length post.
Proof. intros ->. unfold ntoks. by rewrite app_length. Qed.

Lemma render_length e : length (render_cst e) = ntok e.
Proof.
  induction e; simpl; rewrite ?app_length; simpl; rewrite ?app_length; simpl; try lia.
Qed.

Lemma render_last e : ∃ init t, render_cst e = init ++ [t] ∧ t ≠ TEnd.
Proof.
  induction e; simpl.
  - exists [], (TNum s). done.
  - exists [], (TName s). done.
  - destruct IHe as (i & t & -> & H). exists (TOp "-" :: i), t. done.
  - destruct IHe as (i & t & -> & H). exists (TOp "+" :: i), t. done.
  - destruct IHe2 as (i & t & -> & H). exists (render_cst e1 ++ optok o ++ i), t.
    split; [|done]. by rewrite <- !app_assoc.
  - exists (TOp "(" :: render_cst e), (TOp ")"). done.
Qed.

Lemma starts_atom_render e :
  starts_atom e = true → ∃ a rest, render_cst e = a :: rest ∧ is_atom_tok a = true.
Proof.
  induction e; simpl; try discriminate.
  - intros _. by exists (TNum s), [].
  - intros _. by exists (TName s), [].
  - intros H. destruct (IHe1 H) as (a & rest & -> & Ha). by exists a, (rest ++ optok o ++ render_cst e2).
Qed.

Lemma follows_nonempty post F : follows post F → ∃ t rest, post = t :: rest.
Proof.
  destruct F as [| |o]; simpl.
  - intros [-> | ->]; eauto.
  - intros (rest & ->); eauto.
  - destruct o; try (intros (rest & ->); eauto); intros (a & rest & -> & _); eauto.
Qed.

Lemma need_ge2 e : 2 ≤ need e.
Proof. induction e; simpl; lia. Qed.
Lemma steps_ge1 e : 1 ≤ steps e.
Proof. induction e; simpl; lia. Qed.

(** * Table facts *)
Definition bprio (o : bop) : Z :=
  match o with OAdd | OSub => 0 | OPow | OCaret => 3 | _ => 1 end%Z.
Lemma prio_opstr o : prio op_priority (opstr o) = Some (bprio o).
Proof. by destruct o. Qed.
Definition cprio (c : ctx) : Z :=
  match c with CNone | CPar => -1 | CUn => 2 | COp o => bprio o end%Z.
Lemma prio_d_cstr c : prio_d op_priority (cstr c) = cprio c.
Proof. destruct c as [| | |o]; try reflexivity. by destruct o. Qed.
Lemma opstr_not_paren o : o ≠ OJuxt → not_paren (opstr o) = true.
Proof. by destruct o. Qed.
Lemma opstr_pow o : (String.eqb (opstr o) "**" || String.eqb (opstr o) "^") = is_pow o.
Proof. by destruct o. Qed.

(** * Returning from a call made for an operand *)
Lemma sub_return pa pe (toks pre0 : list tok) t0 post F c' d' r f :
  toks = (pre0 ++ [t0]) ++ post → t0 ≠ TEnd →
  follows post F → is_sub c' = true → flvl F ≤ crl c' → 2 ≤ f →
  ∃ j, go_p pa pe op_priority toks f (length (pre0 ++ [t0])) d' (cstr c') (Some r) = Ok (r, j) ∧
       ∀ f2 d c R, 2 ≤ f2 →
         tail_of pa pe op_priority toks f2 d (cstr c) R j
         = go_p pa pe op_priority toks f2 (length (pre0 ++ [t0])) d (cstr c) R.
Proof.
  intros Htoks Ht0 HF Hsub Hlvl Hf.
  set (pos := length (pre0 ++ [t0])).
  assert (Hpos : pos = length pre0 + 1) by (unfold pos; rewrite app_length; simpl; lia).
  assert (Hprev : tok_at toks (length pre0) = Some t0).
  { apply (tok_at_mid _ _ _ post). by rewrite Htoks, <- app_assoc. }
  destruct (follows_nonempty _ _ HF) as (t & rest & Hpost).
  assert (Hcur : tok_at toks pos = Some t).
  { apply (tok_at_mid _ _ _ rest). by rewrite Htoks, Hpost. }
  assert (Hn : ntoks toks = pos + S (length rest)).
  { rewrite (ntoks_app _ _ _ Htoks), Hpost. simpl. unfold pos. lia. }
  (* returning [pos - 1]: the caller's tail looks at t0 and moves on to pos *)
  assert (Hback : ∀ f2 d c R,
             tail_of pa pe op_priority toks f2 d (cstr c) R (pred pos)
             = go_p pa pe op_priority toks f2 pos d (cstr c) R).
  { intros. unfold tail_of. replace (pred pos) with (length pre0) by lia. rewrite Hprev.
    replace (length pre0 + 1) with pos by lia.
    assert (Hle : Nat.leb (ntoks toks) pos = false) by (apply Nat.leb_gt; lia).
    rewrite Hle. destruct t0; try reflexivity; congruence. }
  assert (Hnn : String.eqb (cstr c') "<none>" = false ∧ String.eqb (cstr c') "(" = false).
  { destruct c' as [| | |o]; try discriminate; [done|]. by destruct o. }
  destruct Hnn as [Hnn1 Hnn2].
  destruct f as [|f]; [lia|].
  destruct F as [| |o]; simpl in HF.
  - (* end of input *)
    destruct HF as [-> | ->].
    + injection Hpost as <- <-.
      exists pos. split.
      * rewrite  (go_skip _ _ _ _ _ _ _ _ _ TEnd Hcur) by auto.
        unfold tail_of. rewrite Hcur, Hnn2. done.
      * intros f2 d c R Hf2. destruct f2 as [|f2]; [lia|].
        rewrite  (go_skip _ _ _ _ _ _ _ _ _ TEnd Hcur) by auto. unfold tail_of. rewrite Hcur. done.
    + injection Hpost as <- <-.
      assert (Hend : tok_at toks (pos + 1) = Some TEnd).
      { replace (pos + 1) with (length ((pre0 ++ [t0]) ++ [TOther])) by (rewrite app_length; simpl; lia).
        apply (tok_at_mid _ _ _ []). rewrite Htoks, <- !app_assoc. done. }
      assert (Hle : Nat.leb (ntoks toks) (pos + 1) = false) by (apply Nat.leb_gt; simpl in Hn; lia).
      assert (Hgo : ∀ f3 d c R, go_p pa pe op_priority toks (S (S f3)) pos d (cstr c) R
                     = if String.eqb (cstr c) "(" then Err EUnclosed
                       else match R with None => Err EAssert | Some r => Ok (r, pos + 1) end).
      { intros. rewrite  (go_skip _ _ _ _ _ _ _ _ _ TOther Hcur) by auto.
        unfold tail_of at 1. rewrite Hcur, Hle.
        rewrite  (go_skip _ _ _ _ _ _ _ _ _ TEnd Hend) by auto.
        unfold tail_of. rewrite Hend. done. }
      exists (pos + 1). split.
      * destruct f as [|f]; [lia|]. rewrite Hgo, Hnn2. done.
      * intros f2 d c R Hf2. destruct f2 as [|[|f2]]; try lia.
        rewrite Hgo. unfold tail_of. rewrite Hend. done.
  - (* closing parenthesis of an enclosing group *)
    destruct HF as (rest' & ->). injection Hpost as <- <-.
    exists (pred pos). split; [|intros; apply Hback].
    rewrite  (go_close _ _ _ _ _ _ _ _ _ Hcur), Hnn1, Hnn2. done.
  - (* an operator of an enclosing call *)
    exists (pred pos). split; [|intros; apply Hback].
    assert (Hstop : op_ends pe (bprio o) (cprio c') (opstr o) = true ∧ Z.leb (bprio o) (cprio c') = true).
    { destruct pe; (destruct c' as [| | |o']; try discriminate; simpl in Hlvl; destruct o; simpl in Hlvl; try lia;
        try (split; reflexivity); destruct o'; simpl in Hlvl; try lia; split; reflexivity). }
    destruct Hstop as [Hstop Hleb].
    destruct (decide (o = OJuxt)) as [-> | Hj].
    + destruct HF as (a & rest' & -> & Ha). injection Hpost as <- <-.
      rewrite  (go_atom_some _ _ _ _ _ _ _ _ _ _ Hcur Ha).
      change "" with (opstr OJuxt). rewrite prio_d_cstr.
      unfold prio_d. rewrite prio_opstr. simpl.
      simpl in Hleb. rewrite Hleb. done.
    + assert (HF' : ∃ rest', post = TOp (opstr o) :: rest') by (destruct o; try done).
      destruct HF' as (rest' & ->). injection Hpost as <- <-.
      rewrite  (go_op _ _ _ _ _ _ _ _ _ _ Hcur (opstr_not_paren _ Hj)).
      rewrite prio_opstr, prio_d_cstr, Hstop. done.
Qed.

(** * The main lemma (Appendix A of DESIGN.md) *)
Lemma flvl_cases F : flvl F = 0 ∨ flvl F = 1 ∨ flvl F = 4.
Proof. destruct F as [| |o]; simpl; auto. destruct o; simpl; auto. Qed.

Lemma continues_ok pe c o :
  clvl c ≤ olvl o →
  op_ends pe (bprio o) (cprio c) (opstr o) = false.
Proof.
  destruct pe; destruct c as [| | |o']; destruct o; simpl; intros H; try reflexivity; try lia;
    destruct o'; simpl in *; try reflexivity; lia.
Qed.
Lemma continues_juxt c : clvl c ≤ 1 → Z.leb 1 (cprio c) = false.
Proof. destruct c as [| | |o']; simpl; intros H; try reflexivity; try lia; destruct o'; simpl in *; try reflexivity; lia. Qed.

Lemma wfp_bin o l r : wfp (Bin o l r) = true →
  wfp l = true ∧ wfp r = true ∧
  (if is_pow o then lvl l = 4 ∧ 2 ≤ lvl r else olvl o ≤ lvl l ∧ olvl o < lvl r) ∧
  (o = OJuxt → starts_atom r = true).
Proof.
  cbn [wfp]. intros H. apply andb_true_iff in H as [H Hj]. apply andb_true_iff in H as [H Hl].
  apply andb_true_iff in H as [Hwl Hwr]. repeat split; try done.
  - destruct (is_pow o).
    + apply andb_true_iff in Hl as [H1 H2]. apply Nat.eqb_eq in H1. apply Nat.leb_le in H2. done.
    + apply andb_true_iff in Hl as [H1 H2]. apply Nat.leb_le in H1. apply Nat.ltb_lt in H2. done.
  - intros ->. done.
Qed.
Lemma optok_explicit o : o ≠ OJuxt → optok o = [TOp (opstr o)].
Proof. by destruct o. Qed.
Lemma clvl_le2 c : clvl c ≤ 2.
Proof. destruct c as [| | |o]; simpl; try lia. destruct (olvl o); lia. Qed.

Lemma go_render pa pe e : ∀ c (toks pre post : list tok) F d f g,
  wfp e = true → clvl c ≤ lvl e → follows post F → flvl F ≤ lvl e →
  toks = pre ++ render_cst e ++ post →
  need e ≤ f → g = steps e + f →
  go_p pa pe op_priority toks g (length pre) d (cstr c) None
  = go_p pa pe op_priority toks f (length pre + ntok e) d (cstr c) (Some (tree_of e)).
Proof.
  induction e as [s|s|x IH|x IH|o l IHl r IHr|x IH];
    intros c toks pre post F d f g Hwf Hc HF Hfl Htoks Hneed ->;
    [simpl in *..| |simpl in *].
  - (* number *)
    destruct (follows_nonempty _ _ HF) as (t & rest & ->).
    assert (Hcur : tok_at toks (length pre) = Some (TNum s)) by (by apply (tok_at_mid _ _ _ (t :: rest))).
    rewrite  (go_atom_none _ _ _ _ _ _ _ _ _ Hcur eq_refl). unfold tail_of. rewrite Hcur.
    assert (Hle : Nat.leb (ntoks toks) (length pre + 1) = false).
    { apply Nat.leb_gt. rewrite (ntoks_app _ _ _ Htoks). simpl. lia. }
    by rewrite Hle.
  - (* name *)
    destruct (follows_nonempty _ _ HF) as (t & rest & ->).
    assert (Hcur : tok_at toks (length pre) = Some (TName s)) by (by apply (tok_at_mid _ _ _ (t :: rest))).
    rewrite  (go_atom_none _ _ _ _ _ _ _ _ _ Hcur eq_refl). unfold tail_of. rewrite Hcur.
    assert (Hle : Nat.leb (ntoks toks) (length pre + 1) = false).
    { apply Nat.leb_gt. rewrite (ntoks_app _ _ _ Htoks). simpl. lia. }
    by rewrite Hle.
  - (* unary - *)
    apply andb_true_iff in Hwf as [Hwx Hlx'].
    assert (Hlx : 2 ≤ lvl x) by (destruct (lvl x) as [|[|]]; [discriminate..|lia]). clear Hlx'.
    assert (Hcur : tok_at toks (length pre) = Some (TOp "-")).
    { eapply tok_at_mid. rewrite Htoks. simpl. reflexivity. }
    rewrite  (go_op _ _ _ _ _ _ _ _ _ _ Hcur eq_refl).
    change (prio op_priority "-") with (Some 0%Z). cbv iota beta.
    assert (Htoks' : toks = (pre ++ [TOp "-"]) ++ render_cst x ++ post).
    { rewrite Htoks. simpl. by rewrite <- !app_assoc. }
    assert (Hlen : length (pre ++ [TOp "-"]) = length pre + 1) by (rewrite app_length; simpl; lia).
    rewrite <- Hlen.
    pose proof (need_ge2 x) as Hn2. pose proof (steps_ge1 x) as Hs1.
    pose proof (IH CUn toks (pre ++ [TOp "-"]) post F (d + 1) (f - steps x) f Hwx) as E. simpl cstr in E.
    rewrite E; [ | simpl; lia | exact HF | lia | exact Htoks' | lia | lia]. clear E.
    destruct (render_last x) as (ini & tl & Hrl & Htl).
    assert (Htoks'' : toks = (((pre ++ [TOp "-"]) ++ ini) ++ [tl]) ++ post).
    { rewrite Htoks', Hrl. by rewrite <- !app_assoc. }
    assert (Hpos : length (pre ++ [TOp "-"]) + ntok x = length (((pre ++ [TOp "-"]) ++ ini) ++ [tl])).
    { rewrite <- render_length, Hrl. rewrite !app_length. simpl. lia. }
    rewrite Hpos.
    destruct (sub_return pa pe toks ((pre ++ [TOp "-"]) ++ ini) tl post F CUn (d + 1) (tree_of x) (f - steps x)
                Htoks'' Htl HF eq_refl) as (j & Hj & Hres); [simpl; lia | lia |].
    simpl cstr in Hj. rewrite Hj. rewrite Hres by lia.
    rewrite <- Hpos, Hlen. f_equal. lia.
  - (* unary + *)
    apply andb_true_iff in Hwf as [Hwx Hlx'].
    assert (Hlx : 2 ≤ lvl x) by (destruct (lvl x) as [|[|]]; [discriminate..|lia]). clear Hlx'.
    assert (Hcur : tok_at toks (length pre) = Some (TOp "+")).
    { eapply tok_at_mid. rewrite Htoks. simpl. reflexivity. }
    rewrite  (go_op _ _ _ _ _ _ _ _ _ _ Hcur eq_refl).
    change (prio op_priority "+") with (Some 0%Z). cbv iota beta.
    assert (Htoks' : toks = (pre ++ [TOp "+"]) ++ render_cst x ++ post).
    { rewrite Htoks. simpl. by rewrite <- !app_assoc. }
    assert (Hlen : length (pre ++ [TOp "+"]) = length pre + 1) by (rewrite app_length; simpl; lia).
    rewrite <- Hlen.
    pose proof (need_ge2 x) as Hn2. pose proof (steps_ge1 x) as Hs1.
    pose proof (IH CUn toks (pre ++ [TOp "+"]) post F (d + 1) (f - steps x) f Hwx) as E. simpl cstr in E.
    rewrite E; [ | simpl; lia | exact HF | lia | exact Htoks' | lia | lia]. clear E.
    destruct (render_last x) as (ini & tl & Hrl & Htl).
    assert (Htoks'' : toks = (((pre ++ [TOp "+"]) ++ ini) ++ [tl]) ++ post).
    { rewrite Htoks', Hrl. by rewrite <- !app_assoc. }
    assert (Hpos : length (pre ++ [TOp "+"]) + ntok x = length (((pre ++ [TOp "+"]) ++ ini) ++ [tl])).
    { rewrite <- render_length, Hrl. rewrite !app_length. simpl. lia. }
    rewrite Hpos.
    destruct (sub_return pa pe toks ((pre ++ [TOp "+"]) ++ ini) tl post F CUn (d + 1) (tree_of x) (f - steps x)
                Htoks'' Htl HF eq_refl) as (j & Hj & Hres); [simpl; lia | lia |].
    simpl cstr in Hj. rewrite Hj. rewrite Hres by lia.
    rewrite <- Hpos, Hlen. f_equal. lia.
  - (* binary operator / juxtaposition *)
    apply wfp_bin in Hwf as (Hwl & Hwr & Hlv & Hjx).
    assert (Hneed' : need l ≤ f ∧ steps r + need r ≤ f) by (cbn [need] in Hneed; lia).
    clear Hneed. destruct Hneed' as [Hneedl Hneedr].
    simpl in Hc, Hfl, Htoks |- *.
    pose proof (need_ge2 l). pose proof (need_ge2 r). pose proof (steps_ge1 r). pose proof (clvl_le2 c).
    assert (Hll : clvl c ≤ lvl l ∧ flvl (FOp o) ≤ lvl l ∧ clvl (COp o) ≤ lvl r ∧ flvl F ≤ lvl r).
    { destruct (flvl_cases F) as [HfF | [HfF | HfF]]; destruct o; simpl in *; lia. }
    destruct Hll as (Hcl & Hfl_l & Hcr & Hfr).
    set (postl := optok o ++ render_cst r ++ post).
    assert (HFl : follows postl (FOp o)).
    { unfold postl. destruct (decide (o = OJuxt)) as [-> | Hj].
      - simpl. destruct (starts_atom_render r (Hjx eq_refl)) as (a & rest & -> & Ha).
        exists a, (rest ++ post). done.
      - destruct o; try done; simpl; eauto. }
    assert (Htoksl : toks = pre ++ render_cst l ++ postl).
    { rewrite Htoks. unfold postl. by rewrite <- !app_assoc. }
    replace (steps l + 1 + f) with (steps l + S f) by lia.
    rewrite (IHl c toks pre postl (FOp o) d (S f) _ Hwl Hcl HFl Hfl_l Htoksl) by lia.
    set (posl := length pre + ntok l).
    assert (Hposl : posl = length (pre ++ render_cst l)) by (unfold posl; by rewrite app_length, render_length).
    destruct (render_last r) as (ini & tl & Hrl & Htl).
    destruct (decide (o = OJuxt)) as [-> | Hj].
    + (* juxtaposition: the call for the right operand starts at the same token *)
      simpl in Hfl, Hc.
      destruct (starts_atom_render r (Hjx eq_refl)) as (a & restr & Hra & Ha).
      assert (Hcur : tok_at toks posl = Some a).
      { apply (tok_at_pos _ (pre ++ render_cst l) _ (restr ++ post)); [|done].
        rewrite Htoksl. unfold postl. simpl. rewrite Hra. by rewrite <- !app_assoc. }
      rewrite  (go_atom_some _ _ _ _ _ _ _ _ _ _ Hcur Ha).
      simpl opstr. change (prio_d op_priority "") with 1%Z. rewrite prio_d_cstr.
      rewrite (continues_juxt c Hc).
      set (prer := pre ++ render_cst l).
      assert (Htoksr : toks = prer ++ render_cst r ++ post).
      { rewrite Htoks. unfold prer. simpl. by rewrite <- !app_assoc. }
      rewrite Hposl. fold prer.
      pose proof (IHr (COp OJuxt) toks prer post F (d + 1) (f - steps r) f Hwr Hcr HF Hfr Htoksr) as E.
      simpl cstr in E. rewrite E by lia. clear E.
      assert (Htoks'' : toks = ((prer ++ ini) ++ [tl]) ++ post).
      { rewrite Htoksr, Hrl. by rewrite <- !app_assoc. }
      assert (Hpos : length prer + ntok r = length ((prer ++ ini) ++ [tl])).
      { rewrite <- render_length, Hrl. rewrite !app_length. simpl. lia. }
      rewrite Hpos.
      destruct (sub_return pa pe toks (prer ++ ini) tl post F (COp OJuxt) (d + 1) (tree_of r) (f - steps r)
                  Htoks'' Htl HF eq_refl) as (j & Hj' & Hres); [simpl; lia | lia |].
      simpl cstr in Hj'. rewrite Hj'. rewrite Hres by lia.
      rewrite <- Hpos. unfold prer. rewrite <- Hposl. f_equal. unfold posl. simpl. lia.
    + (* explicit operator token *)
      assert (Hcur : tok_at toks posl = Some (TOp (opstr o))).
      { apply (tok_at_pos _ (pre ++ render_cst l) _ (render_cst r ++ post)); [|done].
        rewrite Htoksl. unfold postl. rewrite (optok_explicit _ Hj). by rewrite <- !app_assoc. }
      rewrite  (go_op _ _ _ _ _ _ _ _ _ _ Hcur (opstr_not_paren _ Hj)).
      rewrite prio_opstr, prio_d_cstr, (continues_ok pe c o Hc).
      set (prer := (pre ++ render_cst l) ++ [TOp (opstr o)]).
      assert (Htoksr : toks = prer ++ render_cst r ++ post).
      { rewrite Htoks. unfold prer. rewrite (optok_explicit _ Hj). by rewrite <- !app_assoc. }
      assert (Hlenr : length prer = posl + 1).
      { unfold prer. rewrite app_length, <- Hposl. simpl. lia. }
      rewrite <- Hlenr.
      pose proof (IHr (COp o) toks prer post F (d + 1) (f - steps r) f Hwr Hcr HF Hfr Htoksr) as E.
      simpl cstr in E. rewrite E by lia. clear E.
      assert (Htoks'' : toks = ((prer ++ ini) ++ [tl]) ++ post).
      { rewrite Htoksr, Hrl. by rewrite <- !app_assoc. }
      assert (Hpos : length prer + ntok r = length ((prer ++ ini) ++ [tl])).
      { rewrite <- render_length, Hrl. rewrite !app_length. simpl. lia. }
      rewrite Hpos.
      destruct (sub_return pa pe toks (prer ++ ini) tl post F (COp o) (d + 1) (tree_of r) (f - steps r)
                  Htoks'' Htl HF eq_refl) as (j & Hj' & Hres); [simpl; lia | lia |].
      simpl cstr in Hj'. rewrite Hj'. rewrite Hres by lia.
      rewrite <- Hpos, Hlenr. f_equal. unfold posl. rewrite (optok_explicit _ Hj). simpl. lia.
  - (* parenthesised group *)
    destruct (follows_nonempty _ _ HF) as (t & rest & ->).
    assert (Hcur : tok_at toks (length pre) = Some (TOp "(")).
    { eapply tok_at_mid. rewrite Htoks. simpl. reflexivity. }
    rewrite (go_open_none _ _ _ _ _ _ _ _ Hcur).
    assert (Htoks' : toks = (pre ++ [TOp "("]) ++ render_cst x ++ (TOp ")" :: t :: rest)).
    { rewrite Htoks. simpl. rewrite <- !app_assoc. simpl. reflexivity. }
    assert (Hlen : length (pre ++ [TOp "("]) = length pre + 1) by (rewrite app_length; simpl; lia).
    rewrite <- Hlen.
    pose proof (IH CPar toks (pre ++ [TOp "("]) (TOp ")" :: t :: rest) FClose 0 (f - steps x) f Hwf) as E.
    simpl cstr in E. rewrite E; [ | simpl; lia | simpl; eauto | simpl; lia | exact Htoks' | lia | lia].
    clear E.
    set (posx := length (pre ++ [TOp "("]) + ntok x).
    assert (Hclose : tok_at toks posx = Some (TOp ")")).
    { apply (tok_at_pos _ ((pre ++ [TOp "("]) ++ render_cst x) _ (t :: rest)).
      - rewrite Htoks'. by rewrite <- !app_assoc.
      - unfold posx. rewrite (app_length _ (render_cst x)), render_length. done. }
    pose proof (need_ge2 x).
    destruct (f - steps x) as [|f'] eqn:Hf'; [lia|].
    rewrite  (go_close _ _ _ _ _ _ _ _ _ Hclose). simpl. rewrite Hclose. simpl.
    unfold tail_of. rewrite Hclose.
    assert (Hle : Nat.leb (ntoks toks) (posx + 1) = false).
    { apply Nat.leb_gt. rewrite (ntoks_app _ _ _ Htoks'). rewrite (app_length (render_cst x)), render_length. simpl. unfold posx. lia. }
    rewrite Hle. f_equal. unfold posx. lia.
Qed.

(** total fuel used is at most two units per token *)
Lemma fuel_bound e : steps e + need e ≤ 2 * ntok e + 1 ∧ steps e ≤ ntok e.
Proof.
  induction e as [s|s|x IH|x IH|o l IHl r IHr|x IH]; simpl; try lia; try (destruct IH; lia).
  destruct IHl, IHr.
  pose proof (steps_ge1 r). pose proof (need_ge2 r).
  assert (1 ≤ ntok l ∧ 1 ≤ ntok r) as [? ?].
  { split; [pose proof (steps_ge1 l)|]; lia. }
  destruct o; simpl; lia.
Qed.

(** * [parse_render] on concrete syntax trees: every derivation of Python's grammar is
    parsed back to its own structure (redundant parentheses erased) *)
Theorem parse_render_cst pa pe e ending :
  wfp e = true → ending = [TEnd] ∨ ending = [TOther; TEnd] →
  build_p pa pe op_priority (render_cst e ++ ending) = Ok (tree_of e).
Proof.
  intros Hwf Hend. unfold build_p.
  set (toks := render_cst e ++ ending).
  assert (Hlen : length toks = ntok e + length ending) by (unfold toks; by rewrite app_length, render_length).
  pose proof (fuel_bound e) as [Hfb _]. pose proof (need_ge2 e) as Hn2.
  assert (Hel : 1 ≤ length ending ≤ 2) by (destruct Hend as [-> | ->]; simpl; lia).
  pose proof (go_render pa pe e CNone toks [] ending FEnd 0 (build_fuel toks - steps e) (build_fuel toks) Hwf) as E.
  simpl length in E. simpl cstr in E.
  rewrite E; [ | simpl; lia | exact Hend | simpl; lia | reflexivity | unfold build_fuel; lia | unfold build_fuel; lia].
  clear E.
  assert (Hf : ∃ f3, build_fuel toks - steps e = S (S f3)).
  { exists (build_fuel toks - steps e - 2). unfold build_fuel. lia. }
  destruct Hf as (f3 & ->).
  assert (Hcur : ∀ t rest, ending = t :: rest → tok_at toks (0 + ntok e) = Some t).
  { intros t rest He. apply (tok_at_pos _ (render_cst e) _ rest); [by rewrite <- He|]. by rewrite render_length. }
  destruct Hend as [-> | ->].
  - rewrite  (go_skip _ _ _ _ _ _ _ _ _ TEnd (Hcur _ _ eq_refl)) by auto.
    unfold tail_of. rewrite (Hcur _ _ eq_refl). done.
  - rewrite  (go_skip _ _ _ _ _ _ _ _ _ TOther (Hcur _ _ eq_refl)) by auto.
    unfold tail_of at 1. rewrite (Hcur _ _ eq_refl).
    assert (Hend : tok_at toks (0 + ntok e + 1) = Some TEnd).
    { apply (tok_at_pos _ (render_cst e ++ [TOther]) _ []).
      - unfold toks. by rewrite <- app_assoc.
      - rewrite app_length, render_length. simpl. lia. }
    assert (Hle : Nat.leb (ntoks toks) (0 + ntok e + 1) = false).
    { apply Nat.leb_gt. unfold ntoks. rewrite Hlen. simpl. lia. }
    rewrite Hle. rewrite  (go_skip _ _ _ _ _ _ _ _ _ TEnd Hend) by auto.
    unfold tail_of. rewrite Hend. done.
Qed.

(** * The parentheses [parenthesize] inserts are exactly those Python's grammar needs *)
Lemma lvl_le4 e : lvl e ≤ 4.
Proof. destruct e as [| | | |o| ]; simpl; try lia. destruct o; simpl; lia. Qed.
Lemma lvl_parenthesize s e : lvl (parenthesize s e) = lvl e.
Proof. by destruct e. Qed.
Lemma needs_par_lvl p e e' : lvl e = lvl e' → needs_par p e = needs_par p e'.
Proof. intros H. destruct p; simpl; by rewrite H. Qed.
Lemma needs_par_Par p x : needs_par p (Par x) = false.
Proof. destruct p as [|o|o]; simpl; try done; by destruct o. Qed.
Lemma wrap_needs s p orig e' :
  lvl e' = lvl orig → needs_par p (wrap s p orig e') = false.
Proof.
  intros H. unfold wrap.
  destruct (needs_par p orig) eqn:Hn; simpl; [apply needs_par_Par|].
  match goal with |- context [if ?b then _ else _] => destruct b end;
    [apply needs_par_Par | by rewrite (needs_par_lvl p e' orig H)].
Qed.
Lemma wfp_wrap s p orig e' : wfp e' = true → wfp (wrap s p orig e') = true.
Proof. intros H. unfold wrap. by match goal with |- context [if ?b then _ else _] => destruct b end. Qed.
Lemma tree_of_wrap s p orig e' : tree_of (wrap s p orig e') = tree_of e'.
Proof. unfold wrap. by match goal with |- context [if ?b then _ else _] => destruct b end. Qed.
Lemma strip_wrap s p orig e' : strip (wrap s p orig e') = strip e'.
Proof. unfold wrap. by match goal with |- context [if ?b then _ else _] => destruct b end. Qed.

Lemma juxt_right_unwrapped s r :
  juxt_right_ok r = true →
  wrap s (PRight OJuxt) r (parenthesize s r) = parenthesize s r
  ∧ starts_atom (parenthesize s r) = true.
Proof.
  destruct r as [| | | |o l r'| ]; simpl; try discriminate.
  - by destruct s.
  - by destruct s.
  - intros H. apply andb_true_iff in H as [Hp Hl].
    destruct o; try discriminate; destruct l; try discriminate; by destruct s.
Qed.

Lemma parenthesize_wfp s e : legal e = true → wfp (parenthesize s e) = true.
Proof.
  induction e as [t|t|x IH|x IH|o l IHl r IHr|x IH]; cbn [parenthesize wfp legal]; intros Hl; try done.
  - rewrite (wfp_wrap _ _ _ _ (IH Hl)). cbn [andb].
    pose proof (wrap_needs s PUn x (parenthesize s x) (lvl_parenthesize s x)) as Hn.
    simpl in Hn. apply Nat.ltb_ge in Hn. by apply Nat.leb_le.
  - rewrite (wfp_wrap _ _ _ _ (IH Hl)). cbn [andb].
    pose proof (wrap_needs s PUn x (parenthesize s x) (lvl_parenthesize s x)) as Hn.
    simpl in Hn. apply Nat.ltb_ge in Hn. by apply Nat.leb_le.
  - apply andb_true_iff in Hl as [Hl Hj]. apply andb_true_iff in Hl as [Hll Hlr].
    rewrite (wfp_wrap _ _ _ _ (IHl Hll)), (wfp_wrap _ _ _ _ (IHr Hlr)). cbn [andb].
    pose proof (wrap_needs s (PLeft o) l (parenthesize s l) (lvl_parenthesize s l)) as HnL.
    pose proof (wrap_needs s (PRight o) r (parenthesize s r) (lvl_parenthesize s r)) as HnR.
    set (L := wrap s (PLeft o) l (parenthesize s l)) in *.
    set (R := wrap s (PRight o) r (parenthesize s r)) in *.
    apply andb_true_iff. split.
    + simpl in HnL, HnR. pose proof (lvl_le4 L). destruct (is_pow o).
      * apply Nat.ltb_ge in HnL, HnR. apply andb_true_iff. split; [apply Nat.eqb_eq|apply Nat.leb_le]; lia.
      * apply Nat.ltb_ge in HnL. apply Nat.leb_gt in HnR.
        apply andb_true_iff. split; [apply Nat.leb_le|apply Nat.ltb_lt]; lia.
    + destruct (bool_decide (o = OJuxt)) eqn:Ho; [|done].
      apply bool_decide_eq_true in Ho. subst o. unfold R.
      destruct (juxt_right_unwrapped s r Hj) as [-> Hs]. done.
  - by apply IH.
Qed.
Lemma tree_of_parenthesize s e : tree_of (parenthesize s e) = tree_of e.
Proof. induction e; simpl; rewrite ?tree_of_wrap; congruence. Qed.
Lemma strip_parenthesize s e : strip (parenthesize s e) = strip e.
Proof. induction e; simpl; rewrite ?strip_wrap; congruence. Qed.
Lemma tree_of_strip e : tree_of (strip e) = tree_of e.
Proof. induction e; simpl; congruence. Qed.
Lemma strip_par_free e : par_free e = true → strip e = e.
Proof.
  induction e; simpl; intros H; try done; try (by rewrite IHe).
  apply andb_true_iff in H as [H1 H2]. by rewrite IHe1, IHe2.
Qed.

(** * [parse_render] *)
Theorem parse_render pa pe s e :
  legal e = true →
  build_p pa pe op_priority (render s e ++ [TEnd]) = Ok (tree_of (strip e)).
Proof.
  intros Hl. unfold render.
  rewrite (parse_render_cst pa pe _ [TEnd] (parenthesize_wfp s e Hl)) by auto.
  by rewrite tree_of_parenthesize, tree_of_strip.
Qed.
Theorem parse_render_newline pa pe s e :
  legal e = true →
  build_p pa pe op_priority (render s e ++ [TOther; TEnd]) = Ok (tree_of (strip e)).
Proof.
  intros Hl. unfold render.
  rewrite (parse_render_cst pa pe _ [TOther; TEnd] (parenthesize_wfp s e Hl)) by auto.
  by rewrite tree_of_parenthesize, tree_of_strip.
Qed.

(** * Corollaries: Python's associativity and precedence facts, for arbitrary operands *)
Definition primary (e : expr) : Prop := wfp e = true ∧ lvl e = 4.
Definition is_powb (o : bop) := is_pow o.

(** [a ** b ** c] is [a ** (b ** c)] (either spelling of the operator) *)
Corollary pow_right_assoc pa pe o1 o2 a b c :
  is_pow o1 = true → is_pow o2 = true → primary a → primary b → wfp c = true → 2 ≤ lvl c →
  build_p pa pe op_priority (render_cst a ++ [TOp (opstr o1)] ++ render_cst b ++ [TOp (opstr o2)]
                     ++ render_cst c ++ [TEnd])
  = Ok (Eval.Bin (opstr o1) (tree_of a) (Eval.Bin (opstr o2) (tree_of b) (tree_of c))).
Proof.
  intros H1 H2 [Ha La] [Hb Lb] Hc Lc.
  assert (Hwf : wfp (Bin o1 a (Bin o2 b c)) = true).
  { cbn [wfp lvl]. rewrite Ha, Hb, Hc, La, Lb.
    destruct o1; try discriminate; destruct o2; try discriminate; simpl;
      (destruct (lvl c) as [|[|]]; [lia|lia|reflexivity]). }
  pose proof (parse_render_cst pa pe _ [TEnd] Hwf (or_introl eq_refl)) as E.
  cbn [render_cst tree_of] in E.
  replace (optok o1) with [TOp (opstr o1)] in E by (by destruct o1).
  replace (optok o2) with [TOp (opstr o2)] in E by (by destruct o2).
  rewrite <- !app_assoc in E. exact E.
Qed.

(** [-a ** b] is [-(a ** b)], and [a ** -b ** c] is [a ** (-(b ** c))] *)
Corollary unary_vs_pow_left pa pe a b :
  primary a → wfp b = true → 2 ≤ lvl b →
  build_p pa pe op_priority ([TOp "-"] ++ render_cst a ++ [TOp "**"] ++ render_cst b ++ [TEnd])
  = Ok (Un "-" (Eval.Bin "**" (tree_of a) (tree_of b))).
Proof.
  intros [Ha La] Hb Lb.
  assert (Hwf : wfp (Neg (Bin OPow a b)) = true).
  { cbn [wfp lvl is_pow olvl]. rewrite Ha, Hb, La. simpl.
    destruct (lvl b) as [|[|]]; [lia|lia|reflexivity]. }
  pose proof (parse_render_cst pa pe _ [TEnd] Hwf (or_introl eq_refl)) as E.
  cbn [render_cst tree_of optok opstr] in E. repeat (simpl app in E; rewrite <- ?app_assoc in E). simpl app. exact E.
Qed.
Corollary unary_vs_pow_right pa pe a b c :
  primary a → primary b → wfp c = true → 2 ≤ lvl c →
  build_p pa pe op_priority (render_cst a ++ [TOp "**"] ++ [TOp "-"] ++ render_cst b ++ [TOp "**"]
                     ++ render_cst c ++ [TEnd])
  = Ok (Eval.Bin "**" (tree_of a) (Un "-" (Eval.Bin "**" (tree_of b) (tree_of c)))).
Proof.
  intros [Ha La] [Hb Lb] Hc Lc.
  assert (Hwf : wfp (Bin OPow a (Neg (Bin OPow b c))) = true).
  { cbn [wfp lvl is_pow olvl]. rewrite Ha, Hb, Hc, La, Lb. simpl.
    destruct (lvl c) as [|[|]]; [lia|lia|reflexivity]. }
  pose proof (parse_render_cst pa pe _ [TEnd] Hwf (or_introl eq_refl)) as E.
  cbn [render_cst tree_of optok opstr] in E. repeat (simpl app in E; rewrite <- ?app_assoc in E). simpl app. exact E.
Qed.

(** operators of one level group to the left: [a o1 b o2 c] is [(a o1 b) o2 c] *)
Corollary left_assoc pa pe o1 o2 a b c :
  is_pow o1 = false → is_pow o2 = false → olvl o1 = olvl o2 → o1 ≠ OJuxt → o2 ≠ OJuxt →
  wfp a = true → olvl o1 ≤ lvl a → wfp b = true → olvl o1 < lvl b → wfp c = true → olvl o1 < lvl c →
  build_p pa pe op_priority (render_cst a ++ [TOp (opstr o1)] ++ render_cst b ++ [TOp (opstr o2)]
                     ++ render_cst c ++ [TEnd])
  = Ok (Eval.Bin (opstr o2) (Eval.Bin (opstr o1) (tree_of a) (tree_of b)) (tree_of c)).
Proof.
  intros H1 H2 Hl J1 J2 Ha La Hb Lb Hc Lc.
  assert (Hwf : wfp (Bin o2 (Bin o1 a b) c) = true).
  { cbn [wfp lvl]. rewrite Ha, Hb, Hc, H1, H2.
    rewrite (bool_decide_eq_false_2 _ J1), (bool_decide_eq_false_2 _ J2). rewrite <- Hl.
    cbn [andb]. rewrite !andb_true_r.
    repeat (apply andb_true_iff; split); try apply Nat.leb_le; try apply Nat.ltb_lt; lia. }
  pose proof (parse_render_cst pa pe _ [TEnd] Hwf (or_introl eq_refl)) as E.
  cbn [render_cst tree_of] in E.
  rewrite (optok_explicit _ J1), (optok_explicit _ J2) in E.
  rewrite <- !app_assoc in E. exact E.
Qed.

(** juxtaposition is multiplication: replacing every juxtaposition by an explicit [*] gives
    the same tree up to the operator label, hence (when the operator map sends both to the
    same function, which the tie lemma checks) the same value *)
Fixpoint juxt_to_mul (e : expr) : expr :=
  match e with
  | Num _ | Name _ => e
  | Neg x => Neg (juxt_to_mul x) | Pos x => Pos (juxt_to_mul x) | Par x => Par (juxt_to_mul x)
  | Bin o l r => Bin (if bool_decide (o = OJuxt) then OMul else o) (juxt_to_mul l) (juxt_to_mul r)
  end.
Fixpoint relabel (t : tree) : tree :=
  match t with
  | Leaf k => Leaf k
  | Un o x => Un o (relabel x)
  | Eval.Bin o l r => Eval.Bin (if String.eqb o "" then "*" else o) (relabel l) (relabel r)
  end.
Lemma legal_juxt_to_mul e : legal (juxt_to_mul e) = true.
Proof.
  induction e as [| | | |o l IHl r IHr|]; simpl; try done.
  rewrite IHl, IHr. simpl. destruct (bool_decide (o = OJuxt)) eqn:E; [done|]. by rewrite E.
Qed.
Lemma tree_of_juxt_to_mul e : tree_of (juxt_to_mul e) = relabel (tree_of e).
Proof.
  induction e as [| | | |o l IHl r IHr|]; simpl; try congruence.
  rewrite IHl, IHr. by destruct o.
Qed.
Lemma strip_juxt_to_mul e : strip (juxt_to_mul e) = juxt_to_mul (strip e).
Proof. induction e; simpl; congruence. Qed.
Corollary juxt_is_mul pa pe s e :
  legal e = true →
  ∃ t, build_p pa pe op_priority (render s e ++ [TEnd]) = Ok t
       ∧ build_p pa pe op_priority (render s (juxt_to_mul e) ++ [TEnd]) = Ok (relabel t).
Proof.
  intros Hl. exists (tree_of (strip e)). split; [by apply parse_render|].
  rewrite (parse_render pa pe s _ (legal_juxt_to_mul e)).
  by rewrite strip_juxt_to_mul, tree_of_juxt_to_mul.
Qed.
Lemma evaluate_relabel {V} (leaf : tok → res V) binop unop t :
  binop "" = binop "*" →
  evaluate leaf binop unop (relabel t) = evaluate leaf binop unop t.
Proof.
  intros H. induction t as [k|o l IHl r IHr|o x IH]; simpl; [done| |by rewrite IH].
  rewrite IHl, IHr. destruct (String.eqb_spec o ""); [subst; by rewrite H|done].
Qed.

(** * F16: juxtaposition directly before a parenthesised group ignores priorities *)
Lemma paren_juxt_refuted pe :
  ∃ l r, wfp l = true ∧ wfp r = true ∧ olvl OJuxt ≤ lvl l ∧
         build_p true pe op_priority (render_cst (Bin OJuxt l (Par r)) ++ [TEnd])
         ≠ Ok (tree_of (Bin OJuxt l (Par r))).
Proof.
  exists (Bin ODiv (Num "6") (Num "2")), (Bin OAdd (Num "1") (Num "2")).
  destruct pe; (repeat split; try reflexivity; try (simpl; lia); vm_compute; discriminate).
Qed.
(** the two witnesses of DESIGN §7: [6/2(1+2)] groups as [6/(2(1+2))], [2**(3)(4)] as [2**((3)(4))] *)
Lemma paren_juxt_witnesses pe :
  build_p true pe op_priority [TNum "6"; TOp "/"; TNum "2"; TOp "("; TNum "1"; TOp "+"; TNum "2"; TOp ")"; TEnd]
  = Ok (Eval.Bin "/" (Leaf (TNum "6"))
          (Eval.Bin "" (Leaf (TNum "2")) (Eval.Bin "+" (Leaf (TNum "1")) (Leaf (TNum "2")))))
  ∧ build_p true pe op_priority [TNum "2"; TOp "**"; TOp "("; TNum "3"; TOp ")"; TOp "("; TNum "4"; TOp ")"; TEnd]
  = Ok (Eval.Bin "**" (Leaf (TNum "2")) (Eval.Bin "" (Leaf (TNum "3")) (Leaf (TNum "4")))).
Proof. destruct pe; split; vm_compute; reflexivity. Qed.
(** with the repaired "(" branch both group as Python does *)
Lemma paren_juxt_fixed_witnesses pe :
  build_p false pe op_priority [TNum "6"; TOp "/"; TNum "2"; TOp "("; TNum "1"; TOp "+"; TNum "2"; TOp ")"; TEnd]
  = Ok (Eval.Bin "" (Eval.Bin "/" (Leaf (TNum "6")) (Leaf (TNum "2")))
          (Eval.Bin "+" (Leaf (TNum "1")) (Leaf (TNum "2"))))
  ∧ build_p false pe op_priority [TNum "2"; TOp "**"; TOp "("; TNum "3"; TOp ")"; TOp "("; TNum "4"; TOp ")"; TEnd]
  = Ok (Eval.Bin "" (Eval.Bin "**" (Leaf (TNum "2")) (Leaf (TNum "3"))) (Leaf (TNum "4"))).
Proof. destruct pe; split; vm_compute; reflexivity. Qed.

(** * F41: a power after an uncertain number.  As first found, "**" never ends a pending
    operator, not even the higher-priority "+/-" *)
Lemma unc_pow_refuted pa :
  build_p pa true op_priority [TNum "1.2"; TOp "+/-"; TNum "0.4"; TOp "**"; TNum "2"; TEnd]
  = Ok (Eval.Bin "+/-" (Leaf (TNum "1.2")) (Eval.Bin "**" (Leaf (TNum "0.4")) (Leaf (TNum "2")))).
Proof. destruct pa; vm_compute; reflexivity. Qed.
Lemma unc_pow_fixed_witness pa :
  build_p pa false op_priority [TNum "1.2"; TOp "+/-"; TNum "0.4"; TOp "**"; TNum "2"; TEnd]
  = Ok (Eval.Bin "**" (Eval.Bin "+/-" (Leaf (TNum "1.2")) (Leaf (TNum "0.4"))) (Leaf (TNum "2"))).
Proof. destruct pa; vm_compute; reflexivity. Qed.

(** with the repaired test the power applies to the whole uncertain number, for every exponent
    expression [x] (and either spelling of the operator): [v +/- u ** x] is [(v +/- u) ** x] *)
Theorem unc_pow_binds_whole pa o v u x :
  is_pow o = true → wfp x = true → 2 ≤ lvl x →
  build_p pa false op_priority ([TNum v; TOp "+/-"; TNum u; TOp (opstr o)] ++ render_cst x ++ [TEnd])
  = Ok (Eval.Bin (opstr o) (Eval.Bin "+/-" (Leaf (TNum v)) (Leaf (TNum u))) (tree_of x)).
Proof.
  intros Ho Hx Lx. unfold build_p.
  set (pre := [TNum v; TOp "+/-"; TNum u; TOp (opstr o)]).
  set (toks := pre ++ render_cst x ++ [TEnd]).
  assert (Hlen : length toks = 4 + ntok x + 1).
  { unfold toks, pre. rewrite !app_length, render_length. simpl. lia. }
  assert (Hn : ntoks toks = 4 + ntok x + 1) by exact Hlen.
  pose proof (fuel_bound x) as [Hfb _]. pose proof (need_ge2 x) as Hn2. pose proof (steps_ge1 x) as Hs1.
  assert (H0 : tok_at toks 0 = Some (TNum v)) by reflexivity.
  assert (H1 : tok_at toks 1 = Some (TOp "+/-")) by reflexivity.
  assert (H2 : tok_at toks 2 = Some (TNum u)) by reflexivity.
  assert (H3 : tok_at toks 3 = Some (TOp (opstr o))) by reflexivity.
  assert (Hend : tok_at toks (4 + ntok x) = Some TEnd).
  { apply (tok_at_pos _ (pre ++ render_cst x) _ []).
    - unfold toks. by rewrite <- app_assoc.
    - rewrite app_length, render_length. reflexivity. }
  assert (Hoj : o ≠ OJuxt) by (intros ->; discriminate).
  assert (Hleb : ∀ k, k ≤ 4 + ntok x → Nat.leb (ntoks toks) k = false).
  { intros k Hk. apply Nat.leb_gt. lia. }
  unfold build_fuel. rewrite Hlen.
  replace (4 * (4 + ntok x + 1) + 8) with (S (S (S (S (4 * ntok x + 24))))) by lia.
  set (f := 4 * ntok x + 24).
  (* v *)
  rewrite (go_atom_none _ _ _ _ _ _ _ _ _ H0 eq_refl). unfold tail_of at 1. rewrite H0.
  rewrite (Hleb (0 + 1)) by lia.
  (* +/- : a call for its right operand *)
  rewrite (go_op _ _ _ _ _ _ _ _ _ _ H1 eq_refl).
  change (prio op_priority "+/-") with (Some 4%Z). cbv iota beta.
  change (prio_d op_priority "<none>") with (-1)%Z.
  change (op_ends false 4 (-1) "+/-") with false. cbv iota.
  (* u, then the power ends the pending +/- *)
  change (0 + 1 + 1) with 2.
  rewrite (go_atom_none _ _ _ _ _ _ _ _ _ H2 eq_refl). unfold tail_of at 1. rewrite H2.
  rewrite (Hleb (2 + 1)) by lia. change (2 + 1) with 3.
  rewrite (go_op _ _ _ _ _ _ _ _ _ _ H3 (opstr_not_paren _ Hoj)).
  rewrite prio_opstr. change (prio_d op_priority "+/-") with 4%Z.
  assert (He1 : op_ends false (bprio o) 4 (opstr o) = true) by (destruct o; try discriminate; reflexivity).
  rewrite He1. change (Init.Nat.pred 3) with 2.
  unfold tail_of at 1. rewrite H2. rewrite (Hleb (2 + 1)) by lia. change (2 + 1) with 3.
  (* the power, now in the top-level call *)
  rewrite (go_op _ _ _ _ _ _ _ _ _ _ H3 (opstr_not_paren _ Hoj)).
  rewrite prio_opstr. change (prio_d op_priority "<none>") with (-1)%Z.
  assert (He2 : op_ends false (bprio o) (-1) (opstr o) = false) by (destruct o; try discriminate; reflexivity).
  rewrite He2. change (3 + 1) with (length pre).
  pose proof (go_render pa false x (COp o) toks pre [TEnd] FEnd (0 + 1) (S f - steps x) (S f) Hx) as E.
  simpl cstr in E. rewrite E; [ | destruct o; try discriminate; simpl; lia | by left | simpl; lia | reflexivity
                               | unfold f; lia | unfold f; lia ].
  clear E. change (length pre) with 4.
  destruct (S f - steps x) as [|f'] eqn:Hf'; [unfold f in Hf'; lia|].
  rewrite (go_skip _ _ _ _ _ _ _ _ _ TEnd Hend) by auto.
  unfold tail_of at 1. rewrite Hend.
  assert (Hnp : String.eqb (opstr o) "(" = false) by (by destruct o).
  rewrite Hnp. unfold tail_of. rewrite Hend. reflexivity.
Qed.
