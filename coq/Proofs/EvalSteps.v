(** Proofs/EvalSteps.v — one loop iteration of the tree builder [go] of Model/Eval.v, case by case (C07). *)
From Coq Require Import ZArith Lia ZifyBool.
From PintV Require Import Model.UC Model.Eval Model.Grammar.
Open Scope string_scope.

(** * One loop iteration of [go_p], case by case, for both values of the two switches *)
Section Steps.
  Context (pa pe : bool) (tbl : list (string * Z)) (toks : list tok).

  (** the tail of the loop body as a top-level function *)
  Definition tail_of (f depth : nat) (prev : string) (result' : option tree) (index' : nat)
    : res (tree * nat) :=
    match tok_at toks index' with
    | None => Err EIndex
    | Some TEnd =>
        if String.eqb prev "(" then Err EUnclosed
        else match result' with None => Err EAssert | Some r => Ok (r, index') end
    | Some _ =>
        if Nat.leb (ntoks toks) (index' + 1) then Err EUnexpectedEnd
        else go_p pa pe tbl toks f (index' + 1) depth prev result'
    end.

  Definition is_atom_tok (t : tok) : bool :=
    match t with TNum _ | TName _ => true | _ => false end.

  Lemma go_atom_none f i d p a :
    tok_at toks i = Some a → is_atom_tok a = true →
    go_p pa pe tbl toks (S f) i d p None = tail_of f d p (Some (Leaf a)) i.
  Proof. intros H Ha. unfold tail_of. simpl. rewrite H. destruct a; try discriminate; reflexivity. Qed.

  Lemma go_atom_some f i d p a r :
    tok_at toks i = Some a → is_atom_tok a = true →
    go_p pa pe tbl toks (S f) i d p (Some r) =
      if Z.leb (prio_d tbl "") (prio_d tbl p) then Ok (r, pred i)
      else match go_p pa pe tbl toks f i (d + 1) "" None with
           | Err e => Err e
           | Ok (rt, i') => tail_of f d p (Some (Eval.Bin "" r rt)) i'
           end.
  Proof. intros H Ha. simpl. rewrite H. destruct a; try discriminate; reflexivity. Qed.

  Lemma go_close f i d p result :
    tok_at toks i = Some (TOp ")") →
    go_p pa pe tbl toks (S f) i d p result =
      if String.eqb p "<none>" then Err EUnopened
      else match result with
           | None => Err EAssert
           | Some r => if String.eqb p "(" then Ok (r, i) else Ok (r, pred i)
           end.
  Proof. intros H. simpl. rewrite H. reflexivity. Qed.

  (** "(" at the start of an operand: the same in both shapes of the branch *)
  Lemma go_open_none f i d p :
    tok_at toks i = Some (TOp "(") →
    go_p pa pe tbl toks (S f) i d p None =
      match go_p pa pe tbl toks f (i + 1) 0 "(" None with
      | Err e => Err e
      | Ok (rt, i') =>
          match tok_at toks i' with
          | None => Err EIndex
          | Some t =>
              if negb (bool_decide (t = TOp ")")) then Err EWeird
              else tail_of f d p (Some rt) i'
          end
      end.
  Proof. intros H. unfold tail_of. simpl. rewrite H. destruct pa; reflexivity. Qed.

  (** "(" after a value, as first found (F16): attached whatever the pending operator *)
  Lemma go_open_some_any f i d p r :
    pa = true → tok_at toks i = Some (TOp "(") →
    go_p pa pe tbl toks (S f) i d p (Some r) =
      match go_p pa pe tbl toks f (i + 1) 0 "(" None with
      | Err e => Err e
      | Ok (rt, i') =>
          match tok_at toks i' with
          | None => Err EIndex
          | Some t =>
              if negb (bool_decide (t = TOp ")")) then Err EWeird
              else tail_of f d p (Some (Eval.Bin "" r rt)) i'
          end
      end.
  Proof. intros Hpa H. unfold tail_of. simpl. rewrite H. rewrite Hpa. reflexivity. Qed.

  (** "(" after a value, repaired: like a NUMBER/NAME *)
  Lemma go_open_some_prio f i d p r :
    pa = false → tok_at toks i = Some (TOp "(") →
    go_p pa pe tbl toks (S f) i d p (Some r) =
      if Z.leb (prio_d tbl "") (prio_d tbl p) then Ok (r, pred i)
      else match go_p pa pe tbl toks f i (d + 1) "" None with
           | Err e => Err e
           | Ok (rt, i') => tail_of f d p (Some (Eval.Bin "" r rt)) i'
           end.
  Proof. intros Hpa H. unfold tail_of. simpl. rewrite H. rewrite Hpa. reflexivity. Qed.

  Lemma go_skip f i d p result t :
    tok_at toks i = Some t → (t = TOther ∨ t = TEnd) →
    go_p pa pe tbl toks (S f) i d p result = tail_of f d p result i.
  Proof. intros H [-> | ->]; unfold tail_of; simpl; rewrite H; reflexivity. Qed.

  (** an OP token other than the two parentheses *)
  Definition not_paren (s : string) : bool := negb (String.eqb s ")") && negb (String.eqb s "(").

  Lemma go_op f i d p result s :
    tok_at toks i = Some (TOp s) → not_paren s = true →
    go_p pa pe tbl toks (S f) i d p result =
      match prio tbl s with
      | None => tail_of f d p result i
      | Some pr =>
          match result with
          | Some r =>
              if op_ends pe pr (prio_d tbl p) s
              then Ok (r, pred i)
              else match go_p pa pe tbl toks f (i + 1) (d + 1) s None with
                   | Err e => Err e
                   | Ok (rt, i') => tail_of f d p (Some (Eval.Bin s r rt)) i'
                   end
          | None =>
              match go_p pa pe tbl toks f (i + 1) (d + 1) "unary" None with
              | Err e => Err e
              | Ok (rt, i') => tail_of f d p (Some (Un s rt)) i'
              end
          end
      end.
  Proof.
    intros H Hs. unfold not_paren in Hs. apply andb_true_iff in Hs as [H1 H2].
    apply negb_true_iff in H1, H2. apply String.eqb_neq in H1, H2.
    unfold tail_of. simpl. rewrite H.
    destruct s as [|[[] [] [] [] [] [] [] []] [|]]; try reflexivity; congruence.
  Qed.
End Steps.
