(** Proofs/EvalTies.v — tie lemmas between the tables regenerated from pint/pint_eval.py
    (Gen/EvalTables.v, translator T2) and the hand-written model (Model/Eval.v), and
    [eval_is_python]: evaluation applies exactly the Python operators the maps name. *)
From Coq Require Import ZArith Lia ZifyBool.
From PintV Require Import Model.UC Model.Eval Model.Grammar Model.EvalRun Gen.EvalTables
  Proofs.EvalSteps Proofs.EvalProofs Proofs.EvalInv.
Open Scope string_scope.
Open Scope list_scope.

(** * Ties (re-checked on every run against the current source) *)
Lemma op_priority_tie : EvalTables.op_priority = Eval.op_priority.
Proof. reflexivity. Qed.
Lemma tbl_ok_gen : tbl_okb EvalTables.op_priority = true.
Proof. vm_compute. reflexivity. Qed.

(** the binary operators the ParserHelper algebra of the model implements *)
Definition pv_keys : list string := ["**"; "*"; ""; "/"; "+"; "-"; "%"; "//"].
Lemma binop_keys_tie : map fst EvalTables.binary_operator_map = "+/-" :: pv_keys.
Proof. reflexivity. Qed.
Lemma pv_binop_keys k : is_some (pv_binop k) = existsb (String.eqb k) pv_keys.
Proof.
  unfold pv_binop, pv_keys. cbn [existsb].
  repeat (match goal with |- context [String.eqb k ?s] => destruct (String.eqb k s) eqn:? end;
          cbn [is_some orb]; try reflexivity).
Qed.
Lemma unop_keys_tie : map fst EvalTables.unary_operator_map = ["+"; "-"].
Proof. reflexivity. Qed.
Lemma pv_unop_keys k : is_some (pv_unop k) = existsb (String.eqb k) ["+"; "-"].
Proof.
  unfold pv_unop. cbn [existsb].
  repeat (match goal with |- context [String.eqb k ?s] => destruct (String.eqb k s) eqn:? end;
          cbn [is_some orb]; try reflexivity).
Qed.

(** static scan of pint_eval.py: no call of eval / exec / compile / getattr / __import__ /
    open / os.* / subprocess.* …, no such module imported, and [evaluate] applies nothing but
    the two maps' entries and the leaf callback (besides raising DefinitionSyntaxError) *)
Lemma no_forbidden_call : EvalTables.forbidden_calls = [].
Proof. reflexivity. Qed.
Definition forbidden_modules : list string :=
  ["os"; "subprocess"; "sys"; "importlib"; "builtins"; "shutil"; "socket"; "ctypes"; "pickle";
   "runpy"; "code"; "codeop"; "marshal"].
Lemma no_forbidden_import :
  forallb (λ m, negb (existsb (String.eqb m) forbidden_modules)) EvalTables.imports = true.
Proof. vm_compute. reflexivity. Qed.
Lemma evaluate_applies_tie :
  EvalTables.evaluate_applies = ["DefinitionSyntaxError"; "bin_op[op_text]"; "define_op"; "un_op[op_text]"].
Proof. reflexivity. Qed.
Lemma power_tie : EvalTables.power_returns = "operator.pow(left, right)".
Proof. reflexivity. Qed.

(** * Python's operators as an abstract algebra, and the maps read through their names *)
Record pyops (V : Type) := PyOps {
  py_add : V → V → res V;        (* operator.add *)
  py_sub : V → V → res V;        (* operator.sub *)
  py_mul : V → V → res V;        (* operator.mul *)
  py_truediv : V → V → res V;    (* operator.truediv *)
  py_floordiv : V → V → res V;   (* operator.floordiv *)
  py_mod : V → V → res V;        (* operator.mod *)
  py_pow : V → V → res V;        (* operator.pow *)
  py_minus1 : V                  (* the literal -1 *)
}.
Arguments py_add {V}. Arguments py_sub {V}. Arguments py_mul {V}. Arguments py_truediv {V}.
Arguments py_floordiv {V}. Arguments py_mod {V}. Arguments py_pow {V}. Arguments py_minus1 {V}.

Section EvalIsPython.
  Context {V : Type} (A : pyops V) (leaf : tok → res V).

  (** what a callable named in the source denotes *)
  Definition callable2 (name : string) : option (V → V → res V) :=
    if String.eqb name "operator.add" then Some (py_add A)
    else if String.eqb name "operator.sub" then Some (py_sub A)
    else if String.eqb name "operator.mul" then Some (py_mul A)
    else if String.eqb name "operator.truediv" then Some (py_truediv A)
    else if String.eqb name "operator.floordiv" then Some (py_floordiv A)
    else if String.eqb name "operator.mod" then Some (py_mod A)
    else if String.eqb name "_power" then
      (if String.eqb EvalTables.power_returns "operator.pow(left, right)" then Some (py_pow A) else None)
    else None.
  Definition callable1 (name : string) : option (V → res V) :=
    if String.eqb name "lambda x: x" then Some (λ x, Ok x)
    else if String.eqb name "lambda x: x * -1" then Some (λ x, py_mul A x (py_minus1 A))
    else None.
  (** the two maps of pint_eval.py as regenerated *)
  Definition bin_of_tables (op : string) : option (V → V → res V) :=
    match assoc op EvalTables.binary_operator_map with Some n => callable2 n | None => None end.
  Definition un_of_tables (op : string) : option (V → res V) :=
    match assoc op EvalTables.unary_operator_map with Some n => callable1 n | None => None end.

  (** Python's operator for each operator of the grammar (juxtaposition is [*], [^] is [**]) *)
  Definition pyop (o : bop) : V → V → res V :=
    match o with
    | OAdd => py_add A | OSub => py_sub A | OMul | OJuxt => py_mul A | ODiv => py_truediv A
    | OFloor => py_floordiv A | OMod => py_mod A | OPow | OCaret => py_pow A
    end.
  (** evaluating the expression tree with Python's operators on the leaves' values *)
  Fixpoint eval_expr (e : expr) : res V :=
    match e with
    | Num s => leaf (TNum s)
    | Name s => leaf (TName s)
    | Pos x => eval_expr x
    | Neg x => a ←r eval_expr x; py_mul A a (py_minus1 A)
    | Grammar.Bin o l r => a ←r eval_expr l; b ←r eval_expr r; pyop o a b
    | Par x => eval_expr x
    end.
  (** [^] is in the priority table but not in the operator map: the preprocessor rewrites it
      to [**] before tokenizing, so token streams never contain it *)
  Fixpoint caret_free (e : expr) : bool :=
    match e with
    | Num _ | Name _ => true
    | Neg x | Pos x | Par x => caret_free x
    | Grammar.Bin o l r => negb (bool_decide (o = OCaret)) && caret_free l && caret_free r
    end.

  Lemma evaluate_tree_of e :
    caret_free e = true →
    evaluate leaf bin_of_tables un_of_tables (tree_of e) = eval_expr e.
  Proof.
    induction e as [s|s|x IH|x IH|o l IHl r IHr|x IH]; simpl; intros Hc; try done.
    - change (un_of_tables "-") with (Some (λ x : V, py_mul A x (py_minus1 A))). by rewrite (IH Hc).
    - change (un_of_tables "+") with (Some (λ x : V, Ok x)). rewrite (IH Hc). by destruct (eval_expr x).
    - apply andb_true_iff in Hc as [Hc Hr]. apply andb_true_iff in Hc as [Ho Hl].
      rewrite (IHl Hl), (IHr Hr). by destruct o.
    - by apply IH.
  Qed.
End EvalIsPython.

(** [eval_is_python]: parsing the rendering of [e] and evaluating the tree with the operators
    the maps name is evaluating [e] with Python's operators *)
Theorem eval_is_python {V} (A : pyops V) (leaf : tok → res V) s e :
  legal e = true → caret_free e = true →
  (t ←r build EvalTables.op_priority (render s e ++ [TEnd]);
   evaluate leaf (bin_of_tables A) (un_of_tables A) t) = eval_expr A leaf e.
Proof.
  intros Hl Hc. unfold build. rewrite op_priority_tie, (parse_render _ _ s e Hl). simpl.
  rewrite tree_of_strip. by apply evaluate_tree_of.
Qed.

(** the model's ParserHelper algebra is an instance: its operator table is the regenerated
    map read with these Python operators *)
Definition pv_ops : pyops pval :=
  PyOps pval (pv_add false) (pv_add true) pv_mul pv_div
    (λ a b, match a, b with PNum _ _, PNum _ _ => Err EOther | _, _ => pv_div a b end)
    (λ _ _, Err EOther) pv_pow (PNum (-1) false).
Lemma pv_binop_is_tables k : k ≠ "+/-" → pv_binop k = bin_of_tables pv_ops k.
Proof.
  intros Hk. unfold pv_binop, bin_of_tables. cbn [assoc EvalTables.binary_operator_map].
  repeat (match goal with |- context [String.eqb k ?s] =>
                  destruct (String.eqb_spec k s) as [-> | ?] end; try reflexivity; try congruence).
Qed.
Lemma pv_unop_is_tables k : pv_unop k = un_of_tables pv_ops k.
Proof.
  unfold pv_unop, un_of_tables. cbn [assoc EvalTables.unary_operator_map].
  repeat (match goal with |- context [String.eqb k ?s] =>
                  destruct (String.eqb_spec k s) as [-> | ?] end; try reflexivity; try congruence).
Qed.

(** * Numeric literals keep the registry's numeric type; integers stay integers in the float
    registry ([ParserHelper.eval_token]) *)
Lemma literals_keep_type n s :
  (n = NFloat → is_int_lit s = true → lit_kind n s = KInt) ∧
  (n = NFloat → is_int_lit s = false → lit_kind n s = KFloat) ∧
  (n = NDecimal → lit_kind n s = KDecimal) ∧
  (n = NFraction → lit_kind n s = KFraction).
Proof. repeat split; intros ->; try done; unfold lit_kind; by intros ->. Qed.
Lemma int_literal_examples :
  is_int_lit "42" = true ∧ is_int_lit "1_000" = true ∧ is_int_lit "2.5" = false
  ∧ is_int_lit "1e3" = false ∧ is_int_lit "" = false ∧ is_int_lit "1__0" = false.
Proof. vm_compute. done. Qed.
