(** Proofs/EvalUnc.v — the concise uncertainty notation denotes "digits in units of the last
    decimal of the nominal value" (C07, +/- spelling variants). *)
From Coq Require Import ZArith Lia Ascii.
From PintV Require Import Model.UC Model.Eval Model.Grammar Model.EvalRun.
Open Scope nat_scope.
Open Scope list_scope.

Definition dstep (acc : N) (a : ascii) : N :=
  if is_digit a then (10 * acc + digit_val a)%N else acc.
Lemma dval_zeros k l : dval (replicate k "0"%char ++ l) = dval l.
Proof.
  unfold dval. rewrite fold_left_app. f_equal.
  induction k as [|k IH]; [done|]. simpl. exact IH.
Qed.
Lemma dval_point l1 l2 : dval (l1 ++ "."%char :: l2) = dval (l1 ++ l2).
Proof. unfold dval. rewrite !fold_left_app. reflexivity. Qed.

(** the token is [ip.fp] with exactly [ndec] decimals and the digits' own value: its decimal
    reading is [dval digits / 10^ndec] *)
Theorem concise_value (ndec : nat) (ds : list ascii) :
  0 < ndec →
  ∃ ip fp, concise ndec ds = ip ++ "."%char :: fp ∧ length fp = ndec ∧ 1 ≤ length ip
           ∧ dval (ip ++ fp) = dval ds
           ∧ ip ++ fp = replicate (S ndec - length ds) "0"%char ++ ds.
Proof.
  intros Hn. destruct ndec as [|n]; [lia|]. unfold concise.
  set (padded := replicate (S (S n) - length ds) "0"%char ++ ds).
  assert (Hlen : S (S n) ≤ length padded).
  { unfold padded. rewrite app_length, replicate_length. lia. }
  exists (take (length padded - S n) padded), (drop (length padded - S n) padded).
  split; [done|]. split; [rewrite drop_length; lia|]. split; [rewrite take_length; lia|].
  rewrite take_drop. split; [apply dval_zeros|done].
Qed.
Theorem concise_no_decimals ds : concise 0 ds = ds.
Proof. reflexivity. Qed.
Lemma concise_examples :
  concise_text 2 "4" = "0.04"%string ∧ concise_text 1 "34" = "3.4"%string
  ∧ concise_text 2 "5678" = "56.78"%string ∧ concise_text 3 "10" = "0.010"%string
  ∧ concise_text 0 "4" = "4"%string ∧ concise_text 2 "100" = "1.00"%string.
Proof. vm_compute. repeat split. Qed.

(** * Integer literals denote their exact decimal value, whatever their size *)
Lemma dval_snoc_digit l a :
  is_digit a = true → dval (l ++ [a]) = (10 * dval l + digit_val a)%N.
Proof. intros H. unfold dval. rewrite fold_left_app. simpl. by rewrite H. Qed.
Lemma dval_snoc_other l a : is_digit a = false → dval (l ++ [a]) = dval l.
Proof. intros H. unfold dval. rewrite fold_left_app. simpl. by rewrite H. Qed.
Lemma lit_int_value_examples :
  lit_int_value "9007199254740993" = 9007199254740993%N
  ∧ lit_int_value "1700000000123456789" = 1700000000123456789%N
  ∧ lit_int_value "340282366920938463463374607431768211457" = 340282366920938463463374607431768211457%N
  ∧ lit_int_value "1_000" = 1000%N ∧ is_int_lit "9007199254740993" = true.
Proof. vm_compute. repeat split. Qed.
