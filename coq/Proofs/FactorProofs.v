From Coq Require Import Qpower.
From PintV Require Import Model.UC Model.Eval Model.Registry Proofs.UCProofs Proofs.RegistryProofs Proofs.RootProofs.
Open Scope string_scope.
Arguments dim_rec : simpl never.
Arguments root_rec : simpl never.
Arguments reg_fuel : simpl never.

(** * Integer powers of rationals *)
Lemma this_Q2Qc q : (this (Q2Qc q) == q)%Q.
Proof. simpl. apply Qred_correct. Qed.
Lemma Qcpower_Q (s : Qc) n : (this (Qcpower s n) == this s ^ Z.of_nat n)%Q.
Proof.
  induction n as [|n IH].
  - simpl. reflexivity.
  - change (Qcpower s (S n)) with (s * Qcpower s n)%Qc.
    unfold Qcmult. rewrite this_Q2Qc, IH, Nat2Z.inj_succ.
    unfold Z.succ. rewrite Qpower_plus' by lia. rewrite Qpower_1_r. ring.
Qed.
Definition pw (s : Qc) (z : Z) : Qc := default 0%Qc (Qc_powZ s z).
Lemma Qc_neq0 (s : Qc) : s ≠ 0%Qc → ¬ (this s == 0)%Q.
Proof. intros H E. apply H. apply Qc_is_canon. exact E. Qed.
Lemma Qc_powZ_Some s z : s ≠ 0%Qc → Qc_powZ s z = Some (pw s z).
Proof.
  intros H. unfold pw. destruct z; simpl; try reflexivity.
  destruct (qz s) eqn:E; [apply qz_spec in E; contradiction | reflexivity].
Qed.
Lemma pw_Q s z : s ≠ 0%Qc → (this (pw s z) == this s ^ z)%Q.
Proof.
  intros H. unfold pw. destruct z as [|p|p]; simpl Qc_powZ.
  - reflexivity.
  - simpl default. rewrite Qcpower_Q, positive_nat_Z. reflexivity.
  - destruct (qz s) eqn:E; [apply qz_spec in E; contradiction|]. simpl default.
    unfold Qcinv. rewrite this_Q2Qc, Qcpower_Q, positive_nat_Z.
    change (Z.neg p) with (- Z.pos p)%Z. rewrite Qpower_opp. reflexivity.
Qed.
Lemma pw_add s a b : s ≠ 0%Qc → pw s (a + b) = (pw s a * pw s b)%Qc.
Proof.
  intros H. apply Qc_is_canon. unfold Qcmult. rewrite this_Q2Qc, !pw_Q by assumption.
  apply Qpower_plus. apply Qc_neq0. exact H.
Qed.
Lemma pw_0 s : pw s 0 = 1%Qc.
Proof. reflexivity. Qed.
Lemma pw_opp s a : s ≠ 0%Qc → pw s (- a) = (/ pw s a)%Qc.
Proof.
  intros H. apply Qc_is_canon. unfold Qcinv. rewrite this_Q2Qc, !pw_Q by assumption. apply Qpower_opp.
Qed.
Lemma pw_neq0 s a : s ≠ 0%Qc → pw s a ≠ 0%Qc.
Proof.
  intros H E. apply (Qpower_not_0 (this s) a (Qc_neq0 s H)). rewrite <- pw_Q by assumption. rewrite E. reflexivity.
Qed.
Lemma pw_mul s a b : s ≠ 0%Qc → pw s (a * b) = pw (pw s a) b.
Proof.
  intros H. apply Qc_is_canon. rewrite (pw_Q (pw s a) b) by (apply pw_neq0; assumption).
  rewrite (pw_Q s (a * b)), (pw_Q s a) by assumption. apply Qpower_mult.
Qed.

(** * Integer-valued exponents *)
Definition inum (q : Qc) : Z := Qnum (this q).
Lemma is_int_this q : is_int q = true → this q = (inum q # 1).
Proof.
  unfold is_int, inum. intros H. apply Pos.eqb_eq in H. destruct (this q) as [n d]. simpl in *. subst. reflexivity.
Qed.
Lemma Qred_int z : Qred (z # 1) = (z # 1).
Proof. apply Qred_identity. simpl. apply Z.gcd_1_r. Qed.
Lemma is_int_add a b : is_int a = true → is_int b = true →
  is_int (a + b) = true ∧ inum (a + b) = (inum a + inum b)%Z.
Proof.
  intros Ha Hb. unfold is_int, inum, Qcplus, Q2Qc. simpl this.
  rewrite (is_int_this a Ha), (is_int_this b Hb). unfold Qplus. simpl Qnum. simpl Qden.
  rewrite !Z.mul_1_r. rewrite Qred_int. simpl. split; reflexivity.
Qed.
Lemma is_int_mul a b : is_int a = true → is_int b = true →
  is_int (a * b) = true ∧ inum (a * b) = (inum a * inum b)%Z.
Proof.
  intros Ha Hb. unfold is_int, inum, Qcmult, Q2Qc. simpl this.
  rewrite (is_int_this a Ha), (is_int_this b Hb). unfold Qmult. simpl Qnum. simpl Qden.
  rewrite Qred_int. simpl. split; reflexivity.
Qed.
Lemma is_int_0 : is_int 0 = true ∧ inum 0 = 0%Z. Proof. split; reflexivity. Qed.
Lemma is_int_m1 : is_int (-1) = true ∧ inum (-1) = (-1)%Z. Proof. split; reflexivity. Qed.
Definition integral (F : uc) : Prop := map_Forall (λ _ e, is_int e = true) F.
Lemma integral_exp F k : integral F → is_int (exp_of F k) = true.
Proof. intros H. unfold exp_of. destruct (F !! k) eqn:E; simpl; [exact (H k _ E) | reflexivity]. Qed.
Lemma integral_of_exp F : (∀ k, is_int (exp_of F k) = true) → integral F.
Proof. intros H k e E. specialize (H k). unfold exp_of in H. rewrite E in H. exact H. Qed.
Lemma integral_mul F G : integral F → integral G → integral (uc_mul F G).
Proof.
  intros HF HG. apply integral_of_exp. intros k. rewrite exp_of_mul.
  apply is_int_add; apply integral_exp; assumption.
Qed.
Lemma integral_pow F n : integral F → is_int n = true → integral (uc_pow F n).
Proof.
  intros HF Hn. apply integral_of_exp. intros k. rewrite exp_of_pow.
  apply is_int_mul; [apply integral_exp; assumption | assumption].
Qed.
Lemma integral_div F G : wf F → integral F → integral G → integral (uc_div F G).
Proof.
  intros W HF HG. rewrite uc_div_as_mul_inv by assumption. apply integral_mul; [assumption|].
  apply integral_pow; [assumption | reflexivity].
Qed.
Lemma integral_empty : integral ∅. Proof. apply map_Forall_empty. Qed.

(** * Value of a symbolic factor *)
Section Mprod.
  Context (sc : string → Qc) (Hnz : ∀ g, sc g ≠ 0%Qc).
  Definition weight (g : string) (e : Qc) : Qc := pw (sc g) (inum e).
  Definition mprod (F : uc) : Qc := map_fold (λ g e s, (weight g e * s)%Qc) 1%Qc F.
  Lemma mprod_empty : mprod ∅ = 1%Qc. Proof. apply map_fold_empty. Qed.
  Lemma mprod_insert F i x : F !! i = None → mprod (<[i:=x]> F) = (weight i x * mprod F)%Qc.
  Proof.
    intros H. unfold mprod. apply (map_fold_insert_L (λ g e s, (weight g e * s)%Qc)); [|exact H]. intros. ring.
  Qed.
  Lemma mprod_delete F i x : F !! i = Some x → mprod F = (weight i x * mprod (delete i F))%Qc.
  Proof. intros H. rewrite <- (insert_delete F i x H) at 1. apply mprod_insert. apply lookup_delete. Qed.
  Lemma weight_add g a b : is_int a = true → is_int b = true → weight g (a + b) = (weight g a * weight g b)%Qc.
  Proof. intros Ha Hb. unfold weight. rewrite (proj2 (is_int_add a b Ha Hb)). apply pw_add. apply Hnz. Qed.
  Lemma weight_0 g : weight g 0 = 1%Qc. Proof. reflexivity. Qed.
  Lemma mprod_add F i x : integral F → is_int x = true → mprod (uc_add F i x) = (mprod F * weight i x)%Qc.
  Proof.
    intros HF Hx. unfold uc_add, exp_of. destruct (F !! i) as [y|] eqn:E; simpl.
    - rewrite (mprod_delete F i y E). pose proof (HF i y E) as Hy. qz_cases.
      + assert (W : (weight i y * weight i x = 1)%Qc) by (rewrite <- weight_add, E0 by assumption; reflexivity).
        rewrite <- Qcmult_assoc, (Qcmult_comm (mprod _)), Qcmult_assoc, W. ring.
      + rewrite <- (insert_delete_insert F). rewrite mprod_insert by apply lookup_delete.
        rewrite weight_add by assumption. ring.
    - qz_cases.
      + rewrite delete_notin by assumption. replace x with (0 + x)%Qc by ring. rewrite E0. rewrite weight_0. ring.
      + rewrite mprod_insert by assumption. replace (0 + x)%Qc with x by ring. ring.
  Qed.
  Lemma mprod_mul F G : integral F → integral G → mprod (uc_mul F G) = (mprod F * mprod G)%Qc.
  Proof.
    intros HF. induction G as [|i x G Hi IH] using map_ind; intros HG.
    - rewrite uc_mul_empty_r, mprod_empty. ring.
    - assert (HG' : integral G) by (eapply map_Forall_insert_1_2; eassumption).
      assert (Hx : is_int x = true) by (apply (HG i x); apply lookup_insert).
      rewrite uc_mul_insert_r by assumption. rewrite mprod_add by (try apply integral_mul; assumption).
      rewrite IH, mprod_insert by assumption. ring.
  Qed.
  Lemma weight_neq0 g e : weight g e ≠ 0%Qc.
  Proof. apply pw_neq0. apply Hnz. Qed.
  Lemma mprod_neq0 F : mprod F ≠ 0%Qc.
  Proof.
    induction F as [|i x F Hi IH] using map_ind.
    - rewrite mprod_empty. discriminate.
    - rewrite mprod_insert by assumption. intros E. apply Qcmult_integral in E as [E|E]; [exact (weight_neq0 _ _ E) | exact (IH E)].
  Qed.
  Lemma mprod_inv F : integral F → mprod (uc_inv F) = (/ mprod F)%Qc.
  Proof.
    induction F as [|i x F Hi IH] using map_ind; intros HF.
    - unfold uc_inv. rewrite uc_pow_empty, mprod_empty. reflexivity.
    - assert (HF' : integral F) by (eapply map_Forall_insert_1_2; eassumption).
      assert (Hx : is_int x = true) by (apply (HF i x); apply lookup_insert).
      unfold uc_inv, uc_pow. rewrite omap_insert. fold (uc_pow F (-1)). fold (uc_inv F).
      assert (Hn : uc_inv F !! i = None) by (unfold uc_inv; rewrite lookup_uc_pow, Hi; reflexivity).
      rewrite (mprod_insert F) by assumption. simpl. qz_cases.
      + assert (x = 0%Qc) as -> by (match goal with H : (_ * _ = 0)%Qc |- _ => apply Qcmult_integral in H as [H|H]; [exact H | discriminate H] end).
        rewrite delete_notin by assumption. rewrite weight_0, IH by assumption. rewrite Qcmult_1_l. reflexivity.
      + rewrite mprod_insert by assumption. rewrite IH by assumption.
        assert (W : weight i (x * -1) = (/ weight i x)%Qc).
        { unfold weight. rewrite (proj2 (is_int_mul x (-1) Hx eq_refl)).
          change (inum (-1)) with (-1)%Z. rewrite Z.mul_comm. change (-1 * inum x)%Z with (- inum x)%Z.
          replace (-1 * inum x)%Z with (- inum x)%Z by lia. apply pw_opp. apply Hnz. }
        rewrite W. field. split; [apply mprod_neq0 | apply weight_neq0].
  Qed.
  Lemma mprod_div F G : wf F → integral F → integral G → mprod (uc_div F G) = (mprod F / mprod G)%Qc.
  Proof.
    intros W HF HG. rewrite uc_div_as_mul_inv by assumption.
    rewrite mprod_mul by (try apply integral_pow; (assumption || reflexivity)).
    rewrite mprod_inv by assumption. reflexivity.
  Qed.
End Mprod.

(** * [eval_factor] computes [mprod] on integral factors *)
Definition gscale (r : reg) (g : string) : Qc :=
  match resolve r g with Ok d => if u_float d then 1%Qc else u_scale d | Err _ => 1%Qc end.
(** every definition whose scale is a genuine rational (not the placeholder of an irrational
    float scale) has a non-zero scale *)
Definition reg_nz (r : reg) : Prop := ∀ s d, resolve r s = Ok d → u_float d = false → u_scale d ≠ 0%Qc.
Definition gens_ok (r : reg) (F : uc) : Prop :=
  ∀ g e, F !! g = Some e → ∃ d, resolve r g = Ok d ∧ u_float d = false.
Lemma gscale_nz r : reg_nz r → ∀ g, gscale r g ≠ 0%Qc.
Proof.
  intros H g. unfold gscale. destruct (resolve r g) eqn:E; [|discriminate].
  destruct (u_float a) eqn:Ef; [discriminate | eapply H; eassumption].
Qed.

Definition ef_step (r : reg) (acc : option Qc) (kv : string * Qc) : res (option Qc) :=
  let '(g, e) := kv in
  d ←r resolve r g;
  match acc with
  | None => Ok None
  | Some x =>
      if u_float d then Ok None
      else if is_int e then
        match Qc_powZ (u_scale d) (Qnum (this e)) with
        | Some y => Ok (Some (x * y)%Qc)
        | None => Err EZeroDiv
        end
      else Ok None
  end.
Lemma eval_factor_unfold r F : eval_factor r F = foldM (ef_step r) (map_to_list F) (Some 1%Qc).
Proof. reflexivity. Qed.
Lemma ef_fold r (Hnz : reg_nz r) l x :
  (∀ g e, (g, e) ∈ l → is_int e = true ∧ ∃ d, resolve r g = Ok d ∧ u_float d = false) →
  foldM (ef_step r) l (Some x) =
  Ok (Some (x * foldr (λ kv s, (weight (gscale r) kv.1 kv.2 * s)%Qc) 1%Qc l)%Qc).
Proof.
  revert x. induction l as [|[g e] l IH]; intros x H; simpl.
  - do 2 f_equal. ring.
  - destruct (H g e) as (Hi & d & Hd & Hf); [left|]. rewrite Hd. simpl. rewrite Hf, Hi.
    rewrite (Qc_powZ_Some (u_scale d)) by (eapply Hnz; eassumption). simpl.
    rewrite IH by (intros g' e' Hin; apply H; right; exact Hin).
    unfold weight, gscale, inum. rewrite Hd, Hf. do 2 f_equal. ring.
Qed.
Theorem eval_factor_exact r F :
  reg_nz r → gens_ok r F → integral F → eval_factor r F = Ok (Some (mprod (gscale r) F)).
Proof.
  intros Hnz Hg Hi. rewrite eval_factor_unfold, ef_fold; [|assumption|].
  - unfold mprod, map_fold. simpl. do 2 f_equal. rewrite Qcmult_1_l.
    induction (map_to_list F) as [|[k v] l IH]; simpl; congruence.
  - intros g e Hin. apply elem_of_map_to_list in Hin. split; [exact (Hi g e Hin) | exact (Hg g e Hin)].
Qed.

(** * Conversion factors: value, identity, inverse, path independence *)
Lemma root_of_sem r a f B ex : root_of r a = Ok (f, B, ex) → ∃ F, rsem r a = Some (F, B) ∧ eval_factor r F = Ok f.
Proof.
  unfold root_of. destruct (root_sym r a) as [acc|] eqn:E; simpl; [|discriminate].
  destruct (eval_factor r (ra_F acc)) as [f'|] eqn:E2; simpl; [|discriminate].
  intros [= <- <- <-]. exists (ra_F acc). split; [apply root_sym_Ok; exact E | exact E2].
Qed.
Lemma root_of_from_sem r a F B f : rsem r a = Some (F, B) → eval_factor r F = Ok f → ∃ ex, root_of r a = Ok (f, B, ex).
Proof.
  intros H E. pose proof (root_sym_sem r a) as S. rewrite H in S. destruct S as (_ & _ & ex & Hs).
  exists ex. unfold root_of. rewrite Hs. simpl. rewrite E. reflexivity.
Qed.

Definition exact_unit (r : reg) (a : uc) (F B : uc) : Prop :=
  rsem r a = Some (F, B) ∧ integral F ∧ gens_ok r F.

Lemma gens_ok_mul r F G : gens_ok r F → gens_ok r G → gens_ok r (uc_mul F G).
Proof.
  intros HF HG g e H. destruct (uc_mul_dom F G g) as [[x Hx]|[x Hx]]; [rewrite H; eauto | eauto | eauto].
Qed.
Lemma gens_ok_div r F G : gens_ok r F → gens_ok r G → gens_ok r (uc_div F G).
Proof.
  intros HF HG g e H. destruct (uc_div_dom F G g) as [[x Hx]|[x Hx]]; [rewrite H; eauto | eauto | eauto].
Qed.

Theorem conv_factor_value r a b Fa Ba Fb Bb d :
  reg_nz r → wf a → exact_unit r a Fa Ba → exact_unit r b Fb Bb →
  dim_of r a = Ok d → dim_of r b = Ok d →
  ∃ ex, conv_factor r a b = Ok (Some (mprod (gscale r) Fa / mprod (gscale r) Fb)%Qc, ex).
Proof.
  intros Hnz Wa (Ha & Ia & Ga) (Hb & Ib & Gb) Da Db.
  destruct (rsem_wf _ _ _ _ Ha) as [WFa _].
  pose proof (rsem_div r a b _ _ _ _ Wa Ha Hb) as Hd.
  assert (E : eval_factor r (uc_div Fa Fb) = Ok (Some (mprod (gscale r) Fa / mprod (gscale r) Fb)%Qc)).
  { rewrite eval_factor_exact; [|assumption|apply gens_ok_div; assumption|apply integral_div; assumption].
    rewrite mprod_div by (try apply gscale_nz; assumption). reflexivity. }
  destruct (root_of_from_sem _ _ _ _ _ Hd E) as [ex Hr]. exists ex.
  unfold conv_factor. rewrite Da, Db. simpl. unfold uc_eqb. rewrite bool_decide_eq_true_2 by reflexivity.
  simpl. rewrite Hr. reflexivity.
Qed.
Theorem conv_factor_id r a d : dim_of r a = Ok d → conv_factor r a a = Ok (Some 1%Qc, true).
Proof.
  intros Da. unfold conv_factor. rewrite Da. simpl. unfold uc_eqb. rewrite bool_decide_eq_true_2 by reflexivity.
  simpl. rewrite uc_div_self. unfold root_of, root_sym. rewrite map_to_list_empty. reflexivity.
Qed.

Theorem conv_factor_inverse r a b Fa Ba Fb Bb d :
  reg_nz r → wf a → wf b → exact_unit r a Fa Ba → exact_unit r b Fb Bb →
  dim_of r a = Ok d → dim_of r b = Ok d →
  ∃ x y e1 e2, conv_factor r a b = Ok (Some x, e1) ∧ conv_factor r b a = Ok (Some y, e2) ∧ (x * y = 1)%Qc.
Proof.
  intros Hnz Wa Wb Ea Eb Da Db.
  destruct (conv_factor_value r a b _ _ _ _ d Hnz Wa Ea Eb Da Db) as [e1 H1].
  destruct (conv_factor_value r b a _ _ _ _ d Hnz Wb Eb Ea Db Da) as [e2 H2].
  do 4 eexists. split; [exact H1|]. split; [exact H2|].
  field. split; apply mprod_neq0; apply gscale_nz; assumption.
Qed.
Theorem conv_factor_path r a b c Fa Ba Fb Bb Fc Bc d :
  reg_nz r → wf a → wf b → exact_unit r a Fa Ba → exact_unit r b Fb Bb → exact_unit r c Fc Bc →
  dim_of r a = Ok d → dim_of r b = Ok d → dim_of r c = Ok d →
  ∃ x y z e1 e2 e3, conv_factor r a b = Ok (Some x, e1) ∧ conv_factor r b c = Ok (Some y, e2)
                    ∧ conv_factor r a c = Ok (Some z, e3) ∧ (x * y = z)%Qc.
Proof.
  intros Hnz Wa Wb Ea Eb Ec Da Db Dc.
  destruct (conv_factor_value r a b _ _ _ _ d Hnz Wa Ea Eb Da Db) as [e1 H1].
  destruct (conv_factor_value r b c _ _ _ _ d Hnz Wb Eb Ec Db Dc) as [e2 H2].
  destruct (conv_factor_value r a c _ _ _ _ d Hnz Wa Ea Ec Da Dc) as [e3 H3].
  do 6 eexists. split; [exact H1|]. split; [exact H2|]. split; [exact H3|].
  field. split; apply mprod_neq0; apply gscale_nz; assumption.
Qed.
(** the factor of a product / power is the product / power of the factors *)
Theorem exact_unit_mul r a b Fa Ba Fb Bb :
  exact_unit r a Fa Ba → exact_unit r b Fb Bb → exact_unit r (uc_mul a b) (uc_mul Fa Fb) (uc_mul Ba Bb).
Proof.
  intros (Ha & Ia & Ga) (Hb & Ib & Gb). split; [apply rsem_mul; assumption|].
  split; [apply integral_mul; assumption | apply gens_ok_mul; assumption].
Qed.
Theorem factor_mul r a b Fa Ba Fb Bb :
  reg_nz r → exact_unit r a Fa Ba → exact_unit r b Fb Bb →
  mprod (gscale r) (uc_mul Fa Fb) = (mprod (gscale r) Fa * mprod (gscale r) Fb)%Qc.
Proof. intros Hnz (_ & Ia & _) (_ & Ib & _). apply mprod_mul; try assumption. apply gscale_nz. assumption. Qed.

(** * Decidable side conditions (for the bundled registry they are checked by computation) *)
Definition integralb (F : uc) : bool := forallb (λ kv, is_int kv.2) (map_to_list F).
Lemma integralb_spec F : integralb F = true → integral F.
Proof.
  unfold integralb. rewrite forallb_forall. intros H k e E.
  apply (H (k, e)). apply elem_of_list_In. apply elem_of_map_to_list. exact E.
Qed.
Definition gens_okb (r : reg) (F : uc) : bool :=
  forallb (λ kv, match resolve r kv.1 with Ok d => negb (u_float d) | Err _ => false end) (map_to_list F).
Lemma gens_okb_spec r F : gens_okb r F = true → gens_ok r F.
Proof.
  unfold gens_okb. rewrite forallb_forall. intros H g e E.
  specialize (H (g, e)). simpl in H. destruct (resolve r g) as [d|] eqn:Er.
  - exists d. split; [reflexivity|]. apply negb_true_iff. apply H. apply elem_of_list_In. apply elem_of_map_to_list. exact E.
  - discriminate H. apply elem_of_list_In. apply elem_of_map_to_list. exact E.
Qed.
Definition exact_unitb (r : reg) (a : uc) : bool :=
  match root_sym r a with
  | Ok acc => integralb (ra_F acc) && gens_okb r (ra_F acc)
  | Err _ => false
  end.
Lemma exact_unitb_spec r a : exact_unitb r a = true → ∃ F B, exact_unit r a F B.
Proof.
  unfold exact_unitb. destruct (root_sym r a) as [acc|] eqn:E; [|discriminate].
  intros H. apply andb_true_iff in H as [H1 H2]. exists (ra_F acc), (ra_B acc).
  split; [apply root_sym_Ok; exact E|]. split; [apply integralb_spec; exact H1 | apply gens_okb_spec; exact H2].
Qed.
Definition reg_nzb (r : reg) : bool :=
  forallb (λ kv, negb (qz (u_scale kv.2)) || u_float kv.2) (map_to_list (r_units r)) &&
  forallb (λ kv, negb (qz (p_val kv.2))) (map_to_list (r_prefixes r)).
Lemma reg_nzb_spec r : reg_nzb r = true → reg_nz r.
Proof.
  unfold reg_nzb. intros H. apply andb_true_iff in H as [HU HP].
  rewrite forallb_forall in HU, HP.
  assert (U : ∀ k d, r_units r !! k = Some d → u_float d = false → u_scale d ≠ 0%Qc).
  { intros k d E Hf. apply qz_false. specialize (HU (k, d)). simpl in HU. rewrite Hf, orb_false_r in HU.
    apply negb_true_iff. apply HU. apply elem_of_list_In, elem_of_map_to_list, E. }
  assert (P : ∀ k p, r_prefixes r !! k = Some p → p_val p ≠ 0%Qc).
  { intros k p E. apply qz_false. apply negb_true_iff. apply (HP (k, p)). apply elem_of_list_In, elem_of_map_to_list, E. }
  intros s d. unfold resolve. destruct (r_units r !! s) eqn:E1; [intros [= <-]; eauto|].
  destruct (parse_unit_name r s) as [|[p u] l]; [discriminate|].
  destruct (String.eqb p "").
  - destruct (r_units r !! u) eqn:E2; [intros [= <-]; eauto | discriminate].
  - destruct (r_units r !! (p ++ u)) eqn:E5; [intros [= <-]; eauto|].
    unfold prefixed_def. destruct (r_prefixes r !! p) eqn:E3; [|discriminate].
    destruct (r_units r !! u) as [ud|] eqn:E4; [|discriminate].
    destruct (negb (u_multiplicative ud)); [discriminate|].
    destruct (get_symbol r (p ++ u)); simpl; [|discriminate]. intros [= <-] _. simpl. eauto.
Qed.
